(* C37/Seq.v — sequential use of the API (one call at a time, queued removals interleaving freely), as the harness
   drives it, and the proof that every such run of the model passes the executable oracle [Spec.spec_ok] as long as
   the history stays outside the known class (request_name).  This ties the oracle that judges the implementation's output to
   the invariants of C37/Proofs.v (and shows the oracle raises no alarm on code that behaves like the model). *)
From Coq Require Import List NArith Bool Arith Lia.
From ZV Require Import Base.Bytes Base.WinnowFacts C37.Model C37.Spec C37.Proofs C37.Sched.
Import ListNotations.

(* ------------------------------------------------------------------ runs of one foreground program *)
Definition pend_step (c : conn) (pre : list rule) (r : rule) (post : list rule) : conn :=
  let '(s, es) := remove_match r (subs c) (evs c) in
  {| subs := s; pend := pre ++ post; held := held c; thr := thr c; evs := es |}.

Inductive run_prog : conn -> prog -> conn -> Prop :=
| rp_done c : run_prog c [] c
| rp_instr c i rest c' :
    run_prog (fst (exec i rest c)) (snd (exec i rest c)) c' -> run_prog c (i :: rest) c'
| rp_pend c pre r post p c' :
    pend c = pre ++ r :: post -> run_prog (pend_step c pre r post) p c' -> run_prog c p c'.

Inductive run_item : conn -> item -> conn -> Prop :=
| ri_op c o c' : run_prog c (prog_of o) c' -> run_item c (IOp o) c'
| ri_tick c c' : run_prog c [] c' -> run_item c ITick c'
| ri_idle c c' : run_prog c [] c' -> pend c' = [] -> run_item c IIdle c'.

Inductive run_items : conn -> list (item * list ev) -> conn -> Prop :=
| ris_nil c : run_items c [] c
| ris_cons c it new c1 rest c2 :
    run_item c it c1 -> evs c1 = evs c ++ new -> run_items c1 rest c2 -> run_items c ((it, new) :: rest) c2.

Definition plain_item (it : item) : bool :=
  match it with IOp o => plain_op o | IOp2 _ _ => false | ITick | IIdle => true end.

(* ------------------------------------------------------------------ embedding into [steps] *)
Lemma exec_with_thr i rest c t :
  exec i rest (with_thr c t) = (with_thr (fst (exec i rest c)) t, snd (exec i rest c)).
Proof.
  destruct i as [h r|h|h|h' h|p r|p r|p r|r]; cbn [exec with_thr subs pend held thr evs].
  - destruct (add_match r (subs c) (evs c)). reflexivity.
  - destruct (release_last h (held c)) as [[[r|] hl]|]; [|reflexivity|reflexivity]. destruct (remove_match r (subs c) (evs c)). reflexivity.
  - reflexivity.
  - reflexivity.
  - destruct (has_any p (held c)); reflexivity.
  - destruct (add_match r (subs c) (evs c)). reflexivity.
  - destruct (has_any p (held c)); [|reflexivity]. destruct (remove_match r (subs c) (evs c)). reflexivity.
  - destruct (add_match r (subs c) (evs c)). reflexivity.
Qed.

Lemma with_thr_twice c a b : with_thr (with_thr c a) b = with_thr c b.
Proof. reflexivity. Qed.

Lemma run_prog_steps allowed done c p c' :
  run_prog c p c' -> steps allowed (with_thr c (done ++ [p])) (with_thr c' (done ++ [[]])).
Proof.
  induction 1 as [c|c i rest c' R IH|c pre r post p c' P R IH].
  - apply steps_refl.
  - eapply steps_cons; [|exact IH].
    pose proof (StInstr allowed (with_thr c (done ++ [i :: rest])) done i rest [] eq_refl) as S.
    rewrite exec_with_thr in S. cbn [fst snd] in S. exact S.
  - eapply steps_cons; [|exact IH].
    pose proof (StPend allowed (with_thr c (done ++ [p])) pre r post P) as S.
    unfold pend_step. cbn [with_thr subs pend held thr evs] in *.
    destruct (remove_match r (subs c) (evs c)). exact S.
Qed.

Lemma steps_trans allowed a b c : steps allowed a b -> steps allowed b c -> steps allowed a c.
Proof. intros A B. induction B as [|x y z B IH S]; [exact A|]. eapply steps_snoc; [apply IH; exact A|exact S]. Qed.

(* ------------------------------------------------------------------ what a step does to held and to the trace *)
Definition hstep (i : instr) (hl : list sub) : list sub :=
  match i with
  | ISub h r => hl ++ [([h], r)]
  | IAsyncDrop h => match release_last h hl with Some (_, hl') => hl' | None => hl end
  | IDrop h => fst (drop_all h hl)
  | IClone h' h => share h' h hl
  | IOwnerCheck _ _ | IOwnerAdd _ _ | ILeak _ => hl
  | IOwnerSet p r => if has_any p hl then hl else hl ++ [([p], r)]
  end.

Definition pstep (i : instr) (rest : prog) (hl : list sub) : prog :=
  match i with
  | IAsyncDrop h => match release_last h hl with Some _ => IAsyncDrop h :: rest | None => rest end
  | IOwnerCheck p r => if has_any p hl then rest else IOwnerAdd p r :: rest
  | IOwnerAdd p r => IOwnerSet p r :: rest
  | _ => rest
  end.

Lemma exec_held i rest c :
  held (fst (exec i rest c)) = hstep i (held c) /\ snd (exec i rest c) = pstep i rest (held c).
Proof.
  destruct i as [h r|h|h|h' h|p r|p r|p r|r]; cbn [exec hstep pstep].
  - destruct (add_match r (subs c) (evs c)). auto.
  - destruct (release_last h (held c)) as [[[r|] hl]|]; [|auto|auto]. destruct (remove_match r (subs c) (evs c)). auto.
  - auto.
  - auto.
  - destruct (has_any p (held c)); auto.
  - destruct (add_match r (subs c) (evs c)). auto.
  - destruct (has_any p (held c)); [|auto]. destruct (remove_match r (subs c) (evs c)). auto.
  - destruct (add_match r (subs c) (evs c)). auto.
Qed.

Inductive held_final : list sub -> prog -> list sub -> Prop :=
| hf_done hl : held_final hl [] hl
| hf_step hl i rest hl' : held_final (hstep i hl) (pstep i rest hl) hl' -> held_final hl (i :: rest) hl'.

Lemma pend_step_held c pre r post : held (pend_step c pre r post) = held c.
Proof. unfold pend_step. destruct (remove_match r (subs c) (evs c)). reflexivity. Qed.

Lemma run_prog_held c p c' : run_prog c p c' -> held_final (held c) p (held c').
Proof.
  induction 1 as [c|c i rest c' R IH|c pre r post p c' P R IH].
  - constructor.
  - destruct (exec_held i rest c) as [H1 H2]. rewrite H1, H2 in IH. constructor. exact IH.
  - rewrite pend_step_held in IH. exact IH.
Qed.

(* the effect of each whole operation on who holds what = the API-level bookkeeping of the specification *)
Definition cnt (h : hid) (l : list sub) : nat := List.length (filter (has h) l).

Lemma has_without h x : has h (without h x) = false.
Proof.
  unfold has, without. cbn [fst]. induction (fst x) as [|k t IH]; [reflexivity|]. cbn [filter].
  destruct (k =? h)%N eqn:E; cbn [negb]; [exact IH|]. cbn [existsb]. rewrite IH, orb_false_r.
  rewrite N.eqb_sym. exact E.
Qed.

Lemma release_last_none h : forall l, release_last h l = None -> fst (drop_all h l) = l.
Proof.
  induction l as [|x t IH]; [reflexivity|]. cbn [release_last drop_all].
  destruct (release_last h t) as [[o t']|]; [discriminate|].
  destruct (has h x) eqn:E; [destruct (emptied (without h x)); discriminate|]. intros _.
  specialize (IH eq_refl). destruct (drop_all h t) as [t' q]. cbn [fst] in *. rewrite IH. reflexivity.
Qed.

Lemma release_last_some h : forall l o l', release_last h l = Some (o, l') ->
  fst (drop_all h l) = fst (drop_all h l') /\ cnt h l = S (cnt h l').
Proof.
  induction l as [|x t IH]; intros o l' H; cbn [release_last] in H; [discriminate|].
  destruct (release_last h t) as [[o1 t']|] eqn:T.
  - injection H as Ho Hl; subst o1 l'. destruct (IH o t' eq_refl) as [F L]. cbn [drop_all]. unfold cnt in *. cbn [filter].
    destruct (drop_all h t) as [a qa]. destruct (drop_all h t') as [b qb]. cbn [fst] in F. subst b.
    split; [destruct (has h x); [destruct (emptied (without h x))|]; reflexivity|].
    destruct (has h x); cbn [length]; lia.
  - destruct (has h x) eqn:E; [|discriminate]. unfold cnt. cbn [filter]. rewrite E. cbn [length].
    destruct (emptied (without h x)) eqn:Em; injection H as Ho Hl; subst o l'; cbn [drop_all]; rewrite ?E, ?Em.
    + destruct (drop_all h t) as [a qa]. auto.
    + rewrite has_without. cbn [filter]. rewrite has_without. destruct (drop_all h t) as [a qa]. auto.
Qed.

Lemma async_drop_final h : forall n hl hl', cnt h hl <= n ->
  held_final hl [IAsyncDrop h] hl' -> hl' = fst (drop_all h hl).
Proof.
  induction n as [|n IH]; intros hl hl' L H; inversion H as [|? ? ? ? H1]; subst; cbn [hstep pstep] in H1.
  - destruct (release_last h hl) as [[o l1]|] eqn:T.
    + destruct (release_last_some h hl o l1 T) as [_ L1]. lia.
    + inversion H1; subst. symmetry. apply release_last_none. exact T.
  - destruct (release_last h hl) as [[o l1]|] eqn:T.
    + destruct (release_last_some h hl o l1 T) as [F L1]. rewrite F. apply IH; [lia|exact H1].
    + inversion H1; subst. symmetry. apply release_last_none. exact T.
Qed.

Lemma op_final hl o hl' : plain_op o = true -> held_final hl (prog_of o) hl' -> hl' = objs_after_op hl o.
Proof.
  intros P H. destruct o as [h r|h' h|h|h|h p [n|] sg|a l]; cbn [prog_of objs_after_op] in *; try discriminate.
  - inversion H as [|? ? ? ? H1]; subst. cbn [hstep pstep] in H1. inversion H1; subst. reflexivity.
  - inversion H as [|? ? ? ? H1]; subst. cbn [hstep pstep] in H1. inversion H1; subst. reflexivity.
  - inversion H as [|? ? ? ? H1]; subst. cbn [hstep pstep] in H1. inversion H1; subst. reflexivity.
  - apply (async_drop_final h (cnt h hl) hl hl' (le_n _) H).
  - inversion H as [|? ? ? ? H1]; subst. cbn [hstep pstep] in H1.
    destruct (has_any p hl) eqn:A.
    + inversion H1 as [|? ? ? ? H2]; subst. cbn [hstep pstep] in H2.
      inversion H2 as [|? ? ? ? H3]; subst. cbn [hstep pstep] in H3. inversion H3; subst.
      rewrite <- app_assoc. reflexivity.
    + inversion H1 as [|? ? ? ? H2]; subst. cbn [hstep pstep] in H2.
      inversion H2 as [|? ? ? ? H3]; subst. cbn [hstep pstep] in H3. rewrite A in H3.
      inversion H3 as [|? ? ? ? H4]; subst. cbn [hstep pstep] in H4.
      inversion H4 as [|? ? ? ? H5]; subst. cbn [hstep pstep] in H5. inversion H5; subst.
      rewrite <- !app_assoc. reflexivity.
  - inversion H as [|? ? ? ? H1]; subst. cbn [hstep pstep] in H1. inversion H1; subst. reflexivity.
Qed.

(* ------------------------------------------------------------------ the trace only grows, by at most one event per action *)
Lemma add_match_evs r s es : snd (add_match r s es) = es \/ exists e, snd (add_match r s es) = es ++ [e].
Proof.
  unfold add_match, sig_ev. destruct (s r); cbn [snd]; [|auto]. destruct (is_sig r); [right; eauto|left; apply app_nil_r].
Qed.

Lemma remove_match_evs r s es : snd (remove_match r s es) = es \/ exists e, snd (remove_match r s es) = es ++ [e].
Proof.
  unfold remove_match, sig_ev. destruct (s r) as [|[|n]]; cbn [snd]; auto.
  destruct (is_sig r); [right; eauto|left; apply app_nil_r].
Qed.

Lemma exec_evs i rest c :
  evs (fst (exec i rest c)) = evs c \/ exists e, evs (fst (exec i rest c)) = evs c ++ [e].
Proof.
  destruct i as [h r|h|h|h' h|p r|p r|p r|r]; cbn [exec].
  - pose proof (add_match_evs r (subs c) (evs c)) as A. destruct (add_match r (subs c) (evs c)). exact A.
  - destruct (release_last h (held c)) as [[[r|] hl]|]; [|auto|auto].
    pose proof (remove_match_evs r (subs c) (evs c)) as A. destruct (remove_match r (subs c) (evs c)). exact A.
  - auto.
  - auto.
  - destruct (has_any p (held c)); auto.
  - pose proof (add_match_evs r (subs c) (evs c)) as A. destruct (add_match r (subs c) (evs c)). exact A.
  - destruct (has_any p (held c)); [|auto].
    pose proof (remove_match_evs r (subs c) (evs c)) as A. destruct (remove_match r (subs c) (evs c)). exact A.
  - pose proof (add_match_evs r (subs c) (evs c)) as A. destruct (add_match r (subs c) (evs c)). exact A.
Qed.

Lemma pend_step_evs c pre r post :
  evs (pend_step c pre r post) = evs c \/ exists e, evs (pend_step c pre r post) = evs c ++ [e].
Proof.
  unfold pend_step. pose proof (remove_match_evs r (subs c) (evs c)) as A.
  destruct (remove_match r (subs c) (evs c)). exact A.
Qed.

Lemma run_prog_evs c p c' : run_prog c p c' -> exists new, evs c' = evs c ++ new.
Proof.
  induction 1 as [c|c i rest c' R [n IH]|c pre r post p c' P R [n IH]].
  - exists []. symmetry. apply app_nil_r.
  - destruct (exec_evs i rest c) as [E|[e E]]; rewrite E in IH; [eauto|]. rewrite <- app_assoc in IH. eauto.
  - destruct (pend_step_evs c pre r post) as [E|[e E]]; rewrite E in IH; [eauto|]. rewrite <- app_assoc in IH. eauto.
Qed.

(* ------------------------------------------------------------------ live subscribers move one way during one call *)
Definition up_instr (i : instr) : bool :=
  match i with ISub _ _ | IClone _ _ | IOwnerCheck _ _ | IOwnerAdd _ _ | IOwnerSet _ _ => true | _ => false end.
Definition down_instr (i : instr) : bool :=
  match i with IAsyncDrop _ | IDrop _ => true | _ => false end.

Definition lv (hl : list sub) (r : rule) : nat := count_rule r (map snd hl).

Lemma lv_live c r : live c r = lv (held c) r.
Proof. reflexivity. Qed.

Lemma up_hstep i hl r : up_instr i = true -> lv hl r <= lv (hstep i hl) r.
Proof.
  unfold lv. destruct i as [h r0|h|h|h' h|p r0|p r0|p r0|r0]; cbn [up_instr hstep]; try discriminate; intros _; try apply le_n.
  - rewrite map_app, count_rule_app. apply Nat.le_add_r.
  - rewrite share_rules. apply le_n.
  - destruct (has_any p hl); [apply le_n|]. rewrite map_app, count_rule_app. apply Nat.le_add_r.
Qed.

Lemma down_hstep i hl r : down_instr i = true -> lv (hstep i hl) r <= lv hl r.
Proof.
  unfold lv. destruct i as [h r0|h|h|h' h|p r0|p r0|p r0|r0]; cbn [down_instr hstep]; try discriminate; intros _.
  - destruct (release_last h hl) as [[o l1]|] eqn:T; [|apply le_n]. rewrite (release_last_count h hl o l1 T r). apply Nat.le_add_r.
  - rewrite (drop_partition h r hl). apply Nat.le_add_r.
Qed.

Lemma up_pstep i rest hl : up_instr i = true -> forallb up_instr rest = true -> forallb up_instr (pstep i rest hl) = true.
Proof.
  destruct i as [h r0|h|h|h' h|p r0|p r0|p r0|r0]; cbn [up_instr pstep]; try discriminate; intros _ R; try exact R.
  destruct (has_any p hl); [exact R|]. cbn [forallb up_instr]. exact R.
Qed.

Lemma down_pstep i rest hl : down_instr i = true -> forallb down_instr rest = true -> forallb down_instr (pstep i rest hl) = true.
Proof.
  destruct i as [h r0|h|h|h' h|p r0|p r0|p r0|r0]; cbn [down_instr pstep]; try discriminate; intros _ R; try exact R.
  destruct (release_last h hl); [|exact R]. cbn [forallb down_instr]. exact R.
Qed.

Lemma prog_direction o : plain_op o = true ->
  forallb up_instr (prog_of o) = true \/ forallb down_instr (prog_of o) = true.
Proof. destruct o as [h r|h' h|h|h|h p [n|] sg|a l]; cbn; auto; discriminate. Qed.

(* ------------------------------------------------------------------ no RemoveMatch while in use, for a whole call *)
Definition all_done (done : list prog) : Prop := Forall (fun p => p = []) done.

Lemma step_instr_reach done c i rest :
  reachable plain_op (with_thr c (done ++ [i :: rest])) ->
  step plain_op (with_thr c (done ++ [i :: rest])) (with_thr (fst (exec i rest c)) (done ++ [snd (exec i rest c)])).
Proof.
  intros _. pose proof (StInstr plain_op (with_thr c (done ++ [i :: rest])) done i rest [] eq_refl) as S.
  rewrite exec_with_thr in S. exact S.
Qed.

Lemma step_pend_reach done c p pre r post :
  pend c = pre ++ r :: post ->
  step plain_op (with_thr c (done ++ [p])) (with_thr (pend_step c pre r post) (done ++ [p])).
Proof.
  intro P. pose proof (StPend plain_op (with_thr c (done ++ [p])) pre r post P) as S.
  unfold pend_step. cbn [with_thr subs pend held thr evs] in *. destruct (remove_match r (subs c) (evs c)). exact S.
Qed.

Lemma split_new (es new e1 new2 : list ev) : es ++ new = (es ++ e1) ++ new2 -> new = e1 ++ new2.
Proof. rewrite <- app_assoc. apply app_inv_head. Qed.

Lemma run_rem done c p c' :
  run_prog c p c' -> reachable plain_op (with_thr c (done ++ [p])) ->
  forall new, evs c' = evs c ++ new ->
  (forallb up_instr p = true -> forall r, lv (held c) r <= lv (held c') r /\ (In (ERem r) new -> lv (held c) r = 0)) /\
  (forallb down_instr p = true -> forall r, lv (held c') r <= lv (held c) r /\ (In (ERem r) new -> lv (held c') r = 0)).
Proof.
  induction 1 as [c|c i rest c' R IH|c pre r0 post p c' P R IH]; intros Re new E.
  - assert (new = []) by (apply (app_inv_head (evs c)); rewrite app_nil_r; symmetry; exact E). subst new.
    split; intros _ r; (split; [lia|intros []]).
  - pose proof (step_instr_reach done c i rest Re) as S.
    assert (Re1 : reachable plain_op (with_thr (fst (exec i rest c)) (done ++ [snd (exec i rest c)])))
      by (eapply steps_snoc; [exact Re|exact S]).
    destruct (exec_held i rest c) as [Hh Hp].
    assert (Rem1 : forall r, evs (fst (exec i rest c)) = evs c ++ [ERem r] -> lv (held (fst (exec i rest c))) r = 0).
    { intros r Er. apply (no_premature_remove _ _ r Re S). exact Er. }
    destruct (exec_evs i rest c) as [Ev|[e Ev]].
    + rewrite Ev in IH. specialize (IH Re1 new E). rewrite Hp, Hh in IH. destruct IH as [IU ID].
      split; intros D r; cbn [forallb] in D; apply andb_true_iff in D; destruct D as [D1 D2].
      * specialize (IU (up_pstep i rest (held c) D1 D2) r).
        pose proof (up_hstep i (held c) r D1). destruct IU as [IU1 IU2]. split; [lia|]. intro I. specialize (IU2 I). lia.
      * specialize (ID (down_pstep i rest (held c) D1 D2) r).
        pose proof (down_hstep i (held c) r D1). destruct ID as [ID1 ID2]. split; [lia|exact ID2].
    + assert (N : exists new2, new = [e] ++ new2).
      { destruct (run_prog_evs _ _ _ R) as [n2 E2]. exists n2. rewrite Ev in E2. rewrite E2 in E.
        apply (split_new (evs c) new [e] n2). symmetry. exact E. }
      destruct N as [new2 N]. subst new.
      assert (E2 : evs c' = evs (fst (exec i rest c)) ++ new2) by (rewrite Ev, E, <- app_assoc; reflexivity).
      specialize (IH Re1 new2 E2). rewrite Hp, Hh in IH. destruct IH as [IU ID].
      split; intros D r; cbn [forallb] in D; apply andb_true_iff in D; destruct D as [D1 D2].
      * specialize (IU (up_pstep i rest (held c) D1 D2) r).
        pose proof (up_hstep i (held c) r D1) as U. destruct IU as [IU1 IU2]. split; [lia|].
        intros [I|I].
        -- subst e. specialize (Rem1 r Ev). rewrite Hh in Rem1. lia.
        -- specialize (IU2 I). lia.
      * specialize (ID (down_pstep i rest (held c) D1 D2) r).
        pose proof (down_hstep i (held c) r D1) as U. destruct ID as [ID1 ID2]. split; [lia|].
        intros [I|I].
        -- subst e. specialize (Rem1 r Ev). rewrite Hh in Rem1. lia.
        -- exact (ID2 I).
  - pose proof (step_pend_reach done c p pre r0 post P) as S.
    assert (Re1 : reachable plain_op (with_thr (pend_step c pre r0 post) (done ++ [p])))
      by (eapply steps_snoc; [exact Re|exact S]).
    assert (Rem1 : forall r, evs (pend_step c pre r0 post) = evs c ++ [ERem r] -> lv (held (pend_step c pre r0 post)) r = 0).
    { intros r Er. apply (no_premature_remove _ _ r Re S). exact Er. }
    rewrite pend_step_held in *.
    destruct (pend_step_evs c pre r0 post) as [Ev|[e Ev]].
    + rewrite Ev in IH. exact (IH Re1 new E).
    + assert (N : exists new2, new = [e] ++ new2).
      { destruct (run_prog_evs _ _ _ R) as [n2 E2]. exists n2. rewrite Ev in E2. rewrite E2 in E.
        apply (split_new (evs c) new [e] n2). symmetry. exact E. }
      destruct N as [new2 N]. subst new.
      assert (E2 : evs c' = evs (pend_step c pre r0 post) ++ new2) by (rewrite Ev, E, <- app_assoc; reflexivity).
      specialize (IH Re1 new2 E2). destruct IH as [IU ID].
      split; intros D r.
      * destruct (IU D r) as [IU1 IU2]. split; [exact IU1|]. intros [I|I]; [subst e; exact (Rem1 r Ev)|exact (IU2 I)].
      * destruct (ID D r) as [ID1 ID2]. split; [exact ID1|]. intros [I|I]; [|exact (ID2 I)].
        subst e. specialize (Rem1 r Ev). lia.
Qed.

(* ------------------------------------------------------------------ the trace discipline, read from any prefix *)
Lemma trace_ok_snoc_inv l x : trace_ok (l ++ [x]) -> trace_ok l /\ ev_ok l x.
Proof.
  intro H. inversion H as [E|es e T V E].
  - destruct l; discriminate.
  - apply app_inj_tail in E. destruct E; subst. auto.
Qed.

Lemma trace_ok_app_l a b : trace_ok (a ++ b) -> trace_ok a.
Proof.
  induction b as [|x b IH] using rev_ind; [rewrite app_nil_r; auto|].
  rewrite app_assoc. intro H. apply trace_ok_snoc_inv in H. apply IH, H.
Qed.

Lemma events_okb_intro : forall new es before after,
  trace_ok (es ++ new) ->
  (forall r, In (ERem r) new -> before r = 0 \/ after r = 0) ->
  events_okb es before after new = true.
Proof.
  induction new as [|e new IH]; intros es before after T R; [reflexivity|].
  cbn [events_okb]. apply andb_true_iff. split.
  - assert (T1 : trace_ok (es ++ [e])).
    { apply (trace_ok_app_l (es ++ [e]) new). rewrite <- app_assoc. exact T. }
    apply trace_ok_snoc_inv in T1. destruct T1 as [_ [G V]].
    unfold ev_okb. rewrite G. cbn [andb]. destruct e as [r|r]; cbn [ev_rule] in *.
    + rewrite V. reflexivity.
    + rewrite V. cbn [andb]. destruct (R r (or_introl eq_refl)) as [Z|Z]; rewrite Z; cbn; auto using orb_true_r.
  - apply IH.
    + rewrite <- app_assoc. exact T.
    + intros r I. apply R. right. exact I.
Qed.

(* ------------------------------------------------------------------ queued removals during one call *)
Definition no_drop (i : instr) : bool := match i with IDrop _ => false | _ => true end.

Lemma exec_pend i rest c :
  pend (fst (exec i rest c)) = pend c ++ (match i with IDrop h => snd (drop_all h (held c)) | _ => [] end).
Proof.
  destruct i as [h r|h|h|h' h|p r|p r|p r|r]; cbn [exec]; try (rewrite app_nil_r).
  - destruct (add_match r (subs c) (evs c)). reflexivity.
  - destruct (release_last h (held c)) as [[[r|] hl]|]; [|reflexivity|reflexivity]. destruct (remove_match r (subs c) (evs c)). reflexivity.
  - reflexivity.
  - reflexivity.
  - destruct (has_any p (held c)); reflexivity.
  - destruct (add_match r (subs c) (evs c)). reflexivity.
  - destruct (has_any p (held c)); [|reflexivity]. destruct (remove_match r (subs c) (evs c)). reflexivity.
  - destruct (add_match r (subs c) (evs c)). reflexivity.
Qed.

Lemma pend_step_pend c pre r post : pend (pend_step c pre r post) = pre ++ post.
Proof. unfold pend_step. destruct (remove_match r (subs c) (evs c)). reflexivity. Qed.

Lemma no_drop_pstep i rest hl : no_drop i = true -> forallb no_drop rest = true -> forallb no_drop (pstep i rest hl) = true.
Proof.
  destruct i as [h r0|h|h|h' h|p r0|p r0|p r0|r0]; cbn [no_drop pstep]; try discriminate; intros _ R; try exact R.
  - destruct (release_last h hl); [|exact R]. cbn [forallb no_drop]. exact R.
  - destruct (has_any p hl); [exact R|]. cbn [forallb no_drop]. exact R.
Qed.

(* what is queued at the end was queued at the start or was queued by an IDrop of the program, whose object held it
   at the start (the only program with an IDrop is [IDrop h] itself) *)
Lemma run_pend_nodrop c p c' :
  run_prog c p c' -> forallb no_drop p = true -> forall r, In r (pend c') -> In r (pend c).
Proof.
  induction 1 as [c|c i rest c' R IH|c pre r0 post p c' P R IH]; intros N r I.
  - exact I.
  - cbn [forallb] in N. apply andb_true_iff in N. destruct N as [N1 N2].
    destruct (exec_held i rest c) as [_ Hp]. rewrite Hp in IH.
    specialize (IH (no_drop_pstep i rest (held c) N1 N2) r I). rewrite exec_pend in IH.
    destruct i; try discriminate; rewrite app_nil_r in IH; exact IH.
  - specialize (IH N r I). rewrite pend_step_pend in IH. rewrite P.
    apply in_app_or in IH. apply in_or_app. destruct IH; [left|right; right]; assumption.
Qed.

Lemma run_pend_drop h : forall c p c',
  run_prog c p c' -> p = [IDrop h] -> forall r, In r (pend c') -> In r (pend c) \/ In r (snd (drop_all h (held c))).
Proof.
  induction 1 as [c|c i rest c' R IH|c pre r0 post p c' P R IH]; intros Ep r I.
  - discriminate.
  - inversion Ep; subst. cbn [exec fst snd] in R.
    pose proof (run_pend_nodrop _ _ _ R eq_refl r I) as J. cbn [pend] in J. apply in_app_or in J. exact J.
  - specialize (IH Ep r I). rewrite pend_step_pend, pend_step_held in IH. rewrite P.
    destruct IH as [J|J]; [left|right; exact J].
    apply in_app_or in J. apply in_or_app. destruct J; [left|right; right]; assumption.
Qed.

(* ------------------------------------------------------------------ the link between the model's state and the oracle's *)
Lemma mem_rule_In r l : In r l -> mem_rule r l = true.
Proof.
  intro I. unfold mem_rule. apply existsb_exists. exists r. split; [exact I|apply lbeq_refl].
Qed.

Lemma count_pos_In r : forall l, 0 < count_rule r l -> In r l.
Proof.
  induction l as [|x t IH]; [cbn; lia|]. rewrite count_rule_cons. intro H.
  destruct (lbeq r x) eqn:E; [left; symmetry; apply lbeq_eq; exact E|right; apply IH; cbn [ind] in H; lia].
Qed.

Lemma In_count_pos r : forall l, In r l -> 0 < count_rule r l.
Proof.
  induction l as [|x t IH]; [intros []|]. rewrite count_rule_cons. intros [E|I].
  - subst. rewrite lbeq_refl. cbn. lia.
  - specialize (IH I). lia.
Qed.

Lemma owed_done r done : all_done done -> owed r done = 0.
Proof.
  induction 1 as [|p t Hp T IH]; [reflexivity|]. rewrite owed_cons, IH, Hp. reflexivity.
Qed.

Record link (c : conn) (s : ost) (done : list prog) : Prop := {
  lk_reach : reachable plain_op (with_thr c done);
  lk_done : all_done done;
  lk_held : held c = o_objs s;
  lk_evs : evs c = o_evs s;
  lk_pend : forall r, In r (pend c) -> mem_rule r (o_maybe s) = true }.

Lemma link_init : link init ost0 [].
Proof. split; try reflexivity; try constructor. intros r []. Qed.

(* the two end-of-item checks follow from the invariants at a state where no future is in flight *)
Lemma end_checks c s done :
  link c s done ->
  forallb (fun r => negb (is_sig r) || bus_has (o_evs s) r) (map snd (o_objs s)) = true /\
  forallb (fun e => negb (bus_has (o_evs s) (ev_rule e))
                    || (0 <? subscribers (o_objs s) (ev_rule e)) || mem_rule (ev_rule e) (o_maybe s)) (o_evs s) = true.
Proof.
  intros [Re Dn Hh He Hp]. split; apply forallb_forall.
  - intros r I. destruct (is_sig r) eqn:G; [|reflexivity]. cbn [negb orb].
    rewrite <- He. apply (in_use_registered _ Re r); [|exact G].
    unfold live. cbn [with_thr held]. rewrite Hh. apply In_count_pos. exact I.
  - intros e _. destruct (bus_has (o_evs s) (ev_rule e)) eqn:Bh; [|reflexivity]. cbn [negb orb].
    rewrite <- He in Bh. destruct (registered_accounted _ Re (ev_rule e) Bh) as [Pos _].
    cbn [with_thr thr pend] in Pos. rewrite (owed_done _ done Dn) in Pos.
    unfold live in Pos. cbn [with_thr held] in Pos. rewrite Hh in Pos.
    unfold subscribers. destruct (0 <? count_rule (ev_rule e) (map snd (o_objs s))) eqn:L; [reflexivity|].
    apply Nat.ltb_ge in L. cbn [orb]. apply Hp. apply count_pos_In. lia.
Qed.

Lemma run_idle_steps done c c' :
  run_prog c [] c' -> steps plain_op (with_thr c done) (with_thr c' done).
Proof.
  intro R. remember [] as p eqn:Ep. induction R as [c|c i rest c' R IH|c pre r post p c' P R IH]; try discriminate.
  - apply steps_refl.
  - subst p. eapply steps_cons; [|apply IH; reflexivity].
    pose proof (StPend plain_op (with_thr c done) pre r post P) as S.
    unfold pend_step. cbn [with_thr subs pend held thr evs] in *. destruct (remove_match r (subs c) (evs c)). exact S.
Qed.

Lemma run_idle_rem done c c' :
  run_prog c [] c' -> reachable plain_op (with_thr c done) ->
  forall new, evs c' = evs c ++ new -> held c' = held c /\ forall r, In (ERem r) new -> lv (held c) r = 0.
Proof.
  intro R. remember [] as p eqn:Ep. induction R as [c|c i rest c' R IH|c pre r0 post p c' P R IH]; try discriminate; intros Re new E.
  - assert (new = []) by (apply (app_inv_head (evs c)); rewrite app_nil_r; symmetry; exact E). subst new.
    split; [reflexivity|intros r []].
  - subst p.
    assert (S : step plain_op (with_thr c done) (with_thr (pend_step c pre r0 post) done)).
    { pose proof (StPend plain_op (with_thr c done) pre r0 post P) as S.
      unfold pend_step. cbn [with_thr subs pend held thr evs] in *. destruct (remove_match r0 (subs c) (evs c)). exact S. }
    assert (Re1 : reachable plain_op (with_thr (pend_step c pre r0 post) done)) by (eapply steps_snoc; [exact Re|exact S]).
    assert (Rem1 : forall r, evs (pend_step c pre r0 post) = evs c ++ [ERem r] -> lv (held (pend_step c pre r0 post)) r = 0).
    { intros r Er. apply (no_premature_remove _ _ r Re S). exact Er. }
    rewrite pend_step_held in *.
    destruct (pend_step_evs c pre r0 post) as [Ev|[e Ev]].
    + rewrite Ev in IH. exact (IH eq_refl Re1 new E).
    + assert (N : exists new2, new = [e] ++ new2).
      { destruct (run_prog_evs _ _ _ R) as [n2 E2]. exists n2. rewrite Ev in E2. rewrite E2 in E.
        apply (split_new (evs c) new [e] n2). symmetry. exact E. }
      destruct N as [new2 N]. subst new.
      assert (E2 : evs c' = evs (pend_step c pre r0 post) ++ new2) by (rewrite Ev, E, <- app_assoc; reflexivity).
      destruct (IH eq_refl Re1 new2 E2) as [Hh Hr]. split; [exact Hh|].
      intros r [I|I]; [subst e; exact (Rem1 r Ev)|exact (Hr r I)].
Qed.

Lemma all_done_snoc done : all_done done -> all_done (done ++ [[]]).
Proof. intro D. apply Forall_app. split; [exact D|constructor; [reflexivity|constructor]]. Qed.

(* adding a finished future to the bookkeeping list does not matter for the invariants we use: we keep the list as it
   is for tick/idle items, and let it grow by one finished future per API call *)
Theorem item_sound c s done it new c1 :
  link c s done -> plain_item it = true -> run_item c it c1 -> evs c1 = evs c ++ new ->
  item_ok s it new = true /\ exists done', link c1 (ost_after s it new) done'.
Proof.
  intros L Pl R E. pose proof L as [Re Dn Hh He Hp].
  destruct R as [c o c1 R|c c1 R|c c1 R Pe].
  - (* an API call *)
    cbn [plain_item] in Pl.
    assert (Re0 : reachable plain_op (with_thr c (done ++ [prog_of o]))).
    { eapply steps_snoc; [exact Re|]. apply (StSpawn plain_op (with_thr c done) o Pl). }
    assert (Re1 : reachable plain_op (with_thr c1 (done ++ [[]]))).
    { unfold reachable in *. eapply steps_trans; [exact Re0|apply run_prog_steps; exact R]. }
    assert (H1 : held c1 = objs_after_op (held c) o) by (apply op_final; [exact Pl|apply run_prog_held; exact R]).
    assert (L1 : link c1 (ost_after s (IOp o) new) (done ++ [[]])).
    { split.
      - exact Re1.
      - apply all_done_snoc, Dn.
      - cbn [ost_after o_objs objs_after]. rewrite H1, Hh. reflexivity.
      - cbn [ost_after o_evs]. rewrite E, He. reflexivity.
      - intros r I. cbn [ost_after o_maybe].
        destruct o as [h r0|h' h|h|h|h p n sg|a l]; try discriminate.
        + cbn [maybe_after]. apply Hp. apply (run_pend_nodrop _ _ _ R eq_refl r I).
        + cbn [maybe_after]. apply Hp. apply (run_pend_nodrop _ _ _ R eq_refl r I).
        + cbn [maybe_after]. unfold mem_rule. rewrite existsb_app. apply orb_true_iff.
          destruct (run_pend_drop h _ _ _ R eq_refl r I) as [J|J].
          * left. apply Hp. exact J.
          * right. rewrite <- Hh. apply mem_rule_In. exact J.
        + cbn [maybe_after]. apply Hp. apply (run_pend_nodrop _ _ _ R eq_refl r I).
        + cbn [maybe_after]. apply Hp. destruct n; apply (run_pend_nodrop _ _ _ R eq_refl r I). }
    split; [|eauto].
    unfold item_ok. destruct (end_checks _ _ _ L1) as [C1 C2]. rewrite C1, C2, !andb_true_r.
    apply events_okb_intro.
    + cbn [ost_after o_evs] in *. rewrite <- He, <- E. apply (no_double_add _ _ Re1).
    + intros r I. cbn [ost_after o_objs objs_after]. unfold subscribers. rewrite <- Hh, <- H1.
      destruct (run_rem done c (prog_of o) c1 R Re0 new E) as [U D].
      destruct (prog_direction o Pl) as [Dir|Dir].
      * left. apply (U Dir r). exact I.
      * right. apply (D Dir r). exact I.
  - (* tick *)
    assert (Re1 : reachable plain_op (with_thr c1 done)).
    { unfold reachable in *. eapply steps_trans; [exact Re|apply run_idle_steps; exact R]. }
    destruct (run_idle_rem done c c1 R Re new E) as [H1 Rm].
    assert (L1 : link c1 (ost_after s ITick new) done).
    { split; [exact Re1|exact Dn| | |].
      - cbn [ost_after o_objs objs_after]. rewrite H1. exact Hh.
      - cbn [ost_after o_evs]. rewrite E, He. reflexivity.
      - intros r I. cbn [ost_after o_maybe maybe_after]. apply Hp. apply (run_pend_nodrop _ _ _ R eq_refl r I). }
    split; [|eauto].
    unfold item_ok. destruct (end_checks _ _ _ L1) as [C1 C2]. rewrite C1, C2, !andb_true_r.
    apply events_okb_intro.
    + cbn [ost_after o_evs] in *. rewrite <- He, <- E. apply (no_double_add _ _ Re1).
    + intros r I. left. unfold subscribers. rewrite <- Hh. apply (Rm r I).
  - (* idle *)
    assert (Re1 : reachable plain_op (with_thr c1 done)).
    { unfold reachable in *. eapply steps_trans; [exact Re|apply run_idle_steps; exact R]. }
    destruct (run_idle_rem done c c1 R Re new E) as [H1 Rm].
    assert (L1 : link c1 (ost_after s IIdle new) done).
    { split; [exact Re1|exact Dn| | |].
      - cbn [ost_after o_objs objs_after]. rewrite H1. exact Hh.
      - cbn [ost_after o_evs]. rewrite E, He. reflexivity.
      - intros r I. rewrite Pe in I. destruct I. }
    split; [|eauto].
    unfold item_ok. destruct (end_checks _ _ _ L1) as [C1 C2]. rewrite C1, C2, !andb_true_r.
    apply events_okb_intro.
    + cbn [ost_after o_evs] in *. rewrite <- He, <- E. apply (no_double_add _ _ Re1).
    + intros r I. left. unfold subscribers. rewrite <- Hh. apply (Rm r I).
Qed.

(* every sequential run of the model, over any history outside the known class (request_name), passes the oracle *)
Theorem oracle_sound : forall run c s done c',
  link c s done -> forallb (fun x => plain_item (fst x)) run = true -> run_items c run c' -> spec_ok s run = true.
Proof.
  induction run as [|[it new] run IH]; intros c s done c' L Pl R; [reflexivity|].
  cbn [forallb fst] in Pl. apply andb_true_iff in Pl. destruct Pl as [P1 P2].
  inversion R as [|? ? ? c1 ? ? Ri E Rs]; subst.
  destruct (item_sound c s done it new c1 L P1 Ri E) as [Ok [done' L1]].
  cbn [spec_ok]. rewrite Ok. cbn [andb]. apply (IH c1 _ done' c' L1 P2 Rs).
Qed.

Corollary oracle_sound_init run c' :
  forallb (fun x => plain_item (fst x)) run = true -> run_items init run c' -> spec_ok ost0 run = true.
Proof. apply (oracle_sound run init ost0 [] c' link_init). Qed.

(* non-vacuity: two streams on one rule, one of them cloned; the original is dropped (nothing is queued: its clone still
   shares the subscription), the other stream is dropped (queued, runs at the idle point: still one subscription left),
   finally the clone is async-dropped: only now RemoveMatch goes out *)
Definition ex_rule : rule := B "type='signal',interface='a.b',member='X'".
Definition ex_seq_run : list (item * list ev) :=
  [ (IOp (OStream 1%N ex_rule), [EAdd ex_rule]); (IOp (OStream 2%N ex_rule), []); (IOp (OClone 3%N 1%N), []);
    (IOp (ODrop 1%N), []); (IOp (ODrop 2%N), []); (IIdle, []); (IOp (OAsyncDrop 3%N), [ERem ex_rule]) ].

Example ex_seq_ok :
  (exists c', run_items init ex_seq_run c') /\ forallb (fun x => plain_item (fst x)) ex_seq_run = true.
Proof.
  split; [|reflexivity]. eexists. unfold ex_seq_run.
  eapply ris_cons; [apply ri_op; cbn [prog_of]; eapply rp_instr; apply rp_done|reflexivity|].
  eapply ris_cons; [apply ri_op; cbn [prog_of]; eapply rp_instr; apply rp_done|reflexivity|].
  eapply ris_cons; [apply ri_op; cbn [prog_of]; eapply rp_instr; apply rp_done|reflexivity|].
  eapply ris_cons; [apply ri_op; cbn [prog_of]; eapply rp_instr; apply rp_done|reflexivity|].
  eapply ris_cons; [apply ri_op; cbn [prog_of]; eapply rp_instr; apply rp_done|reflexivity|].
  eapply ris_cons.
  - apply ri_idle.
    + eapply (rp_pend _ [] ex_rule []); [reflexivity|]. apply rp_done.
    + reflexivity.
  - reflexivity.
  - eapply ris_cons; [apply ri_op; cbn [prog_of]; eapply rp_instr; eapply rp_instr; apply rp_done|reflexivity|apply ris_nil].
Qed.
