(* C37/Sched.v — an executable scheduler for the interleaving semantics of C37/Model.v: a list of choices
   (start an API call / let future k perform its next action / run queued removal k) either is a valid run of [step]
   or is rejected.  Used for the witnesses of the refutations, the non-vacuity examples and by the trace checker
   (C37/Check.v).  The only proof here is that every accepted choice IS a [step]. *)
From Coq Require Import List NArith Bool Arith.
From ZV Require Import Base.Bytes C37.Model.
Import ListNotations.

Inductive choice := CSpawn (o : op) | CThread (k : nat) | CPend (k : nat).

Fixpoint split_nth {A} (k : nat) (l : list A) : option (list A * A * list A) :=
  match l, k with
  | [], _ => None
  | x :: t, O => Some ([], x, t)
  | x :: t, S k' => match split_nth k' t with Some (pre, y, post) => Some (x :: pre, y, post) | None => None end
  end.

Definition apply_choice (allowed : op -> bool) (ch : choice) (c : conn) : option conn :=
  match ch with
  | CSpawn o => if allowed o then Some (with_thr c (thr c ++ [prog_of o])) else None
  | CThread k =>
      match split_nth k (thr c) with
      | Some (pre, i :: rest, post) => Some (let '(c', p') := exec i rest c in with_thr c' (pre ++ p' :: post))
      | _ => None
      end
  | CPend k =>
      match split_nth k (pend c) with
      | Some (pre, r, post) =>
          Some (let '(s, es) := remove_match r (subs c) (evs c) in
                {| subs := s; pend := pre ++ post; held := held c; thr := thr c; evs := es |})
      | None => None
      end
  end.

Fixpoint run_choices (allowed : op -> bool) (l : list choice) (c : conn) : option conn :=
  match l with
  | [] => Some c
  | ch :: r => match apply_choice allowed ch c with Some c' => run_choices allowed r c' | None => None end
  end.

Lemma split_nth_spec {A} : forall k (l pre post : list A) x, split_nth k l = Some (pre, x, post) -> l = pre ++ x :: post.
Proof.
  induction k as [|k IH]; intros l pre post x H; destruct l as [|y t]; cbn [split_nth] in H; try discriminate.
  - inversion H; subst. reflexivity.
  - destruct (split_nth k t) as [[[p z] q]|] eqn:E; [|discriminate]. inversion H; subst.
    rewrite (IH t p post x E). reflexivity.
Qed.

Lemma apply_choice_step allowed ch c c' : apply_choice allowed ch c = Some c' -> step allowed c c'.
Proof.
  destruct ch as [o|k|k]; cbn [apply_choice]; intro H.
  - destruct (allowed o) eqn:A; [|discriminate]. inversion H; subst. apply StSpawn. exact A.
  - destruct (split_nth k (thr c)) as [[[pre p] post]|] eqn:E; [|discriminate].
    destruct p as [|i rest]; [discriminate|]. inversion H; subst.
    apply (StInstr allowed c pre i rest post). apply (split_nth_spec _ _ _ _ _ E).
  - destruct (split_nth k (pend c)) as [[[pre r] post]|] eqn:E; [|discriminate]. inversion H; subst.
    apply (StPend allowed c pre r post). apply (split_nth_spec _ _ _ _ _ E).
Qed.

Lemma steps_cons allowed c1 c2 c3 : step allowed c1 c2 -> steps allowed c2 c3 -> steps allowed c1 c3.
Proof.
  intros S R. induction R as [c|a b d R IH S2].
  - eapply steps_snoc; [apply steps_refl|exact S].
  - eapply steps_snoc; [apply IH; exact S|exact S2].
Qed.

Lemma run_choices_steps allowed : forall l c c', run_choices allowed l c = Some c' -> steps allowed c c'.
Proof.
  induction l as [|ch l IH]; intros c c' H; cbn [run_choices] in H.
  - inversion H; subst. apply steps_refl.
  - destruct (apply_choice allowed ch c) as [c1|] eqn:E; [|discriminate].
    eapply steps_cons; [apply (apply_choice_step _ _ _ _ E)|apply IH; exact H].
Qed.

Lemma run_choices_reachable allowed l c : run_choices allowed l init = Some c -> reachable allowed c.
Proof. apply run_choices_steps. Qed.

(* decidable quiescence *)
Definition quiescentb (c : conn) : bool :=
  match pend c with [] => forallb (fun p => match p with [] => true | _ => false end) (thr c) | _ => false end.

Lemma quiescentb_spec c : quiescentb c = true -> quiescent c.
Proof.
  unfold quiescentb, quiescent. destruct (pend c); [|discriminate]. intro H. split; [reflexivity|].
  apply Forall_forall. intros p Hp. rewrite forallb_forall in H. specialize (H p Hp). destruct p; [reflexivity|discriminate].
Qed.
