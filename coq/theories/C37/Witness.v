(* C37/Witness.v — concrete runs: the two refutations of the full statement, and non-vacuity examples (a run with a
   proxy whose two signal streams are created concurrently so that both futures pass the OnceLock check before either
   sets it — the "raced" branch of subscribe_dest_owner_change). *)
From Coq Require Import List NArith Bool Arith Lia.
From ZV Require Import Base.Bytes C37.Model C37.Spec C37.Proofs C37.Sched.
Import ListNotations.
Open Scope N_scope.

Definition r_sig : rule := B "type='signal',interface='a.b',member='X'".
Definition r_call : rule := B "type='method_call',interface='a.b'".
Definition r_noc : rule :=
  B "type='signal',sender='org.freedesktop.DBus',interface='org.freedesktop.DBus',member='NameOwnerChanged',path='/org/freedesktop/DBus',arg0='org.x.Y'".
Definition r_s1 : rule := B "type='signal',sender='org.x.Y',interface='a.b',member='S1',path='/x'".
Definition r_s2 : rule := B "type='signal',sender='org.x.Y',interface='a.b',member='S2',path='/x'".
Definition r_acq : rule :=
  B "type='signal',sender='org.freedesktop.DBus',interface='org.freedesktop.DBus',member='NameAcquired',arg0='org.zbus.A'".
Definition r_lost : rule :=
  B "type='signal',sender='org.freedesktop.DBus',interface='org.freedesktop.DBus',member='NameLost',arg0='org.zbus.A'".

(* ---- the full statement *)
Definition full_statement : Prop :=
  forall c, reachable any_op c -> quiescent c -> mirror c.

(* a stream is cloned and the clone is dropped: since 3c4a83a4 the clones share one subscription, nothing is removed
   while the original is alive; dropping the original too removes the rule (this was the witness of the former class
   clone_uncounted: RemoveMatch went out while the original was alive) *)
Definition w_clone : list choice :=
  [CSpawn (OStream 1 r_sig); CThread 0; CSpawn (OClone 2 1); CThread 1; CSpawn (ODrop 2); CThread 2].
Definition w_clone_end : list choice := [CSpawn (OAsyncDrop 1); CThread 3; CThread 3].

Example clone_repaired :
  (exists c, run_choices plain_op w_clone init = Some c /\ quiescent c /\ evs c = [EAdd r_sig] /\ live c r_sig = 1%nat /\
             held c = [([1], r_sig)] /\ bus_has (evs c) r_sig = true) /\
  (exists c, run_choices plain_op (w_clone ++ w_clone_end) init = Some c /\ quiescent c /\
             evs c = [EAdd r_sig; ERem r_sig] /\ held c = []).
Proof.
  split.
  - destruct (run_choices plain_op w_clone init) as [c|] eqn:E; [|vm_compute in E; discriminate].
    exists c. split; [reflexivity|].
    split; [apply quiescentb_spec|]; vm_compute in E; inversion E; subst; vm_compute; auto 10.
  - destruct (run_choices plain_op (w_clone ++ w_clone_end) init) as [c|] eqn:E; [|vm_compute in E; discriminate].
    exists c. split; [reflexivity|].
    split; [apply quiescentb_spec|]; vm_compute in E; inversion E; subst; vm_compute; auto 10.
Qed.

(* request_name registers the two monitor rules; nothing ever removes them *)
Definition w_leak : list choice := [CSpawn (OReqName r_acq r_lost); CThread 0; CThread 0].

Lemma leak_refuted :
  exists c, reachable any_op c /\ quiescent c /\ live c r_acq = 0%nat /\ bus_has (evs c) r_acq = true.
Proof.
  destruct (run_choices any_op w_leak init) as [c|] eqn:E; [|vm_compute in E; discriminate].
  exists c. split; [apply (run_choices_reachable _ _ _ E)|].
  split; [apply quiescentb_spec|]; vm_compute in E; inversion E; subst; vm_compute; auto.
Qed.

Lemma full_refuted : ~ full_statement.
Proof.
  intro F. destruct leak_refuted as (c & R & Q & L & Bh).
  destruct (F c R Q r_acq) as [M _]. destruct (M Bh) as [P _]. lia.
Qed.

(* ---- non-vacuity: plain operations only, a raced proxy, queued and foreground removals, a non-signal rule *)
Definition ex_run : list choice :=
  [ CSpawn (OStream 1 r_sig); CThread 0;
    CSpawn (OStream 2 r_sig); CThread 1;
    CSpawn (OStream 3 r_call); CThread 2;
    CSpawn (OSignal 10 9 (Some r_noc) r_s1); CSpawn (OSignal 11 9 (Some r_noc) r_s2);
    CThread 3; CThread 4;          (* both see the OnceLock unset *)
    CThread 3; CThread 4;          (* both add_match(noc) *)
    CThread 3;                     (* the first set() wins *)
    CThread 4;                     (* the second loses the race: remove_match(noc) *)
    CThread 3; CThread 3; CThread 4; CThread 4;
    CSpawn (ODrop 1); CThread 5;   (* queued *)
    CSpawn (OAsyncDrop 2); CThread 6; CThread 6;   (* foreground removal while another one is queued *)
    CPend 0 ].

Definition ex_mid : option conn := run_choices plain_op ex_run init.

Example ex_mid_ok :
  exists c, ex_mid = Some c /\ reachable plain_op c /\ quiescent c /\
    evs c = [EAdd r_sig; EAdd r_noc; EAdd r_s1; EAdd r_s2; ERem r_sig] /\
    subs c r_noc = 3%nat /\ live c r_noc = 3%nat /\ live c r_call = 1%nat /\ live c r_sig = 0%nat.
Proof.
  unfold ex_mid. destruct (run_choices plain_op ex_run init) as [c|] eqn:E; [|vm_compute in E; discriminate].
  exists c. split; [reflexivity|]. split; [apply (run_choices_reachable _ _ _ E)|].
  split; [apply quiescentb_spec|]; vm_compute in E; inversion E; subst; vm_compute; auto 10.
Qed.

Definition ex_rest : list choice :=
  [ CSpawn (ODrop 10); CThread 7; CSpawn (OAsyncDrop 11); CThread 8; CThread 8; CThread 8;
    CSpawn (ODrop 9); CThread 9; CSpawn (ODrop 3); CThread 10;
    CPend 3; CPend 0; CPend 0; CPend 0 ].

Example ex_end_ok :
  exists c, run_choices plain_op (ex_run ++ ex_rest) init = Some c /\ quiescent c /\
    List.length (evs c) = 8%nat /\ held c = [] /\
    bus_has (evs c) r_noc = false /\ bus_has (evs c) r_s1 = false /\ bus_has (evs c) r_s2 = false.
Proof.
  destruct (run_choices plain_op (ex_run ++ ex_rest) init) as [c|] eqn:E; [|vm_compute in E; discriminate].
  exists c. split; [reflexivity|].
  split; [apply quiescentb_spec|]; vm_compute in E; inversion E; subst; vm_compute; auto 10.
Qed.
