(* C37/Spec.v — "bus match registrations mirror the live signal subscriptions", stated on what the bus sees.

   1. the discipline of the trace itself ([trace_ok]): only signal rules; an AddMatch(r) only when r is not registered,
      a RemoveMatch(r) only when it is  ("no rule is added twice");
   2. [mirror]: when nothing is in flight and no removal is queued, the registered rules are exactly the signal rules
      with at least one live subscriber;
   3. a RemoveMatch(r) is never sent while r has a live subscriber ("nor removed while still in use").

   Live subscribers are counted at the API: a MessageStream together with its clones is one subscriber of its rule,
   alive until the last of them is dropped; a SignalStream subscribes to its signal rule and, for a well-known
   destination, to the NameOwnerChanged rule; a Proxy with a well-known destination subscribes to the NameOwnerChanged
   rule from its first signal stream until it is dropped ([objs_after]).

   [item_ok]/[spec_ok] is the executable form evaluated on an observed run: a sequence of completed API calls (and
   "tick"/"idle" pauses), each with the AddMatch/RemoveMatch calls the bus saw while it ran. *)
From Coq Require Import List NArith Bool Arith.
From ZV Require Import Base.Bytes C37.Model.
Import ListNotations.

Definition ev_rule (e : ev) : rule := match e with EAdd r | ERem r => r end.

Definition ev_ok (es : list ev) (e : ev) : Prop :=
  is_sig (ev_rule e) = true /\
  match e with EAdd r => bus_has es r = false | ERem r => bus_has es r = true end.

Inductive trace_ok : list ev -> Prop :=
| tok_nil : trace_ok []
| tok_snoc es e : trace_ok es -> ev_ok es e -> trace_ok (es ++ [e]).

Definition mirror (c : conn) : Prop :=
  forall r, bus_has (evs c) r = true <-> (0 < live c r /\ is_sig r = true).

(* ------------------------------------------------------------------ the executable oracle *)
Inductive item :=
| IOp (o : op)                (* one API call, run to completion *)
| IOp2 (o1 o2 : op)           (* two API calls in flight together, both run to completion *)
| ITick                       (* the executor ran some tasks *)
| IIdle.                      (* the executor ran until it had nothing left to do *)

Definition objs := list sub.        (* a subscriber: the objects that make it up (a stream and its clones), and its rule *)

Definition objs_after_op (ob : objs) (o : op) : objs :=
  match o with
  | OStream h r => ob ++ [([h], r)]
  | OClone h' h => share h' h ob
  | ODrop h | OAsyncDrop h => fst (drop_all h ob)
  | OSignal h p (Some n) sg => (if has_any p ob then ob else ob ++ [([p], n)]) ++ [([h], n); ([h], sg)]
  | OSignal h p None sg => ob ++ [([h], sg)]
  | OReqName _ _ => ob
  end.

Definition objs_after (ob : objs) (it : item) : objs :=
  match it with
  | IOp o => objs_after_op ob o
  | IOp2 o1 o2 => objs_after_op (objs_after_op ob o1) o2
  | ITick | IIdle => ob
  end.

Definition subscribers (ob : objs) (r : rule) : nat := count_rule r (map snd ob).
Definition mem_rule (r : rule) (l : list rule) : bool := existsb (lbeq r) l.

Definition ev_okb (es : list ev) (before after : rule -> nat) (e : ev) : bool :=
  is_sig (ev_rule e) &&
  match e with
  | EAdd r => negb (bus_has es r)
  | ERem r => bus_has es r && ((before r =? 0) || (after r =? 0))     (* not while in use *)
  end.

Fixpoint events_okb (es : list ev) (before after : rule -> nat) (new : list ev) : bool :=
  match new with
  | [] => true
  | e :: r => ev_okb es before after e && events_okb (es ++ [e]) before after r
  end.

Record ost := { o_objs : objs; o_evs : list ev; o_maybe : list rule }.
Definition ost0 : ost := {| o_objs := []; o_evs := []; o_maybe := [] |}.

(* rules whose removal may still be queued: those of subscribers whose last object was dropped (not async-dropped)
   since the last idle point *)
Definition maybe_after (s : ost) (it : item) : list rule :=
  match it with
  | IIdle => []
  | IOp (ODrop h) => o_maybe s ++ snd (drop_all h (o_objs s))
  | IOp2 (ODrop h) o2 => o_maybe s ++ snd (drop_all h (o_objs s))
  | _ => o_maybe s
  end.

Definition ost_after (s : ost) (it : item) (new : list ev) : ost :=
  {| o_objs := objs_after (o_objs s) it; o_evs := o_evs s ++ new; o_maybe := maybe_after s it |}.

Definition item_ok (s : ost) (it : item) (new : list ev) : bool :=
  let s' := ost_after s it new in
  events_okb (o_evs s) (subscribers (o_objs s)) (subscribers (o_objs s')) new
  (* in use => registered *)
  && forallb (fun r => negb (is_sig r) || bus_has (o_evs s') r) (map snd (o_objs s'))
  (* registered => in use, or its removal may still be queued *)
  && forallb (fun e => negb (bus_has (o_evs s') (ev_rule e))
                       || (0 <? subscribers (o_objs s') (ev_rule e)) || mem_rule (ev_rule e) (o_maybe s')) (o_evs s').

Fixpoint spec_ok (s : ost) (run : list (item * list ev)) : bool :=
  match run with
  | [] => true
  | (it, new) :: r => item_ok s it new && spec_ok (ost_after s it new) r
  end.

(* index (1-based) of the first item that is not ok *)
Fixpoint first_bad (k : N) (s : ost) (run : list (item * list ev)) : option N :=
  match run with
  | [] => None
  | (it, new) :: r => if item_ok s it new then first_bad (k + 1) (ost_after s it new) r else Some k
  end.

(* ------------------------------------------------------------------ known deviations of the pinned code *)
Inductive klass := KNameRulesLeak.

Definition op_class (o : op) : option klass :=
  match o with
  | OReqName _ _ => Some KNameRulesLeak
  | _ => None
  end.

Definition item_class (it : item) : option klass :=
  match it with
  | IOp o => op_class o
  | IOp2 o1 o2 => match op_class o1 with Some k => Some k | None => op_class o2 end
  | _ => None
  end.

Fixpoint known (its : list item) : option klass :=
  match its with
  | [] => None
  | it :: r => match item_class it with Some k => Some k | None => known r end
  end.

(* the operations outside both classes *)
Definition plain_op (o : op) : bool := negb (is_reqname o).
Definition any_op (o : op) : bool := true.
