(* C37/Check.v — is an observed run (API calls in order, each with the AddMatch/RemoveMatch calls the bus saw while it
   ran) a run of the model of C37/Model.v under SOME schedule?  Executable only (two small lemmas tying the counter
   arithmetic to Model.add_match / remove_match are in C37/Proofs.v).

   The calls of a history are sequential, so what the foreground future does is determined: its atomic actions are
   obtained by running [Model.exec] itself on a reference state ([item_actions]).  What is not determined is when the
   queued removal tasks run in between.  Actions on different rules are independent (each touches one refcount entry
   and emits events about that rule only), so the search is done rule by rule: for every rule, the set of possible
   (refcount, number of queued removals) pairs is carried from item to item, and an item is explained iff for every
   rule some interleaving of the foreground actions on that rule with its queued removals emits exactly the events
   observed about it.  The relative order of events about DIFFERENT rules is not compared. *)
From Coq Require Import List NArith Bool Arith.
From ZV Require Import Base.Bytes C37.Model C37.Spec C37.Sched.
Import ListNotations.

(* ---- what a foreground program does: derived from Model.exec on a reference state whose refcounts are all 5
        (never vacant, never last) and whose queue is empty, by looking at what changed *)
Inductive act := AAdd (r : rule) | ARem (r : rule) | AQueue (r : rule).

Definition ref_subs : rule -> nat := fun _ => 5.
Definition ref_conn (hl : list sub) : conn :=
  {| subs := ref_subs; pend := []; held := hl; thr := []; evs := [] |}.

Definition delta (U : list rule) (c : conn) : list act :=
  flat_map (fun u => match subs c u with
                     | 6 => [AAdd u]
                     | 4 => [ARem u]
                     | _ => []
                     end) U
  ++ map AQueue (pend c).

Fixpoint prog_actions (fuel : nat) (U : list rule) (hl : list sub) (p : prog)
  : option (list act * list sub) :=
  match p with
  | [] => Some ([], hl)
  | i :: rest =>
      match fuel with
      | O => None
      | S f =>
          let '(c', p') := exec i rest (ref_conn hl) in
          match prog_actions f U (held c') p' with
          | Some (a, hl') => Some (delta U c' ++ a, hl')
          | None => None
          end
      end
  end.

Definition op_actions (U : list rule) (hl : list sub) (o : op) : option (list act * list sub) :=
  prog_actions (4 * (List.length hl + 4)) U hl (prog_of o).

Definition item_actions (U : list rule) (hl : list sub) (it : item) : option (list act * list sub) :=
  match it with
  | IOp o => op_actions U hl o
  | IOp2 o1 o2 =>
      match op_actions U hl o1 with
      | Some (a1, hl1) => match op_actions U hl1 o2 with
                          | Some (a2, hl2) => Some (a1 ++ a2, hl2)
                          | None => None
                          end
      | None => None
      end
  | ITick | IIdle => Some ([], hl)
  end.

(* the harness does not tick the executor during drop() and clone(): no queued removal can run meanwhile *)
Definition pend_may_run (it : item) : bool :=
  match it with
  | IOp (ODrop _) | IOp (OClone _ _) => false
  | _ => true
  end.

(* ---- one rule *)
Inductive pact := PAdd | PRem | PQueue.
Definition project (r : rule) (a : act) : list pact :=
  match a with
  | AAdd x => if lbeq x r then [PAdd] else []
  | ARem x => if lbeq x r then [PRem] else []
  | AQueue x => if lbeq x r then [PQueue] else []
  end.
Inductive pev := VAdd | VRem.
Definition project_ev (r : rule) (e : ev) : list pev :=
  match e with
  | EAdd x => if lbeq x r then [VAdd] else []
  | ERem x => if lbeq x r then [VRem] else []
  end.

(* the refcount arithmetic of add_match / remove_match on one entry: new count, and whether the bus is called
   (for a signal rule) *)
Definition add1 (c : nat) : nat * bool := match c with O => (1, true) | S n => (S (S n), false) end.
Definition rem1 (c : nat) : nat * bool := match c with O => (0, false) | S O => (0, true) | S (S n) => (S n, false) end.

Definition pstate := (nat * nat)%type.          (* refcount, queued removals *)
Definition pstate_eqb (a b : pstate) : bool := (fst a =? fst b) && (snd a =? snd b).
Fixpoint insert_ps (x : pstate) (l : list pstate) : list pstate :=
  match l with [] => [x] | y :: r => if pstate_eqb x y then l else y :: insert_ps x r end.
Definition union_ps (a b : list pstate) : list pstate := fold_left (fun acc x => insert_ps x acc) a b.

(* consume the expected event if the action calls the bus *)
Definition emit (sig calls : bool) (want : pev) (evs : list pev) : option (list pev) :=
  if sig && calls then
    match evs, want with
    | VAdd :: r, VAdd => Some r
    | VRem :: r, VRem => Some r
    | _, _ => None
    end
  else Some evs.

Fixpoint interleave (fuel : nat) (sig may_pend idle : bool) (acts : list pact) (evs : list pev) (s : pstate) : list pstate :=
  match fuel with
  | O => []
  | S f =>
      let '(c, p) := s in
      let done :=
        match acts, evs with
        | [], [] => if idle && negb (p =? 0) then [] else [s]
        | _, _ => []
        end in
      let fg :=
        match acts with
        | [] => []
        | PAdd :: rest =>
            let '(c', calls) := add1 c in
            match emit sig calls VAdd evs with Some e' => interleave f sig may_pend idle rest e' (c', p) | None => [] end
        | PRem :: rest =>
            let '(c', calls) := rem1 c in
            match emit sig calls VRem evs with Some e' => interleave f sig may_pend idle rest e' (c', p) | None => [] end
        | PQueue :: rest => interleave f sig may_pend idle rest evs (c, S p)
        end in
      let bg :=
        match p with
        | S p' =>
            if may_pend then
              let '(c', calls) := rem1 c in
              match emit sig calls VRem evs with Some e' => interleave f sig may_pend idle acts e' (c', p') | None => [] end
            else []
        | O => []
        end in
      union_ps (union_ps done fg) bg
  end.

Definition rule_after (r : rule) (it : item) (acts : list act) (new : list ev) (states : list pstate) : list pstate :=
  let pa := flat_map (project r) acts in
  let pe := flat_map (project_ev r) new in
  let idle := match it with IIdle => true | _ => false end in
  fold_left (fun acc s =>
               let fuel := 2 * (List.length pa + snd s + List.length pe) + 4 in
               union_ps acc (interleave fuel (is_sig r) (pend_may_run it) idle pa pe s))
            states [].

Inductive verdict := Accepts | RejectsAt (k : N) | OutOfFuel (k : N).

(* every observed event must be about a rule of the universe *)
Definition events_known (U : list rule) (new : list ev) : bool := forallb (fun e => mem_rule (ev_rule e) U) new.

Fixpoint check_from (k : N) (U : list rule) (hl : list sub) (states : list (list pstate))
  (run : list (item * list ev)) : verdict :=
  match run with
  | [] => Accepts
  | (it, new) :: rest =>
      match item_actions U hl it with
      | None => OutOfFuel k
      | Some (acts, hl') =>
          let states' := map (fun rs => rule_after (fst rs) it acts new (snd rs)) (combine U states) in
          if events_known U new && forallb (fun l => match l with [] => false | _ => true end) states'
          then check_from (k + 1) U hl' states' rest
          else RejectsAt k
      end
  end.

Definition check (U : list rule) (run : list (item * list ev)) : verdict :=
  check_from 1 U [] (map (fun _ => [(0, 0)]) U) run.
