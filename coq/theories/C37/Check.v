(* C37/Check.v — is an observed run (API calls in order, each with the AddMatch/RemoveMatch calls the bus saw while it
   ran) a run of the model?  Breadth-first search over the schedules of C37/Model.v [step], every move being a
   [Sched.apply_choice] (hence a [step]).  Executable only; no proofs.

   Between items the states are compacted (the refcount function is tabulated over the finite universe of rules of
   the case, finished futures are forgotten, the trace is cleared) and duplicates are merged (queued removals are
   compared as a multiset). *)
From Coq Require Import List NArith Bool Arith.
From ZV Require Import Base.Bytes C37.Model C37.Spec C37.Sched.
Import ListNotations.

Definition with_evs (c : conn) (es : list ev) : conn :=
  {| subs := subs c; pend := pend c; held := held c; thr := thr c; evs := es |}.

Fixpoint lookup_nat (x : rule) (t : list (rule * nat)) : nat :=
  match t with [] => 0 | (k, v) :: r => if lbeq x k then v else lookup_nat x r end.

Definition nonempty {A} (l : list A) : bool := match l with [] => false | _ => true end.

Definition compact (U : list rule) (c : conn) : conn :=
  let t := map (fun u => (u, subs c u)) U in
  {| subs := fun x => lookup_nat x t; pend := pend c; held := held c; thr := filter nonempty (thr c); evs := [] |}.

(* ---- equality of states over the universe U *)
Definition instr_eqb (a b : instr) : bool :=
  match a, b with
  | ISub h r, ISub h2 r2 => (h =? h2)%N && lbeq r r2
  | IAsyncDrop h, IAsyncDrop h2 => (h =? h2)%N
  | IDrop h, IDrop h2 => (h =? h2)%N
  | IClone a1 a2, IClone b1 b2 => (a1 =? b1)%N && (a2 =? b2)%N
  | IOwnerCheck p r, IOwnerCheck p2 r2 => (p =? p2)%N && lbeq r r2
  | IOwnerAdd p r, IOwnerAdd p2 r2 => (p =? p2)%N && lbeq r r2
  | IOwnerSet p r, IOwnerSet p2 r2 => (p =? p2)%N && lbeq r r2
  | ILeak r, ILeak r2 => lbeq r r2
  | _, _ => false
  end.

Fixpoint list_eqb {A} (f : A -> A -> bool) (a b : list A) : bool :=
  match a, b with
  | [], [] => true
  | x :: r, y :: s => f x y && list_eqb f r s
  | _, _ => false
  end.

Definition conn_eqb (U : list rule) (a b : conn) : bool :=
  forallb (fun u => (subs a u =? subs b u) && (count_rule u (pend a) =? count_rule u (pend b))) U
  && (List.length (pend a) =? List.length (pend b))
  && list_eqb (fun x y => (fst x =? fst y)%N && lbeq (snd x) (snd y)) (held a) (held b)
  && list_eqb (list_eqb instr_eqb) (thr a) (thr b).

(* ---- search nodes: a state and the events of the current item still to be matched *)
Definition node := (conn * list ev)%type.
Definition node_eqb (U : list rule) (a b : node) : bool :=
  (List.length (snd a) =? List.length (snd b)) && conn_eqb U (fst a) (fst b).

Fixpoint insert_node (U : list rule) (n : node) (l : list node) : list node :=
  match l with
  | [] => [n]
  | m :: r => if node_eqb U n m then l else m :: insert_node U n r
  end.
Definition merge_nodes (U : list rule) (news acc : list node) : list node :=
  fold_left (fun a n => insert_node U n a) news acc.

Definition ev_eqb (a b : ev) : bool :=
  match a, b with EAdd r, EAdd s | ERem r, ERem s => lbeq r s | _, _ => false end.

(* one move; the trace of the state is empty before it, so [evs] afterwards is exactly what the move emitted *)
Definition move (ch : choice) (n : node) : list node :=
  match apply_choice any_op ch (fst n) with
  | None => []
  | Some c' =>
      match evs c', snd n with
      | [], todo => [(c', todo)]
      | [e], x :: todo => if ev_eqb e x then [(with_evs c' [], todo)] else []
      | _, _ => []
      end
  end.

(* indexes of the futures that can move; first index of each distinct queued rule *)
Fixpoint thread_moves (k : nat) (t : list prog) : list choice :=
  match t with
  | [] => []
  | p :: r => (if nonempty p then [CThread k] else []) ++ thread_moves (S k) r
  end.
Fixpoint pend_moves (k : nat) (seen : list rule) (p : list rule) : list choice :=
  match p with
  | [] => []
  | r :: t => if mem_rule r seen then pend_moves (S k) seen t else CPend k :: pend_moves (S k) (r :: seen) t
  end.

Definition expand (n : node) : list node :=
  flat_map (fun ch => move ch n) (thread_moves 0 (thr (fst n)) ++ pend_moves 0 [] (pend (fst n))).

Definition terminal (it : item) (n : node) : bool :=
  negb (existsb nonempty (thr (fst n))) && negb (nonempty (snd n)) &&
  match it with IIdle => negb (nonempty (pend (fst n))) | _ => true end.

Fixpoint bfs (fuel : nat) (U : list rule) (it : item) (frontier acc : list node) : option (list node) :=
  match frontier with
  | [] => Some acc
  | _ =>
      match fuel with
      | O => None
      | S f =>
          let acc' := merge_nodes U (map (fun n => (compact U (fst n), [])) (filter (terminal it) frontier)) acc in
          bfs f U it (merge_nodes U (flat_map expand frontier) []) acc'
      end
  end.

Definition spawn (o : op) (c : conn) : conn := with_thr c (thr c ++ [prog_of o]).
Definition start_item (it : item) (c : conn) : conn :=
  match it with
  | IOp o => spawn o c
  | IOp2 o1 o2 => spawn o2 (spawn o1 c)
  | ITick | IIdle => c
  end.

Definition weight (c : conn) : nat :=
  List.length (held c) + List.length (pend c) + fold_left (fun a p => a + List.length p) (thr c) 0.

(* all states the model can be in after the item, given the states before it and the events observed during it *)
Definition after_item (U : list rule) (it : item) (new : list ev) (states : list conn) : option (list conn) :=
  let starts := map (fun c => (start_item it c, new)) states in
  let fuel := fold_left (fun a n => Nat.max a (weight (fst n))) starts 0 in
  match bfs (6 * fuel + 12) U it starts [] with
  | None => None
  | Some nodes => Some (map fst nodes)
  end.

Inductive verdict := Accepts | RejectsAt (k : N) | OutOfFuel (k : N).

Fixpoint check_from (k : N) (U : list rule) (states : list conn) (run : list (item * list ev)) : verdict :=
  match run with
  | [] => Accepts
  | (it, new) :: r =>
      match after_item U it new states with
      | None => OutOfFuel k
      | Some [] => RejectsAt k
      | Some st' => check_from (k + 1) U st' r
      end
  end.

Definition check (U : list rule) (run : list (item * list ev)) : verdict := check_from 1 U [compact U init] run.
