(* C37/CheckFacts.v — the counter arithmetic used by the trace checker (C37/Check.v [add1], [rem1], [emit]) is the
   arithmetic of Model.add_match / Model.remove_match on the entry of the rule concerned, and other entries are untouched. *)
From Coq Require Import List NArith Bool Arith Lia.
From ZV Require Import Base.Bytes Base.WinnowFacts C37.Model C37.Spec C37.Proofs C37.Sched C37.Check.
Import ListNotations.

Lemma add1_is_add_match r s es :
  fst (add_match r s es) r = fst (add1 (s r)) /\
  snd (add_match r s es) = es ++ (if snd (add1 (s r)) then sig_ev r (EAdd r) else []) /\
  forall x, x <> r -> fst (add_match r s es) x = s x.
Proof.
  unfold add_match, add1. destruct (s r) as [|n] eqn:E; cbn [fst snd]; unfold set_subs; rewrite lbeq_refl.
  - repeat split; auto. intros x H. destruct (lbeq x r) eqn:L; [apply lbeq_eq in L; contradiction|reflexivity].
  - rewrite app_nil_r. repeat split; auto. intros x H. destruct (lbeq x r) eqn:L; [apply lbeq_eq in L; contradiction|reflexivity].
Qed.

Lemma rem1_is_remove_match r s es :
  fst (remove_match r s es) r = fst (rem1 (s r)) /\
  snd (remove_match r s es) = es ++ (if snd (rem1 (s r)) then sig_ev r (ERem r) else []) /\
  forall x, x <> r -> fst (remove_match r s es) x = s x.
Proof.
  unfold remove_match, rem1. destruct (s r) as [|[|n]] eqn:E; cbn [fst snd]; unfold set_subs; rewrite ?lbeq_refl, ?app_nil_r.
  - repeat split; auto.
  - repeat split; auto. intros x H. destruct (lbeq x r) eqn:L; [apply lbeq_eq in L; contradiction|reflexivity].
  - repeat split; auto. intros x H. destruct (lbeq x r) eqn:L; [apply lbeq_eq in L; contradiction|reflexivity].
Qed.

(* the reference state from which the foreground actions are read off is never vacant and never at its last count:
   an add shows as 6, a removal as 4, and nothing is emitted *)
Lemma ref_add r es : add_match r ref_subs es = (set_subs ref_subs r 6, es).
Proof. reflexivity. Qed.
Lemma ref_rem r es : remove_match r ref_subs es = (set_subs ref_subs r 4, es).
Proof. reflexivity. Qed.
