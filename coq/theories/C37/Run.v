(* C37/Run.v — line driver (two-phase): "M <seed> <o|e> <op>* TAB <observation>"  (formats: harness/hbus/src/main.rs).
   model field: OK when the observed sequence (every call returned ok; the AddMatch/RemoveMatch calls the bus saw during
                each call, in order) is a run of the model under SOME schedule ([Check.check]); else
                MODEL-REJECTS:item<k> (no schedule of the model explains what was seen during the k-th op);
   spec field:  OK when the observation satisfies the property ([Spec.spec_ok]: trace discipline, in use => registered,
                registered => in use or removal still queued, no RemoveMatch while in use); else SPEC:item<k>;
   class field: the known-deviation class of the ops up to that item (or of the whole history), or "-".

   The rule strings of proxies' signal streams are produced here the way MatchRule's Display prints them. *)
From Coq Require Import List NArith Bool Arith.
From ZV Require Import Base.Bytes Base.Res C37.Model C37.Spec C37.Sched C37.Check.
Import ListNotations.
Open Scope N_scope.

Definition first_tab_split (l : bytes) : bytes * bytes :=
  match split_on tab l with
  | [a] => (a, [])
  | a :: b :: _ => (a, b)
  | [] => ([], [])
  end.

Definition split1 (sep : byte) (l : bytes) : option (bytes * bytes) :=
  match split_on sep l with
  | a :: b :: r => Some (a, join [sep] (b :: r))
  | _ => None
  end.

(* ---- rule strings *)
Definition q (s : bytes) : bytes := B "'" ++ s ++ B "'".
Definition dbus : bytes := B "org.freedesktop.DBus".
Definition noc_rule (name : bytes) : rule :=
  B "type='signal',sender=" ++ q dbus ++ B ",interface=" ++ q dbus ++ B ",member='NameOwnerChanged',path='/org/freedesktop/DBus',arg0=" ++ q name.
Definition sig_rule (dest path iface : bytes) (member arg0 : option bytes) : rule :=
  B "type='signal',sender=" ++ q dest ++ B ",interface=" ++ q iface ++
  (match member with Some m => B ",member=" ++ q m | None => [] end) ++ B ",path=" ++ q path ++
  (match arg0 with Some a => B ",arg0=" ++ q a | None => [] end).
Definition name_rule (member name : bytes) : rule :=
  B "type='signal',sender=" ++ q dbus ++ B ",interface=" ++ q dbus ++ B ",member=" ++ q member ++ B ",arg0=" ++ q name.
Definition well_known (i : bytes) : option bytes :=
  if lbeq i (B "0") then Some (B "org.zbus.A") else if lbeq i (B "1") then Some (B "org.zbus.B") else None.

(* ---- parsing the case; the driver's own bookkeeping: proxies (destination, path, interface) and requested names *)
Record dstate := { proxies : list (N * (bytes * bytes * bytes)); names : list bytes }.
Definition dstate0 : dstate := {| proxies := []; names := [] |}.

Fixpoint find_proxy (p : N) (l : list (N * (bytes * bytes * bytes))) : option (bytes * bytes * bytes) :=
  match l with [] => None | (k, v) :: r => if (k =? p) then Some v else find_proxy p r end.

Definition is_unique (d : bytes) : bool := match d with c :: _ => beq c ":" | [] => false end.

Definition signal_op (st : dstate) (h p : N) (member arg0 : option bytes) : option op :=
  match find_proxy p (proxies st) with
  | Some (d, pa, ifc) =>
      Some (OSignal h p (if is_unique d then None else Some (noc_rule d)) (sig_rule d pa ifc member arg0))
  | None => None
  end.

Definition member_tok (m : bytes) : option bytes := if lbeq m (B "*") then None else Some m.

Definition parse_op (st : dstate) (w : bytes) : option (item * dstate) :=
  match w with
  | k :: rest =>
      if beq k "s" then
        match split1 "="%byte rest with
        | Some (h, spec) =>
            (* <hex rule>[:<maxq>][~<hex canonical form>] *)
            let '(main, canon) := match split1 "~"%byte spec with Some (a, b) => (a, Some b) | None => (spec, None) end in
            let hexr := match split1 ":"%byte main with Some (a, _) => a | None => main end in
            match N_of_dec h, bytes_of_hex (match canon with Some c => c | None => hexr end) with
            | Some hn, Some r => Some (IOp (OStream hn r), st)
            | _, _ => None
            end
        | None => None
        end
      else if beq k "c" then
        match split1 "="%byte rest with
        | Some (h, h0) => match N_of_dec h, N_of_dec h0 with
                          | Some a, Some b => Some (IOp (OClone a b), st) | _, _ => None end
        | None => None
        end
      else if beq k "d" then option_map (fun h => (IOp (ODrop h), st)) (N_of_dec rest)
      else if beq k "x" then option_map (fun h => (IOp (OAsyncDrop h), st)) (N_of_dec rest)
      else if beq k "p" then
        match split1 "="%byte rest with
        | Some (h, spec) =>
            match N_of_dec h, split_on ","%byte spec with
            | Some hn, [d; pa; ifc] =>
                Some (ITick, {| proxies := (hn, (d, pa, ifc)) :: proxies st; names := names st |})
            | _, _ => None
            end
        | None => None
        end
      else if beq k "g" then
        match split1 "="%byte rest with
        | Some (h, spec) =>
            match N_of_dec h, split_on ","%byte spec with
            | Some hn, [p; m] =>
                match N_of_dec p with
                | Some pn => option_map (fun o => (IOp o, st)) (signal_op st hn pn (member_tok m) None)
                | None => None
                end
            | Some hn, [p; m; a] =>
                match N_of_dec p with
                | Some pn => option_map (fun o => (IOp o, st)) (signal_op st hn pn (member_tok m) (Some a))
                | None => None
                end
            | _, _ => None
            end
        | None => None
        end
      else if beq k "j" then
        match split1 "="%byte rest with
        | Some (hs, spec) =>
            match split_on ","%byte hs, split_on ","%byte spec with
            | [h1; h2], [p; m1; m2] =>
                match N_of_dec h1, N_of_dec h2, N_of_dec p with
                | Some a, Some b, Some pn =>
                    match signal_op st a pn (member_tok m1) None, signal_op st b pn (member_tok m2) None with
                    | Some o1, Some o2 => Some (IOp2 o1 o2, st)
                    | _, _ => None
                    end
                | _, _, _ => None
                end
            | _, _ => None
            end
        | None => None
        end
      else if beq k "n" then
        match well_known rest with
        | Some nm =>
            if existsb (lbeq nm) (names st) then Some (ITick, st)       (* answered from registered_names: no add_match *)
            else Some (IOp (OReqName (name_rule (B "NameAcquired") nm) (name_rule (B "NameLost") nm)),
                       {| proxies := proxies st; names := nm :: names st |})
        | None => None
        end
      else if beq k "N" then
        match well_known rest with
        | Some nm => Some (ITick, {| proxies := proxies st; names := filter (fun x => negb (lbeq x nm)) (names st) |})
        | None => None
        end
      else if beq k "t" then option_map (fun _ => (ITick, st)) (N_of_dec rest)
      else if lbeq w (B "i") then Some (IIdle, st)
      else None
  | [] => None
  end.

Fixpoint parse_ops (st : dstate) (ws : list bytes) : option (list item) :=
  match ws with
  | [] => Some []
  | w :: r =>
      match parse_op st w with
      | Some (it, st') => match parse_ops st' r with Some l => Some (it :: l) | None => None end
      | None => None
      end
  end.

Definition parse_case (c : bytes) : option (list item) :=
  match words c with
  | t :: seed :: g :: ws =>
      if lbeq t (B "M") && (lbeq g (B "o") || lbeq g (B "e")) then
        match N_of_dec seed with Some _ => parse_ops dstate0 ws | None => None end
      else None
  | _ => None
  end.

(* ---- reading the observation *)
Definition parse_ev (t : bytes) : option ev :=
  match t with
  | k :: hx =>
      match bytes_of_hex hx with
      | Some r => if beq k "A" then Some (EAdd r) else if beq k "R" then Some (ERem r) else None
      | None => None
      end
  | [] => None
  end.

Fixpoint parse_evs (ts : list bytes) : option (list ev) :=
  match ts with
  | [] => Some []
  | t :: r => match parse_ev t, parse_evs r with Some e, Some l => Some (e :: l) | _, _ => None end
  end.

(* "ok[<ev>,<ev>...]" : only a successful call is an observation of the model's run *)
Definition parse_tok (t : bytes) : option (list ev) :=
  match split1 "["%byte t with
  | Some (res, body) =>
      if lbeq res (B "ok") then
        match rev body with
        | c :: rb => if beq c "]" then
                       match rev rb with
                       | [] => Some []
                       | inner => parse_evs (split_on ","%byte inner)
                       end
                     else None
        | [] => None
        end
      else None
  | None => None
  end.

Fixpoint zip_run (its : list item) (ts : list bytes) : option (list (item * list ev)) :=
  match its, ts with
  | [], [] => Some []
  | it :: ir, t :: tr =>
      match parse_tok t, zip_run ir tr with Some e, Some l => Some ((it, e) :: l) | _, _ => None end
  | _, _ => None
  end.

(* ---- the universe of rules of a case *)
Definition op_rules (o : op) : list rule :=
  match o with
  | OStream _ r => [r]
  | OSignal _ _ (Some n) s => [n; s]
  | OSignal _ _ None s => [s]
  | OReqName a l => [a; l]
  | _ => []
  end.
Definition item_rules (it : item) : list rule :=
  match it with IOp o => op_rules o | IOp2 a b => op_rules a ++ op_rules b | _ => [] end.
Fixpoint dedup (l : list rule) (acc : list rule) : list rule :=
  match l with
  | [] => rev acc
  | r :: t => if mem_rule r acc then dedup t acc else dedup t (r :: acc)
  end.

Definition klass_tok (k : option klass) : bytes :=
  match k with
  | None => dash
  | Some KNameRulesLeak => B "name_rules_never_removed"
  end.

Definition run_case (line : bytes) : outp :=
  let '(c, obstr) := first_tab_split line in
  match parse_case c with
  | None => bad_case
  | Some its =>
      match zip_run its (words obstr) with
      | None => {| o_model := B "MODEL-REJECTS:unreadable-or-failed-call"; o_spec := B "SPEC:unreadable-or-failed-call";
                   o_class := dash |}
      | Some run =>
          let U := dedup (flat_map item_rules its) [] in
          let m := match check U run with
                   | Accepts => B "OK"
                   | RejectsAt k => B "MODEL-REJECTS:item" ++ dec_of_N k
                   | OutOfFuel k => B "MODEL-FUEL:item" ++ dec_of_N k
                   end in
          let '(sp, kl) := match first_bad 1 ost0 run with
                           | None => (B "OK", known its)
                           | Some k => (B "SPEC:item" ++ dec_of_N k, known (firstn (N.to_nat k) its))
                           end in
          {| o_model := m; o_spec := sp; o_class := klass_tok kl |}
      end
  end.

Definition run (line : bytes) : bytes := render (run_case line).
