(* C08/Spec.v — what property C08 demands, independent of how zvariant computes it:
   1. the algebraic laws themselves (Props over any eq/cmp/hash functions), [C08_full_statement];
   2. the same laws as an executable oracle over what was *observed* for three values (3x3 matrices of ==,
      partial_cmp, cmp; hash equalities; clone / owned / encoding observations), used on the implementation's output;
   3. the reference order [icmp] (a structural total preorder with a proper order on signatures and the numeric order
      on floats) against which the hand-written Ord is measured;
   4. the decidable classes of inputs on which this tree is known to break a law ([has_nan], [has_fd], [tuple_variant]);
   5. well-formedness of a dynamic value: the signatures stored in containers describe their members ([wfb]). *)
From ZV Require Import Base.Bytes Base.Res Base.Sig C08.Model.

(* ------------------------------------------------------------------------------------------------ *)
(* 1. laws                                                                                           *)

(* a three-way comparison is a total preorder when, on every triple, the results are related like this *)
Definition T4 (xy yz xz : comparison) : Prop :=
  (xy = Eq -> xz = yz) /\ (yz = Eq -> xz = xy) /\ (xy = Lt -> yz = Lt -> xz = Lt) /\ (xy = Gt -> yz = Gt -> xz = Gt).

Section Laws.
  Context {A H : Type} (eqf : A -> A -> bool) (pcmp : A -> A -> option comparison) (cmp : A -> A -> comparison)
          (hash : A -> H).
  Definition eq_equivalence : Prop :=
    (forall a, eqf a a = true) /\ (forall a b, eqf a b = eqf b a) /\
    (forall a b c, eqf a b = true -> eqf b c = true -> eqf a c = true).
  Definition ord_total_consistent : Prop :=
    (forall a b, cmp b a = CompOpp (cmp a b)) /\                       (* antisymmetry / duality *)
    (forall a b c, T4 (cmp a b) (cmp b c) (cmp a c)) /\                (* transitivity *)
    (forall a b, cmp a b = Eq <-> eqf a b = true) /\                   (* consistent with == *)
    (forall a b, pcmp a b = Some (cmp a b)).                            (* PartialOrd agrees with Ord *)
  Definition hash_respects_eq : Prop := forall a b, eqf a b = true -> hash a = hash b.
End Laws.

(* well-formedness: what Array::append / Dict::append / StructureBuilder::build enforce *)
Fixpoint wfb (v : value) : bool :=
  match v with
  | VValue x => wfb x
  | VArray s l => forallb (fun e => wfb e && sig_eqb (value_signature e) s) l
  | VDict k vs l =>
      forallb (fun p => match p with (a1, a2) =>
                 wfb a1 && wfb a2 && sig_eqb (value_signature a1) k && sig_eqb (value_signature a2) vs end) l
  | VStruct l => forallb wfb l && negb (match l with [] => true | _ => false end)
  | _ => true
  end.

(* typing of a dynamic value by a signature, written as a relation (the reading of "the reported signature is the one
   that describes what gets encoded") *)
Inductive has_type : sig -> value -> Prop :=
| HT_u8 z : has_type SU8 (VU8 z) | HT_bool b : has_type SBool (VBool b)
| HT_i16 z : has_type SI16 (VI16 z) | HT_u16 z : has_type SU16 (VU16 z)
| HT_i32 z : has_type SI32 (VI32 z) | HT_u32 z : has_type SU32 (VU32 z)
| HT_i64 z : has_type SI64 (VI64 z) | HT_u64 z : has_type SU64 (VU64 z)
| HT_f64 n m : has_type SF64 (VF64 n m)
| HT_str s : has_type SStr (VStr s) | HT_sig s : has_type SSig (VSig s) | HT_path s : has_type SObjPath (VPath s)
| HT_fd o n : has_type SFd (VFd o n)
| HT_variant t x : has_type t x -> has_type SVariant (VValue x)
| HT_array t l : Forall (has_type t) l -> has_type (SArray t) (VArray t l)
| HT_dict k v l : Forall (fun p => has_type k (fst p) /\ has_type v (snd p)) l -> has_type (SDict k v) (VDict k v l)
| HT_struct ts l : Forall2 has_type ts l -> l <> [] -> has_type (SStruct ts) (VStruct l).

(* ------------------------------------------------------------------------------------------------ *)
(* 3. the reference order                                                                            *)

Definition sig_rank (s : sig) : Z :=
  match s with
  | SUnit => 0 | SU8 => 1 | SBool => 2 | SI16 => 3 | SU16 => 4 | SI32 => 5 | SU32 => 6 | SI64 => 7 | SU64 => 8 | SF64 => 9
  | SStr => 10 | SSig => 11 | SObjPath => 12 | SVariant => 13 | SFd => 14 | SArray _ => 15 | SDict _ _ => 16
  | SStruct _ => 17 | SMaybe _ => 18
  end.

(* structural total order on signatures: constructor first, then the children *)
Fixpoint sig_tcmp (a b : sig) {struct a} : comparison :=
  cthen (sig_rank a ?= sig_rank b)%Z
    match a, b with
    | SArray x, SArray y => sig_tcmp x y
    | SDict k v, SDict k' v' => cthen (sig_tcmp k k') (sig_tcmp v v')
    | SStruct xs, SStruct ys => lex sig_tcmp xs ys
    | SMaybe x, SMaybe y => sig_tcmp x y
    | _, _ => Eq
    end.

(* reference order on values: variant first; floats by sign-magnitude (numeric on non-NaN, both zeros equal);
   containers element-wise then by their signature *)
Fixpoint icmp (a b : value) {struct a} : comparison :=
  cthen (discr a ?= discr b)%Z
    match a, b with
    | VU8 x, VU8 y | VI16 x, VI16 y | VU16 x, VU16 y | VI32 x, VI32 y | VU32 x, VU32 y
    | VI64 x, VI64 y | VU64 x, VU64 y => (x ?= y)%Z
    | VBool x, VBool y => ((if x then 1 else 0) ?= (if y then 1 else 0))%Z
    | VF64 n1 m1, VF64 n2 m2 => (f_num n1 m1 ?= f_num n2 m2)%Z
    | VStr x, VStr y | VPath x, VPath y => bytes_cmp x y
    | VSig x, VSig y => sig_tcmp x y
    | VValue x, VValue y => icmp x y
    | VArray s xs, VArray t ys => cthen (lex icmp xs ys) (sig_tcmp s t)
    | VDict k v xs, VDict k' v' ys =>
        cthen (lex (fun p q => match p, q with (a1, a2), (b1, b2) => cthen (icmp a1 b1) (icmp a2 b2) end) xs ys)
              (cthen (sig_tcmp k k') (sig_tcmp v v'))
    | VStruct xs, VStruct ys => lex icmp xs ys
    | VFd _ x, VFd _ y => (x ?= y)%Z
    | _, _ => Eq
    end.

(* ------------------------------------------------------------------------------------------------ *)
(* 4. known-deviation classes                                                                        *)

Fixpoint has_nan (v : value) : bool :=
  match v with
  | VF64 _ m => f_isnan m
  | VValue x => has_nan x
  | VArray _ l | VStruct l => existsb has_nan l
  | VDict _ _ l => existsb (fun p => match p with (a1, a2) => has_nan a1 || has_nan a2 end) l
  | _ => false
  end.

Fixpoint has_fd (v : value) : bool :=
  match v with
  | VFd _ _ => true
  | VValue x => has_fd x
  | VArray _ l | VStruct l => existsb has_fd l
  | VDict _ _ l => existsb (fun p => match p with (a1, a2) => has_fd a1 || has_fd a2 end) l
  | _ => false
  end.

(* the known-deviation class of a law case (a list of values that get compared with each other).
   (Before fix: commit 668536e1 there was a third class, pairs whose comparison reached two different signatures.) *)
Definition Known_C08 (l : list value) : bool := existsb has_nan l || existsb has_fd l.

(* a tuple with a member of type Value (TryFrom<Structure> does not undo the boxing Value::new did) *)
Fixpoint tuple_variant (x : sv) : bool :=
  match x with
  | XVec _ l => existsb tuple_variant l
  | XMap _ _ l => existsb (fun p => match p with (a1, a2) => tuple_variant a1 || tuple_variant a2 end) l
  | XTup l => existsb (fun e => match e with XVal _ => true | _ => tuple_variant e end) l
  | _ => false
  end.

(* x is a value of the Rust type named t; a HashMap lists its entries in strictly ascending key order *)
Fixpoint keys_sorted (l : list (sv * sv)) : bool :=
  match l with
  | (k1, _) :: (((k2, _) :: _) as r) => (match vcmp (vnew k1) (vnew k2) with Lt => true | _ => false end) && keys_sorted r
  | _ => true
  end.
Fixpoint wt (t : sig) (x : sv) {struct t} : bool :=
  match t, x with
  | SU8, XU8 _ | SBool, XBool _ | SI16, XI16 _ | SU16, XU16 _ | SI32, XI32 _ | SU32, XU32 _ | SI64, XI64 _ | SU64, XU64 _
  | SF64, XF64 _ _ | SStr, XStr _ | SSig, XSig _ | SObjPath, XPath _ | SVariant, XVal _ => true
  | SArray et, XVec t' l => sig_eqb et t' && forallb (wt et) l
  | SDict kt vt, XMap k v l =>
      sig_eqb kt k && sig_eqb vt v && forallb (fun p => match p with (a1, a2) => wt kt a1 && wt vt a2 end) l && keys_sorted l
  | SStruct ts, XTup l => list_eqb wt ts l && negb (match l with [] => true | _ => false end)
  | _, _ => false
  end.

(* ------------------------------------------------------------------------------------------------ *)
(* 2. the oracle over an observation of three values a, b, c (index 0, 1, 2; matrices row-major)     *)

Record lawobs := {
  l_eq : list bool;                    (* 9: x == y *)
  l_pc : list (option comparison);     (* 9: x.partial_cmp(y) *)
  l_cm : list comparison;              (* 9: x.cmp(y) *)
  l_hs : list bool;                    (* 3: hash(a)=hash(b), hash(a)=hash(c), hash(b)=hash(c) *)
  l_cl_eq : list bool;                 (* 3: x.try_clone() == x *)
  l_cl_sig : list bool;                (* 3: same value_signature *)
  l_ow_eq : list bool;                 (* 3: x.try_to_owned() == x *)
  l_ow_sig : list bool;
  l_ocl_eq : list bool;                (* 3: owned.try_clone() == owned *)
  l_en : list bool                     (* 3: the signature written when encoding = value_signature *)
}.

Definition i3 : list nat := [0; 1; 2]%nat.
Definition at9 {A : Type} (d : A) (l : list A) (i j : nat) : A := nth (3 * i + j) l d.
Definition all2 (f : nat -> nat -> bool) : bool := forallb (fun i => forallb (fun j => f i j) i3) i3.
Definition all3 (f : nat -> nat -> nat -> bool) : bool :=
  forallb (fun i => forallb (fun j => forallb (fun k => f i j k) i3) i3) i3.

Definition ceqb (a b : comparison) : bool :=
  match a, b with Eq, Eq | Lt, Lt | Gt, Gt => true | _, _ => false end.
Definition t4b (xy yz xz : comparison) : bool :=
  (match xy with Eq => ceqb xz yz | _ => true end) &&
  (match yz with Eq => ceqb xz xy | _ => true end) &&
  (match xy, yz with Lt, Lt => ceqb xz Lt | Gt, Gt => ceqb xz Gt | _, _ => true end).

Definition law_table (o : lawobs) : list (bytes * bool) :=
  let eq := at9 false (l_eq o) in
  let cm := at9 Eq (l_cm o) in
  let pc := at9 None (l_pc o) in
  [ (B "refl", forallb (fun i => eq i i) i3);
    (B "sym", all2 (fun i j => Bool.eqb (eq i j) (eq j i)));
    (B "etrans", all3 (fun i j k => implb (eq i j && eq j k) (eq i k)));
    (B "dual", all2 (fun i j => ceqb (cm j i) (CompOpp (cm i j))));
    (B "ctrans", all3 (fun i j k => t4b (cm i j) (cm j k) (cm i k)));
    (B "cons", all2 (fun i j => Bool.eqb (ceqb (cm i j) Eq) (eq i j)));
    (B "pcmp", all2 (fun i j => match pc i j with Some c => ceqb c (cm i j) | None => false end));
    (B "hash", implb (eq 0 1)%nat (nth 0 (l_hs o) false) && implb (eq 0 2)%nat (nth 1 (l_hs o) false)
               && implb (eq 1 2)%nat (nth 2 (l_hs o) false));
    (B "cl_eq", forallb (fun b => b) (l_cl_eq o));
    (B "cl_sig", forallb (fun b => b) (l_cl_sig o));
    (B "ow_eq", forallb (fun b => b) (l_ow_eq o));
    (B "ow_sig", forallb (fun b => b) (l_ow_sig o));
    (B "ocl_eq", forallb (fun b => b) (l_ocl_eq o));
    (B "enc", forallb (fun b => b) (l_en o)) ].

Definition law_failures (o : lawobs) : list bytes :=
  map fst (filter (fun p => negb (snd p)) (law_table o)).

(* which laws each known class is allowed to break *)
Definition excused_nan : list bytes := [B "refl"; B "cons"; B "pcmp"; B "ctrans"; B "cl_eq"; B "ow_eq"; B "ocl_eq"].
Definition excused_fd : list bytes := [B "ow_eq"; B "ocl_eq"].

(* ------------------------------------------------------------------------------------------------ *)
(* the property, at full strength, for the model                                                     *)

Definition C08_full_statement : Prop :=
  eq_equivalence veq /\
  ord_total_consistent veq vpcmp vcmp /\
  hash_respects_eq veq vhash /\
  (forall os v k r k', try_clone os v k = Ok (r, k') -> veq r v = true /\ value_signature r = value_signature v) /\
  (forall os v k r k', try_to_owned os v k = Ok (r, k') -> veq r v = true /\ value_signature r = value_signature v) /\
  (forall v, wfb v = true -> has_type (value_signature v) v) /\
  (forall t x, wt t x = true -> from_value t (into_value x) = Ok x).
