(* C08/Proofs.v — the statements exported to Properties/C08.v: witnesses for the refuted laws, the summary theorem
   for cases outside the known classes, and a concrete instance beside each theorem. *)
From ZV Require Import Base.Bytes Base.Res Base.Sig C08.Model C08.Spec C08.Algebra C08.SigFacts C08.ValueFacts C08.Order
     C08.Clone C08.Conv.

(* some values *)
Definition qnan : value := VF64 false 9221120237041090560.        (* 0x7ff8000000000000 *)
Definition f_one : value := VF64 false 4607182418800017408.       (* 1.0 *)
Definition f_two : value := VF64 false 4611686018427387904.       (* 2.0 *)
Definition arr_d (x : value) : value := VArray SF64 [x].
Definition nested : value :=
  VDict SStr SVariant [(VStr (B "a"), VValue (VArray SU8 [VU8 1; VU8 2])); (VStr (B "b"), VValue (VStruct [VF64 true 0; VSig (SArray SU8)]))].
Definition nested' : value :=
  VDict SStr SVariant [(VStr (B "a"), VValue (VArray SU8 [VU8 1; VU8 2])); (VStr (B "b"), VValue (VStruct [VF64 false 0; VSig (SArray SU8)]))].

(* ---------------------------------------------------------------- refuted ---- *)
Lemma eq_refl_refuted : exists v, veq v v = false.
Proof. exists qnan. vm_compute. reflexivity. Qed.

(* after fix: commit 668536e1 only NaN is left: cmp says Equal for values that are != *)
Lemma ord_consistent_refuted :
  (exists a, vcmp a a = Eq /\ veq a a = false) /\
  (exists a b, wfb a = true /\ wfb b = true /\ vcmp a b = Eq /\ veq a b = false /\ vhash a <> vhash b).
Proof.
  split.
  - exists qnan. vm_compute. auto.
  - exists (arr_d qnan), (arr_d f_one). vm_compute. repeat split; try reflexivity. discriminate.
Qed.

Lemma ord_trans_refuted :
  exists a b c, wfb a = true /\ wfb b = true /\ wfb c = true /\ vcmp a b = Eq /\ vcmp b c = Eq /\ vcmp a c = Lt.
Proof. exists (arr_d f_one), (arr_d qnan), (arr_d f_two). vm_compute. repeat split; reflexivity. Qed.

Lemma pcmp_refuted : exists a b, vpcmp a b = None /\ vpcmp a b <> Some (vcmp a b).
Proof. exists (arr_d qnan), (arr_d f_one). vm_compute. split; [reflexivity|discriminate]. Qed.

(* whatever number dup(2) returns, as long as it is not the number of the (still open) original *)
Lemma owned_fd_refuted : forall os o n m, os 0%nat = Some m -> m <> n ->
  try_to_owned os (VFd o n) 0 = Ok (VFd true m, 1%nat) /\ veq (VFd true m) (VFd o n) = false.
Proof.
  intros os o n m H Hn. unfold try_to_owned. simpl. unfold dup. rewrite H. simpl. split; [reflexivity|].
  apply Z.eqb_neq. exact Hn.
Qed.

Lemma clone_nan_refuted : exists v, forall os k, try_clone os v k = Ok (v, k) /\ veq v v = false.
Proof. exists (arr_d qnan). intros. split; reflexivity. Qed.

Lemma conv_tuple_variant_refuted :
  (exists t x, wt t x = true /\ exists y, from_value t (into_value x) = Ok y /\ y <> x) /\
  (exists t x, wt t x = true /\ wfb (into_value x) = false) /\
  (exists t x, wt t x = true /\ from_value t (into_value x) = Err EIncorrectType).
Proof.
  split; [|split].
  - exists (SStruct [SVariant]), (XTup [XVal (VU8 1)]). split; [reflexivity|].
    exists (XTup [XVal (VValue (VU8 1))]). split; [reflexivity|discriminate].
  - exists (SArray (SStruct [SVariant])), (XVec (SStruct [SVariant]) [XTup [XVal (VU8 1)]]). split; reflexivity.
  - exists (SStruct [SStruct [SVariant]]), (XTup [XTup [XVal (VU8 1)]]). split; reflexivity.
Qed.

(* Signature's Ord is now a total order consistent with its == (it is the reference order on signatures) *)
Lemma sig_ord_total :
  (forall a b, sig_cmp b a = CompOpp (sig_cmp a b)) /\
  (forall a b c, T4 (sig_cmp a b) (sig_cmp b c) (sig_cmp a c)) /\
  (forall a b, sig_cmp a b = Eq <-> sig_eqb a b = true) /\
  (forall a b, sig_eqb a b = true <-> a = b).
Proof. exact (conj sig_cmp_dual (conj sig_cmp_T4 (conj sig_cmp_Eq sig_eqb_eq))). Qed.

Lemma full_statement_refuted : ~ C08_full_statement.
Proof.
  intros [[R _] _]. destruct eq_refl_refuted as [v Hv]. rewrite (R v) in Hv. discriminate Hv.
Qed.

(* ---------------------------------------------------------------- outside the known classes ---- *)
Lemma Known_inv a b c : Known_C08 [a; b; c] = false ->
  (nf a /\ nf b /\ nf c) /\ (has_fd a = false /\ has_fd b = false /\ has_fd c = false).
Proof. unfold Known_C08, nf. simpl. rewrite !orb_false_iff. intuition. Qed.

Lemma ord_consistent_partial a b : has_nan a = false -> has_nan b = false -> (vcmp a b = Eq <-> veq a b = true).
Proof. intros. rewrite vcmp_agree by assumption. apply icmp_Eq; assumption. Qed.

Lemma ord_trans_partial a b c : has_nan a = false -> has_nan b = false -> has_nan c = false ->
  T4 (vcmp a b) (vcmp b c) (vcmp a c).
Proof. intros. rewrite !vcmp_agree by assumption. apply icmp_T4. Qed.

Theorem laws_partial : forall a b c, Known_C08 [a; b; c] = false ->
  (* == *)
  veq a a = true /\ veq a b = veq b a /\ (veq a b = true -> veq b c = true -> veq a c = true) /\
  (* cmp *)
  vcmp b a = CompOpp (vcmp a b) /\ T4 (vcmp a b) (vcmp b c) (vcmp a c) /\ (vcmp a b = Eq <-> veq a b = true) /\
  vpcmp a b = Some (vcmp a b) /\
  (* hash *)
  (veq a b = true -> vhash a = vhash b) /\
  (* clone, owned *)
  (forall os k, try_clone os a k = Ok (a, k) /\ try_to_owned os a k = Ok (a, k)) /\
  (* signature *)
  (wfb a = true -> has_type (value_signature a) a).
Proof.
  intros a b c K. apply Known_inv in K as ((Na & Nb & Nc) & (Fa & Fb & Fc)).
  split; [apply veq_refl; exact Na|]. split; [apply veq_sym|]. split; [apply veq_trans|].
  split; [apply vcmp_dual|]. split; [apply ord_trans_partial; assumption|].
  split; [apply ord_consistent_partial; assumption|]. split; [apply vpcmp_vcmp; assumption|].
  split; [apply veq_hash|]. split; [|apply wfb_has_type].
  intros os k. split; [apply try_clone_fdfree | apply try_to_owned_fdfree]; exact Fa.
Qed.

Lemma clone_eq_partial os v k r k' : has_nan v = false -> has_fd v = false ->
  (try_clone os v k = Ok (r, k') \/ try_to_owned os v k = Ok (r, k')) -> veq r v = true /\ r = v.
Proof.
  intros Hn Hf [E|E]; [rewrite try_clone_fdfree in E by assumption | rewrite try_to_owned_fdfree in E by assumption];
    injection E as <- <-; split; [apply veq_refl; exact Hn | reflexivity | apply veq_refl; exact Hn | reflexivity].
Qed.

(* ---------------------------------------------------------------- instances (non-vacuity) ---- *)
Example ex_hash_zero : veq nested nested' = true /\ nested <> nested' /\ vhash nested = vhash nested'.
Proof. split; [vm_compute; reflexivity|]. split; [discriminate|]. apply veq_hash. vm_compute. reflexivity. Qed.

Example ex_known_free : Known_C08 [nested; nested'; VArray SU8 []] = false /\ wfb nested = true.
Proof. vm_compute. split; reflexivity. Qed.

(* was a defect before fix: commit 668536e1 (the second append overwrote the first entry): a Dict keyed by signatures
   now keeps both entries, ordered by kind *)
Example ex_dict_sigkeys :
  exists d1, dict_append (VDict SSig SU8 []) (VSig SU8) (VU8 1) = Ok d1 /\
             dict_append d1 (VSig SBool) (VU8 2) = Ok (VDict SSig SU8 [(VSig SU8, VU8 1); (VSig SBool, VU8 2)]).
Proof. eexists. vm_compute. split; reflexivity. Qed.

Example ex_sig_order : vcmp (VSig SU8) (VSig SBool) = Lt /\ vcmp (VArray SU8 []) (VArray SBool []) = Lt /\
                       vcmp (VSig (SStruct [SU8])) (VSig SU8) = Gt.
Proof. vm_compute. repeat split; reflexivity. Qed.

Example ex_conv :
  let x := XMap SStr (SArray SVariant) [(XStr (B "a"), XVec SVariant [XVal (VU8 1); XVal (VValue (VStr (B "x")))]);
                                        (XStr (B "b"), XVec SVariant [])] in
  wt (SDict SStr (SArray SVariant)) x = true /\ tuple_variant x = false /\
  into_value x = VDict SStr (SArray SVariant)
                   [(VStr (B "a"), VArray SVariant [VValue (VU8 1); VValue (VValue (VStr (B "x")))]); (VStr (B "b"), VArray SVariant [])].
Proof. vm_compute. repeat split; reflexivity. Qed.

Example ex_owned_fd : try_to_owned (fun k => Some (100 + Z.of_nat k)%Z) (VStruct [VFd false 3; VU8 1]) 0
                      = Ok (VStruct [VFd true 100; VU8 1], 1%nat).
Proof. reflexivity. Qed.
