From ZV Require Import Base.Bytes Base.Res Base.Sig C08.Model C08.Spec.
Lemma eq_refl_refuted : exists v, veq v v = false.
Proof. exists (VF64 false 9221120237041090560%N). vm_compute. reflexivity. Qed.
