(* C08/Conv.v — T::try_from(Value::from(x)) = Ok(x) for every x of a type of the fragment that has no tuple with a
   Value member (the known class [tuple_variant]). *)
From ZV Require Import Base.Bytes Base.Res Base.Sig C08.Model C08.Spec C08.Algebra C08.SigFacts C08.ValueFacts C08.Order.

(* ---- BTreeMap::from_iter of strictly ascending keys is the identity ---- *)
Fixpoint adj (l : list (value * value)) : Prop :=
  match l with
  | x :: ((y :: _) as r) => vcmp (fst x) (fst y) = Lt /\ adj r
  | _ => True
  end.

Lemma adj_mid p : forall y x q, adj (p ++ y :: x :: q) -> vcmp (fst y) (fst x) = Lt.
Proof.
  induction p as [|a p IH]; intros y x q; simpl.
  - intros [H _]. exact H.
  - destruct (p ++ y :: x :: q) eqn:E.
    + destruct p; discriminate E.
    + intros [_ H]. rewrite <- E in H. eapply IH. exact H.
Qed.

Lemma sift_sorted : forall l acc, adj (rev acc ++ l) -> fold_left (fun r x => sift x r) l acc = rev l ++ acc.
Proof.
  induction l as [|x l IH]; intros acc H; simpl; [reflexivity|].
  assert (E : sift x acc = x :: acc).
  { destruct acc as [|y r]; [reflexivity|]. simpl in *.
    rewrite <- app_assoc in H. simpl in H. apply adj_mid in H.
    rewrite vcmp_dual, H. reflexivity. }
  rewrite E, IH.
  - rewrite <- app_assoc. reflexivity.
  - simpl. rewrite <- app_assoc. exact H.
Qed.

Lemma dedup_sorted : forall l, adj l -> dedup_last l = l.
Proof.
  induction l as [|x l IH]; [reflexivity|]. destruct l as [|y r]; [reflexivity|].
  intros [H1 H2]. change (dedup_last (x :: y :: r)) with (if veq (fst x) (fst y) then dedup_last (y :: r) else x :: dedup_last (y :: r)).
  destruct (veq (fst x) (fst y)) eqn:E.
  - apply veq_vcmp in E. congruence.
  - rewrite IH; auto.
Qed.

Lemma bt_from_iter_sorted l : adj l -> bt_from_iter l = l.
Proof.
  intros H. unfold bt_from_iter. rewrite sift_sorted; [|exact H]. rewrite app_nil_r, rev_involutive. apply dedup_sorted. exact H.
Qed.

Definition conv2 (p : sv * sv) : value * value := match p with (a1, a2) => (vnew a1, vnew a2) end.

Lemma keys_sorted_adj l : keys_sorted l = true -> adj (map conv2 l).
Proof.
  induction l as [|[k1 v1] l IH]; simpl; [trivial|]. destruct l as [|[k2 v2] r]; simpl; [trivial|].
  rewrite andb_true_iff. intros [H1 H2]. split.
  - destruct (vcmp (vnew k1) (vnew k2)); congruence.
  - apply IH. exact H2.
Qed.

(* ---- mapM ---- *)
Lemma mapM_map {A B C : Type} (f : B -> res verr C) (g : A -> B) (h : A -> C) l :
  Forall (fun x => f (g x) = Ok (h x)) l -> mapM f (map g l) = Ok (map h l).
Proof. induction 1 as [|x l Hx _ IH]; simpl; [reflexivity|]. rewrite Hx. simpl. rewrite IH. reflexivity. Qed.

(* ---- members: Value::new on the way in, one level of unboxing on the way out ---- *)
Lemma unwrap_vnew t x :
  tuple_variant x = false -> from_value t (into_value x) = Ok x -> from_value t (unwrap1 (vnew x)) = Ok x.
Proof.
  intros Ht IH. unfold vnew. destruct (boxed_by_new x) eqn:B.
  - destruct x; try discriminate B; [exact IH|].
    destruct l as [|[] [|]]; try discriminate B. discriminate Ht.
  - destruct x; try exact IH. discriminate B.
Qed.

Lemma tuple_member x :
  (match x with XVal _ => true | _ => tuple_variant x end) = false -> vnew x = into_value x /\ tuple_variant x = false.
Proof.
  intros H. unfold vnew. destruct x; try (split; [reflexivity|exact H]); try discriminate H.
  simpl in H. split; [|exact H]. destruct l as [|[] [|]]; try reflexivity. discriminate H.
Qed.

Theorem conv_roundtrip : forall t x, wt t x = true -> tuple_variant x = false -> from_value t (into_value x) = Ok x.
Proof.
  induction t using sig_ind'; intros x W T; destruct x; try discriminate W; try reflexivity.
  - (* Vec<T> *)
    simpl in W, T. apply andb_true_iff in W as [W1 W2]. apply sig_eqb_eq in W1. subst.
    simpl. change (fun e => if boxed_by_new e then VValue (into_value e) else into_value e) with vnew.
    rewrite (mapM_map (fun e => from_value t0 (unwrap1 e)) vnew (fun e => e) l).
    + rewrite map_id. reflexivity.
    + rewrite forallb_forall in W2. apply existsb_false in T. rewrite Forall_forall in T. apply Forall_forall.
      intros e He. apply unwrap_vnew; auto.
  - (* HashMap<K, V> *)
    simpl in W, T. apply andb_true_iff in W as [W W4]. apply andb_true_iff in W as [W W3].
    apply andb_true_iff in W as [W1 W2]. apply sig_eqb_eq in W1. apply sig_eqb_eq in W2. subst.
    simpl.
    change (map _ l) with (map conv2 l).
    rewrite (bt_from_iter_sorted _ (keys_sorted_adj _ W4)).
    rewrite (mapM_map _ conv2 (fun p => p) l).
    + rewrite map_id. reflexivity.
    + rewrite forallb_forall in W3. apply existsb_false in T. rewrite Forall_forall in T. apply Forall_forall.
      intros [a1 a2] He. specialize (W3 _ He). specialize (T _ He). simpl in *.
      apply andb_true_iff in W3 as [? ?]. apply orb_false_iff in T as [? ?].
      rewrite unwrap_vnew; auto. simpl. rewrite unwrap_vnew; auto.
  - (* tuples *)
    simpl in W, T. apply andb_true_iff in W as [W _].
    simpl. change (fun e => if boxed_by_new e then VValue (into_value e) else into_value e) with vnew.
    assert (E : forall fs0, Forall (fun t => forall x, wt t x = true -> tuple_variant x = false ->
                                              from_value t (into_value x) = Ok x) fs0 ->
                forall l0, list_eqb wt fs0 l0 = true ->
                existsb (fun e => match e with XVal _ => true | _ => tuple_variant e end) l0 = false ->
                (fix go (ts : list sig) (fs : list value) {struct ts} : res verr (list sv) :=
                   match ts with
                   | [] => Ok []
                   | t0 :: ts' =>
                       match fs with
                       | [] => Panic PIndex
                       | f :: fs' => let* x := from_value t0 f in let* r := go ts' fs' in Ok (x :: r)
                       end
                   end) fs0 (map vnew l0) = Ok l0).
    { clear. induction 1 as [|t0 ts Ht _ IH]; intros [|x0 l1]; simpl; try discriminate; [reflexivity|].
      rewrite andb_true_iff, orb_false_iff. intros [W1 W2] [T1 T2].
      apply tuple_member in T1 as [E1 E2]. rewrite E1, (Ht x0 W1 E2). simpl. rewrite IH; auto. }
    rewrite (E fs H l W T). reflexivity.
Qed.
