(* C08/Run.v — line driver (two-phase: the input is  case <TAB> observation of the harness).
     law <v> <v> <v>        -> does the observation equal what the model predicts?  do the laws hold on the observation?
     conv <type> <x>        -> idem for Value::from(x) / T::try_from(value)
   Output:  OK|exp=<predicted> <TAB> OK|fail:<laws>|- <TAB> class|-                                   *)
From ZV Require Import Base.Bytes Base.Res Base.Sig C08.Model C08.Spec.

(* ------------------------------------------------------------------------------------------------ *)
(* signatures: one complete type                                                                     *)

Fixpoint psig (fuel : nat) (inp : bytes) {struct fuel} : option (sig * bytes) :=
  match fuel with
  | O => None
  | S f =>
      match inp with
      | [] => None
      | c :: r =>
          if beq c "y" then Some (SU8, r) else if beq c "b" then Some (SBool, r)
          else if beq c "n" then Some (SI16, r) else if beq c "q" then Some (SU16, r)
          else if beq c "i" then Some (SI32, r) else if beq c "u" then Some (SU32, r)
          else if beq c "x" then Some (SI64, r) else if beq c "t" then Some (SU64, r)
          else if beq c "d" then Some (SF64, r) else if beq c "s" then Some (SStr, r)
          else if beq c "g" then Some (SSig, r) else if beq c "o" then Some (SObjPath, r)
          else if beq c "v" then Some (SVariant, r) else if beq c "h" then Some (SFd, r)
          else if beq c "a" then
            match r with
            | c2 :: r2 =>
                if beq c2 "{" then
                  match psig f r2 with
                  | Some (k, r3) =>
                      match psig f r3 with
                      | Some (v, c4 :: r4) => if beq c4 "}" then Some (SDict k v, r4) else None
                      | _ => None
                      end
                  | None => None
                  end
                else match psig f r with Some (e, r3) => Some (SArray e, r3) | None => None end
            | [] => None
            end
          else if beq c "(" then
            (fix fields (g : nat) (inp : bytes) (acc : list sig) {struct g} : option (sig * bytes) :=
               match g with
               | O => None
               | S g' =>
                   match inp with
                   | c1 :: r1 =>
                       if beq c1 ")" then (match acc with [] => None | _ => Some (SStruct (rev acc), r1) end)
                       else match psig f inp with Some (t, r2) => fields g' r2 (t :: acc) | None => None end
                   | [] => None
                   end
               end) f r []
          else None
      end
  end.

Definition parse_sig (s : bytes) : option sig :=
  match s with
  | [] => Some SUnit
  | _ => match psig (S (length s)) s with Some (t, []) => Some t | _ => None end
  end.

(* ------------------------------------------------------------------------------------------------ *)
(* lexical helpers                                                                                   *)

Fixpoint span (f : byte -> bool) (l : bytes) : bytes * bytes :=
  match l with
  | c :: r => if f c then let (a, b) := span f r in (c :: a, b) else ([], l)
  | [] => ([], [])
  end.
Definition until (stop : byte) (l : bytes) : option (bytes * bytes) :=   (* text before [stop], text after it *)
  let (a, b) := span (fun c => negb (beq c stop)) l in
  match b with _ :: r => Some (a, r) | [] => None end.

Definition pdec (l : bytes) : option (Z * bytes) :=
  let (d, r) := span is_digit l in
  match N_of_dec d with Some n => Some (Z.of_N n, r) | None => None end.
Definition psdec (l : bytes) : option (Z * bytes) :=
  match l with
  | c :: r => if beq c "-" then match pdec r with Some (z, r') => Some ((- z)%Z, r') | None => None end else pdec l
  | [] => None
  end.

Fixpoint be_N (l : bytes) (acc : N) : N := match l with [] => acc | c :: r => be_N r (256 * acc + bn c)%N end.
Definition hex16 (n : N) : bytes := hex_of_bytes (rev (le_bytes 8 n)).

(* ------------------------------------------------------------------------------------------------ *)
(* values                                                                                            *)

Inductive pr (A : Type) := POk (a : A) (rest : bytes) | PBad | PBuild.
Arguments POk {A} a rest. Arguments PBad {A}. Arguments PBuild {A}.

Definition pnum (p : bytes -> option (Z * bytes)) (mk : Z -> value) (r : bytes) : pr value :=
  match p r with Some (z, r') => POk (mk z) r' | None => PBad end.
Definition phexstr (mk : bytes -> value) (r : bytes) : pr value :=
  match until ";" r with
  | Some (h, r') => match bytes_of_hex h with Some s => POk (mk s) r' | None => PBad end
  | None => PBad
  end.
Definition pf64 {A : Type} (mk : bool -> N -> A) (r : bytes) : pr A :=
  match bytes_of_hex (firstn 16 r) with
  | Some bs => if Nat.eqb (length bs) 8 then
                 let n := be_N bs 0 in POk (mk (two63 <=? n)%N (n mod two63)%N) (skipn 16 r)
               else PBad
  | None => PBad
  end.

Definition build_array (es : sig) (items : list value) : res verr value :=
  fold_left (fun acc e => let* a := acc in array_append a e) items (Ok (VArray es [])).
Definition build_dict (ks vs : sig) (items : list (value * value)) : res verr value :=
  fold_left (fun acc kv => let* d := acc in dict_append d (fst kv) (snd kv)) items (Ok (VDict ks vs [])).
Definition of_build (r : res verr value) (rest : bytes) : pr value :=
  match r with Ok v => POk v rest | _ => PBuild end.

Fixpoint pvalue (raw : bool) (fuel : nat) (inp : bytes) {struct fuel} : pr value :=
  match fuel with
  | O => PBad
  | S f =>
      match inp with
      | [] => PBad
      | c :: r =>
          if beq c "y" then pnum pdec VU8 r
          else if beq c "b" then
            match r with c2 :: r2 => if beq c2 "0" then POk (VBool false) r2 else if beq c2 "1" then POk (VBool true) r2 else PBad
                    | [] => PBad end
          else if beq c "n" then pnum psdec VI16 r else if beq c "q" then pnum pdec VU16 r
          else if beq c "i" then pnum psdec VI32 r else if beq c "u" then pnum pdec VU32 r
          else if beq c "x" then pnum psdec VI64 r else if beq c "t" then pnum pdec VU64 r
          else if beq c "d" then pf64 VF64 r
          else if beq c "s" then phexstr VStr r
          else if beq c "o" then phexstr VPath r
          else if beq c "g" then
            match until ";" r with
            | Some (s, r') => match parse_sig s with Some t => POk (VSig t) r' | None => PBad end
            | None => PBad
            end
          else if beq c "v" then
            match pvalue raw f r with POk v r' => POk (VValue v) r' | PBad => PBad | PBuild => PBuild end
          else if beq c "h" then pnum pdec (VFd false) r
          else if beq c "a" then
            match until "[" r with
            | Some (s, r') =>
                match parse_sig s with
                | Some es =>
                    match pitems raw f "]" r' with
                    | POk items r'' => if raw then POk (VArray es items) r'' else of_build (build_array es items) r''
                    | PBad => PBad | PBuild => PBuild
                    end
                | None => PBad
                end
            | None => PBad
            end
          else if beq c "e" then
            match until "|" r with
            | Some (s1, r1) =>
                match until "[" r1 with
                | Some (s2, r2) =>
                    match parse_sig s1, parse_sig s2 with
                    | Some ks, Some vs =>
                        match pentries raw f r2 with
                        | POk items r3 => if raw then POk (VDict ks vs items) r3 else of_build (build_dict ks vs items) r3
                        | PBad => PBad | PBuild => PBuild
                        end
                    | _, _ => PBad
                    end
                | None => PBad
                end
            | None => PBad
            end
          else if beq c "r" then
            match r with
            | c2 :: r2 =>
                if beq c2 "(" then
                  match pitems raw f ")" r2 with
                  | POk items r3 => if raw then POk (VStruct items) r3 else of_build (struct_build items) r3
                  | PBad => PBad | PBuild => PBuild
                  end
                else PBad
            | [] => PBad
            end
          else PBad
      end
  end
(* after the opening bracket: nothing, or  item (, item)*  then [close] *)
with pitems (raw : bool) (fuel : nat) (close : byte) (inp : bytes) {struct fuel} : pr (list value) :=
  match fuel with
  | O => PBad
  | S f =>
      match inp with
      | c :: r =>
          if beq c close then POk [] r
          else
            match pvalue raw f inp with
            | POk v (c2 :: r2) =>
                if beq c2 "," then
                  match pitems raw f close r2 with
                  | POk l r3 => (match l with [] => PBad | _ => POk (v :: l) r3 end)
                  | PBad => PBad | PBuild => PBuild
                  end
                else if beq c2 close then POk [v] r2 else PBad
            | POk _ [] => PBad
            | PBad => PBad | PBuild => PBuild
            end
      | [] => PBad
      end
  end
with pentries (raw : bool) (fuel : nat) (inp : bytes) {struct fuel} : pr (list (value * value)) :=
  match fuel with
  | O => PBad
  | S f =>
      match inp with
      | c :: r =>
          if beq c "]" then POk [] r
          else
            match pvalue raw f inp with
            | POk k (c1 :: r1) =>
                if beq c1 "=" then
                  match pvalue raw f r1 with
                  | POk v (c2 :: r2) =>
                      if beq c2 "," then
                        match pentries raw f r2 with
                        | POk l r3 => (match l with [] => PBad | _ => POk ((k, v) :: l) r3 end)
                        | PBad => PBad | PBuild => PBuild
                        end
                      else if beq c2 "]" then POk [(k, v)] r2 else PBad
                  | POk _ [] => PBad
                  | PBad => PBad | PBuild => PBuild
                  end
                else PBad
            | POk _ [] => PBad
            | PBad => PBad | PBuild => PBuild
            end
      | [] => PBad
      end
  end.

(* [raw = false]: containers are built with the model of the public constructors (what the harness does with a case);
   [raw = true]: the text is taken as the container's content as it stands (reading back what the harness printed) *)
Definition parse_value (w : bytes) : pr value :=
  match pvalue false (S (length w)) w with POk v [] => POk v [] | POk _ _ => PBad | PBad => PBad | PBuild => PBuild end.

(* ---- printing (the harness' `show`) ---- *)
Fixpoint joinc (l : list bytes) : bytes :=
  match l with [] => [] | [x] => x | x :: r => x ++ B "," ++ joinc r end.

Fixpoint show_value (v : value) : bytes :=
  match v with
  | VU8 z => B "y" ++ dec_of_Z z | VBool b => if b then B "b1" else B "b0"
  | VI16 z => B "n" ++ dec_of_Z z | VU16 z => B "q" ++ dec_of_Z z
  | VI32 z => B "i" ++ dec_of_Z z | VU32 z => B "u" ++ dec_of_Z z
  | VI64 z => B "x" ++ dec_of_Z z | VU64 z => B "t" ++ dec_of_Z z
  | VF64 n m => B "d" ++ hex16 (f_bits n m)
  | VStr s => B "s" ++ hex_of_bytes s ++ B ";"
  | VSig s => B "g" ++ show s ++ B ";"
  | VPath s => B "o" ++ hex_of_bytes s ++ B ";"
  | VValue x => B "v" ++ show_value x
  | VArray s l => B "a" ++ show s ++ B "[" ++ joinc (map show_value l) ++ B "]"
  | VDict k vs l =>
      B "e" ++ show k ++ B "|" ++ show vs ++ B "["
        ++ joinc (map (fun p => match p with (a1, a2) => show_value a1 ++ B "=" ++ show_value a2 end) l) ++ B "]"
  | VStruct l => B "r(" ++ joinc (map show_value l) ++ B ")"
  | VFd _ n => if (n <? 8)%Z then B "h" ++ dec_of_Z n else B "h?"      (* 0..7 = the harness' table, others are dup'ed *)
  end.

(* ------------------------------------------------------------------------------------------------ *)
(* law cases                                                                                         *)

Definition os_run (k : nat) : option Z := Some (1000000 + Z.of_nat k)%Z.   (* dup returns a descriptor not in the table *)

Definition tfc (b : bool) : byte := if b then "T"%byte else "F"%byte.
Definition ordc (c : comparison) : byte := match c with Lt => "L" | Eq => "E" | Gt => "G" end%byte.
Definition pordc (c : option comparison) : byte := match c with Some c => ordc c | None => "N"%byte end.

Definition pairs9 {A : Type} (l : list value) (f : value -> value -> A) : list A :=
  flat_map (fun a => map (fun b => f a b) l) l.

Definition hash_eqb (a b : value) : bool := lbeq (flatten (vhash a)) (flatten (vhash b)).

Definition sigs_eqb (a b : value) : bool := sig_eqb (value_signature a) (value_signature b).

Definition clone_obs (v : value) : bytes :=
  match try_clone os_run v 0 with
  | Ok (c, _) => [tfc (veq c v); tfc (lbeq (show_value c) (show_value v)); tfc (sigs_eqb c v)]
  | _ => B "EEE"
  end.
Definition owned_obs (v : value) : bytes :=
  match try_to_owned os_run v 0 with
  | Ok (o, k) =>
      [tfc (veq o v); tfc (lbeq (show_value o) (show_value v)); tfc (sigs_eqb o v)] ++
      match try_clone os_run o k with Ok (oc, _) => [tfc (veq oc o)] | _ => B "E" end
  | _ => B "EEEE"
  end.

Definition law_predict (l : list value) : bytes :=
  match l with
  | [a; b; c] =>
      B "eq=" ++ pairs9 l (fun x y => tfc (veq x y)) ++
      B " pc=" ++ pairs9 l (fun x y => pordc (vpcmp x y)) ++
      B " cm=" ++ pairs9 l (fun x y => ordc (vcmp x y)) ++
      B " hs=" ++ [tfc (hash_eqb a b); tfc (hash_eqb a c); tfc (hash_eqb b c)] ++
      B " sg=" ++ joinc (map (fun v => show (value_signature v)) l) ++
      B " cl=" ++ flat_map clone_obs l ++
      B " ow=" ++ flat_map owned_obs l ++
      B " en=" ++ map (fun v => tfc (wfb v)) l ++
      B " pr=" ++ joinc (map show_value l)
  | _ => B "BADCASE"
  end.

(* ---- reading an observation back ---- *)
Definition field (name : bytes) (fs : list bytes) : option bytes :=
  match filter (fun w => starts_with (name ++ B "=") w) fs with
  | w :: _ => Some (skipn (S (length name)) w)
  | [] => None
  end.
Definition tfs (l : bytes) : list bool := map (fun c => beq c "T") l.
Definition ord_of (c : byte) : comparison := if beq c "L" then Lt else if beq c "G" then Gt else Eq.
Definition pord_of (c : byte) : option comparison := if beq c "N" then None else Some (ord_of c).
Definition every (n k : nat) (l : bytes) : bytes :=         (* characters at positions k, k+n, k+2n *)
  map (fun i => nth (n * i + k) l "F"%byte) [0; 1; 2]%nat.

Definition read_lawobs (obs : bytes) : option lawobs :=
  let fs := words obs in
  match field (B "eq") fs, field (B "pc") fs, field (B "cm") fs, field (B "hs") fs,
        field (B "cl") fs, field (B "ow") fs, field (B "en") fs with
  | Some eq, Some pc, Some cm, Some hs, Some cl, Some ow, Some en =>
      if Nat.eqb (length eq) 9 && Nat.eqb (length pc) 9 && Nat.eqb (length cm) 9 && Nat.eqb (length hs) 3
         && Nat.eqb (length cl) 9 && Nat.eqb (length ow) 12 && Nat.eqb (length en) 3
      then Some {| l_eq := tfs eq; l_pc := map pord_of pc; l_cm := map ord_of cm; l_hs := tfs hs;
                   l_cl_eq := tfs (every 3 0 cl); l_cl_sig := tfs (every 3 2 cl);
                   l_ow_eq := tfs (every 4 0 ow); l_ow_sig := tfs (every 4 2 ow); l_ocl_eq := tfs (every 4 3 ow);
                   l_en := tfs en |}
      else None
  | _, _, _, _, _, _, _ => None
  end.

Definition mem (x : bytes) (l : list bytes) : bool := existsb (lbeq x) l.
Definition subset (a b : list bytes) : bool := forallb (fun x => mem x b) a.
Definition meets (a b : list bytes) : bool := existsb (fun x => mem x b) a.

(* the class of a case, given which laws failed: every failing law must be excused by a class the case is in *)
Definition law_class (l : list value) (failing : list bytes) : bytes :=
  let cn := existsb has_nan l in
  let cf := existsb has_fd l in
  let allowed := (if cn then excused_nan else []) ++ (if cf then excused_fd else []) in
  match failing with
  | [] => dash
  | _ =>
      if subset failing allowed then
        if cn && meets failing excused_nan then B "nan" else B "fd_dup"
      else dash
  end.

(* the three values as the implementation printed them back (pr=a,b,c), read without going through the model's constructors *)
Definition read_printed (obs : bytes) : option (list value) :=
  match field (B "pr") (words obs) with
  | Some t =>
      match pvalue true (S (length t)) t with
      | POk a (c1 :: r1) =>
          match pvalue true (S (length r1)) r1 with
          | POk b (c2 :: r2) =>
              match pvalue true (S (length r2)) r2 with
              | POk c [] => if beq c1 "," && beq c2 "," then Some [a; b; c] else None
              | _ => None
              end
          | _ => None
          end
      | _ => None
      end
  | None => None
  end.

Definition verdict (predicted obs : bytes) : bytes :=
  if lbeq predicted obs then B "OK" else B "exp=" ++ predicted.

Definition run_law (ws : list bytes) (obs : bytes) : outp :=
  match ws with
  | [w1; w2; w3] =>
      match parse_value w1, parse_value w2, parse_value w3 with
      | POk a _, POk b _, POk c _ =>
          let l := [a; b; c] in
          let m := verdict (law_predict l) obs in
          match read_lawobs obs with
          | Some o =>
              let failing := law_failures o in
              {| o_model := m;
                 o_spec := match failing with [] => B "OK" | _ => B "fail:" ++ joinc failing end;
                 (* the class is decided on the values the implementation reports to hold, so that spec and class do not
                    depend on the model's constructors *)
                 o_class := match read_printed obs with Some li => law_class li failing | None => dash end |}
          | None => {| o_model := m; o_spec := B "fail:unreadable"; o_class := dash |}
          end
      | PBad, _, _ | _, PBad, _ | _, _, PBad => bad_case
      | _, _, _ => {| o_model := verdict (B "ERR:build") obs; o_spec := dash; o_class := dash |}
      end
  | _ => bad_case
  end.

(* ------------------------------------------------------------------------------------------------ *)
(* conversion cases                                                                                  *)

Definition sv_of_leaf (v : value) : option sv :=
  match v with
  | VU8 z => Some (XU8 z) | VBool b => Some (XBool b) | VI16 z => Some (XI16 z) | VU16 z => Some (XU16 z)
  | VI32 z => Some (XI32 z) | VU32 z => Some (XU32 z) | VI64 z => Some (XI64 z) | VU64 z => Some (XU64 z)
  | VF64 n m => Some (XF64 n m) | VStr s => Some (XStr s) | VSig s => Some (XSig s) | VPath s => Some (XPath s)
  | _ => None
  end.

(* type-directed reader of the std-value syntax *)
Fixpoint psv (raw : bool) (fuel : nat) (t : sig) (inp : bytes) {struct fuel} : pr sv :=
  match fuel with
  | O => PBad
  | S f =>
      match t with
      | SVariant =>
          match inp with
          | c :: r => if beq c "V" then match pvalue raw (S (length r)) r with POk v r' => POk (XVal v) r' | PBad => PBad | PBuild => PBuild end
                      else PBad
          | [] => PBad
          end
      | SArray et =>
          match inp with
          | c :: r => if beq c "[" then
                        match psvs raw f (fun _ => et) "]" 0 r with POk l r' => POk (XVec et l) r' | PBad => PBad | PBuild => PBuild end
                      else PBad
          | [] => PBad
          end
      | SDict kt vt =>
          match inp with
          | c :: r => if beq c "<" then
                        match psvm raw f kt vt r with POk l r' => POk (XMap kt vt l) r' | PBad => PBad | PBuild => PBuild end
                      else PBad
          | [] => PBad
          end
      | SStruct ts =>
          match inp with
          | c :: r => if beq c "(" then
                        match psvs raw f (fun i => nth i ts SUnit) ")" 0 r with
                        | POk l r' => if Nat.eqb (length l) (length ts) then POk (XTup l) r' else PBad
                        | PBad => PBad | PBuild => PBuild
                        end
                      else PBad
          | [] => PBad
          end
      | SUnit | SFd | SMaybe _ => PBad
      | _ =>
          match pvalue raw (S (length inp)) inp with
          | POk v r =>
              match sv_of_leaf v with
              | Some x => if sig_eqb (value_signature v) t then POk x r else PBad
              | None => PBad
              end
          | PBad => PBad | PBuild => PBuild
          end
      end
  end
with psvs (raw : bool) (fuel : nat) (ty : nat -> sig) (close : byte) (i : nat) (inp : bytes) {struct fuel} : pr (list sv) :=
  match fuel with
  | O => PBad
  | S f =>
      match inp with
      | c :: r =>
          if beq c close then POk [] r
          else
            match psv raw f (ty i) inp with
            | POk x (c2 :: r2) =>
                if beq c2 "," then
                  match psvs raw f ty close (S i) r2 with
                  | POk l r3 => (match l with [] => PBad | _ => POk (x :: l) r3 end)
                  | PBad => PBad | PBuild => PBuild
                  end
                else if beq c2 close then POk [x] r2 else PBad
            | POk _ [] => PBad
            | PBad => PBad | PBuild => PBuild
            end
      | [] => PBad
      end
  end
with psvm (raw : bool) (fuel : nat) (kt vt : sig) (inp : bytes) {struct fuel} : pr (list (sv * sv)) :=
  match fuel with
  | O => PBad
  | S f =>
      match inp with
      | c :: r =>
          if beq c ">" then POk [] r
          else
            match psv raw f kt inp with
            | POk k (c1 :: r1) =>
                if beq c1 "=" then
                  match psv raw f vt r1 with
                  | POk v (c2 :: r2) =>
                      if beq c2 "," then
                        match psvm raw f kt vt r2 with
                        | POk l r3 => (match l with [] => PBad | _ => POk ((k, v) :: l) r3 end)
                        | PBad => PBad | PBuild => PBuild
                        end
                      else if beq c2 ">" then POk [(k, v)] r2 else PBad
                  | POk _ [] => PBad
                  | PBad => PBad | PBuild => PBuild
                  end
                else PBad
            | POk _ [] => PBad
            | PBad => PBad | PBuild => PBuild
            end
      | [] => PBad
      end
  end.

Fixpoint show_sv (x : sv) : bytes :=
  match x with
  | XVal v => B "V" ++ show_value v
  | XVec _ l => B "[" ++ joinc (map show_sv l) ++ B "]"
  | XMap _ _ l => B "<" ++ joinc (map (fun p => match p with (a1, a2) => show_sv a1 ++ B "=" ++ show_sv a2 end) l) ++ B ">"
  | XTup l => B "(" ++ joinc (map show_sv l) ++ B ")"
  | _ => show_value (into_value x)
  end.

Definition conv_predict (t : sig) (x : sv) : bytes :=
  let v := into_value x in
  match from_value t v with
  | Panic _ => B "PANIC"
  | r => show_value v ++ B " " ++ show (value_signature v) ++ B " " ++ [tfc (wfb v)] ++ B " " ++ show_sv x ++ B " "
         ++ match r with Ok y => B "OK:" ++ show_sv y | _ => B "ERR" end
  end.

Definition run_conv (ty text obs : bytes) : outp :=
  match parse_sig ty with
  | Some t =>
      match psv false (S (S (length text))) t text with
      | POk x [] =>
          let m := verdict (conv_predict t x) obs in
          let xi := match words obs with
                    | [_; _; _; inp; _] => match psv true (S (S (length inp))) t inp with POk y [] => Some y | _ => None end
                    | _ => None
                    end in
          let failing :=
            match words obs with
            | [_; _; en; inp; back] =>        (* inp = the std value as the implementation printed it before converting *)
                (if lbeq back (B "OK:" ++ inp) then [] else [B "roundtrip"]) ++
                (if lbeq en (B "T") then [] else [B "enc"])
            | _ => [B "roundtrip"]
            end in
          {| o_model := m;
             o_spec := match failing with [] => B "OK" | _ => B "fail:" ++ joinc failing end;
             o_class := match failing with
                        | [] => dash
                        | _ => if tuple_variant (match xi with Some y => y | None => x end) then B "tuple_variant" else dash
                        end |}
      | POk _ _ | PBad => bad_case
      | PBuild => {| o_model := verdict (B "ERR:build") obs; o_spec := dash; o_class := dash |}
      end
  | None => bad_case
  end.

(* ------------------------------------------------------------------------------------------------ *)
Definition run_case (line : bytes) : outp :=
  match split_on tab line with
  | [case; obs] =>
      match words case with
      | cmd :: rest =>
          if lbeq cmd (B "law") then run_law rest obs
          else if lbeq cmd (B "conv") then
            match rest with [ty; text] => run_conv ty text obs | _ => bad_case end
          else bad_case
      | [] => bad_case
      end
  | _ => bad_case
  end.

Definition run (line : bytes) : bytes := render (run_case line).
