(* C08/Algebra.v — algebra of three-way comparison results and of the list combinators of Model.v
   (cthen / othen / lex / lex_p / list_eqb), stated point-wise so that they can be used under the nested
   induction principles of [sig] and [value]. *)
From ZV Require Import Base.Bytes C08.Model C08.Spec.

(* ---- comparison ---- *)
Lemma CompOpp_cthen a b : CompOpp (cthen a b) = cthen (CompOpp a) (CompOpp b).
Proof. destruct a; reflexivity. Qed.

Lemma cthen_Eq a b : cthen a b = Eq <-> a = Eq /\ b = Eq.
Proof. destruct a; simpl; intuition congruence. Qed.

Lemma T4_refl_Eq : T4 Eq Eq Eq.
Proof. unfold T4; intuition. Qed.

Lemma T4_cthen a b c a' b' c' :
  T4 a b c -> (a = Eq -> b = Eq -> T4 a' b' c') -> T4 (cthen a a') (cthen b b') (cthen c c').
Proof.
  intros H H'. destruct a, b, c; unfold T4 in *; simpl in *;
    try (specialize (H' eq_refl eq_refl)); intuition congruence.
Qed.

Lemma T4_Zcompare x y z : T4 (x ?= y)%Z (y ?= z)%Z (x ?= z)%Z.
Proof.
  unfold T4. repeat split; intros.
  - apply Z.compare_eq in H. subst. reflexivity.
  - apply Z.compare_eq in H. subst. reflexivity.
  - rewrite Z.compare_lt_iff in *. lia.
  - rewrite Z.compare_gt_iff in *. lia.
Qed.

Lemma T4_Ncompare x y z : T4 (x ?= y)%N (y ?= z)%N (x ?= z)%N.
Proof.
  unfold T4. repeat split; intros.
  - apply N.compare_eq in H. subst. reflexivity.
  - apply N.compare_eq in H. subst. reflexivity.
  - rewrite N.compare_lt_iff in *. lia.
  - rewrite N.compare_gt_iff in *. lia.
Qed.

(* the comparison laws as boolean checks agree with the Prop *)
Lemma ceqb_eq a b : ceqb a b = true <-> a = b.
Proof. destruct a, b; simpl; intuition congruence. Qed.

Lemma t4b_T4 a b c : t4b a b c = true <-> T4 a b c.
Proof.
  split.
  - destruct a, b, c; simpl; intro H; try discriminate H; unfold T4; repeat split; intros; congruence.
  - intros (H1 & H2 & H3 & H4). destruct a, b, c; simpl; try reflexivity; exfalso;
      first [discriminate (H1 eq_refl) | discriminate (H2 eq_refl) | discriminate (H3 eq_refl eq_refl)
            | discriminate (H4 eq_refl eq_refl)].
Qed.

(* ---- list_eqb ---- *)
Section ListEqb.
  Context {A : Type} (e : A -> A -> bool).

  Lemma list_eqb_refl xs : Forall (fun x => e x x = true) xs -> list_eqb e xs xs = true.
  Proof. induction 1; simpl; [reflexivity|]. rewrite H, IHForall. reflexivity. Qed.

  Lemma list_eqb_sym xs : Forall (fun x => forall y, e x y = e y x) xs -> forall ys, list_eqb e xs ys = list_eqb e ys xs.
  Proof.
    induction 1; intros [|y ys]; simpl; try reflexivity. rewrite H, IHForall. reflexivity.
  Qed.

  Lemma list_eqb_trans xs :
    Forall (fun x => forall y z, e x y = true -> e y z = true -> e x z = true) xs ->
    forall ys zs, list_eqb e xs ys = true -> list_eqb e ys zs = true -> list_eqb e xs zs = true.
  Proof.
    induction 1 as [|x xs Hx _ IH]; intros [|y ys] [|z zs]; simpl; try congruence.
    rewrite !andb_true_iff. intros [H1 H2] [H3 H4]. split; [eapply Hx; eauto | eapply IH; eauto].
  Qed.

  Lemma list_eqb_length xs : forall ys, list_eqb e xs ys = true -> length xs = length ys.
  Proof.
    induction xs as [|x xs IH]; intros [|y ys]; simpl; try congruence.
    rewrite andb_true_iff. intros [_ H]. f_equal. auto.
  Qed.

  (* pointwise consequence: a function of the elements agrees *)
  Lemma list_eqb_map {B : Type} (f : A -> B) xs :
    Forall (fun x => forall y, e x y = true -> f x = f y) xs ->
    forall ys, list_eqb e xs ys = true -> map f xs = map f ys.
  Proof.
    induction 1 as [|x xs Hx _ IH]; intros [|y ys]; simpl; try congruence.
    rewrite andb_true_iff. intros [H1 H2]. f_equal; auto.
  Qed.
End ListEqb.

Lemma list_eqb_eq {A : Type} (e : A -> A -> bool) xs :
  Forall (fun x => forall y, e x y = true <-> x = y) xs -> forall ys, list_eqb e xs ys = true <-> xs = ys.
Proof.
  induction 1 as [|x xs Hx _ IH]; intros [|y ys]; simpl; try (intuition congruence).
  rewrite andb_true_iff, Hx, IH. intuition congruence.
Qed.

(* ---- lex ---- *)
Section Lex.
  Context {A : Type} (c : A -> A -> comparison).

  Lemma lex_T4 xs :
    Forall (fun x => forall y z, T4 (c x y) (c y z) (c x z)) xs ->
    forall ys zs, T4 (lex c xs ys) (lex c ys zs) (lex c xs zs).
  Proof.
    induction 1 as [|x xs Hx _ IH]; intros [|y ys] [|z zs]; simpl;
      try (unfold T4; intuition congruence).
    apply T4_cthen; [apply Hx | intros; apply IH].
  Qed.

  Lemma lex_dual xs :
    Forall (fun x => forall y, c y x = CompOpp (c x y)) xs -> forall ys, lex c ys xs = CompOpp (lex c xs ys).
  Proof.
    induction 1 as [|x xs Hx _ IH]; intros [|y ys]; simpl; try reflexivity.
    rewrite CompOpp_cthen, Hx, IH. reflexivity.
  Qed.

  Lemma lex_Eq (e : A -> A -> bool) xs :
    Forall (fun x => forall y, c x y = Eq <-> e x y = true) xs ->
    forall ys, lex c xs ys = Eq <-> list_eqb e xs ys = true.
  Proof.
    induction 1 as [|x xs Hx _ IH]; intros [|y ys]; simpl; try (intuition congruence).
    rewrite cthen_Eq, andb_true_iff, Hx, IH. reflexivity.
  Qed.

  Lemma lex_refl xs : Forall (fun x => c x x = Eq) xs -> lex c xs xs = Eq.
  Proof. induction 1; simpl; [reflexivity|]. rewrite H, IHForall. reflexivity. Qed.
End Lex.

(* ---- othen / lex_p ---- *)
Definition oopp (o : option comparison) : option comparison := option_map CompOpp o.

Lemma oopp_othen a b : oopp (othen a b) = othen (oopp a) (oopp b).
Proof. destruct a as [[]|]; reflexivity. Qed.

Section LexP.
  Context {A : Type} (c : A -> A -> option comparison).

  Lemma lex_p_dual xs :
    Forall (fun x => forall y, c y x = oopp (c x y)) xs -> forall ys, lex_p c ys xs = oopp (lex_p c xs ys).
  Proof.
    induction 1 as [|x xs Hx _ IH]; intros [|y ys]; simpl; try reflexivity.
    rewrite oopp_othen, Hx, IH. reflexivity.
  Qed.


  Lemma lex_p_eq_Some (e : A -> A -> bool) xs :
    Forall (fun x => forall y, e x y = true -> c x y = Some Eq) xs ->
    forall ys, list_eqb e xs ys = true -> lex_p c xs ys = Some Eq.
  Proof.
    induction 1 as [|x xs Hx _ IH]; intros [|y ys]; simpl; try congruence.
    rewrite andb_true_iff. intros [H1 H2]. rewrite (Hx y H1), (IH ys H2). reflexivity.
  Qed.
End LexP.
