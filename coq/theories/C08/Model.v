(* C08/Model.v — executable mirror of zvariant's dynamic values (default features, unix):
     zvariant/src/value.rs        enum Value; #[derive(PartialEq, PartialOrd)]; hand-written Hash, Eq, Ord;
                                  value_signature, try_clone, try_to_owned, Value::new
     zvariant/src/array.rs        struct Array { elements, signature }  #[derive(Hash, PartialEq, PartialOrd, ..)]; new, append,
                                  From<Vec<T>>, TryFrom<Array> for Vec<T>
     zvariant/src/dict.rs         struct Dict { map: BTreeMap<Value, Value>, signature }  derives; new, append, to_dict!, from_dict!
     zvariant/src/structure.rs    struct Structure { fields, signature }  derives; StructureBuilder::build, tuple_impls!
     zvariant/src/str.rs, object_path.rs, fd.rs   (Eq/Ord/Hash through as_str() resp. as_raw_fd())
     zvariant/src/into_value.rs, from_value.rs    the std-type conversions
     zvariant_utils/src/signature/mod.rs          impl PartialEq / Ord / Hash for Signature
   and of the std library pieces the derives expand to (slice ==, slice partial_cmp, Iterator::partial_cmp of BTreeMap,
   Vec/BTreeMap/str/[u8; 8] Hash, f64 ==, partial_cmp, total_cmp).
   No proofs in this file.

   Representation choices (see docs/C08.md):
   * an f64 is its 64-bit pattern, kept as (sign bit, low 63 bits);
   * all integers are Z (ranges are those of the Rust types; no law depends on them);
   * Array / Dict store the element (key, value) signature; the stored full signature is SArray / SDict of it,
     as every constructor of the Rust type makes it; Structure's stored signature is the one
     StructureBuilder::build computes from the fields;
   * BTreeMap<Value, Value> is the list of its entries in iteration order;
   * Fd carries its raw descriptor number and whether it is Fd::Owned; dup(2) is an oracle [os];
   * Maybe (feature gvariant) is not modelled. *)
From ZV Require Import Base.Bytes Base.Res Base.Sig.

(* ------------------------------------------------------------------------------------------------ *)
(* std combinators the derives expand to                                                             *)

(* <[A] as PartialEq<[B]>>::eq  /  Iterator::eq : same length and pairwise equal *)
Definition list_eqb {A B : Type} (f : A -> B -> bool) : list A -> list B -> bool :=
  fix go (xs : list A) (ys : list B) {struct xs} : bool :=
    match xs, ys with
    | [], [] => true
    | x :: xs', y :: ys' => f x y && go xs' ys'
    | _, _ => false
    end.

(* Ordering::then *)
Definition cthen (o k : comparison) : comparison := match o with Eq => k | _ => o end.
(* derived PartialOrd on a struct: `match a.partial_cmp(b) { Some(Equal) => next, cmp => cmp }` *)
Definition othen (o k : option comparison) : option comparison := match o with Some Eq => k | _ => o end.

(* Iterator::cmp / <[A] as Ord>::cmp : lexicographic, a proper prefix is Less *)
Definition lex {A B : Type} (f : A -> B -> comparison) : list A -> list B -> comparison :=
  fix go (xs : list A) (ys : list B) {struct xs} : comparison :=
    match xs, ys with
    | [], [] => Eq
    | [], _ :: _ => Lt
    | _ :: _, [] => Gt
    | x :: xs', y :: ys' => cthen (f x y) (go xs' ys')
    end.

(* <[A] as PartialOrd>::partial_cmp (SlicePartialOrd default impl) / Iterator::partial_cmp *)
Definition lex_p {A B : Type} (f : A -> B -> option comparison) : list A -> list B -> option comparison :=
  fix go (xs : list A) (ys : list B) {struct xs} : option comparison :=
    match xs, ys with
    | [], [] => Some Eq
    | [], _ :: _ => Some Lt
    | _ :: _, [] => Some Gt
    | x :: xs', y :: ys' => othen (f x y) (go xs' ys')
    end.

(* str::cmp = byte-wise lexicographic *)
Definition bytes_cmp : bytes -> bytes -> comparison := lex (fun x y => N.compare (bn x) (bn y)).

(* ------------------------------------------------------------------------------------------------ *)
(* Hasher input.  A Hasher is any deterministic function of the sequence of write_* calls.           *)

Inductive tok :=
| TI (width : N) (z : Z)        (* write_u8/i16/.../isize: [width] bytes, native endian *)
| TLen (n : N)                  (* write_length_prefix = write_usize *)
| TBytes (b : bytes)            (* write(&[u8]) *)
| TStr (s : bytes).             (* write_str: the bytes, then 0xff *)

Fixpoint le_bytes (w : nat) (n : N) : bytes :=
  match w with O => [] | S w' => nb (n mod 256) :: le_bytes w' (n / 256) end.

(* the byte stream std's SipHasher13 (DefaultHasher) sees, 64-bit little-endian target *)
Definition tok_bytes (t : tok) : bytes :=
  match t with
  | TI w z => le_bytes (N.to_nat w) (Z.to_N (z mod (2 ^ (8 * Z.of_N w))))
  | TLen n => le_bytes 8 n
  | TBytes b => b
  | TStr s => s ++ [xff]
  end.
Definition flatten (l : list tok) : bytes := concat (map tok_bytes l).

(* ------------------------------------------------------------------------------------------------ *)
(* Signature: PartialEq, Ord, Hash  (zvariant_utils/src/signature/mod.rs)                            *)

Fixpoint sig_eqb (a b : sig) {struct a} : bool :=
  match a, b with
  | SUnit, SUnit | SU8, SU8 | SBool, SBool | SI16, SI16 | SU16, SU16 | SI32, SI32 | SU32, SU32
  | SI64, SI64 | SU64, SU64 | SF64, SF64 | SStr, SStr | SSig, SSig | SObjPath, SObjPath
  | SVariant, SVariant | SFd, SFd => true
  | SArray x, SArray y => sig_eqb x y
  | SDict k v, SDict k' v' => sig_eqb k k' && sig_eqb v v'
  | SStruct xs, SStruct ys => list_eqb sig_eqb xs ys           (* a.iter().eq(b.iter()) *)
  | SMaybe x, SMaybe y => sig_eqb x y
  | _, _ => false
  end.

(* Signature::kind_rank (after fix: commit 668536e1): the position of the kind, the numbers Hash feeds *)
Definition kind_rank (s : sig) : Z :=
  match s with
  | SUnit => 0 | SU8 => 1 | SBool => 2 | SI16 => 3 | SU16 => 4 | SI32 => 5 | SU32 => 6 | SI64 => 7 | SU64 => 8 | SF64 => 9
  | SStr => 10 | SSig => 11 | SObjPath => 12 | SVariant => 13 | SFd => 14 | SArray _ => 15 | SDict _ _ => 16
  | SStruct _ => 17 | SMaybe _ => 18
  end.

(* impl Ord for Signature (after fix: commit 668536e1): equal basic kinds are Equal, equal container kinds compare their
   children, different kinds are ordered by `self.kind_rank().cmp(&other.kind_rank())` (was: `(_, _) => Equal`) *)
Fixpoint sig_cmp (a b : sig) {struct a} : comparison :=
  match a, b with
  | SUnit, SUnit | SU8, SU8 | SBool, SBool | SI16, SI16 | SU16, SU16 | SI32, SI32 | SU32, SU32
  | SI64, SI64 | SU64, SU64 | SF64, SF64 | SStr, SStr | SSig, SSig | SObjPath, SObjPath
  | SVariant, SVariant | SFd, SFd => Eq
  | SArray x, SArray y => sig_cmp x y
  | SDict k v, SDict k' v' => match sig_cmp k k' with Eq => sig_cmp v v' | o => o end
  | SStruct xs, SStruct ys => lex sig_cmp xs ys                (* a.iter().cmp(b.iter()) *)
  | SMaybe x, SMaybe y => sig_cmp x y
  | _, _ => (kind_rank a ?= kind_rank b)%Z
  end.

(* impl Hash for Signature: `N.hash(state)` with an i32 literal, then the children (no length prefix) *)
Fixpoint sig_hash (s : sig) : list tok :=
  match s with
  | SUnit => [TI 4 0] | SU8 => [TI 4 1] | SBool => [TI 4 2] | SI16 => [TI 4 3] | SU16 => [TI 4 4]
  | SI32 => [TI 4 5] | SU32 => [TI 4 6] | SI64 => [TI 4 7] | SU64 => [TI 4 8] | SF64 => [TI 4 9]
  | SStr => [TI 4 10] | SSig => [TI 4 11] | SObjPath => [TI 4 12] | SVariant => [TI 4 13] | SFd => [TI 4 14]
  | SArray c => TI 4 15 :: sig_hash c
  | SDict k v => TI 4 16 :: sig_hash k ++ sig_hash v
  | SStruct fs => TI 4 17 :: concat (map sig_hash fs)
  | SMaybe c => TI 4 18 :: sig_hash c
  end.

(* ------------------------------------------------------------------------------------------------ *)
(* f64 on bit patterns: (neg, mag) = (bit 63, bits 0..62)                                           *)

Definition f_inf : N := 9218868437227405312.            (* 0x7FF0_0000_0000_0000 *)
Definition two63 : N := 9223372036854775808.
Definition f_isnan (mag : N) : bool := (f_inf <? mag)%N.
Definition f_bits (neg : bool) (mag : N) : N := if neg then (two63 + mag)%N else mag.
(* numeric order of non-NaN doubles = order of the sign-magnitude integers; both zeros give 0 *)
Definition f_num (neg : bool) (mag : N) : Z := if neg then (- Z.of_N mag)%Z else Z.of_N mag.
(* f64::total_cmp: flip the low 63 bits of negatives, compare as i64 *)
Definition f_tkey (neg : bool) (mag : N) : Z := if neg then (- 1 - Z.of_N mag)%Z else Z.of_N mag.

Definition f_eq (n1 : bool) (m1 : N) (n2 : bool) (m2 : N) : bool :=
  negb (f_isnan m1) && negb (f_isnan m2) && (f_num n1 m1 =? f_num n2 m2)%Z.
Definition f_pcmp (n1 : bool) (m1 : N) (n2 : bool) (m2 : N) : option comparison :=
  if f_isnan m1 || f_isnan m2 then None else Some (f_num n1 m1 ?= f_num n2 m2)%Z.
Definition f_total (n1 : bool) (m1 : N) (n2 : bool) (m2 : N) : comparison :=
  (f_tkey n1 m1 ?= f_tkey n2 m2)%Z.
(* `Self::F64(inner) if *inner == 0. => 0f64.to_le_bytes().hash(state)`, else `inner.to_le_bytes().hash(state)`;
   [u8; 8]::hash = slice hash = length prefix + write(bytes) *)
Definition f_hash (neg : bool) (mag : N) : list tok :=
  if (mag =? 0)%N then [TLen 8; TBytes (le_bytes 8 0)] else [TLen 8; TBytes (le_bytes 8 (f_bits neg mag))].

(* ------------------------------------------------------------------------------------------------ *)
(* Value                                                                                             *)

Inductive value :=
| VU8 (z : Z) | VBool (b : bool) | VI16 (z : Z) | VU16 (z : Z) | VI32 (z : Z) | VU32 (z : Z)
| VI64 (z : Z) | VU64 (z : Z)
| VF64 (neg : bool) (mag : N)
| VStr (s : bytes)
| VSig (s : sig)
| VPath (s : bytes)
| VValue (v : value)
| VArray (elem : sig) (elems : list value)
| VDict (ksig vsig : sig) (entries : list (value * value))
| VStruct (fields : list value)
| VFd (owned : bool) (n : Z).

(* discriminant_value: declaration order of the enum (no Maybe without the gvariant feature) *)
Definition discr (v : value) : Z :=
  match v with
  | VU8 _ => 0 | VBool _ => 1 | VI16 _ => 2 | VU16 _ => 3 | VI32 _ => 4 | VU32 _ => 5 | VI64 _ => 6 | VU64 _ => 7
  | VF64 _ _ => 8 | VStr _ => 9 | VSig _ => 10 | VPath _ => 11 | VValue _ => 12
  | VArray _ _ => 13 | VDict _ _ _ => 14 | VStruct _ => 15 | VFd _ _ => 16
  end.

(* Value::value_signature *)
Fixpoint value_signature (v : value) : sig :=
  match v with
  | VU8 _ => SU8 | VBool _ => SBool | VI16 _ => SI16 | VU16 _ => SU16 | VI32 _ => SI32 | VU32 _ => SU32
  | VI64 _ => SI64 | VU64 _ => SU64 | VF64 _ _ => SF64 | VStr _ => SStr | VSig _ => SSig | VPath _ => SObjPath
  | VValue _ => SVariant
  | VArray e _ => SArray e
  | VDict k v _ => SDict k v
  | VStruct fs => SStruct (map value_signature fs)      (* computed by StructureBuilder::build, stored *)
  | VFd _ _ => SFd
  end.

Definition pair_eqb {A B : Type} (f : A -> B -> bool) (p : A * A) (q : B * B) : bool :=
  match p, q with (k, v), (k', v') => f k k' && f v v' end.
Definition pair_pcmp {A B : Type} (f : A -> B -> option comparison) (p : A * A) (q : B * B) : option comparison :=
  match p, q with (k, v), (k', v') => othen (f k k') (f v v') end.

(* #[derive(PartialEq)] on Value, Array (elements, signature), Dict (map, signature), Structure (fields, signature) *)
Fixpoint veq (a b : value) {struct a} : bool :=
  match a, b with
  | VU8 x, VU8 y | VI16 x, VI16 y | VU16 x, VU16 y | VI32 x, VI32 y | VU32 x, VU32 y
  | VI64 x, VI64 y | VU64 x, VU64 y => (x =? y)%Z
  | VBool x, VBool y => Bool.eqb x y
  | VF64 n1 m1, VF64 n2 m2 => f_eq n1 m1 n2 m2
  | VStr x, VStr y | VPath x, VPath y => lbeq x y
  | VSig x, VSig y => sig_eqb x y
  | VValue x, VValue y => veq x y
  | VArray s xs, VArray t ys => list_eqb veq xs ys && sig_eqb (SArray s) (SArray t)
  | VDict k v xs, VDict k' v' ys =>
      list_eqb (fun p q => match p, q with (a1, a2), (b1, b2) => veq a1 b1 && veq a2 b2 end) xs ys
      && sig_eqb (SDict k v) (SDict k' v')
  | VStruct xs, VStruct ys =>
      list_eqb veq xs ys && sig_eqb (SStruct (map value_signature xs)) (SStruct (map value_signature ys))
  | VFd _ x, VFd _ y => (x =? y)%Z
  | _, _ => false
  end.

(* #[derive(PartialOrd)]: same variant -> the fields' partial_cmp; otherwise the discriminants *)
Fixpoint vpcmp (a b : value) {struct a} : option comparison :=
  match a, b with
  | VU8 x, VU8 y | VI16 x, VI16 y | VU16 x, VU16 y | VI32 x, VI32 y | VU32 x, VU32 y
  | VI64 x, VI64 y | VU64 x, VU64 y => Some (x ?= y)%Z
  | VBool x, VBool y => Some (match x, y with false, true => Lt | true, false => Gt | _, _ => Eq end)
  | VF64 n1 m1, VF64 n2 m2 => f_pcmp n1 m1 n2 m2
  | VStr x, VStr y | VPath x, VPath y => Some (bytes_cmp x y)
  | VSig x, VSig y => Some (sig_cmp x y)
  | VValue x, VValue y => vpcmp x y
  | VArray s xs, VArray t ys => othen (lex_p vpcmp xs ys) (Some (sig_cmp (SArray s) (SArray t)))
  | VDict k v xs, VDict k' v' ys =>
      othen (lex_p (fun p q => match p, q with (a1, a2), (b1, b2) => othen (vpcmp a1 b1) (vpcmp a2 b2) end) xs ys)
            (Some (sig_cmp (SDict k v) (SDict k' v')))
  | VStruct xs, VStruct ys =>
      othen (lex_p vpcmp xs ys)
            (Some (sig_cmp (SStruct (map value_signature xs)) (SStruct (map value_signature ys))))
  | VFd _ x, VFd _ y => Some (x ?= y)%Z
  | _, _ => Some (discr a ?= discr b)%Z
  end.

(* impl Ord for Value: partial_cmp, else total_cmp for two F64, else Equal *)
Definition vcmp (a b : value) : comparison :=
  match vpcmp a b with
  | Some o => o
  | None => match a, b with VF64 n1 m1, VF64 n2 m2 => f_total n1 m1 n2 m2 | _, _ => Eq end
  end.

(* impl Hash for Value *)
Fixpoint vhash (v : value) : list tok :=
  TI 8 (discr v) ::
  match v with
  | VU8 z => [TI 1 z]
  | VBool b => [TI 1 (if b then 1 else 0)]
  | VI16 z | VU16 z => [TI 2 z]
  | VI32 z | VU32 z => [TI 4 z]
  | VI64 z | VU64 z => [TI 8 z]
  | VF64 n m => f_hash n m
  | VStr s | VPath s => [TStr s]
  | VSig s => sig_hash s
  | VValue x => vhash x
  | VArray s xs => TLen (N.of_nat (length xs)) :: concat (map vhash xs) ++ sig_hash (SArray s)
  | VDict k v xs =>
      TLen (N.of_nat (length xs)) :: concat (map (fun p => match p with (a1, a2) => vhash a1 ++ vhash a2 end) xs) ++ sig_hash (SDict k v)
  | VStruct xs => TLen (N.of_nat (length xs)) :: concat (map vhash xs) ++ sig_hash (SStruct (map value_signature xs))
  | VFd _ n => [TI 4 n]
  end.

(* ------------------------------------------------------------------------------------------------ *)
(* constructors of the public API                                                                    *)

Inductive verr := EIncorrectType | ESigMismatch | EEmptyStructure | EIo.

(* Array::new + Array::append *)
Definition array_append (a e : value) : res verr value :=
  match a with
  | VArray s l => if negb (sig_eqb (value_signature e) s) then Err ESigMismatch else Ok (VArray s (l ++ [e]))
  | _ => Panic PUnreachable
  end.

(* BTreeMap::insert on a map that fits one leaf node (<= 11 entries): the node is searched left to right with
   `key.cmp(k)`: Greater -> next, Equal -> replace the value (the old key stays), Less -> insert here.
   For a consistent order this is BTreeMap::insert at any size. *)
Fixpoint bt_insert (k v : value) (m : list (value * value)) : list (value * value) :=
  match m with
  | [] => [(k, v)]
  | (k0, v0) :: r =>
      match vcmp k k0 with
      | Gt => (k0, v0) :: bt_insert k v r
      | Eq => (k0, v) :: r
      | Lt => (k, v) :: (k0, v0) :: r
      end
  end.

(* Dict::new + Dict::append: key signature check, value signature check, insert *)
Definition dict_append (d k v : value) : res verr value :=
  match d with
  | VDict ks vs m =>
      if negb (sig_eqb (value_signature k) ks) then Err ESigMismatch
      else if negb (sig_eqb (value_signature v) vs) then Err ESigMismatch
      else Ok (VDict ks vs (bt_insert k v m))
  | _ => Panic PUnreachable
  end.

(* StructureBuilder::build *)
Definition struct_build (fields : list value) : res verr value :=
  match fields with [] => Err EEmptyStructure | _ => Ok (VStruct fields) end.

(* ------------------------------------------------------------------------------------------------ *)
(* try_clone / try_to_owned.  Everything is copied; only Fd duplicates a descriptor.                 *)
(* [os k] = what the k-th dup(2) of this run returns (None = EMFILE etc.).                           *)

(* `iter().map(f).collect::<Result<_>>()` with the dup counter threaded through *)
Definition mapS {A : Type} (w : A -> nat -> res verr (A * nat)) : list A -> nat -> res verr (list A * nat) :=
  fix go (l : list A) (k : nat) {struct l} : res verr (list A * nat) :=
    match l with
    | [] => Ok ([], k)
    | x :: r => let* (x', k1) := w x k in let* (r', k2) := go r k1 in Ok (x' :: r', k2)
    end.

Section Dup.
  Variable os : nat -> option Z.

  Definition dup (k : nat) : res verr (Z * nat) :=
    match os k with Some n => Ok (n, S k) | None => Err EIo end.

  Section Walk.
    Variable fd_case : bool -> Z -> nat -> res verr (value * nat).

    Fixpoint walk (v : value) (k : nat) {struct v} : res verr (value * nat) :=
      match v with
      | VFd o n => fd_case o n k
      | VValue x => let* (x', k1) := walk x k in Ok (VValue x', k1)
      | VArray s l => let* (l', k1) := mapS walk l k in Ok (VArray s l', k1)
      | VDict ks vs l =>
          let* (l', k1) := mapS (fun p k => match p with (a1, a2) =>
                                     let* (a1', k1) := walk a1 k in
                                     let* (a2', k2) := walk a2 k1 in Ok ((a1', a2'), k2) end) l k in
          Ok (VDict ks vs l', k1)
      | VStruct l => let* (l', k1) := mapS walk l k in Ok (VStruct l', k1)
      | _ => Ok (v, k)
      end.
  End Walk.

  (* Fd::try_clone: Borrowed is copied, Owned is dup'ed *)
  Definition try_clone : value -> nat -> res verr (value * nat) :=
    walk (fun o n k => if o then let* (m, k1) := dup k in Ok (VFd true m, k1) else Ok (VFd false n, k)).
  (* Fd::try_to_owned: always dup'ed, result is Fd::Owned *)
  Definition try_to_owned : value -> nat -> res verr (value * nat) :=
    walk (fun o n k => let* (m, k1) := dup k in Ok (VFd true m, k1)).
End Dup.

(* ------------------------------------------------------------------------------------------------ *)
(* std-type conversions.  A Rust type of the fragment is named by its signature:                      *)
(*   y b n q i u x t d -> u8 bool i16 u16 i32 u32 i64 u64 f64;  s -> String;  g -> Signature;          *)
(*   o -> ObjectPath;  v -> Value;  aT -> Vec<T>;  a{KV} -> HashMap<K, V>;  (T0 T1 ..) -> tuple.       *)

Inductive sv :=
| XU8 (z : Z) | XBool (b : bool) | XI16 (z : Z) | XU16 (z : Z) | XI32 (z : Z) | XU32 (z : Z) | XI64 (z : Z) | XU64 (z : Z)
| XF64 (neg : bool) (mag : N)
| XStr (s : bytes) | XSig (s : sig) | XPath (s : bytes)
| XVal (v : value)
| XVec (t : sig) (l : list sv)                  (* Vec<T>, t = T::SIGNATURE *)
| XMap (k v : sig) (l : list (sv * sv))         (* HashMap<K, V>: entries listed in ascending key order *)
| XTup (l : list sv).

(* slice::sort_by for <= 20 elements = insertion sort, each new element sifted down from the right end
   while it is less than its left neighbour.  [acc] is kept reversed (last element first). *)
Fixpoint sift (x : value * value) (racc : list (value * value)) : list (value * value) :=
  match racc with
  | [] => [x]
  | y :: r => match vcmp (fst x) (fst y) with Lt => y :: sift x r | _ => x :: y :: r end
  end.
(* DedupSortedIter: of neighbours with `==` keys the later one is kept *)
Fixpoint dedup_last (l : list (value * value)) : list (value * value) :=
  match l with
  | x :: ((y :: _) as r) => if veq (fst x) (fst y) then dedup_last r else x :: dedup_last r
  | _ => l
  end.
(* BTreeMap::from_iter: collect, sort_by key cmp (stable), dedup, bulk build *)
Definition bt_from_iter (l : list (value * value)) : list (value * value) :=
  dedup_last (rev (fold_left (fun racc x => sift x racc) l [])).

(* Value::new(x): `if value.signature() == "v" { Value::Value(Box::new(x.into())) } else { x.into() }`.
   `impl PartialEq<&str> for Signature` accepts a structure signature written without its outer parentheses,
   so besides T = Value (signature v) the one-field tuple (Value,) (signature "(v)") is boxed too. *)
Definition boxed_by_new (x : sv) : bool :=
  match x with XVal _ => true | XTup [XVal _] => true | _ => false end.

(* From<T> for Value; containers convert their members with Value::new *)
Fixpoint into_value (x : sv) : value :=
  match x with
  | XU8 z => VU8 z | XBool b => VBool b | XI16 z => VI16 z | XU16 z => VU16 z | XI32 z => VI32 z | XU32 z => VU32 z
  | XI64 z => VI64 z | XU64 z => VU64 z | XF64 n m => VF64 n m | XStr s => VStr s | XSig s => VSig s | XPath s => VPath s
  | XVal v => v
  | XVec t l => VArray t (map (fun e => if boxed_by_new e then VValue (into_value e) else into_value e) l)
  | XMap k v l =>
      VDict k v (bt_from_iter (map (fun p => match p with (a1, a2) =>
                                      (if boxed_by_new a1 then VValue (into_value a1) else into_value a1,
                                       if boxed_by_new a2 then VValue (into_value a2) else into_value a2) end) l))
  | XTup l => VStruct (map (fun e => if boxed_by_new e then VValue (into_value e) else into_value e) l)
  end.
Definition vnew (x : sv) : value := if boxed_by_new x then VValue (into_value x) else into_value x.

(* `if let Value::Value(v) = e { T::try_from(deref v) } else { T::try_from(e) }` (Vec and map elements) *)
Definition unwrap1 (e : value) : value := match e with VValue v => v | _ => e end.

Fixpoint mapM {A B : Type} (f : A -> res verr B) (l : list A) : res verr (list B) :=
  match l with
  | [] => Ok []
  | x :: r => let* y := f x in let* r' := mapM f r in Ok (y :: r')
  end.

(* TryFrom<Value> for T, by recursion on the type *)
Fixpoint from_value (t : sig) (v : value) {struct t} : res verr sv :=
  match t with
  | SU8 => match v with VU8 z => Ok (XU8 z) | _ => Err EIncorrectType end
  | SBool => match v with VBool b => Ok (XBool b) | _ => Err EIncorrectType end
  | SI16 => match v with VI16 z => Ok (XI16 z) | _ => Err EIncorrectType end
  | SU16 => match v with VU16 z => Ok (XU16 z) | _ => Err EIncorrectType end
  | SI32 => match v with VI32 z => Ok (XI32 z) | _ => Err EIncorrectType end
  | SU32 => match v with VU32 z => Ok (XU32 z) | _ => Err EIncorrectType end
  | SI64 => match v with VI64 z => Ok (XI64 z) | _ => Err EIncorrectType end
  | SU64 => match v with VU64 z => Ok (XU64 z) | _ => Err EIncorrectType end
  | SF64 => match v with VF64 n m => Ok (XF64 n m) | _ => Err EIncorrectType end
  | SStr => match v with VStr s => Ok (XStr s) | _ => Err EIncorrectType end
  | SSig => match v with VSig s => Ok (XSig s) | _ => Err EIncorrectType end
  | SObjPath => match v with VPath s => Ok (XPath s) | _ => Err EIncorrectType end
  | SVariant => Ok (XVal v)                                     (* impl<T> From<T> for T *)
  | SArray et =>
      match v with
      | VArray _ es => let* l := mapM (fun e => from_value et (unwrap1 e)) es in Ok (XVec et l)
      | _ => Err EIncorrectType
      end
  | SDict kt vt =>
      match v with
      | VDict _ _ es =>
          let* l := mapM (fun p => match p with (a1, a2) =>
                                     let* x1 := from_value kt (unwrap1 a1) in
                                     let* x2 := from_value vt (unwrap1 a2) in Ok (x1, x2) end) es in
          Ok (XMap kt vt l)
      | _ => Err EIncorrectType
      end
  | SStruct ts =>
      match v with
      | VStruct fs =>
          (* `Ok(( T0::try_from(s.fields.remove(0))?, T1::try_from(s.fields.remove(0))?, .. ))`:
             Vec::remove(0) panics on an empty Vec; surplus fields are dropped; no unwrapping of Value::Value *)
          let* l := (fix go (ts : list sig) (fs : list value) {struct ts} : res verr (list sv) :=
                       match ts with
                       | [] => Ok []
                       | t0 :: ts' =>
                           match fs with
                           | [] => Panic PIndex
                           | f :: fs' => let* x := from_value t0 f in let* r := go ts' fs' in Ok (x :: r)
                           end
                       end) ts fs in
          Ok (XTup l)
      | _ => Err EIncorrectType
      end
  | SUnit | SFd | SMaybe _ => Err EIncorrectType                (* not in the fragment *)
  end.
