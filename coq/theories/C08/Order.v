(* C08/Order.v — the reference order [icmp] is a total preorder consistent with == on NaN-free values; the hand-written
   Ord (with Signature::cmp as repaired by fix: commit 668536e1) agrees with it on all NaN-free pairs.
   From that: reflexivity of ==, consistency and transitivity of cmp, PartialOrd = Ord, for NaN-free values. *)
From ZV Require Import Base.Bytes Base.Res Base.Sig Base.WinnowFacts
     C08.Model C08.Spec C08.Algebra C08.SigFacts C08.ValueFacts.

(* ---- NaN-freeness of containers ---- *)
Lemma existsb_false {A : Type} (f : A -> bool) l : existsb f l = false <-> Forall (fun x => f x = false) l.
Proof.
  induction l as [|x l IH]; simpl; [intuition|]. rewrite orb_false_iff, IH. split.
  - intros [? ?]. constructor; auto.
  - intros H. inversion H; auto.
Qed.

Definition nf (v : value) : Prop := has_nan v = false.
Definition nf2 (p : value * value) : Prop := nf (fst p) /\ nf (snd p).

Lemma nf_dict k v l : nf (VDict k v l) <-> Forall nf2 l.
Proof.
  unfold nf. simpl. rewrite existsb_false. split; intros H; (eapply Forall_impl; [|exact H]); intros [a b]; unfold nf2, nf; simpl.
  - apply orb_false_iff.
  - intros [? ?]. apply orb_false_iff. auto.
Qed.
Lemma nf_array s l : nf (VArray s l) <-> Forall nf l.
Proof. unfold nf. simpl. apply existsb_false. Qed.
Lemma nf_struct l : nf (VStruct l) <-> Forall nf l.
Proof. unfold nf. simpl. apply existsb_false. Qed.

(* ---- list lemmas with a side condition on the elements ---- *)
Section Cond.
  Context {A : Type} (p : A -> Prop).

  Lemma list_eqb_refl_p (e : A -> A -> bool) xs :
    Forall (fun x => p x -> e x x = true) xs -> Forall p xs -> list_eqb e xs xs = true.
  Proof.
    induction 1 as [|x xs Hx _ IH]; intros Hp; simpl; [reflexivity|]. inversion Hp; subst.
    rewrite Hx, IH; auto.
  Qed.

  Lemma lex_Eq_p (c : A -> A -> comparison) (e : A -> A -> bool) xs :
    Forall (fun x => forall y, p x -> p y -> (c x y = Eq <-> e x y = true)) xs ->
    Forall p xs -> forall ys, Forall p ys -> (lex c xs ys = Eq <-> list_eqb e xs ys = true).
  Proof.
    induction 1 as [|x xs Hx _ IH]; intros Hp [|y ys] Hq; simpl; try (intuition congruence).
    inversion Hp; inversion Hq; subst.
    rewrite cthen_Eq, andb_true_iff, Hx, IH; auto. reflexivity.
  Qed.

  Lemma lex_p_some (c : A -> A -> option comparison) xs :
    Forall (fun x => forall y, p x -> p y -> c x y <> None) xs ->
    Forall p xs -> forall ys, Forall p ys -> lex_p c xs ys <> None.
  Proof.
    induction 1 as [|x xs Hx _ IH]; intros Hp [|y ys] Hq; simpl; try congruence.
    inversion Hp; inversion Hq; subst.
    destruct (c x y) as [[]|] eqn:E; simpl; try congruence.
    - apply IH; auto.
    - exfalso. eapply Hx; eauto.
  Qed.

  (* the partial lexicographic comparison equals the reference one when the element comparisons do *)
  Lemma lex_p_agree (c : A -> A -> option comparison) (t : A -> A -> comparison) xs :
    Forall (fun x => forall y, p x -> p y -> c x y = Some (t x y)) xs ->
    Forall p xs -> forall ys, Forall p ys -> lex_p c xs ys = Some (lex t xs ys).
  Proof.
    induction 1 as [|x xs Hx _ IH]; intros Hp [|y ys] Hq; simpl; try reflexivity.
    inversion Hp; inversion Hq; subst. rewrite (Hx y); auto.
    destruct (t x y); simpl; try reflexivity. apply IH; auto.
  Qed.
End Cond.

(* ---- bytes ---- *)
Lemma bn_inj x y : bn x = bn y -> x = y.
Proof.
  unfold bn. intros H. pose proof (Byte.of_to_N x) as Hx. pose proof (Byte.of_to_N y) as Hy.
  rewrite H in Hx. congruence.
Qed.

Lemma bytes_cmp_Eq a : forall b, bytes_cmp a b = Eq <-> lbeq a b = true.
Proof.
  unfold bytes_cmp. induction a as [|x a IH]; intros [|y b]; simpl; try (intuition congruence).
  rewrite cthen_Eq, andb_true_iff, IH. split; intros [H1 H2]; split; auto.
  - apply N.compare_eq in H1. apply bn_inj in H1. subst. apply beq_refl.
  - apply beq_eq in H1. subst. apply N.compare_refl.
Qed.

Lemma bytes_cmp_T4 a b c : T4 (bytes_cmp a b) (bytes_cmp b c) (bytes_cmp a c).
Proof. unfold bytes_cmp. apply lex_T4. induction a; constructor; auto. intros. apply T4_Ncompare. Qed.

(* ---- icmp: unfold once ---- *)
Definition ic2 (p q : value * value) : comparison :=
  match p, q with (a1, a2), (b1, b2) => cthen (icmp a1 b1) (icmp a2 b2) end.

Definition ipay (a b : value) : comparison :=
  match a, b with
  | VU8 x, VU8 y | VI16 x, VI16 y | VU16 x, VU16 y | VI32 x, VI32 y | VU32 x, VU32 y
  | VI64 x, VI64 y | VU64 x, VU64 y => (x ?= y)%Z
  | VBool x, VBool y => ((if x then 1 else 0) ?= (if y then 1 else 0))%Z
  | VF64 n1 m1, VF64 n2 m2 => (f_num n1 m1 ?= f_num n2 m2)%Z
  | VStr x, VStr y | VPath x, VPath y => bytes_cmp x y
  | VSig x, VSig y => sig_tcmp x y
  | VValue x, VValue y => icmp x y
  | VArray s xs, VArray t ys => cthen (lex icmp xs ys) (sig_tcmp s t)
  | VDict k v xs, VDict k' v' ys => cthen (lex ic2 xs ys) (cthen (sig_tcmp k k') (sig_tcmp v v'))
  | VStruct xs, VStruct ys => lex icmp xs ys
  | VFd _ x, VFd _ y => (x ?= y)%Z
  | _, _ => Eq
  end.

Lemma icmp_unfold a b : icmp a b = cthen (discr a ?= discr b)%Z (ipay a b).
Proof. destruct a; reflexivity. Qed.

(* ---- icmp is a total preorder on all values ---- *)
Lemma icmp_T4 : forall a b c, T4 (icmp a b) (icmp b c) (icmp a c).
Proof.
  induction a using value_ind'; intros y w;
    rewrite (icmp_unfold _ y), (icmp_unfold y w), (icmp_unfold _ w);
    (apply T4_cthen; [apply T4_Zcompare|]); intros Hab Hbc;
    apply Z.compare_eq in Hab; apply Z.compare_eq in Hbc;
    destruct y; try discriminate Hab; destruct w; try discriminate Hbc; simpl;
    try apply T4_Zcompare; try apply bytes_cmp_T4.
  - apply sig_tcmp_T4.
  - apply IHa.
  - apply T4_cthen; [apply lex_T4; exact H | intros; apply sig_tcmp_T4].
  - apply T4_cthen.
    + apply (lex_T4 ic2). apply (Forall_pair (fun a => forall y z, T4 (icmp a y) (icmp y z) (icmp a z))); [|exact H].
      intros a b Ha Hb [y1 y2] [z1 z2]. simpl. apply T4_cthen; [apply Ha | intros; apply Hb].
    + intros. apply T4_cthen; [apply sig_tcmp_T4 | intros; apply sig_tcmp_T4].
  - apply lex_T4. exact H.
Qed.

Lemma icmp_dual : forall a b, icmp b a = CompOpp (icmp a b).
Proof.
  induction a using value_ind'; intros y;
    rewrite (icmp_unfold y), (icmp_unfold _ y), CompOpp_cthen, <- Z.compare_antisym;
    destruct y; simpl; try reflexivity; f_equal;
    try apply Z.compare_antisym; try apply bytes_cmp_dual.
  - apply sig_tcmp_dual.
  - apply IHa.
  - rewrite CompOpp_cthen, (lex_dual icmp l H), (sig_tcmp_dual s). reflexivity.
  - rewrite !CompOpp_cthen, (sig_tcmp_dual k), (sig_tcmp_dual v). f_equal.
    apply (lex_dual ic2). apply (Forall_pair (fun a => forall y, icmp y a = CompOpp (icmp a y))); [|exact H].
    intros a b Ha Hb [y1 y2]. simpl. rewrite CompOpp_cthen, Ha, Hb. reflexivity.
  - apply (lex_dual icmp l H).
Qed.

(* ---- on NaN-free values icmp = Eq exactly when == ---- *)
Lemma f_nf_eq n1 m1 n2 m2 : f_isnan m1 = false -> f_isnan m2 = false ->
  ((f_num n1 m1 ?= f_num n2 m2)%Z = Eq <-> f_eq n1 m1 n2 m2 = true).
Proof. intros H1 H2. rewrite f_eq_true, Z.compare_eq_iff. intuition. Qed.

Lemma icmp_Eq : forall a b, nf a -> nf b -> (icmp a b = Eq <-> veq a b = true).
Proof.
  induction a using value_ind'; intros y Ha Hb; rewrite icmp_unfold, cthen_Eq, Z.compare_eq_iff;
    destruct y; try (simpl; split; [intros [Hd _]; discriminate Hd | intros Hf; discriminate Hf]); simpl;
    try (rewrite Z.compare_eq_iff, Z.eqb_eq; intuition);
    try (rewrite bytes_cmp_Eq; intuition).
  - destruct b, b0; simpl; intuition congruence.
  - unfold nf in Ha, Hb. simpl in Ha, Hb. rewrite (f_nf_eq _ _ _ _ Ha Hb). intuition.
  - rewrite sig_tcmp_Eq, sig_eqb_eq. intuition.
  - rewrite (IHa y Ha Hb). intuition.
  - apply nf_array in Ha. apply nf_array in Hb.
    rewrite cthen_Eq, andb_true_iff, (lex_Eq_p nf icmp veq l H Ha _ Hb), sig_tcmp_Eq, sig_eqb_eq. intuition.
  - apply nf_dict in Ha. apply nf_dict in Hb.
    rewrite !cthen_Eq, !andb_true_iff, !sig_tcmp_Eq, !sig_eqb_eq.
    rewrite (lex_Eq_p nf2 ic2 eq2 l); [intuition | | exact Ha | exact Hb].
    eapply Forall_impl; [|exact H]. intros [a1 a2] [H1 H2] [y1 y2] [? ?] [? ?]. simpl in *.
    rewrite cthen_Eq, andb_true_iff, H1, H2; auto. reflexivity.
  - apply nf_struct in Ha. apply nf_struct in Hb.
    rewrite andb_true_iff, (lex_Eq_p nf icmp veq l H Ha _ Hb). split; [|intuition].
    intros [_ E]. split; [exact E|]. apply sigs_eqb_eq.
    eapply list_eqb_map; [|exact E]. clear. induction l; constructor; auto. intros. apply veq_sig. assumption.
Qed.

(* reflexivity of == on NaN-free values *)
Lemma veq_refl : forall a, nf a -> veq a a = true.
Proof.
  intros a Ha. apply icmp_Eq; auto. destruct (icmp a a) eqn:E; auto;
    pose proof (icmp_dual a a) as D; rewrite E in D; discriminate D.
Qed.

(* ---- the hand-written order IS the reference order on NaN-free values ---- *)
Lemma othen_Some o k : othen (Some o) (Some k) = Some (cthen o k).
Proof. destruct o; reflexivity. Qed.

Lemma vpcmp_agree : forall a b, nf a -> nf b -> vpcmp a b = Some (icmp a b).
Proof.
  induction a using value_ind'; intros y Ha Hb; rewrite icmp_unfold;
    destruct y; try reflexivity; simpl in *;
    try (rewrite Z.compare_refl; reflexivity).
  - destruct b, b0; reflexivity.
  - unfold nf in Ha, Hb. simpl in Ha, Hb. unfold f_pcmp. rewrite Ha, Hb. reflexivity.
  - rewrite sig_cmp_tcmp. reflexivity.
  - rewrite (IHa y Ha Hb). reflexivity.
  - apply nf_array in Ha. apply nf_array in Hb.
    rewrite (lex_p_agree nf vpcmp icmp l); auto. rewrite othen_Some, sig_cmp_tcmp. reflexivity.
  - apply nf_dict in Ha. apply nf_dict in Hb.
    fold pc2. rewrite (lex_p_agree nf2 pc2 ic2 l); auto.
    + rewrite !sig_cmp_tcmp. fold ic2.
      rewrite othen_Some. destruct (sig_tcmp k ksig); reflexivity.
    + eapply Forall_impl; [|exact H]. intros [a1 a2] [H1 H2] [y1 y2] [? ?] [? ?]. simpl in *.
      rewrite H1, H2; auto. apply othen_Some.
  - apply nf_struct in Ha. apply nf_struct in Hb.
    rewrite (lex_p_agree nf vpcmp icmp l); auto.
    destruct (lex icmp l fields) eqn:E; simpl; try reflexivity.
    apply (lex_Eq_p nf icmp veq l) in E; auto.
    + assert (Es : map value_signature l = map value_signature fields).
      { eapply list_eqb_map; [|exact E]. clear. induction l; constructor; auto. intros. apply veq_sig. assumption. }
      rewrite Es, sigs_cmp_refl. reflexivity.
    + eapply Forall_impl; [|exact H]. intros. apply icmp_Eq; auto.
Qed.

Lemma vcmp_agree a b : nf a -> nf b -> vcmp a b = icmp a b.
Proof. intros. unfold vcmp. rewrite vpcmp_agree; auto. Qed.

(* PartialOrd never answers None on NaN-free values, so it is Some(cmp) *)
Lemma vpcmp_some : forall a b, nf a -> nf b -> vpcmp a b <> None.
Proof.
  induction a using value_ind'; intros y Ha Hb; destruct y; simpl; try congruence.
  - unfold nf in Ha, Hb. simpl in Ha, Hb. unfold f_pcmp. rewrite Ha, Hb. simpl. congruence.
  - apply IHa; auto.
  - apply nf_array in Ha. apply nf_array in Hb.
    destruct (lex_p vpcmp l elems) as [[]|] eqn:E; simpl; try congruence.
    exfalso. revert E. apply (lex_p_some nf vpcmp l); auto.
  - apply nf_dict in Ha. apply nf_dict in Hb. fold pc2.
    destruct (lex_p pc2 l entries) as [[]|] eqn:E; simpl; try congruence.
    exfalso. revert E. apply (lex_p_some nf2 pc2 l); auto.
    eapply Forall_impl; [|exact H]. intros [a1 a2] [H1 H2] [y1 y2] [? ?] [? ?]. simpl in *.
    destruct (vpcmp a1 y1) as [[]|] eqn:E1; simpl; try congruence.
    + apply H2; auto.
    + exfalso. apply (H1 y1); auto.
  - apply nf_struct in Ha. apply nf_struct in Hb.
    destruct (lex_p vpcmp l fields) as [[]|] eqn:E; simpl; try congruence.
    exfalso. revert E. apply (lex_p_some nf vpcmp l); auto.
Qed.

Lemma vpcmp_vcmp a b : nf a -> nf b -> vpcmp a b = Some (vcmp a b).
Proof.
  intros Ha Hb. unfold vcmp. destruct (vpcmp a b) eqn:E; [reflexivity|]. exfalso. exact (vpcmp_some a b Ha Hb E).
Qed.
