(* C08/SigFacts.v — facts about Signature's PartialEq / Ord (Model.sig_eqb, sig_cmp) and about the reference
   order on signatures (Spec.sig_tcmp). *)
From ZV Require Import Base.Bytes Base.Sig C08.Model C08.Spec C08.Algebra.

Lemma sig_eqb_eq : forall a b, sig_eqb a b = true <-> a = b.
Proof.
  induction a using sig_ind'; intros b; destruct b; simpl; try (intuition congruence).
  - rewrite IHa. intuition congruence.
  - rewrite andb_true_iff, IHa1, IHa2. intuition congruence.
  - rewrite (list_eqb_eq sig_eqb fs H). intuition congruence.
  - rewrite IHa. intuition congruence.
Qed.

Lemma sigs_eqb_eq xs ys : list_eqb sig_eqb xs ys = true <-> xs = ys.
Proof. apply list_eqb_eq. induction xs; constructor; auto. intros. apply sig_eqb_eq. Qed.

Lemma sig_eqb_refl a : sig_eqb a a = true.
Proof. apply sig_eqb_eq. reflexivity. Qed.

Lemma sig_eqb_sym a b : sig_eqb a b = sig_eqb b a.
Proof.
  destruct (sig_eqb a b) eqn:E1, (sig_eqb b a) eqn:E2; try reflexivity.
  - apply sig_eqb_eq in E1. subst. rewrite sig_eqb_refl in E2. discriminate.
  - apply sig_eqb_eq in E2. subst. rewrite sig_eqb_refl in E1. discriminate.
Qed.

(* ---- the reference order ---- *)
Lemma sig_tcmp_dual : forall a b, sig_tcmp b a = CompOpp (sig_tcmp a b).
Proof.
  induction a using sig_ind'; intros b; destruct b; simpl; try reflexivity.
  - apply IHa.
  - rewrite IHa1, IHa2, CompOpp_cthen. reflexivity.
  - apply lex_dual. exact H.
  - apply IHa.
Qed.

Lemma sig_tcmp_Eq : forall a b, sig_tcmp a b = Eq <-> a = b.
Proof.
  induction a using sig_ind'; intros b; destruct b; try solve [vm_compute; intuition congruence]; simpl.
  - rewrite IHa. intuition congruence.
  - rewrite cthen_Eq, IHa1, IHa2. intuition congruence.
  - rewrite (lex_Eq sig_tcmp sig_eqb).
    + rewrite (list_eqb_eq sig_eqb).
      * intuition congruence.
      * clear. induction fs; constructor; auto. intros. apply sig_eqb_eq.
    + eapply Forall_impl; [|exact H]. simpl. intros a Ha y. rewrite Ha, sig_eqb_eq. reflexivity.
  - rewrite IHa. intuition congruence.
Qed.

Lemma sig_tcmp_refl a : sig_tcmp a a = Eq.
Proof. apply sig_tcmp_Eq. reflexivity. Qed.

Lemma rank_eq_cases a b : (sig_rank a ?= sig_rank b)%Z = Eq -> sig_rank a = sig_rank b.
Proof. apply Z.compare_eq. Qed.

Lemma sig_tcmp_T4 : forall a b c, T4 (sig_tcmp a b) (sig_tcmp b c) (sig_tcmp a c).
Proof.
  induction a using sig_ind'; intros b c;
    (assert (Hu : forall x y, sig_tcmp x y = cthen (sig_rank x ?= sig_rank y)%Z
                                (match x, y with
                                 | SArray x, SArray y => sig_tcmp x y
                                 | SDict k v, SDict k' v' => cthen (sig_tcmp k k') (sig_tcmp v v')
                                 | SStruct xs, SStruct ys => lex sig_tcmp xs ys
                                 | SMaybe x, SMaybe y => sig_tcmp x y
                                 | _, _ => Eq
                                 end)) by (intros x y; destruct x; reflexivity));
    rewrite (Hu _ b), (Hu b c), (Hu _ c); clear Hu;
    (apply T4_cthen; [apply T4_Zcompare|]); intros Hab Hbc;
    apply Z.compare_eq in Hab; apply Z.compare_eq in Hbc;
    destruct b; try discriminate Hab; destruct c; try discriminate Hbc; try apply T4_refl_Eq.
  - apply IHa.
  - apply T4_cthen; [apply IHa1 | intros; apply IHa2].
  - apply lex_T4. exact H.
  - apply IHa.
Qed.

(* ---- impl Ord for Signature (after fix: commit 668536e1) IS the reference order ---- *)
Lemma lex_ext {A : Type} (c d : A -> A -> comparison) xs :
  Forall (fun x => forall y, c x y = d x y) xs -> forall ys, lex c xs ys = lex d xs ys.
Proof. induction 1 as [|x xs Hx _ IH]; intros [|y ys]; simpl; try reflexivity. rewrite Hx, IH. reflexivity. Qed.

Lemma sig_cmp_tcmp : forall a b, sig_cmp a b = sig_tcmp a b.
Proof.
  induction a using sig_ind'; intros b; destruct b; try reflexivity.
  - apply IHa.
  - simpl. rewrite IHa1, IHa2. destruct (sig_tcmp a1 b1); reflexivity.
  - simpl. apply lex_ext. exact H.
  - apply IHa.
Qed.

Lemma sig_cmp_refl a : sig_cmp a a = Eq.
Proof. rewrite sig_cmp_tcmp. apply sig_tcmp_refl. Qed.
Lemma sig_cmp_dual a b : sig_cmp b a = CompOpp (sig_cmp a b).
Proof. rewrite !sig_cmp_tcmp. apply sig_tcmp_dual. Qed.
Lemma sig_cmp_Eq a b : sig_cmp a b = Eq <-> sig_eqb a b = true.
Proof. rewrite sig_cmp_tcmp, sig_tcmp_Eq, sig_eqb_eq. reflexivity. Qed.
Lemma sig_cmp_T4 a b c : T4 (sig_cmp a b) (sig_cmp b c) (sig_cmp a c).
Proof. rewrite !sig_cmp_tcmp. apply sig_tcmp_T4. Qed.

Lemma sigs_cmp_refl m : lex sig_cmp m m = Eq.
Proof. apply lex_refl. induction m; constructor; auto. apply sig_cmp_refl. Qed.
Lemma sigs_cmp_dual m m' : lex sig_cmp m' m = CompOpp (lex sig_cmp m m').
Proof. apply lex_dual. clear. induction m; constructor; auto. intros. apply sig_cmp_dual. Qed.
Lemma sigs_eqb_sym m m' : list_eqb sig_eqb m m' = list_eqb sig_eqb m' m.
Proof. apply list_eqb_sym. clear. induction m; constructor; auto. intros. apply sig_eqb_sym. Qed.

