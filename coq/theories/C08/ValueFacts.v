(* C08/ValueFacts.v — induction principle for [value]; the laws that hold for ALL values:
   == is symmetric and transitive, equal values have equal signatures and feed the Hasher the same tokens,
   equal values compare Equal, partial_cmp / cmp are antisymmetric. *)
From ZV Require Import Base.Bytes Base.Res Base.Sig Base.WinnowFacts C08.Model C08.Spec C08.Algebra C08.SigFacts.

Section ValueInd.
  Variable P : value -> Prop.
  Hypothesis Hu8 : forall z, P (VU8 z).   Hypothesis Hbool : forall b, P (VBool b).
  Hypothesis Hi16 : forall z, P (VI16 z). Hypothesis Hu16 : forall z, P (VU16 z).
  Hypothesis Hi32 : forall z, P (VI32 z). Hypothesis Hu32 : forall z, P (VU32 z).
  Hypothesis Hi64 : forall z, P (VI64 z). Hypothesis Hu64 : forall z, P (VU64 z).
  Hypothesis Hf64 : forall n m, P (VF64 n m).
  Hypothesis Hstr : forall s, P (VStr s). Hypothesis Hsig : forall s, P (VSig s). Hypothesis Hpath : forall s, P (VPath s).
  Hypothesis Hvalue : forall v, P v -> P (VValue v).
  Hypothesis Harray : forall s l, Forall P l -> P (VArray s l).
  Hypothesis Hdict : forall k v l, Forall (fun p => P (fst p) /\ P (snd p)) l -> P (VDict k v l).
  Hypothesis Hstruct : forall l, Forall P l -> P (VStruct l).
  Hypothesis Hfd : forall o n, P (VFd o n).

  Fixpoint value_ind' (v : value) : P v :=
    match v with
    | VU8 z => Hu8 z | VBool b => Hbool b | VI16 z => Hi16 z | VU16 z => Hu16 z | VI32 z => Hi32 z | VU32 z => Hu32 z
    | VI64 z => Hi64 z | VU64 z => Hu64 z | VF64 n m => Hf64 n m | VStr s => Hstr s | VSig s => Hsig s | VPath s => Hpath s
    | VValue x => Hvalue x (value_ind' x)
    | VArray s l =>
        Harray s l ((fix go (l : list value) : Forall P l :=
                       match l with [] => Forall_nil P | x :: r => Forall_cons x (value_ind' x) (go r) end) l)
    | VDict k vs l =>
        Hdict k vs l ((fix go (l : list (value * value)) : Forall (fun p => P (fst p) /\ P (snd p)) l :=
                         match l with
                         | [] => Forall_nil _
                         | (a, b) :: r => Forall_cons (a, b) (conj (value_ind' a) (value_ind' b)) (go r)
                         end) l)
    | VStruct l =>
        Hstruct l ((fix go (l : list value) : Forall P l :=
                      match l with [] => Forall_nil P | x :: r => Forall_cons x (value_ind' x) (go r) end) l)
    | VFd o n => Hfd o n
    end.
End ValueInd.

(* the functions Model.v uses on dict entries *)
Definition eq2 (p q : value * value) : bool := match p, q with (a1, a2), (b1, b2) => veq a1 b1 && veq a2 b2 end.
Definition pc2 (p q : value * value) : option comparison :=
  match p, q with (a1, a2), (b1, b2) => othen (vpcmp a1 b1) (vpcmp a2 b2) end.
Definition hash2 (p : value * value) : list tok := match p with (a1, a2) => vhash a1 ++ vhash a2 end.

(* lift a property of both components to the pair function *)
Lemma Forall_pair (P : value -> Prop) (Q : value * value -> Prop) l :
  (forall a b, P a -> P b -> Q (a, b)) -> Forall (fun p => P (fst p) /\ P (snd p)) l -> Forall Q l.
Proof. intros H F. induction F as [|[a b] l [Ha Hb] _ IH]; constructor; auto. Qed.

(* ---- strings, floats ---- *)
Lemma lbeq_refl a : lbeq a a = true.
Proof. apply lbeq_eq. reflexivity. Qed.
Lemma lbeq_sym a b : lbeq a b = lbeq b a.
Proof.
  destruct (lbeq a b) eqn:E1, (lbeq b a) eqn:E2; try reflexivity.
  - apply lbeq_eq in E1. subst. rewrite lbeq_refl in E2. discriminate.
  - apply lbeq_eq in E2. subst. rewrite lbeq_refl in E1. discriminate.
Qed.

Lemma f_eq_sym n1 m1 n2 m2 : f_eq n1 m1 n2 m2 = f_eq n2 m2 n1 m1.
Proof. unfold f_eq. rewrite (Z.eqb_sym (f_num n1 m1)). destruct (f_isnan m1), (f_isnan m2); reflexivity. Qed.

Lemma f_eq_true n1 m1 n2 m2 :
  f_eq n1 m1 n2 m2 = true <-> f_isnan m1 = false /\ f_isnan m2 = false /\ f_num n1 m1 = f_num n2 m2.
Proof.
  unfold f_eq. rewrite !andb_true_iff, !negb_true_iff, Z.eqb_eq. intuition.
Qed.

Lemma f_num_hash n1 m1 n2 m2 : f_num n1 m1 = f_num n2 m2 -> f_hash n1 m1 = f_hash n2 m2.
Proof.
  unfold f_num, f_hash. intros H.
  destruct (N.eqb_spec m1 0), (N.eqb_spec m2 0); subst; try reflexivity;
    destruct n1, n2; try lia.
  - assert (m1 = m2) by lia. subst. reflexivity.
  - assert (m1 = m2) by lia. subst. reflexivity.
Qed.

(* ---- == ---- *)
Lemma veq_discr x y : veq x y = true -> discr x = discr y.
Proof. destruct x, y; simpl; intros H; try reflexivity; discriminate H. Qed.

Ltac same_ctor H b :=
  let Hd := fresh "Hd" in
  pose proof (veq_discr _ _ H) as Hd; destruct b; try discriminate Hd; clear Hd.

Lemma veq_sym : forall a b, veq a b = veq b a.
Proof.
  induction a using value_ind'; intros y; destruct y; simpl; try reflexivity;
    try apply Z.eqb_sym; try apply lbeq_sym.
  - destruct b, b0; reflexivity.
  - apply f_eq_sym.
  - apply sig_eqb_sym.
  - apply IHa.
  - rewrite (list_eqb_sym veq l H), (sig_eqb_sym s). reflexivity.
  - f_equal.
    + apply (list_eqb_sym eq2). apply (Forall_pair (fun a => forall b, veq a b = veq b a)); [|exact H].
      intros a b Ha Hb [y1 y2]. simpl. rewrite Ha, Hb. reflexivity.
    + rewrite (sig_eqb_sym k), (sig_eqb_sym v). reflexivity.
  - f_equal.
    + apply (list_eqb_sym veq l H).
    + apply sigs_eqb_sym.
Qed.

Lemma veq_sig : forall a b, veq a b = true -> value_signature a = value_signature b.
Proof.
  induction a using value_ind'; intros y Hab; same_ctor Hab y; simpl in *; try reflexivity.
  - apply andb_true_iff in Hab as [_ H2]. apply sig_eqb_eq in H2. congruence.
  - apply andb_true_iff in Hab as [_ H2]. apply andb_true_iff in H2 as [H2 H3].
    apply sig_eqb_eq in H2. apply sig_eqb_eq in H3. congruence.
  - apply andb_true_iff in Hab as [H1 _]. f_equal. eapply list_eqb_map; [|exact H1]. exact H.
Qed.

Lemma veq_trans : forall a b c, veq a b = true -> veq b c = true -> veq a c = true.
Proof.
  induction a using value_ind'; intros y w Hab Hbc; same_ctor Hab y; same_ctor Hbc w; simpl in *;
    try (apply Z.eqb_eq in Hab; apply Z.eqb_eq in Hbc; apply Z.eqb_eq; congruence);
    try (apply lbeq_eq in Hab; apply lbeq_eq in Hbc; apply lbeq_eq; congruence).
  - destruct b, b0, b1; simpl in *; congruence.
  - apply f_eq_true in Hab as (?&?&?). apply f_eq_true in Hbc as (?&?&?). apply f_eq_true. intuition congruence.
  - apply sig_eqb_eq in Hab. apply sig_eqb_eq in Hbc. apply sig_eqb_eq. congruence.
  - eapply IHa; eauto.
  - apply andb_true_iff in Hab as [H1 H2]. apply andb_true_iff in Hbc as [H3 H4]. apply andb_true_iff. split.
    + eapply (list_eqb_trans veq); eauto.
    + apply sig_eqb_eq in H2. apply sig_eqb_eq in H4. apply sig_eqb_eq. congruence.
  - apply andb_true_iff in Hab as [H1 H2]. apply andb_true_iff in Hbc as [H3 H4]. apply andb_true_iff. split.
    + eapply (list_eqb_trans eq2); [| exact H1 | exact H3].
      apply (Forall_pair (fun a => forall y z, veq a y = true -> veq y z = true -> veq a z = true)); [|exact H].
      intros a b Ha Hb [y1 y2] [z1 z2]. simpl. rewrite !andb_true_iff. intros [? ?] [? ?]. split; eauto.
    + apply andb_true_iff in H2 as [E1 E2]. apply andb_true_iff in H4 as [E3 E4]. apply andb_true_iff.
      apply sig_eqb_eq in E1, E2, E3, E4. split; apply sig_eqb_eq; congruence.
  - apply andb_true_iff in Hab as [H1 H2]. apply andb_true_iff in Hbc as [H3 H4]. apply andb_true_iff. split.
    + eapply (list_eqb_trans veq); eauto.
    + apply sigs_eqb_eq in H2, H4. apply sigs_eqb_eq. congruence.
Qed.

(* ---- hashing: equal values write the same tokens ---- *)
Lemma concat_map_eqb {A B : Type} (e : A -> A -> bool) (f : A -> list B) xs :
  Forall (fun x => forall y, e x y = true -> f x = f y) xs ->
  forall ys, list_eqb e xs ys = true -> concat (map f xs) = concat (map f ys).
Proof. intros F ys H. f_equal. eapply list_eqb_map; eauto. Qed.

Lemma veq_hash : forall a b, veq a b = true -> vhash a = vhash b.
Proof.
  induction a using value_ind'; intros y Hab; same_ctor Hab y; simpl in *;
    try (apply Z.eqb_eq in Hab; congruence);
    try (apply lbeq_eq in Hab; congruence).
  - destruct b, b0; simpl in *; congruence.
  - apply f_eq_true in Hab as (_&_&Hn). rewrite (f_num_hash _ _ _ _ Hn). reflexivity.
  - apply sig_eqb_eq in Hab. congruence.
  - rewrite (IHa _ Hab). reflexivity.
  - apply andb_true_iff in Hab as [H1 H2]. apply sig_eqb_eq in H2.
    rewrite (list_eqb_length _ _ _ H1), (concat_map_eqb veq vhash l H _ H1), H2. reflexivity.
  - apply andb_true_iff in Hab as [H1 H2]. apply andb_true_iff in H2 as [H2 H3].
    apply sig_eqb_eq in H2. apply sig_eqb_eq in H3. subst.
    rewrite (list_eqb_length _ _ _ H1). do 3 f_equal.
    apply (concat_map_eqb eq2 hash2); [|exact H1].
    apply (Forall_pair (fun a => forall y, veq a y = true -> vhash a = vhash y)); [|exact H].
    intros a b Ha Hb [y1 y2]. simpl. rewrite andb_true_iff. intros [? ?]. f_equal; auto.
  - apply andb_true_iff in Hab as [H1 H2]. apply sigs_eqb_eq in H2.
    rewrite (list_eqb_length _ _ _ H1), (concat_map_eqb veq vhash l H _ H1), H2. reflexivity.
Qed.

(* ---- partial_cmp / cmp are antisymmetric ---- *)
Lemma f_pcmp_dual n1 m1 n2 m2 : f_pcmp n2 m2 n1 m1 = oopp (f_pcmp n1 m1 n2 m2).
Proof.
  unfold f_pcmp. rewrite (orb_comm (f_isnan m2)). destruct (f_isnan m1 || f_isnan m2); simpl; [reflexivity|].
  rewrite Z.compare_antisym. reflexivity.
Qed.

Lemma bytes_cmp_dual a b : bytes_cmp b a = CompOpp (bytes_cmp a b).
Proof.
  unfold bytes_cmp. apply lex_dual. clear. induction a; constructor; auto. intros. apply N.compare_antisym.
Qed.

Lemma vpcmp_dual : forall a b, vpcmp b a = oopp (vpcmp a b).
Proof.
  induction a using value_ind'; intros y; destruct y; simpl; try reflexivity;
    try (rewrite Z.compare_antisym; reflexivity);
    try (rewrite bytes_cmp_dual; reflexivity).
  - destruct b, b0; reflexivity.
  - apply f_pcmp_dual.
  - rewrite sig_cmp_dual. reflexivity.
  - apply IHa.
  - rewrite oopp_othen, (lex_p_dual vpcmp l H). simpl. rewrite (sig_cmp_dual s). reflexivity.
  - rewrite oopp_othen. f_equal.
    + apply (lex_p_dual pc2). apply (Forall_pair (fun a => forall y, vpcmp y a = oopp (vpcmp a y))); [|exact H].
      intros a b Ha Hb [y1 y2]. simpl. rewrite oopp_othen, Ha, Hb. reflexivity.
    + simpl. rewrite (sig_cmp_dual k), (sig_cmp_dual v). destruct (sig_cmp k _); reflexivity.
  - rewrite oopp_othen, (lex_p_dual vpcmp l H). simpl. f_equal. f_equal.
    apply sigs_cmp_dual.
Qed.

Lemma vcmp_dual a b : vcmp b a = CompOpp (vcmp a b).
Proof.
  unfold vcmp. rewrite vpcmp_dual. destruct (vpcmp a b) eqn:E; simpl; [reflexivity|].
  destruct a, b; try reflexivity. unfold f_total. apply Z.compare_antisym.
Qed.

(* ---- equal values compare Equal ---- *)
Lemma bytes_cmp_refl a : bytes_cmp a a = Eq.
Proof. unfold bytes_cmp. apply lex_refl. induction a; constructor; auto. apply N.compare_refl. Qed.

Lemma veq_vpcmp : forall a b, veq a b = true -> vpcmp a b = Some Eq.
Proof.
  induction a using value_ind'; intros y Hab; same_ctor Hab y; simpl in *;
    try (apply Z.eqb_eq in Hab; subst; rewrite Z.compare_refl; reflexivity);
    try (apply lbeq_eq in Hab; subst; rewrite bytes_cmp_refl; reflexivity).
  - destruct b, b0; simpl in *; congruence.
  - apply f_eq_true in Hab as (H1&H2&H3). unfold f_pcmp. rewrite H1, H2, H3, Z.compare_refl. reflexivity.
  - apply sig_eqb_eq in Hab. subst. rewrite sig_cmp_refl. reflexivity.
  - auto.
  - apply andb_true_iff in Hab as [H1 H2]. apply sig_eqb_eq in H2. rewrite H2, sig_cmp_refl.
    rewrite (lex_p_eq_Some vpcmp veq l H _ H1). reflexivity.
  - apply andb_true_iff in Hab as [H1 H2]. apply andb_true_iff in H2 as [H2 H3].
    apply sig_eqb_eq in H2. apply sig_eqb_eq in H3. subst. rewrite !sig_cmp_refl.
    fold pc2. rewrite (lex_p_eq_Some pc2 eq2 l); [reflexivity| |exact H1].
    apply (Forall_pair (fun a => forall y, veq a y = true -> vpcmp a y = Some Eq)); [|exact H].
    intros a b Ha Hb [y1 y2]. simpl. rewrite andb_true_iff. intros [E1 E2]. rewrite (Ha _ E1), (Hb _ E2). reflexivity.
  - apply andb_true_iff in Hab as [H1 H2]. apply sigs_eqb_eq in H2. rewrite H2.
    rewrite (lex_p_eq_Some vpcmp veq l H _ H1). simpl. f_equal. apply sigs_cmp_refl.
Qed.

Lemma veq_vcmp a b : veq a b = true -> vcmp a b = Eq.
Proof. intros H. unfold vcmp. rewrite (veq_vpcmp _ _ H). reflexivity. Qed.
