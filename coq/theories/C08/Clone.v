(* C08/Clone.v — try_clone / try_to_owned: the copy is the same value, except that descriptors may be dup'ed;
   the signature never changes.  Typing: a well-formed value is typed by its reported signature. *)
From ZV Require Import Base.Bytes Base.Res Base.Sig C08.Model C08.Spec C08.Algebra C08.SigFacts C08.ValueFacts C08.Order.

Lemma mapS_id {A : Type} (w : A -> nat -> res verr (A * nat)) l :
  Forall (fun x => forall k, w x k = Ok (x, k)) l -> forall k, mapS w l k = Ok (l, k).
Proof.
  induction 1 as [|x l Hx _ IH]; intros k; simpl; [reflexivity|]. rewrite Hx. simpl. rewrite IH. reflexivity.
Qed.

Lemma mapS_map {A B : Type} (w : A -> nat -> res verr (A * nat)) (f : A -> B) l :
  Forall (fun x => forall k r k', w x k = Ok (r, k') -> f r = f x) l ->
  forall k l' k', mapS w l k = Ok (l', k') -> map f l' = map f l.
Proof.
  induction 1 as [|x l Hx _ IH]; intros k l' k'; simpl.
  - intros E. injection E as <- <-. reflexivity.
  - destruct (w x k) as [[x' k1]|e|p] eqn:E1; simpl; try discriminate.
    destruct (mapS w l k1) as [[r' k2]|e|p] eqn:E2; simpl; try discriminate.
    intros E. injection E as <- <-. simpl. f_equal; eauto.
Qed.

Section Walk.
  Variable fc : bool -> Z -> nat -> res verr (value * nat).
  Hypothesis fc_fd : forall o n k r k', fc o n k = Ok (r, k') -> exists o' n', r = VFd o' n'.

  Lemma walk_fdfree : forall v k, has_fd v = false -> walk fc v k = Ok (v, k).
  Proof.
    induction v using value_ind'; intros k0 Hf; simpl in *; try reflexivity; try discriminate.
    - rewrite IHv; auto.
    - apply existsb_false in Hf. rewrite mapS_id; [reflexivity|].
      clear - H Hf. induction H; inversion Hf; subst; constructor; auto.
    - apply existsb_false in Hf. rewrite mapS_id; [reflexivity|].
      clear - H Hf. induction H as [|[a1 a2] l [H1 H2] _ IH]; inversion Hf; subst; constructor; auto.
      intros k1. simpl in *. match goal with E : _ || _ = false |- _ => apply orb_false_iff in E as [? ?] end.
      rewrite H1; auto. simpl. rewrite H2; auto.
    - apply existsb_false in Hf. rewrite mapS_id; [reflexivity|].
      clear - H Hf. induction H; inversion Hf; subst; constructor; auto.
  Qed.

  Lemma walk_sig : forall v k r k', walk fc v k = Ok (r, k') -> value_signature r = value_signature v.
  Proof.
    induction v using value_ind'; intros k0 r k' E; simpl in E;
      try (injection E as <- <-; reflexivity).
    - destruct (walk fc v k0) as [[x' k1]|e|p]; simpl in E; try discriminate. injection E as <- <-. reflexivity.
    - destruct (mapS (walk fc) l k0) as [[l' k1]|e|p]; simpl in E; try discriminate. injection E as <- <-. reflexivity.
    - destruct (mapS _ l k0) as [[l' k1]|e|p]; simpl in E; try discriminate.
      injection E as <- <-. reflexivity.
    - destruct (mapS (walk fc) l k0) as [[l' k1]|e|p] eqn:E1; simpl in E; try discriminate. injection E as <- <-.
      simpl. f_equal. eapply mapS_map; [|exact E1]. exact H.
    - apply fc_fd in E as (o' & n' & ->). reflexivity.
  Qed.
End Walk.

Lemma try_clone_fdfree os v k : has_fd v = false -> try_clone os v k = Ok (v, k).
Proof. apply walk_fdfree. Qed.
Lemma try_to_owned_fdfree os v k : has_fd v = false -> try_to_owned os v k = Ok (v, k).
Proof. apply walk_fdfree. Qed.
Lemma try_clone_sig os v k r k' : try_clone os v k = Ok (r, k') -> value_signature r = value_signature v.
Proof.
  apply walk_sig. intros o n k0 r0 k0'. destruct o; unfold dup; try destruct (os k0); simpl; intros E; try discriminate;
    injection E as <- <-; eauto.
Qed.
Lemma try_to_owned_sig os v k r k' : try_to_owned os v k = Ok (r, k') -> value_signature r = value_signature v.
Proof.
  apply walk_sig. intros o n k0 r0 k0'. unfold dup; destruct (os k0); simpl; intros E; try discriminate;
    injection E as <- <-; eauto.
Qed.

(* ---- a well-formed value is typed by its signature ---- *)
Lemma wfb_has_type : forall v, wfb v = true -> has_type (value_signature v) v.
Proof.
  induction v using value_ind'; intros W; simpl in *; try constructor.
  - econstructor. apply IHv. exact W.
  - rewrite forallb_forall in W. apply Forall_forall. intros x Hx. rewrite Forall_forall in H.
    specialize (W x Hx). apply andb_true_iff in W as [W1 W2]. apply sig_eqb_eq in W2. subst. auto.
  - rewrite forallb_forall in W. apply Forall_forall. intros [a1 a2] Hx. rewrite Forall_forall in H.
    specialize (W _ Hx). specialize (H _ Hx) as [H1 H2]. simpl in *.
    apply andb_true_iff in W as [W W4]. apply andb_true_iff in W as [W W3]. apply andb_true_iff in W as [W1 W2].
    apply sig_eqb_eq in W3. apply sig_eqb_eq in W4. subst. auto.
  - apply andb_true_iff in W as [W _]. rewrite forallb_forall in W. rewrite Forall_forall in H.
    clear - W H. induction l; simpl; constructor.
    + apply H; [left; reflexivity | apply W; left; reflexivity].
    + apply IHl; [intros x Hx; apply H; right; exact Hx | intros x Hx; apply W; right; exact Hx].
  - apply andb_true_iff in W as [_ W]. destruct l; [discriminate|congruence].
Qed.

(* the constructors of the public API only build well-formed values *)
Lemma array_append_wf a e a' : wfb a = true -> wfb e = true -> array_append a e = Ok a' -> wfb a' = true.
Proof.
  destruct a; simpl; try discriminate. intros Wa We.
  destruct (sig_eqb (value_signature e) elem) eqn:E; simpl; try discriminate.
  intros H. injection H as <-. simpl. rewrite forallb_app, Wa. simpl. rewrite We, E. reflexivity.
Qed.

Lemma bt_insert_wf ks vs k v m :
  (wfb k && wfb v && sig_eqb (value_signature k) ks && sig_eqb (value_signature v) vs) = true ->
  wfb (VDict ks vs m) = true -> wfb (VDict ks vs (bt_insert k v m)) = true.
Proof.
  intros Hkv. simpl. induction m as [|[k0 v0] m IH]; simpl.
  - intros _. rewrite Hkv. reflexivity.
  - rewrite andb_true_iff. intros [H0 Hm]. destruct (vcmp k k0); simpl.
    + rewrite Hm, andb_true_r. rewrite !andb_true_iff in *. intuition.
    + rewrite Hkv, H0, Hm. reflexivity.
    + rewrite H0. simpl. apply IH. exact Hm.
Qed.

Lemma dict_append_wf d k v d' : wfb d = true -> wfb k = true -> wfb v = true -> dict_append d k v = Ok d' -> wfb d' = true.
Proof.
  destruct d; simpl; try discriminate. intros Wd Wk Wv.
  destruct (sig_eqb (value_signature k) ksig) eqn:E1; simpl; try discriminate.
  destruct (sig_eqb (value_signature v) vsig) eqn:E2; simpl; try discriminate.
  intros H. injection H as <-. apply bt_insert_wf; [|exact Wd]. rewrite Wk, Wv, E1, E2. reflexivity.
Qed.

Lemma struct_build_wf l s : forallb wfb l = true -> struct_build l = Ok s -> wfb s = true.
Proof. destruct l; simpl; try discriminate. intros W H. injection H as <-. simpl. rewrite W. reflexivity. Qed.
