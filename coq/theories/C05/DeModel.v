(* C05/DeModel.v — executable mirror of zvariant::gvariant::Deserializer (zvariant/src/gvariant/de.rs), of the parts of
   DeserializerCommon it uses (zvariant/src/de.rs: parse_padding, next_slice), of FramingOffsets::from_encoded_array and
   FramingOffsetSize::{for_encoded_container, read_last_offset_from_buffer}, and of the dynamic-value visitors
   (ValueSeed / SignatureSeed / ValueVisitor in zvariant/src/value.rs; Array::append, Dict::append, Maybe).
   Target: a dynamic Value for the deserializer's signature.

   Every slice, index, `len - x` subtraction, unwrap and unreachable! on this path is an explicit outcome:
     Err EBounds  where the Rust uses the checked `subslice` / an explicit length test,
     Panic _      where it indexes, slices or subtracts directly.
   Representation of `&[u8]` sub-slices (no behaviour): a deserializer sees the window [0, r_len) of r_base;
   r_rest caches the suffix of r_base that starts at r_pos (sequential reads do not re-walk the list).
   No proofs here. *)
From ZV Require Import Base.Bytes Base.Res Base.Sig Base.SigParse Base.Utf8 DBus.Val DBus.Spec DBus.Ser DBus.De
  C05.Val C05.Model.
Local Open Scope N_scope.

Record dst := {
  r_e : endian; r_pos0 : N;            (* ctxt.position() *)
  r_base : bytes; r_rest : bytes;      (* the slice; its suffix from r_pos *)
  r_pos : N; r_len : N;                (* pos; bytes.len() *)
  r_sig : sig; r_dep : depths; r_fds : list N }.

Definition rset_sig st g := {| r_e := r_e st; r_pos0 := r_pos0 st; r_base := r_base st; r_rest := r_rest st; r_pos := r_pos st; r_len := r_len st; r_sig := g; r_dep := r_dep st; r_fds := r_fds st |}.
Definition rset_dep st d := {| r_e := r_e st; r_pos0 := r_pos0 st; r_base := r_base st; r_rest := r_rest st; r_pos := r_pos st; r_len := r_len st; r_sig := r_sig st; r_dep := d; r_fds := r_fds st |}.
(* pos += n *)
Definition adv st n := {| r_e := r_e st; r_pos0 := r_pos0 st; r_base := r_base st; r_rest := dropN n (r_rest st); r_pos := r_pos st + n; r_len := r_len st; r_sig := r_sig st; r_dep := r_dep st; r_fds := r_fds st |}.

(* the bytes of the slice from index i on *)
Definition from_idx st (i : N) : bytes :=
  if r_pos st <=? i then dropN (i - r_pos st) (r_rest st) else dropN i (r_base st).

Definition is_zero (c : byte) : bool := bn c =? 0.

(* DeserializerCommon::parse_padding *)
Definition gparse_padding (st : dst) (al : N) : res cerr dst :=
  let p := padn (r_pos0 st + r_pos st) al in
  if p =? 0 then Ok st
  else if r_len st <? r_pos st + p then Err EBounds
  else if negb (r_pos st + p <=? r_len st) then Panic PIndex           (* self.bytes[self.pos + i], i < padding *)
  else if forallb is_zero (takeN p (r_rest st)) then Ok (adv st p) else Err EPadding.

(* DeserializerCommon::next_slice *)
Definition gnext_slice (st : dst) (n : N) : res cerr (bytes * dst) :=
  if r_len st <? r_pos st + n then Err EBounds
  else Ok (takeN n (r_rest st), adv st n).

(* a new Deserializer over subslice(bytes, lo..hi) (lo >= pos in every use), context position shifted by [shift] *)
Definition gsub (st : dst) (lo hi shift : N) (g : sig) (d : depths) : res cerr dst :=
  if (hi <? lo) || (r_len st <? hi) then Err EBounds       (* slice.get(lo..hi) = None *)
  else let b := from_idx st lo in
       Ok {| r_e := r_e st; r_pos0 := r_pos0 st + shift; r_base := b; r_rest := b; r_pos := 0; r_len := hi - lo;
             r_sig := g; r_dep := d; r_fds := r_fds st |}.

(* FramingOffsetSize::read_last_offset_from_buffer(&bytes[a..b]) for a <= b <= len:
   buffer[end - w..end] — with fewer than w bytes `end - w` underflows (debug build) or the slice start is out of range
   (release build): a panic in both *)
Definition read_last (st : dst) (a b w : N) : res cerr N :=
  let n := b - a in
  if n =? 0 then Ok 0
  else if n <? w then Panic PArith
  else Ok (le_val (takeN w (from_idx st (b - w)))).

(* FramingOffsets::from_encoded_array(&bytes[pos..]): the offsets and their total length *)
Definition from_encoded_array (st : dst) : res cerr (list N * N) :=
  let clen := r_len st - r_pos st in
  let* w := for_encoded_container clen in
  let* offsets_start := read_last st (r_pos st) (r_len st) w in
  if clen <? offsets_start then Err EBounds else
  let offsets_len := clen - offsets_start in
  let region := takeN offsets_len (from_idx st (r_pos st + offsets_start)) in
  (* while i < len { end = i + w; if end > len -> Err; offset = read(container[i..end]); if offset > offsets_start -> Err } *)
  let* offs := (fix loop (k : nat) (l : bytes) (acc : list N) {struct k} : res cerr (list N) :=
                  match k with
                  | O => Err EFuel
                  | S k' =>
                      match l with
                      | [] => Ok (frev acc)
                      | _ => let c := takeN w l in
                             if len c <? w then Err EBounds
                             else let o := le_val c in
                                  if offsets_start <? o then Err EBounds else loop k' (dropN w l) (o :: acc)
                      end
                  end) (S (length region)) region [] in
  Ok (offs, offsets_len).

(* DeserializerCommon read of a fixed-size basic value through the D-Bus deserializer (deserialize_basic!):
   padding to the D-Bus alignment (= the size), then next_slice *)
Definition grd_fixed (st : dst) (n : N) : res cerr (N * dst) :=
  let* st := gparse_padding st n in
  let* (b, st) := gnext_slice st n in Ok (dec (r_e st) b, st).

(* deserialize_str: the whole rest of the slice is the string; one trailing nul (if any) is dropped *)
Definition strip_nul (s : bytes) : bytes :=
  match s with [] => [] | _ => if is_zero (last s x01) then removelast s else s end.
Definition gde_str (st : dst) : res cerr (bytes * dst) :=
  match r_sig st with
  | SStr | SSig | SObjPath =>
      if r_len st <? r_pos st then Err EBounds else          (* subslice(bytes, pos..) *)
      let n := r_len st - r_pos st in
      let slice := takeN n (r_rest st) in
      let st' := adv st n in
      let s := strip_nul slice in
      if negb (nul_free s) then Err EValue
      else if utf8_valid s then Ok (s, st') else Err EUtf8
  | _ => Err ESigMismatch
  end.

(* ValueSeed::visit_borrowed_str *)
Definition gstr_value (g : sig) (s : bytes) : res cerr gval :=
  match g with
  | SStr => Ok (GStr s)
  | SSig => match parse_sig true s with Some p => Ok (GSigv p (negb (lbeq (show p) s))) | None => Err ESigParse end
  | SObjPath => if path_ok s then Ok (GPath s) else Err EValue
  | _ => Err EType
  end.

(* position (relative to the list) of the last zero byte *)
Fixpoint last_nul (l : bytes) (i : N) (best : option N) : option N :=
  match l with
  | [] => best
  | c :: r => last_nul r (i + 1) (if is_zero c then Some i else best)
  end.

(* (an estimate of the) recursion depth of the signature parser on a byte string: open brackets plus the current run of
   a/m prefixes.
   The real parser (winnow, recursive descent) uses native stack proportional to it; beyond [stack_limit] the model
   reports the stack overflow the harness observes (process abort).  Inputs between 2000 and the limit are not generated:
   the exact threshold depends on the platform's stack size. *)
Fixpoint sig_nest (l : bytes) (opened pend best : N) : N :=
  match l with
  | [] => best
  | c :: r =>
      if beq c "a"%byte || beq c "m"%byte then sig_nest r opened (pend + 1) (N.max best (opened + pend + 1))
      else if beq c "("%byte || beq c "{"%byte then sig_nest r (opened + 1) 0 (N.max best (opened + pend + 1))
      else if beq c ")"%byte || beq c "}"%byte then sig_nest r (opened - 1) 0 best
      else sig_nest r opened 0 best
  end.
Definition stack_limit : N := 50000.
Definition parse_sig_stack (raw : bytes) : res cerr sig :=
  if stack_limit <? sig_nest raw 0 0 0 then Panic PStack
  else match parse_sig true raw with Some g => Ok g | None => Err ESigParse end.

(* ArrayDeserializer *)
Record garr := {
  a_len : N; a_start : N; a_al : N; a_child : sig; a_vsig : option sig;
  a_offs : option (list N); a_offs_len : N; a_kos : option N }.

(* ArrayDeserializer::new *)
Definition garr_new (st : dst) : res cerr (dst * garr) :=
  let* d := inc_array (r_dep st) in
  let st := rset_dep st d in
  let al := align_gv (r_sig st) in
  let* st := gparse_padding st al in
  if r_len st <? r_pos st then Panic PArith else         (* bytes.len() - pos *)
  let len0 := r_len st - r_pos st in
  let* (child, vsig, fixed_key, fixed_child) :=
      match r_sig st with
      | SArray c => Ok (c, None, false, fixed_sized c)
      | SDict k v => Ok (k, Some v, fixed_sized k, fixed_sized k && fixed_sized v)
      | _ => Err ESigMismatch
      end in
  if fixed_child then
    Ok (st, {| a_len := len0; a_start := r_pos st; a_al := al; a_child := child; a_vsig := vsig;
               a_offs := None; a_offs_len := 0; a_kos := None |})
  else
    let* (offs, offs_len) := from_encoded_array st in
    if len0 <? offs_len then Panic PArith else           (* len -= offsets_len *)
    Ok (st, {| a_len := len0 - offs_len; a_start := r_pos st; a_al := al; a_child := child; a_vsig := vsig;
               a_offs := Some offs; a_offs_len := offs_len;
               a_kos := if fixed_key then None else Some 1 |}).

(* done() *)
Definition garr_done (st : dst) (a : garr) (offs : option (list N)) : bool :=
  match offs with
  | Some [] => true
  | Some _ => false
  | None => r_pos st =? a_start a + a_len a
  end.
(* after the last element: pos += offsets_len; dec_array *)
Definition garr_finish (st : dst) (a : garr) : dst :=
  rset_dep (adv st (a_offs_len a)) (dec_array (r_dep st)).

(* canonical form of a decoded Dict (BTreeMap: one entry per key, the later value wins; printed sorted by key text) *)
Definition gkey_eq (a b : gval) : bool :=
  match a, b with
  | GF64 x, GF64 y => if f64_nan x || f64_nan y then (x =? y) else (x =? y) || (f64_zero x && f64_zero y)
  | _, _ => lbeq (gval_text a) (gval_text b)
  end.
Fixpoint gdict_insert_sorted (p : gval * gval) (l : list (gval * gval)) : list (gval * gval) :=
  match l with
  | [] => [p]
  | q :: r => if bytes_leb (gval_text (fst p)) (gval_text (fst q)) then p :: l else q :: gdict_insert_sorted p r
  end.
Definition gdict_put (l : list (gval * gval)) (k v : gval) : list (gval * gval) :=
  if existsb (fun q => gkey_eq (fst q) k) l
  then map (fun q => if gkey_eq (fst q) k then (fst q, v) else q) l
  else gdict_insert_sorted (k, v) l.
Fixpoint gcanon (v : gval) : gval :=
  match v with
  | GVariant x => GVariant (gcanon x)
  | GMaybe c (Some x) => GMaybe c (Some (gcanon x))
  | GArray e l => GArray e (map gcanon l)
  | GStruct l => GStruct (map gcanon l)
  | GDict k vs l => GDict k vs (fold_left (fun acc p => gdict_put acc (gcanon (fst p)) (gcanon (snd p))) l [])
  | _ => v
  end.

(* StructureDeserializer::next_element_seed (after commit b5246470):
     let offsets = subslice(bytes, start..end)?;
     if !offsets.is_empty() && offsets.len() < offset_size { return Err(OutOfBounds) }
     offset_size.read_last_offset_from_buffer(offsets) *)
Definition read_last_checked (st : dst) (a b w : N) : res cerr N :=
  let n := b - a in
  if negb (n =? 0) && (n <? w) then Err EBounds
  else read_last st a b w.

(* [rl] is the reader used for the framing offsets of a tuple's members: [read_last_checked] in the code as it is;
   the bare [read_last] is what the code did before commit b5246470 *)
Fixpoint gde_gen (rl : dst -> N -> N -> N -> res cerr N) (fuel : nat) (st : dst) {struct fuel} : res cerr (gval * dst) :=
  let gde := gde_gen rl in
  match fuel with
  | O => Err EFuel
  | S f =>
      let fixedN (n : N) (k : N -> gval) := let* (x, st) := grd_fixed st n in Ok (k x, st) in
      match r_sig st with
      | SUnit => Err EType                         (* deserialize_unit -> visit_unit, which ValueSeed does not implement *)
      | SU8 => fixedN 1 GU8
      | SBool => let* (x, st) := grd_fixed st 4 in
                 if x =? 1 then Ok (GBool true, st) else if x =? 0 then Ok (GBool false, st) else Err EValue
      | SI16 => fixedN 2 (fun x => GI16 (untwos 16 x))
      | SU16 => fixedN 2 GU16
      | SI32 => fixedN 4 (fun x => GI32 (untwos 32 x))
      | SU32 => fixedN 4 GU32
      | SI64 => fixedN 8 (fun x => GI64 (untwos 64 x))
      | SU64 => fixedN 8 GU64
      | SF64 => fixedN 8 GF64
      | SFd => let* (i, st) := grd_fixed st 4 in
               match nthN (r_fds st) i with Some h => Ok (GFd h, st) | None => Err EUnknownFd end
      | SStr | SObjPath | SSig =>
          let* (s, st') := gde_str st in
          let* v := gstr_value (r_sig st) s in Ok (v, st')
      | SVariant =>
          let* st := gparse_padding st 8 in           (* deserialize_seq *)
          let* st := gparse_padding st 8 in           (* ValueDeserializer::new *)
          if r_len st =? 0 then Err EValue else
          if r_len st <? r_pos st then Panic PSlice else          (* &bytes[pos..] / the range pos..len-1 *)
          (* for i in (pos..len - 1).rev() { if bytes[i] == 0 .. } : the last nul before the final byte *)
          let w := takeN (r_len st - r_pos st) (r_rest st) in
          match last_nul (removelast w) 0 None with
          | None => Err EValue
          | Some i =>
              let sig_start := r_pos st + i + 1 in
              let sig_end := r_len st in
              let value_start := r_pos st in
              let value_end := r_pos st + i in
              (* stage Signature: <&str>::deserialize on bytes[sig_start..sig_end], then Signature::from_str *)
              let* sst := gsub st sig_start sig_end 0 SSig (r_dep st) in
              let* (s, _) := gde_str sst in
              let* _ := parse_sig_stack s in
              (* stage Value: Signature::from_bytes on the same slice *)
              let raw := takeN (sig_end - sig_start) (from_idx st sig_start) in
              let* g := parse_sig_stack raw in
              let* vst0 := gsub st value_start value_end value_start g (r_dep st) in
              let* d := inc_variant (r_dep st) in
              let* (v, _) := gde f (rset_dep vst0 d) in
              Ok (GVariant v, adv st (sig_end - r_pos st))         (* self.de.0.pos = self.sig_end *)
          end
      | SArray c =>
          let* st := gparse_padding st (align_gv (r_sig st)) in      (* deserialize_seq *)
          let* (st, a) := garr_new st in
          let loop := fix loop (k : nat) (offs : option (list N)) (st : dst) (acc : list gval) {struct k}
              : res cerr (list gval * dst) :=
              match k with
              | O => Err EFuel
              | S k' =>
                  if garr_done st a offs then Ok (frev acc, garr_finish st a)
                  else
                    (* element_end(true) *)
                    let '(end_, offs') := match offs with
                                          | Some (o :: r) => (a_start a + o, Some r)
                                          | _ => (a_start a + a_len a, offs)
                                          end in
                    let* sub := gsub st (r_pos st) end_ (r_pos st) (a_child a) (r_dep st) in
                    let* (v, sub') := gde f sub in
                    let st := adv st (r_pos sub') in
                    if a_start a + a_len a <? r_pos st then Err EBounds
                    else if negb (sig_eqb (gsig v) c) then Err ESigMismatch      (* Array::append *)
                    else loop k' offs' st (v :: acc)
              end in
          let* (l, st') := loop (S (N.to_nat (r_len st))) (a_offs a) st [] in
          Ok (GArray c l, st')
      | SDict ks vs =>
          let* st := gparse_padding st (align_gv (r_sig st)) in      (* deserialize_map -> deserialize_seq *)
          let* (st, a) := garr_new st in
          let loop := fix loop (k : nat) (offs : option (list N)) (st : dst) (acc : list (gval * gval)) {struct k}
              : res cerr (list (gval * gval) * dst) :=
              match k with
              | O => Err EFuel
              | S k' =>
                  if garr_done st a offs then Ok (frev acc, garr_finish st a)
                  else
                    (* next_key_seed *)
                    let* st := gparse_padding st (a_al a) in
                    let* element_end := match offs with            (* element_end(false): peek *)
                                        | Some (o :: _) => Ok (a_start a + o)
                                        | Some [] => Err EOther
                                        | None => Ok (a_start a + a_len a)
                                        end in
                    let* (key_end, kos) :=
                        match a_kos a with
                        | Some _ =>
                            if element_end <? r_pos st then Err EBounds else
                            let* w := for_encoded_container (element_end - r_pos st) in
                            if r_len st <? element_end then Panic PSlice else      (* &bytes[pos..element_end] *)
                            let* o := read_last st (r_pos st) element_end w in
                            Ok (r_pos st + o, Some w)
                        | None => Ok (element_end, None)
                        end in
                    let* ksub := gsub st (r_pos st) key_end (r_pos st) (a_child a) (r_dep st) in
                    let* (kv, ksub') := gde f ksub in
                    let st := adv st (r_pos ksub') in
                    if a_start a + a_len a <? r_pos st then Err EBounds else
                    (* next_value_seed *)
                    let* (element_end, offs') := match offs with            (* element_end(true): pop *)
                                                  | Some (o :: r) => Ok (a_start a + o, Some r)
                                                  | Some [] => Err EOther
                                                  | None => Ok (a_start a + a_len a, None)
                                                  end in
                    let* value_end := match kos with
                                      | Some w => if element_end <? w then Err EBounds else Ok (element_end - w)
                                      | None => Ok element_end
                                      end in
                    let* vsub := gsub st (r_pos st) value_end (r_pos st) vs (r_dep st) in
                    let* (vv, vsub') := gde f vsub in
                    let st := adv st (r_pos vsub') in
                    let st := match kos with Some w => adv st w | None => st end in
                    if a_start a + a_len a <? r_pos st then Err EBounds
                    else if negb (sig_eqb (gsig kv) ks) || negb (sig_eqb (gsig vv) vs) then Err ESigMismatch   (* Dict::append *)
                    else loop k' offs' st ((kv, vv) :: acc)
              end in
          let* (l, st') := loop (S (N.to_nat (r_len st))) (a_offs a) st [] in
          Ok (GDict ks vs l, st')
      | SStruct fs =>
          let* st := gparse_padding st (align_gv (r_sig st)) in      (* deserialize_seq *)
          (* StructureDeserializer::new *)
          let* st := gparse_padding st (align_gv (r_sig st)) in
          let* d := inc_struct (r_dep st) in
          let st := rset_dep st d in
          let start := r_pos st in
          if r_len st <? start then Panic PArith else          (* end - start *)
          let* w := for_encoded_container (r_len st - start) in
          let loop := fix loop (gs : list sig) (st : dst) (end_ offsets_len : N) (acc : list gval) {struct gs}
              : res cerr (list gval * dst) :=
              match gs with
              | [] => Ok (frev acc, st)
              | g :: r =>
                  let last := match r with [] => true | _ => false end in
                  let* (element_end, end', offsets_len') :=
                      if fixed_sized g then Ok (end_, end_, offsets_len)
                      else if last then Ok (end_, end_, offsets_len)
                      else
                        if (end_ <? start) || (r_len st <? end_) then Err EBounds else     (* subslice(bytes, start..end) *)
                        let* o := rl st start end_ w in
                        if end_ <? w then Err EBounds else
                        Ok (o + start, end_ - w, offsets_len + w) in
                  let* sub := gsub st (r_pos st) element_end (r_pos st) g (r_dep st) in
                  let* (v, sub') := gde f sub in
                  let st := adv st (r_pos sub') in
                  let st := if last then adv (rset_dep st (dec_struct (r_dep st))) offsets_len' else st in
                  loop r st end' offsets_len' (v :: acc)
              end in
          let* (l, st') := loop fs st (r_len st) 0 [] in
          Ok (GStruct l, st')
      | SMaybe c =>
          let* st := gparse_padding st (align_gv (r_sig st)) in
          let fx := fixed_sized c in
          if r_pos st =? r_len st then Ok (GMaybe c None, st)
          else
            let* end_ := if fx then Ok (r_len st)
                         else if r_len st =? 0 then Panic PArith else Ok (r_len st - 1) in     (* bytes.len() - 1 *)
            let* sub0 := gsub st (r_pos st) end_ (r_pos st) c (r_dep st) in
            let* d := inc_maybe (r_dep st) in
            let* (v, sub') := gde f (rset_dep sub0 d) in
            let st := adv st (r_pos sub') in
            if fx then Ok (GMaybe c (Some v), st)
            else
              if r_len st <=? r_pos st then Err EBounds            (* subslice(bytes, pos) *)
              else match r_rest st with
                   | b :: _ => if is_zero b then Ok (GMaybe c (Some v), adv st 1) else Err EValue
                   | [] => Err EBounds
                   end
      end
  end.

Definition gde : nat -> dst -> res cerr (gval * dst) := gde_gen read_last_checked.
(* the decoder before commit b5246470, kept for the record of the former finding *)
Definition gde_before_fix : nat -> dst -> res cerr (gval * dst) := gde_gen read_last.

Definition gde_fuel : nat := 70%nat.

Definition ginit_dst (e : endian) (pos : N) (g : sig) (b : bytes) (fds : list N) : dst :=
  {| r_e := e; r_pos0 := pos; r_base := b; r_rest := b; r_pos := 0; r_len := len b; r_sig := g; r_dep := depths0; r_fds := fds |}.

(* Data::deserialize::<Value>() : signature "v", the visitor returns the inner value *)
Definition gde_value_top (e : endian) (pos : N) (b : bytes) (fds : list N) : res cerr (gval * N) :=
  let* (v, st) := gde gde_fuel (ginit_dst e pos SVariant b fds) in
  match v with GVariant x => Ok (x, r_pos st) | _ => Err EOther end.

(* Data::deserialize_for_dynamic_signature::<_, Structure>(sig) : non-struct signatures are wrapped *)
Definition gde_struct_top (e : endian) (pos : N) (g : sig) (b : bytes) (fds : list N) : res cerr (gval * N) :=
  let g' := match g with SStruct _ => g | _ => SStruct [g] end in
  let* (v, st) := gde gde_fuel (ginit_dst e pos g' b fds) in Ok (v, r_pos st).

(* Data::deserialize::<T>() for a typed Rust value of signature g (same deserializer calls as the dynamic value) *)
Definition gde_typed_top (e : endian) (pos : N) (g : sig) (b : bytes) (fds : list N) : res cerr (gval * N) :=
  let* (v, st) := gde gde_fuel (ginit_dst e pos g b fds) in Ok (v, r_pos st).
