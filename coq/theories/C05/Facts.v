(* C05/Facts.v — bookkeeping for the GVariant proofs: list reversal, the writer, padding under aligned shifts,
   alignments are powers of two, the framing-offset width, standalone forms of the local fixpoints of [gvb]. *)
From ZV Require Import Base.Bytes Base.Res Base.Sig Base.SigParse DBus.Val DBus.Spec DBus.Ser DBus.SerFacts DBus.SerProofs
  C05.Val C05.Spec C05.Model C05.Classes.
From Coq Require Import Lia.
Local Open Scope N_scope.

(* ---------- reversal ---------- *)
Lemma frev_rev {A} (l : list A) : frev l = rev l.
Proof. unfold frev. now rewrite rev_append_rev, app_nil_r. Qed.
Lemma frev_involutive {A} (l : list A) : frev (rev l) = l.
Proof. rewrite frev_rev. apply rev_involutive. Qed.

(* ---------- the writer ---------- *)
Lemma gwr_nil st : gwr st [] = st.
Proof. destruct st; unfold gwr; cbn. now rewrite N.add_0_r. Qed.
Lemma gwr_gwr st a b : gwr (gwr st a) b = gwr st (a ++ b).
Proof.
  unfold gwr; cbn [g_e g_pos0 g_rout g_written g_sig g_vsign g_dep g_fds]. f_equal.
  - rewrite !rev_append_rev, rev_app_distr. now rewrite app_assoc.
  - rewrite len_app. lia.
Qed.
Lemma gout_gwr st b : gout (gwr st b) = gout st ++ b.
Proof.
  unfold gout, gwr; cbn [g_e g_pos0 g_rout g_written g_sig g_vsign g_dep g_fds].
  rewrite !frev_rev, rev_append_rev, rev_app_distr, rev_involutive. reflexivity.
Qed.
Lemma written_gwr st b : g_written (gwr st b) = g_written st + len b. Proof. reflexivity. Qed.
Lemma gabs_gwr st b : gabs (gwr st b) = gabs st + len b. Proof. unfold gabs; cbn. lia. Qed.
Lemma gpadded_gwr st al : gpadded st al = gwr st (pad (gabs st) al). Proof. reflexivity. Qed.
Lemma gset_fds_id st : gset_fds st (g_fds st) = st. Proof. now destruct st. Qed.
Lemma gset_sig_id st : gset_sig st (g_sig st) = st. Proof. now destruct st. Qed.
Lemma gset_dep_id st : gset_dep st (g_dep st) = st. Proof. now destruct st. Qed.
Lemma gset_sig_gwr st b g : gset_sig (gwr st b) g = gwr (gset_sig st g) b. Proof. reflexivity. Qed.
Lemma gset_dep_gwr st b d : gset_dep (gwr st b) d = gwr (gset_dep st d) b. Proof. reflexivity. Qed.
Lemma gset_vsign_gwr st b g : gset_vsign (gwr st b) g = gwr (gset_vsign st g) b. Proof. reflexivity. Qed.

Lemma g_dep_gwr st b : g_dep (gwr st b) = g_dep st. Proof. reflexivity. Qed.
Lemma g_sig_gwr st b : g_sig (gwr st b) = g_sig st. Proof. reflexivity. Qed.
Lemma g_vsign_gwr st b : g_vsign (gwr st b) = g_vsign st. Proof. reflexivity. Qed.
Lemma g_e_gwr st b : g_e (gwr st b) = g_e st. Proof. reflexivity. Qed.
Lemma g_pos0_gwr st b : g_pos0 (gwr st b) = g_pos0 st. Proof. reflexivity. Qed.
Lemma g_fds_gwr st b : g_fds (gwr st b) = g_fds st. Proof. reflexivity. Qed.
#[export] Hint Rewrite g_dep_gwr g_sig_gwr g_vsign_gwr g_e_gwr g_pos0_gwr g_fds_gwr written_gwr gabs_gwr : gst.

Lemma g_e_gset_sig st x : g_e (gset_sig st x) = g_e st. Proof. reflexivity. Qed.
Lemma g_pos0_gset_sig st x : g_pos0 (gset_sig st x) = g_pos0 st. Proof. reflexivity. Qed.
Lemma g_rout_gset_sig st x : g_rout (gset_sig st x) = g_rout st. Proof. reflexivity. Qed.
Lemma g_written_gset_sig st x : g_written (gset_sig st x) = g_written st. Proof. reflexivity. Qed.
Lemma g_sig_gset_sig st x : g_sig (gset_sig st x) = x. Proof. reflexivity. Qed.
Lemma g_vsign_gset_sig st x : g_vsign (gset_sig st x) = g_vsign st. Proof. reflexivity. Qed.
Lemma g_dep_gset_sig st x : g_dep (gset_sig st x) = g_dep st. Proof. reflexivity. Qed.
Lemma g_fds_gset_sig st x : g_fds (gset_sig st x) = g_fds st. Proof. reflexivity. Qed.
Lemma gabs_gset_sig st x : gabs (gset_sig st x) = gabs st. Proof. reflexivity. Qed.
Lemma gout_gset_sig st x : gout (gset_sig st x) = gout st. Proof. reflexivity. Qed.
Lemma g_e_gset_dep st x : g_e (gset_dep st x) = g_e st. Proof. reflexivity. Qed.
Lemma g_pos0_gset_dep st x : g_pos0 (gset_dep st x) = g_pos0 st. Proof. reflexivity. Qed.
Lemma g_rout_gset_dep st x : g_rout (gset_dep st x) = g_rout st. Proof. reflexivity. Qed.
Lemma g_written_gset_dep st x : g_written (gset_dep st x) = g_written st. Proof. reflexivity. Qed.
Lemma g_sig_gset_dep st x : g_sig (gset_dep st x) = g_sig st. Proof. reflexivity. Qed.
Lemma g_vsign_gset_dep st x : g_vsign (gset_dep st x) = g_vsign st. Proof. reflexivity. Qed.
Lemma g_dep_gset_dep st x : g_dep (gset_dep st x) = x. Proof. reflexivity. Qed.
Lemma g_fds_gset_dep st x : g_fds (gset_dep st x) = g_fds st. Proof. reflexivity. Qed.
Lemma gabs_gset_dep st x : gabs (gset_dep st x) = gabs st. Proof. reflexivity. Qed.
Lemma gout_gset_dep st x : gout (gset_dep st x) = gout st. Proof. reflexivity. Qed.
Lemma g_e_gset_vsign st x : g_e (gset_vsign st x) = g_e st. Proof. reflexivity. Qed.
Lemma g_pos0_gset_vsign st x : g_pos0 (gset_vsign st x) = g_pos0 st. Proof. reflexivity. Qed.
Lemma g_rout_gset_vsign st x : g_rout (gset_vsign st x) = g_rout st. Proof. reflexivity. Qed.
Lemma g_written_gset_vsign st x : g_written (gset_vsign st x) = g_written st. Proof. reflexivity. Qed.
Lemma g_sig_gset_vsign st x : g_sig (gset_vsign st x) = g_sig st. Proof. reflexivity. Qed.
Lemma g_vsign_gset_vsign st x : g_vsign (gset_vsign st x) = x. Proof. reflexivity. Qed.
Lemma g_dep_gset_vsign st x : g_dep (gset_vsign st x) = g_dep st. Proof. reflexivity. Qed.
Lemma g_fds_gset_vsign st x : g_fds (gset_vsign st x) = g_fds st. Proof. reflexivity. Qed.
Lemma gabs_gset_vsign st x : gabs (gset_vsign st x) = gabs st. Proof. reflexivity. Qed.
Lemma gout_gset_vsign st x : gout (gset_vsign st x) = gout st. Proof. reflexivity. Qed.
Lemma g_e_gset_fds st x : g_e (gset_fds st x) = g_e st. Proof. reflexivity. Qed.
Lemma g_pos0_gset_fds st x : g_pos0 (gset_fds st x) = g_pos0 st. Proof. reflexivity. Qed.
Lemma g_rout_gset_fds st x : g_rout (gset_fds st x) = g_rout st. Proof. reflexivity. Qed.
Lemma g_written_gset_fds st x : g_written (gset_fds st x) = g_written st. Proof. reflexivity. Qed.
Lemma g_sig_gset_fds st x : g_sig (gset_fds st x) = g_sig st. Proof. reflexivity. Qed.
Lemma g_vsign_gset_fds st x : g_vsign (gset_fds st x) = g_vsign st. Proof. reflexivity. Qed.
Lemma g_dep_gset_fds st x : g_dep (gset_fds st x) = g_dep st. Proof. reflexivity. Qed.
Lemma g_fds_gset_fds st x : g_fds (gset_fds st x) = x. Proof. reflexivity. Qed.
Lemma gabs_gset_fds st x : gabs (gset_fds st x) = gabs st. Proof. reflexivity. Qed.
Lemma gout_gset_fds st x : gout (gset_fds st x) = gout st. Proof. reflexivity. Qed.
#[export] Hint Rewrite g_e_gset_sig g_pos0_gset_sig g_rout_gset_sig g_written_gset_sig g_sig_gset_sig g_vsign_gset_sig g_dep_gset_sig g_fds_gset_sig gabs_gset_sig gout_gset_sig g_e_gset_dep g_pos0_gset_dep g_rout_gset_dep g_written_gset_dep g_sig_gset_dep g_vsign_gset_dep g_dep_gset_dep g_fds_gset_dep gabs_gset_dep gout_gset_dep g_e_gset_vsign g_pos0_gset_vsign g_rout_gset_vsign g_written_gset_vsign g_sig_gset_vsign g_vsign_gset_vsign g_dep_gset_vsign g_fds_gset_vsign gabs_gset_vsign gout_gset_vsign g_e_gset_fds g_pos0_gset_fds g_rout_gset_fds g_written_gset_fds g_sig_gset_fds g_vsign_gset_fds g_dep_gset_fds g_fds_gset_fds gabs_gset_fds gout_gset_fds : gst.

Lemma gset_fds_gwr st b g : gset_fds (gwr st b) g = gwr (gset_fds st g) b. Proof. reflexivity. Qed.
#[export] Hint Rewrite gset_sig_gwr gset_dep_gwr gset_vsign_gwr gset_fds_gwr gwr_gwr : gpush.
Lemma gback_vsign st g v : gback_from st (gset_vsign (gsub_of st g) v) = gset_vsign st v.
Proof. destruct st; reflexivity. Qed.
Lemma gback_gwr st g b : gback_from st (gwr (gsub_of st g) b) = gset_vsign (gwr st b) None.
Proof. destruct st; reflexivity. Qed.

Lemma len_pad p a : len (pad p a) = padn p a.
Proof. apply len_zeros. Qed.

(* ---------- padding ---------- *)
Lemma padn_aligned p a : a <> 0 -> p mod a = 0 -> padn p a = 0.
Proof. intros Ha H. unfold padn. rewrite H, N.sub_0_r. now apply N.mod_same. Qed.
Lemma padn_shift s off a : a <> 0 -> s mod a = 0 -> padn (s + off) a = padn off a.
Proof.
  intros Ha H. unfold padn. f_equal. f_equal.
  rewrite N.add_mod by assumption. rewrite H, N.add_0_l. now apply N.mod_mod.
Qed.
Lemma padn_after p a : a <> 0 -> (p + padn p a) mod a = 0.
Proof. intros Ha. now apply padn_spec. Qed.
Lemma pad_shift s off a : a <> 0 -> s mod a = 0 -> pad (s + off) a = pad off a.
Proof. intros Ha H. unfold pad. now rewrite padn_shift. Qed.
Lemma pad_aligned p a : a <> 0 -> p mod a = 0 -> pad p a = [].
Proof. intros Ha H. unfold pad. now rewrite padn_aligned. Qed.
Lemma mod_trans s big small : big <> 0 -> small <> 0 -> s mod big = 0 -> big mod small = 0 -> s mod small = 0.
Proof.
  intros Hb Hs H1 H2. apply N.mod_divide in H1; [|assumption]. apply N.mod_divide in H2; [|assumption].
  apply N.mod_divide; [assumption|]. eapply N.divide_trans; eassumption.
Qed.

(* ---------- alignments are 1, 2, 4 or 8 ---------- *)
Definition pow2 (a : N) : Prop := a = 1 \/ a = 2 \/ a = 4 \/ a = 8.
Lemma pow2_max a b : pow2 a -> pow2 b -> pow2 (N.max a b).
Proof. unfold pow2. intros [Ha|[Ha|[Ha|Ha]]] [Hb|[Hb|[Hb|Hb]]]; subst; cbn; tauto. Qed.
Lemma pow2_nz a : pow2 a -> a <> 0.
Proof. unfold pow2. lia. Qed.
Lemma pow2_div a b : pow2 a -> pow2 b -> b <= a -> a mod b = 0.
Proof. unfold pow2. intros [Ha|[Ha|[Ha|Ha]]] [Hb|[Hb|[Hb|Hb]]] H; subst; try reflexivity; lia. Qed.

Lemma galign_pow2 : forall s, pow2 (galign s).
Proof.
  induction s using sig_ind'; cbn [galign]; unfold pow2; try tauto.
  - apply pow2_max; assumption.
  - induction H as [|x l Hx Hl IH]; [unfold pow2; tauto|]. apply pow2_max; assumption.
Qed.
Lemma galigns_pow2 l : pow2 (galigns l).
Proof. induction l as [|x l IH]; cbn; [unfold pow2; tauto|]. apply pow2_max; [apply galign_pow2|assumption]. Qed.
Lemma galign_struct fs : galign (SStruct fs) = galigns fs.
Proof. cbn [galign]. induction fs as [|x l IH]; cbn; [reflexivity|]. now rewrite IH. Qed.
Lemma galigns_ge l f : In f l -> galign f <= galigns l.
Proof. induction l as [|x l IH]; cbn; [tauto|]. intros [->|H]; [lia|]. specialize (IH H). lia. Qed.
Lemma galign_nz s : galign s <> 0. Proof. apply pow2_nz, galign_pow2. Qed.
Lemma galigns_nz l : galigns l <> 0. Proof. apply pow2_nz, galigns_pow2. Qed.

(* ---------- fixed-size-ness: the code's table is the format's ---------- *)
Lemma fixed_sized_spec : forall s, fixed_sized s = gis_fixed s.
Proof.
  (* the two recursive definitions have the same shape: they are convertible *)
  intros s. reflexivity.
Qed.

(* ---------- the framing-offset width ---------- *)
Lemma fos_max_1 : fos_max 1 = 255. Proof. reflexivity. Qed.
Lemma fos_max_2 : fos_max 2 = 65535. Proof. reflexivity. Qed.
Lemma fos_max_4 : fos_max 4 = 4294967295. Proof. reflexivity. Qed.
Lemma fos_max_8 : fos_max 8 = 18446744073709551615. Proof. reflexivity. Qed.

Lemma for_bare_cases n k :
  for_bare_container n k =
  if n + k * 1 <=? 255 then Ok 1 else if n + k * 2 <=? 65535 then Ok 2
  else if n + k * 4 <=? 4294967295 then Ok 4 else if n + k * 8 <=? 18446744073709551615 then Ok 8 else Panic PUnwrap.
Proof. unfold for_bare_container. now rewrite fos_max_1, fos_max_2, fos_max_4, fos_max_8. Qed.

Lemma for_bare_width n k : n + 8 * k <= 18446744073709551615 -> for_bare_container n k = Ok (offset_width n k).
Proof.
  intros H. rewrite for_bare_cases. unfold offset_width.
  rewrite N.mul_1_r, (N.mul_comm k 2), (N.mul_comm k 4), (N.mul_comm k 8).
  destruct (n + k <=? 255); [reflexivity|]. destruct (n + 2 * k <=? 65535); [reflexivity|].
  destruct (n + 4 * k <=? 4294967295); [reflexivity|].
  destruct (N.leb_spec (n + 8 * k) 18446744073709551615); [reflexivity|lia].
Qed.

Lemma offset_width_pos n k : 1 <= offset_width n k.
Proof. unfold offset_width. repeat match goal with |- context [if ?c then _ else _] => destruct c end; lia. Qed.

(* ---------- offsets as bytes ---------- *)
Lemma len_le_bytes n x : len (le_bytes n x) = N.of_nat n.
Proof. unfold len. now rewrite le_bytes_length. Qed.
Lemma len_offs_enc w l : len (offs_enc w l) = w * N.of_nat (length l).
Proof.
  unfold offs_enc. induction l as [|o l IH]; cbn [map concat length]; [rewrite len_nil; lia|].
  rewrite len_app, IH, len_le_bytes. lia.
Qed.
Lemma write_offsets_fold w l st :
  fold_left (fun s o => gwr s (offset_bytes w o)) l st = gwr st (offs_enc w l).
Proof.
  revert st. induction l as [|o l IH]; intros st; cbn [fold_left]; [now rewrite gwr_nil|].
  rewrite IH, gwr_gwr. reflexivity.
Qed.

(* ---------- standalone forms of gvb's local fixpoints ---------- *)
Section G.
  Variable e : endian.
  Lemma gvb_array el l :
    gvb e (GArray el l) =
    let ps := gparts e l 0 in let data := concat ps in
    if gis_fixed el then data else data ++ framing (len data) (ends_from 0 ps).
  Proof.
    cbn [gvb].
    assert (H : forall off, (fix parts (l0 : list gval) (off0 : N) {struct l0} : list bytes :=
                match l0 with [] => [] | x :: r => (pad off0 (galign (gsig x)) ++ gvb e x) :: parts r (off0 + len (pad off0 (galign (gsig x)) ++ gvb e x)) end) l off
              = gparts e l off).
    { induction l as [|x l IH]; intros off; [reflexivity|]. cbn [gparts]. now rewrite IH. }
    rewrite H. reflexivity.
  Qed.
  Lemma gvb_struct l :
    gvb e (GStruct l) = tuple_bytes (galigns (map gsig l)) (map gsig l) (gparts e l 0).
  Proof.
    cbn [gvb].
    assert (H : forall off, (fix parts (l0 : list gval) (off0 : N) {struct l0} : list bytes :=
                match l0 with [] => [] | x :: r => (pad off0 (galign (gsig x)) ++ gvb e x) :: parts r (off0 + len (pad off0 (galign (gsig x)) ++ gvb e x)) end) l off
              = gparts e l off).
    { induction l as [|x l IH]; intros off; [reflexivity|]. cbn [gparts]. now rewrite IH. }
    rewrite H. reflexivity.
  Qed.
  Lemma gvb_dict ks vs l :
    gvb e (GDict ks vs l) =
    let ps := geparts e ks vs l 0 in let data := concat ps in
    if gis_fixed ks && gis_fixed vs then data else data ++ framing (len data) (ends_from 0 ps).
  Proof.
    cbn [gvb].
    assert (H : forall off, (fix eparts (ks0 vs0 : sig) (l0 : list (gval * gval)) (off0 : N) {struct l0} : list bytes :=
                match l0 with
                | [] => []
                | (key, x) :: r =>
                    (pad off0 (N.max (galign ks0) (galign vs0)) ++
                     tuple_bytes (N.max (galign ks0) (galign vs0)) [ks0; vs0] [gvb e key; pad (len (gvb e key)) (galign vs0) ++ gvb e x])
                    :: eparts ks0 vs0 r (off0 + len (pad off0 (N.max (galign ks0) (galign vs0)) ++
                     tuple_bytes (N.max (galign ks0) (galign vs0)) [ks0; vs0] [gvb e key; pad (len (gvb e key)) (galign vs0) ++ gvb e x]))
                end) ks vs l off = geparts e ks vs l off).
    { induction l as [|[key x] l IH]; intros off; [reflexivity|]. cbn [geparts entry_parts fst snd]. now rewrite IH. }
    rewrite H. reflexivity.
  Qed.
End G.
