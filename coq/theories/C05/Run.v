(* C05/Run.v — line driver for C05 and the GVariant halves of C02 / C04 / C07.
   ser g- <L|B> <pos> dyn|plain|typed:<name> <value tokens...>
   rt  g- <L|B> <pos> dyn|plain|typed:<name> <value tokens...>
   de  g- <L|B> <pos> <nfds> v <hex>  |  de .. s <sig> <hex>  |  de .. t:<name> <hex>
   deD / deK : like de; the generator states that the bytes are a valid encoding of a well-formed value that
               exceeds (deD) / respects (deK) the nesting limits — the specification column is then ERR:D / OK.
   xde       : like de, run by the harness in a forked child (inputs that abort the process). *)
From ZV Require Import Base.Bytes Base.Res Base.Sig Base.SigParse Base.Utf8 DBus.Val DBus.Spec DBus.Ser DBus.De
  C05.Val C05.Spec C05.Model C05.DeModel C05.Classes.
Local Open Scope N_scope.

Definition endian_of (t : bytes) : endian := if lbeq t (B "B") then BE else LE.
Definition err_tok (e : cerr) : bytes := match e with EDepth _ => B "ERR:D" | _ => B "ERR" end.
Definition colon : bytes := B ":".

(* encoded bytes as printed by `ser`: in full up to 1024 bytes, otherwise length, Adler-32, first 16 and last 48 bytes *)
Fixpoint adler (l : bytes) (a c : N) : N :=
  match l with
  | [] => c * 65536 + a
  | x :: r => let a' := (a + bn x) mod 65521 in adler r a' ((c + a') mod 65521)
  end.
Definition dot : bytes := B ".".
Definition obs_bytes (b : bytes) : bytes :=
  if len b <=? 1024 then hext b
  else B "#" ++ dec_of_N (len b) ++ dot ++ dec_of_N (adler b 1 0) ++ dot ++ hex_of_bytes (takeN 16 b) ++ dot
       ++ hex_of_bytes (dropN (len b - 48) b).

(* hex token; segments separated by '.', a segment HEX*N stands for N copies *)
Fixpoint repeat_bytes (n : nat) (b acc : bytes) : bytes :=
  match n with O => acc | S k => repeat_bytes k b (b ++ acc) end.
Definition ghex_seg (t : bytes) : option bytes :=
  match split_on "*"%byte t with
  | [h] => bytes_of_hex h
  | [h; n] => match bytes_of_hex h, N_of_dec n with
              | Some b, Some k => Some (repeat_bytes (N.to_nat k) b [])
              | _, _ => None
              end
  | _ => None
  end.
Definition ghexs (t : bytes) : option bytes :=
  if lbeq t (B "-") then Some []
  else fold_right (fun seg acc => match ghex_seg seg, acc with Some b, Some r => Some (b ++ r) | _, _ => None end)
                  (Some []) (split_on "."%byte t).

Definition ser_obs (r : res cerr (bytes * list N)) (z : res cerr (N * N)) : bytes :=
  match r, z with
  | Ok (b, fds), Ok (n, k) => B "OK:" ++ obs_bytes b ++ colon ++ dec_of_N n ++ colon ++ dec_of_N (N.of_nat (length fds)) ++ colon ++ dec_of_N k
  | Panic _, _ | _, Panic _ => B "PANIC"
  | Err e, _ => err_tok e
  | _, Err e => err_tok e
  end.

(* dyn: the value inside a variant (to_bytes(&Value)); plain / typed: the value with its own signature *)
Definition top_of (mode : bytes) (v : gval) : gval := if lbeq mode (B "dyn") then GVariant v else v.

Definition run_ser (e : endian) (pos : N) (mode : bytes) (ts : list bytes) : outp :=
  match gval_of_tokens ts with
  | None => bad_case
  | Some v =>
      let top := top_of mode v in
      let m := ser_obs (gser_top e pos (gsig top) (sval_of top)) (gsize_top e pos (gsig top) (sval_of top)) in
      let s := if gwf top && negb (gwithin_limits top) then B "ERR:D"
               else if gwf top then
                 let b := gv_marshal e pos top in
                 B "OK:" ++ obs_bytes b ++ colon ++ dec_of_N (len b) ++ colon ++ dec_of_N (gnfds top) ++ colon ++ dec_of_N (gnfds top)
               else dash in
      {| o_model := m; o_spec := s; o_class := class_c05 e top |}
  end.

Definition reenc (e : endian) (pos : N) (top : gval) : bytes :=
  match gser_top e pos (gsig top) (sval_of top) with
  | Ok _ => B "Rok"
  | Err _ => B "Rerr"
  | Panic _ => B "Rpanic"
  end.

Definition seqN (n : N) : list N := map N.of_nat (seq 0 (N.to_nat n)).

Definition de_obs (e : endian) (pos : N) (wrap : gval -> gval) (r : res cerr (gval * N)) : bytes :=
  match r with
  | Ok (v, n) => let cv := gcanon v in
                 B "OK:" ++ dec_of_N n ++ colon ++ gval_text (wrap cv) ++ colon ++ reenc e pos (wrap cv)
  | Err x => err_tok x
  | Panic PStack => B "ABORT"
  | Panic _ => B "PANIC"
  end.

(* the panics of the decoder model: only the signature parser's recursion is left (PArith was the tuple framing-offset
   read, class struct_offset_underflow, repaired by commit b5246470; no path of the model yields it any more) *)
Definition panic_class {A} (r : res cerr A) : bytes :=
  match r with
  | Panic PStack => B "sig_parse_stack"
  | Panic _ => B "other_panic"
  | _ => dash
  end.

Definition run_de (e : endian) (pos : N) (nf : N) (spec : bytes) (rest : list bytes) : outp :=
  match rest with
  | [m; h] =>
      match ghexs h with
      | None => bad_case
      | Some b =>
          if lbeq m (B "v") then
            let r := gde_value_top e pos b (seqN nf) in
            {| o_model := de_obs e pos GVariant r; o_spec := spec; o_class := panic_class r |}
          else match m with
               | "t"%byte :: ":"%byte :: name =>
                   match parse_sig true name with
                   | Some g => let r := gde_typed_top e pos g b (seqN nf) in
                               {| o_model := de_obs e pos (fun v => v) r; o_spec := spec; o_class := panic_class r |}
                   | None => bad_case
                   end
               | _ => bad_case
               end
      end
  | [m; g; h] =>
      if lbeq m (B "s") then
        match sig_of_tok true g, ghexs h with
        | Some gs, Some b => let r := gde_struct_top e pos gs b (seqN nf) in
                             {| o_model := de_obs e pos (fun v => v) r; o_spec := spec; o_class := panic_class r |}
        | None, Some _ => {| o_model := B "ERR"; o_spec := spec; o_class := dash |}   (* signature does not parse *)
        | _, None => bad_case
        end
      else bad_case
  | _ => bad_case
  end.

(* rt: encode, decode what was produced, compare with the original (Value equality on canonical forms) *)
Definition run_rt (e : endian) (pos : N) (mode : bytes) (ts : list bytes) : outp :=
  match gval_of_tokens ts with
  | None => bad_case
  | Some v =>
      let dyn := lbeq mode (B "dyn") in
      let plain := lbeq mode (B "plain") in
      let top := top_of mode v in
      let m :=
        match gser_top e pos (gsig top) (sval_of top) with
        | Ok (b, fds) =>
            (* dyn: deserialize::<Value>; plain: through a Structure (a non-struct signature is wrapped); typed: T *)
            let '(r, want) :=
              if dyn then (match gde_value_top e pos b fds with Ok (y, n) => Ok (GVariant y, n) | Err z => Err z | Panic p => Panic p end, top)
              else if plain then (gde_struct_top e pos (gsig v) b fds, match v with GStruct _ => v | _ => GStruct [v] end)
              else (gde_typed_top e pos (gsig v) b fds, v) in
            match r with
            | Ok (y, n) => B "OK:" ++ dec_of_N (len b) ++ colon ++ dec_of_N n ++ colon
                           ++ bool_tok (lbeq (gval_text (gcanon y)) (gval_text (gcanon want)))
            | Err z => B "DE" ++ err_tok z
            | Panic _ => B "PANIC"
            end
        | Err z => err_tok z
        | Panic _ => B "PANIC"
        end in
      let s := if gwf top && negb (gwithin_limits top) then B "ERR:D"
               else if gwf top then B "RT"
               else dash in
      {| o_model := m; o_spec := s; o_class := class_c02 e top |}
  end.

(* Base.Bytes.words with a linear-time reversal (hostile inputs are long single tokens) *)
Fixpoint fsplit (l cur : bytes) : list bytes :=
  match l with
  | [] => [frev cur]
  | c :: r => if beq c sp then frev cur :: fsplit r [] else fsplit r (c :: cur)
  end.
Definition fwords (l : bytes) : list bytes := filter (fun w => match w with [] => false | _ => true end) (fsplit l []).

Definition run_case (line : bytes) : outp :=
  match fwords line with
  | cmd :: ct :: et :: pt :: rest =>
      match N_of_dec pt with
      | None => bad_case
      | Some pos =>
          let e := endian_of et in
          let de_with (spec : bytes) :=
            match rest with
            | nf :: r => match N_of_dec nf with Some k => run_de e pos k spec r | None => bad_case end
            | [] => bad_case
            end in
          if lbeq cmd (B "ser") then
            match rest with mode :: ts => run_ser e pos mode ts | [] => bad_case end
          else if lbeq cmd (B "rt") then
            match rest with mode :: ts => run_rt e pos mode ts | [] => bad_case end
          else if lbeq cmd (B "de") || lbeq cmd (B "xde") then de_with (B "NP")
          else if lbeq cmd (B "deD") then de_with (B "ERR:D")
          else if lbeq cmd (B "deK") then de_with (B "OK")
          else bad_case
      end
  | _ => bad_case
  end.

Definition run (line : bytes) : bytes := render (run_case line).
