(* C05/RtProofs.v — C02, GVariant half: the deserializer model reads back what the format prescribes (and, outside the
   known classes, what the serializer model writes): decode (encode v) = v, consuming exactly the encoding.
   All types (fixed-size types, strings, object paths, signatures, variants, maybes, arrays, tuples, dicts); values outside
   the known classes of C05, without descriptors; the type string of a variant's payload at most stack_limit bytes. *)
From ZV Require Import Base.Bytes Base.Res Base.Sig Base.SigParse Base.Utf8 DBus.Val DBus.Spec DBus.Ser DBus.De DBus.SerFacts
  C05.Val C05.Spec C05.Model C05.DeModel C05.Classes C05.Facts C05.SigFacts C05.SerProofs C05.DeProofs C05.RtFacts.
From ZV Require DBus.DeCompleteFacts DBus.SerProofs.
From Coq Require Import Lia.
Local Open Scope N_scope.

(* nesting height: the recursion fuel the decoder needs *)
Fixpoint gheight (v : gval) : nat :=
  match v with
  | GVariant x => S (gheight x)
  | GMaybe _ (Some x) => S (gheight x)
  | GArray _ l | GStruct l => S ((fix go (l : list gval) : nat := match l with [] => 0%nat | x :: r => Nat.max (gheight x) (go r) end) l)
  | GDict _ _ l => S ((fix go (l : list (gval * gval)) : nat :=
                         match l with [] => 0%nat | (k, x) :: r => Nat.max (Nat.max (gheight k) (gheight x)) (go r) end) l)
  | _ => 1%nat
  end.
Fixpoint gheights (l : list gval) : nat := match l with [] => 0%nat | x :: r => Nat.max (gheight x) (gheights r) end.
Lemma gheight_array el l : gheight (GArray el l) = S (gheights l).
Proof. reflexivity. Qed.
Lemma gheight_struct l : gheight (GStruct l) = S (gheights l).
Proof. reflexivity. Qed.
Lemma gheights_in x l : In x l -> (gheight x <= gheights l)%nat.
Proof. induction l as [|y r IH]; [intros []|]. cbn [gheights]. intros [->|H]; [lia|]. specialize (IH H). lia. Qed.

Lemma twos_lt bits z : twos bits z < 2 ^ bits.
Proof.
  unfold twos. assert (H : (0 < 2 ^ Z.of_N bits)%Z) by (apply Z.pow_pos_nonneg; lia).
  pose proof (Z.mod_pos_bound z (2 ^ Z.of_N bits) H) as [H1 H2].
  apply N2Z.inj_lt. rewrite Z2N.id by assumption. rewrite N2Z.inj_pow. exact H2.
Qed.
Lemma enc_1 e n : n < 256 -> enc e 1 n = [nb n].
Proof. intros H. destruct e; cbn; unfold nb; rewrite N.mod_mod by lia; reflexivity. Qed.

Section R.
  Variable e : endian.

  Definition big : N := 18446744073709551616.

  (* (B) a value of a fixed-size type is read from any window that starts with its (padded) encoding *)
  Definition rt_fixed (v : gval) : Prop := forall fuel st b,
    (gheight v <= fuel)%nat -> r_e st = e -> gwf v = true -> pre e v = true -> gis_fixed (gsig v) = true ->
    r_sig st = gsig v -> dep_ok (r_dep st) -> gfits (r_dep st) v -> r_len st < big ->
    starts st ((pad (r_pos0 st + r_pos st) (galign (gsig v)) ++ gvb e v) ++ b) ->
    exists st', gde fuel st = Ok (v, st') /\
                r_pos st' = r_pos st + len (pad (r_pos0 st + r_pos st) (galign (gsig v)) ++ gvb e v).

  Lemma fixed_num_run fuel st b (n : nat) x (k : N -> gval) :
    gde (S fuel) st = (let* (y, st') := grd_fixed st (N.of_nat n) in Ok (k y, st')) ->
    x < 2 ^ (8 * N.of_nat n) -> r_e st = e ->
    starts st ((pad (r_pos0 st + r_pos st) (N.of_nat n) ++ enc e n x) ++ b) ->
    exists st', gde (S fuel) st = Ok (k x, st') /\
                r_pos st' = r_pos st + len (pad (r_pos0 st + r_pos st) (N.of_nat n) ++ enc e n x).
  Proof.
    intros Heq Hx He Hst. rewrite Heq. rewrite <- app_assoc in Hst. rewrite <- He in Hst.
    rewrite (grd_fixed_starts st n x b Hx Hst). cbn [bind]. eexists. split; [reflexivity|].
    cbn [adv r_pos]. rewrite len_app, len_pad, len_enc. reflexivity.
  Qed.

  Ltac fixed_pre :=
    intros fuel st b Hfuel He Hw Hp Hfx Hs Hd Hf Hl Hst; destruct fuel as [|f]; [cbn in Hfuel; lia|];
    cbn [gsig galign gvb gwf] in *.
  Ltac gde_eq Hs := unfold gde; cbn [gde_gen]; rewrite Hs; reflexivity.

  Lemma rt_fixed_u16 n : rt_fixed (GU16 n).
  Proof. fixed_pre. apply N.ltb_lt in Hw. apply (fixed_num_run f st b 2 n GU16); try assumption; try (gde_eq Hs); cbn; lia. Qed.
  Lemma rt_fixed_u32 n : rt_fixed (GU32 n).
  Proof. fixed_pre. apply N.ltb_lt in Hw. apply (fixed_num_run f st b 4 n GU32); try assumption; try (gde_eq Hs); cbn; lia. Qed.
  Lemma rt_fixed_u64 n : rt_fixed (GU64 n).
  Proof. fixed_pre. apply N.ltb_lt in Hw. apply (fixed_num_run f st b 8 n GU64); try assumption; try (gde_eq Hs); cbn; lia. Qed.
  Lemma rt_fixed_f64 n : rt_fixed (GF64 n).
  Proof. fixed_pre. apply N.ltb_lt in Hw. apply (fixed_num_run f st b 8 n GF64); try assumption; try (gde_eq Hs); cbn; lia. Qed.
  Lemma rt_fixed_u8 n : rt_fixed (GU8 n).
  Proof.
    fixed_pre. apply N.ltb_lt in Hw. rewrite <- (enc_1 e n Hw) in *.
    apply (fixed_num_run f st b 1 n GU8); try assumption; try (gde_eq Hs); cbn; lia.
  Qed.
  Lemma rt_fixed_i16 z : rt_fixed (GI16 z).
  Proof.
    fixed_pre. apply andb_true_iff in Hw as [H1 H2]. apply Z.leb_le in H1. apply Z.ltb_lt in H2.
    destruct (fixed_num_run f st b 2 (twos 16 z) (fun x => GI16 (untwos 16 x))) as (st' & H3 & H4); try assumption;
      [gde_eq Hs|apply twos_lt|].
    exists st'. split; [|assumption]. rewrite H3. rewrite DeCompleteFacts.untwos_twos; [reflexivity|lia|]. cbn. lia.
  Qed.
  Lemma rt_fixed_i32 z : rt_fixed (GI32 z).
  Proof.
    fixed_pre. apply andb_true_iff in Hw as [H1 H2]. apply Z.leb_le in H1. apply Z.ltb_lt in H2.
    destruct (fixed_num_run f st b 4 (twos 32 z) (fun x => GI32 (untwos 32 x))) as (st' & H3 & H4); try assumption;
      [gde_eq Hs|apply twos_lt|].
    exists st'. split; [|assumption]. rewrite H3. rewrite DeCompleteFacts.untwos_twos; [reflexivity|lia|]. cbn. lia.
  Qed.
  Lemma rt_fixed_i64 z : rt_fixed (GI64 z).
  Proof.
    fixed_pre. apply andb_true_iff in Hw as [H1 H2]. apply Z.leb_le in H1. apply Z.ltb_lt in H2.
    destruct (fixed_num_run f st b 8 (twos 64 z) (fun x => GI64 (untwos 64 x))) as (st' & H3 & H4); try assumption;
      [gde_eq Hs|apply twos_lt|].
    exists st'. split; [|assumption]. rewrite H3. rewrite DeCompleteFacts.untwos_twos; [reflexivity|lia|]. cbn. lia.
  Qed.

  (* a window that starts with bytes [b] : the sub-deserializer over the rest of the slice *)
  Lemma sub_starts st hi g d b : r_pos st <= hi -> hi <= r_len st ->
    (exists tail, r_rest st = b ++ tail) -> r_pos st + len b <= hi ->
    exists sub, gsub st (r_pos st) hi (r_pos st) g d = Ok sub /\ starts sub b /\ r_pos sub = 0 /\
                r_len sub = hi - r_pos st /\ r_pos0 sub = r_pos0 st + r_pos st /\ r_e sub = r_e st /\
                r_sig sub = g /\ r_dep sub = d /\ r_fds sub = r_fds st.
  Proof.
    intros H1 H2 (t & Ht) H3. rewrite gsub_here by assumption. eexists. split; [reflexivity|]. cbn.
    repeat split; try reflexivity. exists t. cbn. split; [assumption|lia].
  Qed.

  (* members of a fixed-size tuple, read one after the other from windows that extend to the end of the slice *)
  Lemma struct_loop_fixed l : Forall rt_fixed l -> forall fuel st start w off acc b A,
    (gheights l <= fuel)%nat -> r_e st = e -> forallb gwf l = true -> forallb (pre e) l = true ->
    forallb gis_fixed (map gsig l) = true ->
    dep_ok (r_dep st) -> forallb (gdepth_ok (d_struct (r_dep st)) (d_array (r_dep st)) (dtot (r_dep st))) l = true ->
    r_len st < big -> r_pos st = start + off ->
    A <> 0 -> (r_pos0 st + start) mod A = 0 -> (forall x, In x l -> A mod galign (gsig x) = 0) ->
    starts st (concat (gparts e l off) ++ b) ->
    exists st', struct_loop (gde fuel) read_last_checked start w (map gsig l) st (r_len st) 0 acc = Ok (frev acc ++ l, st') /\
                r_pos st' = r_pos st + len (concat (gparts e l off)) /\ r_len st' = r_len st.
  Proof.
    induction 1 as [|x l Hx Hl IH]; intros fuel st start w off acc b A Hfuel He Hw Hp Hfx Hd Hf Hlen Hpos HA Hal Hdiv Hst.
    - cbn [map struct_loop gparts concat]. eexists. rewrite app_nil_r, len_nil, N.add_0_r. repeat split; reflexivity.
    - cbn [forallb map gheights] in *.
      apply andb_true_iff in Hw as [Hwx Hw]. apply andb_true_iff in Hp as [Hpx Hp]. apply andb_true_iff in Hf as [Hfitx Hf].
      apply andb_true_iff in Hfx as [Hfxx Hfx].
      cbn [struct_loop]. change fixed_sized with gis_fixed. rewrite Hfxx. cbn [bind].
      cbn [gparts concat] in Hst. rewrite <- app_assoc in Hst.
      set (px := pad off (galign (gsig x)) ++ gvb e x) in *.
      destruct Hst as (t & Ht & Hbound). rewrite !len_app in Hbound.
      destruct (sub_starts st (r_len st) (gsig x) (r_dep st) (px ++ concat (gparts e l (off + len px)) ++ b))
        as (sub & Hsub & Hss & Hs0 & Hsl & Hsp0 & Hse & Hssig & Hsdep & _); try lia.
      { exists t. exact Ht. }
      { rewrite !len_app. lia. }
      rewrite Hsub. cbn [bind].
      assert (Hax : (r_pos0 st + start) mod galign (gsig x) = 0).
      { apply (mod_trans _ A); try assumption; [apply galign_nz|]. apply Hdiv. now left. }
      assert (Hpadx : pad (r_pos0 sub + r_pos sub) (galign (gsig x)) = pad off (galign (gsig x))).
      { rewrite Hsp0, Hs0, N.add_0_r, Hpos. rewrite N.add_assoc. now apply pad_shift; [apply galign_nz|]. }
      destruct (Hx fuel sub (concat (gparts e l (off + len px)) ++ b)) as (sub' & Hdec & Hsub'); try assumption.
      { lia. } { congruence. } { now rewrite Hsdep. } { unfold gfits. now rewrite Hsdep. } { lia. }
      { rewrite Hpadx. exact Hss. }
      rewrite Hdec. cbn [bind]. rewrite Hpadx in Hsub'. fold px in Hsub'. rewrite Hs0, N.add_0_l in Hsub'. rewrite Hsub'.
      set (stn := if match map gsig l with [] => true | _ :: _ => false end
                  then adv (rset_dep (adv st (len px)) (dec_struct (r_dep (adv st (len px))))) 0 else adv st (len px)).
      assert (Hstn : r_pos stn = r_pos st + len px /\ r_len stn = r_len st /\ r_e stn = r_e st /\ r_pos0 stn = r_pos0 st /\
                     r_rest stn = dropN (len px) (r_rest st) /\
                     (l <> [] -> r_dep stn = r_dep st)).
      { subst stn. destruct l as [|y l']; cbn; repeat split; try reflexivity; try lia; try congruence. }
      destruct Hstn as (Hn1 & Hn2 & Hn3 & Hn4 & Hn5 & Hn6).
      destruct l as [|y l'].
      + (* last member *)
        cbn [map struct_loop gparts concat]. exists stn. repeat split; try assumption.
        * rewrite !frev_rev. reflexivity.
        * rewrite Hn1, app_nil_r. reflexivity.
      + destruct (IH fuel stn start w (off + len px) (x :: acc) b A) as (st' & Hrun & Hp' & Hl'); try assumption; try lia.
        * intros z Hz. apply Hdiv. now right.
        * exists t. rewrite Hn5, Ht. rewrite <- app_assoc, dropN_app_len.
          split; [reflexivity|]. rewrite !len_app in *. lia.
        * rewrite Hn2 in Hrun. exists st'. repeat split.
          -- rewrite Hrun. rewrite !frev_rev. cbn [rev]. now rewrite <- app_assoc.
          -- rewrite Hp', Hn1. change (gparts e (x :: y :: l') off) with (px :: gparts e (y :: l') (off + len px)).
             cbn [concat]. rewrite len_app. lia.
          -- congruence.
  Qed.

  Lemma for_encoded_ok n : n < big -> exists w, for_encoded_container n = Ok w.
  Proof.
    unfold big. intros H. unfold for_encoded_container. rewrite for_bare_cases. rewrite !N.mul_0_l, !N.add_0_r.
    destruct (n <=? 255); [eexists; reflexivity|]. destruct (n <=? 65535); [eexists; reflexivity|].
    destruct (n <=? 4294967295); [eexists; reflexivity|].
    destruct (N.leb_spec n 18446744073709551615); [eexists; reflexivity|lia].
  Qed.
  Lemma gparse_padding_aligned st al : al <> 0 -> (r_pos0 st + r_pos st) mod al = 0 -> gparse_padding st al = Ok st.
  Proof. intros Ha H. unfold gparse_padding. rewrite (padn_aligned _ _ Ha H). reflexivity. Qed.

  Lemma rt_fixed_struct l : Forall rt_fixed l -> rt_fixed (GStruct l).
  Proof.
    intros HF fuel st b Hfuel He Hw Hp Hfx Hs Hd Hf Hl Hst.
    destruct fuel as [|f]; [cbn in Hfuel; lia|]. rewrite gheight_struct in Hfuel.
    pose proof (pre_align e _ Hp Hw) as Hal. cbn [gsig] in Hal, Hs, Hfx, Hst |- *.
    destruct (pre_node e _ Hp) as (_ & Hnt & _ & _).
    cbn [gwf] in Hw. apply andb_true_iff in Hw as [Hnel Hwl].
    unfold pre in Hp. rewrite all_nodes_struct in Hp. apply andb_true_iff in Hp as [_ Hpl].
    unfold gfits in Hf. cbn [gdepth_ok] in Hf. apply andb_true_iff in Hf as [Hf Hfl]. apply andb_true_iff in Hf as [Hf1 Hf2].
    apply N.leb_le in Hf1, Hf2.
    destruct (inc_struct_good _ Hd Hf1 Hf2) as (d' & Hinc & Hd' & Hs' & Ha' & Ht').
    set (sigs := map gsig l) in *. rewrite galign_struct in *. set (A := galigns sigs) in *.
    assert (HA : A <> 0) by apply galigns_nz.
    change (gis_fixed (SStruct sigs)) with (forallb gis_fixed sigs) in Hfx.
    (* the bytes: no framing offsets, and no final padding outside the tail_padding class *)
    assert (Hgvb : gvb e (GStruct l) = concat (gparts e l 0)).
    { rewrite gvb_struct. fold sigs A.
      assert (Hsne : sigs <> []) by (subst sigs; destruct l; [discriminate|discriminate]).
      assert (Htb : forall pss, tuple_bytes A sigs pss =
                 if forallb gis_fixed sigs then concat pss ++ pad (len (concat pss)) A
                 else concat pss ++ framing (len (concat pss)) (rev (tuple_offsets sigs (ends_from 0 pss)))).
      { intros pss. unfold tuple_bytes. destruct sigs; [congruence|reflexivity]. }
      rewrite Htb, Hfx. cbn [node_tail] in Hnt. fold sigs A in Hnt. rewrite Hfx in Hnt. cbn [andb] in Hnt.
      apply negb_false_iff, N.eqb_eq in Hnt. unfold pad. rewrite Hnt. cbn. now rewrite app_nil_r. }
    rewrite Hgvb in *. set (data := concat (gparts e l 0)) in *.
    set (p := padn (r_pos0 st + r_pos st) A).
    unfold gde. rewrite (gde_gen_struct read_last_checked f st sigs Hs). rewrite Hs, Hal.
    rewrite <- app_assoc in Hst. rewrite (gparse_padding_starts st A _ Hst). cbn [bind]. fold p.
    apply starts_after_pad in Hst. fold p in Hst.
    assert (Hal2 : (r_pos0 (adv st p) + r_pos (adv st p)) mod A = 0).
    { cbn [adv r_pos0 r_pos]. rewrite N.add_assoc. subst p. now apply padn_after. }
    change (r_sig (adv st p)) with (r_sig st). rewrite Hs, Hal.
    rewrite (gparse_padding_aligned _ _ HA Hal2). cbn [bind].
    change (r_dep (adv st p)) with (r_dep st). rewrite Hinc. cbn [bind]. cbv zeta.
    cbn [rset_dep r_pos r_len adv].
    destruct Hst as (t & Ht & Hbound). cbn [adv r_pos r_rest r_len] in Ht, Hbound.
    assert (Hb2 : r_pos st + p + len data <= r_len st) by (rewrite len_app in Hbound; unfold bytes in *; lia).
    unfold big in Hl.
    destruct (N.ltb_spec (r_len st) (r_pos st + p)); [lia|].
    destruct (for_encoded_ok (r_len st - (r_pos st + p))) as [w Hw']; [unfold big; lia|]. rewrite Hw'. cbn [bind].
    set (st2 := rset_dep (adv st p) d').
    destruct (struct_loop_fixed l HF f st2 (r_pos st + p) w 0 [] b A) as (st' & Hrun & Hp' & Hl'); subst st2; cbn [rset_dep adv r_e r_dep r_len r_pos r_pos0 r_rest]; try assumption; try lia.
    - rewrite Hs', Ha', Ht'. assumption.
    - intros x Hx. apply pow2_div; [apply galigns_pow2|apply galign_pow2|]. apply galigns_ge. subst sigs. now apply in_map.
    - exists t. split; [exact Ht|exact Hbound].
    - cbn [rset_dep adv r_len] in Hrun. unfold gde in Hrun. change (map gsig l) with sigs in Hrun.
      rewrite Hrun. cbn [bind frev rev_append app]. exists st'. split; [reflexivity|].
      cbn [rset_dep adv r_pos] in Hp'. rewrite Hp'. rewrite len_app, len_pad. fold p data. lia.
  Qed.

  Theorem rt_fixed_all : forall v, rt_fixed v.
  Proof.
    induction v using gval_ind';
      try (intros fuel st bb Hfuel He Hw Hp Hfx; cbn [gsig gis_fixed] in Hfx; discriminate);
      first [apply rt_fixed_u8 | apply rt_fixed_i16 | apply rt_fixed_u16 | apply rt_fixed_i32 | apply rt_fixed_u32
            | apply rt_fixed_i64 | apply rt_fixed_u64 | apply rt_fixed_f64 | now apply rt_fixed_struct | idtac].
    (* what is left: descriptors, excluded by [pre] *)
    all: intros fuel st bb Hfuel He Hw Hp; unfold pre in Hp; cbn [all_nodes] in Hp; unfold node_pre in Hp;
      rewrite andb_true_r in Hp; apply andb_true_iff in Hp as [_ Hp]; discriminate.
  Qed.

  (* ---------- (A) any value of the fragment is read back from a window that is exactly its (padded) encoding ---------- *)
  Definition node_rt (v : gval) : bool :=
    match v with
    | GVariant x => len (show (gsig x)) <=? stack_limit
    | _ => true
    end.
  Definition rtok (v : gval) : bool := all_nodes node_rt v.

  Definition rt (v : gval) : Prop := forall fuel st,
    (gheight v <= fuel)%nat -> r_e st = e -> gwf v = true -> pre e v = true -> rtok v = true ->
    r_sig st = gsig v -> dep_ok (r_dep st) -> gfits (r_dep st) v -> r_len st < big ->
    holds st (pad (r_pos0 st + r_pos st) (galign (gsig v)) ++ gvb e v) ->
    exists st', gde fuel st = Ok (v, st') /\ r_pos st' = r_len st.

  Lemma rt_of_fixed v : gis_fixed (gsig v) = true -> rt v.
  Proof.
    intros Hfx fuel st Hfuel He Hw Hp Hr Hs Hd Hf Hl Hst.
    destruct (rt_fixed_all v fuel st [] Hfuel He Hw Hp Hfx Hs Hd Hf Hl) as (st' & H1 & H2).
    { rewrite app_nil_r. now apply holds_starts. }
    exists st'. split; [assumption|]. destruct Hst as (t & _ & Hb). lia.
  Qed.

  Lemma strip_nul_app s : strip_nul (s ++ [x00]) = s.
  Proof.
    unfold strip_nul. destruct (s ++ [x00]) eqn:Hl; [destruct s; discriminate|]. rewrite <- Hl.
    rewrite last_last. cbn. apply removelast_last.
  Qed.

  Lemma str_run st s : r_sig st = SStr \/ r_sig st = SSig \/ r_sig st = SObjPath ->
    nul_free s = true -> utf8_valid s = true -> holds st (s ++ [x00]) ->
    gde_str st = Ok (s, adv st (r_len st - r_pos st)).
  Proof.
    intros Hs Hn Hu (t & Ht & Hb). unfold gde_str.
    assert (Hlen : r_len st - r_pos st = len (s ++ [x00])) by lia.
    assert (Hcore : (if r_len st <? r_pos st then Err EBounds
                     else let n := r_len st - r_pos st in let slice := takeN n (r_rest st) in let st' := adv st n in
                          let s0 := strip_nul slice in
                          if negb (nul_free s0) then Err EValue else if utf8_valid s0 then Ok (s0, st') else Err EUtf8)
                    = Ok (s, adv st (r_len st - r_pos st))).
    { destruct (N.ltb_spec (r_len st) (r_pos st)); [lia|]. cbv zeta. rewrite Hlen, Ht, takeN_app_len, strip_nul_app, Hn, Hu. reflexivity. }
    destruct Hs as [Hs|[Hs|Hs]]; rewrite Hs; exact Hcore.
  Qed.

  Lemma rt_str s : rt (GStr s).
  Proof.
    intros fuel st Hfuel He Hw Hp Hr Hs Hd Hf Hl Hst. destruct fuel as [|f]; [cbn in Hfuel; lia|].
    cbn [gsig galign gvb gwf] in *. rewrite pad_1 in Hst. cbn [app] in Hst.
    unfold gstr_ok in Hw. apply andb_true_iff in Hw as [Hn Hu].
    unfold gde. cbn [gde_gen]. rewrite Hs. rewrite (str_run st s) by (tauto || assumption). cbn [bind gstr_value].
    eexists. split; [reflexivity|]. destruct Hst as (t & _ & Hb). cbn [adv r_pos]. lia.
  Qed.
  Lemma rt_path s : rt (GPath s).
  Proof.
    intros fuel st Hfuel He Hw Hp Hr Hs Hd Hf Hl Hst. destruct fuel as [|f]; [cbn in Hfuel; lia|].
    cbn [gsig galign gvb gwf] in *. rewrite pad_1 in Hst. cbn [app] in Hst.
    pose proof (DeCompleteFacts.path_ascii s Hw) as Ha.
    unfold gde. cbn [gde_gen]. rewrite Hs.
    rewrite (str_run st s); try assumption; [|tauto|now apply DeCompleteFacts.ascii_nul_free|now apply DeCompleteFacts.ascii_utf8].
    cbn [bind gstr_value]. rewrite Hw. cbn [bind].
    eexists. split; [reflexivity|]. destruct Hst as (t & _ & Hb). cbn [adv r_pos]. lia.
  Qed.

  Lemma parse_sigval g : gsigval_ok g = true -> parse_sig true (show g) = Some g.
  Proof.
    unfold gsigval_ok. destruct g; try (intros H; now apply parse_show_gv); try reflexivity.
    intros H. apply andb_true_iff in H as [H1 H2]. apply parse_show_gv. cbn [gsingle_ok].
    destruct fs; [discriminate|]. cbn [andb]. exact H1.
  Qed.
  Lemma rt_sigv g np : rt (GSigv g np).
  Proof.
    intros fuel st Hfuel He Hw Hp Hr Hs Hd Hf Hl Hst. destruct fuel as [|f]; [cbn in Hfuel; lia|].
    unfold pre in Hp. cbn [all_nodes] in Hp. unfold node_pre in Hp. rewrite andb_true_r in Hp.
    apply andb_true_iff in Hp as [_ Hp]. destruct np; [discriminate|].
    cbn [gsig galign gvb gwf] in *. rewrite pad_1 in Hst. cbn [app] in Hst.
    apply andb_true_iff in Hw as [Hw _].
    pose proof (DeCompleteFacts.ascii_show g) as Ha.
    unfold gde. cbn [gde_gen]. rewrite Hs.
    rewrite (str_run st (show g)); try assumption; [|tauto|now apply DeCompleteFacts.ascii_nul_free|now apply DeCompleteFacts.ascii_utf8].
    cbn [bind gstr_value]. rewrite (parse_sigval g Hw). rewrite DeCompleteFacts.lbeq_refl. cbn [bind negb].
    eexists. split; [reflexivity|]. destruct Hst as (t & _ & Hb). cbn [adv r_pos]. lia.
  Qed.

  Lemma holds_nil st : holds st [] -> r_pos st = r_len st.
  Proof. intros (t & _ & H). cbn in H. lia. Qed.

  Lemma rtok_child_maybe cs x : rtok (GMaybe cs (Some x)) = true -> rtok x = true.
  Proof. unfold rtok. cbn [all_nodes node_rt andb]. tauto. Qed.

  Lemma rt_nothing cs : rt (GMaybe cs None).
  Proof.
    intros fuel st Hfuel He Hw Hp Hr Hs Hd Hf Hl Hst. destruct fuel as [|f]; [cbn in Hfuel; lia|].
    pose proof (pre_align e _ Hp Hw) as Hal. cbn [gsig galign gvb] in *.
    unfold gde. cbn [gde_gen]. rewrite Hs, Hal.
    rewrite (gparse_padding_starts st (galign cs) []) by (now apply holds_starts). cbn [bind]. cbv zeta.
    apply holds_after_pad in Hst. apply holds_nil in Hst. rewrite Hst. change (r_len (adv st _)) with (r_len st).
    rewrite N.eqb_refl. eexists. split; [reflexivity|]. exact Hst.
  Qed.

  Lemma rt_just cs x : rt x -> rt (GMaybe cs (Some x)).
  Proof.
    intros IH fuel st Hfuel He Hw Hp Hr Hs Hd Hf Hl Hst. destruct fuel as [|f]; [cbn in Hfuel; lia|].
    cbn [gheight] in Hfuel.
    pose proof (pre_align e _ Hp Hw) as Hal. cbn [gsig galign gvb] in *.
    cbn [gwf] in Hw. apply andb_true_iff in Hw as [Hw Hsx]. apply andb_true_iff in Hw as [Hcs Hwx]. apply sig_eqb_eq in Hsx.
    unfold pre in Hp. cbn [all_nodes] in Hp. apply andb_true_iff in Hp as [Hn Hpx]. fold (pre e x) in Hpx.
    apply rtok_child_maybe in Hr.
    unfold gfits in Hf. cbn [gdepth_ok] in Hf. apply andb_true_iff in Hf as [Hf1 Hf2]. apply N.leb_le in Hf1.
    destruct (inc_maybe_good _ Hd Hf1) as (d' & Hinc & Hdec & Hd' & Hs' & Ha' & Ht').
    set (p := padn (r_pos0 st + r_pos st) (galign cs)).
    unfold gde. cbn [gde_gen]. rewrite Hs, Hal.
    rewrite (gparse_padding_starts st (galign cs) _ (holds_starts _ _ Hst)). cbn [bind]. cbv zeta. fold p.
    apply holds_after_pad in Hst. fold p in Hst.
    change fixed_sized with gis_fixed.
    destruct Hst as (t & Ht & Hb). cbn [adv r_pos r_rest r_len] in *.
    assert (Hal2 : (r_pos0 st + (r_pos st + p)) mod galign (gsig x) = 0).
    { rewrite Hsx, N.add_assoc. subst p. apply padn_after, galign_nz. }
    destruct (gis_fixed cs) eqn:Hfx.
    - (* fixed-size child: the whole rest of the slice *)
      rewrite app_nil_r in Ht, Hb.
      assert (Hne : 1 <= len (gvb e x)) by (apply fixed_nonempty; [assumption|now rewrite Hsx]).
      destruct (N.eqb_spec (r_pos st + p) (r_len st)); [lia|]. cbn [bind].
      destruct (sub_starts (adv st p) (r_len st) cs (r_dep st) (gvb e x)) as (sub & Hsub & Hss & Hs0 & Hsl & Hsp0 & Hse & Hssig & Hsdep & _);
        cbn [adv r_pos r_len r_rest]; try lia.
      { exists t. exact Ht. }
      change (r_dep (adv st p)) with (r_dep st). cbn [adv r_pos r_len r_pos0 r_e] in *. rewrite Hsub. cbn [bind]. rewrite Hinc. cbn [bind].
      destruct (IH f (rset_dep sub d')) as (sub' & Hdec1 & Hpos1); cbn [rset_dep r_e r_sig r_dep r_len r_pos r_pos0 r_rest]; try assumption; try lia.
      + congruence.
      + congruence.
      + unfold gfits. rewrite Hs', Ha', Ht'. assumption.
      + rewrite Hsp0, Hs0, N.add_0_r. rewrite (pad_aligned _ _ (galign_nz _) Hal2). cbn [app].
        destruct Hss as (t2 & Ht2 & Hb2). exists t2. cbn [rset_dep r_pos r_len r_rest]. split; [assumption|]. rewrite Hs0, Hsl. lia.
      + unfold gde in Hdec1. rewrite Hdec1. cbn [bind]. eexists. split; [reflexivity|].
        cbn [adv r_pos]. cbn [rset_dep r_len] in Hpos1. lia.
    - (* variable-size child: followed by one zero byte *)
      rewrite len_app in Hb. change (len [x00]) with 1 in Hb.
      destruct (N.eqb_spec (r_pos st + p) (r_len st)); [lia|].
      destruct (N.eqb_spec (r_len st) 0); [lia|]. cbn [bind].
      destruct (sub_starts (adv st p) (r_len st - 1) cs (r_dep st) (gvb e x)) as (sub & Hsub & Hss & Hs0 & Hsl & Hsp0 & Hse & Hssig & Hsdep & _);
        cbn [adv r_pos r_len r_rest]; try lia.
      { exists ([x00] ++ t). rewrite Ht. now rewrite <- app_assoc. }
      change (r_dep (adv st p)) with (r_dep st). cbn [adv r_pos r_len r_pos0 r_e] in *. rewrite Hsub. cbn [bind]. rewrite Hinc. cbn [bind].
      destruct (IH f (rset_dep sub d')) as (sub' & Hdec1 & Hpos1); cbn [rset_dep r_e r_sig r_dep r_len r_pos r_pos0 r_rest]; try assumption; try lia.
      + congruence.
      + congruence.
      + unfold gfits. rewrite Hs', Ha', Ht'. assumption.
      + rewrite Hsp0, Hs0, N.add_0_r. rewrite (pad_aligned _ _ (galign_nz _) Hal2). cbn [app].
        destruct Hss as (t2 & Ht2 & Hb2). exists t2. cbn [rset_dep r_pos r_len r_rest]. split; [assumption|]. rewrite Hs0, Hsl. lia.
      + unfold gde in Hdec1. rewrite Hdec1. cbn [bind]. cbn [rset_dep r_len] in Hpos1. rewrite Hpos1, Hsl.
        cbn [adv r_pos r_len r_rest].
        destruct (N.leb_spec (r_len st) (r_pos st + p + (r_len st - 1 - (r_pos st + p)))); [lia|].
        rewrite Ht. replace (r_len st - 1 - (r_pos st + p)) with (len (gvb e x)) by lia.
        rewrite <- app_assoc, dropN_app_len. cbn [app is_zero bn].
        eexists. split; [reflexivity|]. cbn [adv r_pos]. lia.
  Qed.

  (* ---------- arrays ---------- *)
  Lemma sig_eqb_refl : forall s, sig_eqb s s = true.
  Proof.
    induction s using sig_ind'; cbn [sig_eqb]; try reflexivity; try assumption.
    - now rewrite IHs1, IHs2.
    - induction H as [|x l Hx Hl IH]; [reflexivity|]. now rewrite Hx, IH.
  Qed.

  Lemma arr_loop_fixed l : forall fuel (k : nat) st a c acc off,
    (length l < k)%nat -> (gheights l <= fuel)%nat -> r_e st = e ->
    forallb (fun x => gwf x && sig_eqb (gsig x) c) l = true -> forallb (pre e) l = true ->
    gis_fixed c = true -> a_child a = c -> a_offs a = None -> a_offs_len a = 0 ->
    dep_ok (r_dep st) -> forallb (gdepth_ok (d_struct (r_dep st)) (d_array (r_dep st)) (dtot (r_dep st))) l = true ->
    r_len st < big -> a_start a + a_len a = r_len st -> r_pos st = a_start a + off ->
    (r_pos0 st + a_start a) mod galign c = 0 ->
    holds st (concat (gparts e l off)) ->
    exists st', arr_loop (gde fuel) a c k None st acc = Ok (frev acc ++ l, st') /\ r_pos st' = r_len st.
  Proof.
    induction l as [|x l IH]; intros fuel k st a c acc off Hk Hfuel He Hw Hp Hfx Hch Hoffs Hol Hd Hf Hlen Hend Hpos Hal Hst;
      (destruct k as [|k]; [cbn in Hk; lia|]); cbn [arr_loop].
    - cbn [gparts concat] in Hst. apply holds_nil in Hst. unfold garr_done. rewrite Hend, Hst, N.eqb_refl.
      eexists. split; [now rewrite app_nil_r|]. unfold garr_finish. rewrite Hol. cbn [rset_dep adv r_pos]. lia.
    - cbn [forallb gheights length] in *.
      apply andb_true_iff in Hw as [Hwx Hw]. apply andb_true_iff in Hwx as [Hwx Hsx]. apply sig_eqb_eq in Hsx.
      apply andb_true_iff in Hp as [Hpx Hp]. apply andb_true_iff in Hf as [Hfitx Hf].
      cbn [gparts concat] in Hst. set (px := pad off (galign (gsig x)) ++ gvb e x) in *.
      destruct Hst as (t & Ht & Hb). rewrite len_app in Hb.
      assert (Hne : 1 <= len (gvb e x)) by (apply fixed_nonempty; [assumption|now rewrite Hsx]).
      assert (Hpx1 : 1 <= len px) by (subst px; rewrite len_app; lia).
      unfold garr_done. destruct (N.eqb_spec (r_pos st) (a_start a + a_len a)); [lia|].
      rewrite Hend.
      destruct (sub_starts st (r_len st) (a_child a) (r_dep st) (px ++ concat (gparts e l (off + len px))))
        as (sub & Hsub & Hss & Hs0 & Hsl & Hsp0 & Hse & Hssig & Hsdep & _); try lia.
      { exists t. exact Ht. } { rewrite len_app. lia. }
      rewrite Hsub. cbn [bind].
      assert (Hpadx : pad (r_pos0 sub + r_pos sub) (galign (gsig x)) = pad off (galign (gsig x))).
      { rewrite Hsp0, Hs0, N.add_0_r, Hpos, N.add_assoc. apply pad_shift; [apply galign_nz|now rewrite Hsx]. }
      destruct (rt_fixed_all x fuel sub (concat (gparts e l (off + len px)))) as (sub' & Hdec & Hsub'); try assumption; try lia.
      { congruence. } { now rewrite Hsx. } { congruence. } { now rewrite Hsdep. } { unfold gfits. now rewrite Hsdep. }
      { rewrite Hpadx. exact Hss. }
      rewrite Hdec. cbn [bind]. rewrite Hpadx in Hsub'. fold px in Hsub'. rewrite Hs0, N.add_0_l in Hsub'. rewrite Hsub'.
      cbn [adv r_pos]. destruct (N.ltb_spec (r_len st) (r_pos st + len px)); [lia|].
      rewrite Hsx, sig_eqb_refl. cbn [negb].
      destruct (IH fuel k (adv st (len px)) a c (x :: acc) (off + len px)) as (st' & Hrun & Hp'); cbn [adv r_e r_dep r_len r_pos r_pos0 r_rest]; try assumption; try lia.
      + exists t. cbn [adv r_rest r_pos r_len]. rewrite Ht, <- app_assoc, dropN_app_len. split; [reflexivity|lia].
      + exists st'. split; [|exact Hp']. rewrite Hrun. rewrite !frev_rev. cbn [rev]. now rewrite <- app_assoc.
  Qed.

  Lemma gparts_count_fixed l off c : forallb (fun x => gwf x && sig_eqb (gsig x) c) l = true -> gis_fixed c = true ->
    N.of_nat (length l) <= len (concat (gparts e l off)).
  Proof.
    revert off. induction l as [|x l IH]; intros off Hw Hfx; [cbn; lia|].
    cbn [forallb] in Hw. apply andb_true_iff in Hw as [Hwx Hw]. apply andb_true_iff in Hwx as [Hwx Hsx]. apply sig_eqb_eq in Hsx.
    cbn [gparts concat length]. rewrite !len_app.
    pose proof (fixed_nonempty e x Hwx) as Hne. rewrite Hsx in Hne. specialize (Hne Hfx).
    specialize (IH (off + len (pad off (galign (gsig x)) ++ gvb e x)) Hw Hfx). rewrite len_app in IH. lia.
  Qed.

  Lemma garr_new_run st c (vs : option sig) d' :
    inc_array (r_dep st) = Ok d' -> (r_sig st = SArray c) ->
    (r_pos0 st + r_pos st) mod galign c = 0 -> align_gv (SArray c) = galign c -> r_pos st <= r_len st ->
    fixed_sized c = true ->
    garr_new st = Ok (rset_dep st d', {| a_len := r_len st - r_pos st; a_start := r_pos st; a_al := galign c; a_child := c;
                                         a_vsig := None; a_offs := None; a_offs_len := 0; a_kos := None |}).
  Proof.
    intros Hinc Hs Hal Hag Hp Hfx. unfold garr_new. rewrite Hinc. cbn [bind].
    change (r_sig (rset_dep st d')) with (r_sig st). rewrite Hs, Hag.
    rewrite gparse_padding_aligned by (apply galign_nz || assumption). cbn [bind].
    cbn [rset_dep r_len r_pos r_sig]. destruct (N.ltb_spec (r_len st) (r_pos st)); [lia|]. rewrite Hs. cbn [bind]. rewrite Hfx. reflexivity.
  Qed.

  Lemma rt_array_fixed el l : gis_fixed el = true -> rt (GArray el l).
  Proof.
    intros Hfx fuel st Hfuel He Hw Hp Hr Hs Hd Hf Hl Hst. destruct fuel as [|f]; [cbn in Hfuel; lia|].
    rewrite gheight_array in Hfuel.
    pose proof (pre_align e _ Hp Hw) as Hal. cbn [gsig galign] in *.
    cbn [gwf] in Hw. apply andb_true_iff in Hw as [Hel Hwl].
    unfold pre in Hp. rewrite all_nodes_array in Hp. apply andb_true_iff in Hp as [_ Hpl].
    unfold gfits in Hf. cbn [gdepth_ok] in Hf. apply andb_true_iff in Hf as [Hf Hfl]. apply andb_true_iff in Hf as [Hf1 Hf2].
    apply N.leb_le in Hf1, Hf2.
    destruct (inc_array_good _ Hd Hf1 Hf2) as (d' & Hinc & Hdec & Hd' & Hs' & Ha' & Ht').
    rewrite gvb_array in Hst. cbv zeta in Hst. rewrite Hfx in Hst. set (data := concat (gparts e l 0)) in *.
    set (p := padn (r_pos0 st + r_pos st) (galign el)).
    unfold gde. rewrite (gde_gen_array read_last_checked f st el Hs). rewrite Hs, Hal.
    rewrite (gparse_padding_starts st (galign el) _ (holds_starts _ _ Hst)). cbn [bind]. fold p.
    apply holds_after_pad in Hst. fold p in Hst.
    assert (Hal2 : (r_pos0 (adv st p) + r_pos (adv st p)) mod galign el = 0).
    { cbn [adv r_pos0 r_pos]. rewrite N.add_assoc. subst p. apply padn_after, galign_nz. }
    destruct Hst as (t & Ht & Hb).
    rewrite (garr_new_run (adv st p) el None d'); try assumption; cbn [adv r_dep r_sig r_pos r_len]; try lia.
    cbn [bind a_offs].
    destruct (arr_loop_fixed l f (S (N.to_nat (r_len st))) (rset_dep (adv st p) d')
                {| a_len := r_len st - (r_pos st + p); a_start := r_pos st + p; a_al := galign el; a_child := el;
                   a_vsig := None; a_offs := None; a_offs_len := 0; a_kos := None |} el [] 0) as (st' & Hrun & Hp');
      cbn [rset_dep adv r_e r_dep r_len r_pos r_pos0 r_rest a_child a_offs a_offs_len a_start a_len]; try assumption; try reflexivity; try lia.
    - pose proof (gparts_count_fixed l 0 el Hwl Hfx) as Hc. fold data in Hc. cbn [adv r_pos r_len] in Hb. lia.
    - rewrite Hs', Ha', Ht'. assumption.
    - cbn [adv r_pos r_len] in Hb. lia.
    - exists t. cbn [adv r_pos r_len r_rest] in *. split; [exact Ht|exact Hb].
    - cbn [rset_dep adv r_len] in Hrun. unfold gde in Hrun. rewrite Hrun. cbn [bind frev rev_append app].
      exists st'. split; [reflexivity|exact Hp'].
    - cbn [adv r_pos r_len] in Hb. lia.
  Qed.

  (* ---------- framing offsets read back ---------- *)
  Lemma for_encoded_framing n k : n + 8 * k <= 18446744073709551615 ->
    for_encoded_container (n + offset_width n k * k) = Ok (offset_width n k).
  Proof.
    intros H. unfold for_encoded_container. rewrite for_bare_cases. rewrite !N.mul_0_l, !N.add_0_r. unfold offset_width.
    destruct (N.leb_spec (n + k) 255).
    { destruct (N.leb_spec (n + 1 * k) 255); [reflexivity|lia]. }
    destruct (N.leb_spec (n + 2 * k) 65535).
    { destruct (N.leb_spec (n + 2 * k) 255); [lia|]. destruct (N.leb_spec (n + 2 * k) 65535); [reflexivity|lia]. }
    destruct (N.leb_spec (n + 4 * k) 4294967295).
    { destruct (N.leb_spec (n + 4 * k) 255); [lia|]. destruct (N.leb_spec (n + 4 * k) 65535); [lia|].
      destruct (N.leb_spec (n + 4 * k) 4294967295); [reflexivity|lia]. }
    destruct (N.leb_spec (n + 8 * k) 255); [lia|]. destruct (N.leb_spec (n + 8 * k) 65535); [lia|].
    destruct (N.leb_spec (n + 8 * k) 4294967295); [lia|].
    destruct (N.leb_spec (n + 8 * k) 18446744073709551615); [reflexivity|lia].
  Qed.

  (* with the chosen width every position inside the container fits an offset *)
  Lemma offset_fits n k o : n + 8 * k <= 18446744073709551615 -> o <= n + offset_width n k * k ->
    o < 2 ^ (8 * N.of_nat (N.to_nat (offset_width n k))).
  Proof.
    intros H Ho. rewrite N2Nat.id. unfold offset_width in *.
    destruct (N.leb_spec (n + k) 255); [change (2 ^ (8 * 1)) with 256; lia|].
    destruct (N.leb_spec (n + 2 * k) 65535); [change (2 ^ (8 * 2)) with 65536; lia|].
    destruct (N.leb_spec (n + 4 * k) 4294967295); [change (2 ^ (8 * 4)) with 4294967296; lia|].
    change (2 ^ (8 * 8)) with 18446744073709551616. lia.
  Qed.

  Lemma offs_enc_cons w o l : offs_enc w (o :: l) = le_bytes (N.to_nat w) o ++ offs_enc w l.
  Proof. reflexivity. Qed.
  Lemma offs_enc_app w l1 l2 : offs_enc w (l1 ++ l2) = offs_enc w l1 ++ offs_enc w l2.
  Proof. unfold offs_enc. now rewrite map_app, concat_app. Qed.

  Lemma offs_loop_enc w os : 1 <= w -> forall l k acc,
    (length (offs_enc w l) < k)%nat -> Forall (fun o => o < 2 ^ (8 * N.of_nat (N.to_nat w)) /\ o <= os) l ->
    offs_loop w os k (offs_enc w l) acc = Ok (frev acc ++ l).
  Proof.
    intros Hw. induction l as [|o l IH]; intros k acc Hk HF; (destruct k as [|k]; [cbn in Hk; lia|]).
    - cbn [offs_enc map concat offs_loop]. now rewrite app_nil_r.
    - inversion HF as [|? ? [Ho1 Ho2] HF']; subst. rewrite offs_enc_cons in *.
      assert (Hlb : len (le_bytes (N.to_nat w) o) = w) by (rewrite len_le_bytes; lia).
      cbn [offs_loop]. destruct (le_bytes (N.to_nat w) o ++ offs_enc w l) eqn:Hl.
      { exfalso. apply (f_equal (@length byte)) in Hl. rewrite app_length, le_bytes_length in Hl. cbn in Hl. lia. }
      rewrite <- Hl in *. cbv zeta. set (X := le_bytes (N.to_nat w) o) in *. set (R := offs_enc w l) in *.
      replace (takeN w (X ++ R)) with X by (rewrite <- Hlb; symmetry; apply takeN_app_len).
      replace (dropN w (X ++ R)) with R by (rewrite <- Hlb; symmetry; apply dropN_app_len).
      rewrite Hlb, N.ltb_irrefl. subst X R.
      rewrite DeCompleteFacts.le_val_le_bytes by assumption.
      destruct (N.ltb_spec os o); [lia|].
      rewrite IH; [|rewrite app_length, le_bytes_length in Hk; lia|assumption].
      rewrite !frev_rev. cbn [rev]. now rewrite <- app_assoc.
  Qed.

  Lemma ends_from_le ps : forall off, Forall (fun o => o <= off + len (concat ps)) (ends_from off ps).
  Proof.
    induction ps as [|b r IH]; intros off; [constructor|]. cbn [ends_from concat]. rewrite len_app. constructor; [lia|].
    eapply Forall_impl; [|apply IH]. cbn. intros o Ho. lia.
  Qed.

  Lemma rtok_array el l : rtok (GArray el l) = true -> forallb rtok l = true.
  Proof. unfold rtok. rewrite all_nodes_array. cbn [node_rt andb]. tauto. Qed.
  Lemma rtok_struct l : rtok (GStruct l) = true -> forallb rtok l = true.
  Proof. unfold rtok. rewrite all_nodes_struct. cbn [node_rt andb]. tauto. Qed.

  (* elements of variable size: each is read from the window that its framing offset delimits *)
  Lemma arr_loop_var l : Forall rt l -> forall fuel (k : nat) st a c acc off t,
    (length l < k)%nat -> (gheights l <= fuel)%nat -> r_e st = e ->
    forallb (fun x => gwf x && sig_eqb (gsig x) c) l = true -> forallb (pre e) l = true -> forallb rtok l = true ->
    a_child a = c ->
    dep_ok (r_dep st) -> forallb (gdepth_ok (d_struct (r_dep st)) (d_array (r_dep st)) (dtot (r_dep st))) l = true ->
    r_len st < big -> r_pos st = a_start a + off ->
    a_start a + a_len a = r_pos st + len (concat (gparts e l off)) ->
    a_start a + a_len a + a_offs_len a <= r_len st ->
    (r_pos0 st + a_start a) mod galign c = 0 ->
    r_rest st = concat (gparts e l off) ++ t ->
    exists st', arr_loop (gde fuel) a c k (Some (ends_from off (gparts e l off))) st acc = Ok (frev acc ++ l, st') /\
                r_pos st' = a_start a + a_len a + a_offs_len a.
  Proof.
    induction 1 as [|x l Hx Hl IH]; intros fuel k st a c acc off t Hk Hfuel He Hw Hp Hr Hch Hd Hf Hlen Hpos Hend Hbound Hal Hrest;
      (destruct k as [|k]; [cbn in Hk; lia|]); cbn [arr_loop].
    - cbn [gparts concat ends_from garr_done] in *. rewrite len_nil in Hend.
      eexists. split; [now rewrite app_nil_r|]. unfold garr_finish. cbn [rset_dep adv r_pos]. lia.
    - cbn [forallb gheights length] in *.
      apply andb_true_iff in Hw as [Hwx Hw]. apply andb_true_iff in Hwx as [Hwx Hsx]. apply sig_eqb_eq in Hsx.
      apply andb_true_iff in Hp as [Hpx Hp]. apply andb_true_iff in Hf as [Hfitx Hf]. apply andb_true_iff in Hr as [Hrx Hr].
      cbn [gparts concat ends_from] in *. set (px := pad off (galign (gsig x)) ++ gvb e x) in *.
      rewrite len_app in Hend. cbn [garr_done].
      destruct (sub_starts st (a_start a + (off + len px)) (a_child a) (r_dep st) px)
        as (sub & Hsub & Hss & Hs0 & Hsl & Hsp0 & Hse & Hssig & Hsdep & _); try lia.
      { exists (concat (gparts e l (off + len px)) ++ t). rewrite Hrest. now rewrite <- app_assoc. }
      rewrite Hsub. cbn [bind].
      assert (Hpadx : pad (r_pos0 sub + r_pos sub) (galign (gsig x)) = pad off (galign (gsig x))).
      { rewrite Hsp0, Hs0, N.add_0_r, Hpos, N.add_assoc. apply pad_shift; [apply galign_nz|now rewrite Hsx]. }
      destruct (Hx fuel sub) as (sub' & Hdec & Hsub'); try assumption; try lia.
      { congruence. } { congruence. } { now rewrite Hsdep. } { unfold gfits. now rewrite Hsdep. }
      { rewrite Hpadx. fold px. destruct Hss as (t2 & Ht2 & Hb2). exists t2. split; [assumption|]. lia. }
      rewrite Hdec. cbn [bind]. rewrite Hsub', Hsl.
      replace (a_start a + (off + len px) - r_pos st) with (len px) by lia.
      cbn [adv r_pos]. destruct (N.ltb_spec (a_start a + a_len a) (r_pos st + len px)); [lia|].
      rewrite Hsx, sig_eqb_refl. cbn [negb].
      destruct (IH fuel k (adv st (len px)) a c (x :: acc) (off + len px) t) as (st' & Hrun & Hp'); cbn [adv r_e r_dep r_len r_pos r_pos0 r_rest]; try assumption; try lia.
      + rewrite Hrest, <- app_assoc, dropN_app_len. reflexivity.
      + exists st'. split; [|exact Hp']. rewrite Hrun. rewrite !frev_rev. cbn [rev]. now rewrite <- app_assoc.
  Qed.

  Lemma length_offs_enc w l : length (offs_enc w l) = (N.to_nat w * length l)%nat.
  Proof.
    unfold offs_enc. induction l as [|o l IH]; cbn [map concat length]; [lia|]. rewrite app_length, le_bytes_length, IH. lia.
  Qed.
  Lemma last_app1 {A} (l : list A) x d : last (l ++ [x]) d = x.
  Proof. apply last_last. Qed.

  (* from_encoded_array on a window that is exactly data ++ framing offsets *)
  Lemma from_encoded_run st (ps : list bytes) :
    let data := concat ps in let ends := ends_from 0 ps in
    len data + 8 * N.of_nat (length ps) <= 18446744073709551615 ->
    holds st (data ++ framing (len data) ends) ->
    from_encoded_array st = Ok (ends, len (framing (len data) ends)).
  Proof.
    intros data ends Hsmall (t & Ht & Hb). rewrite from_encoded_array_eq. cbv zeta.
    set (n := len data) in *. set (k := N.of_nat (length ends)).
    assert (Hk : k = N.of_nat (length ps)) by (subst k ends; now rewrite length_ends_from).
    set (w := offset_width n k). assert (Hw1 : 1 <= w) by apply offset_width_pos.
    assert (HF : framing n ends = offs_enc w ends) by reflexivity.
    assert (HlenF : len (framing n ends) = w * k) by (rewrite HF; apply len_offs_enc).
    rewrite len_app, HlenF in Hb.
    assert (Hclen : r_len st - r_pos st = n + w * k) by lia. rewrite Hclen.
    unfold w at 1. rewrite (for_encoded_framing n k) by lia. fold w. cbn [bind].
    assert (Hends : Forall (fun o => o < 2 ^ (8 * N.of_nat (N.to_nat w)) /\ o <= n) ends).
    { pose proof (ends_from_le ps 0) as Hle. fold ends data in Hle. rewrite N.add_0_l in Hle. fold n in Hle.
      eapply Forall_impl; [|exact Hle]. cbn. intros o Ho. split; [|assumption]. apply offset_fits; [lia|]. fold w. lia. }
    destruct ps as [|p0 ps'].
    - (* no element: the empty window *)
      cbn in *. subst n k. cbn in *. unfold read_last. replace (r_len st - r_pos st) with 0 by lia. cbn [N.eqb bind].
      replace (r_len st - r_pos st) with 0 by lia. cbn. reflexivity.
    - (* the last offset is the length of the data *)
      assert (Hk1 : 1 <= k) by (rewrite Hk; cbn [length]; lia).
      assert (Hlast : last ends 0 = n).
      { subst ends n data. rewrite last_end by discriminate. lia. }
      assert (Hsplit : exists ends', ends = ends' ++ [n]).
      { exists (removelast ends). rewrite <- Hlast. apply app_removelast_last. subst ends. discriminate. }
      destruct Hsplit as (ends' & Hsp).
      assert (HF2 : framing n ends = offs_enc w ends' ++ le_bytes (N.to_nat w) n).
      { rewrite HF, Hsp, offs_enc_app. cbn [offs_enc map concat]. now rewrite app_nil_r. }
      unfold read_last. replace (r_len st - r_pos st) with (n + w * k) by lia.
      assert (Hwk : w <= w * k) by nia.
      destruct (N.eqb_spec (n + w * k) 0); [lia|]. destruct (N.ltb_spec (n + w * k) w); [lia|].
      rewrite from_idx_ge by lia.
      assert (Hpre : r_len st - w - r_pos st = len (data ++ offs_enc w ends')).
      { rewrite len_app. apply (f_equal len) in HF2. rewrite HlenF, len_app, len_le_bytes in HF2. fold n. lia. }
      rewrite Hpre, Ht, HF2. rewrite !app_assoc. rewrite <- (app_assoc (data ++ offs_enc w ends')).
      rewrite dropN_app_len.
      assert (Hlb : len (le_bytes (N.to_nat w) n) = w) by (rewrite len_le_bytes; lia).
      pose proof (takeN_app_len (le_bytes (N.to_nat w) n) t) as Htk. rewrite Hlb in Htk. rewrite Htk.
      rewrite DeCompleteFacts.le_val_le_bytes.
      2:{ rewrite Forall_forall in Hends. apply Hends. rewrite Hsp. apply in_or_app. right. now left. }
      cbn [bind]. destruct (N.ltb_spec (n + w * k) n); [lia|].
      replace (n + w * k - n) with (w * k) by lia.
      rewrite from_idx_ge by lia. replace (r_pos st + n - r_pos st) with (len data) by (fold n; lia).
      rewrite Ht, <- app_assoc, dropN_app_len. rewrite <- HlenF, takeN_app_len.
      rewrite <- HF2. rewrite HF. rewrite (offs_loop_enc w n Hw1 ends); [|lia|assumption].
      cbn [bind frev rev_append app]. reflexivity.
  Qed.

  Lemma length_gparts' l off : length (gparts e l off) = length l.
  Proof. apply length_gparts. Qed.

  Lemma rt_array_var el l : Forall rt l -> gis_fixed el = false -> rt (GArray el l).
  Proof.
    intros HF Hfx fuel st Hfuel He Hw Hp Hr Hs Hd Hf Hl Hst. destruct fuel as [|f]; [cbn in Hfuel; lia|].
    rewrite gheight_array in Hfuel.
    pose proof (pre_align e _ Hp Hw) as Hal. cbn [gsig galign] in *.
    destruct (pre_node e _ Hp) as (_ & _ & _ & Hsmall).
    cbn [gwf] in Hw. apply andb_true_iff in Hw as [Hel Hwl].
    unfold pre in Hp. rewrite all_nodes_array in Hp. apply andb_true_iff in Hp as [_ Hpl].
    apply rtok_array in Hr.
    unfold gfits in Hf. cbn [gdepth_ok] in Hf. apply andb_true_iff in Hf as [Hf Hfl]. apply andb_true_iff in Hf as [Hf1 Hf2].
    apply N.leb_le in Hf1, Hf2.
    destruct (inc_array_good _ Hd Hf1 Hf2) as (d' & Hinc & Hdec & Hd' & Hs' & Ha' & Ht').
    rewrite gvb_array in Hst, Hsmall. cbv zeta in Hst, Hsmall. rewrite Hfx in Hst, Hsmall.
    set (ps := gparts e l 0) in *. set (data := concat ps) in *. set (ends := ends_from 0 ps) in *.
    set (F := framing (len data) ends) in *.
    set (p := padn (r_pos0 st + r_pos st) (galign el)).
    assert (Hsm : len data + 8 * N.of_nat (length ps) <= 18446744073709551615).
    { rewrite len_app in Hsmall. subst F. rewrite len_framing in Hsmall. subst ends. rewrite length_ends_from in Hsmall.
      pose proof (offset_width_pos (len data) (N.of_nat (length ps))) as Hw1.
      change (2 ^ 60) with 1152921504606846976 in Hsmall. nia. }
    unfold gde. rewrite (gde_gen_array read_last_checked f st el Hs). rewrite Hs, Hal.
    rewrite (gparse_padding_starts st (galign el) _ (holds_starts _ _ Hst)). cbn [bind]. fold p.
    apply holds_after_pad in Hst. fold p in Hst.
    assert (Hal2 : (r_pos0 (adv st p) + r_pos (adv st p)) mod galign el = 0).
    { cbn [adv r_pos0 r_pos]. rewrite N.add_assoc. subst p. apply padn_after, galign_nz. }
    (* ArrayDeserializer::new *)
    unfold garr_new. change (r_dep (adv st p)) with (r_dep st). rewrite Hinc. cbn [bind].
    change (r_sig (rset_dep (adv st p) d')) with (r_sig st). rewrite Hs, Hal.
    rewrite gparse_padding_aligned by (apply galign_nz || exact Hal2). cbn [bind].
    destruct Hst as (t & Ht & Hb). cbn [adv r_pos r_len r_rest] in Ht, Hb.
    cbn [rset_dep adv r_len r_pos r_sig]. destruct (N.ltb_spec (r_len st) (r_pos st + p)); [lia|]. rewrite Hs. cbn [bind].
    change fixed_sized with gis_fixed. rewrite Hfx.
    assert (Hholds : holds (rset_dep (adv st p) d') (data ++ F)).
    { exists t. cbn [rset_dep adv r_rest r_pos r_len]. split; [exact Ht|exact Hb]. }
    rewrite (from_encoded_run _ ps Hsm Hholds). fold data ends F. cbn [bind].
    rewrite len_app in Hb.
    destruct (N.ltb_spec (r_len st - (r_pos st + p)) (len F)); [lia|]. cbn [bind a_offs].
    set (a := {| a_len := r_len st - (r_pos st + p) - len F; a_start := r_pos st + p; a_al := galign el; a_child := el;
                 a_vsig := None; a_offs := Some ends; a_offs_len := len F; a_kos := Some 1 |}).
    destruct (arr_loop_var l HF f (S (N.to_nat (r_len st))) (rset_dep (adv st p) d') a el [] 0 (F ++ t)) as (st' & Hrun & Hp');
      subst a; cbn [rset_dep adv r_e r_dep r_len r_pos r_pos0 r_rest a_child a_offs a_offs_len a_start a_len]; try assumption; try reflexivity; try lia.
    - (* enough loop fuel: one offset byte at least per element *)
      destruct l as [|x0 l0]; [cbn; lia|].
      assert (HlF : N.of_nat (length (x0 :: l0)) <= len F).
      { subst F. rewrite len_framing. subst ends ps. rewrite length_ends_from, length_gparts.
        pose proof (offset_width_pos (len data) (N.of_nat (length (x0 :: l0)))). nia. }
      lia.
    - rewrite Hs', Ha', Ht'. assumption.
    - fold ps data. lia.
    - fold ps data. rewrite Ht. now rewrite <- app_assoc.
    - cbn [rset_dep adv r_len] in Hrun. unfold gde in Hrun. fold ps ends in Hrun. rewrite Hrun. cbn [bind frev rev_append app].
      exists st'. split; [reflexivity|]. cbn [a_start a_len a_offs_len] in Hp'. rewrite Hp'. lia.
  Qed.

  (* ---------- tuples with variable-size members ---------- *)
  Lemma tuple_offsets_cons s s' sr en er :
    tuple_offsets (s :: s' :: sr) (en :: er) = (if gis_fixed s then [] else [en]) ++ tuple_offsets (s' :: sr) er.
  Proof. reflexivity. Qed.

  Lemma read_last_at st a b w o X t : 1 <= w -> a + w <= b ->
    o < 2 ^ (8 * N.of_nat (N.to_nat w)) ->
    r_rest st = X ++ le_bytes (N.to_nat w) o ++ t -> r_pos st + len X + w = b ->
    read_last st a b w = Ok o.
  Proof.
    intros Hw Hab Ho Hr Hb. unfold read_last.
    destruct (N.eqb_spec (b - a) 0); [lia|]. destruct (N.ltb_spec (b - a) w); [lia|].
    rewrite from_idx_ge by lia. replace (b - w - r_pos st) with (len X) by lia.
    rewrite Hr, dropN_app_len.
    assert (Hlb : len (le_bytes (N.to_nat w) o) = w) by (rewrite len_le_bytes; lia).
    pose proof (takeN_app_len (le_bytes (N.to_nat w) o) t) as Htk. rewrite Hlb in Htk. rewrite Htk.
    now rewrite DeCompleteFacts.le_val_le_bytes.
  Qed.

  Lemma read_last_checked_at st a b w o X t : 1 <= w -> a + w <= b ->
    o < 2 ^ (8 * N.of_nat (N.to_nat w)) ->
    r_rest st = X ++ le_bytes (N.to_nat w) o ++ t -> r_pos st + len X + w = b ->
    read_last_checked st a b w = Ok o.
  Proof.
    intros Hw Hab Ho Hr Hb. unfold read_last_checked. destruct (N.ltb_spec (b - a) w); [lia|]. rewrite andb_false_r.
    now apply (read_last_at st a b w o X t).
  Qed.

  Lemma struct_loop_var l : Forall rt l -> l <> [] -> forall fuel st start w off ol acc R A,
    (gheights l <= fuel)%nat -> r_e st = e -> forallb gwf l = true -> forallb (pre e) l = true -> forallb rtok l = true ->
    dep_ok (r_dep st) -> forallb (gdepth_ok (d_struct (r_dep st)) (d_array (r_dep st)) (dtot (r_dep st))) l = true ->
    r_len st < big -> r_pos st = start + off -> 1 <= w ->
    A <> 0 -> (r_pos0 st + start) mod A = 0 -> (forall x, In x l -> A mod galign (gsig x) = 0) ->
    let ps := gparts e l off in let toffs := tuple_offsets (map gsig l) (ends_from off ps) in
    Forall (fun o => o < 2 ^ (8 * N.of_nat (N.to_nat w))) toffs ->
    r_rest st = concat ps ++ offs_enc w (rev toffs) ++ R ->
    r_pos st + len (concat ps) + w * N.of_nat (length toffs) + ol = r_len st ->
    exists st', struct_loop (gde fuel) read_last_checked start w (map gsig l) st
                  (r_pos st + len (concat ps) + w * N.of_nat (length toffs)) ol acc = Ok (frev acc ++ l, st') /\
                r_pos st' = r_len st.
  Proof.
    induction 1 as [|x l Hx Hl IH]; intros Hne fuel st start w off ol acc R A Hfuel He Hw Hp Hr Hd Hf Hlen Hpos Hw1 HA Hal Hdiv ps toffs Hfit Hrest Hend;
      [congruence|].
    cbn [forallb gheights] in *.
    apply andb_true_iff in Hw as [Hwx Hw]. apply andb_true_iff in Hp as [Hpx Hp]. apply andb_true_iff in Hf as [Hfitx Hf].
    apply andb_true_iff in Hr as [Hrx Hr].
    assert (Hax : (r_pos0 st + start) mod galign (gsig x) = 0).
    { apply (mod_trans _ A); try assumption; [apply galign_nz|]. apply Hdiv. now left. }
    set (px := pad off (galign (gsig x)) ++ gvb e x).
    assert (Hps : ps = px :: gparts e l (off + len px)) by reflexivity.
    assert (Hpad : forall sub, r_pos0 sub = r_pos0 st + r_pos st -> r_pos sub = 0 ->
              pad (r_pos0 sub + r_pos sub) (galign (gsig x)) = pad off (galign (gsig x))).
    { intros sub H1 H2. rewrite H1, H2, N.add_0_r, Hpos, N.add_assoc. now apply pad_shift; [apply galign_nz|]. }
    cbn [map struct_loop]. change fixed_sized with gis_fixed.
    destruct l as [|y l'].
    - (* the last member: no offset of its own; afterwards the offsets are skipped *)
      cbn [map]. subst toffs. cbn [tuple_offsets map] in *. cbn [rev offs_enc map concat length] in *. rewrite N.mul_0_r, N.add_0_r in *.
      rewrite Hps in *. cbn [gparts concat] in *. rewrite app_nil_r in *.
      assert (Helt : (if gis_fixed (gsig x) then (Ok (r_pos st + len px, r_pos st + len px, ol) : res cerr (N * N * N))
                      else Ok (r_pos st + len px, r_pos st + len px, ol)) = Ok (r_pos st + len px, r_pos st + len px, ol))
        by (destruct (gis_fixed (gsig x)); reflexivity).
      rewrite Helt. cbn [bind].
      destruct (sub_starts st (r_pos st + len px) (gsig x) (r_dep st) px)
        as (sub & Hsub & Hss & Hs0 & Hsl & Hsp0 & Hse & Hssig & Hsdep & _); try lia.
      { exists R. exact Hrest. }
      rewrite Hsub. cbn [bind].
      destruct (Hx fuel sub) as (sub' & Hdec & Hsub'); try assumption; try lia.
      { congruence. } { now rewrite Hsdep. } { unfold gfits. now rewrite Hsdep. }
      { rewrite (Hpad sub Hsp0 Hs0). fold px. destruct Hss as (t2 & Ht2 & Hb2). exists t2. split; [assumption|]. lia. }
      rewrite Hdec. cbn [bind struct_loop].
      replace (frev (x :: acc)) with (frev acc ++ [x]) by (rewrite !frev_rev; reflexivity).
      eexists. split; [reflexivity|].
      cbn [adv rset_dep r_pos]. rewrite Hsub', Hsl. lia.
    - (* a member followed by others *)
      set (l := y :: l') in *. set (ps' := gparts e l (off + len px)) in *.
      change (match map gsig l with [] => true | _ :: _ => false end) with false. cbv iota.
      assert (Hto : toffs = (if gis_fixed (gsig x) then [] else [off + len px]) ++ tuple_offsets (map gsig l) (ends_from (off + len px) ps')).
      { subst toffs. rewrite Hps. reflexivity. }
      set (toffs' := tuple_offsets (map gsig l) (ends_from (off + len px) ps')) in *.
      assert (Hcat : concat ps = px ++ concat ps') by (rewrite Hps; reflexivity).
      rewrite Hcat in *. rewrite len_app in *.
      assert (Hdiv' : forall z, In z l -> A mod galign (gsig z) = 0) by (intros z Hz; apply Hdiv; now right).
      destruct (gis_fixed (gsig x)) eqn:Hfx.
      + (* fixed-size member: read from the window up to the current end *)
        cbn [app] in Hto. rewrite Hto in *. cbn [bind].
        destruct (sub_starts st (r_pos st + (len px + len (concat ps')) + w * N.of_nat (length toffs')) (gsig x) (r_dep st)
                    (px ++ concat ps' ++ offs_enc w (rev toffs')))
          as (sub & Hsub & Hss & Hs0 & Hsl & Hsp0 & Hse & Hssig & Hsdep & _); try lia.
        { exists R. rewrite Hrest. now rewrite <- !app_assoc. }
        { rewrite !len_app, len_offs_enc, rev_length. lia. }
        rewrite Hsub. cbn [bind].
        destruct (rt_fixed_all x fuel sub (concat ps' ++ offs_enc w (rev toffs'))) as (sub' & Hdec & Hsub'); try assumption; try lia.
        { congruence. } { now rewrite Hsdep. } { unfold gfits. now rewrite Hsdep. }
        { rewrite (Hpad sub Hsp0 Hs0). exact Hss. }
        rewrite Hdec. cbn [bind]. rewrite (Hpad sub Hsp0 Hs0) in Hsub'. fold px in Hsub'. rewrite Hs0, N.add_0_l in Hsub'. rewrite Hsub'.
        destruct (IH ltac:(discriminate) fuel (adv st (len px)) start w (off + len px) ol (x :: acc) R A) as (st' & Hrun & Hp');
          cbn [adv r_e r_dep r_len r_pos r_pos0 r_rest]; try assumption; try lia.
        * rewrite Hrest, <- app_assoc, dropN_app_len. reflexivity.
        * fold ps' toffs'. lia.
        * fold ps' toffs' in Hrun. cbn [adv r_pos] in Hrun.
          replace (r_pos st + len px + len (concat ps') + w * N.of_nat (length toffs')) with
                  (r_pos st + (len px + len (concat ps')) + w * N.of_nat (length toffs')) in Hrun by lia.
          rewrite Hrun. exists st'. split; [|exact Hp']. rewrite !frev_rev. cbn [rev]. now rewrite <- app_assoc.
      + (* variable-size member: its end is the last framing offset not yet used *)
        cbn [app] in Hto. rewrite Hto in *. cbn [rev length] in *. rewrite offs_enc_app in Hrest. cbn [offs_enc map concat] in Hrest.
        rewrite app_nil_r in Hrest.
        inversion Hfit as [|? ? Hfit1 Hfit']; subst.
        assert (Hwk : w * N.of_nat (S (length toffs')) = w * N.of_nat (length toffs') + w)
          by (rewrite Nat2N.inj_succ, N.mul_succ_r; reflexivity).
        set (end_ := r_pos st + (len px + len (concat ps')) + w * N.of_nat (S (length toffs'))) in *.
        assert (Hend_le : end_ <= r_len st) by lia.
        destruct (N.ltb_spec end_ start); [lia|]. destruct (N.ltb_spec (r_len st) end_); [lia|]. cbn [orb].
        rewrite (read_last_checked_at st start end_ w (off + len px) (px ++ concat ps' ++ offs_enc w (rev toffs')) R); try assumption; try lia.
        2:{ rewrite Hrest. now rewrite <- !app_assoc. }
        2:{ rewrite !len_app, len_offs_enc, rev_length. subst end_. lia. }
        cbn [bind]. destruct (N.ltb_spec end_ w); [subst end_; lia|]. cbn [bind].
        destruct (sub_starts st (off + len px + start) (gsig x) (r_dep st) px)
          as (sub & Hsub & Hss & Hs0 & Hsl & Hsp0 & Hse & Hssig & Hsdep & _); try lia.
        { exists (concat ps' ++ offs_enc w (rev toffs') ++ le_bytes (N.to_nat w) (off + len px) ++ R). rewrite Hrest. now rewrite <- !app_assoc. }
        rewrite Hsub. cbn [bind].
        destruct (Hx fuel sub) as (sub' & Hdec & Hsub'); try assumption; try lia.
        { congruence. } { now rewrite Hsdep. } { unfold gfits. now rewrite Hsdep. }
        { rewrite (Hpad sub Hsp0 Hs0). fold px. destruct Hss as (t2 & Ht2 & Hb2). exists t2. split; [assumption|]. lia. }
        rewrite Hdec. cbn [bind]. rewrite Hsub', Hsl.
        replace (off + len px + start - r_pos st) with (len px) by lia.
        destruct (IH ltac:(discriminate) fuel (adv st (len px)) start w (off + len px) (ol + w) (x :: acc)
                     (le_bytes (N.to_nat w) (off + len px) ++ R) A) as (st' & Hrun & Hp');
          cbn [adv r_e r_dep r_len r_pos r_pos0 r_rest]; try assumption; try lia.
        * rewrite Hrest, <- app_assoc, dropN_app_len. now rewrite <- !app_assoc.
        * fold ps' toffs'. subst end_. lia.
        * fold ps' toffs' in Hrun. cbn [adv r_pos] in Hrun.
          replace (end_ - w) with (r_pos st + len px + len (concat ps') + w * N.of_nat (length toffs')) by (subst end_; lia).
          rewrite Hrun. exists st'. split; [|exact Hp']. rewrite !frev_rev. cbn [rev]. now rewrite <- app_assoc.
  Qed.

  Lemma tuple_offsets_le sigs ps off : Forall (fun o => o <= off + len (concat ps)) (tuple_offsets sigs (ends_from off ps)).
  Proof.
    revert sigs off. induction ps as [|b r IH]; intros sigs off.
    - destruct sigs as [|s [|s' sr]]; constructor.
    - destruct sigs as [|s [|s' sr]]; try constructor.
      cbn [ends_from concat]. rewrite tuple_offsets_cons, len_app. apply Forall_app. split.
      + destruct (gis_fixed s); constructor; [lia|constructor].
      + eapply Forall_impl; [|apply IH]. cbn. intros o Ho. lia.
  Qed.

  Lemma rt_struct_var l : Forall rt l -> forallb gis_fixed (map gsig l) = false -> rt (GStruct l).
  Proof.
    intros HF Hfx fuel st Hfuel He Hw Hp Hr Hs Hd Hf Hl Hst. destruct fuel as [|f]; [cbn in Hfuel; lia|].
    rewrite gheight_struct in Hfuel.
    pose proof (pre_align e _ Hp Hw) as Hal. cbn [gsig] in Hal, Hs, Hst |- *.
    destruct (pre_node e _ Hp) as (_ & _ & _ & Hsmall).
    cbn [gwf] in Hw. apply andb_true_iff in Hw as [Hnel Hwl].
    assert (Hlne : l <> []) by (destruct l; [discriminate|discriminate]).
    unfold pre in Hp. rewrite all_nodes_struct in Hp. apply andb_true_iff in Hp as [_ Hpl].
    apply rtok_struct in Hr.
    unfold gfits in Hf. cbn [gdepth_ok] in Hf. apply andb_true_iff in Hf as [Hf Hfl]. apply andb_true_iff in Hf as [Hf1 Hf2].
    apply N.leb_le in Hf1, Hf2.
    destruct (inc_struct_good _ Hd Hf1 Hf2) as (d' & Hinc & Hd' & Hs' & Ha' & Ht').
    set (sigs := map gsig l) in *. rewrite galign_struct in *. set (A := galigns sigs) in *.
    assert (HA : A <> 0) by apply galigns_nz.
    set (ps := gparts e l 0) in *. set (data := concat ps) in *. set (toffs := tuple_offsets sigs (ends_from 0 ps)) in *.
    assert (Hgvb : gvb e (GStruct l) = data ++ framing (len data) (rev toffs)).
    { rewrite gvb_struct. fold sigs A ps.
      assert (Hsne : sigs <> []) by (subst sigs; destruct l; [congruence|discriminate]).
      assert (Htb : forall pss, tuple_bytes A sigs pss =
                 if forallb gis_fixed sigs then concat pss ++ pad (len (concat pss)) A
                 else concat pss ++ framing (len (concat pss)) (rev (tuple_offsets sigs (ends_from 0 pss)))).
      { intros pss. unfold tuple_bytes. destruct sigs; [congruence|reflexivity]. }
      rewrite Htb, Hfx. reflexivity. }
    rewrite Hgvb in *. set (k := N.of_nat (length toffs)).
    set (w := offset_width (len data) k).
    assert (Hw1 : 1 <= w) by apply offset_width_pos.
    assert (HFr : framing (len data) (rev toffs) = offs_enc w (rev toffs)).
    { unfold framing. rewrite rev_length. reflexivity. }
    assert (HlenF : len (framing (len data) (rev toffs)) = w * k).
    { rewrite HFr, len_offs_enc, rev_length. reflexivity. }
    assert (Hsm : len data + 8 * k <= 18446744073709551615).
    { rewrite len_app, HlenF in Hsmall. change (2 ^ 60) with 1152921504606846976 in Hsmall. nia. }
    set (p := padn (r_pos0 st + r_pos st) A).
    unfold gde. rewrite (gde_gen_struct read_last_checked f st sigs Hs). rewrite Hs, Hal.
    rewrite (gparse_padding_starts st A _ (holds_starts _ _ Hst)). cbn [bind]. fold p.
    apply holds_after_pad in Hst. fold p in Hst.
    assert (Hal2 : (r_pos0 (adv st p) + r_pos (adv st p)) mod A = 0).
    { cbn [adv r_pos0 r_pos]. rewrite N.add_assoc. subst p. now apply padn_after. }
    change (r_sig (adv st p)) with (r_sig st). rewrite Hs, Hal.
    rewrite (gparse_padding_aligned _ _ HA Hal2). cbn [bind].
    change (r_dep (adv st p)) with (r_dep st). rewrite Hinc. cbn [bind]. cbv zeta.
    cbn [rset_dep r_pos r_len adv].
    destruct Hst as (t & Ht & Hb). cbn [adv r_pos r_rest r_len] in Ht, Hb. rewrite len_app, HlenF in Hb.
    unfold big in Hl.
    destruct (N.ltb_spec (r_len st) (r_pos st + p)); [lia|].
    replace (r_len st - (r_pos st + p)) with (len data + w * k) by lia.
    unfold w at 1. rewrite (for_encoded_framing (len data) k Hsm). fold w. cbn [bind].
    set (st2 := rset_dep (adv st p) d').
    destruct (struct_loop_var l HF Hlne f st2 (r_pos st + p) w 0 0 [] t A) as (st' & Hrun & Hp');
      subst st2; cbn [rset_dep adv r_e r_dep r_len r_pos r_pos0 r_rest]; try assumption; try reflexivity; try lia.
    - rewrite Hs', Ha', Ht'. assumption.
    - intros x Hx. apply pow2_div; [apply galigns_pow2|apply galign_pow2|]. apply galigns_ge. subst sigs. now apply in_map.
    - fold ps sigs toffs. pose proof (tuple_offsets_le sigs ps 0) as Hle. fold toffs data in Hle. rewrite N.add_0_l in Hle.
      eapply Forall_impl; [|exact Hle]. cbn. intros o Ho. apply offset_fits; [exact Hsm|]. fold w. lia.
    - fold ps sigs toffs data. rewrite Ht, HFr. now rewrite <- app_assoc.
    - fold ps sigs toffs data k. lia.
    - cbn [rset_dep adv r_len r_pos] in Hrun. unfold gde in Hrun. fold ps sigs toffs data k in Hrun.
      replace (r_pos st + p + len data + w * k) with (r_len st) in Hrun by lia.
      rewrite Hrun. cbn [bind frev rev_append app]. exists st'. split; [reflexivity|exact Hp'].
  Qed.

  (* ---------- variants ---------- *)
  Lemma last_nul_app a : forall b i best, last_nul (a ++ b) i best = last_nul b (i + len a) (last_nul a i best).
  Proof.
    induction a as [|c a IH]; intros b i best; cbn [app last_nul]; [now rewrite len_nil, N.add_0_r|].
    rewrite IH, len_cons. f_equal. lia.
  Qed.
  Lemma last_nul_nf b : forall i best, nul_free b = true -> last_nul b i best = best.
  Proof.
    induction b as [|c b IH]; intros i best H; [reflexivity|]. cbn [last_nul]. unfold nul_free in H. cbn [forallb] in H.
    apply andb_true_iff in H as [H1 H2]. unfold is_zero. apply negb_true_iff in H1. rewrite H1. now apply IH.
  Qed.
  Lemma nul_free_removelast s : nul_free s = true -> nul_free (removelast s) = true.
  Proof.
    unfold nul_free. induction s as [|c [|c' s] IH]; intros H; try reflexivity.
    cbn [removelast]. cbn [forallb] in *. apply andb_true_iff in H as [H1 H2]. rewrite H1. cbn [andb]. now apply IH.
  Qed.
  Lemma last_in {A} (l : list A) d : l <> [] -> In (last l d) l.
  Proof.
    induction l as [|c [|c' l'] IH]; intros H; [congruence|now left|]. right. apply IH. discriminate.
  Qed.
  Lemma strip_nul_ascii s : DeCompleteFacts.ascii_nz s = true -> strip_nul s = s.
  Proof.
    intros H. unfold strip_nul. destruct s as [|c s]; [reflexivity|].
    assert (Hl : is_zero (last (c :: s) x01) = false).
    { unfold DeCompleteFacts.ascii_nz in H. rewrite forallb_forall in H.
      specialize (H _ (last_in (c :: s) x01 ltac:(discriminate))).
      unfold DeCompleteFacts.ascii1 in H. apply andb_true_iff in H as [H _]. apply N.ltb_lt in H.
      unfold is_zero. destruct (N.eqb_spec (bn (last (c :: s) x01)) 0) as [Hz|Hz]; [rewrite Hz in H; discriminate H|reflexivity]. }
    now rewrite Hl.
  Qed.

  Lemma gsub_at st lo hi sh g d : r_pos st <= lo -> lo <= hi -> hi <= r_len st ->
    gsub st lo hi sh g d =
    Ok {| r_e := r_e st; r_pos0 := r_pos0 st + sh; r_base := dropN (lo - r_pos st) (r_rest st);
          r_rest := dropN (lo - r_pos st) (r_rest st); r_pos := 0; r_len := hi - lo; r_sig := g; r_dep := d; r_fds := r_fds st |}.
  Proof.
    intros H1 H2 H3. unfold gsub. destruct (N.ltb_spec hi lo); [lia|]. destruct (N.ltb_spec (r_len st) hi); [lia|].
    cbn [orb]. now rewrite from_idx_ge.
  Qed.

  Lemma str_run_nonul st s : r_sig st = SSig -> DeCompleteFacts.ascii_nz s = true -> holds st s ->
    gde_str st = Ok (s, adv st (r_len st - r_pos st)).
  Proof.
    intros Hs Ha (t & Ht & Hb). unfold gde_str. rewrite Hs.
    destruct (N.ltb_spec (r_len st) (r_pos st)); [lia|]. cbv zeta.
    replace (r_len st - r_pos st) with (len s) by lia. rewrite Ht, takeN_app_len, (strip_nul_ascii s Ha).
    rewrite (DeCompleteFacts.ascii_nul_free s Ha), (DeCompleteFacts.ascii_utf8 s Ha). reflexivity.
  Qed.

  Lemma parse_sig_stack_ok g : gsingle_ok g = true -> len (show g) <= stack_limit -> parse_sig_stack (show g) = Ok g.
  Proof.
    intros Hg Hl. unfold parse_sig_stack. pose proof (sig_nest_le (show g) 0 0 0) as Hn.
    destruct (N.ltb_spec stack_limit (sig_nest (show g) 0 0 0)); [lia|]. now rewrite (parse_show_gv g Hg).
  Qed.

  Lemma last_nul_variant (V S : bytes) : S <> [] -> nul_free S = true ->
    last_nul (removelast (V ++ [x00] ++ S)) 0 None = Some (len V).
  Proof.
    intros Hne Hnf. rewrite removelast_app by (destruct S; [congruence|discriminate]).
    rewrite last_nul_app, N.add_0_l.
    assert (Hrl : removelast ([x00] ++ S) = x00 :: removelast S) by (destruct S; [congruence|reflexivity]).
    rewrite Hrl. cbn [last_nul]. change (is_zero x00) with true. cbv iota.
    apply last_nul_nf. now apply nul_free_removelast.
  Qed.

  Lemma rt_variant x : rt x -> rt (GVariant x).
  Proof.
    intros IH fuel st Hfuel He Hw Hp Hr Hs Hd Hf Hl Hst. destruct fuel as [|f]; [cbn in Hfuel; lia|].
    cbn [gheight] in Hfuel. cbn [gsig galign gvb] in *.
    cbn [gwf] in Hw. apply andb_true_iff in Hw as [Hwx Hsx].
    unfold pre in Hp. cbn [all_nodes] in Hp. apply andb_true_iff in Hp as [Hn Hpx]. fold (pre e x) in Hpx.
    unfold rtok in Hr. cbn [all_nodes node_rt] in Hr. apply andb_true_iff in Hr as [Hlim Hrx]. fold (rtok x) in Hrx.
    apply N.leb_le in Hlim.
    unfold gfits in Hf. cbn [gdepth_ok] in Hf. apply andb_true_iff in Hf as [Hf1 Hf2]. apply N.leb_le in Hf1.
    destruct (inc_variant_good _ Hd Hf1) as (d' & Hinc & Hd' & Hs' & Ha' & Ht').
    set (S := show (gsig x)) in *. set (V := gvb e x) in *.
    pose proof (DeCompleteFacts.ascii_show (gsig x)) as Hascii. fold S in Hascii.
    assert (HSne : S <> []).
    { subst S. destruct (gshow_head (gsig x) (gsingle_printable _ Hsx)) as (ch & t0 & Hh & _). rewrite Hh. discriminate. }
    set (p := padn (r_pos0 st + r_pos st) 8).
    unfold gde. cbn [gde_gen]. rewrite Hs.
    rewrite (gparse_padding_starts st 8 _ (holds_starts _ _ Hst)). cbn [bind]. fold p.
    apply holds_after_pad in Hst. fold p in Hst.
    assert (Hal2 : (r_pos0 (adv st p) + r_pos (adv st p)) mod 8 = 0).
    { cbn [adv r_pos0 r_pos]. rewrite N.add_assoc. subst p. apply padn_after. lia. }
    rewrite (gparse_padding_aligned _ 8) by (lia || exact Hal2). cbn [bind].
    destruct Hst as (t & Ht & Hb). cbn [adv r_pos r_rest r_len] in *.
    rewrite !len_app in Hb. change (len [x00]) with 1 in Hb.
    destruct (N.eqb_spec (r_len st) 0); [lia|]. destruct (N.ltb_spec (r_len st) (r_pos st + p)); [lia|].
    (* the separator is the last nul before the final byte *)
    assert (HW : takeN (r_len st - (r_pos st + p)) (dropN p (r_rest st)) = V ++ [x00] ++ S).
    { replace (r_len st - (r_pos st + p)) with (len (V ++ [x00] ++ S)) by (rewrite !len_app; change (len [x00]) with 1; lia).
      rewrite Ht. apply takeN_app_len. }
    rewrite HW.
    assert (Hnul : last_nul (removelast (V ++ [x00] ++ S)) 0 None = Some (len V)).
    { apply last_nul_variant; [assumption|now apply DeCompleteFacts.ascii_nul_free]. }
    rewrite Hnul.
    (* stage Signature *)
    change (r_dep (adv st p)) with (r_dep st).
    rewrite (gsub_at (adv st p) (r_pos st + p + len V + 1) (r_len st) 0 SSig (r_dep st)); cbn [adv r_pos r_len r_rest]; try lia.
    cbn [bind].
    set (sst := {| r_e := r_e (adv st p); r_pos0 := r_pos0 (adv st p) + 0; r_base := _; r_rest := _; r_pos := 0; r_len := _;
                   r_sig := SSig; r_dep := _; r_fds := _ |}).
    assert (Hsst : holds sst S).
    { exists t. subst sst. cbn [r_rest r_pos r_len adv]. replace (r_pos st + p + len V + 1 - (r_pos st + p)) with (len (V ++ [x00])) by (rewrite len_app; change (len [x00]) with 1; lia).
      rewrite Ht. rewrite app_assoc, <- (app_assoc (V ++ [x00])), dropN_app_len. split; [reflexivity|lia]. }
    rewrite (str_run_nonul sst S eq_refl Hascii Hsst). cbn [bind].
    pose proof (parse_sig_stack_ok _ Hsx Hlim) as Hpss. fold S in Hpss.
    rewrite Hpss. cbn [bind].
    (* stage Value *)
    rewrite from_idx_ge by (cbn [adv r_pos]; lia). cbn [adv r_pos r_rest].
    replace (r_pos st + p + len V + 1 - (r_pos st + p)) with (len (V ++ [x00])) by (rewrite len_app; change (len [x00]) with 1; lia).
    rewrite Ht. rewrite app_assoc, <- (app_assoc (V ++ [x00])), dropN_app_len.
    replace (r_len st - (r_pos st + p + len V + 1)) with (len S) by lia. rewrite takeN_app_len.
    rewrite Hpss. cbn [bind].
    destruct (sub_starts (adv st p) (r_pos st + p + len V) (gsig x) (r_dep st) V)
      as (sub & Hsub & Hss & Hs0 & Hsl & Hsp0 & Hse & Hssig & Hsdep & _); cbn [adv r_pos r_len r_rest]; try lia.
    { exists ([x00] ++ S ++ t). rewrite Ht. now rewrite <- !app_assoc. }
    cbn [adv r_pos r_len r_pos0 r_e r_dep] in *. rewrite Hsub. cbn [bind]. rewrite Hinc. cbn [bind].
    assert (Hal3 : (r_pos0 st + (r_pos st + p)) mod galign (gsig x) = 0).
    { cbn [adv r_pos0 r_pos] in Hal2. apply (mod_trans _ 8).
      - lia.
      - apply galign_nz.
      - assumption.
      - apply pow2_div; [unfold pow2; tauto|apply galign_pow2|].
        destruct (galign_pow2 (gsig x)) as [Hq|[Hq|[Hq|Hq]]]; rewrite Hq; lia. }
    destruct (IH f (rset_dep sub d')) as (sub' & Hdec1 & Hpos1); cbn [rset_dep r_e r_sig r_dep r_len r_pos r_pos0 r_rest]; try assumption; try lia.
    - congruence.
    - unfold gfits. rewrite Hs', Ha', Ht'. assumption.
    - rewrite Hsp0, Hs0, N.add_0_r. rewrite (pad_aligned _ _ (galign_nz _) Hal3). cbn [app].
      destruct Hss as (t2 & Ht2 & Hb2). exists t2. cbn [rset_dep r_rest r_pos r_len]. split; [assumption|]. rewrite Hs0, Hsl. subst V. lia.
    - unfold gde in Hdec1. rewrite Hdec1. cbn [bind]. eexists. split; [reflexivity|]. cbn [adv r_pos]. lia.
  Qed.

  (* ---------- dicts ---------- *)
  Lemma rtok_dict ks vs l : rtok (GDict ks vs l) = true -> forallb (fun q => rtok (fst q) && rtok (snd q)) l = true.
  Proof. unfold rtok. rewrite all_nodes_dict. cbn [node_rt andb]. tauto. Qed.

  (* side conditions on one entry *)
  Definition dentry_ok (d : depths) (ks vs : sig) (p : gval * gval) : Prop :=
    gwf (fst p) = true /\ gwf (snd p) = true /\ gsig (fst p) = ks /\ gsig (snd p) = vs /\
    pre e (fst p) = true /\ pre e (snd p) = true /\ rtok (fst p) = true /\ rtok (snd p) = true /\
    gdepth_ok (d_struct d) (d_array d) (dtot d) (fst p) = true /\
    gdepth_ok (d_struct d) (d_array d) (dtot d) (snd p) = true /\
    (gis_fixed ks && gis_fixed vs = true -> padn (len (concat (entry_parts e vs p))) (N.max (galign ks) (galign vs)) = 0) /\
    len (concat (entry_parts e vs p)) + 8 <= 18446744073709551615.

  Fixpoint gheightp (l : list (gval * gval)) : nat :=
    match l with [] => 0%nat | (k, x) :: r => Nat.max (Nat.max (gheight k) (gheight x)) (gheightp r) end.
  Lemma gheight_dict ks vs l : gheight (GDict ks vs l) = S (gheightp l).
  Proof. reflexivity. Qed.

  (* the bytes of one entry, outside the tail_padding class *)
  Lemma entry_bytes ks vs p :
    (gis_fixed ks && gis_fixed vs = true -> padn (len (concat (entry_parts e vs p))) (N.max (galign ks) (galign vs)) = 0) ->
    tuple_bytes (N.max (galign ks) (galign vs)) [ks; vs] (entry_parts e vs p) =
    concat (entry_parts e vs p) ++
    (if gis_fixed ks then [] else le_bytes (N.to_nat (offset_width (len (concat (entry_parts e vs p))) 1)) (len (gvb e (fst p)))).
  Proof.
    intros Ht. rewrite entry_tuple. cbv zeta. destruct (gis_fixed ks) eqn:Hk; destruct (gis_fixed vs) eqn:Hv; cbn [andb] in *; try reflexivity.
    unfold pad. rewrite (Ht eq_refl). reflexivity.
  Qed.

  Lemma dict_loop_rt l : Forall (fun p => rt (fst p) /\ rt (snd p)) l -> forall fuel (k : nat) st a ks vs acc off t,
    (length l < k)%nat -> (gheightp l <= fuel)%nat -> r_e st = e ->
    Forall (dentry_ok (r_dep st) ks vs) l ->
    a_child a = ks -> a_al a = N.max (galign ks) (galign vs) ->
    a_kos a = (if gis_fixed ks then None else Some 1) ->
    dep_ok (r_dep st) -> r_len st < big -> r_pos st = a_start a + off ->
    a_start a + a_len a = r_pos st + len (concat (geparts e ks vs l off)) ->
    a_start a + a_len a + a_offs_len a <= r_len st ->
    (r_pos0 st + a_start a) mod N.max (galign ks) (galign vs) = 0 ->
    r_rest st = concat (geparts e ks vs l off) ++ t ->
    exists st', dict_loop (gde fuel) a ks vs k
                  (if gis_fixed ks && gis_fixed vs then None else Some (ends_from off (geparts e ks vs l off))) st acc
                = Ok (frev acc ++ l, st') /\
                r_pos st' = a_start a + a_len a + a_offs_len a.
  Proof.
    induction 1 as [|[key x] l [Hk Hx] Hl IH]; intros fuel k st a ks vs acc off t Hkf Hfuel He Hok Hch Hal_a Hkos Hd Hlen Hpos Hend Hbound Hal Hrest;
      (destruct k as [|k]; [cbn in Hkf; lia|]); cbn [dict_loop].
    - cbn [geparts concat ends_from] in *. rewrite len_nil in Hend.
      assert (Hdone : garr_done st a (if gis_fixed ks && gis_fixed vs then None else Some []) = true).
      { destruct (gis_fixed ks && gis_fixed vs); cbn [garr_done]; [|reflexivity]. apply N.eqb_eq. lia. }
      rewrite Hdone. eexists. split; [now rewrite app_nil_r|]. unfold garr_finish. cbn [rset_dep adv r_pos]. lia.
    - apply Forall_cons_iff in Hok as [Hp Hokl].
      destruct Hp as (Hwk & Hwx & Hsk & Hsx & Hpk & Hpx & Hrk & Hrx & Hdk & Hdx & Htail & Hsm). cbn [fst snd] in *.
      cbn [gheightp length] in *.
      set (al := N.max (galign ks) (galign vs)) in *.
      assert (Hpal : pow2 al) by (apply pow2_max; apply galign_pow2).
      assert (Hal0 : al <> 0) by now apply pow2_nz.
      set (kb := gvb e key). set (vb := pad (len kb) (galign vs) ++ gvb e x).
      assert (Hparts : concat (entry_parts e vs (key, x)) = kb ++ vb).
      { unfold entry_parts. cbn [fst snd concat]. now rewrite app_nil_r. }
      set (n := len (kb ++ vb)).
      set (tl := if gis_fixed ks then [] else le_bytes (N.to_nat (offset_width n 1)) (len kb)).
      assert (HE : tuple_bytes al [ks; vs] (entry_parts e vs (key, x)) = kb ++ vb ++ tl).
      { subst al. rewrite (entry_bytes ks vs (key, x) Htail). rewrite Hparts. cbn [fst]. fold kb n. subst tl. now rewrite <- app_assoc. }
      set (P := pad off al).
      set (E := P ++ kb ++ vb ++ tl).
      assert (Hgp : geparts e ks vs ((key, x) :: l) off = E :: geparts e ks vs l (off + len E)).
      { cbn [geparts]. fold al. rewrite HE. reflexivity. }
      rewrite Hgp in *. cbn [concat ends_from] in *. rewrite len_app in Hend.
      set (parts' := geparts e ks vs l (off + len E)) in *. set (rest := concat parts') in *.
      assert (HlenE : len E = len P + len kb + len vb + len tl) by (subst E; rewrite !len_app; lia).
      assert (Hn : n = len kb + len vb) by (subst n; now rewrite len_app).
      rewrite Hparts in Hsm. fold n in Hsm.
      assert (HlenP : len P = padn (r_pos0 st + r_pos st) al).
      { subst P. rewrite len_pad, Hpos, N.add_assoc. symmetry. now apply padn_shift. }
      assert (HPeq : pad (r_pos0 st + r_pos st) al = P).
      { subst P. rewrite Hpos, N.add_assoc. now apply pad_shift. }
      (* the padding before the entry *)
      assert (Hpadrun : gparse_padding st (a_al a) = Ok (adv st (len P))).
      { rewrite Hal_a. fold al. rewrite HlenP. apply (gparse_padding_starts st al (kb ++ vb ++ tl ++ rest)).
        rewrite HPeq. exists t. split.
        - rewrite Hrest. subst E. now rewrite <- !app_assoc.
        - rewrite !len_app. lia. }
      set (st1 := adv st (len P)).
      assert (Hr1 : r_rest st1 = kb ++ vb ++ tl ++ rest ++ t).
      { subst st1. cbn [adv r_rest]. rewrite Hrest. subst E. rewrite <- !app_assoc. apply dropN_app_len. }
      assert (Hp1 : r_pos st1 = r_pos st + len P) by reflexivity.
      assert (Hal1 : (r_pos0 st1 + r_pos st1) mod al = 0).
      { subst st1. cbn [adv r_pos0 r_pos]. rewrite N.add_assoc, HlenP. now apply padn_after. }
      assert (Halk : (r_pos0 st1 + r_pos st1) mod galign (gsig key) = 0).
      { apply (mod_trans _ al); try assumption; [apply galign_nz|]. rewrite Hsk. apply max_div_l; apply galign_pow2. }
      assert (Halv : (r_pos0 st1 + r_pos st1) mod galign (gsig x) = 0).
      { apply (mod_trans _ al); try assumption; [apply galign_nz|]. rewrite Hsx. apply max_div_r; apply galign_pow2. }
      assert (Hl1 : r_len st1 = r_len st) by reflexivity.
      assert (Hd1 : r_dep st1 = r_dep st) by reflexivity.
      assert (He1 : r_e st1 = e) by exact He.
      assert (Hp01 : r_pos0 st1 = r_pos0 st) by reflexivity.
      (* continuing with the next entry from a state [st3] at the end of this one *)
      assert (Hnext : forall st3, r_pos st3 = r_pos st + len E -> r_rest st3 = rest ++ t -> r_len st3 = r_len st ->
                r_dep st3 = r_dep st -> r_e st3 = e -> r_pos0 st3 = r_pos0 st ->
                exists st', dict_loop (gde fuel) a ks vs k
                              (if gis_fixed ks && gis_fixed vs then None else Some (ends_from (off + len E) parts')) st3 ((key, x) :: acc)
                            = Ok (frev acc ++ (key, x) :: l, st') /\ r_pos st' = a_start a + a_len a + a_offs_len a).
      { intros st3 H3p H3r H3l H3d H3e H3p0.
        destruct (IH fuel k st3 a ks vs ((key, x) :: acc) (off + len E) t) as (st' & Hrun & Hp'); try assumption; try lia.
        - now rewrite H3d.
        - now rewrite H3d.
        - fold parts' rest. lia.
        - now rewrite H3p0.
        - exists st'. split; [|exact Hp']. fold parts' in Hrun. rewrite Hrun. rewrite !frev_rev. cbn [rev]. now rewrite <- app_assoc. }
      destruct (gis_fixed ks) eqn:Hfk.
      + (* fixed-size key: no key offset *)
        assert (Htl : tl = []) by reflexivity. rewrite Htl in *. rewrite len_nil in HlenE. clear Htl.
        assert (Hkb1 : 1 <= len kb) by (apply fixed_nonempty; [assumption|now rewrite Hsk]).
        destruct (gis_fixed vs) eqn:Hfv; cbn [andb] in *.
        * (* both fixed: no framing at all; every window extends to the end of the array *)
          cbn [garr_done]. destruct (N.eqb_spec (r_pos st) (a_start a + a_len a)); [lia|].
          rewrite Hpadrun. cbn [bind]. rewrite Hkos. cbn [bind]. fold st1.
          destruct (sub_starts st1 (a_start a + a_len a) (a_child a) (r_dep st1) (kb ++ vb ++ rest))
            as (sub & Hsub & Hss & Hs0 & Hsl & Hsp0 & Hse & Hssig & Hsdep & _).
          { rewrite Hp1. lia. } { rewrite Hl1. lia. }
          { exists t. rewrite Hr1. cbn [app]. now rewrite <- !app_assoc. }
          { rewrite Hp1, !len_app. lia. }
          rewrite Hsub. cbn [bind].
          assert (K1 : (gheight key <= fuel)%nat) by lia.
          assert (K2 : r_e sub = e) by congruence.
          assert (K3 : gis_fixed (gsig key) = true) by (now rewrite Hsk).
          assert (K4 : r_sig sub = gsig key) by congruence.
          assert (K5 : dep_ok (r_dep sub)) by (now rewrite Hsdep, Hd1).
          assert (K6 : gfits (r_dep sub) key) by (unfold gfits; now rewrite Hsdep, Hd1).
          assert (K7 : r_len sub < big) by (rewrite Hsl; unfold big in *; lia).
          assert (K8 : starts sub ((pad (r_pos0 sub + r_pos sub) (galign (gsig key)) ++ gvb e key) ++ vb ++ rest)).
          { rewrite Hsp0, Hs0, N.add_0_r. rewrite (pad_aligned _ _ (galign_nz _) Halk). cbn [app]. fold kb. exact Hss. }
          destruct (rt_fixed_all key fuel sub (vb ++ rest) K1 K2 Hwk Hpk K3 K4 K5 K6 K7 K8) as (sub' & Hdec & Hsub').
          rewrite Hdec. cbn [bind]. rewrite Hsp0, Hs0, N.add_0_r in Hsub'. rewrite (pad_aligned _ _ (galign_nz _) Halk) in Hsub'.
          cbn [app] in Hsub'. rewrite N.add_0_l in Hsub'. fold kb in Hsub'. rewrite Hsub'.
          set (st2 := adv st1 (len kb)).
          assert (Hp2 : r_pos st2 = r_pos st + len P + len kb) by reflexivity.
          assert (He2 : r_e st2 = e) by exact He.
          assert (Hd2 : r_dep st2 = r_dep st) by reflexivity.
          destruct (N.ltb_spec (a_start a + a_len a) (r_pos st2)); [lia|]. cbn [bind].
          destruct (sub_starts st2 (a_start a + a_len a) vs (r_dep st2) (vb ++ rest))
            as (vsub & Hvsub & Hvss & Hvs0 & Hvsl & Hvsp0 & Hvse & Hvssig & Hvsdep & _).
          { rewrite Hp2. lia. } { change (r_len st2) with (r_len st). lia. }
          { exists t. subst st2. cbn [adv r_rest]. rewrite Hr1. rewrite dropN_app_len. now rewrite <- !app_assoc. }
          { rewrite Hp2, !len_app. lia. }
          rewrite Hvsub. cbn [bind].
          assert (Hpadv : pad (r_pos0 vsub + r_pos vsub) (galign (gsig x)) = pad (len kb) (galign vs)).
          { rewrite Hvsp0, Hvs0, N.add_0_r. subst st2. cbn [adv r_pos0 r_pos]. rewrite N.add_assoc, Hsx.
            apply pad_shift; [apply galign_nz|]. rewrite <- Hsx. exact Halv. }
          assert (V1 : (gheight x <= fuel)%nat) by lia.
          assert (V2 : r_e vsub = e) by congruence.
          assert (V3 : gis_fixed (gsig x) = true) by (now rewrite Hsx).
          assert (V4 : r_sig vsub = gsig x) by congruence.
          assert (V5 : dep_ok (r_dep vsub)) by (now rewrite Hvsdep, Hd2).
          assert (V6 : gfits (r_dep vsub) x) by (unfold gfits; now rewrite Hvsdep, Hd2).
          assert (V7 : r_len vsub < big) by (rewrite Hvsl; unfold big in *; lia).
          assert (V8 : starts vsub ((pad (r_pos0 vsub + r_pos vsub) (galign (gsig x)) ++ gvb e x) ++ rest)).
          { rewrite Hpadv. fold vb. exact Hvss. }
          destruct (rt_fixed_all x fuel vsub (rest) V1 V2 Hwx Hpx V3 V4 V5 V6 V7 V8) as (vsub' & Hvdec & Hvsub').
          rewrite Hvdec. cbn [bind]. rewrite Hpadv in Hvsub'. fold vb in Hvsub'. rewrite Hvs0, N.add_0_l in Hvsub'. rewrite Hvsub'.
          set (st3 := adv st2 (len vb)).
          assert (Hp3 : r_pos st3 = r_pos st + len E) by (subst st3 st2 st1; cbn [adv r_pos]; lia).
          destruct (N.ltb_spec (a_start a + a_len a) (r_pos st3)); [lia|].
          rewrite Hsk, Hsx, !sig_eqb_refl. cbn [negb orb].
          apply Hnext; try assumption; try reflexivity.
          subst st3 st2. cbn [adv r_rest]. rewrite Hr1. rewrite dropN_app_len. cbn [app]. now rewrite dropN_app_len.
        * (* fixed key, variable value: the entry ends at its array framing offset *)
          cbn [garr_done].
          rewrite Hpadrun. cbn [bind]. rewrite Hkos. cbn [bind]. fold st1.
          assert (Hee : a_start a + (off + len E) = r_pos st + len E) by lia.
          rewrite Hee.
          destruct (sub_starts st1 (r_pos st + len E) (a_child a) (r_dep st1) (kb ++ vb))
            as (sub & Hsub & Hss & Hs0 & Hsl & Hsp0 & Hse & Hssig & Hsdep & _).
          { rewrite Hp1. lia. } { rewrite Hl1. lia. }
          { exists (rest ++ t). rewrite Hr1. cbn [app]. now rewrite <- !app_assoc. }
          { rewrite Hp1, !len_app. lia. }
          rewrite Hsub. cbn [bind].
          assert (K1 : (gheight key <= fuel)%nat) by lia.
          assert (K2 : r_e sub = e) by congruence.
          assert (K3 : gis_fixed (gsig key) = true) by (now rewrite Hsk).
          assert (K4 : r_sig sub = gsig key) by congruence.
          assert (K5 : dep_ok (r_dep sub)) by (now rewrite Hsdep, Hd1).
          assert (K6 : gfits (r_dep sub) key) by (unfold gfits; now rewrite Hsdep, Hd1).
          assert (K7 : r_len sub < big) by (rewrite Hsl; unfold big in *; lia).
          assert (K8 : starts sub ((pad (r_pos0 sub + r_pos sub) (galign (gsig key)) ++ gvb e key) ++ vb)).
          { rewrite Hsp0, Hs0, N.add_0_r. rewrite (pad_aligned _ _ (galign_nz _) Halk). cbn [app]. fold kb. exact Hss. }
          destruct (rt_fixed_all key fuel sub (vb) K1 K2 Hwk Hpk K3 K4 K5 K6 K7 K8) as (sub' & Hdec & Hsub').
          rewrite Hdec. cbn [bind]. rewrite Hsp0, Hs0, N.add_0_r in Hsub'. rewrite (pad_aligned _ _ (galign_nz _) Halk) in Hsub'.
          cbn [app] in Hsub'. rewrite N.add_0_l in Hsub'. fold kb in Hsub'. rewrite Hsub'.
          set (st2 := adv st1 (len kb)).
          assert (Hp2 : r_pos st2 = r_pos st + len P + len kb) by reflexivity.
          assert (He2 : r_e st2 = e) by exact He.
          assert (Hd2 : r_dep st2 = r_dep st) by reflexivity.
          destruct (N.ltb_spec (a_start a + a_len a) (r_pos st2)); [lia|]. cbn [bind].
          destruct (sub_starts st2 (r_pos st + len E) vs (r_dep st2) vb)
            as (vsub & Hvsub & Hvss & Hvs0 & Hvsl & Hvsp0 & Hvse & Hvssig & Hvsdep & _).
          { rewrite Hp2. lia. } { change (r_len st2) with (r_len st). lia. }
          { exists (rest ++ t). subst st2. cbn [adv r_rest]. rewrite Hr1. rewrite dropN_app_len. reflexivity. }
          { rewrite Hp2. lia. }
          rewrite Hvsub. cbn [bind].
          assert (Hpadv : pad (r_pos0 vsub + r_pos vsub) (galign (gsig x)) = pad (len kb) (galign vs)).
          { rewrite Hvsp0, Hvs0, N.add_0_r. subst st2. cbn [adv r_pos0 r_pos]. rewrite N.add_assoc, Hsx.
            apply pad_shift; [apply galign_nz|]. rewrite <- Hsx. exact Halv. }
          assert (V1 : (gheight x <= fuel)%nat) by lia.
          assert (V2 : r_e vsub = e) by congruence.
          assert (V4 : r_sig vsub = gsig x) by congruence.
          assert (V5 : dep_ok (r_dep vsub)) by (now rewrite Hvsdep, Hd2).
          assert (V6 : gfits (r_dep vsub) x) by (unfold gfits; now rewrite Hvsdep, Hd2).
          assert (V7 : r_len vsub < big) by (rewrite Hvsl; unfold big in *; lia).
          assert (V8 : holds vsub (pad (r_pos0 vsub + r_pos vsub) (galign (gsig x)) ++ gvb e x)).
          { rewrite Hpadv. fold vb. destruct Hvss as (t2 & Ht2 & Hb2). exists t2. split; [assumption|]. rewrite Hvs0, Hvsl, Hp2. lia. }
          destruct (Hx fuel vsub V1 V2 Hwx Hpx Hrx V4 V5 V6 V7 V8) as (vsub' & Hvdec & Hvsub').
          rewrite Hvdec. cbn [bind]. rewrite Hvsub', Hvsl.
          set (st3 := adv st2 (r_pos st + len E - r_pos st2)).
          assert (Hp3 : r_pos st3 = r_pos st + len E) by (subst st3; cbn [adv r_pos]; lia).
          destruct (N.ltb_spec (a_start a + a_len a) (r_pos st3)); [lia|].
          rewrite Hsk, Hsx, !sig_eqb_refl. cbn [negb orb].
          apply Hnext; try assumption; try reflexivity.
          subst st3. replace (r_pos st + len E - r_pos st2) with (len vb) by lia.
          subst st2. cbn [adv r_rest]. rewrite Hr1. rewrite dropN_app_len. cbn [app]. now rewrite dropN_app_len.
      + (* variable-size key: its end is stored in the last bytes of the entry *)
        cbn [andb] in *.
        set (w := offset_width n 1) in *.
        assert (Hw1 : 1 <= w) by apply offset_width_pos.
        assert (Hltl : len tl = w) by (subst tl; rewrite len_le_bytes; lia).
        cbn [garr_done].
        rewrite Hpadrun. cbn [bind]. rewrite Hkos. fold st1.
        assert (Hee : a_start a + (off + len E) = r_pos st + len E) by lia.
        rewrite Hee.
        destruct (N.ltb_spec (r_pos st + len E) (r_pos st1)); [rewrite Hp1 in *; lia|].
        replace (r_pos st + len E - r_pos st1) with (n + w * 1) by (rewrite Hp1; lia).
        unfold w at 1. rewrite (for_encoded_framing n 1) by lia. fold w. cbn [bind].
        destruct (N.ltb_spec (r_len st1) (r_pos st + len E)); [rewrite Hl1 in *; lia|].
        assert (Hrl : read_last st1 (r_pos st1) (r_pos st + len E) w = Ok (len kb)).
        { apply (read_last_at st1 (r_pos st1) (r_pos st + len E) w (len kb) (kb ++ vb) (rest ++ t)); try assumption.
          - rewrite Hp1. lia.
          - apply offset_fits; [lia|]. fold w. lia.
          - rewrite Hr1. subst tl. now rewrite <- !app_assoc.
          - rewrite Hp1, len_app. lia. }
        rewrite Hrl. cbn [bind].
        destruct (sub_starts st1 (r_pos st1 + len kb) (a_child a) (r_dep st1) kb)
          as (sub & Hsub & Hss & Hs0 & Hsl & Hsp0 & Hse & Hssig & Hsdep & _).
        { lia. } { rewrite Hl1, Hp1. lia. }
        { exists (vb ++ tl ++ rest ++ t). exact Hr1. }
        { lia. }
        rewrite Hsub. cbn [bind].
        assert (K1 : (gheight key <= fuel)%nat) by lia.
        assert (K2 : r_e sub = e) by congruence.
        assert (K4 : r_sig sub = gsig key) by congruence.
        assert (K5 : dep_ok (r_dep sub)) by (now rewrite Hsdep, Hd1).
        assert (K6 : gfits (r_dep sub) key) by (unfold gfits; now rewrite Hsdep, Hd1).
        assert (K7 : r_len sub < big) by (rewrite Hsl; unfold big in *; lia).
        assert (K8 : holds sub (pad (r_pos0 sub + r_pos sub) (galign (gsig key)) ++ gvb e key)).
        { rewrite Hsp0, Hs0, N.add_0_r. rewrite (pad_aligned _ _ (galign_nz _) Halk). cbn [app]. fold kb. destruct Hss as (t2 & Ht2 & Hb2). exists t2. split; [assumption|]. rewrite Hs0, Hsl. lia. }
        destruct (Hk fuel sub K1 K2 Hwk Hpk Hrk K4 K5 K6 K7 K8) as (sub' & Hdec & Hsub').
        rewrite Hdec. cbn [bind]. rewrite Hsub', Hsl.
        replace (r_pos st1 + len kb - r_pos st1) with (len kb) by lia.
        set (st2 := adv st1 (len kb)).
        assert (Hp2 : r_pos st2 = r_pos st + len P + len kb) by reflexivity.
          assert (He2 : r_e st2 = e) by exact He.
          assert (Hd2 : r_dep st2 = r_dep st) by reflexivity.
        destruct (N.ltb_spec (a_start a + a_len a) (r_pos st2)); [lia|]. cbn [bind].
        destruct (N.ltb_spec (r_pos st + len E) w); [lia|]. cbn [bind].
        destruct (sub_starts st2 (r_pos st + len E - w) vs (r_dep st2) vb)
          as (vsub & Hvsub & Hvss & Hvs0 & Hvsl & Hvsp0 & Hvse & Hvssig & Hvsdep & _).
        { rewrite Hp2. lia. } { change (r_len st2) with (r_len st). lia. }
        { exists (tl ++ rest ++ t). subst st2. cbn [adv r_rest]. rewrite Hr1. now rewrite dropN_app_len. }
        { rewrite Hp2. lia. }
        rewrite Hvsub. cbn [bind].
        assert (Hpadv : pad (r_pos0 vsub + r_pos vsub) (galign (gsig x)) = pad (len kb) (galign vs)).
        { rewrite Hvsp0, Hvs0, N.add_0_r. subst st2. cbn [adv r_pos0 r_pos]. rewrite N.add_assoc, Hsx.
          apply pad_shift; [apply galign_nz|]. rewrite <- Hsx. exact Halv. }
        assert (V1 : (gheight x <= fuel)%nat) by lia.
        assert (V2 : r_e vsub = e) by congruence.
        assert (V4 : r_sig vsub = gsig x) by congruence.
        assert (V5 : dep_ok (r_dep vsub)) by (now rewrite Hvsdep, Hd2).
        assert (V6 : gfits (r_dep vsub) x) by (unfold gfits; now rewrite Hvsdep, Hd2).
        assert (V7 : r_len vsub < big) by (rewrite Hvsl; unfold big in *; lia).
        assert (V8 : holds vsub (pad (r_pos0 vsub + r_pos vsub) (galign (gsig x)) ++ gvb e x)).
        { rewrite Hpadv. fold vb. destruct Hvss as (t2 & Ht2 & Hb2). exists t2. split; [assumption|]. rewrite Hvs0, Hvsl, Hp2. lia. }
        destruct (Hx fuel vsub V1 V2 Hwx Hpx Hrx V4 V5 V6 V7 V8) as (vsub' & Hvdec & Hvsub').
        rewrite Hvdec. cbn [bind]. rewrite Hvsub', Hvsl.
        set (st3 := adv (adv st2 (r_pos st + len E - w - r_pos st2)) w).
        assert (Hp3 : r_pos st3 = r_pos st + len E) by (subst st3; cbn [adv r_pos]; lia).
        destruct (N.ltb_spec (a_start a + a_len a) (r_pos st3)); [lia|].
        rewrite Hsk, Hsx, !sig_eqb_refl. cbn [negb orb].
        apply Hnext; try assumption; try reflexivity.
        subst st3. replace (r_pos st + len E - w - r_pos st2) with (len vb) by lia.
        subst st2. cbn [adv r_rest]. rewrite Hr1. rewrite dropN_app_len, dropN_app_len.
        rewrite <- Hltl. now rewrite dropN_app_len.
  Qed.

  Lemma tuple_bytes_len_ge al s sr ps : len (concat ps) <= len (tuple_bytes al (s :: sr) ps).
  Proof. unfold tuple_bytes. destruct (forallb gis_fixed (s :: sr)); rewrite len_app; lia. Qed.

  Lemma entry_len_le ks vs l : forall off p, In p l ->
    len (concat (entry_parts e vs p)) <= len (concat (geparts e ks vs l off)).
  Proof.
    induction l as [|q l IH]; intros off p Hin; [destruct Hin|]. cbn [geparts concat]. rewrite !len_app.
    destruct Hin as [->|Hin].
    - pose proof (tuple_bytes_len_ge (N.max (galign ks) (galign vs)) ks [vs] (entry_parts e vs p)). lia.
    - specialize (IH (off + len (pad off (N.max (galign ks) (galign vs)) ++ tuple_bytes (N.max (galign ks) (galign vs)) [ks; vs] (entry_parts e vs q))) p Hin).
      rewrite len_app in IH. lia.
  Qed.

  Lemma geparts_count ks vs l : forall off,
    (forall p, In p l -> 1 <= len (gvb e (fst p))) -> N.of_nat (length l) <= len (concat (geparts e ks vs l off)).
  Proof.
    induction l as [|q l IH]; intros off Hk; [cbn; lia|]. cbn [geparts concat length]. rewrite !len_app.
    pose proof (tuple_bytes_len_ge (N.max (galign ks) (galign vs)) ks [vs] (entry_parts e vs q)) as Hge.
    unfold entry_parts in Hge at 1. cbn [concat] in Hge. rewrite !len_app in Hge.
    specialize (Hk q (or_introl eq_refl)) as Hq.
    specialize (IH (off + len (pad off (N.max (galign ks) (galign vs)) ++ tuple_bytes (N.max (galign ks) (galign vs)) [ks; vs] (entry_parts e vs q)))
                   (fun p Hp => Hk p (or_intror Hp))).
    rewrite len_app in IH. lia.
  Qed.
  Lemma length_geparts ks vs l off : length (geparts e ks vs l off) = length l.
  Proof. revert off. induction l as [|q l IH]; intros off; cbn [geparts length]; [reflexivity|]. now rewrite IH. Qed.

  Lemma rt_dict ks vs l : Forall (fun p => rt (fst p) /\ rt (snd p)) l -> rt (GDict ks vs l).
  Proof.
    intros HF fuel st Hfuel He Hw Hp Hr Hs Hd Hf Hl Hst. destruct fuel as [|f]; [cbn in Hfuel; lia|].
    rewrite gheight_dict in Hfuel.
    pose proof (pre_align e _ Hp Hw) as Hal. cbn [gsig galign] in *.
    destruct (pre_node e _ Hp) as (_ & Hnt & _ & Hsmall).
    cbn [gwf] in Hw. apply andb_true_iff in Hw as [Hw Hwl]. apply andb_true_iff in Hw as [Hkb Hvs].
    unfold pre in Hp. rewrite all_nodes_dict in Hp. apply andb_true_iff in Hp as [_ Hpl].
    apply rtok_dict in Hr.
    unfold gfits in Hf. cbn [gdepth_ok] in Hf. apply andb_true_iff in Hf as [Hf Hfl]. apply andb_true_iff in Hf as [Hf1 Hf2].
    apply N.leb_le in Hf1, Hf2.
    destruct (inc_array_good _ Hd Hf1 Hf2) as (d' & Hinc & Hdec & Hd' & Hs' & Ha' & Ht').
    set (al := N.max (galign ks) (galign vs)) in *.
    assert (Hal0 : al <> 0) by (apply pow2_nz, pow2_max; apply galign_pow2).
    rewrite gvb_dict in Hst, Hsmall. cbv zeta in Hst, Hsmall.
    set (ps := geparts e ks vs l 0) in *. set (data := concat ps) in *.
    set (p := padn (r_pos0 st + r_pos st) al).
    unfold gde. rewrite (gde_gen_dict read_last_checked f st ks vs Hs). rewrite Hs, Hal.
    rewrite (gparse_padding_starts st al _ (holds_starts _ _ Hst)). cbn [bind]. fold p.
    apply holds_after_pad in Hst. fold p in Hst.
    assert (Hal2 : (r_pos0 (adv st p) + r_pos (adv st p)) mod al = 0).
    { cbn [adv r_pos0 r_pos]. rewrite N.add_assoc. subst p. now apply padn_after. }
    (* the entries *)
    assert (Hok : Forall (dentry_ok d' ks vs) l).
    { apply Forall_forall. intros q Hq.
      rewrite forallb_forall in Hwl, Hpl, Hfl, Hr. specialize (Hwl q Hq). specialize (Hpl q Hq). specialize (Hfl q Hq). specialize (Hr q Hq).
      apply andb_true_iff in Hwl as [Hwl Hq4]. apply andb_true_iff in Hwl as [Hwl Hq3]. apply andb_true_iff in Hwl as [Hq1 Hq2].
      apply sig_eqb_eq in Hq3, Hq4. apply andb_true_iff in Hpl as [Hq5 Hq6]. apply andb_true_iff in Hfl as [Hq7 Hq8].
      apply andb_true_iff in Hr as [Hq9 Hq10].
      unfold dentry_ok. rewrite Hs', Ha', Ht'. repeat split; try assumption.
      - intros Hfx. cbn [node_tail] in Hnt. rewrite Hfx in Hnt. cbn [andb] in Hnt.
        destruct (padn (len (concat (entry_parts e vs q))) al =? 0) eqn:Hz; [now apply N.eqb_eq in Hz|].
        exfalso. rewrite <- Bool.not_true_iff_false in Hnt. apply Hnt. apply existsb_exists. exists q. split; [assumption|].
        change (N.max (galign ks) (galign vs)) with al. now rewrite Hz.
      - pose proof (entry_len_le ks vs l 0 q Hq) as Hle. fold ps data in Hle.
        assert (len data < 2 ^ 60) by (destruct (gis_fixed ks && gis_fixed vs); [assumption|rewrite len_app in Hsmall; lia]).
        change (2 ^ 60) with 1152921504606846976 in *. lia. }
    (* ArrayDeserializer::new *)
    unfold garr_new. change (r_dep (adv st p)) with (r_dep st). rewrite Hinc. cbn [bind].
    change (r_sig (rset_dep (adv st p) d')) with (r_sig st). rewrite Hs, Hal.
    rewrite gparse_padding_aligned by (assumption || exact Hal2). cbn [bind].
    destruct Hst as (t & Ht & Hb). cbn [adv r_pos r_len r_rest] in Ht, Hb.
    cbn [rset_dep adv r_len r_pos r_sig]. destruct (N.ltb_spec (r_len st) (r_pos st + p)); [rewrite ?len_app in Hb; lia|]. rewrite Hs. cbn [bind].
    change fixed_sized with gis_fixed.
    destruct (gis_fixed ks && gis_fixed vs) eqn:Hfx.
    - (* fixed-size entries *)
      cbn [bind a_offs].
      set (a := {| a_len := r_len st - (r_pos st + p); a_start := r_pos st + p; a_al := al; a_child := ks; a_vsig := Some vs;
                   a_offs := None; a_offs_len := 0; a_kos := None |}).
      apply andb_true_iff in Hfx as [Hfk Hfv].
      pose proof (dict_loop_rt l HF f (S (N.to_nat (r_len st))) (rset_dep (adv st p) d') a ks vs [] 0 t) as Hrun.
      rewrite Hfk, Hfv in Hrun. cbn [andb] in Hrun.
      destruct Hrun as (st' & Hrun & Hp'); subst a;
        cbn [rset_dep adv r_e r_dep r_len r_pos r_pos0 r_rest a_child a_offs a_offs_len a_start a_len a_al a_kos]; try assumption; try reflexivity; try lia.
      + assert (Hc : N.of_nat (length l) <= len data).
        { subst data ps. apply geparts_count. intros q Hq. rewrite Forall_forall in Hok. destruct (Hok q Hq) as (Hq1 & _ & Hq3 & _).
          apply fixed_nonempty; [assumption|now rewrite Hq3]. }
        lia.
      + fold ps data. lia.
      + cbn [rset_dep adv r_len] in Hrun. unfold gde in Hrun. rewrite Hrun. cbn [bind frev rev_append app].
        exists st'. split; [reflexivity|]. cbn [a_start a_len a_offs_len] in Hp'. rewrite Hp'. lia.
    - (* entries delimited by framing offsets *)
      set (ends := ends_from 0 ps) in *. set (F := framing (len data) ends) in *.
      assert (Hsm : len data + 8 * N.of_nat (length ps) <= 18446744073709551615).
      { rewrite len_app in Hsmall. subst F. rewrite len_framing in Hsmall. subst ends. rewrite length_ends_from in Hsmall.
        pose proof (offset_width_pos (len data) (N.of_nat (length ps))) as Hw1.
        change (2 ^ 60) with 1152921504606846976 in Hsmall. nia. }
      assert (Hholds : holds (rset_dep (adv st p) d') (data ++ F)).
      { exists t. cbn [rset_dep adv r_rest r_pos r_len]. split; [exact Ht|exact Hb]. }
      rewrite (from_encoded_run _ ps Hsm Hholds). fold data ends F. cbn [bind].
      rewrite len_app in Hb.
      destruct (N.ltb_spec (r_len st - (r_pos st + p)) (len F)); [lia|]. cbn [bind a_offs].
      set (a := {| a_len := r_len st - (r_pos st + p) - len F; a_start := r_pos st + p; a_al := al; a_child := ks; a_vsig := Some vs;
                   a_offs := Some ends; a_offs_len := len F; a_kos := if gis_fixed ks then None else Some 1 |}).
      pose proof (dict_loop_rt l HF f (S (N.to_nat (r_len st))) (rset_dep (adv st p) d') a ks vs [] 0 (F ++ t)) as Hrun.
      rewrite Hfx in Hrun.
      destruct Hrun as (st' & Hrun & Hp'); subst a;
        cbn [rset_dep adv r_e r_dep r_len r_pos r_pos0 r_rest a_child a_offs a_offs_len a_start a_len a_al a_kos]; try assumption; try reflexivity; try lia.
      + destruct l as [|q0 l0]; [cbn; lia|].
        assert (HlF : N.of_nat (length (q0 :: l0)) <= len F).
        { subst F. rewrite len_framing. subst ends ps. rewrite length_ends_from, length_geparts.
          pose proof (offset_width_pos (len data) (N.of_nat (length (q0 :: l0)))). nia. }
        lia.
      + fold ps data. lia.
      + fold ps data. rewrite Ht. now rewrite <- app_assoc.
      + cbn [rset_dep adv r_len] in Hrun. unfold gde in Hrun. fold ps ends in Hrun. rewrite Hrun. cbn [bind frev rev_append app].
        exists st'. split; [reflexivity|]. cbn [a_start a_len a_offs_len] in Hp'. rewrite Hp'. lia.
  Qed.

  (* ---------- the round-trip theorem ---------- *)
  Theorem rt_all : forall v, rt v.
  Proof.
    induction v using gval_ind'.
    - apply rt_of_fixed; reflexivity. - apply rt_of_fixed; reflexivity. - apply rt_of_fixed; reflexivity.
    - apply rt_of_fixed; reflexivity. - apply rt_of_fixed; reflexivity. - apply rt_of_fixed; reflexivity.
    - apply rt_of_fixed; reflexivity. - apply rt_of_fixed; reflexivity. - apply rt_of_fixed; reflexivity.
    - apply rt_str. - apply rt_sigv. - apply rt_path. - now apply rt_variant.
    - apply rt_of_fixed; reflexivity.
    - destruct (gis_fixed el) eqn:Hfx; [now apply rt_array_fixed|now apply rt_array_var].
    - now apply rt_dict.
    - destruct (forallb gis_fixed (map gsig l)) eqn:Hfx; [apply rt_of_fixed; exact Hfx|now apply rt_struct_var].
    - apply rt_nothing. - now apply rt_just.
  Qed.
End R.

(* ---------- fuel: a value within the nesting limits is at most 65 levels high ---------- *)
Lemma gheights_le l n : Forall (fun x => (gheight x <= n)%nat) l -> (gheights l <= n)%nat.
Proof. induction 1 as [|x r Hx Hr IH]; cbn [gheights]; lia. Qed.

Lemma gheight_limit : forall v ds da dv, ds + da + dv <= 64 -> gdepth_ok ds da dv v = true ->
  N.of_nat (gheight v) + ds + da + dv <= 65.
Proof.
  induction v using gval_ind'; intros ds da dv Hs Hd; try (cbn [gheight]; lia).
  - cbn [gdepth_ok] in Hd. apply andb_true_iff in Hd as [H1 H2]. apply N.leb_le in H1.
    specialize (IHv ds da (dv + 1) ltac:(lia) H2). cbn [gheight]. lia.
  - cbn [gdepth_ok] in Hd. apply andb_true_iff in Hd as [Hd H3]. apply andb_true_iff in Hd as [H1 H2]. apply N.leb_le in H1, H2.
    rewrite gheight_array.
    assert (Hl : (gheights l <= N.to_nat (64 - ds - da - dv))%nat).
    { apply gheights_le. rewrite Forall_forall in H. apply Forall_forall. intros x Hx.
      rewrite forallb_forall in H3. specialize (H x Hx ds (da + 1) dv ltac:(lia) (H3 x Hx)). lia. }
    lia.
  - cbn [gdepth_ok] in Hd. apply andb_true_iff in Hd as [Hd H3]. apply andb_true_iff in Hd as [H1 H2]. apply N.leb_le in H1, H2.
    assert (Hl : forall l0 : list (gval * gval), Forall (fun p => (forall ds da dv, ds + da + dv <= 64 -> gdepth_ok ds da dv (fst p) = true -> N.of_nat (gheight (fst p)) + ds + da + dv <= 65)
                            /\ (forall ds da dv, ds + da + dv <= 64 -> gdepth_ok ds da dv (snd p) = true -> N.of_nat (gheight (snd p)) + ds + da + dv <= 65)) l0 ->
                 forallb (fun p => gdepth_ok ds (da + 1) dv (fst p) && gdepth_ok ds (da + 1) dv (snd p)) l0 = true ->
                 ((fix go (l1 : list (gval * gval)) : nat := match l1 with [] => 0%nat | (k, x) :: r => Nat.max (Nat.max (gheight k) (gheight x)) (go r) end) l0
                  <= N.to_nat (64 - ds - da - dv))%nat).
    { induction 1 as [|[k x] r [Hk Hx] Hr IH]; intros Hall; [lia|]. cbn [forallb fst snd] in *.
      apply andb_true_iff in Hall as [Hkx Hall]. apply andb_true_iff in Hkx as [Hk1 Hx1].
      specialize (Hk ds (da + 1) dv ltac:(lia) Hk1). specialize (Hx ds (da + 1) dv ltac:(lia) Hx1). specialize (IH Hall). lia. }
    specialize (Hl l H H3). cbn [gheight]. lia.
  - cbn [gdepth_ok] in Hd. apply andb_true_iff in Hd as [Hd H3]. apply andb_true_iff in Hd as [H1 H2]. apply N.leb_le in H1, H2.
    rewrite gheight_struct.
    assert (Hl : (gheights l <= N.to_nat (64 - ds - da - dv))%nat).
    { apply gheights_le. rewrite Forall_forall in H. apply Forall_forall. intros x Hx.
      rewrite forallb_forall in H3. specialize (H x Hx (ds + 1) da dv ltac:(lia) (H3 x Hx)). lia. }
    lia.
  - cbn [gdepth_ok] in Hd. apply andb_true_iff in Hd as [H1 H2]. apply N.leb_le in H1.
    specialize (IHv ds da (dv + 1) ltac:(lia) H2). cbn [gheight]. lia.
Qed.

Lemma within_limits_fuel v : gwithin_limits v = true -> (gheight v <= 65)%nat.
Proof. intros H. pose proof (gheight_limit v 0 0 0 ltac:(lia) H). lia. Qed.

(* ---------- C02, GVariant half ---------- *)
(* the value with its own signature: what the serializer writes is read back as the same value, consuming all of it *)
Theorem gv_roundtrip_plain e pos v :
  gwf v = true -> gwithin_limits v = true -> gplain v = true -> gsmall e v = true -> known_c05 e v = false -> rtok v = true ->
  forall fuel, (65 <= fuel)%nat ->
  exists b st', gser_top e pos (gsig v) (sval_of v) = Ok (b, []) /\
                gde fuel (ginit_dst e pos (gsig v) b []) = Ok (v, st') /\ r_pos st' = len b.
Proof.
  intros Hw Hl Hp Hs Hk Hr fuel Hfuel.
  exists (gv_marshal e pos v).
  assert (Hser : gser_top e pos (gsig v) (sval_of v) = Ok (gv_marshal e pos v, [])).
  { apply gser_top_exact. repeat split; assumption. }
  pose proof (pre_split e v Hk Hs Hp) as Hpre.
  destruct (rt_all e v fuel (ginit_dst e pos (gsig v) (gv_marshal e pos v) [])) as (st' & Hdec & Hpos); try assumption; try reflexivity.
  - pose proof (within_limits_fuel v Hl). lia.
  - split; cbn; lia.
  - cbn [ginit_dst r_len]. pose proof (pre_node e v Hpre) as (_ & _ & _ & Hsm).
    unfold gv_marshal. rewrite (renum_plain v 0 Hp). rewrite len_app, len_pad.
    assert (padn pos (galign (gsig v)) < galign (gsig v)) by (apply DBus.SerProofs.padn_spec, galign_nz).
    destruct (galign_pow2 (gsig v)) as [Hq|[Hq|[Hq|Hq]]]; rewrite Hq in *; unfold big;
      change (2 ^ 60) with 1152921504606846976 in Hsm; lia.
  - unfold gv_marshal. rewrite (renum_plain v 0 Hp). exists []. cbn [ginit_dst r_rest r_pos r_len r_pos0].
    rewrite N.add_0_r, app_nil_r. split; [reflexivity|lia].
  - exists st'. repeat split; assumption.
Qed.
