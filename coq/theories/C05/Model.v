(* C05/Model.v — executable mirror of zvariant::gvariant::Serializer (zvariant/src/gvariant/ser.rs), of
   FramingOffsets / FramingOffsetSize (framing_offsets.rs, framing_offset_size.rs) and of
   Signature::alignment(Format::GVariant) / Signature::is_fixed_sized (zvariant_utils/src/signature/mod.rs),
   as a function of the serde event tree (DBus.Ser.sval).  One function per method, same case splits, same order
   of effects.  Basic types are delegated to the model of the D-Bus serializer (DBus.Ser.ser), as the Rust does.
   Representation choices (no behaviour): the writer is a reversed byte list plus the counter bytes_written
   (the GVariant serializer never seeks); the offsets of a SeqSerializer are kept in reverse (only push and
   write_all are used on it), those of a StructSerializer front-first (push_front, peek, pop, write_all).
   No proofs here. *)
From ZV Require Import Base.Bytes Base.Res Base.Sig Base.SigParse DBus.Val DBus.Spec DBus.Ser C05.Val.
Local Open Scope N_scope.

(* Signature::alignment_gvariant — Unit, Bool, ... go through alignment_dbus *)
Fixpoint align_gv (s : sig) : N :=
  match s with
  | SU8 | SSig | SStr | SObjPath => 1
  | SI16 | SU16 => 2
  | SBool | SI32 | SU32 | SFd => 4
  | SI64 | SU64 | SF64 | SUnit | SVariant => 8
  | SArray c | SMaybe c => align_gv c
  | SDict k v => N.max (align_gv k) (align_gv v)
  | SStruct fs => (fix go (l : list sig) : N := match l with [] => 1 | f :: r => N.max (align_gv f) (go r) end) fs
  end.

(* Signature::is_fixed_sized *)
Fixpoint fixed_sized (s : sig) : bool :=
  match s with
  | SUnit | SU8 | SBool | SI16 | SU16 | SI32 | SU32 | SI64 | SU64 | SF64 | SFd => true
  | SStr | SSig | SObjPath | SVariant | SArray _ | SDict _ _ | SMaybe _ => false
  | SStruct fs => (fix go (l : list sig) : bool := match l with [] => true | f :: r => fixed_sized f && go r end) fs
  end.

(* ---------- FramingOffsetSize ---------- *)
Definition fos_max (w : N) : N := 2 ^ (8 * w) - 1.
(* for_bare_container: start at U8, bump_up until it fits; bump_up of U64 is None -> expect() panics *)
Definition for_bare_container (container_len num_offsets : N) : res cerr N :=
  (fix go (ws : list N) : res cerr N :=
     match ws with
     | [] => Panic PUnwrap
     | w :: r => if container_len + num_offsets * w <=? fos_max w then Ok w else go r
     end) [1; 2; 4; 8].
Definition for_encoded_container (container_len : N) : res cerr N := for_bare_container container_len 0.
(* write_offset: `offset as u8/u16/u32/u64`, little endian *)
Definition offset_bytes (w : N) (offset : N) : bytes := le_bytes (N.to_nat w) offset.

(* ---------- serializer state ---------- *)
Record gstate := {
  g_e : endian; g_pos0 : N;
  g_rout : bytes;                (* everything written so far, last byte first *)
  g_written : N;                 (* bytes_written *)
  g_sig : sig; g_vsign : option sig; g_dep : depths; g_fds : fdlist }.

Definition gset_sig st g := {| g_e := g_e st; g_pos0 := g_pos0 st; g_rout := g_rout st; g_written := g_written st; g_sig := g; g_vsign := g_vsign st; g_dep := g_dep st; g_fds := g_fds st |}.
Definition gset_vsign st g := {| g_e := g_e st; g_pos0 := g_pos0 st; g_rout := g_rout st; g_written := g_written st; g_sig := g_sig st; g_vsign := g; g_dep := g_dep st; g_fds := g_fds st |}.
Definition gset_dep st d := {| g_e := g_e st; g_pos0 := g_pos0 st; g_rout := g_rout st; g_written := g_written st; g_sig := g_sig st; g_vsign := g_vsign st; g_dep := d; g_fds := g_fds st |}.
Definition gset_fds st f := {| g_e := g_e st; g_pos0 := g_pos0 st; g_rout := g_rout st; g_written := g_written st; g_sig := g_sig st; g_vsign := g_vsign st; g_dep := g_dep st; g_fds := f |}.

(* linear-time list reversal (List.rev is quadratic) *)
Definition frev {A} (l : list A) : list A := rev_append l [].

Definition gout (st : gstate) : bytes := frev (g_rout st).
Definition gabs (st : gstate) : N := g_pos0 st + g_written st.
(* Write for SerializerCommon: write the bytes and add to bytes_written *)
Definition gwr (st : gstate) (b : bytes) : gstate :=
  {| g_e := g_e st; g_pos0 := g_pos0 st; g_rout := rev_append b (g_rout st); g_written := g_written st + len b;
     g_sig := g_sig st; g_vsign := g_vsign st; g_dep := g_dep st; g_fds := g_fds st |}.
(* add_padding *)
Definition gpadded (st : gstate) (al : N) : gstate := gwr st (zeros (padn (gabs st) al)).

(* container_depths.rs (gvariant feature): inc_maybe / dec_maybe *)
Definition inc_maybe d := dcheck {| d_struct := d_struct d; d_array := d_array d; d_variant := d_variant d; d_maybe := d_maybe d + 1 |}.
Definition dec_maybe d := {| d_struct := d_struct d; d_array := d_array d; d_variant := d_variant d; d_maybe := d_maybe d - 1 |}.

(* serialize_basic!: a D-Bus serializer over the same writer, with ctxt = new_dbus(endian, position), the same
   bytes_written, signature, fds and container depths; only bytes_written (and the fds) flow back *)
Definition dbus_basic (x : sval) (st : gstate) : res cerr gstate :=
  let d := {| s_cfg := {| c_gv := true; c_oaa := false |}; s_e := g_e st; s_pos0 := gabs st; s_out := [];
              s_sig := g_sig st; s_vsign := None; s_dep := g_dep st; s_fds := g_fds st |} in
  let* d' := DBus.Ser.ser x d in
  Ok (gset_fds (gwr st (s_out d')) (s_fds d')).

(* serialize_str *)
Definition gser_str (st : gstate) (v : bytes) : res cerr gstate :=
  match g_sig st with
  | SVariant => match parse_sig true v with
                | Some p => Ok (gset_vsign st (Some p))      (* the signature is written after the value *)
                | None => Err ESigParse
                end
  | _ => Ok (gwr (gwr st v) [x00])
  end.

(* FramingOffsets::write_all (offsets in writing order) *)
Definition write_all (st : gstate) (offsets : list N) (container_len : N) : res cerr gstate :=
  match offsets with
  | [] => Ok st
  | _ => let* w := for_bare_container container_len (N.of_nat (length offsets)) in
         Ok (fold_left (fun s o => gwr s (offset_bytes w o)) offsets st)
  end.

(* serialize_seq: returns (state, start, element_alignment, offsets (reversed) if any, array_signature) *)
Definition gseq_begin st : res cerr (gstate * N * N * option (list N) * sig) :=
  let signature := g_sig st in
  let al := align_gv signature in
  let st := gpadded st al in
  let* (child, fixed) := match signature with
                          | SArray c => Ok (c, fixed_sized c)
                          | SDict k v => Ok (k, fixed_sized k && fixed_sized v)
                          | _ => Err ESigMismatch
                          end in
  let offsets := if fixed then None else Some [] in
  let st := gset_sig st child in
  let* d := inc_array (g_dep st) in
  let st := gset_dep st d in
  Ok (st, g_written st, al, offsets, signature).

(* SeqSerializer::end_seq *)
Definition gseq_end st (start : N) (roffs : option (list N)) (array_sig : sig) : res cerr gstate :=
  let st := gset_sig (gset_dep st (dec_array (g_dep st))) array_sig in
  match roffs with
  | None => Ok st
  | Some ro =>
      let array_len := g_written st - start in
      if array_len =? 0 then Ok st            (* "Empty sequence" *)
      else write_all st (frev ro) array_len
  end.

(* after SeqSerializer::serialize_element / MapSerializer::serialize_value: offsets.push(bytes_written - start) *)
Definition push_end (st : gstate) (start : N) (roffs : option (list N)) : option (list N) :=
  match roffs with Some ro => Some ((g_written st - start) :: ro) | None => None end.

(* what serialize_struct returns *)
Inductive gkind :=
| KStructG (start : N) (offs : option (list N)) (saved : depths)
| KSeqG (start : N) (roffs : option (list N)) (asig : sig)
| KMapG (start al : N) (roffs : option (list N)) (asig ksig vsig : sig) (key_start : option N).

(* serialize_map up to the MapSerializer *)
Definition gmap_begin st : res cerr (gstate * gkind) :=
  match g_sig st with
  | SDict k v =>
      let key_start := if fixed_sized k then None else Some 0 in
      let* (st, start, al, roffs, asig) := gseq_begin st in
      Ok (st, KMapG start al roffs asig k v key_start)
  | _ => Err ESigMismatch
  end.

(* serialize_struct *)
Definition gstruct_begin st : res cerr (gstate * gkind) :=
  let st := gpadded st (align_gv (g_sig st)) in
  match g_sig st with
  | SVariant =>                                   (* StructSerializer::variant *)
      let st := gpadded st 8 in
      let* d := inc_variant (g_dep st) in
      Ok (gset_dep st d, KStructG (g_written st) None (g_dep st))
  | SArray _ => let* (st, start, al, roffs, asig) := gseq_begin st in Ok (st, KSeqG start roffs asig)
  | SU8 =>                                        (* StructSerializer::unit *)
      let* st := dbus_basic (XU8 0) st in
      Ok (st, KStructG (g_written st) None (g_dep st))
  | SStruct _ =>                                  (* StructSerializer::structure *)
      let st := gpadded st (align_gv (g_sig st)) in
      let* d := inc_struct (g_dep st) in
      Ok (gset_dep st d, KStructG (g_written st) (Some []) (g_dep st))
  | SDict _ _ => gmap_begin st
  | _ => Err ESigMismatch
  end.

(* serialize_struct_element: choice of the field signature *)
Definition gfield_sig st (idx : nat) : res cerr (sig * bool * nat) :=
  match g_sig st with
  | SVariant => match g_vsign st with
                | Some g => Ok (g, true, idx)
                | None => Ok (SVariant, false, idx)
                end
  | SStruct fs => match nth_error fs idx with Some g => Ok (g, false, S idx) | None => Err ESigMismatch end
  | _ => Panic PUnreachable
  end.

Definition gsub_of st (g : sig) : gstate := gset_vsign (gset_sig st g) None.
(* bytes_written, the writer, the fds and value_sign flow back from the field's serializer *)
Definition gback_from st (sub : gstate) : gstate :=
  {| g_e := g_e st; g_pos0 := g_pos0 st; g_rout := g_rout sub; g_written := g_written sub;
     g_sig := g_sig st; g_vsign := g_vsign sub; g_dep := g_dep st; g_fds := g_fds sub |}.

(* the tail of serialize_struct_element, after the field has been serialized *)
Definition gfield_done st (start : N) (offs : option (list N)) (fsig : sig) (is_value : bool) : gstate * option (list N) :=
  match g_sig st with
  | SVariant => if is_value then (gwr (gwr st [x00]) (show fsig), offs) else (st, offs)
  | _ => match offs with
         | Some o => if fixed_sized fsig then (st, offs) else (st, Some ((g_written st - start) :: o))   (* push_front *)
         | None => (st, offs)
         end
  end.

(* StructSerializer::end_struct *)
Definition gstruct_end st (start : N) (offs : option (list N)) (saved : depths) : res cerr gstate :=
  let st := gset_dep st saved in
  match offs with
  | None => Ok st
  | Some o =>
      let struct_len := g_written st - start in
      if struct_len =? 0 then Ok st
      else
        let o := match o with
                 | front :: rest => if front =? struct_len then rest else o       (* peek / pop *)
                 | [] => o
                 end in
        write_all st o struct_len
  end.

(* serialize_maybe, around the value *)
Definition gmaybe_begin st : res cerr (gstate * sig * bool) :=
  let st := gpadded st (align_gv (g_sig st)) in
  match g_sig st with
  | SMaybe c => Ok (st, c, fixed_sized c)
  | _ => Err ESigMismatch
  end.

Fixpoint gser (x : sval) (st : gstate) {struct x} : res cerr gstate :=
  let elems := fix go (l : list sval) (start : N) (roffs : option (list N)) (st : gstate) {struct l}
      : res cerr (gstate * option (list N)) :=
      match l with
      | [] => Ok (st, roffs)
      | y :: r => let* st1 := gser y st in go r start (push_end st1 start roffs) st1
      end in
  let nelems := fix go (l : list (bytes * sval)) (start : N) (roffs : option (list N)) (st : gstate) {struct l}
      : res cerr (gstate * option (list N)) :=
      match l with
      | [] => Ok (st, roffs)
      | (_, y) :: r => let* st1 := gser y st in go r start (push_end st1 start roffs) st1
      end in
  let fields := fix go (l : list sval) (idx : nat) (start : N) (offs : option (list N)) (st : gstate) {struct l}
      : res cerr (gstate * option (list N)) :=
      match l with
      | [] => Ok (st, offs)
      | y :: r => let* (g, isv, idx') := gfield_sig st idx in
                  let* sub := gser y (gsub_of st g) in
                  let '(st, offs) := gfield_done (gback_from st sub) start offs g isv in
                  go r idx' start offs st
      end in
  let nfields := fix go (l : list (bytes * sval)) (idx : nat) (start : N) (offs : option (list N)) (st : gstate) {struct l}
      : res cerr (gstate * option (list N)) :=
      match l with
      | [] => Ok (st, offs)
      | (_, y) :: r => let* (g, isv, idx') := gfield_sig st idx in
                       let* sub := gser y (gsub_of st g) in
                       let '(st, offs) := gfield_done (gback_from st sub) start offs g isv in
                       go r idx' start offs st
      end in
  (* MapSerializer::serialize_key + serialize_value for every entry; [key_ser] serializes the key *)
  let entry_tail := fun (y : sval) (start al : N) (roffs : option (list N)) (ks vs : sig) (key_start : option N)
                        (st : gstate) =>
      (* serialize_value, after the key has been written; key_start already replaced *)
      let key_offset := match key_start with Some s => Some (g_written st - s) | None => None end in
      let* st := gser y (gset_sig st vs) in
      let st := gset_sig st ks in
      let* st := match key_offset with
                 | Some ko =>
                     let entry_size := g_written st - (match key_start with Some s => s | None => 0 end) in
                     (* the entry holds entry_size bytes plus the one framing offset written here (commit c613b0b9) *)
                     let* w := for_bare_container entry_size 1 in
                     Ok (gwr st (offset_bytes w ko))
                 | None => Ok st
                 end in
      Ok (st, push_end st start roffs) in
  let entries := fix go (l : list (sval * sval)) (start al : N) (roffs : option (list N)) (ks vs : sig)
                        (key_start : option N) (st : gstate) {struct l} : res cerr (gstate * option (list N)) :=
      match l with
      | [] => Ok (st, roffs)
      | (k, y) :: r =>
          let st := gpadded st al in
          let key_start := match key_start with Some _ => Some (g_written st) | None => None end in
          let* st := gser k st in
          let* (st, roffs) := entry_tail y start al roffs ks vs key_start st in
          go r start al roffs ks vs key_start st
      end in
  let nentries := fix go (l : list (bytes * sval)) (start al : N) (roffs : option (list N)) (ks vs : sig)
                         (key_start : option N) (st : gstate) {struct l} : res cerr (gstate * option (list N)) :=
      match l with
      | [] => Ok (st, roffs)
      | (k, y) :: r =>
          let st := gpadded st al in
          let key_start := match key_start with Some _ => Some (g_written st) | None => None end in
          let* st := gser_str st k in
          let* (st, roffs) := entry_tail y start al roffs ks vs key_start st in
          go r start al roffs ks vs key_start st
      end in
  match x with
  | XBool _ | XI8 _ | XI16 _ | XI32 _ | XI64 _ | XU8 _ | XU16 _ | XU32 _ | XU64 _ | XF64 _ => dbus_basic x st
  | XStr s => gser_str st s
  | XBytes s =>
      let* (st, start, al, roffs, asig) := gseq_begin st in
      gseq_end (gwr st s) start roffs asig
  | XNone =>
      let* (st, c, fx) := gmaybe_begin st in Ok st
  | XSome y =>
      let* (st, c, fx) := gmaybe_begin st in
      let msig := g_sig st in
      let* d := inc_maybe (g_dep st) in
      let* st := gser y (gset_dep (gset_sig st c) d) in
      let st := gset_sig (gset_dep st (dec_maybe (g_dep st))) msig in
      Ok (if fx then st else gwr st [x00])
  | XUnit => Ok (gwr st [x00])
  | XSeq l =>
      let* (st, start, al, roffs, asig) := gseq_begin st in
      let* (st, roffs) := elems l start roffs st in
      gseq_end st start roffs asig
  | XTuple l =>
      let* (st, k) := gstruct_begin st in
      match k with
      | KStructG start offs saved => let* (st, offs) := fields l 0%nat start offs st in gstruct_end st start offs saved
      | KSeqG start roffs asig => let* (st, roffs) := elems l start roffs st in gseq_end st start roffs asig
      | KMapG _ _ _ _ _ _ _ => Panic PUnreachable
      end
  | XStruct l =>
      let* (st, k) := gstruct_begin st in
      match k with
      | KStructG start offs saved => let* (st, offs) := nfields l 0%nat start offs st in gstruct_end st start offs saved
      | KSeqG start roffs asig => let* (st, roffs) := nelems l start roffs st in gseq_end st start roffs asig
      | KMapG start al roffs asig ks vs key_start =>
          let* (st, roffs) := nentries l start al roffs ks vs key_start st in gseq_end st start roffs asig
      end
  | XMap l =>
      let* (st, k) := gmap_begin st in
      match k with
      | KMapG start al roffs asig ks vs key_start =>
          let* (st, roffs) := entries l start al roffs ks vs key_start st in gseq_end st start roffs asig
      | _ => Panic PUnreachable
      end
  | XUnitVariant idx name =>
      match g_sig st with SStr => gser_str st name | _ => dbus_basic (XU32 (idx mod 2 ^ 32)) st end
  (* enum variants with payload (StructSerializer::enum_variant) are outside the modelled fragment *)
  | XNewtypeVariant _ _ | XTupleVariant _ _ | XStructVariant _ _ => Err EOther
  end.

Definition ginit (e : endian) (pos : N) (g : sig) (f : fdlist) : gstate :=
  {| g_e := e; g_pos0 := pos; g_rout := []; g_written := 0; g_sig := g; g_vsign := None; g_dep := depths0; g_fds := f |}.

(* to_bytes_for_signature / serialized_size with Context::new_gvariant(e, pos) *)
Definition gser_top (e : endian) (pos : N) (g : sig) (x : sval) : res cerr (bytes * list N) :=
  let* st := gser x (ginit e pos g (FdsMode [])) in
  Ok (gout st, match g_fds st with FdsMode l => l | NumMode _ => [] end).
Definition gsize_top (e : endian) (pos : N) (g : sig) (x : sval) : res cerr (N * N) :=
  let* st := gser x (ginit e pos g (NumMode 0)) in
  Ok (g_written st, match g_fds st with NumMode n => n | FdsMode _ => 0 end).
