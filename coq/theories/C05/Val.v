(* C05/Val.v — dynamic values of the GVariant type system (zvariant::Value with the gvariant feature: DBus.Val.dval
   plus the maybe type), their signature, the text syntax shared with harness/hgv, and the serde event tree
   (DBus.Ser.sval) that zvariant's Serialize impls feed to a serializer. *)
From ZV Require Import Base.Bytes Base.Sig Base.SigParse DBus.Val DBus.Ser.

Inductive gval :=
| GU8 (n : N) | GBool (b : bool) | GI16 (z : Z) | GU16 (n : N) | GI32 (z : Z) | GU32 (n : N)
| GI64 (z : Z) | GU64 (n : N) | GF64 (bits : N)
| GStr (s : bytes)
| GSigv (s : sig) (np : bool)     (* np: the wire form omits the outer parentheses of a multi-type signature *)
| GPath (s : bytes)
| GVariant (v : gval)
| GFd (h : N)
| GArray (elem : sig) (l : list gval)
| GDict (k v : sig) (l : list (gval * gval))
| GStruct (l : list gval)
| GMaybe (child : sig) (o : option gval).

(* induction principle with Forall premises on the nested lists *)
Section GvalInd.
  Variable P : gval -> Prop.
  Hypothesis Hu8 : forall n, P (GU8 n). Hypothesis Hbool : forall b, P (GBool b).
  Hypothesis Hi16 : forall z, P (GI16 z). Hypothesis Hu16 : forall n, P (GU16 n).
  Hypothesis Hi32 : forall z, P (GI32 z). Hypothesis Hu32 : forall n, P (GU32 n).
  Hypothesis Hi64 : forall z, P (GI64 z). Hypothesis Hu64 : forall n, P (GU64 n).
  Hypothesis Hf64 : forall b, P (GF64 b).
  Hypothesis Hstr : forall s, P (GStr s). Hypothesis Hsig : forall s np, P (GSigv s np).
  Hypothesis Hpath : forall s, P (GPath s).
  Hypothesis Hvar : forall x, P x -> P (GVariant x).
  Hypothesis Hfd : forall h, P (GFd h).
  Hypothesis Harr : forall el l, Forall P l -> P (GArray el l).
  Hypothesis Hdict : forall ks vs l, Forall (fun p => P (fst p) /\ P (snd p)) l -> P (GDict ks vs l).
  Hypothesis Hstruct : forall l, Forall P l -> P (GStruct l).
  Hypothesis Hnothing : forall cs, P (GMaybe cs None).
  Hypothesis Hjust : forall cs x, P x -> P (GMaybe cs (Some x)).
  Fixpoint gval_ind' (v : gval) : P v :=
    let go := fix go (l : list gval) : Forall P l :=
        match l with [] => Forall_nil P | x :: r => Forall_cons x (gval_ind' x) (go r) end in
    match v with
    | GU8 n => Hu8 n | GBool b => Hbool b | GI16 z => Hi16 z | GU16 n => Hu16 n | GI32 z => Hi32 z | GU32 n => Hu32 n
    | GI64 z => Hi64 z | GU64 n => Hu64 n | GF64 b => Hf64 b | GStr s => Hstr s | GSigv s np => Hsig s np
    | GPath s => Hpath s | GFd h => Hfd h
    | GVariant x => Hvar x (gval_ind' x)
    | GArray el l => Harr el l (go l)
    | GDict ks vs l =>
        Hdict ks vs l ((fix gd (l : list (gval * gval)) : Forall (fun p => P (fst p) /\ P (snd p)) l :=
                          match l with
                          | [] => Forall_nil _
                          | p :: r => Forall_cons p (conj (gval_ind' (fst p)) (gval_ind' (snd p))) (gd r)
                          end) l)
    | GStruct l => Hstruct l (go l)
    | GMaybe cs None => Hnothing cs
    | GMaybe cs (Some x) => Hjust cs x (gval_ind' x)
    end.
End GvalInd.

(* Value::value_signature *)
Fixpoint gsig (v : gval) : sig :=
  match v with
  | GU8 _ => SU8 | GBool _ => SBool | GI16 _ => SI16 | GU16 _ => SU16 | GI32 _ => SI32 | GU32 _ => SU32
  | GI64 _ => SI64 | GU64 _ => SU64 | GF64 _ => SF64 | GStr _ => SStr | GSigv _ _ => SSig | GPath _ => SObjPath
  | GVariant _ => SVariant | GFd _ => SFd
  | GArray e _ => SArray e
  | GDict k v _ => SDict k v
  | GStruct l => SStruct (map gsig l)
  | GMaybe c _ => SMaybe c
  end.

(* ---------------- text syntax: DBus.Val's plus
   m CHILDSIG 0 | m CHILDSIG 1 VALUE      maybe
   A ELEMSIG COUNT VALUE                  array of COUNT copies of VALUE
   S N                                    string of N letters 'a'                                *)
Fixpoint parse_gval (fuel : nat) (ts : list bytes) {struct fuel} : option (gval * list bytes) :=
  match fuel with
  | O => None
  | S f =>
      match ts with
      | [] => None
      | t :: r =>
          let num1 (k : N -> gval) := match r with a :: r' => option_map (fun n => (k n, r')) (N_of_dec a) | [] => None end in
          let int1 (k : Z -> gval) := match r with a :: r' => option_map (fun n => (k n, r')) (Z_of_dec a) | [] => None end in
          if lbeq t (B "y") then num1 GU8
          else if lbeq t (B "b") then num1 (fun n => GBool (negb (N.eqb n 0)))
          else if lbeq t (B "n") then int1 GI16
          else if lbeq t (B "q") then num1 GU16
          else if lbeq t (B "i") then int1 GI32
          else if lbeq t (B "u") then num1 GU32
          else if lbeq t (B "x") then int1 GI64
          else if lbeq t (B "t") then num1 GU64
          else if lbeq t (B "h") then num1 GFd
          else if lbeq t (B "d") then match r with a :: r' => option_map (fun n => (GF64 n, r')) (N_of_hex a) | [] => None end
          else if lbeq t (B "s") then match r with a :: r' => option_map (fun s => (GStr s, r')) (hexs a) | [] => None end
          else if lbeq t (B "S") then num1 (fun n => GStr (repeat "a"%byte (N.to_nat n)))
          else if lbeq t (B "o") then match r with a :: r' => option_map (fun s => (GPath s, r')) (hexs a) | [] => None end
          else if lbeq t (B "g") then match r with a :: r' => option_map (fun s => (GSigv s false, r')) (sig_of_tok true a) | [] => None end
          else if lbeq t (B "v") then option_map (fun '(v, r') => (GVariant v, r')) (parse_gval f r)
          else if lbeq t (B "m") then
            match r with
            | cs :: flag :: r' =>
                match sig_of_tok true cs with
                | Some c =>
                    if lbeq flag (B "0") then Some (GMaybe c None, r')
                    else if lbeq flag (B "1") then
                      match parse_gval f r' with
                      | Some (x, r'') => if sig_eqb (gsig x) c then Some (GMaybe c (Some x), r'') else None
                      | None => None
                      end
                    else None
                | None => None
                end
            | _ => None
            end
          else if lbeq t (B "a") then
            match r with
            | es :: cnt :: r' =>
                match sig_of_tok true es, N_of_dec cnt with
                | Some e, Some n => option_map (fun '(l, r'') => (GArray e l, r'')) (parse_gvals f (N.to_nat n) r')
                | _, _ => None
                end
            | _ => None
            end
          else if lbeq t (B "A") then
            match r with
            | es :: cnt :: r' =>
                match sig_of_tok true es, N_of_dec cnt with
                | Some e, Some n => option_map (fun '(x, r'') => (GArray e (repeat x (N.to_nat n)), r'')) (parse_gval f r')
                | _, _ => None
                end
            | _ => None
            end
          else if lbeq t (B "e") then
            match r with
            | ks :: vs :: cnt :: r' =>
                match sig_of_tok true ks, sig_of_tok true vs, N_of_dec cnt with
                | Some k, Some v, Some n => option_map (fun '(l, r'') => (GDict k v l, r'')) (parse_gpairs f (N.to_nat n) r')
                | _, _, _ => None
                end
            | _ => None
            end
          else if lbeq t (B "r") then
            match r with
            | cnt :: r' =>
                match N_of_dec cnt with
                | Some n => option_map (fun '(l, r'') => (GStruct l, r'')) (parse_gvals f (N.to_nat n) r')
                | None => None
                end
            | _ => None
            end
          else None
      end
  end
with parse_gvals (fuel : nat) (n : nat) (ts : list bytes) {struct fuel} : option (list gval * list bytes) :=
  match fuel with
  | O => None
  | S f =>
      match n with
      | O => Some ([], ts)
      | S n' =>
          match parse_gval f ts with
          | Some (v, r) => option_map (fun '(l, r') => (v :: l, r')) (parse_gvals f n' r)
          | None => None
          end
      end
  end
with parse_gpairs (fuel : nat) (n : nat) (ts : list bytes) {struct fuel} : option (list (gval * gval) * list bytes) :=
  match fuel with
  | O => None
  | S f =>
      match n with
      | O => Some ([], ts)
      | S n' =>
          match parse_gval f ts with
          | Some (k, r) =>
              match parse_gval f r with
              | Some (v, r2) => option_map (fun '(l, r') => ((k, v) :: l, r')) (parse_gpairs f n' r2)
              | None => None
              end
          | None => None
          end
      end
  end.

Definition gval_of_tokens (ts : list bytes) : option gval :=
  match parse_gval (2 * length ts + 2) ts with Some (v, []) => Some v | _ => None end.

Fixpoint show_gval (v : gval) : list bytes :=
  match v with
  | GU8 n => [B "y"; dec_of_N n] | GBool b => [B "b"; if b then B "1" else B "0"]
  | GI16 z => [B "n"; dec_of_Z z] | GU16 n => [B "q"; dec_of_N n]
  | GI32 z => [B "i"; dec_of_Z z] | GU32 n => [B "u"; dec_of_N n]
  | GI64 z => [B "x"; dec_of_Z z] | GU64 n => [B "t"; dec_of_N n]
  | GF64 n => [B "d"; hex16 n]
  | GStr s => [B "s"; hext s] | GPath s => [B "o"; hext s] | GSigv s _ => [B "g"; sig_tok s]
  | GFd h => [B "h"; dec_of_N h]
  | GVariant x => B "v" :: show_gval x
  | GArray e l => B "a" :: sig_tok e :: dec_of_N (N.of_nat (length l)) :: concat (map show_gval l)
  | GDict k vs l => B "e" :: sig_tok k :: sig_tok vs :: dec_of_N (N.of_nat (length l))
                     :: concat (map (fun p => show_gval (fst p) ++ show_gval (snd p)) l)
  | GStruct l => B "r" :: dec_of_N (N.of_nat (length l)) :: concat (map show_gval l)
  | GMaybe c None => [B "m"; sig_tok c; B "0"]
  | GMaybe c (Some x) => B "m" :: sig_tok c :: B "1" :: show_gval x
  end.
Definition gval_text (v : gval) : bytes := join [sp] (show_gval v).

(* impl Serialize for Value / Array / Dict / Structure / Maybe / Str / Signature / ObjectPath / Fd *)
Fixpoint sval_of (v : gval) : sval :=
  match v with
  | GU8 n => XU8 n | GBool b => XBool b | GI16 z => XI16 z | GU16 n => XU16 n | GI32 z => XI32 z
  | GU32 n => XU32 n | GI64 z => XI64 z | GU64 n => XU64 n | GF64 b => XF64 b
  | GStr s | GPath s => XStr s
  | GSigv s _ => XStr (show s)      (* Signature::serialize = to_string(): always with outer parentheses *)
  | GFd h => XI32 (Z.of_N h)
  | GVariant x => XStruct [(B "signature", XStr (show (gsig x))); (B "value", sval_of x)]
  | GArray _ l => XSeq (map sval_of l)
  | GDict _ _ l => XMap (map (fun p => (sval_of (fst p), sval_of (snd p))) l)
  | GStruct l => XTuple (map sval_of l)
  | GMaybe _ None => XNone
  | GMaybe _ (Some x) => XSome (sval_of x)
  end.
