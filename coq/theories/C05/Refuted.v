(* C05/Refuted.v — witnesses: the full statements of C05 and of the GVariant half of C02 do not hold for the
   model of the code as it is.  One concrete value per known class, evaluated by vm_compute.  The witnesses of the two
   classes repaired upstream (dict_key_width: c613b0b9, struct_offset_underflow: b5246470) are kept as examples of the
   repaired behaviour. *)
From ZV Require Import Base.Bytes Base.Res Base.Sig Base.SigParse DBus.Val DBus.Spec DBus.Ser DBus.De
  C05.Val C05.Spec C05.Model C05.DeModel C05.Classes.
Local Open Scope N_scope.

(* what C05 demands of a value, and that it is violated *)
Definition c05_holds (e : endian) (pos : N) (v : gval) : Prop :=
  gser_top e pos (gsig v) (sval_of v) = Ok (gv_marshal e pos v, []).
Definition c05_witness (cls : gval -> bool) (v : gval) : Prop :=
  gwf v = true /\ gwithin_limits v = true /\ gplain v = true /\ gsmall LE v = true /\
  in_class cls v = true /\ ~ c05_holds LE 0 v.

Definition w_bool : gval := GBool true.
Definition w_tail : gval := GStruct [GU32 7; GU8 9].
Definition w_tail_array : gval := GArray (SStruct [SU32; SU8]) [GStruct [GU32 7; GU8 9]; GStruct [GU32 8; GU8 10]].
Definition w_empty : gval := GArray (SArray SStr) [GArray SStr []; GArray SStr []].
Definition w_empty_tuple : gval := GStruct [GArray SStr []; GArray SStr []].
Definition w_dictkey : gval := GDict SStr SStr [(GStr (B "k"), GStr (repeat "a"%byte 252))].

Lemma bool_witness : c05_witness node_bool w_bool.
Proof. repeat split; try (vm_compute; reflexivity). vm_compute. discriminate. Qed.
Lemma tail_witness : c05_witness (node_tail LE) w_tail.
Proof. repeat split; try (vm_compute; reflexivity). vm_compute. discriminate. Qed.
Lemma tail_array_witness : c05_witness (node_tail LE) w_tail_array.
Proof. repeat split; try (vm_compute; reflexivity). vm_compute. discriminate. Qed.
Lemma empty_witness : c05_witness (node_empty_offsets LE) w_empty.
Proof. repeat split; try (vm_compute; reflexivity). vm_compute. discriminate. Qed.
Lemma empty_tuple_witness : c05_witness (node_empty_offsets LE) w_empty_tuple.
Proof. repeat split; try (vm_compute; reflexivity). vm_compute. discriminate. Qed.
(* formerly the witness of class dict_key_width: key "k" + value of 252 letters = 255 bytes of entry data, so the key's
   framing offset needs 2 bytes (255 + 1 > 255); before c613b0b9 the code wrote 1.  Now the format's bytes are written. *)
Lemma dictkey_repaired :
  gwf w_dictkey = true /\ gwithin_limits w_dictkey = true /\ gplain w_dictkey = true /\ gsmall LE w_dictkey = true /\
  known_c05 LE w_dictkey = false /\ c05_holds LE 0 w_dictkey.
Proof. repeat split; vm_compute; reflexivity. Qed.

(* what the code writes and what the format prescribes, for the record *)
Example bool_bytes : gser_top LE 0 SBool (XBool true) = Ok ([x01; x00; x00; x00], []) /\ gv_marshal LE 0 w_bool = [x01].
Proof. split; reflexivity. Qed.
Example tail_bytes :
  gser_top LE 0 (gsig w_tail) (sval_of w_tail) = Ok ([x07; x00; x00; x00; x09], [])
  /\ gv_marshal LE 0 w_tail = [x07; x00; x00; x00; x09; x00; x00; x00].
Proof. split; reflexivity. Qed.
Example empty_bytes :
  gser_top LE 0 (gsig w_empty) (sval_of w_empty) = Ok ([], []) /\ gv_marshal LE 0 w_empty = [x00; x00].
Proof. split; reflexivity. Qed.
Example empty_tuple_bytes :
  gser_top LE 0 (gsig w_empty_tuple) (sval_of w_empty_tuple) = Ok ([], []) /\ gv_marshal LE 0 w_empty_tuple = [x00].
Proof. split; reflexivity. Qed.

(* ---------- C02, GVariant half: encode then decode ---------- *)
(* decode through a Structure whose signature is the value's own (non-struct signatures are wrapped) *)
Definition rt_value (e : endian) (pos : N) (v : gval) : res cerr (gval * N * N) :=
  match gser_top e pos (gsig v) (sval_of v) with
  | Ok (b, fds) => match gde_typed_top e pos (gsig v) b fds with
                   | Ok (y, n) => Ok (y, n, len b)
                   | Err x => Err x
                   | Panic p => Panic p
                   end
  | Err x => Err x
  | Panic p => Panic p
  end.
Definition c02_holds (e : endian) (pos : N) (v : gval) : Prop :=
  exists n, rt_value e pos v = Ok (v, n, n).

Lemma c02_empty_refuted : gwf w_empty = true /\ gwithin_limits w_empty = true /\ ~ c02_holds LE 0 w_empty.
Proof. repeat split; try (vm_compute; reflexivity). intros [n H]. vm_compute in H. discriminate. Qed.
Lemma c02_empty_tuple_refuted : gwf w_empty_tuple = true /\ gwithin_limits w_empty_tuple = true /\ ~ c02_holds LE 0 w_empty_tuple.
Proof. repeat split; try (vm_compute; reflexivity). intros [n H]. vm_compute in H. discriminate. Qed.
Lemma c02_dictkey_repaired : c02_holds LE 0 w_dictkey.
Proof. exists 259. vm_compute. reflexivity. Qed.
(* the round trip of the other two classes is fine: decoder and encoder share the deviation *)
Example c02_bool_ok : c02_holds LE 0 w_bool. Proof. exists 4. reflexivity. Qed.
Example c02_tail_ok : c02_holds LE 0 w_tail_array. Proof. exists 13. reflexivity. Qed.

(* ---------- C04, GVariant half: hostile bytes ---------- *)
(* a tuple of 130 strings over 257 zero bytes: the 129th framing offset would be read from a 1-byte window with 2-byte
   offsets.  Before b5246470 that was `attempt to subtract with overflow` in read_last_offset_from_buffer; now the short
   window is refused with OutOfBounds. *)
Definition w_panic_sig : sig := SStruct (repeat SStr 130).
Definition w_panic_bytes : bytes := repeat x00 257.
Lemma c04_struct_offset_repaired :
  gde_struct_top LE 0 w_panic_sig w_panic_bytes [] = Err EBounds
  /\ gde_before_fix gde_fuel (ginit_dst LE 0 w_panic_sig w_panic_bytes []) = Panic PArith.
Proof. split; vm_compute; reflexivity. Qed.
(* the same through a variant: signature and value both come from the input bytes; same code path, same repair *)
Definition w_panic_variant : bytes := repeat x00 257 ++ [x00] ++ show w_panic_sig.
Lemma c04_variant_offset_repaired :
  gde_value_top LE 0 w_panic_variant [] = Err EBounds
  /\ gde_before_fix gde_fuel (ginit_dst LE 0 SVariant w_panic_variant []) = Panic PArith.
Proof. split; vm_compute; reflexivity. Qed.
