(* C05/Widths.v — FramingOffsetSize::for_bare_container chooses the least admissible offset width, for every
   container size and every number of offsets (this covers the 255/256, 65535/65536 and 2^32 thresholds). *)
From ZV Require Import Base.Bytes Base.Res DBus.Ser C05.Spec C05.Model C05.Facts.
From Coq Require Import Lia.
Local Open Scope N_scope.

Definition width_ok (w : N) : Prop := w = 1 \/ w = 2 \/ w = 4 \/ w = 8.
(* a container of n data bytes and k offsets of width w fits offsets of width w *)
Definition fits_width (n k w : N) : Prop := n + k * w <= 2 ^ (8 * w) - 1.

Lemma pow_8_1 : 2 ^ (8 * 1) - 1 = 255. Proof. reflexivity. Qed.
Lemma pow_8_2 : 2 ^ (8 * 2) - 1 = 65535. Proof. reflexivity. Qed.
Lemma pow_8_4 : 2 ^ (8 * 4) - 1 = 4294967295. Proof. reflexivity. Qed.
Lemma pow_8_8 : 2 ^ (8 * 8) - 1 = 18446744073709551615. Proof. reflexivity. Qed.

Theorem for_bare_least n k w : for_bare_container n k = Ok w ->
  width_ok w /\ fits_width n k w /\ (forall w', width_ok w' -> fits_width n k w' -> w <= w').
Proof.
  rewrite for_bare_cases. unfold width_ok, fits_width.
  destruct (N.leb_spec (n + k * 1) 255) as [H1|H1].
  { intros [= <-]. rewrite pow_8_1. repeat split; try tauto; try lia. }
  destruct (N.leb_spec (n + k * 2) 65535) as [H2|H2].
  { intros [= <-]. rewrite pow_8_2. repeat split; try tauto; try lia.
    all: intros w' [Hw|[Hw|[Hw|Hw]]]; subst w'; rewrite ?pow_8_1; lia. }
  destruct (N.leb_spec (n + k * 4) 4294967295) as [H4|H4].
  { intros [= <-]. rewrite pow_8_4. repeat split; try tauto; try lia.
    all: intros w' [Hw|[Hw|[Hw|Hw]]]; subst w'; rewrite ?pow_8_1, ?pow_8_2; lia. }
  destruct (N.leb_spec (n + k * 8) 18446744073709551615) as [H8|H8]; [|discriminate].
  intros [= <-]. rewrite pow_8_8. repeat split; try tauto; try lia.
  all: intros w' [Hw|[Hw|[Hw|Hw]]]; subst w'; rewrite ?pow_8_1, ?pow_8_2, ?pow_8_4; lia.
Qed.

(* it only fails (the `expect` panics) when not even 8-byte offsets fit *)
Theorem for_bare_total n k : fits_width n k 8 -> exists w, for_bare_container n k = Ok w.
Proof.
  unfold fits_width. rewrite pow_8_8. intros H. rewrite for_bare_cases.
  destruct (n + k * 1 <=? 255); [eexists; reflexivity|]. destruct (n + k * 2 <=? 65535); [eexists; reflexivity|].
  destruct (n + k * 4 <=? 4294967295); [eexists; reflexivity|].
  destruct (N.leb_spec (n + k * 8) 18446744073709551615); [eexists; reflexivity|lia].
Qed.
Theorem for_bare_panics n k : ~ fits_width n k 8 -> for_bare_container n k = Panic PUnwrap.
Proof.
  unfold fits_width. rewrite pow_8_8. intros H. rewrite for_bare_cases.
  destruct (N.leb_spec (n + k * 1) 255); [lia|]. destruct (N.leb_spec (n + k * 2) 65535); [lia|].
  destruct (N.leb_spec (n + k * 4) 4294967295); [lia|].
  destruct (N.leb_spec (n + k * 8) 18446744073709551615); [lia|reflexivity].
Qed.

(* the width written in the specification (Spec.offset_width) is that least width *)
Theorem offset_width_least n k :
  fits_width n k 8 ->
  width_ok (offset_width n k) /\ fits_width n k (offset_width n k) /\
  (forall w', width_ok w' -> fits_width n k w' -> offset_width n k <= w').
Proof.
  intros H. apply for_bare_least. apply for_bare_width. unfold fits_width in H. rewrite pow_8_8 in H. lia.
Qed.

(* the thresholds, spelled out for containers without / with offsets *)
Example width_255 : for_bare_container 255 0 = Ok 1 /\ for_bare_container 256 0 = Ok 2
                    /\ for_bare_container 254 1 = Ok 1 /\ for_bare_container 255 1 = Ok 2.
Proof. repeat split; reflexivity. Qed.
Example width_65535 : for_bare_container 65535 0 = Ok 2 /\ for_bare_container 65536 0 = Ok 4
                      /\ for_bare_container 65531 2 = Ok 2 /\ for_bare_container 65532 2 = Ok 4.
Proof. repeat split; reflexivity. Qed.
Example width_2_32 : for_bare_container 4294967295 0 = Ok 4 /\ for_bare_container 4294967296 0 = Ok 8
                     /\ for_bare_container 4294967283 3 = Ok 4 /\ for_bare_container 4294967284 3 = Ok 8.
Proof. repeat split; reflexivity. Qed.
