(* C05/DepthProofs.v — C07, GVariant half, encoder: a value beyond the nesting limits (32 arrays, 32 tuples, 64
   containers in total, variants and maybes counting) makes the serializer model stop with a depth error
   (with SerProofs.gser_good: it succeeds exactly within the limits). *)
From ZV Require Import Base.Bytes Base.Res Base.Sig Base.SigParse DBus.Val DBus.Spec DBus.Ser DBus.SerFacts
  C05.Val C05.Spec C05.Model C05.Classes C05.Facts C05.SigFacts C05.SerProofs.
From Coq Require Import Lia.
Local Open Scope N_scope.

Lemma dcheck_fail d : d_struct d <= 32 -> d_array d <= 32 -> 64 < d_struct d + d_array d + d_variant d + d_maybe d ->
  dcheck d = Err (EDepth DTotal).
Proof.
  intros H1 H2 H3. unfold dcheck.
  destruct (N.ltb_spec 32 (d_struct d)); [lia|]. destruct (N.ltb_spec 32 (d_array d)); [lia|].
  destruct (N.ltb_spec 64 (d_struct d + d_array d + d_variant d + d_maybe d)); [reflexivity|lia].
Qed.

Lemma inc_array_fail d : dep_ok d -> (d_array d + 1 <=? 32) && (d_struct d + d_array d + dtot d + 1 <=? 64) = false ->
  exists k, inc_array d = Err (EDepth k).
Proof.
  intros [H1 H2] H. unfold inc_array, dcheck, dtot in *. cbn.
  destruct (N.ltb_spec 32 (d_struct d)); [lia|].
  destruct (N.ltb_spec 32 (d_array d + 1)); [eexists; reflexivity|].
  destruct (N.leb_spec (d_array d + 1) 32); [|lia]. cbn [andb] in H. apply N.leb_gt in H.
  destruct (N.ltb_spec 64 (d_struct d + (d_array d + 1) + d_variant d + d_maybe d)); [eexists; reflexivity|lia].
Qed.
Lemma inc_struct_fail d : dep_ok d -> (d_struct d + 1 <=? 32) && (d_struct d + d_array d + dtot d + 1 <=? 64) = false ->
  exists k, inc_struct d = Err (EDepth k).
Proof.
  intros [H1 H2] H. unfold inc_struct, dcheck, dtot in *. cbn.
  destruct (N.ltb_spec 32 (d_struct d + 1)); [eexists; reflexivity|].
  destruct (N.ltb_spec 32 (d_array d)); [lia|].
  destruct (N.leb_spec (d_struct d + 1) 32); [|lia]. cbn [andb] in H. apply N.leb_gt in H.
  destruct (N.ltb_spec 64 (d_struct d + 1 + d_array d + d_variant d + d_maybe d)); [eexists; reflexivity|lia].
Qed.
Lemma inc_variant_fail d : dep_ok d -> (d_struct d + d_array d + dtot d + 1 <=? 64) = false ->
  exists k, inc_variant d = Err (EDepth k).
Proof.
  intros [H1 H2] H. unfold inc_variant, dcheck, dtot in *. cbn. apply N.leb_gt in H.
  destruct (N.ltb_spec 32 (d_struct d)); [lia|]. destruct (N.ltb_spec 32 (d_array d)); [lia|].
  destruct (N.ltb_spec 64 (d_struct d + d_array d + (d_variant d + 1) + d_maybe d)); [eexists; reflexivity|lia].
Qed.
Lemma inc_maybe_fail d : dep_ok d -> (d_struct d + d_array d + dtot d + 1 <=? 64) = false ->
  exists k, inc_maybe d = Err (EDepth k).
Proof.
  intros [H1 H2] H. unfold inc_maybe, dcheck, dtot in *. cbn. apply N.leb_gt in H.
  destruct (N.ltb_spec 32 (d_struct d)); [lia|]. destruct (N.ltb_spec 32 (d_array d)); [lia|].
  destruct (N.ltb_spec 64 (d_struct d + d_array d + d_variant d + (d_maybe d + 1))); [eexists; reflexivity|lia].
Qed.

Lemma forallb_first_false {A} (f : A -> bool) l : forallb f l = false ->
  exists l1 x l2, l = l1 ++ x :: l2 /\ forallb f l1 = true /\ f x = false.
Proof.
  induction l as [|a r IH]; [discriminate|]. cbn [forallb]. destruct (f a) eqn:Ha.
  - cbn [andb]. intros H. destruct (IH H) as (l1 & x & l2 & -> & H1 & H2). exists (a :: l1), x, l2. cbn [forallb app]. now rewrite Ha.
  - intros _. exists [], a, r. repeat split; assumption.
Qed.

Lemma ser_elems_app l1 l2 start roffs st :
  ser_elems (l1 ++ l2) start roffs st =
  let* (st', roffs') := ser_elems l1 start roffs st in ser_elems l2 start roffs' st'.
Proof.
  revert roffs st. induction l1 as [|y r IH]; intros roffs st; [reflexivity|].
  cbn [app ser_elems]. destruct (gser y st); cbn [bind]; [apply IH|reflexivity|reflexivity].
Qed.
Lemma gfield_done_sig st start offs g isv : g_sig (fst (gfield_done st start offs g isv)) = g_sig st.
Proof.
  unfold gfield_done. destruct (g_sig st) eqn:Hs; try (destruct offs; [destruct (fixed_sized g)|]; cbn; assumption).
  destruct isv; cbn; assumption.
Qed.
Lemma ser_fields_app fs l1 : forall l2 idx start offs st, g_sig st = SStruct fs ->
  ser_fields (l1 ++ l2) idx start offs st =
  let* (st', offs') := ser_fields l1 idx start offs st in ser_fields l2 (idx + length l1) start offs' st'.
Proof.
  induction l1 as [|y r IH]; intros l2 idx start offs st Hs.
  - cbn. now rewrite Nat.add_0_r.
  - cbn [app ser_fields length]. unfold gfield_sig. rewrite Hs.
    destruct (nth_error fs idx) as [g|]; cbn [bind]; [|reflexivity].
    destruct (gser y (gsub_of st g)) as [sub| |]; cbn [bind]; try reflexivity.
    pose proof (gfield_done_sig (gback_from st sub) start offs g false) as Hsig.
    destruct (gfield_done (gback_from st sub) start offs g false) as [st1 offs1]. cbn [fst] in Hsig.
    rewrite (IH l2 (S idx) start offs1 st1) by (rewrite Hsig; exact Hs).
    now replace (S idx + length r)%nat with (idx + S (length r))%nat by lia.
Qed.

Lemma ser_entries_kso l start al roffs ks vs a b st :
  ser_entries l start al roffs ks vs (Some a) st = ser_entries l start al roffs ks vs (Some b) st.
Proof. destruct l as [|[k y] r]; reflexivity. Qed.
Lemma ser_entries_app l1 : forall l2 start al roffs ks vs kso st,
  ser_entries (l1 ++ l2) start al roffs ks vs kso st =
  let* (st', roffs') := ser_entries l1 start al roffs ks vs kso st in ser_entries l2 start al roffs' ks vs kso st'.
Proof.
  induction l1 as [|[k y] r IH]; intros l2 start al roffs ks vs kso st; [reflexivity|].
  cbn [app ser_entries]. destruct (gser k (gpadded st al)) as [st1| |]; cbn [bind]; try reflexivity.
  destruct (ser_entry_tail y start al roffs ks vs _ st1) as [[st2 roffs2]| |]; cbn [bind]; try reflexivity.
  rewrite IH. destruct (ser_entries r start al roffs2 ks vs _ st2) as [[st3 roffs3]| |]; cbn [bind]; try reflexivity.
  destruct kso; [apply ser_entries_kso|reflexivity].
Qed.

Section D.
  Variable e : endian.

  Definition deep (v : gval) : Prop := forall st,
    g_e st = e -> gwf v = true -> pre e v = true -> g_sig st = gsig v -> g_vsign st = None -> dep_ok (g_dep st) ->
    gdepth_ok (d_struct (g_dep st)) (d_array (g_dep st)) (dtot (g_dep st)) v = false ->
    exists k, gser (sval_of v) st = Err (EDepth k).

  Ltac leaf := intros st He Hw Hp Hs Hv Hd Hf; cbn [gdepth_ok] in Hf; discriminate.

  Lemma deep_just cs x : deep x -> deep (GMaybe cs (Some x)).
  Proof.
    intros IH st He Hw Hp Hs Hv Hd Hf. cbn [sval_of gser]. unfold gmaybe_begin. rewrite gpadded_gwr.
    cbn [g_sig gwr]. rewrite Hs. rewrite (pre_align e _ Hp Hw). cbn [gsig bind galign].
    cbn [gwf] in Hw. apply andb_true_iff in Hw as [Hw Hsx]. apply andb_true_iff in Hw as [Hcs Hwx]. apply sig_eqb_eq in Hsx.
    unfold pre in Hp. cbn [all_nodes] in Hp. apply andb_true_iff in Hp as [Hn Hpx]. fold (pre e x) in Hpx.
    cbn [gdepth_ok] in Hf. autorewrite with gst.
    destruct (d_struct (g_dep st) + d_array (g_dep st) + dtot (g_dep st) + 1 <=? 64) eqn:Htot.
    - cbn [andb] in Hf. apply N.leb_le in Htot.
      destruct (inc_maybe_good _ Hd Htot) as (d' & Hinc & Hdec & Hd' & Hs' & Ha' & Ht'). rewrite Hinc. cbn [bind].
      destruct (IH (gset_dep (gset_sig (gwr st (pad (gabs st) (galign cs))) cs) d')) as [k Hk]; autorewrite with gst; try assumption; try reflexivity.
      + now symmetry.
      + rewrite Hs', Ha', Ht'. assumption.
      + exists k. now rewrite Hk.
    - destruct (inc_maybe_fail _ Hd Htot) as [k Hk]. exists k. now rewrite Hk.
  Qed.

  Lemma deep_variant x : deep x -> deep (GVariant x).
  Proof.
    intros IH st He Hw Hp Hs Hv Hd Hf. cbn [sval_of gsig galign] in *.
    rewrite gser_variant_struct by assumption.
    cbn [gwf] in Hw. apply andb_true_iff in Hw as [Hwx Hsx].
    unfold pre in Hp. cbn [all_nodes] in Hp. apply andb_true_iff in Hp as [Hn Hpx]. fold (pre e x) in Hpx.
    cbn [gdepth_ok] in Hf.
    unfold gstruct_begin. rewrite gpadded_gwr. autorewrite with gst. rewrite Hs. cbn [align_gv].
    rewrite gpadded_gwr. autorewrite with gst.
    assert (H8 : (gabs st + len (pad (gabs st) 8)) mod 8 = 0) by (rewrite len_pad; apply padn_after; lia).
    rewrite (pad_aligned (gabs st + len (pad (gabs st) 8)) 8) by (lia || assumption). rewrite gwr_nil, len_nil, N.add_0_r.
    destruct (d_struct (g_dep st) + d_array (g_dep st) + dtot (g_dep st) + 1 <=? 64) eqn:Htot.
    - cbn [andb] in Hf. apply N.leb_le in Htot.
      destruct (inc_variant_good _ Hd Htot) as (d' & Hinc & Hd' & Hs' & Ha' & Ht'). rewrite Hinc. cbn [bind].
      cbn [ser_nfields]. unfold gfield_sig at 1. autorewrite with gst. rewrite Hs, Hv. cbn [bind].
      cbn [gser]. unfold gser_str at 1. unfold gsub_of at 1. autorewrite with gst.
      rewrite (parse_show_gv _ Hsx). cbn [bind].
      rewrite gback_vsign. unfold gfield_done at 1. autorewrite with gst. rewrite Hs.
      unfold gfield_sig. autorewrite with gst. rewrite Hs. cbn [bind].
      set (st2 := gsub_of _ (gsig x)).
      destruct (IH st2) as [k Hk]; subst st2; unfold gsub_of; autorewrite with gst; try assumption; try reflexivity.
      + rewrite Hs', Ha', Ht'. assumption.
      + exists k. unfold gsub_of in Hk. now rewrite Hk.
    - destruct (inc_variant_fail _ Hd Htot) as [k Hk]. exists k. now rewrite Hk.
  Qed.
End D.
