(* C05/DepthProofs.v — C07, GVariant half, encoder: a value beyond the nesting limits (32 arrays, 32 tuples, 64
   containers in total, variants and maybes counting) makes the serializer model stop with a depth error
   (with SerProofs.gser_good: it succeeds exactly within the limits). *)
From ZV Require Import Base.Bytes Base.Res Base.Sig Base.SigParse DBus.Val DBus.Spec DBus.Ser DBus.SerFacts
  C05.Val C05.Spec C05.Model C05.Classes C05.Facts C05.SigFacts C05.SerProofs.
From Coq Require Import Lia.
Local Open Scope N_scope.

Lemma dcheck_fail d : d_struct d <= 32 -> d_array d <= 32 -> 64 < d_struct d + d_array d + d_variant d + d_maybe d ->
  dcheck d = Err (EDepth DTotal).
Proof.
  intros H1 H2 H3. unfold dcheck.
  destruct (N.ltb_spec 32 (d_struct d)); [lia|]. destruct (N.ltb_spec 32 (d_array d)); [lia|].
  destruct (N.ltb_spec 64 (d_struct d + d_array d + d_variant d + d_maybe d)); [reflexivity|lia].
Qed.

Lemma inc_array_fail d : dep_ok d -> (d_array d + 1 <=? 32) && (d_struct d + d_array d + dtot d + 1 <=? 64) = false ->
  exists k, inc_array d = Err (EDepth k).
Proof.
  intros [H1 H2] H. unfold inc_array, dcheck, dtot in *. cbn.
  destruct (N.ltb_spec 32 (d_struct d)); [lia|].
  destruct (N.ltb_spec 32 (d_array d + 1)); [eexists; reflexivity|].
  destruct (N.leb_spec (d_array d + 1) 32); [|lia]. cbn [andb] in H. apply N.leb_gt in H.
  destruct (N.ltb_spec 64 (d_struct d + (d_array d + 1) + d_variant d + d_maybe d)); [eexists; reflexivity|lia].
Qed.
Lemma inc_struct_fail d : dep_ok d -> (d_struct d + 1 <=? 32) && (d_struct d + d_array d + dtot d + 1 <=? 64) = false ->
  exists k, inc_struct d = Err (EDepth k).
Proof.
  intros [H1 H2] H. unfold inc_struct, dcheck, dtot in *. cbn.
  destruct (N.ltb_spec 32 (d_struct d + 1)); [eexists; reflexivity|].
  destruct (N.ltb_spec 32 (d_array d)); [lia|].
  destruct (N.leb_spec (d_struct d + 1) 32); [|lia]. cbn [andb] in H. apply N.leb_gt in H.
  destruct (N.ltb_spec 64 (d_struct d + 1 + d_array d + d_variant d + d_maybe d)); [eexists; reflexivity|lia].
Qed.
Lemma inc_variant_fail d : dep_ok d -> (d_struct d + d_array d + dtot d + 1 <=? 64) = false ->
  exists k, inc_variant d = Err (EDepth k).
Proof.
  intros [H1 H2] H. unfold inc_variant, dcheck, dtot in *. cbn. apply N.leb_gt in H.
  destruct (N.ltb_spec 32 (d_struct d)); [lia|]. destruct (N.ltb_spec 32 (d_array d)); [lia|].
  destruct (N.ltb_spec 64 (d_struct d + d_array d + (d_variant d + 1) + d_maybe d)); [eexists; reflexivity|lia].
Qed.
Lemma inc_maybe_fail d : dep_ok d -> (d_struct d + d_array d + dtot d + 1 <=? 64) = false ->
  exists k, inc_maybe d = Err (EDepth k).
Proof.
  intros [H1 H2] H. unfold inc_maybe, dcheck, dtot in *. cbn. apply N.leb_gt in H.
  destruct (N.ltb_spec 32 (d_struct d)); [lia|]. destruct (N.ltb_spec 32 (d_array d)); [lia|].
  destruct (N.ltb_spec 64 (d_struct d + d_array d + d_variant d + (d_maybe d + 1))); [eexists; reflexivity|lia].
Qed.

Lemma forallb_first_false {A} (f : A -> bool) l : forallb f l = false ->
  exists l1 x l2, l = l1 ++ x :: l2 /\ forallb f l1 = true /\ f x = false.
Proof.
  induction l as [|a r IH]; [discriminate|]. cbn [forallb]. destruct (f a) eqn:Ha.
  - cbn [andb]. intros H. destruct (IH H) as (l1 & x & l2 & -> & H1 & H2). exists (a :: l1), x, l2. cbn [forallb app]. now rewrite Ha.
  - intros _. exists [], a, r. repeat split; assumption.
Qed.

Lemma ser_elems_app l1 l2 start roffs st :
  ser_elems (l1 ++ l2) start roffs st =
  let* (st', roffs') := ser_elems l1 start roffs st in ser_elems l2 start roffs' st'.
Proof.
  revert roffs st. induction l1 as [|y r IH]; intros roffs st; [reflexivity|].
  cbn [app ser_elems]. destruct (gser y st); cbn [bind]; [apply IH|reflexivity|reflexivity].
Qed.
Lemma gfield_done_sig st start offs g isv : g_sig (fst (gfield_done st start offs g isv)) = g_sig st.
Proof.
  unfold gfield_done. destruct (g_sig st) eqn:Hs; try (destruct offs; [destruct (fixed_sized g)|]; cbn; assumption).
  destruct isv; cbn; assumption.
Qed.
Lemma ser_fields_app fs l1 : forall l2 idx start offs st, g_sig st = SStruct fs ->
  ser_fields (l1 ++ l2) idx start offs st =
  let* (st', offs') := ser_fields l1 idx start offs st in ser_fields l2 (idx + length l1) start offs' st'.
Proof.
  induction l1 as [|y r IH]; intros l2 idx start offs st Hs.
  - cbn. now rewrite Nat.add_0_r.
  - cbn [app ser_fields length]. unfold gfield_sig. rewrite Hs.
    destruct (nth_error fs idx) as [g|]; cbn [bind]; [|reflexivity].
    destruct (gser y (gsub_of st g)) as [sub| |]; cbn [bind]; try reflexivity.
    pose proof (gfield_done_sig (gback_from st sub) start offs g false) as Hsig.
    destruct (gfield_done (gback_from st sub) start offs g false) as [st1 offs1]. cbn [fst] in Hsig.
    rewrite (IH l2 (S idx) start offs1 st1) by (rewrite Hsig; exact Hs).
    now replace (S idx + length r)%nat with (idx + S (length r))%nat by lia.
Qed.

Lemma ser_entries_kso l start al roffs ks vs a b st :
  ser_entries l start al roffs ks vs (Some a) st = ser_entries l start al roffs ks vs (Some b) st.
Proof. destruct l as [|[k y] r]; reflexivity. Qed.
Lemma ser_entries_app l1 : forall l2 start al roffs ks vs kso st,
  ser_entries (l1 ++ l2) start al roffs ks vs kso st =
  let* (st', roffs') := ser_entries l1 start al roffs ks vs kso st in ser_entries l2 start al roffs' ks vs kso st'.
Proof.
  induction l1 as [|[k y] r IH]; intros l2 start al roffs ks vs kso st; [reflexivity|].
  cbn [app ser_entries]. destruct (gser k (gpadded st al)) as [st1| |]; cbn [bind]; try reflexivity.
  destruct (ser_entry_tail y start al roffs ks vs _ st1) as [[st2 roffs2]| |]; cbn [bind]; try reflexivity.
  rewrite IH. destruct (ser_entries r start al roffs2 ks vs _ st2) as [[st3 roffs3]| |]; cbn [bind]; try reflexivity.
  destruct kso; [apply ser_entries_kso|reflexivity].
Qed.

Section D.
  Variable e : endian.

  Definition deep (v : gval) : Prop := forall st,
    g_e st = e -> gwf v = true -> pre e v = true -> g_sig st = gsig v -> g_vsign st = None -> dep_ok (g_dep st) ->
    gdepth_ok (d_struct (g_dep st)) (d_array (g_dep st)) (dtot (g_dep st)) v = false ->
    exists k, gser (sval_of v) st = Err (EDepth k).

  Ltac leaf := intros st He Hw Hp Hs Hv Hd Hf; cbn [gdepth_ok] in Hf; discriminate.

  Lemma deep_just cs x : deep x -> deep (GMaybe cs (Some x)).
  Proof.
    intros IH st He Hw Hp Hs Hv Hd Hf. cbn [sval_of gser]. unfold gmaybe_begin. rewrite gpadded_gwr.
    cbn [g_sig gwr]. rewrite Hs. rewrite (pre_align e _ Hp Hw). cbn [gsig bind galign].
    cbn [gwf] in Hw. apply andb_true_iff in Hw as [Hw Hsx]. apply andb_true_iff in Hw as [Hcs Hwx]. apply sig_eqb_eq in Hsx.
    unfold pre in Hp. cbn [all_nodes] in Hp. apply andb_true_iff in Hp as [Hn Hpx]. fold (pre e x) in Hpx.
    cbn [gdepth_ok] in Hf. autorewrite with gst.
    destruct (d_struct (g_dep st) + d_array (g_dep st) + dtot (g_dep st) + 1 <=? 64) eqn:Htot.
    - cbn [andb] in Hf. apply N.leb_le in Htot.
      destruct (inc_maybe_good _ Hd Htot) as (d' & Hinc & Hdec & Hd' & Hs' & Ha' & Ht'). rewrite Hinc. cbn [bind].
      destruct (IH (gset_dep (gset_sig (gwr st (pad (gabs st) (galign cs))) cs) d')) as [k Hk]; autorewrite with gst; try assumption; try reflexivity.
      + now symmetry.
      + rewrite Hs', Ha', Ht'. assumption.
      + exists k. now rewrite Hk.
    - destruct (inc_maybe_fail _ Hd Htot) as [k Hk]. exists k. now rewrite Hk.
  Qed.

  Lemma deep_variant x : deep x -> deep (GVariant x).
  Proof.
    intros IH st He Hw Hp Hs Hv Hd Hf. cbn [sval_of gsig galign] in *.
    rewrite gser_variant_struct by assumption.
    cbn [gwf] in Hw. apply andb_true_iff in Hw as [Hwx Hsx].
    unfold pre in Hp. cbn [all_nodes] in Hp. apply andb_true_iff in Hp as [Hn Hpx]. fold (pre e x) in Hpx.
    cbn [gdepth_ok] in Hf.
    unfold gstruct_begin. rewrite gpadded_gwr. autorewrite with gst. rewrite Hs. cbn [align_gv].
    rewrite gpadded_gwr. autorewrite with gst.
    assert (H8 : (gabs st + len (pad (gabs st) 8)) mod 8 = 0) by (rewrite len_pad; apply padn_after; lia).
    rewrite (pad_aligned (gabs st + len (pad (gabs st) 8)) 8) by (lia || assumption). rewrite gwr_nil, len_nil, N.add_0_r.
    destruct (d_struct (g_dep st) + d_array (g_dep st) + dtot (g_dep st) + 1 <=? 64) eqn:Htot.
    - cbn [andb] in Hf. apply N.leb_le in Htot.
      destruct (inc_variant_good _ Hd Htot) as (d' & Hinc & Hd' & Hs' & Ha' & Ht'). rewrite Hinc. cbn [bind].
      cbn [ser_nfields]. unfold gfield_sig at 1. autorewrite with gst. rewrite Hs, Hv. cbn [bind].
      cbn [gser]. unfold gser_str at 1. unfold gsub_of at 1. autorewrite with gst.
      rewrite (parse_show_gv _ Hsx). cbn [bind].
      rewrite gback_vsign. unfold gfield_done at 1. autorewrite with gst. rewrite Hs.
      unfold gfield_sig. autorewrite with gst. rewrite Hs. cbn [bind].
      set (st2 := gsub_of _ (gsig x)).
      destruct (IH st2) as [k Hk]; subst st2; unfold gsub_of; autorewrite with gst; try assumption; try reflexivity.
      + rewrite Hs', Ha', Ht'. assumption.
      + exists k. unfold gsub_of in Hk. now rewrite Hk.
    - destruct (inc_variant_fail _ Hd Htot) as [k Hk]. exists k. now rewrite Hk.
  Qed.

  Lemma Forall_good (l : list gval) : Forall (good e) l.
  Proof. apply Forall_forall. intros x _. apply gser_good. Qed.

  Lemma deep_array el l : Forall deep l -> deep (GArray el l).
  Proof.
    intros HF st He Hw Hp Hs Hv Hd Hf. cbn [sval_of]. rewrite gser_seq.
    pose proof (pre_align e _ Hp Hw) as Hal. cbn [gsig] in Hal, Hs |- *.
    cbn [gwf] in Hw. apply andb_true_iff in Hw as [Hel Hwl].
    unfold pre in Hp. rewrite all_nodes_array in Hp. apply andb_true_iff in Hp as [_ Hpl].
    cbn [gdepth_ok] in Hf.
    unfold gseq_begin. rewrite gpadded_gwr. rewrite Hs, Hal. cbn [bind galign]. autorewrite with gst.
    destruct ((d_array (g_dep st) + 1 <=? 32) && (d_struct (g_dep st) + d_array (g_dep st) + dtot (g_dep st) + 1 <=? 64)) eqn:Hchk.
    2:{ destruct (inc_array_fail _ Hd Hchk) as [k Hk]. exists k. now rewrite Hk. }
    cbn [andb] in Hf. apply andb_true_iff in Hchk as [Hf1 Hf2]. apply N.leb_le in Hf1, Hf2.
    destruct (inc_array_good _ Hd Hf1 Hf2) as (d' & Hinc & Hdec & Hd' & Hs' & Ha' & Ht'). rewrite Hinc. cbn [bind].
    destruct (forallb_first_false _ _ Hf) as (l1 & x & l2 & -> & Hl1 & Hx).
    rewrite forallb_app in Hwl, Hpl. apply andb_true_iff in Hwl as [Hw1 Hw2]. apply andb_true_iff in Hpl as [Hp1 Hp2].
    cbn [forallb] in Hw2, Hp2. apply andb_true_iff in Hw2 as [Hwx _]. apply andb_true_iff in Hp2 as [Hpx _].
    apply andb_true_iff in Hwx as [Hwx Hsx]. apply sig_eqb_eq in Hsx.
    rewrite map_app, ser_elems_app.
    set (p := pad (gabs st) (galign el)).
    set (st1 := gset_dep (gset_sig (gwr st p) el) d').
    rewrite (elems_ok e l1 (Forall_good l1) st1 (g_written st + len p) _ el); subst st1; autorewrite with gst; try assumption; try reflexivity.
    2:{ rewrite Hs', Ha', Ht'. assumption. }
    2:{ replace (g_pos0 st + (g_written st + len p)) with (gabs st + len p) by (unfold gabs; lia).
        subst p. rewrite len_pad. apply padn_after, galign_nz. }
    cbn [bind map ser_elems].
    apply Forall_app in HF as [_ HF]. inversion HF as [|? ? Hdx _]; subst.
    match goal with |- context [gser (sval_of x) ?s] => destruct (Hdx s) as [k Hk] end; autorewrite with gst; try assumption; try reflexivity.
    - rewrite Hs', Ha', Ht'. assumption.
    - exists k. now rewrite Hk.
  Qed.

  Lemma deep_struct l : Forall deep l -> deep (GStruct l).
  Proof.
    intros HF st He Hw Hp Hs Hv Hd Hf. cbn [sval_of]. rewrite gser_tuple.
    pose proof (pre_align e _ Hp Hw) as Hal. cbn [gsig] in Hal, Hs |- *.
    cbn [gwf] in Hw. apply andb_true_iff in Hw as [Hnel Hwl].
    unfold pre in Hp. rewrite all_nodes_struct in Hp. apply andb_true_iff in Hp as [_ Hpl].
    cbn [gdepth_ok] in Hf.
    set (sigs := map gsig l) in *.
    rewrite galign_struct in *. set (A := galigns sigs) in *.
    assert (HA : A <> 0) by apply galigns_nz.
    unfold gstruct_begin. rewrite gpadded_gwr. rewrite Hs, Hal. autorewrite with gst. rewrite Hs, Hal.
    rewrite gpadded_gwr. autorewrite with gst.
    set (p := pad (gabs st) A).
    assert (HpA : (gabs st + len p) mod A = 0) by (subst p; rewrite len_pad; now apply padn_after).
    rewrite (pad_aligned (gabs st + len p) A) by assumption. rewrite gwr_nil, len_nil, N.add_0_r.
    destruct ((d_struct (g_dep st) + 1 <=? 32) && (d_struct (g_dep st) + d_array (g_dep st) + dtot (g_dep st) + 1 <=? 64)) eqn:Hchk.
    2:{ destruct (inc_struct_fail _ Hd Hchk) as [k Hk]. exists k. now rewrite Hk. }
    cbn [andb] in Hf. apply andb_true_iff in Hchk as [Hf1 Hf2]. apply N.leb_le in Hf1, Hf2.
    destruct (inc_struct_good _ Hd Hf1 Hf2) as (d' & Hinc & Hd' & Hs' & Ha' & Ht'). rewrite Hinc. cbn [bind].
    destruct (forallb_first_false _ _ Hf) as (l1 & x & l2 & Hl & Hl1 & Hx).
    assert (Hdiv : forall y, In y l -> A mod galign (gsig y) = 0).
    { intros y Hy. apply pow2_div; [apply galigns_pow2|apply galign_pow2|]. apply galigns_ge. subst sigs. now apply in_map. }
    rewrite Hl in Hwl, Hpl, HF, Hdiv. rewrite forallb_app in Hwl, Hpl.
    apply andb_true_iff in Hwl as [Hw1 Hw2]. apply andb_true_iff in Hpl as [Hp1 Hp2].
    cbn [forallb] in Hw2, Hp2. apply andb_true_iff in Hw2 as [Hwx _]. apply andb_true_iff in Hp2 as [Hpx _].
    set (st1 := gset_dep (gwr st p) d').
    assert (Hsig1 : g_sig st1 = SStruct ([] ++ map gsig l1 ++ gsig x :: map gsig l2)).
    { subst st1. autorewrite with gst. rewrite Hs. subst sigs. rewrite Hl, map_app. reflexivity. }
    rewrite Hl, map_app. cbn [map].
    rewrite (ser_fields_app (map gsig l1 ++ gsig x :: map gsig l2)) by exact Hsig1.
    change 0%nat with (length (@nil sig)).
    pose proof (fields_ok e l1 (Forall_good l1) st1 [] (gsig x :: map gsig l2) (g_written st + len p) [] A) as Hok.
    rewrite Hok; clear Hok; subst st1; autorewrite with gst; try assumption; try reflexivity.
    - cbn [bind length Nat.add]. rewrite map_length. cbn [ser_fields]. unfold gfield_sig. autorewrite with gst. rewrite Hs.
      subst sigs. rewrite Hl, map_app. cbn [map]. rewrite nth_error_app2 by (rewrite map_length; lia).
      rewrite map_length, Nat.sub_diag. cbn [nth_error bind].
      apply Forall_app in HF as [_ HF]. inversion HF as [|? ? Hdx _]; subst.
      match goal with |- context [gser (sval_of x) ?s] => destruct (Hdx s) as [k Hk] end; unfold gsub_of; autorewrite with gst; try assumption; try reflexivity.
      + rewrite Hs', Ha', Ht'. assumption.
      + exists k. unfold gsub_of in Hk. now rewrite Hk.
    - rewrite Hs', Ha', Ht'. assumption.
    - replace (g_pos0 st + (g_written st + len p)) with (gabs st + len p) by (unfold gabs; lia). assumption.
    - intros y Hy. apply Hdiv. apply in_or_app. now left.
  Qed.

  Lemma Forall_good_pairs (l : list (gval * gval)) : Forall (fun p => good e (fst p) /\ good e (snd p)) l.
  Proof. apply Forall_forall. intros x _. split; apply gser_good. Qed.

  Lemma deep_dict ks vs l : Forall (fun p => deep (fst p) /\ deep (snd p)) l -> deep (GDict ks vs l).
  Proof.
    intros HF st He Hw Hp Hs Hv Hd Hf. cbn [sval_of]. rewrite gser_map.
    pose proof (pre_align e _ Hp Hw) as Hal. cbn [gsig] in Hal, Hs |- *.
    destruct (pre_node e _ Hp) as (Hnb & Hnt & Hne & Hsmall).
    cbn [gwf] in Hw. apply andb_true_iff in Hw as [Hw Hwl]. apply andb_true_iff in Hw as [Hkb Hvs].
    unfold pre in Hp. rewrite all_nodes_dict in Hp. apply andb_true_iff in Hp as [_ Hpl].
    cbn [gdepth_ok] in Hf.
    cbn [galign] in *. set (al := N.max (galign ks) (galign vs)) in *.
    assert (Hpal : pow2 al) by (apply pow2_max; apply galign_pow2).
    assert (Hal0 : al <> 0) by now apply pow2_nz.
    unfold gmap_begin. rewrite Hs. unfold gseq_begin. rewrite gpadded_gwr. rewrite Hs, Hal. cbn [bind]. autorewrite with gst.
    destruct ((d_array (g_dep st) + 1 <=? 32) && (d_struct (g_dep st) + d_array (g_dep st) + dtot (g_dep st) + 1 <=? 64)) eqn:Hchk.
    2:{ destruct (inc_array_fail _ Hd Hchk) as [k Hk]. exists k. now rewrite Hk. }
    cbn [andb] in Hf. apply andb_true_iff in Hchk as [Hf1 Hf2]. apply N.leb_le in Hf1, Hf2.
    destruct (inc_array_good _ Hd Hf1 Hf2) as (d' & Hinc & Hdec & Hd' & Hs' & Ha' & Ht'). rewrite Hinc. cbn [bind].
    destruct (forallb_first_false _ _ Hf) as (l1 & q & l2 & Hl & Hl1 & Hq).
    set (p := pad (gabs st) al).
    set (st1 := gset_dep (gset_sig (gwr st p) ks) d').
    change fixed_sized with gis_fixed.
    (* every entry satisfies the side conditions of entries_ok, except possibly the depth *)
    assert (Hside : forall q0, In q0 l ->
              gwf (fst q0) = true /\ gwf (snd q0) = true /\ gsig (fst q0) = ks /\ gsig (snd q0) = vs /\
              pre e (fst q0) = true /\ pre e (snd q0) = true /\
              (gis_fixed ks && gis_fixed vs = true -> padn (len (concat (entry_parts e vs q0))) al = 0) /\
              len (concat (entry_parts e vs q0)) < 2 ^ 60).
    { intros q0 Hq0. rewrite forallb_forall in Hwl, Hpl. specialize (Hwl q0 Hq0). specialize (Hpl q0 Hq0).
      apply andb_true_iff in Hwl as [Hwl Hq4]. apply andb_true_iff in Hwl as [Hwl Hq3]. apply andb_true_iff in Hwl as [Hq1 Hq2].
      apply sig_eqb_eq in Hq3, Hq4. apply andb_true_iff in Hpl as [Hq5 Hq6].
      repeat split; try assumption.
      - intros Hfx. cbn [node_tail] in Hnt. rewrite Hfx in Hnt. cbn [andb] in Hnt.
        destruct (padn (len (concat (entry_parts e vs q0))) al =? 0) eqn:Hz; [now apply N.eqb_eq in Hz|].
        exfalso. rewrite <- Bool.not_true_iff_false in Hnt. apply Hnt. apply existsb_exists. exists q0. split; [assumption|].
        change (N.max (galign ks) (galign vs)) with al. now rewrite Hz.
      - pose proof (entry_len_data e ks vs l 0 q0 Hq0) as Hle. rewrite gvb_dict in Hsmall. cbv zeta in Hsmall.
        destruct (gis_fixed ks && gis_fixed vs); [|rewrite len_app in Hsmall]; lia. }
    assert (Hok : Forall (entry_ok e d' ks vs) l1).
    { apply Forall_forall. intros q0 Hq0.
      destruct (Hside q0) as (A1 & A2 & A3 & A4 & A5 & A6 & A7 & A8); [rewrite Hl; apply in_or_app; now left|].
      rewrite forallb_forall in Hl1. specialize (Hl1 q0 Hq0). apply andb_true_iff in Hl1 as [B1 B2].
      unfold entry_ok. rewrite Hs', Ha', Ht'. repeat split; assumption. }
    rewrite Hl, map_app, ser_entries_app.
    rewrite (entries_ok e l1 (Forall_good_pairs l1) st1 (g_written st + len p) _ ks vs); subst st1; autorewrite with gst; try assumption; try reflexivity.
    2:{ replace (g_pos0 st + (g_written st + len p)) with (gabs st + len p) by (unfold gabs; lia).
        subst p. rewrite len_pad. now apply padn_after. }
    2:{ destruct (gis_fixed ks); reflexivity. }
    cbn [bind map ser_entries]. rewrite N.sub_diag.
    destruct (Hside q) as (A1 & A2 & A3 & A4 & A5 & A6 & _ & _); [rewrite Hl; apply in_or_app; right; now left|].
    rewrite Hl in HF. apply Forall_app in HF as [_ HF]. inversion HF as [|? ? [Hdk Hdx] _]; subst.
    unfold gpadded. fold pad.
    destruct (gdepth_ok (d_struct (g_dep st)) (d_array (g_dep st) + 1) (dtot (g_dep st)) (fst q)) eqn:Hfk.
    - (* the key fits, the value does not *)
      cbn [andb] in Hq.
      match goal with |- context [gser (sval_of (fst q)) ?s] =>
        assert (Hkey : gser (sval_of (fst q)) s = Ok (gwr s (pad (gabs s) (galign (gsig (fst q))) ++ gvb e (fst q)))) end.
      { apply gser_good; rewrite ?gpadded_gwr; autorewrite with gst; try assumption; try reflexivity.
        unfold gfits. autorewrite with gst. rewrite Hs', Ha', Ht'. assumption. }
      match type of Hkey with _ = Ok ?s1 =>
        destruct (Hdx (gset_sig s1 (gsig (snd q)))) as [k Hk] end;
        [autorewrite with gst; try assumption; try reflexivity ..|].
      + rewrite Hs', Ha', Ht'. assumption.
      + exists k. rewrite Hkey. cbn [bind]. unfold ser_entry_tail. now rewrite Hk.
    - (* the key itself does not fit (keys are basic: never the case, but the proof does not need that) *)
      match goal with |- context [gser (sval_of (fst q)) ?s] => destruct (Hdk s) as [k Hk] end;
        [autorewrite with gst; try assumption; try reflexivity ..|].
      + rewrite Hs', Ha', Ht'. assumption.
      + exists k. now rewrite Hk.
  Qed.

  Theorem gser_deep : forall v, deep v.
  Proof.
    induction v using gval_ind'; try (intros st He Hw Hp Hs Hv Hd Hf; cbn [gdepth_ok] in Hf; discriminate).
    - now apply deep_variant. - now apply deep_array. - now apply deep_dict. - now apply deep_struct. - now apply deep_just.
  Qed.
End D.

(* the serializer returns a depth error exactly when the value exceeds the nesting limits *)
Theorem gser_top_depth e pos v :
  gwf v = true -> known_c05 e v = false -> gsmall e v = true -> gplain v = true ->
  gwithin_limits v = false -> exists k, gser_top e pos (gsig v) (sval_of v) = Err (EDepth k).
Proof.
  intros Hw Hk Hs Hp Hl. unfold gser_top.
  destruct (gser_deep e v (ginit e pos (gsig v) (FdsMode []))) as [k Hd]; try reflexivity; try assumption.
  - now apply pre_split.
  - split; cbn; lia.
  - exists k. now rewrite Hd.
Qed.
