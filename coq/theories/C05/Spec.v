(* C05/Spec.v — the GVariant serialisation format, written from the GVariant specification
   (https://people.gnome.org/~desrt/gvariant-serialisation.pdf, sections 2.3-2.5 and 3.2):

   * every type has an alignment (1, 2, 4 or 8) and is either fixed-size or variable-size;
     booleans and bytes are ONE byte, aligned 1; n q: 2; i u h: 4; x t d: 8; strings, object paths and signatures
     are their bytes followed by one nul byte, aligned 1; a variant is aligned 8;
     array and maybe have the alignment of their element; a tuple / dict entry has the largest alignment of its members;
   * a container places each child at the next multiple of the child's alignment *counted from the start of the
     container* (which itself starts at a multiple of its own alignment), padding with zero bytes;
   * a fixed-size tuple is padded at its end to a multiple of its alignment; the empty tuple is one zero byte;
   * array of fixed-size elements: the elements one after the other; array of variable-size elements: the elements,
     then one framing offset per element = the position where that element ends;
   * tuple: the members, then the end positions of all variable-size members EXCEPT the last member, stored in
     reverse order; a dict entry is a 2-tuple;
   * maybe: Nothing is the empty byte string; Just x is x, followed by one zero byte iff x's type is variable-size;
   * variant: the child, one zero byte, the child's type string;
   * framing offsets are little-endian unsigned integers, all of the same width w, the least of 1, 2, 4, 8 such that
     the whole container (data and offsets) has at most 2^(8w)-1 bytes; they count from the start of the container.

   Nothing here is shared with the model of zvariant's serializer (C05/Model.v). *)
From ZV Require Import Base.Bytes Base.Sig Base.SigParse Base.Utf8 DBus.Val DBus.Spec C05.Val.
Local Open Scope N_scope.

(* ---------- alignment and fixed-size-ness of a type ---------- *)
Fixpoint galign (s : sig) : N :=
  match s with
  | SUnit | SU8 | SBool | SStr | SObjPath | SSig => 1
  | SI16 | SU16 => 2
  | SI32 | SU32 | SFd => 4
  | SI64 | SU64 | SF64 | SVariant => 8
  | SArray c | SMaybe c => galign c
  | SDict k v => N.max (galign k) (galign v)
  | SStruct fs => (fix go (l : list sig) : N := match l with [] => 1 | f :: r => N.max (galign f) (go r) end) fs
  end.
Fixpoint galigns (l : list sig) : N := match l with [] => 1 | f :: r => N.max (galign f) (galigns r) end.

Fixpoint gis_fixed (s : sig) : bool :=
  match s with
  | SUnit | SU8 | SBool | SI16 | SU16 | SI32 | SU32 | SI64 | SU64 | SF64 | SFd => true
  | SStruct fs => (fix go (l : list sig) : bool := match l with [] => true | f :: r => gis_fixed f && go r end) fs
  | _ => false
  end.

(* the size of a fixed-size type (None for variable-size types) *)
Definition align_up (n a : N) : N := n + padn n a.
Fixpoint gfixed_size (s : sig) : option N :=
  match s with
  | SUnit | SU8 | SBool => Some 1
  | SI16 | SU16 => Some 2
  | SI32 | SU32 | SFd => Some 4
  | SI64 | SU64 | SF64 => Some 8
  | SStruct fs =>
      match (fix go (l : list sig) (off : N) : option N :=
               match l with
               | [] => Some off
               | f :: r => match gfixed_size f with Some n => go r (align_up off (galign f) + n) | None => None end
               end) fs 0 with
      | Some 0 => Some 1
      | Some n => Some (align_up n (galigns fs))
      | None => None
      end
  | _ => None
  end.

(* ---------- framing offsets ---------- *)
Definition offset_width (n k : N) : N :=
  if n + k <=? 255 then 1 else if n + 2 * k <=? 65535 then 2 else if n + 4 * k <=? 4294967295 then 4 else 8.
Definition offs_enc (w : N) (l : list N) : bytes := concat (map (fun o => le_bytes (N.to_nat w) o) l).
(* the offsets that follow [datalen] bytes of data *)
Definition framing (datalen : N) (offs : list N) : bytes :=
  offs_enc (offset_width datalen (N.of_nat (length offs))) offs.

(* end position of every part, counted from [off] *)
Fixpoint ends_from (off : N) (ps : list bytes) : list N :=
  match ps with [] => [] | b :: r => (off + len b) :: ends_from (off + len b) r end.

(* which member ends are recorded in a tuple: variable-size members other than the last member *)
Fixpoint tuple_offsets (sigs : list sig) (ends : list N) : list N :=
  match sigs, ends with
  | _ :: nil, _ => []
  | s :: sr, en :: er => (if gis_fixed s then [] else [en]) ++ tuple_offsets sr er
  | _, _ => []
  end.

(* a tuple of alignment [al] whose members have types [sigs] and (padded) encodings [ps] *)
Definition tuple_bytes (al : N) (sigs : list sig) (ps : list bytes) : bytes :=
  let data := concat ps in
  match sigs with
  | [] => [x00]
  | _ => if forallb gis_fixed sigs then data ++ pad (len data) al
         else data ++ framing (len data) (rev (tuple_offsets sigs (ends_from 0 ps)))
  end.

Section GV.
  Variable e : endian.

  (* the serialisation of a value that starts at a multiple of its alignment; a file descriptor is its index h *)
  Fixpoint gvb (v : gval) : bytes :=
    let parts := fix parts (l : list gval) (off : N) : list bytes :=
        match l with
        | [] => []
        | x :: r => let b := pad off (galign (gsig x)) ++ gvb x in b :: parts r (off + len b)
        end in
    let eparts := fix eparts (ks vs : sig) (l : list (gval * gval)) (off : N) : list bytes :=
        match l with
        | [] => []
        | (key, x) :: r =>
            let al := N.max (galign ks) (galign vs) in
            let kb := gvb key in
            let vb := pad (len kb) (galign vs) ++ gvb x in
            let b := pad off al ++ tuple_bytes al [ks; vs] [kb; vb] in
            b :: eparts ks vs r (off + len b)
        end in
    match v with
    | GU8 n => [nb n]
    | GBool b => [if b then x01 else x00]
    | GI16 z => enc e 2 (twos 16 z)
    | GU16 n => enc e 2 n
    | GI32 z => enc e 4 (twos 32 z)
    | GU32 n => enc e 4 n
    | GI64 z => enc e 8 (twos 64 z)
    | GU64 n => enc e 8 n
    | GF64 b => enc e 8 b
    | GStr s | GPath s => s ++ [x00]
    | GSigv s np => (if np then show_noparens s else show s) ++ [x00]
    | GFd h => enc e 4 h
    | GVariant x => gvb x ++ [x00] ++ show (gsig x)
    | GMaybe _ None => []
    | GMaybe c (Some x) => gvb x ++ (if gis_fixed c then [] else [x00])
    | GArray el l =>
        let ps := parts l 0 in
        let data := concat ps in
        if gis_fixed el then data else data ++ framing (len data) (ends_from 0 ps)
    | GDict ks vs l =>
        let ps := eparts ks vs l 0 in
        let data := concat ps in
        if gis_fixed ks && gis_fixed vs then data else data ++ framing (len data) (ends_from 0 ps)
    | GStruct l => tuple_bytes (galigns (map gsig l)) (map gsig l) (parts l 0)
    end.
End GV.

(* ---------- file descriptors: the k-th descriptor of a value, in traversal order, is entry k of the array that
   accompanies the encoding (one descriptor is attached per occurrence) ---------- *)
Fixpoint gfds_of (v : gval) : list N :=
  match v with
  | GFd h => [h]
  | GVariant x => gfds_of x
  | GMaybe _ (Some x) => gfds_of x
  | GArray _ l | GStruct l => concat (map gfds_of l)
  | GDict _ _ l => concat (map (fun p => gfds_of (fst p) ++ gfds_of (snd p)) l)
  | _ => []
  end.
Definition gnfds (v : gval) : N := N.of_nat (length (gfds_of v)).

Fixpoint renum (v : gval) (k : N) {struct v} : gval :=
  let seq := fix seq (l : list gval) (k : N) {struct l} : list gval :=
      match l with [] => [] | x :: r => renum x k :: seq r (k + gnfds x) end in
  let ents := fix ents (l : list (gval * gval)) (k : N) {struct l} : list (gval * gval) :=
      match l with
      | [] => []
      | (key, x) :: r => (renum key k, renum x (k + gnfds key)) :: ents r (k + gnfds key + gnfds x)
      end in
  match v with
  | GFd _ => GFd k
  | GVariant x => GVariant (renum x k)
  | GMaybe c (Some x) => GMaybe c (Some (renum x k))
  | GArray el l => GArray el (seq l k)
  | GStruct l => GStruct (seq l k)
  | GDict ks vs l => GDict ks vs (ents l k)
  | _ => v
  end.

(* the encoder's output for a value placed at absolute position [pos] *)
Definition gv_marshal (e : endian) (pos : N) (v : gval) : bytes :=
  pad pos (galign (gsig v)) ++ gvb e (renum v 0).

(* ---------- well-formed values ---------- *)
(* a single complete GVariant type: D-Bus's plus maybe; dict keys are basic types; tuples here are non-empty
   (zvariant's Value cannot hold the empty tuple) *)
Fixpoint gsingle_ok (s : sig) : bool :=
  match s with
  | SUnit => false
  | SArray c | SMaybe c => gsingle_ok c
  | SDict k v => is_basic k && gsingle_ok v
  | SStruct fs => (match fs with [] => false | _ => true end)
                  && (fix go (l : list sig) : bool := match l with [] => true | f :: r => gsingle_ok f && go r end) fs
  | _ => true
  end.
Definition gsigval_ok (s : sig) : bool :=
  match s with SUnit => true | SStruct fs => forallb gsingle_ok fs && negb (Nat.eqb (length fs) 0) | _ => gsingle_ok s end.

Definition gstr_ok (s : bytes) : bool := nul_free s && utf8_valid s.

Fixpoint gwf (v : gval) : bool :=
  match v with
  | GU8 n => n <? 256
  | GBool _ => true
  | GI16 z => (-32768 <=? z)%Z && (z <? 32768)%Z
  | GU16 n => n <? 65536
  | GI32 z => (-2147483648 <=? z)%Z && (z <? 2147483648)%Z
  | GU32 n => n <? 4294967296
  | GI64 z => (-9223372036854775808 <=? z)%Z && (z <? 9223372036854775808)%Z
  | GU64 n => n <? 18446744073709551616
  | GF64 b => b <? 18446744073709551616
  | GStr s => gstr_ok s
  | GPath s => path_ok s
  | GSigv s np => gsigval_ok s && (negb np || match s with SStruct (_ :: _ :: _) => true | _ => false end)
  | GFd _ => true
  | GVariant x => gwf x && gsingle_ok (gsig x)
  | GArray el l => gsingle_ok el && forallb (fun x => gwf x && sig_eqb (gsig x) el) l
  | GDict k vs l => is_basic k && gsingle_ok vs
                    && forallb (fun p => gwf (fst p) && gwf (snd p) && sig_eqb (gsig (fst p)) k
                                         && sig_eqb (gsig (snd p)) vs) l
  | GStruct l => (match l with [] => false | _ => true end) && forallb gwf l
  | GMaybe c None => gsingle_ok c
  | GMaybe c (Some x) => gsingle_ok c && gwf x && sig_eqb (gsig x) c
  end.

(* ---------- nesting limits (zvariant keeps the D-Bus limits for GVariant): at most 32 arrays (dicts count as
   arrays), 32 tuples and 64 containers in total, variants and maybes counting as containers ---------- *)
Fixpoint gdepth_ok (ds da dv : N) (v : gval) {struct v} : bool :=
  match v with
  | GVariant x => (ds + da + dv + 1 <=? 64) && gdepth_ok ds da (dv + 1) x
  | GMaybe _ (Some x) => (ds + da + dv + 1 <=? 64) && gdepth_ok ds da (dv + 1) x
  | GArray _ l => (da + 1 <=? 32) && (ds + da + dv + 1 <=? 64) && forallb (gdepth_ok ds (da + 1) dv) l
  | GDict _ _ l => (da + 1 <=? 32) && (ds + da + dv + 1 <=? 64)
                   && forallb (fun p => gdepth_ok ds (da + 1) dv (fst p) && gdepth_ok ds (da + 1) dv (snd p)) l
  | GStruct l => (ds + 1 <=? 32) && (ds + da + dv + 1 <=? 64) && forallb (gdepth_ok (ds + 1) da dv) l
  | _ => true
  end.
Definition gwithin_limits (v : gval) : bool := gdepth_ok 0 0 0 v.
