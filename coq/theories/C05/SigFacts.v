(* C05/SigFacts.v — the signature parser with the gvariant feature reads back what [show] prints for every single
   complete GVariant type (maybe included): parse_sig true (show g) = Some g.
   (Base/SigParseFacts.v proves this for the D-Bus types only; same argument with one more case.) *)
From ZV Require Import Base.Bytes Base.Sig Base.SigParse Base.SigParseFacts C05.Val C05.Spec.
From Coq Require Import Lia.

Fixpoint gprintable (s : sig) : bool :=
  match s with
  | SUnit => false
  | SArray c | SMaybe c => gprintable c
  | SDict k v => gprintable k && gprintable v
  | SStruct fs => (match fs with [] => false | _ => true end) && forallb gprintable fs
  | _ => true
  end.

Lemma gshow_head g : gprintable g = true -> exists ch t, show g = ch :: t /\ ch <> "{"%byte.
Proof.
  destruct g; cbn; intros H; try discriminate; try (eexists; eexists; split; [reflexivity|discriminate]).
Qed.

Lemma gparse_show_mutual :
  forall g, gprintable g = true -> forall f rest, pf g <= f -> parse_one f true (show g ++ rest) = Some (g, rest).
Proof.
  induction g using sig_ind'; intros Hp f rest Hf; try discriminate Hp;
    try (destruct f; [cbn in Hf; lia|reflexivity]).
  - (* array *)
    cbn [gprintable] in Hp. destruct f as [|f]; [cbn in Hf; lia|]. cbn [pf] in Hf.
    destruct (gshow_head g Hp) as (ch & t & Hs & Hne).
    change (show (SArray g) ++ rest) with ("a"%byte :: show g ++ rest).
    cbn [parse_one simple_of]. rewrite Hs. cbn [app].
    destruct ch; try congruence; rewrite <- ?app_comm_cons;
      match goal with |- context [parse_one f true (?c :: t ++ rest)] =>
        change (c :: t ++ rest) with ((c :: t) ++ rest); rewrite <- Hs; rewrite IHg by (assumption || lia); reflexivity end.
  - (* dict *)
    cbn [gprintable] in Hp. apply andb_true_iff in Hp as [Hk Hv].
    destruct f as [|f]; [cbn in Hf; lia|]. cbn [pf] in Hf.
    change (show (SDict g1 g2) ++ rest) with ("a"%byte :: "{"%byte :: (show g1 ++ show g2 ++ B "}") ++ rest).
    cbn [parse_one simple_of]. rewrite <- app_assoc. rewrite IHg1 by (assumption || lia).
    rewrite <- app_assoc. rewrite IHg2 by (assumption || lia). reflexivity.
  - (* struct *)
    cbn [gprintable] in Hp. apply andb_true_iff in Hp as [Hne Hall].
    destruct f as [|f]; [cbn in Hf; lia|]. rewrite pf_struct in Hf.
    change (show (SStruct fs) ++ rest) with ("("%byte :: (concat (map show fs) ++ B ")") ++ rest).
    cbn [parse_one simple_of]. rewrite <- app_assoc.
    assert (Hm : forall l, Forall (fun g => gprintable g = true -> forall f rest, pf g <= f -> parse_one f true (show g ++ rest) = Some (g, rest)) l ->
                 forallb gprintable l = true -> forall f r, stops r -> pfs l <= f ->
                 parse_many f true (concat (map show l) ++ r) = (l, r)).
    { induction l as [|x l IHl]; intros HF Hpl f0 r Hr Hf0.
      - cbn. destruct f0; [reflexivity|]. cbn [parse_many]. now rewrite parse_one_stop.
      - inversion HF as [|? ? Hx HFl]; subst. cbn [forallb] in Hpl. apply andb_true_iff in Hpl as [Hpx Hpl].
        cbn [pfs] in Hf0. destruct f0 as [|f0]; [lia|]. cbn [map concat]. rewrite <- app_assoc.
        cbn [parse_many]. rewrite Hx by (assumption || lia). rewrite IHl by (assumption || lia). reflexivity. }
    rewrite (Hm fs H Hall f (B ")" ++ rest)) by ((right; eexists; reflexivity) || lia).
    destruct fs; [discriminate Hne|]. reflexivity.
  - (* maybe *)
    cbn [gprintable] in Hp. destruct f as [|f]; [cbn in Hf; lia|]. cbn [pf] in Hf.
    change (show (SMaybe g) ++ rest) with ("m"%byte :: show g ++ rest).
    cbn [parse_one simple_of]. rewrite IHg by (assumption || lia). reflexivity.
Qed.

Lemma gpf_bound g : gprintable g = true -> pf g <= 2 * length (show g).
Proof.
  induction g using sig_ind'; intros Hp; try discriminate Hp; try (cbn; lia).
  - cbn [gprintable] in Hp. specialize (IHg Hp). cbn [pf show]. rewrite app_length. cbn. lia.
  - cbn [gprintable] in Hp. apply andb_true_iff in Hp as [Hk Hv]. specialize (IHg1 Hk). specialize (IHg2 Hv).
    cbn [pf show]. rewrite !app_length. cbn. lia.
  - cbn [gprintable] in Hp. apply andb_true_iff in Hp as [_ Hall]. rewrite pf_struct. cbn [show]. rewrite !app_length. cbn.
    assert (Hb : pfs fs <= 2 * length (concat (map show fs)) + 1).
    { clear - H Hall. induction fs as [|x r IH]; [cbn; lia|].
      inversion H as [|? ? Hx Hr]; subst. cbn [forallb] in Hall. apply andb_true_iff in Hall as [Hpx Hpr].
      specialize (IH Hr Hpr). specialize (Hx Hpx). cbn [pfs map concat]. rewrite app_length.
      destruct (gshow_head x Hpx) as (ch & t & Hs & _). rewrite Hs in *. cbn [length] in *. lia. }
    lia.
  - cbn [gprintable] in Hp. specialize (IHg Hp). cbn [pf show]. rewrite app_length. cbn. lia.
Qed.

Theorem gparse_show g : gprintable g = true -> parse_sig true (show g) = Some g.
Proof.
  intros Hp. unfold parse_sig. destruct (gshow_head g Hp) as (ch & t & Hs & _).
  rewrite Hs. rewrite <- Hs. unfold sig_fuel.
  pose proof (gpf_bound g Hp) as Hb.
  assert (H1 : parse_many (2 * length (show g) + 2) true (show g) = ([g], [])).
  { replace (2 * length (show g) + 2) with (S (2 * length (show g) + 1)) by lia. cbn [parse_many].
    pose proof (gparse_show_mutual g Hp (2 * length (show g) + 1) [] ltac:(lia)) as Hx.
    rewrite app_nil_r in Hx. rewrite Hx.
    assert (Hn : forall k, parse_many k true [] = ([], [])) by (intros [|[|k]]; reflexivity).
    now rewrite Hn. }
  rewrite H1. reflexivity.
Qed.

Lemma gsingle_printable : forall g, gsingle_ok g = true -> gprintable g = true.
Proof.
  induction g using sig_ind'; cbn [gsingle_ok gprintable]; intros Hs; try discriminate; try reflexivity; auto.
  - apply andb_true_iff in Hs as [H1 H2]. rewrite IHg2 by assumption.
    destruct g1; cbn in H1; try discriminate; reflexivity.
  - apply andb_true_iff in Hs as [H1 H2]. rewrite H1. cbn.
    clear H1. revert H2. induction H as [|x l Hx Hl IH]; intros H2; [reflexivity|].
    apply andb_true_iff in H2 as [Ha Hb]. cbn [forallb].
    rewrite Hx by assumption. apply IH. assumption.
Qed.

Theorem parse_show_gv g : gsingle_ok g = true -> parse_sig true (show g) = Some g.
Proof. intros H. apply gparse_show. now apply gsingle_printable. Qed.
