(* C05/SerProofs.v — the model of zvariant's GVariant serializer produces exactly the specification's bytes
   (gvb / gv_marshal) for every well-formed value outside the known classes. *)
From ZV Require Import Base.Bytes Base.Res Base.Sig Base.SigParse DBus.Val DBus.Spec DBus.Ser DBus.SerFacts
  C05.Val C05.Spec C05.Model C05.Classes C05.Facts C05.SigFacts.
From Coq Require Import Lia.
Local Open Scope N_scope.

(* ---------- standalone forms of gser's local fixpoints ---------- *)
Fixpoint ser_elems (l : list sval) (start : N) (roffs : option (list N)) (st : gstate) : res cerr (gstate * option (list N)) :=
  match l with
  | [] => Ok (st, roffs)
  | y :: r => let* st1 := gser y st in ser_elems r start (push_end st1 start roffs) st1
  end.
Fixpoint ser_fields (l : list sval) (idx : nat) (start : N) (offs : option (list N)) (st : gstate) : res cerr (gstate * option (list N)) :=
  match l with
  | [] => Ok (st, offs)
  | y :: r => let* (g, isv, idx') := gfield_sig st idx in
              let* sub := gser y (gsub_of st g) in
              let '(st, offs) := gfield_done (gback_from st sub) start offs g isv in
              ser_fields r idx' start offs st
  end.
Fixpoint ser_nfields (l : list (bytes * sval)) (idx : nat) (start : N) (offs : option (list N)) (st : gstate) : res cerr (gstate * option (list N)) :=
  match l with
  | [] => Ok (st, offs)
  | (_, y) :: r => let* (g, isv, idx') := gfield_sig st idx in
                   let* sub := gser y (gsub_of st g) in
                   let '(st, offs) := gfield_done (gback_from st sub) start offs g isv in
                   ser_nfields r idx' start offs st
  end.
Definition ser_entry_tail (y : sval) (start al : N) (roffs : option (list N)) (ks vs : sig) (key_start : option N) (st : gstate)
  : res cerr (gstate * option (list N)) :=
  let key_offset := match key_start with Some s => Some (g_written st - s) | None => None end in
  let* st := gser y (gset_sig st vs) in
  let st := gset_sig st ks in
  let* st := match key_offset with
             | Some ko =>
                 let entry_size := g_written st - (match key_start with Some s => s | None => 0 end) in
                 let* w := for_encoded_container entry_size in
                 Ok (gwr st (offset_bytes w ko))
             | None => Ok st
             end in
  Ok (st, push_end st start roffs).
Fixpoint ser_entries (l : list (sval * sval)) (start al : N) (roffs : option (list N)) (ks vs : sig) (key_start : option N) (st : gstate)
  : res cerr (gstate * option (list N)) :=
  match l with
  | [] => Ok (st, roffs)
  | (k, y) :: r =>
      let st := gpadded st al in
      let key_start := match key_start with Some _ => Some (g_written st) | None => None end in
      let* st := gser k st in
      let* (st, roffs) := ser_entry_tail y start al roffs ks vs key_start st in
      ser_entries r start al roffs ks vs key_start st
  end.

Lemma gser_seq l st :
  gser (XSeq l) st =
  let* (st, start, al, roffs, asig) := gseq_begin st in
  let* (st, roffs) := ser_elems l start roffs st in
  gseq_end st start roffs asig.
Proof. reflexivity. Qed.
Lemma gser_tuple l st :
  gser (XTuple l) st =
  let* (st, k) := gstruct_begin st in
  match k with
  | KStructG start offs saved => let* (st, offs) := ser_fields l 0%nat start offs st in gstruct_end st start offs saved
  | KSeqG start roffs asig => let* (st, roffs) := ser_elems l start roffs st in gseq_end st start roffs asig
  | KMapG _ _ _ _ _ _ _ => Panic PUnreachable
  end.
Proof. reflexivity. Qed.
Lemma gser_variant_struct a b st :
  g_sig st = SVariant ->
  gser (XStruct [a; b]) st =
  let* (st, k) := gstruct_begin st in
  match k with
  | KStructG start offs saved => let* (st, offs) := ser_nfields [a; b] 0%nat start offs st in gstruct_end st start offs saved
  | _ => Err EOther
  end.
Proof.
  intros Hs. cbn [gser]. unfold gstruct_begin. rewrite gpadded_gwr. cbn [g_sig gwr]. rewrite Hs.
  cbn [align_gv]. destruct (inc_variant _); reflexivity.
Qed.
Lemma gser_map l st :
  gser (XMap l) st =
  let* (st, k) := gmap_begin st in
  match k with
  | KMapG start al roffs asig ks vs key_start =>
      let* (st, roffs) := ser_entries l start al roffs ks vs key_start st in gseq_end st start roffs asig
  | _ => Panic PUnreachable
  end.
Proof. reflexivity. Qed.

(* ---------- nesting depth bookkeeping ---------- *)
Definition dep_ok (d : depths) : Prop := d_struct d <= 32 /\ d_array d <= 32.
Definition dtot (d : depths) : N := d_variant d + d_maybe d.
Definition gfits (d : depths) (v : gval) : Prop := gdepth_ok (d_struct d) (d_array d) (dtot d) v = true.

Lemma dcheck_ok d : d_struct d <= 32 -> d_array d <= 32 -> d_struct d + d_array d + d_variant d + d_maybe d <= 64 ->
  dcheck d = Ok d.
Proof.
  intros H1 H2 H3. unfold dcheck.
  destruct (N.ltb_spec 32 (d_struct d)); [lia|]. destruct (N.ltb_spec 32 (d_array d)); [lia|].
  destruct (N.ltb_spec 64 (d_struct d + d_array d + d_variant d + d_maybe d)); [lia|]. reflexivity.
Qed.

Lemma inc_array_good d : dep_ok d -> d_array d + 1 <= 32 -> d_struct d + d_array d + dtot d + 1 <= 64 ->
  exists d', inc_array d = Ok d' /\ dec_array d' = d /\ dep_ok d' /\
             d_struct d' = d_struct d /\ d_array d' = d_array d + 1 /\ dtot d' = dtot d.
Proof.
  intros [H1 H2] H3 H4. unfold inc_array, dtot in *. eexists. split; [apply dcheck_ok; cbn; lia|].
  destruct d; unfold dec_array, dep_ok, dtot; cbn in *. repeat split; try lia. f_equal. lia.
Qed.
Lemma inc_struct_good d : dep_ok d -> d_struct d + 1 <= 32 -> d_struct d + d_array d + dtot d + 1 <= 64 ->
  exists d', inc_struct d = Ok d' /\ dep_ok d' /\
             d_struct d' = d_struct d + 1 /\ d_array d' = d_array d /\ dtot d' = dtot d.
Proof.
  intros [H1 H2] H3 H4. unfold inc_struct, dtot in *. eexists. split; [apply dcheck_ok; cbn; lia|].
  destruct d; unfold dep_ok, dtot; cbn in *. repeat split; lia.
Qed.
Lemma inc_variant_good d : dep_ok d -> d_struct d + d_array d + dtot d + 1 <= 64 ->
  exists d', inc_variant d = Ok d' /\ dep_ok d' /\
             d_struct d' = d_struct d /\ d_array d' = d_array d /\ dtot d' = dtot d + 1.
Proof.
  intros [H1 H2] H4. unfold inc_variant, dtot in *. eexists. split; [apply dcheck_ok; cbn; lia|].
  destruct d; unfold dep_ok, dtot; cbn in *. repeat split; lia.
Qed.
Lemma inc_maybe_good d : dep_ok d -> d_struct d + d_array d + dtot d + 1 <= 64 ->
  exists d', inc_maybe d = Ok d' /\ dec_maybe d' = d /\ dep_ok d' /\
             d_struct d' = d_struct d /\ d_array d' = d_array d /\ dtot d' = dtot d + 1.
Proof.
  intros [H1 H2] H4. unfold inc_maybe, dtot in *. eexists. split; [apply dcheck_ok; cbn; lia|].
  destruct d; unfold dec_maybe, dep_ok, dtot; cbn in *. repeat split; try lia. f_equal. lia.
Qed.

(* ---------- node predicates ---------- *)
Lemma all_nodes_array p el l : all_nodes p (GArray el l) = p (GArray el l) && forallb (all_nodes p) l.
Proof. reflexivity. Qed.
Lemma all_nodes_struct p l : all_nodes p (GStruct l) = p (GStruct l) && forallb (all_nodes p) l.
Proof. reflexivity. Qed.
Lemma all_nodes_dict p ks vs l :
  all_nodes p (GDict ks vs l) = p (GDict ks vs l) && forallb (fun q => all_nodes p (fst q) && all_nodes p (snd q)) l.
Proof.
  cbn [all_nodes]. f_equal. induction l as [|[k x] l IH]; [reflexivity|]. cbn [forallb fst snd]. now rewrite IH.
Qed.

Lemma has_bool_struct fs : has_bool (SStruct fs) = existsb has_bool fs.
Proof. reflexivity. Qed.

(* without `b` (and without the unit type) the code's alignment table is the format's *)
Lemma align_gv_spec : forall s, has_bool s = false -> gsingle_ok s = true -> align_gv s = galign s.
Proof.
  induction s using sig_ind'; cbn [has_bool gsingle_ok align_gv galign]; intros Hb Hs; try reflexivity; try discriminate; auto.
  - apply orb_false_iff in Hb as [Hb1 Hb2]. apply andb_true_iff in Hs as [Hs1 Hs2].
    rewrite IHs2 by assumption. f_equal. destruct s1; cbn in Hs1, Hb1 |- *; try discriminate; reflexivity.
  - apply andb_true_iff in Hs as [_ Hs]. revert Hb Hs.
    induction H as [|x l Hx Hl IH]; intros Hb Hs; [reflexivity|].
    apply orb_false_iff in Hb as [Hb1 Hb2]. apply andb_true_iff in Hs as [Hs1 Hs2].
    rewrite Hx by assumption. f_equal. apply IH; assumption.
Qed.

Lemma gwf_single : forall v, gwf v = true -> gsingle_ok (gsig v) = true.
Proof.
  induction v using gval_ind'; cbn [gwf gsig gsingle_ok]; intros Hw; try reflexivity.
  - now apply andb_true_iff in Hw as [Hw _].
  - apply andb_true_iff in Hw as [Hw _]. assumption.
  - apply andb_true_iff in Hw as [Hne Hw]. apply andb_true_iff. split; [destruct l; [discriminate|reflexivity]|].
    clear Hne. induction H as [|y r Hy Hr IH]; [reflexivity|]. cbn [forallb] in Hw. apply andb_true_iff in Hw as [H1 H2].
    cbn [map]. rewrite Hy by assumption. cbn [andb]. apply IH; assumption.
  - assumption.
  - apply andb_true_iff in Hw as [Hw _]. now apply andb_true_iff in Hw as [Hw _].
Qed.

(* ---------- basic types: the D-Bus serializer writes padding + the fixed-size encoding ---------- *)
Definition dstate_of (st : gstate) : sstate :=
  {| s_cfg := {| c_gv := true; c_oaa := false |}; s_e := g_e st; s_pos0 := gabs st; s_out := [];
     s_sig := g_sig st; s_vsign := None; s_dep := g_dep st; s_fds := g_fds st |}.
Lemma dbus_basic_run st sx al n x :
  DBus.Ser.ser sx (dstate_of st) = basic (dstate_of st) al n x ->
  dbus_basic sx st = Ok (gwr st (pad (gabs st) al ++ enc (g_e st) n x)).
Proof.
  intros H. unfold dbus_basic. fold (dstate_of st). rewrite H. unfold basic, padded, add_padding, wr, abs_pos, written, dstate_of.
  cbn [bind fst s_out s_fds s_e s_pos0 set_out]. rewrite len_nil, N.add_0_r. cbn [app].
  destruct st; reflexivity.
Qed.

Section P.
  Variable e : endian.

  (* node-local side conditions: outside the known classes, the node's encoding is not astronomically large,
     no file descriptor, signatures in their parenthesised form *)
  Definition node_pre (v : gval) : bool :=
    negb (node_known e v) && (len (gvb e v) <? 2 ^ 60)
    && match v with GFd _ => false | GSigv _ np => negb np | _ => true end.
  Definition pre (v : gval) : bool := all_nodes node_pre v.

  Definition good (v : gval) : Prop := forall st,
    g_e st = e -> gwf v = true -> pre v = true -> g_sig st = gsig v -> g_vsign st = None ->
    dep_ok (g_dep st) -> gfits (g_dep st) v ->
    gser (sval_of v) st = Ok (gwr st (pad (gabs st) (galign (gsig v)) ++ gvb e v)).

  Ltac basic_case :=
    intros st He Hw Hp Hs Hv Hd Hf; cbn [sval_of gser gsig galign gvb];
    erewrite dbus_basic_run by (cbn [DBus.Ser.ser dstate_of s_sig]; rewrite ?Hs; reflexivity); rewrite He; reflexivity.

  Lemma good_i16 z : good (GI16 z). Proof. basic_case. Qed.
  Lemma good_u16 z : good (GU16 z). Proof. basic_case. Qed.
  Lemma good_i32 z : good (GI32 z). Proof. basic_case. Qed.
  Lemma good_u32 z : good (GU32 z). Proof. basic_case. Qed.
  Lemma good_i64 z : good (GI64 z). Proof. basic_case. Qed.
  Lemma good_u64 z : good (GU64 z). Proof. basic_case. Qed.
  Lemma good_f64 z : good (GF64 z). Proof. basic_case. Qed.
  Lemma good_u8 n : good (GU8 n).
  Proof.
    intros st He Hw Hp Hs Hv Hd Hf; cbn [sval_of gser gsig galign gvb].
    erewrite dbus_basic_run by reflexivity. rewrite pad_1. cbn [app]. do 2 f_equal.
    destruct (g_e st); cbn; unfold nb; rewrite N.mod_mod by lia; reflexivity.
  Qed.
  (* booleans and descriptors are excluded by [pre] *)
  Lemma good_bool b : good (GBool b).
  Proof. intros st He Hw Hp. unfold pre in Hp. cbn in Hp. discriminate. Qed.
  Lemma good_fd h : good (GFd h).
  Proof.
    intros st He Hw Hp. unfold pre in Hp. cbn [all_nodes] in Hp. unfold node_pre in Hp.
    rewrite andb_true_r in Hp. apply andb_true_iff in Hp as [_ Hp]. discriminate.
  Qed.

  Lemma good_str s : good (GStr s).
  Proof.
    intros st He Hw Hp Hs Hv Hd Hf; cbn [sval_of gser gsig galign gvb].
    unfold gser_str. rewrite Hs. rewrite gwr_gwr, pad_1. reflexivity.
  Qed.
  Lemma good_path s : good (GPath s).
  Proof.
    intros st He Hw Hp Hs Hv Hd Hf; cbn [sval_of gser gsig galign gvb].
    unfold gser_str. rewrite Hs. rewrite gwr_gwr, pad_1. reflexivity.
  Qed.
  Lemma good_sigv g np : good (GSigv g np).
  Proof.
    intros st He Hw Hp Hs Hv Hd Hf; cbn [sval_of gser gsig galign gvb].
    unfold pre in Hp. cbn [all_nodes] in Hp. unfold node_pre in Hp. rewrite andb_true_r in Hp.
    apply andb_true_iff in Hp as [_ Hp]. destruct np; [discriminate|].
    unfold gser_str. rewrite Hs. rewrite gwr_gwr, pad_1. reflexivity.
  Qed.

  (* ---------- what [pre] and [gwf] say at a node ---------- *)
  Lemma all_nodes_head p v : all_nodes p v = true -> p v = true.
  Proof. destruct v; cbn [all_nodes]; intros H; try (apply andb_true_iff in H as [H _]); assumption. Qed.
  Lemma pre_node v : pre v = true ->
    has_bool (gsig v) = false /\ node_tail e v = false /\ node_empty_offsets e v = false /\ node_dict_key e v = false
    /\ len (gvb e v) < 2 ^ 60.
  Proof.
    intros H. apply all_nodes_head in H. unfold node_pre in H.
    apply andb_true_iff in H as [H _]. apply andb_true_iff in H as [H1 H2].
    apply negb_true_iff in H1. unfold node_known in H1.
    apply orb_false_iff in H1 as [H1 Hd]. apply orb_false_iff in H1 as [H1 Hc]. apply orb_false_iff in H1 as [Ha Hb].
    apply N.ltb_lt in H2. unfold node_bool in Ha. tauto.
  Qed.
  Lemma pre_align v : pre v = true -> gwf v = true -> align_gv (gsig v) = galign (gsig v).
  Proof. intros Hp Hw. apply align_gv_spec; [apply pre_node in Hp; tauto|now apply gwf_single]. Qed.

  (* restoring signature and depth around a nested serialization *)
  Lemma reframe st b b' g d g0 d0 :
    g0 = g_sig st -> d0 = g_dep st ->
    gset_sig (gset_dep (gwr (gset_dep (gset_sig (gwr st b) g) d) b') d0) g0 = gwr st (b ++ b').
  Proof. intros -> ->. rewrite <- gwr_gwr. destruct st; reflexivity. Qed.

  Lemma good_nothing cs : good (GMaybe cs None).
  Proof.
    intros st He Hw Hp Hs Hv Hd Hf. cbn [sval_of gser]. unfold gmaybe_begin. rewrite gpadded_gwr.
    cbn [g_sig gwr]. rewrite Hs. rewrite (pre_align _ Hp Hw). cbn [gsig bind gvb]. now rewrite app_nil_r.
  Qed.

  Lemma good_just cs x : good x -> good (GMaybe cs (Some x)).
  Proof.
    intros IH st He Hw Hp Hs Hv Hd Hf. cbn [sval_of gser]. unfold gmaybe_begin. rewrite gpadded_gwr.
    cbn [g_sig gwr]. rewrite Hs. rewrite (pre_align _ Hp Hw). cbn [gsig bind galign].
    cbn [gwf] in Hw. apply andb_true_iff in Hw as [Hw Hsx]. apply andb_true_iff in Hw as [Hcs Hwx].
    apply sig_eqb_eq in Hsx.
    unfold pre in Hp. cbn [all_nodes] in Hp. apply andb_true_iff in Hp as [Hn Hpx]. fold (pre x) in Hpx.
    unfold gfits in Hf. cbn [gdepth_ok] in Hf. apply andb_true_iff in Hf as [Hf1 Hf2]. apply N.leb_le in Hf1.
    destruct (inc_maybe_good _ Hd Hf1) as (d' & Hinc & Hdec & Hd' & Hs' & Ha' & Ht').
    autorewrite with gst. rewrite Hinc. cbn [bind].
    set (st1 := gset_dep _ d').
    assert (Habs : gabs st1 mod galign (gsig x) = 0).
    { subst st1. autorewrite with gst. rewrite len_pad, Hsx. apply padn_after, galign_nz. }
    rewrite (IH st1); try assumption; try reflexivity.
    2:{ subst st1. autorewrite with gst. symmetry. assumption. }
    2:{ subst st1. unfold gfits. autorewrite with gst. rewrite Hs', Ha', Ht'. assumption. }
    cbn [bind]. rewrite (pad_aligned _ _ (galign_nz _) Habs). cbn [app].
    subst st1. cbn [g_dep gwr gset_dep]. rewrite Hdec.
    cbn [galign gsig gvb]. rewrite fixed_sized_spec.
    destruct (gis_fixed cs).
    - rewrite app_nil_r. apply f_equal. destruct st; cbn in *. subst. unfold gwr; cbn. f_equal.
      + now rewrite !rev_append_rev, rev_app_distr, app_assoc.
      + rewrite len_app. lia.
    - apply f_equal. destruct st; cbn in *. subst. unfold gwr; cbn. f_equal.
      + rewrite !rev_append_rev, !rev_app_distr. cbn. now rewrite <- !app_assoc.
      + rewrite !len_app. cbn. lia.
  Qed.
End P.
