(* C05/SerProofs.v — the model of zvariant's GVariant serializer produces exactly the specification's bytes
   (gvb / gv_marshal) for every well-formed value outside the known classes. *)
From ZV Require Import Base.Bytes Base.Res Base.Sig Base.SigParse DBus.Val DBus.Spec DBus.Ser DBus.SerFacts
  C05.Val C05.Spec C05.Model C05.Classes C05.Facts C05.SigFacts.
From Coq Require Import Lia.
Local Open Scope N_scope.

(* ---------- standalone forms of gser's local fixpoints ---------- *)
Fixpoint ser_elems (l : list sval) (start : N) (roffs : option (list N)) (st : gstate) : res cerr (gstate * option (list N)) :=
  match l with
  | [] => Ok (st, roffs)
  | y :: r => let* st1 := gser y st in ser_elems r start (push_end st1 start roffs) st1
  end.
Fixpoint ser_fields (l : list sval) (idx : nat) (start : N) (offs : option (list N)) (st : gstate) : res cerr (gstate * option (list N)) :=
  match l with
  | [] => Ok (st, offs)
  | y :: r => let* (g, isv, idx') := gfield_sig st idx in
              let* sub := gser y (gsub_of st g) in
              let '(st, offs) := gfield_done (gback_from st sub) start offs g isv in
              ser_fields r idx' start offs st
  end.
Fixpoint ser_nfields (l : list (bytes * sval)) (idx : nat) (start : N) (offs : option (list N)) (st : gstate) : res cerr (gstate * option (list N)) :=
  match l with
  | [] => Ok (st, offs)
  | (_, y) :: r => let* (g, isv, idx') := gfield_sig st idx in
                   let* sub := gser y (gsub_of st g) in
                   let '(st, offs) := gfield_done (gback_from st sub) start offs g isv in
                   ser_nfields r idx' start offs st
  end.
Definition ser_entry_tail (y : sval) (start al : N) (roffs : option (list N)) (ks vs : sig) (key_start : option N) (st : gstate)
  : res cerr (gstate * option (list N)) :=
  let key_offset := match key_start with Some s => Some (g_written st - s) | None => None end in
  let* st := gser y (gset_sig st vs) in
  let st := gset_sig st ks in
  let* st := match key_offset with
             | Some ko =>
                 let entry_size := g_written st - (match key_start with Some s => s | None => 0 end) in
                 let* w := for_encoded_container entry_size in
                 Ok (gwr st (offset_bytes w ko))
             | None => Ok st
             end in
  Ok (st, push_end st start roffs).
Fixpoint ser_entries (l : list (sval * sval)) (start al : N) (roffs : option (list N)) (ks vs : sig) (key_start : option N) (st : gstate)
  : res cerr (gstate * option (list N)) :=
  match l with
  | [] => Ok (st, roffs)
  | (k, y) :: r =>
      let st := gpadded st al in
      let key_start := match key_start with Some _ => Some (g_written st) | None => None end in
      let* st := gser k st in
      let* (st, roffs) := ser_entry_tail y start al roffs ks vs key_start st in
      ser_entries r start al roffs ks vs key_start st
  end.

Lemma gser_seq l st :
  gser (XSeq l) st =
  let* (st, start, al, roffs, asig) := gseq_begin st in
  let* (st, roffs) := ser_elems l start roffs st in
  gseq_end st start roffs asig.
Proof. reflexivity. Qed.
Lemma gser_tuple l st :
  gser (XTuple l) st =
  let* (st, k) := gstruct_begin st in
  match k with
  | KStructG start offs saved => let* (st, offs) := ser_fields l 0%nat start offs st in gstruct_end st start offs saved
  | KSeqG start roffs asig => let* (st, roffs) := ser_elems l start roffs st in gseq_end st start roffs asig
  | KMapG _ _ _ _ _ _ _ => Panic PUnreachable
  end.
Proof. reflexivity. Qed.
Lemma gser_variant_struct a b st :
  g_sig st = SVariant ->
  gser (XStruct [a; b]) st =
  let* (st, k) := gstruct_begin st in
  match k with
  | KStructG start offs saved => let* (st, offs) := ser_nfields [a; b] 0%nat start offs st in gstruct_end st start offs saved
  | _ => Err EOther
  end.
Proof.
  intros Hs. cbn [gser]. unfold gstruct_begin. rewrite gpadded_gwr. cbn [g_sig gwr]. rewrite Hs.
  cbn [align_gv]. destruct (inc_variant _); reflexivity.
Qed.
Lemma gser_map l st :
  gser (XMap l) st =
  let* (st, k) := gmap_begin st in
  match k with
  | KMapG start al roffs asig ks vs key_start =>
      let* (st, roffs) := ser_entries l start al roffs ks vs key_start st in gseq_end st start roffs asig
  | _ => Panic PUnreachable
  end.
Proof. reflexivity. Qed.

(* ---------- nesting depth bookkeeping ---------- *)
Definition dep_ok (d : depths) : Prop := d_struct d <= 32 /\ d_array d <= 32.
Definition dtot (d : depths) : N := d_variant d + d_maybe d.
Definition gfits (d : depths) (v : gval) : Prop := gdepth_ok (d_struct d) (d_array d) (dtot d) v = true.

Lemma dcheck_ok d : d_struct d <= 32 -> d_array d <= 32 -> d_struct d + d_array d + d_variant d + d_maybe d <= 64 ->
  dcheck d = Ok d.
Proof.
  intros H1 H2 H3. unfold dcheck.
  destruct (N.ltb_spec 32 (d_struct d)); [lia|]. destruct (N.ltb_spec 32 (d_array d)); [lia|].
  destruct (N.ltb_spec 64 (d_struct d + d_array d + d_variant d + d_maybe d)); [lia|]. reflexivity.
Qed.

Lemma inc_array_good d : dep_ok d -> d_array d + 1 <= 32 -> d_struct d + d_array d + dtot d + 1 <= 64 ->
  exists d', inc_array d = Ok d' /\ dec_array d' = d /\ dep_ok d' /\
             d_struct d' = d_struct d /\ d_array d' = d_array d + 1 /\ dtot d' = dtot d.
Proof.
  intros [H1 H2] H3 H4. unfold inc_array, dtot in *. eexists. split; [apply dcheck_ok; cbn; lia|].
  destruct d; unfold dec_array, dep_ok, dtot; cbn in *. repeat split; try lia. f_equal. lia.
Qed.
Lemma inc_struct_good d : dep_ok d -> d_struct d + 1 <= 32 -> d_struct d + d_array d + dtot d + 1 <= 64 ->
  exists d', inc_struct d = Ok d' /\ dep_ok d' /\
             d_struct d' = d_struct d + 1 /\ d_array d' = d_array d /\ dtot d' = dtot d.
Proof.
  intros [H1 H2] H3 H4. unfold inc_struct, dtot in *. eexists. split; [apply dcheck_ok; cbn; lia|].
  destruct d; unfold dep_ok, dtot; cbn in *. repeat split; lia.
Qed.
Lemma inc_variant_good d : dep_ok d -> d_struct d + d_array d + dtot d + 1 <= 64 ->
  exists d', inc_variant d = Ok d' /\ dep_ok d' /\
             d_struct d' = d_struct d /\ d_array d' = d_array d /\ dtot d' = dtot d + 1.
Proof.
  intros [H1 H2] H4. unfold inc_variant, dtot in *. eexists. split; [apply dcheck_ok; cbn; lia|].
  destruct d; unfold dep_ok, dtot; cbn in *. repeat split; lia.
Qed.
Lemma inc_maybe_good d : dep_ok d -> d_struct d + d_array d + dtot d + 1 <= 64 ->
  exists d', inc_maybe d = Ok d' /\ dec_maybe d' = d /\ dep_ok d' /\
             d_struct d' = d_struct d /\ d_array d' = d_array d /\ dtot d' = dtot d + 1.
Proof.
  intros [H1 H2] H4. unfold inc_maybe, dtot in *. eexists. split; [apply dcheck_ok; cbn; lia|].
  destruct d; unfold dec_maybe, dep_ok, dtot; cbn in *. repeat split; try lia. f_equal. lia.
Qed.

(* ---------- node predicates ---------- *)
Lemma all_nodes_array p el l : all_nodes p (GArray el l) = p (GArray el l) && forallb (all_nodes p) l.
Proof. reflexivity. Qed.
Lemma all_nodes_struct p l : all_nodes p (GStruct l) = p (GStruct l) && forallb (all_nodes p) l.
Proof. reflexivity. Qed.
Lemma all_nodes_dict p ks vs l :
  all_nodes p (GDict ks vs l) = p (GDict ks vs l) && forallb (fun q => all_nodes p (fst q) && all_nodes p (snd q)) l.
Proof.
  cbn [all_nodes]. f_equal. induction l as [|[k x] l IH]; [reflexivity|]. cbn [forallb fst snd]. now rewrite IH.
Qed.

Lemma has_bool_struct fs : has_bool (SStruct fs) = existsb has_bool fs.
Proof. reflexivity. Qed.

(* without `b` (and without the unit type) the code's alignment table is the format's *)
Lemma align_gv_spec : forall s, has_bool s = false -> gsingle_ok s = true -> align_gv s = galign s.
Proof.
  induction s using sig_ind'; cbn [has_bool gsingle_ok align_gv galign]; intros Hb Hs; try reflexivity; try discriminate; auto.
  - apply orb_false_iff in Hb as [Hb1 Hb2]. apply andb_true_iff in Hs as [Hs1 Hs2].
    rewrite IHs2 by assumption. f_equal. destruct s1; cbn in Hs1, Hb1 |- *; try discriminate; reflexivity.
  - apply andb_true_iff in Hs as [_ Hs]. revert Hb Hs.
    induction H as [|x l Hx Hl IH]; intros Hb Hs; [reflexivity|].
    apply orb_false_iff in Hb as [Hb1 Hb2]. apply andb_true_iff in Hs as [Hs1 Hs2].
    rewrite Hx by assumption. f_equal. apply IH; assumption.
Qed.

Lemma gwf_single : forall v, gwf v = true -> gsingle_ok (gsig v) = true.
Proof.
  induction v using gval_ind'; cbn [gwf gsig gsingle_ok]; intros Hw; try reflexivity.
  - now apply andb_true_iff in Hw as [Hw _].
  - apply andb_true_iff in Hw as [Hw _]. assumption.
  - apply andb_true_iff in Hw as [Hne Hw]. destruct l as [|x l]; [discriminate|]. cbn [map].
    change (match gsig x :: map gsig l with [] => false | _ => true end) with true. cbn [andb].
    induction H as [|y r Hy Hr IH]; [reflexivity|]. cbn [forallb] in Hw. apply andb_true_iff in Hw as [H1 H2].
    cbn [map]. rewrite Hy by assumption. cbn [andb]. destruct r; [reflexivity|]. apply IH; [discriminate|assumption].
  - assumption.
  - apply andb_true_iff in Hw as [Hw _]. now apply andb_true_iff in Hw as [Hw _].
Qed.
