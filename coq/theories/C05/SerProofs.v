(* C05/SerProofs.v — the model of zvariant's GVariant serializer produces exactly the specification's bytes
   (gvb / gv_marshal) for every well-formed value outside the known classes. *)
From ZV Require Import Base.Bytes Base.Res Base.Sig Base.SigParse DBus.Val DBus.Spec DBus.Ser DBus.SerFacts
  C05.Val C05.Spec C05.Model C05.Classes C05.Facts C05.SigFacts.
From Coq Require Import Lia.
Local Open Scope N_scope.

(* ---------- standalone forms of gser's local fixpoints ---------- *)
Fixpoint ser_elems (l : list sval) (start : N) (roffs : option (list N)) (st : gstate) : res cerr (gstate * option (list N)) :=
  match l with
  | [] => Ok (st, roffs)
  | y :: r => let* st1 := gser y st in ser_elems r start (push_end st1 start roffs) st1
  end.
Fixpoint ser_fields (l : list sval) (idx : nat) (start : N) (offs : option (list N)) (st : gstate) : res cerr (gstate * option (list N)) :=
  match l with
  | [] => Ok (st, offs)
  | y :: r => let* (g, isv, idx') := gfield_sig st idx in
              let* sub := gser y (gsub_of st g) in
              let '(st, offs) := gfield_done (gback_from st sub) start offs g isv in
              ser_fields r idx' start offs st
  end.
Fixpoint ser_nfields (l : list (bytes * sval)) (idx : nat) (start : N) (offs : option (list N)) (st : gstate) : res cerr (gstate * option (list N)) :=
  match l with
  | [] => Ok (st, offs)
  | (_, y) :: r => let* (g, isv, idx') := gfield_sig st idx in
                   let* sub := gser y (gsub_of st g) in
                   let '(st, offs) := gfield_done (gback_from st sub) start offs g isv in
                   ser_nfields r idx' start offs st
  end.
Definition ser_entry_tail (y : sval) (start al : N) (roffs : option (list N)) (ks vs : sig) (key_start : option N) (st : gstate)
  : res cerr (gstate * option (list N)) :=
  let key_offset := match key_start with Some s => Some (g_written st - s) | None => None end in
  let* st := gser y (gset_sig st vs) in
  let st := gset_sig st ks in
  let* st := match key_offset with
             | Some ko =>
                 let entry_size := g_written st - (match key_start with Some s => s | None => 0 end) in
                 let* w := for_bare_container entry_size 1 in
                 Ok (gwr st (offset_bytes w ko))
             | None => Ok st
             end in
  Ok (st, push_end st start roffs).
Fixpoint ser_entries (l : list (sval * sval)) (start al : N) (roffs : option (list N)) (ks vs : sig) (key_start : option N) (st : gstate)
  : res cerr (gstate * option (list N)) :=
  match l with
  | [] => Ok (st, roffs)
  | (k, y) :: r =>
      let st := gpadded st al in
      let key_start := match key_start with Some _ => Some (g_written st) | None => None end in
      let* st := gser k st in
      let* (st, roffs) := ser_entry_tail y start al roffs ks vs key_start st in
      ser_entries r start al roffs ks vs key_start st
  end.

Lemma gser_seq l st :
  gser (XSeq l) st =
  let* (st, start, al, roffs, asig) := gseq_begin st in
  let* (st, roffs) := ser_elems l start roffs st in
  gseq_end st start roffs asig.
Proof. reflexivity. Qed.
Lemma gser_tuple l st :
  gser (XTuple l) st =
  let* (st, k) := gstruct_begin st in
  match k with
  | KStructG start offs saved => let* (st, offs) := ser_fields l 0%nat start offs st in gstruct_end st start offs saved
  | KSeqG start roffs asig => let* (st, roffs) := ser_elems l start roffs st in gseq_end st start roffs asig
  | KMapG _ _ _ _ _ _ _ => Panic PUnreachable
  end.
Proof. reflexivity. Qed.
Lemma gser_variant_struct a b st :
  g_sig st = SVariant ->
  gser (XStruct [a; b]) st =
  let* (st, k) := gstruct_begin st in
  match k with
  | KStructG start offs saved => let* (st, offs) := ser_nfields [a; b] 0%nat start offs st in gstruct_end st start offs saved
  | _ => Err EOther
  end.
Proof.
  intros Hs. cbn [gser]. unfold gstruct_begin. rewrite gpadded_gwr. cbn [g_sig gwr]. rewrite Hs.
  cbn [align_gv]. destruct (inc_variant _); reflexivity.
Qed.
Lemma gser_map l st :
  gser (XMap l) st =
  let* (st, k) := gmap_begin st in
  match k with
  | KMapG start al roffs asig ks vs key_start =>
      let* (st, roffs) := ser_entries l start al roffs ks vs key_start st in gseq_end st start roffs asig
  | _ => Panic PUnreachable
  end.
Proof. reflexivity. Qed.

(* ---------- nesting depth bookkeeping ---------- *)
Definition dep_ok (d : depths) : Prop := d_struct d <= 32 /\ d_array d <= 32.
Definition dtot (d : depths) : N := d_variant d + d_maybe d.
Definition gfits (d : depths) (v : gval) : Prop := gdepth_ok (d_struct d) (d_array d) (dtot d) v = true.

Lemma dcheck_ok d : d_struct d <= 32 -> d_array d <= 32 -> d_struct d + d_array d + d_variant d + d_maybe d <= 64 ->
  dcheck d = Ok d.
Proof.
  intros H1 H2 H3. unfold dcheck.
  destruct (N.ltb_spec 32 (d_struct d)); [lia|]. destruct (N.ltb_spec 32 (d_array d)); [lia|].
  destruct (N.ltb_spec 64 (d_struct d + d_array d + d_variant d + d_maybe d)); [lia|]. reflexivity.
Qed.

Lemma inc_array_good d : dep_ok d -> d_array d + 1 <= 32 -> d_struct d + d_array d + dtot d + 1 <= 64 ->
  exists d', inc_array d = Ok d' /\ dec_array d' = d /\ dep_ok d' /\
             d_struct d' = d_struct d /\ d_array d' = d_array d + 1 /\ dtot d' = dtot d.
Proof.
  intros [H1 H2] H3 H4. unfold inc_array, dtot in *. eexists. split; [apply dcheck_ok; cbn; lia|].
  destruct d; unfold dec_array, dep_ok, dtot; cbn in *. repeat split; try lia. f_equal. lia.
Qed.
Lemma inc_struct_good d : dep_ok d -> d_struct d + 1 <= 32 -> d_struct d + d_array d + dtot d + 1 <= 64 ->
  exists d', inc_struct d = Ok d' /\ dep_ok d' /\
             d_struct d' = d_struct d + 1 /\ d_array d' = d_array d /\ dtot d' = dtot d.
Proof.
  intros [H1 H2] H3 H4. unfold inc_struct, dtot in *. eexists. split; [apply dcheck_ok; cbn; lia|].
  destruct d; unfold dep_ok, dtot; cbn in *. repeat split; lia.
Qed.
Lemma inc_variant_good d : dep_ok d -> d_struct d + d_array d + dtot d + 1 <= 64 ->
  exists d', inc_variant d = Ok d' /\ dep_ok d' /\
             d_struct d' = d_struct d /\ d_array d' = d_array d /\ dtot d' = dtot d + 1.
Proof.
  intros [H1 H2] H4. unfold inc_variant, dtot in *. eexists. split; [apply dcheck_ok; cbn; lia|].
  destruct d; unfold dep_ok, dtot; cbn in *. repeat split; lia.
Qed.
Lemma inc_maybe_good d : dep_ok d -> d_struct d + d_array d + dtot d + 1 <= 64 ->
  exists d', inc_maybe d = Ok d' /\ dec_maybe d' = d /\ dep_ok d' /\
             d_struct d' = d_struct d /\ d_array d' = d_array d /\ dtot d' = dtot d + 1.
Proof.
  intros [H1 H2] H4. unfold inc_maybe, dtot in *. eexists. split; [apply dcheck_ok; cbn; lia|].
  destruct d; unfold dec_maybe, dep_ok, dtot; cbn in *. repeat split; try lia. f_equal. lia.
Qed.

(* ---------- node predicates ---------- *)
Lemma all_nodes_array p el l : all_nodes p (GArray el l) = p (GArray el l) && forallb (all_nodes p) l.
Proof. reflexivity. Qed.
Lemma all_nodes_struct p l : all_nodes p (GStruct l) = p (GStruct l) && forallb (all_nodes p) l.
Proof. reflexivity. Qed.
Lemma all_nodes_dict p ks vs l :
  all_nodes p (GDict ks vs l) = p (GDict ks vs l) && forallb (fun q => all_nodes p (fst q) && all_nodes p (snd q)) l.
Proof.
  cbn [all_nodes]. f_equal. induction l as [|[k x] l IH]; [reflexivity|]. cbn [forallb fst snd]. now rewrite IH.
Qed.

Lemma has_bool_struct fs : has_bool (SStruct fs) = existsb has_bool fs.
Proof. reflexivity. Qed.

(* without `b` (and without the unit type) the code's alignment table is the format's *)
Lemma align_gv_spec : forall s, has_bool s = false -> gsingle_ok s = true -> align_gv s = galign s.
Proof.
  induction s using sig_ind'; cbn [has_bool gsingle_ok align_gv galign]; intros Hb Hs; try reflexivity; try discriminate; auto.
  - apply orb_false_iff in Hb as [Hb1 Hb2]. apply andb_true_iff in Hs as [Hs1 Hs2].
    rewrite IHs2 by assumption. f_equal. destruct s1; cbn in Hs1, Hb1 |- *; try discriminate; reflexivity.
  - apply andb_true_iff in Hs as [_ Hs]. revert Hb Hs.
    induction H as [|x l Hx Hl IH]; intros Hb Hs; [reflexivity|].
    apply orb_false_iff in Hb as [Hb1 Hb2]. apply andb_true_iff in Hs as [Hs1 Hs2].
    rewrite Hx by assumption. f_equal. apply IH; assumption.
Qed.

Lemma gwf_single : forall v, gwf v = true -> gsingle_ok (gsig v) = true.
Proof.
  induction v using gval_ind'; cbn [gwf gsig gsingle_ok]; intros Hw; try reflexivity.
  - now apply andb_true_iff in Hw as [Hw _].
  - apply andb_true_iff in Hw as [Hw _]. assumption.
  - apply andb_true_iff in Hw as [Hne Hw]. apply andb_true_iff. split; [destruct l; [discriminate|reflexivity]|].
    clear Hne. induction H as [|y r Hy Hr IH]; [reflexivity|]. cbn [forallb] in Hw. apply andb_true_iff in Hw as [H1 H2].
    cbn [map]. rewrite Hy by assumption. cbn [andb]. apply IH; assumption.
  - assumption.
  - apply andb_true_iff in Hw as [Hw _]. now apply andb_true_iff in Hw as [Hw _].
Qed.

(* ---------- basic types: the D-Bus serializer writes padding + the fixed-size encoding ---------- *)
Definition dstate_of (st : gstate) : sstate :=
  {| s_cfg := {| c_gv := true; c_oaa := false |}; s_e := g_e st; s_pos0 := gabs st; s_out := [];
     s_sig := g_sig st; s_vsign := None; s_dep := g_dep st; s_fds := g_fds st |}.
Lemma dbus_basic_run st sx al n x :
  DBus.Ser.ser sx (dstate_of st) = basic (dstate_of st) al n x ->
  dbus_basic sx st = Ok (gwr st (pad (gabs st) al ++ enc (g_e st) n x)).
Proof.
  intros H. unfold dbus_basic. fold (dstate_of st). rewrite H. unfold basic, padded, add_padding, wr, abs_pos, written, dstate_of.
  cbn [bind fst s_out s_fds s_e s_pos0 set_out]. rewrite len_nil, N.add_0_r. cbn [app].
  destruct st; reflexivity.
Qed.

Section P.
  Variable e : endian.

  (* node-local side conditions: outside the known classes, the node's encoding is not astronomically large,
     no file descriptor, signatures in their parenthesised form *)
  Definition node_pre (v : gval) : bool :=
    negb (node_known e v) && (len (gvb e v) <? 2 ^ 60)
    && match v with GFd _ => false | GSigv _ np => negb np | _ => true end.
  Definition pre (v : gval) : bool := all_nodes node_pre v.

  Definition good (v : gval) : Prop := forall st,
    g_e st = e -> gwf v = true -> pre v = true -> g_sig st = gsig v -> g_vsign st = None ->
    dep_ok (g_dep st) -> gfits (g_dep st) v ->
    gser (sval_of v) st = Ok (gwr st (pad (gabs st) (galign (gsig v)) ++ gvb e v)).

  Ltac basic_case :=
    intros st He Hw Hp Hs Hv Hd Hf; cbn [sval_of gser gsig galign gvb];
    erewrite dbus_basic_run by (cbn [DBus.Ser.ser dstate_of s_sig]; rewrite ?Hs; reflexivity); rewrite He; reflexivity.

  Lemma good_i16 z : good (GI16 z). Proof. basic_case. Qed.
  Lemma good_u16 z : good (GU16 z). Proof. basic_case. Qed.
  Lemma good_i32 z : good (GI32 z). Proof. basic_case. Qed.
  Lemma good_u32 z : good (GU32 z). Proof. basic_case. Qed.
  Lemma good_i64 z : good (GI64 z). Proof. basic_case. Qed.
  Lemma good_u64 z : good (GU64 z). Proof. basic_case. Qed.
  Lemma good_f64 z : good (GF64 z). Proof. basic_case. Qed.
  Lemma good_u8 n : good (GU8 n).
  Proof.
    intros st He Hw Hp Hs Hv Hd Hf; cbn [sval_of gser gsig galign gvb].
    erewrite dbus_basic_run by reflexivity. rewrite pad_1. cbn [app]. do 2 f_equal.
    destruct (g_e st); cbn; unfold nb; rewrite N.mod_mod by lia; reflexivity.
  Qed.
  (* booleans and descriptors are excluded by [pre] *)
  Lemma good_bool b : good (GBool b).
  Proof. intros st He Hw Hp. unfold pre in Hp. cbn in Hp. discriminate. Qed.
  Lemma good_fd h : good (GFd h).
  Proof.
    intros st He Hw Hp. unfold pre in Hp. cbn [all_nodes] in Hp. unfold node_pre in Hp.
    rewrite andb_true_r in Hp. apply andb_true_iff in Hp as [_ Hp]. discriminate.
  Qed.

  Lemma good_str s : good (GStr s).
  Proof.
    intros st He Hw Hp Hs Hv Hd Hf; cbn [sval_of gser gsig galign gvb].
    unfold gser_str. rewrite Hs. rewrite gwr_gwr, pad_1. reflexivity.
  Qed.
  Lemma good_path s : good (GPath s).
  Proof.
    intros st He Hw Hp Hs Hv Hd Hf; cbn [sval_of gser gsig galign gvb].
    unfold gser_str. rewrite Hs. rewrite gwr_gwr, pad_1. reflexivity.
  Qed.
  Lemma good_sigv g np : good (GSigv g np).
  Proof.
    intros st He Hw Hp Hs Hv Hd Hf; cbn [sval_of gser gsig galign gvb].
    unfold pre in Hp. cbn [all_nodes] in Hp. unfold node_pre in Hp. rewrite andb_true_r in Hp.
    apply andb_true_iff in Hp as [_ Hp]. destruct np; [discriminate|].
    unfold gser_str. rewrite Hs. rewrite gwr_gwr, pad_1. reflexivity.
  Qed.

  (* ---------- what [pre] and [gwf] say at a node ---------- *)
  Lemma all_nodes_head p v : all_nodes p v = true -> p v = true.
  Proof. destruct v; cbn [all_nodes]; intros H; try (apply andb_true_iff in H as [H _]); assumption. Qed.
  Lemma pre_node v : pre v = true ->
    has_bool (gsig v) = false /\ node_tail e v = false /\ node_empty_offsets e v = false
    /\ len (gvb e v) < 2 ^ 60.
  Proof.
    intros H. apply all_nodes_head in H. unfold node_pre in H.
    apply andb_true_iff in H as [H _]. apply andb_true_iff in H as [H1 H2].
    apply negb_true_iff in H1. unfold node_known in H1.
    apply orb_false_iff in H1 as [H1 Hc]. apply orb_false_iff in H1 as [Ha Hb].
    apply N.ltb_lt in H2. unfold node_bool in Ha. tauto.
  Qed.
  Lemma pre_align v : pre v = true -> gwf v = true -> align_gv (gsig v) = galign (gsig v).
  Proof. intros Hp Hw. apply align_gv_spec; [apply pre_node in Hp; tauto|now apply gwf_single]. Qed.

  (* restoring signature and depth around a nested serialization *)
  Lemma reframe st b b' g d g0 d0 :
    g0 = g_sig st -> d0 = g_dep st ->
    gset_sig (gset_dep (gwr (gset_dep (gset_sig (gwr st b) g) d) b') d0) g0 = gwr st (b ++ b').
  Proof. intros -> ->. rewrite <- gwr_gwr. destruct st; reflexivity. Qed.

  Lemma good_nothing cs : good (GMaybe cs None).
  Proof.
    intros st He Hw Hp Hs Hv Hd Hf. cbn [sval_of gser]. unfold gmaybe_begin. rewrite gpadded_gwr.
    cbn [g_sig gwr]. rewrite Hs. rewrite (pre_align _ Hp Hw). cbn [gsig bind gvb]. now rewrite app_nil_r.
  Qed.

  Lemma good_just cs x : good x -> good (GMaybe cs (Some x)).
  Proof.
    intros IH st He Hw Hp Hs Hv Hd Hf. cbn [sval_of gser]. unfold gmaybe_begin. rewrite gpadded_gwr.
    cbn [g_sig gwr]. rewrite Hs. rewrite (pre_align _ Hp Hw). cbn [gsig bind galign].
    cbn [gwf] in Hw. apply andb_true_iff in Hw as [Hw Hsx]. apply andb_true_iff in Hw as [Hcs Hwx].
    apply sig_eqb_eq in Hsx.
    unfold pre in Hp. cbn [all_nodes] in Hp. apply andb_true_iff in Hp as [Hn Hpx]. fold (pre x) in Hpx.
    unfold gfits in Hf. cbn [gdepth_ok] in Hf. apply andb_true_iff in Hf as [Hf1 Hf2]. apply N.leb_le in Hf1.
    destruct (inc_maybe_good _ Hd Hf1) as (d' & Hinc & Hdec & Hd' & Hs' & Ha' & Ht').
    autorewrite with gst. rewrite Hinc. cbn [bind].
    set (st1 := gset_dep _ d').
    assert (Habs : gabs st1 mod galign (gsig x) = 0).
    { subst st1. autorewrite with gst. rewrite len_pad, Hsx. apply padn_after, galign_nz. }
    rewrite (IH st1); try assumption; try reflexivity.
    2:{ subst st1. autorewrite with gst. symmetry. assumption. }
    2:{ subst st1. unfold gfits. autorewrite with gst. rewrite Hs', Ha', Ht'. assumption. }
    cbn [bind]. rewrite (pad_aligned _ _ (galign_nz _) Habs). cbn [app].
    subst st1. autorewrite with gst. rewrite Hdec.
    rewrite (reframe st _ _ cs d' _ _ eq_refl eq_refl).
    cbn [galign gsig gvb]. rewrite fixed_sized_spec.
    destruct (gis_fixed cs); [now rewrite app_nil_r|]. rewrite gwr_gwr. now rewrite <- app_assoc.
  Qed.

  Lemma good_variant x : good x -> good (GVariant x).
  Proof.
    intros IH st He Hw Hp Hs Hv Hd Hf. cbn [sval_of gsig galign] in *.
    rewrite gser_variant_struct by assumption.
    cbn [gwf] in Hw. apply andb_true_iff in Hw as [Hwx Hsx].
    unfold pre in Hp. cbn [all_nodes] in Hp. apply andb_true_iff in Hp as [Hn Hpx]. fold (pre x) in Hpx.
    unfold gfits in Hf. cbn [gdepth_ok] in Hf. apply andb_true_iff in Hf as [Hf1 Hf2]. apply N.leb_le in Hf1.
    destruct (inc_variant_good _ Hd Hf1) as (d' & Hinc & Hd' & Hs' & Ha' & Ht').
    unfold gstruct_begin. rewrite gpadded_gwr. autorewrite with gst. rewrite Hs. cbn [align_gv].
    rewrite gpadded_gwr. autorewrite with gst.
    assert (H8 : (gabs st + len (pad (gabs st) 8)) mod 8 = 0) by (rewrite len_pad; apply padn_after; lia).
    rewrite (pad_aligned (gabs st + len (pad (gabs st) 8)) 8) by (lia || assumption). rewrite gwr_nil, len_nil, N.add_0_r. rewrite Hinc. cbn [bind].
    set (st1 := gset_dep (gwr st (pad (gabs st) 8)) d').
    (* first field: the signature, put aside *)
    cbn [ser_nfields]. unfold gfield_sig at 1. subst st1. autorewrite with gst. rewrite Hs, Hv. cbn [bind].
    cbn [gser]. unfold gser_str at 1. unfold gsub_of at 1. autorewrite with gst.
    rewrite (parse_show_gv _ Hsx). cbn [bind].
    rewrite gback_vsign. unfold gfield_done at 1. autorewrite with gst. rewrite Hs.
    (* second field: the value *)
    unfold gfield_sig. autorewrite with gst. rewrite Hs. cbn [bind].
    set (st2 := gsub_of _ (gsig x)).
    assert (Habs : gabs st2 mod galign (gsig x) = 0).
    { subst st2. unfold gsub_of. autorewrite with gst.
      apply (mod_trans _ 8).
      - lia.
      - apply galign_nz.
      - assumption.
      - apply pow2_div; [unfold pow2; tauto|apply galign_pow2|].
        destruct (galign_pow2 (gsig x)) as [Hq|[Hq|[Hq|Hq]]]; rewrite Hq; lia. }
    rewrite (IH st2); try assumption; try reflexivity.
    2:{ subst st2. unfold gfits, gsub_of. autorewrite with gst. rewrite Hs', Ha', Ht'. assumption. }
    cbn [bind]. rewrite (pad_aligned _ _ (galign_nz _) Habs). cbn [app].
    subst st2. rewrite gback_gwr. unfold gfield_done. autorewrite with gst. rewrite Hs.
    cbn [bind ser_nfields]. unfold gstruct_end. cbn [gvb].
    autorewrite with gpush. do 2 f_equal.
    destruct st; cbn in *; subst; reflexivity.
  Qed.

  (* ---------- arrays ---------- *)
  Lemma elems_ok l : Forall good l -> forall st start roffs el,
    g_e st = e ->
    forallb (fun x => gwf x && sig_eqb (gsig x) el) l = true -> forallb pre l = true ->
    g_sig st = el -> g_vsign st = None -> dep_ok (g_dep st) ->
    forallb (gdepth_ok (d_struct (g_dep st)) (d_array (g_dep st)) (dtot (g_dep st))) l = true ->
    start <= g_written st ->
    (g_pos0 st + start) mod galign el = 0 ->
    ser_elems (map sval_of l) start roffs st =
      Ok (gwr st (concat (gparts e l (g_written st - start))),
          match roffs with
          | Some ro => Some (rev (ends_from (g_written st - start) (gparts e l (g_written st - start))) ++ ro)
          | None => None
          end).
  Proof.
    induction 1 as [|x l Hx Hl IH]; intros st start roffs el He Hw Hp Hs Hv Hd Hf Hst Hal.
    - cbn [map ser_elems gparts concat ends_from rev app]. rewrite gwr_nil. destruct roffs; reflexivity.
    - cbn [forallb] in Hw, Hp, Hf.
      apply andb_true_iff in Hw as [Hwx Hw]. apply andb_true_iff in Hwx as [Hwx Hsx]. apply sig_eqb_eq in Hsx.
      apply andb_true_iff in Hp as [Hpx Hp]. apply andb_true_iff in Hf as [Hfx Hf].
      cbn [map ser_elems].
      rewrite (Hx st He Hwx Hpx (eq_trans Hs (eq_sym Hsx)) Hv Hd Hfx). cbn [bind].
      replace (gabs st) with ((g_pos0 st + start) + (g_written st - start)) by (unfold gabs; lia).
      rewrite Hsx. rewrite (pad_shift _ _ _ (galign_nz el) Hal).
      set (off := g_written st - start). set (b := pad off (galign el) ++ gvb e x).
      rewrite (IH (gwr st b) start (push_end (gwr st b) start roffs) el); autorewrite with gst; try assumption.
      2:{ lia. }
      replace (g_written st + len b - start) with (off + len b) by (subst off; lia).
      cbn [gparts concat ends_from]. rewrite Hsx. fold b. rewrite gwr_gwr. f_equal. f_equal.
      destruct roffs as [ro|]; cbn [push_end]; [|reflexivity]. autorewrite with gst.
      replace (g_written st + len b - start) with (off + len b) by (subst off; lia).
      cbn [rev]. now rewrite <- app_assoc.
  Qed.

  (* the offsets of a container of [n] data bytes: what write_all appends *)
  Lemma write_all_framing st offs n :
    n + N.of_nat (length offs) < 2 ^ 60 ->
    write_all st offs n = Ok (gwr st (framing n offs)).
  Proof.
    intros Hn. unfold write_all, framing. destruct offs as [|o r]; [now rewrite gwr_nil|].
    rewrite for_bare_width.
    2:{ change (2 ^ 60) with 1152921504606846976 in Hn. lia. }
    cbn [bind]. now rewrite write_offsets_fold.
  Qed.

  Lemma len_framing n offs : len (framing n offs) = offset_width n (N.of_nat (length offs)) * N.of_nat (length offs).
  Proof. apply len_offs_enc. Qed.
  Lemma framing_small n offs : len (framing n offs) + n < 2 ^ 60 -> n + N.of_nat (length offs) < 2 ^ 60.
  Proof.
    rewrite len_framing. pose proof (offset_width_pos n (N.of_nat (length offs))) as Hw.
    set (w := offset_width n (N.of_nat (length offs))) in *. set (k := N.of_nat (length offs)).
    pose proof (N.mul_le_mono_r 1 w k Hw) as Hk. rewrite N.mul_1_l in Hk. intros Hlt. lia.
  Qed.

  Lemma length_ends_from off ps : length (ends_from off ps) = length ps.
  Proof. revert off. induction ps as [|b r IH]; intros off; cbn; [reflexivity|]. now rewrite IH. Qed.

  Lemma good_array el l : Forall good l -> good (GArray el l).
  Proof.
    intros HF st He Hw Hp Hs Hv Hd Hf. cbn [sval_of]. rewrite gser_seq.
    pose proof (pre_align _ Hp Hw) as Hal. cbn [gsig] in Hal, Hs |- *.
    destruct (pre_node _ Hp) as (Hnb & _ & Hne & Hsmall).
    cbn [gwf] in Hw. apply andb_true_iff in Hw as [Hel Hwl].
    unfold pre in Hp. rewrite all_nodes_array in Hp. apply andb_true_iff in Hp as [_ Hpl].
    unfold gfits in Hf. cbn [gdepth_ok] in Hf. apply andb_true_iff in Hf as [Hf Hfl]. apply andb_true_iff in Hf as [Hf1 Hf2].
    apply N.leb_le in Hf1, Hf2.
    destruct (inc_array_good _ Hd Hf1 Hf2) as (d' & Hinc & Hdec & Hd' & Hs' & Ha' & Ht').
    unfold gseq_begin. rewrite gpadded_gwr. rewrite Hs, Hal. cbn [bind galign]. autorewrite with gst. rewrite Hinc. cbn [bind].
    set (p := pad (gabs st) (galign el)).
    set (st1 := gset_dep (gset_sig (gwr st p) el) d').
    rewrite (elems_ok l HF st1 (g_written st + len p) _ el); subst st1; autorewrite with gst; try assumption; try reflexivity.
    2:{ rewrite Hs', Ha', Ht'. assumption. }
    2:{ replace (g_pos0 st + (g_written st + len p)) with (gabs st + len p) by (unfold gabs; lia).
        subst p. rewrite len_pad. apply padn_after, galign_nz. }
    rewrite N.sub_diag. cbn [bind]. unfold gseq_end. autorewrite with gst. rewrite Hdec.
    rewrite gvb_array. cbv zeta. set (ps := gparts e l 0) in *. set (data := concat ps) in *.
    rewrite fixed_sized_spec.
    destruct (gis_fixed el) eqn:Hfx.
    - rewrite (reframe st _ _ el d' (SArray el) _ (eq_sym Hs) eq_refl). reflexivity.
    - rewrite app_nil_r. replace (g_written st + len p + len data - (g_written st + len p)) with (len data) by lia.
      rewrite gvb_array in Hsmall. cbv zeta in Hsmall. fold ps data in Hsmall. rewrite Hfx in Hsmall. rewrite len_app in Hsmall.
      destruct (N.eqb_spec (len data) 0) as [H0|H0].
      + (* nothing was written: only legitimate for the empty array *)
        destruct l as [|x r].
        * cbn. rewrite (reframe st _ _ el d' (SArray el) _ (eq_sym Hs) eq_refl). reflexivity.
        * exfalso. cbn [node_empty_offsets] in Hne. rewrite Hfx in Hne. cbn [negb andb] in Hne.
          fold ps data in Hne. rewrite H0 in Hne. discriminate.
      + rewrite frev_involutive.
        rewrite (reframe st _ _ el d' (SArray el) _ (eq_sym Hs) eq_refl).
        rewrite write_all_framing by (apply framing_small; lia).
        rewrite gwr_gwr. now rewrite <- app_assoc.
  Qed.

  (* ---------- tuples ---------- *)
  (* ends of the variable-size members, in member order (what push_front accumulates, reversed) *)
  Fixpoint var_ends (sigs : list sig) (ends : list N) : list N :=
    match sigs, ends with
    | s :: sr, en :: er => (if gis_fixed s then [] else [en]) ++ var_ends sr er
    | _, _ => []
    end.

  Lemma gset_vsign_none st b : g_vsign st = None -> gset_vsign (gwr st b) None = gwr st b.
  Proof. intros H. destruct st; cbn in *; subst; reflexivity. Qed.

  Lemma fields_ok l : Forall good l -> forall st psigs rest start o A,
    g_e st = e -> forallb gwf l = true -> forallb pre l = true ->
    g_sig st = SStruct (psigs ++ map gsig l ++ rest) -> g_vsign st = None -> dep_ok (g_dep st) ->
    forallb (gdepth_ok (d_struct (g_dep st)) (d_array (g_dep st)) (dtot (g_dep st))) l = true ->
    start <= g_written st ->
    A <> 0 -> (g_pos0 st + start) mod A = 0 -> (forall x, In x l -> A mod galign (gsig x) = 0) ->
    ser_fields (map sval_of l) (length psigs) start (Some o) st =
      Ok (gwr st (concat (gparts e l (g_written st - start))),
          Some (rev (var_ends (map gsig l) (ends_from (g_written st - start) (gparts e l (g_written st - start)))) ++ o)).
  Proof.
    induction 1 as [|x l Hx Hl IH]; intros st psigs rest start o A He Hw Hp Hs Hv Hd Hf Hst HA Hal Hdiv.
    - cbn [map ser_fields gparts concat ends_from var_ends rev app]. now rewrite gwr_nil.
    - cbn [forallb] in Hw, Hp, Hf.
      apply andb_true_iff in Hw as [Hwx Hw]. apply andb_true_iff in Hp as [Hpx Hp]. apply andb_true_iff in Hf as [Hfx Hf].
      cbn [map ser_fields]. unfold gfield_sig. rewrite Hs.
      cbn [map]. rewrite nth_error_app2 by lia. rewrite Nat.sub_diag. cbn [app nth_error bind].
      set (sub := gsub_of st (gsig x)).
      rewrite (Hx sub); subst sub; unfold gsub_of; autorewrite with gst; try assumption; try reflexivity.
      cbn [bind].
      replace (gabs st) with ((g_pos0 st + start) + (g_written st - start)) by (unfold gabs; lia).
      assert (Hax : (g_pos0 st + start) mod galign (gsig x) = 0).
      { apply (mod_trans _ A); try assumption; [apply galign_nz|]. apply Hdiv. now left. }
      rewrite (pad_shift _ _ _ (galign_nz _) Hax).
      set (off := g_written st - start). set (b := pad off (galign (gsig x)) ++ gvb e x).
      change (gset_vsign (gset_sig st (gsig x)) None) with (gsub_of st (gsig x)). rewrite gback_gwr.
      rewrite (gset_vsign_none _ _ Hv).
      unfold gfield_done. autorewrite with gst. rewrite Hs. rewrite fixed_sized_spec.
      replace (S (length psigs)) with (length (psigs ++ [gsig x])) by (rewrite app_length; cbn; lia).
      assert (Hs2 : g_sig (gwr st b) = SStruct ((psigs ++ [gsig x]) ++ map gsig l ++ rest)).
      { autorewrite with gst. rewrite Hs. now rewrite <- app_assoc. }
      destruct (gis_fixed (gsig x)) eqn:Hfixx.
      + rewrite (IH (gwr st b) (psigs ++ [gsig x]) rest start o A); autorewrite with gst; try assumption.
        2:{ lia. }
        2:{ intros y Hy. apply Hdiv. now right. }
        replace (g_written st + len b - start) with (off + len b) by (subst off; lia).
        cbn [gparts concat ends_from var_ends]. fold b. rewrite Hfixx. cbn [app]. now rewrite gwr_gwr.
      + rewrite (IH (gwr st b) (psigs ++ [gsig x]) rest start _ A); autorewrite with gst; try assumption.
        2:{ lia. }
        2:{ intros y Hy. apply Hdiv. now right. }
        replace (g_written st + len b - start) with (off + len b) by (subst off; lia).
        cbn [gparts concat ends_from var_ends]. fold b. rewrite Hfixx. cbn [app rev]. rewrite gwr_gwr.
        now rewrite <- app_assoc.
  Qed.

  (* a value of a fixed-size type occupies at least one byte *)
  Lemma len_gparts_first x l off : len (gvb e x) <= len (concat (gparts e (x :: l) off)).
  Proof. cbn [gparts concat]. rewrite !len_app. lia. Qed.

  Lemma fixed_nonempty : forall v, gwf v = true -> gis_fixed (gsig v) = true -> 1 <= len (gvb e v).
  Proof.
    induction v using gval_ind'; intros Hw Hfx; try discriminate Hfx;
      try (cbn [gvb]; rewrite ?len_enc; cbn; lia).
    - (* tuple *)
      rewrite gvb_struct. cbn [gwf] in Hw. apply andb_true_iff in Hw as [Hne Hw].
      destruct l as [|x l]; [discriminate|]. cbn [gsig map] in Hfx.
      change (gis_fixed (SStruct (gsig x :: map gsig l))) with (gis_fixed (gsig x) && forallb gis_fixed (map gsig l)) in Hfx.
      unfold tuple_bytes. cbn [map]. change (forallb gis_fixed (gsig x :: map gsig l)) with (gis_fixed (gsig x) && forallb gis_fixed (map gsig l)).
      rewrite Hfx. apply andb_true_iff in Hfx as [Hfx _]. cbn [forallb] in Hw. apply andb_true_iff in Hw as [Hwx _].
      inversion H as [|? ? Hx _]; subst. specialize (Hx Hwx Hfx).
      rewrite len_app. pose proof (len_gparts_first x l 0). lia.
  Qed.

  Lemma var_ends_fixed sigs ends : forallb gis_fixed sigs = true -> var_ends sigs ends = [].
  Proof.
    revert ends. induction sigs as [|s sr IH]; intros ends H; [reflexivity|]. destruct ends as [|en er]; [reflexivity|].
    cbn [forallb] in H. apply andb_true_iff in H as [H1 H2]. cbn [var_ends]. rewrite H1. cbn [app]. now apply IH.
  Qed.
  Lemma tuple_offsets_fixed sigs ends : forallb gis_fixed sigs = true -> tuple_offsets sigs ends = [].
  Proof.
    revert ends. induction sigs as [|s sr IH]; intros ends H; [reflexivity|].
    cbn [forallb] in H. apply andb_true_iff in H as [H1 H2].
    destruct sr as [|s' sr]; [reflexivity|]. destruct ends as [|en er]; [reflexivity|].
    cbn [tuple_offsets]. rewrite H1. cbn [app]. now apply IH.
  Qed.

  Lemma var_ends_split sigs ends : sigs <> [] -> length sigs = length ends ->
    var_ends sigs ends = tuple_offsets sigs ends ++ (if gis_fixed (last sigs SUnit) then [] else [last ends 0]).
  Proof.
    revert ends. induction sigs as [|s sr IH]; intros ends Hne Hlen; [congruence|].
    destruct ends as [|en er]; [discriminate|]. cbn [length] in Hlen.
    destruct sr as [|s' sr].
    - destruct er; [|discriminate]. cbn. now rewrite app_nil_r.
    - destruct er as [|en' er]; [discriminate|].
      change (var_ends (s :: s' :: sr) (en :: en' :: er)) with ((if gis_fixed s then [] else [en]) ++ var_ends (s' :: sr) (en' :: er)).
      change (tuple_offsets (s :: s' :: sr) (en :: en' :: er)) with ((if gis_fixed s then [] else [en]) ++ tuple_offsets (s' :: sr) (en' :: er)).
      rewrite IH by (discriminate || (cbn [length] in *; lia)).
      change (last (s :: s' :: sr) SUnit) with (last (s' :: sr) SUnit).
      change (last (en :: en' :: er) 0) with (last (en' :: er) 0).
      now rewrite app_assoc.
  Qed.

  Lemma last_end ps off : ps <> [] -> last (ends_from off ps) 0 = off + len (concat ps).
  Proof.
    revert off. induction ps as [|b r IH]; intros off Hne; [congruence|].
    destruct r as [|b' r].
    - cbn. rewrite app_nil_r. reflexivity.
    - change (ends_from off (b :: b' :: r)) with ((off + len b) :: ends_from (off + len b) (b' :: r)).
      change (last ((off + len b) :: ends_from (off + len b) (b' :: r)) 0) with (last (ends_from (off + len b) (b' :: r)) 0).
      { rewrite IH by discriminate. cbn [concat]. rewrite !len_app. lia. }
  Qed.

  Lemma len_concat_last (ps : list bytes) : len (last ps []) <= len (concat ps).
  Proof.
    induction ps as [|b r IH]; [cbn; lia|]. destruct r as [|b' r].
    - cbn. rewrite app_nil_r. lia.
    - change (last (b :: b' :: r) []) with (last (b' :: r) []). cbn [concat] in *. rewrite len_app. lia.
  Qed.

  Lemma tuple_offsets_lt sigs ps off x : length sigs = length ps -> 1 <= len (last ps []) ->
    In x (tuple_offsets sigs (ends_from off ps)) -> x < off + len (concat ps).
  Proof.
    revert sigs off. induction ps as [|b r IH]; intros sigs off Hlen Hlast Hin.
    - destruct sigs as [|s [|s' sr]]; cbn in Hin; tauto.
    - destruct sigs as [|s sr]; [discriminate|]. destruct sr as [|s' sr]; [cbn in Hin; tauto|].
      destruct r as [|b' r]; [discriminate|].
      change (ends_from off (b :: b' :: r)) with ((off + len b) :: ends_from (off + len b) (b' :: r)) in Hin.
      change (tuple_offsets (s :: s' :: sr) ((off + len b) :: ends_from (off + len b) (b' :: r)))
        with ((if gis_fixed s then [] else [off + len b]) ++ tuple_offsets (s' :: sr) (ends_from (off + len b) (b' :: r))) in Hin.
      change (last (b :: b' :: r) []) with (last (b' :: r) []) in Hlast.
      pose proof (len_concat_last (b' :: r)) as Hc.
      change (concat (b :: b' :: r)) with (b ++ concat (b' :: r)). rewrite len_app.
      apply in_app_or in Hin as [Hin|Hin].
      + destruct (gis_fixed s); [destruct Hin|]. destruct Hin as [Hx|[]]. clear IH Hlen. subst x. unfold bytes in *. lia.
      + apply (IH (s' :: sr) (off + len b)) in Hin; [lia| cbn [length] in *; lia | assumption].
  Qed.

  Lemma last_map {A B} (f : A -> B) l d d' : l <> [] -> last (map f l) d' = f (last l d).
  Proof.
    induction l as [|x r IH]; intros Hne; [congruence|]. destruct r as [|y r]; [reflexivity|].
    change (last (map f (x :: y :: r)) d') with (last (map f (y :: r)) d').
    change (last (x :: y :: r) d) with (last (y :: r) d). apply IH. discriminate.
  Qed.

  Lemma gparts_last_nonempty l off : l <> [] -> forallb gwf l = true ->
    gis_fixed (gsig (last l (GU8 0))) = true -> 1 <= len (last (gparts e l off) []).
  Proof.
    revert off. induction l as [|x r IH]; intros off Hne Hw Hfx; [congruence|].
    cbn [forallb] in Hw. apply andb_true_iff in Hw as [Hwx Hw].
    destruct r as [|y r].
    - cbn [gparts last] in *. rewrite len_app. pose proof (fixed_nonempty x Hwx Hfx). lia.
    - change (last (x :: y :: r) (GU8 0)) with (last (y :: r) (GU8 0)) in Hfx.
      cbn [gparts]. cbn [gparts] in IH.
      match goal with |- context [last (?a :: ?b :: ?c) []] => change (last (a :: b :: c) []) with (last (b :: c) []) end.
      apply (IH _ ltac:(discriminate) Hw Hfx).
  Qed.

  Lemma length_gparts l off : length (gparts e l off) = length l.
  Proof. revert off. induction l as [|x r IH]; intros off; cbn [gparts length]; [reflexivity|]. now rewrite IH. Qed.

  Lemma good_struct l : Forall good l -> good (GStruct l).
  Proof.
    intros HF st He Hw Hp Hs Hv Hd Hf. cbn [sval_of]. rewrite gser_tuple.
    pose proof (pre_align _ Hp Hw) as Hal. cbn [gsig] in Hal, Hs |- *.
    destruct (pre_node _ Hp) as (Hnb & Hnt & Hne & Hsmall).
    cbn [gwf] in Hw. apply andb_true_iff in Hw as [Hnel Hwl].
    assert (Hl : l <> []) by (destruct l; [discriminate|discriminate]).
    unfold pre in Hp. rewrite all_nodes_struct in Hp. apply andb_true_iff in Hp as [_ Hpl].
    unfold gfits in Hf. cbn [gdepth_ok] in Hf. apply andb_true_iff in Hf as [Hf Hfl]. apply andb_true_iff in Hf as [Hf1 Hf2].
    apply N.leb_le in Hf1, Hf2.
    destruct (inc_struct_good _ Hd Hf1 Hf2) as (d' & Hinc & Hd' & Hs' & Ha' & Ht').
    set (sigs := map gsig l) in *.
    rewrite galign_struct in *. set (A := galigns sigs) in *.
    assert (HA : A <> 0) by apply galigns_nz.
    unfold gstruct_begin. rewrite gpadded_gwr. rewrite Hs, Hal. autorewrite with gst. rewrite Hs, Hal.
    rewrite gpadded_gwr. autorewrite with gst.
    set (p := pad (gabs st) A).
    assert (HpA : (gabs st + len p) mod A = 0) by (subst p; rewrite len_pad; now apply padn_after).
    rewrite (pad_aligned (gabs st + len p) A) by assumption. rewrite gwr_nil, len_nil, N.add_0_r.
    rewrite Hinc. cbn [bind].
    set (st1 := gset_dep (gwr st p) d').
    change 0%nat with (length (@nil sig)).
    rewrite (fields_ok l HF st1 [] [] (g_written st + len p) [] A); subst st1; autorewrite with gst; rewrite ?app_nil_r; try assumption; try reflexivity.
    2:{ rewrite Hs', Ha', Ht'. assumption. }
    2:{ replace (g_pos0 st + (g_written st + len p)) with (gabs st + len p) by (unfold gabs; lia). assumption. }
    2:{ intros x Hx. apply pow2_div; [apply galigns_pow2|apply galign_pow2|]. apply galigns_ge. subst sigs. now apply in_map. }
    rewrite N.sub_diag. cbn [bind]. unfold gstruct_end. autorewrite with gst.
    replace (g_written st + len p + len (concat (gparts e l 0)) - (g_written st + len p)) with (len (concat (gparts e l 0))) by lia.
    rewrite gvb_struct. fold sigs A.
    rewrite gvb_struct in Hsmall. fold sigs A in Hsmall.
    set (ps := gparts e l 0) in *. set (data := concat ps) in *. set (ends := ends_from 0 ps) in *.
    assert (Hlen : length sigs = length ends).
    { subst sigs ends ps. now rewrite map_length, length_ends_from, length_gparts. }
    assert (Hsne : sigs <> []) by (subst sigs; destruct l; [congruence|discriminate]).
    assert (Htb : forall al pss, tuple_bytes al sigs pss =
               if forallb gis_fixed sigs then concat pss ++ pad (len (concat pss)) al
               else concat pss ++ framing (len (concat pss)) (rev (tuple_offsets sigs (ends_from 0 pss)))).
    { intros al pss. unfold tuple_bytes. destruct sigs; [congruence|reflexivity]. }
    assert (Hfin : forall b', gset_dep (gwr (gset_dep (gwr st p) d') b') (g_dep st) = gwr st (p ++ b')).
    { intros b'. autorewrite with gpush. f_equal. destruct st; reflexivity. }
    rewrite ?app_nil_r. rewrite Htb in Hsmall |- *. fold data ends in Hsmall |- *.
    cbn [node_tail] in Hnt. fold sigs ps data A in Hnt.
    cbn [node_empty_offsets] in Hne. fold sigs ps data ends in Hne.
    destruct (forallb gis_fixed sigs) eqn:Hall.
    - (* all members fixed-size: no offsets; the format's final padding is empty outside the tail_padding class *)
      cbn [andb] in Hnt. apply negb_false_iff, N.eqb_eq in Hnt.
      unfold pad. rewrite Hnt. cbn [zeros repeat N.to_nat]. rewrite app_nil_r.
      rewrite var_ends_fixed by assumption. cbn [rev].
      destruct (len data =? 0); [now rewrite Hfin|]. unfold write_all. now rewrite Hfin.
    - cbn [negb andb] in Hne.
      destruct (N.eqb_spec (len data) 0) as [H0|H0].
      + (* nothing written: no offsets are due outside the empty_offsets class *)
        cbn [andb] in Hne. apply negb_false_iff, Nat.eqb_eq in Hne.
        destruct (tuple_offsets sigs ends) eqn:Hto; [|discriminate]. cbn [rev]. unfold framing, offs_enc. cbn [map concat].
        now rewrite Hfin, app_nil_r.
      + rewrite (var_ends_split sigs ends Hsne Hlen).
        assert (Hle : last ends 0 = len data).
        { subst ends data. rewrite last_end; [lia|]. subst ps. destruct l; [congruence|discriminate]. }
        rewrite len_app in Hsmall.
        assert (Hsm : len data + N.of_nat (length (rev (tuple_offsets sigs ends))) < 2 ^ 60) by (apply framing_small; lia).
        destruct (gis_fixed (last sigs SUnit)) eqn:Hlastfx.
        * rewrite app_nil_r.
          assert (Hlast1 : 1 <= len (last ps [])).
          { subst ps. apply gparts_last_nonempty; try assumption.
            subst sigs. rewrite (last_map gsig l (GU8 0) SUnit Hl) in Hlastfx. assumption. }
          destruct (rev (tuple_offsets sigs ends)) as [|front rest] eqn:Hrev.
          -- unfold write_all. rewrite Hfin. unfold framing, offs_enc. cbn [map concat]. now rewrite app_nil_r.
          -- assert (Hin : In front (tuple_offsets sigs ends)).
             { apply in_rev. rewrite Hrev. now left. }
             apply (tuple_offsets_lt sigs ps 0 front) in Hin; [|subst ps; rewrite length_gparts; subst sigs; now rewrite map_length|assumption].
             fold data in Hin. destruct (N.eqb_spec front (len data)) as [Heq|_]; [lia|].
             rewrite <- Hrev in *. rewrite write_all_framing by assumption. rewrite Hfin, gwr_gwr.
             now rewrite <- app_assoc.
        * rewrite rev_app_distr. cbn [rev app]. rewrite Hle, N.eqb_refl.
          rewrite write_all_framing by assumption. rewrite Hfin, gwr_gwr. now rewrite <- app_assoc.
  Qed.

  (* ---------- dicts ---------- *)
  Definition entry_ok (d : depths) (ks vs : sig) (p : gval * gval) : Prop :=
    gwf (fst p) = true /\ gwf (snd p) = true /\ gsig (fst p) = ks /\ gsig (snd p) = vs /\
    pre (fst p) = true /\ pre (snd p) = true /\
    gdepth_ok (d_struct d) (d_array d) (dtot d) (fst p) = true /\
    gdepth_ok (d_struct d) (d_array d) (dtot d) (snd p) = true /\
    (gis_fixed ks && gis_fixed vs = true -> padn (len (concat (entry_parts e vs p))) (N.max (galign ks) (galign vs)) = 0) /\
    len (concat (entry_parts e vs p)) < 2 ^ 60.

  Lemma tb_len_ge al s sr ps : len (concat ps) <= len (tuple_bytes al (s :: sr) ps).
  Proof. unfold tuple_bytes. destruct (forallb gis_fixed (s :: sr)); rewrite len_app; lia. Qed.
  Lemma entry_len_data ks vs l : forall off p, In p l ->
    len (concat (entry_parts e vs p)) <= len (concat (geparts e ks vs l off)).
  Proof.
    induction l as [|q l IH]; intros off p Hin; [destruct Hin|]. cbn [geparts concat]. rewrite !len_app.
    destruct Hin as [->|Hin].
    - pose proof (tb_len_ge (N.max (galign ks) (galign vs)) ks [vs] (entry_parts e vs p)). lia.
    - specialize (IH (off + len (pad off (N.max (galign ks) (galign vs)) ++ tuple_bytes (N.max (galign ks) (galign vs)) [ks; vs] (entry_parts e vs q))) p Hin).
      rewrite len_app in IH. lia.
  Qed.

  Lemma max_div_l a b : pow2 a -> pow2 b -> N.max a b mod a = 0.
  Proof. intros Ha Hb. apply pow2_div; [now apply pow2_max|assumption|lia]. Qed.
  Lemma max_div_r a b : pow2 a -> pow2 b -> N.max a b mod b = 0.
  Proof. intros Ha Hb. apply pow2_div; [now apply pow2_max|assumption|lia]. Qed.

  (* the format's encoding of one dict entry, spelled out *)
  Lemma entry_tuple ks vs p :
    tuple_bytes (N.max (galign ks) (galign vs)) [ks; vs] (entry_parts e vs p) =
    let data := concat (entry_parts e vs p) in
    if gis_fixed ks && gis_fixed vs then data ++ pad (len data) (N.max (galign ks) (galign vs))
    else data ++ (if gis_fixed ks then [] else le_bytes (N.to_nat (offset_width (len data) 1)) (len (gvb e (fst p)))).
  Proof.
    unfold tuple_bytes, entry_parts. cbn [forallb ends_from tuple_offsets]. rewrite andb_true_r.
    destruct (gis_fixed ks); destruct (gis_fixed vs); cbn [andb app rev]; try reflexivity;
      unfold framing, offs_enc; cbn [length map concat N.of_nat Pos.of_succ_nat]; rewrite ?app_nil_r, ?N.add_0_l; reflexivity.
  Qed.

  Lemma entries_ok l : Forall (fun p => good (fst p) /\ good (snd p)) l -> forall st start roffs ks vs kso,
    g_e st = e -> Forall (entry_ok (g_dep st) ks vs) l ->
    g_sig st = ks -> g_vsign st = None -> dep_ok (g_dep st) ->
    start <= g_written st ->
    (g_pos0 st + start) mod N.max (galign ks) (galign vs) = 0 ->
    match kso with Some _ => gis_fixed ks = false | None => gis_fixed ks = true end ->
    ser_entries (map (fun p => (sval_of (fst p), sval_of (snd p))) l) start (N.max (galign ks) (galign vs)) roffs ks vs kso st =
      Ok (gwr st (concat (geparts e ks vs l (g_written st - start))),
          match roffs with
          | Some ro => Some (rev (ends_from (g_written st - start) (geparts e ks vs l (g_written st - start))) ++ ro)
          | None => None
          end).
  Proof.
    induction 1 as [|[key x] l [Hk Hx] Hl IH]; intros st start roffs ks vs kso He Hok Hs Hv Hd Hst Hal Hkso.
    - cbn [map ser_entries geparts concat ends_from rev app]. rewrite gwr_nil. destruct roffs; reflexivity.
    - inversion Hok as [|p0' l0' Hp Hokl Heq1]. clear Hok.
      destruct Hp as (Hwk & Hwx & Hsk & Hsx & Hpk & Hpx & Hdk & Hdx & Htail & Hkeyw). cbn [fst snd] in *.
      assert (Hs2 : g_sig st = gsig key) by congruence. clear Hs. rename Hs2 into Hs. subst ks vs.
      set (al := N.max (galign (gsig key)) (galign (gsig x))) in *.
      assert (Hpal : pow2 al) by (apply pow2_max; apply galign_pow2).
      assert (Hal0 : al <> 0) by now apply pow2_nz.
      cbn [map ser_entries fst snd]. rewrite gpadded_gwr.
      replace (gabs st) with ((g_pos0 st + start) + (g_written st - start)) by (unfold gabs; lia).
      rewrite (pad_shift _ _ _ Hal0 Hal).
      set (off := g_written st - start). set (p0 := pad off al).
      assert (HE : gabs (gwr st p0) mod al = 0).
      { autorewrite with gst. replace (gabs st) with ((g_pos0 st + start) + off) by (unfold gabs; subst off; lia).
        subst p0. rewrite len_pad. rewrite <- N.add_assoc. rewrite N.add_mod by assumption. rewrite Hal, N.add_0_l, N.mod_mod by assumption.
        apply padn_after. assumption. }
      (* the key *)
      rewrite (Hk (gwr st p0)); autorewrite with gst; try assumption; try reflexivity.
      cbn [bind].
      assert (HEk : gabs (gwr st p0) mod galign (gsig key) = 0).
      { apply (mod_trans _ al); try assumption; [apply galign_nz|]. apply max_div_l; apply galign_pow2. }
      autorewrite with gst in HEk. rewrite (pad_aligned _ _ (galign_nz _) HEk). cbn [app].
      set (kb := gvb e key).
      (* the value *)
      unfold ser_entry_tail. autorewrite with gst.
      rewrite (Hx (gset_sig (gwr (gwr st p0) kb) (gsig x))); autorewrite with gst; try assumption; try reflexivity.
      cbn [bind].
      assert (HEv : (gabs st + len p0) mod galign (gsig x) = 0).
      { autorewrite with gst in HE. apply (mod_trans _ al); try assumption; [apply galign_nz|]. apply max_div_r; apply galign_pow2. }
      rewrite (pad_shift _ _ _ (galign_nz _) HEv).
      set (vb := pad (len kb) (galign (gsig x)) ++ gvb e x).
      assert (Hcat : concat (entry_parts e (gsig x) (key, x)) = kb ++ vb).
      { unfold entry_parts. cbn [fst snd concat]. now rewrite app_nil_r. }
      pose proof (entry_tuple (gsig key) (gsig x) (key, x)) as Het. cbv zeta in Het. rewrite Hcat in Het. cbn [fst] in Het. fold al kb in Het.
      rewrite Hcat in Htail, Hkeyw.
      assert (Hsame : forall b', gset_sig (gwr (gset_sig (gwr (gwr st p0) kb) (gsig x)) b') (gsig key) = gwr st (p0 ++ kb ++ b')).
      { intros b'. autorewrite with gpush. rewrite <- app_assoc. f_equal.
        clear - Hs. destruct st; cbn in *; subst; reflexivity. }
      rewrite Hsame.
      destruct kso as [ks0|].
      + (* variable-size key: its end is stored after the value *)
        replace (g_written st + len p0 + len kb - (g_written st + len p0)) with (len kb) by lia.
        autorewrite with gst. rewrite !len_app.
        replace (g_written st + (len p0 + (len kb + len vb)) - (g_written st + len p0)) with (len kb + len vb) by lia.
        rewrite len_app in Hkeyw. change (2 ^ 60) with 1152921504606846976 in Hkeyw.
        rewrite for_bare_width by lia. set (w := offset_width (len kb + len vb) 1).
        cbn [bind]. rewrite gwr_gwr.
        rewrite Hkso in Het. cbn [andb] in Het. rewrite len_app in Het. fold w in Het.
        set (b := p0 ++ tuple_bytes al [gsig key; gsig x] (entry_parts e (gsig x) (key, x))).
        assert (Hb : (p0 ++ kb ++ vb) ++ offset_bytes w (len kb) = b).
        { subst b. rewrite Het. unfold offset_bytes. now rewrite <- !app_assoc. }
        rewrite Hb.
        unfold al.
        rewrite (IH (gwr st b) start (push_end (gwr st b) start roffs) (gsig key) (gsig x) (Some (g_written st + len p0)));
          autorewrite with gst; try assumption; try lia.
        replace (g_written st + len b - start) with (off + len b) by (subst off; lia).
        cbn [geparts concat ends_from]. fold al p0 b. rewrite gwr_gwr. f_equal. f_equal.
        destruct roffs as [ro|]; cbn [push_end]; [|reflexivity]. autorewrite with gst.
        replace (g_written st + len b - start) with (off + len b) by (subst off; lia).
        cbn [rev]. now rewrite <- app_assoc.
      + (* fixed-size key: no offset inside the entry *)
        cbn [bind].
        rewrite Hkso in Het. cbn [andb] in Het.
        set (b := p0 ++ tuple_bytes al [gsig key; gsig x] (entry_parts e (gsig x) (key, x))).
        assert (Hb : p0 ++ kb ++ vb = b).
        { subst b. rewrite Het. destruct (gis_fixed (gsig x)) eqn:Hfv.
          - rewrite Hkso in Htail. specialize (Htail eq_refl). unfold pad. rewrite Htail. cbn [zeros repeat N.to_nat].
            now rewrite !app_nil_r.
          - now rewrite !app_nil_r. }
        rewrite Hb.
        unfold al.
        rewrite (IH (gwr st b) start (push_end (gwr st b) start roffs) (gsig key) (gsig x) None);
          autorewrite with gst; try assumption; try lia.
        replace (g_written st + len b - start) with (off + len b) by (subst off; lia).
        cbn [geparts concat ends_from]. fold al p0 b. rewrite gwr_gwr. f_equal. f_equal.
        destruct roffs as [ro|]; cbn [push_end]; [|reflexivity]. autorewrite with gst.
        replace (g_written st + len b - start) with (off + len b) by (subst off; lia).
        cbn [rev]. now rewrite <- app_assoc.
  Qed.

  Lemma good_dict ks vs l : Forall (fun p => good (fst p) /\ good (snd p)) l -> good (GDict ks vs l).
  Proof.
    intros HF st He Hw Hp Hs Hv Hd Hf. cbn [sval_of]. rewrite gser_map.
    pose proof (pre_align _ Hp Hw) as Hal. cbn [gsig] in Hal, Hs |- *.
    destruct (pre_node _ Hp) as (Hnb & Hnt & Hne & Hsmall).
    cbn [gwf] in Hw. apply andb_true_iff in Hw as [Hw Hwl]. apply andb_true_iff in Hw as [Hkb Hvs].
    unfold pre in Hp. rewrite all_nodes_dict in Hp. apply andb_true_iff in Hp as [_ Hpl].
    unfold gfits in Hf. cbn [gdepth_ok] in Hf. apply andb_true_iff in Hf as [Hf Hfl]. apply andb_true_iff in Hf as [Hf1 Hf2].
    apply N.leb_le in Hf1, Hf2.
    destruct (inc_array_good _ Hd Hf1 Hf2) as (d' & Hinc & Hdec & Hd' & Hs' & Ha' & Ht').
    cbn [galign] in *. set (al := N.max (galign ks) (galign vs)) in *.
    assert (Hal0 : al <> 0) by (apply pow2_nz, pow2_max; apply galign_pow2).
    unfold gmap_begin. rewrite Hs. unfold gseq_begin. rewrite gpadded_gwr. rewrite Hs, Hal. cbn [bind]. autorewrite with gst.
    rewrite Hinc. cbn [bind].
    set (p := pad (gabs st) al).
    set (st1 := gset_dep (gset_sig (gwr st p) ks) d').
    rewrite !fixed_sized_spec.
    assert (Hok : Forall (entry_ok d' ks vs) l).
    { apply Forall_forall. intros q Hq.
      rewrite forallb_forall in Hwl, Hpl, Hfl. specialize (Hwl q Hq). specialize (Hpl q Hq). specialize (Hfl q Hq).
      apply andb_true_iff in Hwl as [Hwl Hq4]. apply andb_true_iff in Hwl as [Hwl Hq3]. apply andb_true_iff in Hwl as [Hq1 Hq2].
      apply sig_eqb_eq in Hq3, Hq4. apply andb_true_iff in Hpl as [Hq5 Hq6]. apply andb_true_iff in Hfl as [Hq7 Hq8].
      unfold entry_ok. rewrite Hs', Ha', Ht'. repeat split; try assumption.
      - intros Hfx. cbn [node_tail] in Hnt. rewrite Hfx in Hnt. cbn [andb] in Hnt.
        destruct (padn (len (concat (entry_parts e vs q))) al =? 0) eqn:Hz; [now apply N.eqb_eq in Hz|].
        exfalso. rewrite <- Bool.not_true_iff_false in Hnt. apply Hnt. apply existsb_exists. exists q. split; [assumption|].
        change (N.max (galign ks) (galign vs)) with al. now rewrite Hz.
      - pose proof (entry_len_data ks vs l 0 q Hq) as Hle. rewrite gvb_dict in Hsmall. cbv zeta in Hsmall.
        destruct (gis_fixed ks && gis_fixed vs); [|rewrite len_app in Hsmall]; lia. }
    rewrite (entries_ok l HF st1 (g_written st + len p) _ ks vs); subst st1; autorewrite with gst; try assumption; try reflexivity.
    2:{ replace (g_pos0 st + (g_written st + len p)) with (gabs st + len p) by (unfold gabs; lia).
        subst p. rewrite len_pad. now apply padn_after. }
    2:{ destruct (gis_fixed ks); reflexivity. }
    rewrite N.sub_diag. cbn [bind]. unfold gseq_end. autorewrite with gst. rewrite Hdec.
    rewrite gvb_dict. cbv zeta. set (ps := geparts e ks vs l 0) in *. set (data := concat ps) in *.
    change fixed_sized with gis_fixed.
    destruct (gis_fixed ks && gis_fixed vs) eqn:Hfx.
    - rewrite (reframe st _ _ ks d' (SDict ks vs) _ (eq_sym Hs) eq_refl). reflexivity.
    - rewrite app_nil_r. replace (g_written st + len p + len data - (g_written st + len p)) with (len data) by lia.
      rewrite gvb_dict in Hsmall. cbv zeta in Hsmall. fold ps data in Hsmall. rewrite Hfx in Hsmall. rewrite len_app in Hsmall.
      destruct (N.eqb_spec (len data) 0) as [H0|H0].
      + destruct l as [|q r].
        * cbn. rewrite (reframe st _ _ ks d' (SDict ks vs) _ (eq_sym Hs) eq_refl). reflexivity.
        * exfalso. cbn [node_empty_offsets] in Hne. rewrite Hfx in Hne. cbn [negb andb] in Hne.
          fold ps data in Hne. rewrite H0 in Hne. discriminate.
      + rewrite frev_involutive.
        rewrite (reframe st _ _ ks d' (SDict ks vs) _ (eq_sym Hs) eq_refl).
        rewrite write_all_framing by (apply framing_small; lia).
        rewrite gwr_gwr. now rewrite <- app_assoc.
  Qed.

  (* ---------- the serializer theorem ---------- *)
  Theorem gser_good : forall v, good v.
  Proof.
    induction v using gval_ind'.
    - apply good_u8. - apply good_bool. - apply good_i16. - apply good_u16. - apply good_i32. - apply good_u32.
    - apply good_i64. - apply good_u64. - apply good_f64. - apply good_str. - apply good_sigv. - apply good_path.
    - now apply good_variant. - apply good_fd. - now apply good_array. - now apply good_dict. - now apply good_struct.
    - apply good_nothing. - now apply good_just.
  Qed.
End P.

(* ---------- top level ---------- *)
Lemma forallb_and {A} (f g : A -> bool) l : forallb (fun x => f x && g x) l = forallb f l && forallb g l.
Proof.
  induction l as [|x r IH]; [reflexivity|]. cbn [forallb]. rewrite IH.
  destruct (f x), (g x), (forallb f r), (forallb g r); reflexivity.
Qed.
Lemma forallb_ext_in {A} (f g : A -> bool) l : Forall (fun x => f x = g x) l -> forallb f l = forallb g l.
Proof. induction 1 as [|x r Hx Hr IH]; [reflexivity|]. cbn [forallb]. now rewrite Hx, IH. Qed.

Lemma all_nodes_and p q : forall v, all_nodes (fun x => p x && q x) v = all_nodes p v && all_nodes q v.
Proof.
  induction v using gval_ind'; try (cbn [all_nodes]; now rewrite ?andb_true_r).
  - cbn [all_nodes]. rewrite IHv. destruct (p (GVariant v)), (q (GVariant v)), (all_nodes p v), (all_nodes q v); reflexivity.
  - rewrite !all_nodes_array. rewrite (forallb_ext_in _ (fun x => all_nodes p x && all_nodes q x) l H), forallb_and.
    destruct (p (GArray el l)), (q (GArray el l)), (forallb (all_nodes p) l), (forallb (all_nodes q) l); reflexivity.
  - rewrite !all_nodes_dict.
    rewrite (forallb_ext_in _ (fun q0 => (all_nodes p (fst q0) && all_nodes p (snd q0)) && (all_nodes q (fst q0) && all_nodes q (snd q0))) l).
    2:{ eapply Forall_impl; [|exact H]. intros a [H1 H2]. cbn beta. rewrite H1, H2.
        destruct (all_nodes p (fst a)), (all_nodes q (fst a)), (all_nodes p (snd a)), (all_nodes q (snd a)); reflexivity. }
    rewrite forallb_and.
    destruct (p (GDict ks vs l)), (q (GDict ks vs l)), (forallb (fun q0 => all_nodes p (fst q0) && all_nodes p (snd q0)) l),
      (forallb (fun q0 => all_nodes q (fst q0) && all_nodes q (snd q0)) l); reflexivity.
  - rewrite !all_nodes_struct. rewrite (forallb_ext_in _ (fun x => all_nodes p x && all_nodes q x) l H), forallb_and.
    destruct (p (GStruct l)), (q (GStruct l)), (forallb (all_nodes p) l), (forallb (all_nodes q) l); reflexivity.
  - cbn [all_nodes]. rewrite IHv. destruct (p (GMaybe cs (Some v))), (q (GMaybe cs (Some v))), (all_nodes p v), (all_nodes q v); reflexivity.
Qed.

Lemma pre_split e v : known_c05 e v = false -> gsmall e v = true -> gplain v = true -> pre e v = true.
Proof.
  intros Hk Hs Hp. unfold pre, node_pre. rewrite !all_nodes_and.
  unfold known_c05 in Hk. apply negb_false_iff in Hk. unfold gsmall in Hs. unfold gplain, node_plain in Hp.
  rewrite Hk, Hs. cbn [andb]. exact Hp.
Qed.

(* values without descriptors are not changed by the descriptor numbering *)
Lemma renum_plain : forall v k, gplain v = true -> renum v k = v.
Proof.
  induction v using gval_ind'; intros k Hp; try reflexivity.
  - cbn [renum]. unfold gplain in *. cbn [all_nodes] in Hp. cbn [node_plain andb] in Hp. now rewrite IHv.
  - discriminate.
  - cbn [renum]. unfold gplain in Hp. rewrite all_nodes_array in Hp. cbn [node_plain andb] in Hp. f_equal.
    revert k Hp. induction H as [|x r Hx Hr IH]; intros k Hp; [reflexivity|].
    cbn [forallb] in Hp. apply andb_true_iff in Hp as [H1 H2]. rewrite (Hx k H1). f_equal. now apply IH.
  - cbn [renum]. unfold gplain in Hp. rewrite all_nodes_dict in Hp. cbn [node_plain andb] in Hp. f_equal.
    revert k Hp. induction H as [|[key x] r [Hx1 Hx2] Hr IH]; intros k Hp; [reflexivity|].
    cbn [forallb fst snd] in *. apply andb_true_iff in Hp as [H1 H2]. apply andb_true_iff in H1 as [H1 H3].
    rewrite (Hx1 k H1), (Hx2 _ H3). f_equal. now apply IH.
  - cbn [renum]. unfold gplain in Hp. rewrite all_nodes_struct in Hp. cbn [node_plain andb] in Hp. f_equal.
    revert k Hp. induction H as [|x r Hx Hr IH]; intros k Hp; [reflexivity|].
    cbn [forallb] in Hp. apply andb_true_iff in Hp as [H1 H2]. rewrite (Hx k H1). f_equal. now apply IH.
  - cbn [renum]. unfold gplain in *. cbn [all_nodes] in Hp. cbn [node_plain andb] in Hp. now rewrite IHv.
Qed.

Definition encodable (e : endian) (v : gval) : Prop :=
  gwf v = true /\ known_c05 e v = false /\ gsmall e v = true /\ gplain v = true /\ gwithin_limits v = true.

Theorem gser_top_exact e pos v : encodable e v ->
  gser_top e pos (gsig v) (sval_of v) = Ok (gv_marshal e pos v, []).
Proof.
  intros (Hw & Hk & Hs & Hp & Hl). unfold gser_top.
  rewrite (gser_good e v (ginit e pos (gsig v) (FdsMode []))); try reflexivity; try assumption.
  - cbn [bind]. rewrite gout_gwr. unfold gv_marshal. rewrite (renum_plain v 0 Hp).
    unfold gabs, gout, frev. cbn [ginit g_rout rev_append g_pos0 g_written g_fds gwr app]. now rewrite N.add_0_r.
  - now apply pre_split.
  - split; cbn; lia.
Qed.

Theorem gsize_top_exact e pos v : encodable e v ->
  gsize_top e pos (gsig v) (sval_of v) = Ok (len (gv_marshal e pos v), 0).
Proof.
  intros (Hw & Hk & Hs & Hp & Hl). unfold gsize_top.
  rewrite (gser_good e v (ginit e pos (gsig v) (NumMode 0))); try reflexivity; try assumption.
  - cbn [bind]. unfold gv_marshal. rewrite (renum_plain v 0 Hp). autorewrite with gst.
    unfold gabs. cbn [ginit g_pos0 g_written g_fds gwr]. now rewrite N.add_0_r, N.add_0_l.
  - now apply pre_split.
  - split; cbn; lia.
Qed.
