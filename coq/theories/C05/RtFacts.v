(* C05/RtFacts.v — building blocks for the GVariant round trip (C02): the decoder's primitive readers on a window
   that holds the expected bytes. *)
From ZV Require Import Base.Bytes Base.Res Base.Sig Base.SigParse Base.Utf8 DBus.Val DBus.Spec DBus.Ser DBus.De DBus.SerFacts
  C05.Val C05.Spec C05.Model C05.DeModel C05.Classes C05.Facts.
From ZV Require DBus.DeCompleteFacts.
From Coq Require Import Lia.
Local Open Scope N_scope.

(* the window of [st] starts with the bytes [b] (and is at least that long) *)
Definition starts (st : dst) (b : bytes) : Prop :=
  exists tail, r_rest st = b ++ tail /\ r_pos st + len b <= r_len st.
(* the window of [st] is exactly [b] *)
Definition holds (st : dst) (b : bytes) : Prop :=
  exists tail, r_rest st = b ++ tail /\ r_pos st + len b = r_len st.

Lemma holds_starts st b : holds st b -> starts st b.
Proof. intros (t & H1 & H2). exists t. split; [assumption|lia]. Qed.

Lemma dropN_app_len (a b : bytes) : dropN (len a) (a ++ b) = b.
Proof. apply SerFacts.dropN_app. Qed.
Lemma takeN_app_len (a b : bytes) : takeN (len a) (a ++ b) = a.
Proof. apply SerFacts.takeN_app. Qed.
Lemma dropN_0 {A} (l : list A) : dropN 0 l = l. Proof. reflexivity. Qed.
Lemma dropN_dropN {A} a b (l : list A) : dropN b (dropN a l) = dropN (a + b) l.
Proof.
  unfold dropN. replace (N.to_nat (a + b)) with (N.to_nat a + N.to_nat b)%nat by lia.
  generalize (N.to_nat a) (N.to_nat b). clear. intros n m. revert l. induction n as [|n IH]; intros l; [reflexivity|].
  destruct l as [|x l]; [now destruct m|]. cbn [skipn Nat.add]. apply IH.
Qed.

Lemma adv_adv st a b : adv (adv st a) b = adv st (a + b).
Proof. unfold adv; cbn. f_equal; [apply dropN_dropN|lia]. Qed.
Lemma adv_0 st : adv st 0 = st.
Proof. destruct st; unfold adv; cbn. f_equal. lia. Qed.

Lemma starts_app_l st a b : starts st (a ++ b) -> starts st a.
Proof. intros (t & H1 & H2). exists (b ++ t). rewrite <- app_assoc in H1. split; [assumption|]. rewrite len_app in H2. lia. Qed.
Lemma starts_adv st a b : starts st (a ++ b) -> starts (adv st (len a)) b.
Proof.
  intros (t & H1 & H2). exists t. unfold adv; cbn. rewrite H1, <- app_assoc, dropN_app_len. split; [reflexivity|].
  rewrite len_app in H2. lia.
Qed.
Lemma holds_adv st a b : holds st (a ++ b) -> holds (adv st (len a)) b.
Proof.
  intros (t & H1 & H2). exists t. unfold adv; cbn. rewrite H1, <- app_assoc, dropN_app_len. split; [reflexivity|].
  rewrite len_app in H2. lia.
Qed.

(* parse_padding on a window that starts with the padding *)
Lemma gparse_padding_starts st al b :
  starts st (pad (r_pos0 st + r_pos st) al ++ b) ->
  gparse_padding st al = Ok (adv st (padn (r_pos0 st + r_pos st) al)).
Proof.
  intros (t & H1 & H2). unfold gparse_padding. set (p := padn (r_pos0 st + r_pos st) al) in *.
  rewrite len_app, len_pad in H2. fold p in H2.
  destruct (N.eqb_spec p 0) as [H0|H0]; [now rewrite H0, adv_0|].
  destruct (N.ltb_spec (r_len st) (r_pos st + p)); [lia|].
  destruct (N.leb_spec (r_pos st + p) (r_len st)); [|lia]. cbn [negb].
  rewrite H1, <- app_assoc. unfold pad. fold p.
  replace p with (len (zeros p)) at 1 by apply len_zeros. rewrite takeN_app_len.
  assert (Hz : forallb is_zero (zeros p) = true).
  { unfold zeros. induction (N.to_nat p); [reflexivity|]. cbn. assumption. }
  now rewrite Hz.
Qed.
Lemma starts_after_pad st al b :
  starts st (pad (r_pos0 st + r_pos st) al ++ b) -> starts (adv st (padn (r_pos0 st + r_pos st) al)) b.
Proof. intros H. rewrite <- (len_pad (r_pos0 st + r_pos st) al). now apply starts_adv. Qed.
Lemma holds_after_pad st al b :
  holds st (pad (r_pos0 st + r_pos st) al ++ b) -> holds (adv st (padn (r_pos0 st + r_pos st) al)) b.
Proof. intros H. rewrite <- (len_pad (r_pos0 st + r_pos st) al). now apply holds_adv. Qed.

Lemma gnext_slice_starts st m b : starts st (m ++ b) -> gnext_slice st (len m) = Ok (m, adv st (len m)).
Proof.
  intros (t & H1 & H2). unfold gnext_slice. rewrite len_app in H2.
  destruct (N.ltb_spec (r_len st) (r_pos st + len m)); [lia|]. now rewrite H1, <- app_assoc, takeN_app_len.
Qed.

(* reading a fixed-width number *)
Lemma grd_fixed_starts st (n : nat) x b :
  x < 2 ^ (8 * N.of_nat n) ->
  starts st (pad (r_pos0 st + r_pos st) (N.of_nat n) ++ enc (r_e st) n x ++ b) ->
  grd_fixed st (N.of_nat n) = Ok (x, adv st (padn (r_pos0 st + r_pos st) (N.of_nat n) + N.of_nat n)).
Proof.
  intros Hx H. unfold grd_fixed. rewrite (gparse_padding_starts _ _ _ H). cbn [bind].
  apply starts_after_pad in H.
  replace (N.of_nat n) with (len (enc (r_e st) n x)) at 2 by apply len_enc.
  rewrite (gnext_slice_starts _ _ _ H). cbn [bind]. rewrite len_enc, adv_adv.
  change (r_e (adv (adv st (padn (r_pos0 st + r_pos st) (N.of_nat n))) (N.of_nat n))) with (r_e st).
  now rewrite DeCompleteFacts.dec_enc.
Qed.

(* the states of sub-deserializers *)
Lemma from_idx_pos st : from_idx st (r_pos st) = r_rest st.
Proof. unfold from_idx. rewrite N.leb_refl, N.sub_diag. reflexivity. Qed.
Lemma from_idx_ge st i : r_pos st <= i -> from_idx st i = dropN (i - r_pos st) (r_rest st).
Proof. intros H. unfold from_idx. destruct (N.leb_spec (r_pos st) i); [reflexivity|lia]. Qed.

Lemma gsub_here st hi g d : r_pos st <= hi -> hi <= r_len st ->
  gsub st (r_pos st) hi (r_pos st) g d =
  Ok {| r_e := r_e st; r_pos0 := r_pos0 st + r_pos st; r_base := r_rest st; r_rest := r_rest st; r_pos := 0;
        r_len := hi - r_pos st; r_sig := g; r_dep := d; r_fds := r_fds st |}.
Proof.
  intros H1 H2. unfold gsub. destruct (N.ltb_spec hi (r_pos st)); [lia|]. destruct (N.ltb_spec (r_len st) hi); [lia|].
  cbn [orb]. now rewrite from_idx_pos.
Qed.
