(* C05/Classes.v — the known-deviation classes of C05 (and of the GVariant half of C02) as decidable predicates on a
   value.  Each class is a place where zvariant's GVariant serializer departs from the GVariant specification
   (C05/Spec.v); C05_partial is stated for values none of whose nodes (including the payloads of variants) is in a class.

   bool            the type of the node mentions `b` (e.g. b, ab, (yb), mb, a{sb}):
                   zvariant writes a boolean as a 4-byte, 4-aligned integer (D-Bus delegation); the format says 1 byte
   tail_padding    the node is a fixed-size tuple, or a dict with a fixed-size entry type, whose members do not fill a
                   multiple of its alignment — (uy), a{uy}, ((uy)y): the format pads such a tuple at its end,
                   zvariant does not (so a(uy) is 13 bytes instead of 16, ...)
   empty_offsets   the node is an array (or dict) of n >= 1 variable-size elements that all encode to nothing
                   ([[], []] : aas, [Nothing] : ams), or a tuple with framing offsets whose members all encode to nothing
                   (([], []) : (asas)): zvariant writes nothing at all ("Empty sequence"), the format requires the
                   framing offsets (all 0)                                                                    *)
From ZV Require Import Base.Bytes Base.Res Base.Sig Base.SigParse DBus.Val DBus.Spec DBus.Ser C05.Val C05.Spec C05.Model.
Local Open Scope N_scope.

(* ---- on signatures ---- *)
Fixpoint has_bool (s : sig) : bool :=
  match s with
  | SBool => true
  | SArray c | SMaybe c => has_bool c
  | SDict k v => has_bool k || has_bool v
  | SStruct fs => (fix go (l : list sig) : bool := match l with [] => false | f :: r => has_bool f || go r end) fs
  | _ => false
  end.

(* every node of the value, including the payload of variants *)
Fixpoint all_nodes (p : gval -> bool) (v : gval) {struct v} : bool :=
  p v &&
  match v with
  | GVariant x => all_nodes p x
  | GMaybe _ (Some x) => all_nodes p x
  | GArray _ l | GStruct l => (fix go (l : list gval) : bool := match l with [] => true | x :: r => all_nodes p x && go r end) l
  | GDict _ _ l => (fix go (l : list (gval * gval)) : bool :=
                      match l with [] => true | (k, x) :: r => all_nodes p k && all_nodes p x && go r end) l
  | _ => true
  end.

(* the padded encodings of the members of a container, as the specification lays them out *)
Section K.
  Variable e : endian.

  Fixpoint gparts (l : list gval) (off : N) : list bytes :=
    match l with
    | [] => []
    | x :: r => let b := pad off (galign (gsig x)) ++ gvb e x in b :: gparts r (off + len b)
    end.
  (* key and value of one dict entry *)
  Definition entry_parts (vs : sig) (p : gval * gval) : list bytes :=
    let kb := gvb e (fst p) in [kb; pad (len kb) (galign vs) ++ gvb e (snd p)].

  Fixpoint geparts (ks vs : sig) (l : list (gval * gval)) (off : N) : list bytes :=
    match l with
    | [] => []
    | p :: r =>
        let al := N.max (galign ks) (galign vs) in
        let b := pad off al ++ tuple_bytes al [ks; vs] (entry_parts vs p) in
        b :: geparts ks vs r (off + len b)
    end.

  Definition node_bool (v : gval) : bool := has_bool (gsig v).
  Definition node_tail (v : gval) : bool :=
    match v with
    | GStruct l => forallb gis_fixed (map gsig l)
                   && negb (padn (len (concat (gparts l 0))) (galigns (map gsig l)) =? 0)
    | GDict ks vs l => gis_fixed ks && gis_fixed vs
                       && existsb (fun p => negb (padn (len (concat (entry_parts vs p))) (N.max (galign ks) (galign vs)) =? 0)) l
    | _ => false
    end.
  Definition node_empty_offsets (v : gval) : bool :=
    match v with
    | GArray el (x :: r) => negb (gis_fixed el) && (len (concat (gparts (x :: r) 0)) =? 0)
    | GDict ks vs (p :: r) => negb (gis_fixed ks && gis_fixed vs) && (len (concat (geparts ks vs (p :: r) 0)) =? 0)
    | GStruct l => negb (forallb gis_fixed (map gsig l)) && (len (concat (gparts l 0)) =? 0)
                   && negb (Nat.eqb (length (tuple_offsets (map gsig l) (ends_from 0 (gparts l 0)))) 0)
    | _ => false
    end.
  Definition node_known (v : gval) : bool := node_bool v || node_tail v || node_empty_offsets v.

  (* Known_C05 *)
  Definition known_c05 (v : gval) : bool := negb (all_nodes (fun x => negb (node_known x)) v).

  (* side conditions of C05_partial that are not deviation classes: no node's encoding is astronomically large (the
     serializer's `expect` on the offset width cannot fail below 2^64 bytes), no file descriptors (their index depends
     on the descriptors attached so far; covered by the correspondence only), signature values in parenthesised form
     (what Signature::serialize writes) *)
  Definition gsmall (v : gval) : bool := all_nodes (fun x => len (gvb e x) <? 2 ^ 60) v.
  Definition node_plain (v : gval) : bool := match v with GFd _ => false | GSigv _ np => negb np | _ => true end.
  Definition gplain (v : gval) : bool := all_nodes node_plain v.

  Definition in_class (p : gval -> bool) (v : gval) : bool := negb (all_nodes (fun x => negb (p x)) v).
  Definition class_c05 (v : gval) : bytes :=
    if in_class node_bool v then B "bool"
    else if in_class node_tail v then B "tail_padding"
    else if in_class node_empty_offsets v then B "empty_offsets"
    else B "-".
  (* the classes in which encode-then-decode does not return the value (C02, GVariant half) *)
  Definition class_c02 (v : gval) : bytes :=
    if in_class node_empty_offsets v then B "empty_offsets"
    else B "-".
End K.
