(* C05/Classes.v — the known-deviation classes of C05 (and of the GVariant halves of C02/C04) as decidable predicates
   on a value.  Each class is a place where zvariant's GVariant serializer departs from the GVariant specification
   (C05/Spec.v); C05_partial is stated for values in none of them.

   bool            the value's type (or the type of a value inside a variant) mentions `b`:
                   zvariant writes a boolean as a 4-byte, 4-aligned integer (D-Bus delegation), the format says 1 byte
   tail_padding    ... mentions a fixed-size tuple or dict entry whose members do not fill a multiple of its
                   alignment, e.g. (uy), a(uy), a{uy}, ((uy)y): the format pads such a tuple at its end, zvariant does not
   empty_offsets   an array of n >= 1 variable-size elements that are all empty ([[], []] : aas, [Nothing] : ams), or a
                   tuple with >= 2 variable-size members whose members are all empty (([], []) : (asas)):
                   zvariant writes nothing at all ("Empty sequence"), the format requires the framing offsets (all 0)
   dict_key_width  a dict entry with a variable-size key whose key+value take n bytes with n + w > 2^(8w) - 1 for the
                   width w chosen from n alone (n = 255, 65534, 65535, 2^32-4 ...): zvariant sizes the key's framing
                   offset with for_encoded_container(n) instead of for_bare_container(n, 1)                         *)
From ZV Require Import Base.Bytes Base.Res Base.Sig Base.SigParse DBus.Val DBus.Spec DBus.Ser C05.Val C05.Spec C05.Model.
Local Open Scope N_scope.

(* ---- on signatures ---- *)
Fixpoint has_bool (s : sig) : bool :=
  match s with
  | SBool => true
  | SArray c | SMaybe c => has_bool c
  | SDict k v => has_bool k || has_bool v
  | SStruct fs => (fix go (l : list sig) : bool := match l with [] => false | f :: r => has_bool f || go r end) fs
  | _ => false
  end.

(* the end of the last member of a fixed-size tuple, before the final padding *)
Fixpoint unpadded_end (l : list sig) (off : N) : option N :=
  match l with
  | [] => Some off
  | f :: r => match gfixed_size f with Some n => unpadded_end r (align_up off (galign f) + n) | None => None end
  end.
Definition tuple_tail (l : list sig) : bool :=
  match l, unpadded_end l 0 with
  | _ :: _, Some n => negb (padn n (galigns l) =? 0)
  | _, _ => false
  end.
Fixpoint has_tail (s : sig) : bool :=
  match s with
  | SArray c | SMaybe c => has_tail c
  | SDict k v => has_tail k || has_tail v || tuple_tail [k; v]
  | SStruct fs => tuple_tail fs
                  || (fix go (l : list sig) : bool := match l with [] => false | f :: r => has_tail f || go r end) fs
  | _ => false
  end.

(* ---- on values ---- *)
(* values whose encoding is the empty byte string *)
Fixpoint is_empty_val (v : gval) : bool :=
  match v with
  | GArray _ [] | GDict _ _ [] | GMaybe _ None => true
  | GStruct l => (fix go (l : list gval) : bool := match l with [] => true | x :: r => is_empty_val x && go r end) l
  | _ => false
  end.
Definition var_count (l : list sig) : nat := length (filter (fun s => negb (gis_fixed s)) l).

Definition entry_size_bad (n : N) : bool :=
  match for_encoded_container n with
  | Ok w => negb (w =? offset_width n 1)
  | _ => true
  end.

Section K.
  Variable e : endian.
  (* does a node of the value (including the payload of variants) fall into the class? *)
  Fixpoint any_node (p : gval -> bool) (v : gval) {struct v} : bool :=
    p v ||
    match v with
    | GVariant x => any_node p x
    | GMaybe _ (Some x) => any_node p x
    | GArray _ l | GStruct l => (fix go (l : list gval) : bool := match l with [] => false | x :: r => any_node p x || go r end) l
    | GDict _ _ l => (fix go (l : list (gval * gval)) : bool :=
                        match l with [] => false | (k, x) :: r => any_node p k || any_node p x || go r end) l
    | _ => false
    end.

  Definition node_bool (v : gval) : bool := has_bool (gsig v).
  Definition node_tail (v : gval) : bool := has_tail (gsig v).
  Definition node_empty_offsets (v : gval) : bool :=
    match v with
    | GArray el (x :: r) => negb (gis_fixed el) && forallb is_empty_val (x :: r)
    | GStruct l => forallb is_empty_val l && (2 <=? var_count (map gsig l))%nat
    | _ => false
    end.
  Definition node_dict_key (v : gval) : bool :=
    match v with
    | GDict ks vs l =>
        negb (gis_fixed ks)
        && existsb (fun p => let kb := gvb e (fst p) in
                             entry_size_bad (len kb + len (pad (len kb) (galign vs) ++ gvb e (snd p)))) l
    | _ => false
    end.

  Definition in_bool := any_node node_bool.
  Definition in_tail := any_node node_tail.
  Definition in_empty_offsets := any_node node_empty_offsets.
  Definition in_dict_key := any_node node_dict_key.

  Definition known_c05 (v : gval) : bool := in_bool v || in_tail v || in_empty_offsets v || in_dict_key v.

  Definition class_c05 (v : gval) : bytes :=
    if in_bool v then B "bool"
    else if in_tail v then B "tail_padding"
    else if in_empty_offsets v then B "empty_offsets"
    else if in_dict_key v then B "dict_key_width"
    else B "-".
  (* the classes in which encode-then-decode does not return the value (C02, GVariant half) *)
  Definition class_c02 (v : gval) : bytes :=
    if in_empty_offsets v then B "empty_offsets"
    else if in_dict_key v then B "dict_key_width"
    else B "-".
End K.
