(* C05/DeProofs.v — the model of zvariant's GVariant deserializer never panics, on any input, except
   (a) in the signature parser's recursion (native stack, modelled by PStack) and
   (b) where the reader of a tuple member's framing offset panics — which read_last_offset_from_buffer did on a
       window shorter than the offset width (the former struct_offset_underflow finding), and which the checked
       reader of the code as it is (commit b5246470) never does.
   Every other slice / index / subtraction / unwrap of the decode path is shown to be guarded. *)
From ZV Require Import Base.Bytes Base.Res Base.Sig Base.SigParse Base.Utf8 DBus.Val DBus.Spec DBus.Ser DBus.De DBus.SerFacts
  C05.Val C05.Spec C05.Model C05.DeModel C05.Facts.
From Coq Require Import Lia.
Local Open Scope N_scope.

Definition wfst (st : dst) : Prop := r_pos st <= r_len st /\ r_len st < 18446744073709551616.

Lemma bind_panic {E A B} (r : res E A) (f : A -> res E B) p :
  bind r f = Panic p -> r = Panic p \/ exists a, r = Ok a /\ f a = Panic p.
Proof. destruct r; cbn; intros H; [right; eauto|discriminate|left; congruence]. Qed.

(* ---------- the helpers ---------- *)
Lemma gparse_padding_nopanic st al p : gparse_padding st al <> Panic p.
Proof.
  unfold gparse_padding. destruct (_ =? 0); [discriminate|].
  destruct (N.ltb_spec (r_len st) (r_pos st + padn (r_pos0 st + r_pos st) al)); [discriminate|].
  destruct (N.leb_spec (r_pos st + padn (r_pos0 st + r_pos st) al) (r_len st)); [|lia]. cbn [negb].
  destruct (forallb _ _); discriminate.
Qed.
Lemma gparse_padding_ok st al st' : gparse_padding st al = Ok st' ->
  wfst st -> wfst st' /\ r_len st' = r_len st /\ r_sig st' = r_sig st /\ r_dep st' = r_dep st /\ r_pos st <= r_pos st'.
Proof.
  unfold gparse_padding, wfst. intros H [H1 H2]. destruct (_ =? 0); [injection H as <-; repeat split; try assumption; lia|].
  destruct (N.ltb_spec (r_len st) (r_pos st + padn (r_pos0 st + r_pos st) al)); [discriminate|].
  destruct (negb _); [discriminate|]. destruct (forallb _ _); [|discriminate]. injection H as <-. cbn. repeat split; try assumption; lia.
Qed.

Lemma gnext_slice_nopanic st n p : gnext_slice st n <> Panic p.
Proof. unfold gnext_slice. destruct (_ <? _); discriminate. Qed.

Lemma gsub_nopanic st lo hi sh g d p : gsub st lo hi sh g d <> Panic p.
Proof. unfold gsub. destruct (_ || _); discriminate. Qed.
Lemma gsub_ok st lo hi sh g d st' : gsub st lo hi sh g d = Ok st' ->
  r_len st < 18446744073709551616 -> wfst st' /\ r_len st' <= r_len st /\ r_dep st' = d /\ r_sig st' = g.
Proof.
  unfold gsub, wfst. intros H Hl. destruct (N.ltb_spec hi lo); [discriminate|]. destruct (N.ltb_spec (r_len st) hi); [discriminate|].
  cbn in H. injection H as <-. cbn. repeat split; lia.
Qed.

Lemma for_encoded_ge n w : for_encoded_container n = Ok w -> n <> 0 -> w <= n.
Proof.
  unfold for_encoded_container. rewrite for_bare_cases. rewrite !N.mul_0_l, !N.add_0_r. intros H Hn.
  destruct (N.leb_spec n 255); [injection H as <-; lia|]. destruct (N.leb_spec n 65535); [injection H as <-; lia|].
  destruct (N.leb_spec n 4294967295); [injection H as <-; lia|].
  destruct (N.leb_spec n 18446744073709551615); [injection H as <-; lia|discriminate].
Qed.
Lemma for_encoded_nopanic n p : n < 18446744073709551616 -> for_encoded_container n <> Panic p.
Proof.
  unfold for_encoded_container. rewrite for_bare_cases. rewrite !N.mul_0_l, !N.add_0_r. intros Hn.
  destruct (n <=? 255); [discriminate|]. destruct (n <=? 65535); [discriminate|]. destruct (n <=? 4294967295); [discriminate|].
  destruct (N.leb_spec n 18446744073709551615); [discriminate|lia].
Qed.
Lemma for_encoded_small n w : for_encoded_container n = Ok w -> 2 <= w -> 256 <= n.
Proof.
  unfold for_encoded_container. rewrite for_bare_cases. rewrite !N.mul_0_l, !N.add_0_r. intros H Hw.
  destruct (N.leb_spec n 255); [injection H as <-; lia|lia].
Qed.

Lemma read_last_safe st a b w p : for_encoded_container (b - a) = Ok w -> read_last st a b w <> Panic p.
Proof.
  intros H. unfold read_last. destruct (N.eqb_spec (b - a) 0); [discriminate|].
  apply for_encoded_ge in H; [|assumption]. destruct (N.ltb_spec (b - a) w); [lia|discriminate].
Qed.
Lemma read_last_checked_nopanic st a b w p : read_last_checked st a b w <> Panic p.
Proof.
  unfold read_last_checked, read_last. destruct (_ =? 0); cbn [negb andb]; [discriminate|]. destruct (_ <? _); discriminate.
Qed.

(* from_encoded_array: never panics; the offsets it returns all lie inside the data part *)
Section OffsLoop.
Variables w os : N.
Fixpoint offs_loop (k : nat) (l : bytes) (acc : list N) {struct k} : res cerr (list N) :=
  match k with
  | O => Err EFuel
  | S k' =>
      match l with
      | [] => Ok (frev acc)
      | _ => let c := takeN w l in
             if len c <? w then Err EBounds
             else let o := le_val c in if os <? o then Err EBounds else offs_loop k' (dropN w l) (o :: acc)
      end
  end.
Lemma offs_loop_spec : forall k l acc,
  (forall p, offs_loop k l acc <> Panic p) /\
  (forall offs, offs_loop k l acc = Ok offs -> Forall (fun o => o <= os) acc -> Forall (fun o => o <= os) offs).
Proof.
  induction k as [|k IH]; intros l acc; [split; discriminate|].
  destruct l as [|c0 l0]; cbn [offs_loop].
  - split; [discriminate|]. intros offs [= <-] Ha. rewrite frev_rev. now apply Forall_rev.
  - cbv zeta. destruct (len (takeN w (c0 :: l0)) <? w); [split; discriminate|].
    destruct (N.ltb_spec os (le_val (takeN w (c0 :: l0)))); [split; discriminate|].
    destruct (IH (dropN w (c0 :: l0)) (le_val (takeN w (c0 :: l0)) :: acc)) as [H1 H2]. split; [assumption|].
    intros offs Ho Ha. apply (H2 offs Ho). constructor; assumption.
Qed.
End OffsLoop.

Lemma from_encoded_array_eq st :
  from_encoded_array st =
  let clen := r_len st - r_pos st in
  let* w := for_encoded_container clen in
  let* offsets_start := read_last st (r_pos st) (r_len st) w in
  if clen <? offsets_start then Err EBounds else
  let offsets_len := clen - offsets_start in
  let region := takeN offsets_len (from_idx st (r_pos st + offsets_start)) in
  let* offs := offs_loop w offsets_start (S (length region)) region [] in
  Ok (offs, offsets_len).
Proof. reflexivity. Qed.

Lemma from_encoded_array_spec st : wfst st ->
  (forall p, from_encoded_array st <> Panic p) /\
  (forall offs ol, from_encoded_array st = Ok (offs, ol) ->
     ol <= r_len st - r_pos st /\ Forall (fun o => o <= r_len st - r_pos st - ol) offs).
Proof.
  intros [Hp Hl]. rewrite from_encoded_array_eq. cbv zeta.
  set (clen := r_len st - r_pos st).
  destruct (for_encoded_container clen) as [w| |] eqn:Hw; cbn [bind].
  2:{ split; discriminate. }
  2:{ exfalso. eapply for_encoded_nopanic; [|exact Hw]. subst clen. lia. }
  assert (Hw' : for_encoded_container (r_len st - r_pos st) = Ok w) by assumption.
  destruct (read_last st (r_pos st) (r_len st) w) as [os| |] eqn:Hrl; cbn [bind].
  2:{ split; discriminate. }
  2:{ exfalso. eapply read_last_safe; eassumption. }
  destruct (N.ltb_spec clen os); [split; discriminate|].
  destruct (offs_loop_spec w os (S (length (takeN (clen - os) (from_idx st (r_pos st + os))))) (takeN (clen - os) (from_idx st (r_pos st + os))) []) as [Hnp Hall].
  destruct (offs_loop w os _ _ []) as [offs| |] eqn:Hloop; cbn [bind].
  - split; [discriminate|]. intros offs' ol [= <- <-]. split; [lia|].
    replace (clen - (clen - os)) with os by lia. apply (Hall offs eq_refl). constructor.
  - split; discriminate.
  - exfalso. now apply (Hnp p).
Qed.

Lemma garr_new_spec st : wfst st ->
  (forall p, garr_new st <> Panic p) /\
  (forall st' a, garr_new st = Ok (st', a) ->
     wfst st' /\ r_len st' = r_len st /\ a_start a = r_pos st' /\ a_start a + a_len a <= r_len st' /\
     match a_offs a with Some offs => Forall (fun o => a_start a + o <= r_len st') offs | None => True end).
Proof.
  intros Hwf. unfold garr_new.
  destruct (inc_array (r_dep st)) as [d| |] eqn:Hinc; cbn [bind]; [|split; discriminate|].
  2:{ unfold inc_array, dcheck in Hinc. repeat match type of Hinc with (if ?c then _ else _) = _ => destruct c end; discriminate. }
  destruct (gparse_padding (rset_dep st d) (align_gv (r_sig (rset_dep st d)))) as [st1| |] eqn:Hpp; cbn [bind]; [|split; discriminate|].
  2:{ exfalso. eapply gparse_padding_nopanic; eassumption. }
  apply gparse_padding_ok in Hpp; [|exact Hwf]. destruct Hpp as ([Hp1 Hl1] & Hlen & Hsig & Hdep & Hpos). cbn in Hlen.
  destruct (N.ltb_spec (r_len st1) (r_pos st1)); [lia|].
  destruct (r_sig st1); cbn [bind]; try (split; discriminate).
  - (* array *)
    destruct (fixed_sized s).
    + split; [discriminate|]. intros st' a [= <- <-]. cbn. repeat split; try assumption; try lia.
    + destruct (from_encoded_array_spec st1 (conj Hp1 Hl1)) as [Hnp Hok].
      destruct (from_encoded_array st1) as [[offs ol]| |] eqn:Hfe; cbn [bind]; [|split; discriminate|exfalso; now apply (Hnp p)].
      destruct (Hok offs ol eq_refl) as [Hol Hall].
      destruct (N.ltb_spec (r_len st1 - r_pos st1) ol); [lia|].
      split; [discriminate|]. intros st' a [= <- <-]. cbn. repeat split; try assumption; try lia.
      eapply Forall_impl; [|exact Hall]. cbn. intros o Ho. lia.
  - (* dict *)
    destruct (fixed_sized s1 && fixed_sized s2).
    + split; [discriminate|]. intros st' a [= <- <-]. cbn. repeat split; try assumption; try lia.
    + destruct (from_encoded_array_spec st1 (conj Hp1 Hl1)) as [Hnp Hok].
      destruct (from_encoded_array st1) as [[offs ol]| |] eqn:Hfe; cbn [bind]; [|split; discriminate|exfalso; now apply (Hnp p)].
      destruct (Hok offs ol eq_refl) as [Hol Hall].
      destruct (N.ltb_spec (r_len st1 - r_pos st1) ol); [lia|].
      split; [discriminate|]. intros st' a [= <- <-]. cbn. repeat split; try assumption; try lia.
      eapply Forall_impl; [|exact Hall]. cbn. intros o Ho. lia.
Qed.

Lemma gde_str_nopanic st p : gde_str st <> Panic p.
Proof.
  unfold gde_str. destruct (r_sig st); try discriminate;
    (destruct (_ <? _); [discriminate|]; destruct (negb _); [discriminate|]; destruct (utf8_valid _); discriminate).
Qed.
Lemma gstr_value_nopanic g s p : gstr_value g s <> Panic p.
Proof. unfold gstr_value. destruct g; try discriminate. - destruct (parse_sig _ _); discriminate. - destruct (path_ok _); discriminate. Qed.
Lemma grd_fixed_nopanic st n p : grd_fixed st n <> Panic p.
Proof.
  unfold grd_fixed. destruct (gparse_padding st n) eqn:H1; cbn [bind]; [|discriminate|exfalso; eapply gparse_padding_nopanic; eassumption].
  destruct (gnext_slice a n) as [[b st2]| |] eqn:H2; cbn [bind]; [discriminate|discriminate|exfalso; eapply gnext_slice_nopanic; eassumption].
Qed.
Lemma sig_nest_le : forall l o q b, sig_nest l o q b <= N.max b (o + q + len l).
Proof.
  induction l as [|c r IH]; intros o q b; cbn [sig_nest]; [lia|]. rewrite len_cons.
  destruct (beq c "a"%byte || beq c "m"%byte); [specialize (IH o (q + 1) (N.max b (o + q + 1))); lia|].
  destruct (beq c "("%byte || beq c "{"%byte); [specialize (IH (o + 1) 0 (N.max b (o + q + 1))); lia|].
  destruct (beq c ")"%byte || beq c "}"%byte); [specialize (IH (o - 1) 0 b); lia|].
  specialize (IH o 0 b); lia.
Qed.
Lemma parse_sig_stack_panic raw p : parse_sig_stack raw = Panic p -> p = PStack /\ stack_limit < len raw.
Proof.
  unfold parse_sig_stack. destruct (N.ltb_spec stack_limit (sig_nest raw 0 0 0)).
  - intros [= <-]. split; [reflexivity|]. pose proof (sig_nest_le raw 0 0 0). lia.
  - destruct (parse_sig _ _); discriminate.
Qed.
Lemma len_takeN_le {A} n (l : list A) : N.of_nat (length (takeN n l)) <= n.
Proof. unfold takeN. pose proof (firstn_le_length (N.to_nat n) l). lia. Qed.
Lemma len_removelast_le {A} (l : list A) : (length (removelast l) <= length l)%nat.
Proof. induction l as [|x [|y r] IH]; cbn [removelast length] in *; lia. Qed.
Lemma gde_str_len st s st' : gde_str st = Ok (s, st') -> len s <= r_len st - r_pos st.
Proof.
  unfold gde_str. destruct (r_sig st); try discriminate;
    (destruct (_ <? _); [discriminate|]; destruct (negb _); [discriminate|]; destruct (utf8_valid _); [|discriminate];
     intros [= <- _]; unfold strip_nul;
     match goal with |- len (match ?l with [] => _ | _ => _ end) <= _ => pose proof (len_takeN_le (r_len st - r_pos st) (r_rest st)) as Ht; destruct l eqn:Hl; [cbn; lia|] end;
     rewrite <- Hl in *; destruct (is_zero _); unfold len; [pose proof (len_removelast_le (takeN (r_len st - r_pos st) (r_rest st))); lia|lia]).
Qed.
Lemma inc_nopanic d p : inc_array d <> Panic p /\ inc_struct d <> Panic p /\ inc_variant d <> Panic p /\ inc_maybe d <> Panic p.
Proof.
  unfold inc_array, inc_struct, inc_variant, inc_maybe, dcheck.
  repeat split; repeat match goal with |- (if ?c then _ else _) <> _ => destruct c end; discriminate.
Qed.

Lemma inc_variant_np d p : inc_variant d <> Panic p. Proof. apply inc_nopanic. Qed.
Lemma inc_struct_np d p : inc_struct d <> Panic p. Proof. apply inc_nopanic. Qed.
Lemma inc_maybe_np d p : inc_maybe d <> Panic p. Proof. apply inc_nopanic. Qed.

(* ---------- standalone forms of gde_gen's loops ---------- *)
Section Loops.
  Variable dec : dst -> res cerr (gval * dst).

  Section Arr.
    Variable a : garr.
    Variable c : sig.
    Fixpoint arr_loop (k : nat) (offs : option (list N)) (st : dst) (acc : list gval) {struct k}
      : res cerr (list gval * dst) :=
      match k with
      | O => Err EFuel
      | S k' =>
          if garr_done st a offs then Ok (frev acc, garr_finish st a)
          else
            let '(end_, offs') := match offs with
                                  | Some (o :: r) => (a_start a + o, Some r)
                                  | _ => (a_start a + a_len a, offs)
                                  end in
            let* sub := gsub st (r_pos st) end_ (r_pos st) (a_child a) (r_dep st) in
            let* (v, sub') := dec sub in
            let st := adv st (r_pos sub') in
            if a_start a + a_len a <? r_pos st then Err EBounds
            else if negb (sig_eqb (gsig v) c) then Err ESigMismatch
            else arr_loop k' offs' st (v :: acc)
      end.
  End Arr.

  Section Dict.
    Variable a : garr.
    Variables ks vs : sig.
    Fixpoint dict_loop (k : nat) (offs : option (list N)) (st : dst) (acc : list (gval * gval)) {struct k}
      : res cerr (list (gval * gval) * dst) :=
      match k with
      | O => Err EFuel
      | S k' =>
          if garr_done st a offs then Ok (frev acc, garr_finish st a)
          else
            let* st := gparse_padding st (a_al a) in
            let* element_end := match offs with
                                | Some (o :: _) => Ok (a_start a + o)
                                | Some [] => Err EOther
                                | None => Ok (a_start a + a_len a)
                                end in
            let* (key_end, kos) :=
                match a_kos a with
                | Some _ =>
                    if element_end <? r_pos st then Err EBounds else
                    let* w := for_encoded_container (element_end - r_pos st) in
                    if r_len st <? element_end then Panic PSlice else
                    let* o := read_last st (r_pos st) element_end w in
                    Ok (r_pos st + o, Some w)
                | None => Ok (element_end, None)
                end in
            let* ksub := gsub st (r_pos st) key_end (r_pos st) (a_child a) (r_dep st) in
            let* (kv, ksub') := dec ksub in
            let st := adv st (r_pos ksub') in
            if a_start a + a_len a <? r_pos st then Err EBounds else
            let* (element_end, offs') := match offs with
                                          | Some (o :: r) => Ok (a_start a + o, Some r)
                                          | Some [] => Err EOther
                                          | None => Ok (a_start a + a_len a, None)
                                          end in
            let* value_end := match kos with
                              | Some w => if element_end <? w then Err EBounds else Ok (element_end - w)
                              | None => Ok element_end
                              end in
            let* vsub := gsub st (r_pos st) value_end (r_pos st) vs (r_dep st) in
            let* (vv, vsub') := dec vsub in
            let st := adv st (r_pos vsub') in
            let st := match kos with Some w => adv st w | None => st end in
            if a_start a + a_len a <? r_pos st then Err EBounds
            else if negb (sig_eqb (gsig kv) ks) || negb (sig_eqb (gsig vv) vs) then Err ESigMismatch
            else dict_loop k' offs' st ((kv, vv) :: acc)
      end.
  End Dict.

  Section Struct.
    Variable rl : dst -> N -> N -> N -> res cerr N.
    Variables start w : N.
    Fixpoint struct_loop (gs : list sig) (st : dst) (end_ offsets_len : N) (acc : list gval) {struct gs}
      : res cerr (list gval * dst) :=
      match gs with
      | [] => Ok (frev acc, st)
      | g :: r =>
          let last := match r with [] => true | _ => false end in
          let* (element_end, end', offsets_len') :=
              if fixed_sized g then Ok (end_, end_, offsets_len)
              else if last then Ok (end_, end_, offsets_len)
              else
                if (end_ <? start) || (r_len st <? end_) then Err EBounds else
                let* o := rl st start end_ w in
                if end_ <? w then Err EBounds else
                Ok (o + start, end_ - w, offsets_len + w) in
          let* sub := gsub st (r_pos st) element_end (r_pos st) g (r_dep st) in
          let* (v, sub') := dec sub in
          let st := adv st (r_pos sub') in
          let st := if last then adv (rset_dep st (dec_struct (r_dep st))) offsets_len' else st in
          struct_loop r st end' offsets_len' (v :: acc)
      end.
  End Struct.
End Loops.

Lemma gde_gen_array rl f st c : r_sig st = SArray c ->
  gde_gen rl (S f) st =
  let* st := gparse_padding st (align_gv (r_sig st)) in
  let* (st, a) := garr_new st in
  let* (l, st') := arr_loop (gde_gen rl f) a c (S (N.to_nat (r_len st))) (a_offs a) st [] in
  Ok (GArray c l, st').
Proof. intros H. cbn [gde_gen]. rewrite H. reflexivity. Qed.
Lemma gde_gen_dict rl f st ks vs : r_sig st = SDict ks vs ->
  gde_gen rl (S f) st =
  let* st := gparse_padding st (align_gv (r_sig st)) in
  let* (st, a) := garr_new st in
  let* (l, st') := dict_loop (gde_gen rl f) a ks vs (S (N.to_nat (r_len st))) (a_offs a) st [] in
  Ok (GDict ks vs l, st').
Proof. intros H. cbn [gde_gen]. rewrite H. reflexivity. Qed.
Lemma gde_gen_struct rl f st fs : r_sig st = SStruct fs ->
  gde_gen rl (S f) st =
  let* st := gparse_padding st (align_gv (r_sig st)) in
  let* st := gparse_padding st (align_gv (r_sig st)) in
  let* d := inc_struct (r_dep st) in
  let st := rset_dep st d in
  let start := r_pos st in
  if r_len st <? start then Panic PArith else
  let* w := for_encoded_container (r_len st - start) in
  let* (l, st') := struct_loop (gde_gen rl f) rl start w fs st (r_len st) 0 [] in
  Ok (GStruct l, st').
Proof. intros H. cbn [gde_gen]. rewrite H. reflexivity. Qed.

(* ---------- no panic ---------- *)
Section NP.
  Variable rl : dst -> N -> N -> N -> res cerr N.
  Variable P : dst -> panic -> Prop.
  (* what a panic of the tuple-offset reader tells, when it is called with the width chosen for the tuple *)
  Hypothesis Hrl : forall st a b w p, for_encoded_container (r_len st - a) = Ok w -> rl st a b w = Panic p -> P st p.

  Definition bad (st : dst) (p : panic) : Prop :=
    (p = PStack /\ stack_limit < r_len st) \/ exists st', r_len st' <= r_len st /\ P st' p.
  Lemma bad_mono st1 st2 p : r_len st1 <= r_len st2 -> bad st1 p -> bad st2 p.
  Proof. intros H [[-> Hs]|(st' & H1 & H2)]; [left; split; [reflexivity|lia]|]. right. exists st'. split; [lia|assumption]. Qed.

  Definition dec_ok (dec : dst -> res cerr (gval * dst)) : Prop := forall st p, wfst st -> dec st = Panic p -> bad st p.

  Lemma r_len_adv st n : r_len (adv st n) = r_len st. Proof. reflexivity. Qed.

  Lemma arr_loop_np dec a c : dec_ok dec -> forall k offs st acc p,
    r_len st < 18446744073709551616 -> arr_loop dec a c k offs st acc = Panic p -> bad st p.
  Proof.
    intros Hdec. induction k as [|k IH]; intros offs st acc p Hl H; [discriminate|].
    cbn [arr_loop] in H. destruct (garr_done st a offs); [discriminate|].
    destruct (match offs with Some (o :: r) => (a_start a + o, Some r) | _ => (a_start a + a_len a, offs) end) as [end_ offs'].
    apply bind_panic in H as [H|(sub & Hsub & H)]; [exfalso; eapply gsub_nopanic; eassumption|].
    apply gsub_ok in Hsub; [|assumption]. destruct Hsub as (Hwf & Hle & _ & _).
    apply bind_panic in H as [H|([v sub'] & Hd & H)].
    - eapply bad_mono; [exact Hle|]. now apply Hdec.
    - cbv zeta in H. match type of H with (if ?c then _ else _) = _ => destruct c; [discriminate|] end.
      match type of H with (if ?c then _ else _) = _ => destruct c; [discriminate|] end.
      apply IH in H; [|now rewrite r_len_adv]. eapply bad_mono; [|exact H]. rewrite r_len_adv. lia.
  Qed.

  Lemma dict_loop_np dec a ks vs : dec_ok dec -> forall k offs st acc p,
    r_len st < 18446744073709551616 -> a_start a + a_len a <= r_len st ->
    match offs with Some l => Forall (fun o => a_start a + o <= r_len st) l | None => True end ->
    dict_loop dec a ks vs k offs st acc = Panic p -> bad st p.
  Proof.
    intros Hdec. induction k as [|k IH]; intros offs st acc p Hl Hal Hoffs H; [discriminate|].
    cbn [dict_loop] in H. destruct (garr_done st a offs); [discriminate|].
    apply bind_panic in H as [H|(st1 & Hpp & H)]; [exfalso; eapply gparse_padding_nopanic; eassumption|].
    assert (Hl1 : r_len st1 = r_len st).
    { unfold gparse_padding in Hpp. destruct (_ =? 0); [now injection Hpp as <-|]. destruct (_ <? _); [discriminate|].
      destruct (negb _); [discriminate|]. destruct (forallb _ _); [|discriminate]. now injection Hpp as <-. }
    apply bind_panic in H as [H|(element_end & Hee & H)].
    { destruct offs as [[|o r]|]; discriminate. }
    assert (Hee_le : element_end <= r_len st1).
    { rewrite Hl1. destruct offs as [[|o r]|]; try discriminate; injection Hee as <-; [|lia]. inversion Hoffs; assumption. }
    apply bind_panic in H as [H|([key_end kos] & Hke & H)].
    { exfalso. destruct (a_kos a); [|discriminate].
      destruct (N.ltb_spec element_end (r_pos st1)); [discriminate|].
      apply bind_panic in H as [H|(w & Hw & H)]; [eapply for_encoded_nopanic; [|exact H]; lia|].
      destruct (N.ltb_spec (r_len st1) element_end); [lia|].
      apply bind_panic in H as [H|(o & _ & H)]; [|discriminate]. eapply read_last_safe; eassumption. }
    apply bind_panic in H as [H|(ksub & Hsub & H)]; [exfalso; eapply gsub_nopanic; eassumption|].
    apply gsub_ok in Hsub; [|lia]. destruct Hsub as (Hwf & Hle & _ & _).
    apply bind_panic in H as [H|([kv ksub'] & Hd & H)].
    { eapply bad_mono; [|now apply Hdec; eassumption]. lia. }
    cbv zeta in H. match type of H with (if ?c then _ else _) = _ => destruct c; [discriminate|] end.
    apply bind_panic in H as [H|([ee offs'] & Hpop & H)].
    { destruct offs as [[|o r]|]; discriminate. }
    apply bind_panic in H as [H|(value_end & Hve & H)].
    { destruct kos; [|discriminate]. match type of H with (if ?c then _ else _) = _ => destruct c; discriminate end. }
    apply bind_panic in H as [H|(vsub & Hvsub & H)]; [exfalso; eapply gsub_nopanic; eassumption|].
    apply gsub_ok in Hvsub; [|rewrite r_len_adv; lia]. destruct Hvsub as (Hwfv & Hlev & _ & _). rewrite r_len_adv in Hlev.
    apply bind_panic in H as [H|([vv vsub'] & Hdv & H)].
    { eapply bad_mono; [|now apply Hdec; eassumption]. lia. }
    cbv zeta in H. match type of H with (if ?c then _ else _) = _ => destruct c; [discriminate|] end.
    match type of H with (if ?c then _ else _) = _ => destruct c; [discriminate|] end.
    apply IH in H.
    - eapply bad_mono; [|exact H]. destruct kos; rewrite ?r_len_adv; lia.
    - destruct kos; rewrite ?r_len_adv; lia.
    - destruct kos; rewrite ?r_len_adv; lia.
    - assert (Hr : forall s, r_len s = r_len st -> match offs' with Some l => Forall (fun o => a_start a + o <= r_len s) l | None => True end).
      { intros s Hs. rewrite Hs. destruct offs as [[|o r]|]; try discriminate; injection Hpop as <- <-; [|exact I]. inversion Hoffs; assumption. }
      apply Hr. destruct kos; rewrite ?r_len_adv; lia.
  Qed.

  Lemma struct_loop_np dec start w : dec_ok dec -> forall gs st end_ ol acc p,
    r_len st < 18446744073709551616 -> for_encoded_container (r_len st - start) = Ok w ->
    struct_loop dec rl start w gs st end_ ol acc = Panic p -> bad st p.
  Proof.
    intros Hdec. induction gs as [|g r IH]; intros st end_ ol acc p Hl Hw H; [discriminate|].
    cbn [struct_loop] in H.
    apply bind_panic in H as [H|([[element_end end'] ol'] & Hee & H)].
    { destruct (fixed_sized g); [discriminate|]. destruct r; [discriminate|]. cbv iota in H.
      match type of H with (if ?c then _ else _) = _ => destruct c; [discriminate|] end.
      apply bind_panic in H as [H|(o & _ & H)].
      - right. exists st. split; [lia|]. eapply Hrl; eassumption.
      - match type of H with (if ?c then _ else _) = _ => destruct c; discriminate end. }
    apply bind_panic in H as [H|(sub & Hsub & H)]; [exfalso; eapply gsub_nopanic; eassumption|].
    apply gsub_ok in Hsub; [|assumption]. destruct Hsub as (Hwf & Hle & _ & _).
    apply bind_panic in H as [H|([v sub'] & Hd & H)].
    { eapply bad_mono; [exact Hle|]. now apply Hdec. }
    apply IH in H.
    - eapply bad_mono; [|exact H]. destruct r; cbn; lia.
    - destruct r; cbn; assumption.
    - destruct r; cbn; assumption.
  Qed.

  Ltac bp H := apply bind_panic in H as [H|(?a & ?Heq & H)].

  Theorem gde_gen_np : forall fuel, dec_ok (gde_gen rl fuel).
  Proof.
    induction fuel as [|f IH]; intros st p Hwf H; [discriminate|].
    assert (Hlen : r_len st < 18446744073709551616) by apply Hwf.
    destruct (r_sig st) eqn:Hsig;
      try (cbn [gde_gen] in H; rewrite Hsig in H; cbv zeta in H;
           apply bind_panic in H as [H|([x st1] & _ & H)]; [exfalso; eapply grd_fixed_nopanic; eassumption|discriminate]).
    - (* unit *) cbn [gde_gen] in H. rewrite Hsig in H. discriminate.
    - (* bool *) cbn [gde_gen] in H. rewrite Hsig in H.
      apply bind_panic in H as [H|([x st1] & _ & H)]; [exfalso; eapply grd_fixed_nopanic; eassumption|].
      destruct (x =? 1); [discriminate|]. destruct (x =? 0); discriminate.
    - (* str *) cbn [gde_gen] in H. rewrite Hsig in H.
      apply bind_panic in H as [H|([x st1] & _ & H)]; [exfalso; eapply gde_str_nopanic; eassumption|].
      apply bind_panic in H as [H|(v & _ & H)]; [exfalso; eapply gstr_value_nopanic; eassumption|discriminate].
    - (* sig *) cbn [gde_gen] in H. rewrite Hsig in H.
      apply bind_panic in H as [H|([x st1] & _ & H)]; [exfalso; eapply gde_str_nopanic; eassumption|].
      apply bind_panic in H as [H|(v & _ & H)]; [exfalso; eapply gstr_value_nopanic; eassumption|discriminate].
    - (* path *) cbn [gde_gen] in H. rewrite Hsig in H.
      apply bind_panic in H as [H|([x st1] & _ & H)]; [exfalso; eapply gde_str_nopanic; eassumption|].
      apply bind_panic in H as [H|(v & _ & H)]; [exfalso; eapply gstr_value_nopanic; eassumption|discriminate].
    - (* variant *) cbn [gde_gen] in H. rewrite Hsig in H.
      apply bind_panic in H as [H|(st1 & Hp1 & H)]; [exfalso; eapply gparse_padding_nopanic; eassumption|].
      apply gparse_padding_ok in Hp1; [|assumption]. destruct Hp1 as (Hwf1 & Hl1 & _ & _ & _).
      apply bind_panic in H as [H|(st2 & Hp2 & H)]; [exfalso; eapply gparse_padding_nopanic; eassumption|].
      apply gparse_padding_ok in Hp2; [|assumption]. destruct Hp2 as (Hwf2 & Hl2 & _ & _ & _).
      destruct (r_len st2 =? 0); [discriminate|].
      destruct (N.ltb_spec (r_len st2) (r_pos st2)); [destruct Hwf2; lia|].
      destruct (last_nul _ 0 None) as [i|]; [|discriminate].
      apply bind_panic in H as [H|(sst & Hs1 & H)]; [exfalso; eapply gsub_nopanic; eassumption|].
      apply gsub_ok in Hs1; [|destruct Hwf2; assumption]. destruct Hs1 as (Hwfs & Hles & _ & _).
      apply bind_panic in H as [H|([s sst'] & Hstr & H)]; [exfalso; eapply gde_str_nopanic; eassumption|].
      apply gde_str_len in Hstr.
      apply bind_panic in H as [H|(g0 & _ & H)].
      { apply parse_sig_stack_panic in H as [-> Hlim]. left. split; [reflexivity|lia]. }
      apply bind_panic in H as [H|(g & _ & H)].
      { apply parse_sig_stack_panic in H as [-> Hlim]. left. split; [reflexivity|].
        match type of Hlim with _ < len (takeN ?n ?l) => pose proof (len_takeN_le n l) as Ht; unfold len in Hlim end. lia. }
      apply bind_panic in H as [H|(vst0 & Hs2 & H)]; [exfalso; eapply gsub_nopanic; eassumption|].
      apply gsub_ok in Hs2; [|destruct Hwf2; assumption]. destruct Hs2 as (Hwfv & Hlev & _ & _).
      apply bind_panic in H as [H|(d & _ & H)]; [exfalso; eapply inc_variant_np; eassumption|].
      apply bind_panic in H as [H|([v vst'] & _ & H)]; [|discriminate].
      eapply bad_mono; [|apply (IH (rset_dep vst0 d) p); [exact Hwfv|exact H]]. cbn. lia.
    - (* fd *) cbn [gde_gen] in H. rewrite Hsig in H.
      apply bind_panic in H as [H|([x st1] & _ & H)]; [exfalso; eapply grd_fixed_nopanic; eassumption|].
      destruct (nthN _ _); discriminate.
    - (* array *) match type of Hsig with _ = SArray ?c0 => rename c0 into c end. rewrite (gde_gen_array rl f st c Hsig) in H.
      apply bind_panic in H as [H|(st1 & Hp1 & H)]; [exfalso; eapply gparse_padding_nopanic; eassumption|].
      apply gparse_padding_ok in Hp1; [|assumption]. destruct Hp1 as (Hwf1 & Hl1 & _ & _ & _).
      destruct (garr_new_spec st1 Hwf1) as [Hnp Hok].
      apply bind_panic in H as [H|([st2 a] & Hnew & H)]; [exfalso; eapply Hnp; eassumption|].
      destruct (Hok st2 a Hnew) as (Hwf2 & Hl2 & _).
      apply bind_panic in H as [H|([l st3] & _ & H)]; [|discriminate].
      apply (arr_loop_np _ a c IH) in H; [|apply Hwf2]. eapply bad_mono; [|exact H]. lia.
    - (* dict *) match type of Hsig with _ = SDict ?k0 ?v0 => rename k0 into k; rename v0 into v end. rewrite (gde_gen_dict rl f st k v Hsig) in H.
      apply bind_panic in H as [H|(st1 & Hp1 & H)]; [exfalso; eapply gparse_padding_nopanic; eassumption|].
      apply gparse_padding_ok in Hp1; [|assumption]. destruct Hp1 as (Hwf1 & Hl1 & _ & _ & _).
      destruct (garr_new_spec st1 Hwf1) as [Hnp Hok].
      apply bind_panic in H as [H|([st2 a] & Hnew & H)]; [exfalso; eapply Hnp; eassumption|].
      destruct (Hok st2 a Hnew) as (Hwf2 & Hl2 & Hst & Hal & Hoffs).
      apply bind_panic in H as [H|([l st3] & _ & H)]; [|discriminate].
      apply (dict_loop_np _ a k v IH) in H; try assumption; [|apply Hwf2]. eapply bad_mono; [|exact H]. lia.
    - (* tuple *) match type of Hsig with _ = SStruct ?f0 => rename f0 into fs end. rewrite (gde_gen_struct rl f st fs Hsig) in H.
      apply bind_panic in H as [H|(st1 & Hp1 & H)]; [exfalso; eapply gparse_padding_nopanic; eassumption|].
      apply gparse_padding_ok in Hp1; [|assumption]. destruct Hp1 as (Hwf1 & Hl1 & _ & _ & _).
      apply bind_panic in H as [H|(st2 & Hp2 & H)]; [exfalso; eapply gparse_padding_nopanic; eassumption|].
      apply gparse_padding_ok in Hp2; [|assumption]. destruct Hp2 as (Hwf2 & Hl2 & _ & _ & _).
      apply bind_panic in H as [H|(d & _ & H)]; [exfalso; eapply inc_struct_np; eassumption|].
      cbv zeta in H. cbn [rset_dep r_pos r_len] in H.
      destruct (N.ltb_spec (r_len st2) (r_pos st2)); [destruct Hwf2; lia|].
      apply bind_panic in H as [H|(w & Hw & H)]; [exfalso; eapply for_encoded_nopanic; [|exact H]; destruct Hwf2; lia|].
      apply bind_panic in H as [H|([l st3] & _ & H)]; [|discriminate].
      apply (struct_loop_np _ _ _ IH) in H; [|apply Hwf2|exact Hw]. eapply bad_mono; [|exact H]. cbn. lia.
    - (* maybe *) match type of Hsig with _ = SMaybe ?c0 => rename c0 into c end. cbn [gde_gen] in H. rewrite Hsig in H.
      apply bind_panic in H as [H|(st1 & Hp1 & H)]; [exfalso; eapply gparse_padding_nopanic; eassumption|].
      apply gparse_padding_ok in Hp1; [|assumption]. destruct Hp1 as (Hwf1 & Hl1 & _ & _ & _).
      cbv zeta in H. destruct (N.eqb_spec (r_pos st1) (r_len st1)); [discriminate|].
      apply bind_panic in H as [H|(end_ & He & H)].
      { destruct (fixed_sized c); [discriminate|]. destruct (N.eqb_spec (r_len st1) 0); [destruct Hwf1; lia|discriminate]. }
      apply bind_panic in H as [H|(sub0 & Hs & H)]; [exfalso; eapply gsub_nopanic; eassumption|].
      apply gsub_ok in Hs; [|apply Hwf1]. destruct Hs as (Hwfs & Hles & _ & _).
      apply bind_panic in H as [H|(d & _ & H)]; [exfalso; eapply inc_maybe_np; eassumption|].
      apply bind_panic in H as [H|([v sub'] & _ & H)].
      { eapply bad_mono; [|apply (IH (rset_dep sub0 d) p); [exact Hwfs|exact H]]. cbn. lia. }
      destruct (fixed_sized c); [discriminate|]. destruct (_ <=? _); [discriminate|].
      destruct (r_rest _); [discriminate|]. destruct (is_zero _); discriminate.
  Qed.
End NP.

(* ---------- instances ---------- *)
(* the code as it is (after commit b5246470): the only panic left is the signature parser's recursion *)
Theorem gde_panics fuel st p : wfst st -> gde fuel st = Panic p -> p = PStack /\ stack_limit < r_len st.
Proof.
  intros Hwf H. destruct (gde_gen_np read_last_checked (fun _ _ => False)) with (fuel := fuel) (st := st) (p := p) as [Hp|(st' & _ & [])];
    try assumption.
  intros st0 a b w p0 _ Hx. exfalso. eapply read_last_checked_nopanic; eassumption.
Qed.

(* the code before that commit: every panic other than the parser's stack was the subtraction in
   read_last_offset_from_buffer, reached on a window of at least 256 bytes *)
Theorem gde_before_fix_panics fuel st p : wfst st -> gde_before_fix fuel st = Panic p ->
  (p = PStack /\ stack_limit < r_len st) \/ (p = PArith /\ 256 <= r_len st).
Proof.
  intros Hwf H.
  destruct (gde_gen_np read_last (fun s q => q = PArith /\ 256 <= r_len s)) with (fuel := fuel) (st := st) (p := p) as [Hp|(st' & Hle & Hq & H256)];
    try assumption.
  - intros st0 a b w p0 Hw Hx. unfold read_last in Hx. destruct (N.eqb_spec (b - a) 0); [discriminate|].
    destruct (N.ltb_spec (b - a) w); [|discriminate]. injection Hx as <-. split; [reflexivity|].
    assert (2 <= w) by lia. apply for_encoded_small in Hw; [lia|assumption].
  - now left.
  - right. split; [assumption|lia].
Qed.

Corollary gde_small_nopanic fuel st p : wfst st -> r_len st <= stack_limit -> gde fuel st <> Panic p.
Proof. intros Hwf Hs H. destruct (gde_panics fuel st p Hwf H) as [_ Hge]. lia. Qed.

(* ---------- the entry points ---------- *)
Lemma wfst_init e pos g b fds : len b < 18446744073709551616 -> wfst (ginit_dst e pos g b fds).
Proof. intros H. unfold wfst, ginit_dst; cbn. lia. Qed.

Definition panic_of {A} (r : res cerr A) : option panic := match r with Panic p => Some p | _ => None end.
Lemma panic_of_bind {A B} (r : res cerr A) (f : A -> res cerr B) p :
  (forall a q, f a <> Panic q) -> bind r f = Panic p -> r = Panic p.
Proof. intros Hf H. apply bind_panic in H as [H|(a & _ & H)]; [assumption|]. exfalso. eapply Hf; eassumption. Qed.

Lemma gde_init_panics e pos g b fds p n : len b < 18446744073709551616 -> gde n (ginit_dst e pos g b fds) = Panic p ->
  p = PStack /\ stack_limit < len b.
Proof. intros Hb H0. pose proof (gde_panics n (ginit_dst e pos g b fds) p (wfst_init e pos g b fds Hb) H0) as H1. exact H1. Qed.

Lemma value_top_panic e pos b fds p : gde_value_top e pos b fds = Panic p -> gde gde_fuel (ginit_dst e pos SVariant b fds) = Panic p.
Proof.
  unfold gde_value_top. intros H. apply (panic_of_bind (gde gde_fuel (ginit_dst e pos SVariant b fds))) in H; [exact H|].
  intros [v st] q. destruct v; discriminate.
Qed.
Lemma struct_top_panic e pos g b fds p : gde_struct_top e pos g b fds = Panic p ->
  gde gde_fuel (ginit_dst e pos (match g with SStruct _ => g | _ => SStruct [g] end) b fds) = Panic p.
Proof.
  unfold gde_struct_top. intros H.
  apply (panic_of_bind (gde gde_fuel (ginit_dst e pos (match g with SStruct _ => g | _ => SStruct [g] end) b fds))) in H; [exact H|].
  intros [v st] q. discriminate.
Qed.
Lemma typed_top_panic e pos g b fds p : gde_typed_top e pos g b fds = Panic p -> gde gde_fuel (ginit_dst e pos g b fds) = Panic p.
Proof.
  unfold gde_typed_top. intros H. apply (panic_of_bind (gde gde_fuel (ginit_dst e pos g b fds))) in H; [exact H|].
  intros [v st] q. discriminate.
Qed.

Theorem gde_tops_panics e pos g b fds p : len b < 18446744073709551616 ->
  gde_value_top e pos b fds = Panic p \/ gde_struct_top e pos g b fds = Panic p \/ gde_typed_top e pos g b fds = Panic p ->
  p = PStack /\ stack_limit < len b.
Proof.
  intros Hb [H|[H|H]].
  - apply value_top_panic in H. exact (gde_init_panics _ _ _ _ _ _ _ Hb H).
  - apply struct_top_panic in H. exact (gde_init_panics _ _ _ _ _ _ _ Hb H).
  - apply typed_top_panic in H. exact (gde_init_panics _ _ _ _ _ _ _ Hb H).
Qed.

Theorem gde_tops_small_nopanic e pos g b fds p : len b <= stack_limit ->
  gde_value_top e pos b fds <> Panic p /\ gde_struct_top e pos g b fds <> Panic p /\ gde_typed_top e pos g b fds <> Panic p.
Proof.
  intros Hb. assert (Hb' : len b < 18446744073709551616) by (unfold stack_limit in Hb; lia).
  assert (Hno : ~ (p = PStack /\ stack_limit < len b)) by (intros [_ Hx]; lia).
  repeat split; intros Hx; apply Hno; apply (gde_tops_panics e pos g b fds p Hb'); tauto.
Qed.
