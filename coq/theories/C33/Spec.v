(* C33/Spec.v — what the property text demands of a generated proxy / interface pair, written against user
   code (the handler behaviour) and the abstract state only:
     a proxy method call runs the handler of the same name once, with the argument values the caller
     passed, and returns the handler's result (or its error);
     a property read returns the current value (or the getter's error), a property write stores the value;
     a signal emitted with arguments `args` arrives at the proxy's stream with the same `args`. *)
From ZV Require Import Base.Bytes C26.Desc C26.Tree C26.Msg C27.Model C28.Spec C33.Model.

Section Spec.
  Variable bh : behaviour.

  Record pexpect := { px_res : pres; px_log : list logent; px_vals : option (list (bytes * val)) }.

  Definition spec_proxy_call (i : inst) (md : mdesc) (args : list val) : pexpect :=
    {| px_res := match bh_method bh (id_name (in_desc i)) (md_name md) args with
                 | HOk outs => POk outs
                 | HErr e m => PErr e (Some m)
                 end;
       px_log := [LMethod (in_tag i) (md_name md) args];
       px_vals := Some (in_vals i) |}.

  Definition spec_proxy_get (i : inst) (p : pdesc) : pexpect :=
    {| px_res := match get_val (pd_name p) (in_vals i) with
                 | Some v => match getter_error bh i p v with Some (e, m) => PErr e (Some m) | None => POk [v] end
                 | None => PNone
                 end;
       px_log := [LGet (in_tag i) (pd_name p)];
       px_vals := Some (in_vals i) |}.

  (* a write through the proxy: the setter runs with exactly that value; when it succeeds the value is stored *)
  Definition spec_proxy_set (i : inst) (p : pdesc) (v : val) : pexpect :=
    match setter_error bh i p v with
    | Some (e, m) => {| px_res := PErr e (Some m); px_log := [LSet (in_tag i) (pd_name p) v]; px_vals := Some (in_vals i) |}
    | None => {| px_res := POk [];
                 px_log := LSet (in_tag i) (pd_name p) v ::
                           (if readable p then match pd_emits p with ETrue => [LGet (in_tag i) (pd_name p)] | _ => [] end else []);
                 px_vals := Some (set_val (pd_name p) v (in_vals i)) |}
    end.

  Definition spec_proxy_recv (args : list val) : pres := POk args.
End Spec.
