(* C33/Examples.v — concrete instances (non-vacuity) and the one class that shows through the proxy. *)
From ZV Require Import Base.Bytes Base.WinnowFacts C26.Desc C26.Tree C26.Msg C26.Std C27.Model C28.Model C26.Model C33.Model.
From ZV Require Import C28.Spec C26.Spec C33.Spec C26.Facts C26.Proofs C26.StdFacts C28.Proofs C28.History C33.Proofs.
From ZV Require Import C26.Examples C28.Examples.

Definition ex_i : inst := new_inst ex_d ex_path.

Lemma ex_registered : registered ex_root ex_path (id_name (in_desc ex_i)) = Some ex_i.
Proof. reflexivity. Qed.

(* a single named structure return: on the wire two values, through the proxy the handler's structure again *)
Example ex_proxy_named :
  let md := mk (B "MNamed") [(B "a0", TU)] (OSingle TN) false false in
  exists n s,
    bh_method ex_bh (id_name ex_d) (B "MNamed") [VU 1] = HOk [VR n s] /\
    proxy_call ex_bh ex_root ex_path ex_d md [VU 1] =
      (POk [VR n s],
       {| ef_replies := [RRet [VU n; VS s]]; ef_log := [LMethod ex_path (B "MNamed") [VU 1]]; ef_signals := [] |}, ex_root).
Proof. cbn zeta. do 2 eexists. split; reflexivity. Qed.

Example ex_proxy_call_general :
  let md := mk (B "MTwo") [(B "a0", TU); (B "a1", TS)] (OTuple [TS; TU]) false false in
  let '(r, ef, root') := proxy_call ex_bh ex_root ex_path (in_desc ex_i) md [VU 5; VS (B "x")] in
  r = px_res (spec_proxy_call ex_bh ex_i md [VU 5; VS (B "x")]) /\ root' = ex_root.
Proof.
  cbn zeta.
  pose proof (proxy_call_agrees ex_bh ex_root ex_path ex_i
                (mk (B "MTwo") [(B "a0", TU); (B "a1", TS)] (OTuple [TS; TU]) false false) [VU 5; VS (B "x")]
                ex_registered eq_refl (std_respects ex_d eq_refl)) as K.
  cbn zeta in K. destruct (proxy_call _ _ _ _ _ _) as [[r ef] root'].
  destruct K as (K1 & _ & _ & K4); [repeat constructor|]. split; assumption.
Qed.

(* signals with a single structure argument, two arguments, none *)
Definition sg_d : idesc :=
  {| id_name := B "org.zv.Sg"; id_methods := []; id_props := [];
     id_signals := [{| sd_name := B "SPair"; sd_args := [(B "a0", TR)]; sd_doc := [] |};
                    {| sd_name := B "STwo"; sd_args := [(B "a0", TU); (B "a1", TS)]; sd_doc := [] |};
                    {| sd_name := B "SNone"; sd_args := []; sd_doc := [] |}] |}.

Example ex_signals :
  (exists m, emit_signal ex_path sg_d (B "SPair") [VR 1 (B "x")] = Some m /\ body_sig (sg_body m) = B "(us)" /\
             proxy_recv ex_path sg_d {| sd_name := B "SPair"; sd_args := [(B "a0", TR)]; sd_doc := [] |} m = Some (POk [VR 1 (B "x")])) /\
  (exists m, emit_signal ex_path sg_d (B "STwo") [VU 1; VS (B "x")] = Some m /\ body_sig (sg_body m) = B "us" /\
             proxy_recv ex_path sg_d {| sd_name := B "STwo"; sd_args := [(B "a0", TU); (B "a1", TS)]; sd_doc := [] |} m
             = Some (POk [VU 1; VS (B "x")])).
Proof. split; eexists; repeat split; reflexivity. Qed.

(* a signal of another path / interface / member is not delivered to the stream *)
Example ex_signal_filter :
  forall m, emit_signal (B "/other") sg_d (B "STwo") [VU 1; VS (B "x")] = Some m ->
            proxy_recv ex_path sg_d {| sd_name := B "STwo"; sd_args := [(B "a0", TU); (B "a1", TS)]; sd_doc := [] |} m = None.
Proof. intros m H. inversion H. reflexivity. Qed.

(* property write then read through the proxy observes the written value; a variant-typed property round-trips *)
Example ex_proxy_props :
  let p := mkp (B "PVar") TV ARW EFalse false false in
  let '(r1, _, st) := proxy_set px_bh px_root px_path px_d p (VV (VS (B "w"))) in
  let '(r2, _, _) := proxy_get px_bh st px_path px_d p in
  r1 = POk [] /\ r2 = POk [VV (VS (B "w"))].
Proof. cbn zeta. split; reflexivity. Qed.

(* the class: the write took effect, the proxy reports an error *)
Lemma proxy_changed_getter_fails_refuted :
  exists (bh : behaviour) (root : node) (path : bytes) (i : inst) (p : pdesc) (v : val),
    root_ok root /\ registered root path (id_name (in_desc i)) = Some i /\
    find_prop (in_desc i) (pd_name p) = Some p /\ writable p = true /\ has_ty v (pd_ty p) = true /\
    setter_error bh i p v = None /\ eff_emits p = ETrue /\ getter_error bh i p v <> None /\
    fst (fst (proxy_set bh root path (in_desc i) p v)) <> px_res (spec_proxy_set bh i p v) /\
    exists i', registered (snd (proxy_set bh root path (in_desc i) p v)) path (id_name (in_desc i)) = Some i' /\
               get_val (pd_name p) (in_vals i') = Some v.
Proof.
  exists px_bh, px_root, px_path, px_i, (mkp (B "PGf") TU ARW ETrue true false), (VU 3).
  split; [apply px_state_ok|]. do 6 (split; [reflexivity|]). split; [discriminate|]. split; [discriminate|].
  eexists. split; reflexivity.
Qed.

(* ---------------------------------------------------------------- one proxy instance with the default cache *)
From ZV Require Import C33.Cache.

(* read (populates the cache) -> write -> read again through the SAME proxy, for the four modes: `true` is served from
   the updated cache, `invalidates` and `false` go back to the server, `const` keeps the first value *)
Definition px_read_write_read (pname : bytes) (t : ty) (e : emits) (v : val) : pres * pres :=
  let p := mkp pname t ARW e false false in
  let '(r0, _, root0, c0) := cached_get px_bh px_root px_path px_d p CNone in
  let '(_, ef, root1) := proxy_set px_bh root0 px_path px_d p v in
  let c1 := fold_left (cache_apply px_d px_path) (ef_signals ef) c0 in
  let '(r2, _, _, _) := cached_get px_bh root1 px_path px_d p c1 in
  (r0, r2).

Example ex_cached_modes :
  snd (px_read_write_read (B "PTrue") TU ETrue (VU 8)) = POk [VU 8] /\
  snd (px_read_write_read (B "PInval") TS EInval (VS (B "x"))) = POk [VS (B "x")] /\
  (exists old, px_read_write_read (B "PConst") TU EConst (VU 2) = (POk [old], POk [old]) /\ old <> VU 2) /\
  uncached px_d = [B "PVar"] /\
  snd (px_read_write_read (B "PVar") TV EFalse (VV (VS (B "w")))) = POk [VV (VS (B "w"))].
Proof. repeat split; try reflexivity. eexists. split; [reflexivity|discriminate]. Qed.

(* the hypotheses of C33_cached_read_after_write are satisfiable (non-vacuity) *)
Example ex_cached_theorem :
  let p := mkp (B "PTrue") TU ARW ETrue false false in
  let '(r1, ef, root') := proxy_set px_bh px_root px_path (in_desc px_i) p (VU 8) in
  r1 = POk [] /\
  fst (fst (fst (cached_get px_bh root' px_path (in_desc px_i) p
                   (fold_left (cache_apply (in_desc px_i) px_path) (ef_signals ef) (COk [(B "PTrue", Some (VU 1))]))))) = POk [VU 8].
Proof.
  apply (cached_read_after_write px_bh px_root px_path px_i (mkp (B "PTrue") TU ARW ETrue false false) (VU 8)
           [(B "PTrue", Some (VU 1))] px_state_ok); try reflexivity; try discriminate.
  intros n x Hn. vm_compute in Hn. cbn [clook]. destruct (lbeq (B "PTrue") n) eqn:E; [|discriminate].
  apply lbeq_true in E. subst n. discriminate.
Qed.
