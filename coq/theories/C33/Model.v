(* C33/Model.v — what #[zbus::proxy] generates for a description (zbus_macros/src/proxy.rs: gen_proxy_method_call,
   gen_proxy_property, gen_proxy_signal) on top of zbus::Proxy::{call, get_property, set_property, receive_signal}
   (zbus/src/proxy/mod.rs) with the property cache switched off; the blocking proxy wraps the same calls in
   block_on.  The peer it talks to is the dispatch model of C26.  No proofs here. *)
From ZV Require Import Base.Bytes C26.Desc C26.Tree C26.Msg C27.Model C28.Model C26.Model.

Section Proxy.
  Variable bh : behaviour.

  Inductive pres :=
  | POk (vals : list val)                 (* the Rust value(s) the proxy function returns *)
  | PErr (e : ename) (msg : option bytes) (* Error::MethodError from an ERROR reply *)
  | PBad                                  (* the reply body does not deserialize into the declared type *)
  | PNone.                                (* no reply: the call never completes *)

  (* the declared return type R of `fn m(..) -> zbus::Result<R>` *)
  Definition sg_of_ret (o : oshape) : sg :=
    match o with OUnit => SgUnit | OSingle t => sg_of_ty t | OTuple ts => sg_of_tys ts end.

  (* the deserialized reply as the driver prints it: a single structure comes back as one value *)
  Definition repack (o : oshape) (wire : list val) : list val :=
    match o, wire with
    | OSingle _, [VU n; VS s] => [VR n s]
    | _, _ => wire
    end.

  Definition mk_call (path iface member : bytes) (args : list val) : call :=
    {| c_path := Some path; c_iface := Some iface; c_member := Some member; c_noreply := false; c_args := args |}.

  (* `self.0.call(name, &DynamicTuple((a0, .., an)))`, then `reply.body().deserialize::<R>()` *)
  Definition proxy_call (root : node) (path : bytes) (d : idesc) (md : mdesc) (args : list val)
    : pres * effects * node :=
    let '(ef, root') := dispatch bh root (mk_call path (id_name d) (md_name md) args) in
    (match ef_replies ef with
     | [RRet vals] => if dyn_sig_ok (sg_of_ret (md_out md)) (sg_of_vals vals) then POk (repack (md_out md) vals) else PBad
     | [RErr e m] => PErr e m
     | _ => PNone
     end, ef, root').

  (* get_property::<T>: Properties.Get, then T::try_from(OwnedValue) *)
  Definition proxy_get (root : node) (path : bytes) (d : idesc) (p : pdesc) : pres * effects * node :=
    let '(ef, root') := dispatch bh root (mk_call path props_name (B "Get") [VS (id_name d); VS (pd_name p)]) in
    (match ef_replies ef with
     | [RRet [VV x]] => match convert (pd_ty p) x with Some v => POk [v] | None => PBad end
     | [RRet _] => PBad
     | [RErr e m] => PErr e m
     | _ => PNone
     end, ef, root').

  (* set_property: Properties.Set with Value::from(v) *)
  Definition proxy_set (root : node) (path : bytes) (d : idesc) (p : pdesc) (v : val) : pres * effects * node :=
    let '(ef, root') := dispatch bh root (mk_call path props_name (B "Set") [VS (id_name d); VS (pd_name p); VV (content v)]) in
    (match ef_replies ef with
     | [RRet []] => POk []
     | [RRet _] => PBad
     | [RErr e m] => PErr e m
     | _ => PNone
     end, ef, root').

  (* a signal stream item: the match rule (path, interface, member) and `args()` =
     `body.deserialize::<(T0, .., Tn)>()` *)
  Definition proxy_recv (path : bytes) (d : idesc) (s : sdesc) (m : sigmsg) : option pres :=
    if lbeq (sg_path m) path && lbeq (sg_iface m) (id_name d) && lbeq (sg_member m) (sd_name s) then
      match map snd (sd_args s) with
      | [] => Some (POk [])
      | ts => if dyn_sig_ok (sg_of_args ts) (sg_of_vals (sg_body m)) then Some (POk (unpack ts (sg_body m))) else Some PBad
      end
    else None.
End Proxy.
