(* C33/Proofs.v — generated proxies and interfaces agree on the wire: theorems over ALL interface descriptions,
   argument values and handler behaviours.  The content is that the two macros' conventions about body
   signatures (tuples, single structures, one-element tuples, unit) compose to the identity. *)
From ZV Require Import Base.Bytes Base.WinnowFacts C26.Desc C26.Tree C26.Msg C27.Model C28.Model C26.Model C33.Model.
From ZV Require Import C28.Spec C26.Spec C33.Spec C26.Facts C26.Proofs C28.Proofs.
From ZV Require C10.Model.

Section P.
  Variable bh : behaviour.

  (* ================================================================ return values *)
  (* a typed result, sent by the interface and decoded by the proxy at the declared return type, is the result *)
  Lemma reply_roundtrip o outs :
    typed outs (out_types o) ->
    dyn_sig_ok (sg_of_ret o) (sg_of_vals (wire_out o outs)) = true /\ repack o (wire_out o outs) = outs.
  Proof.
    intro Ht. destruct o as [|t|ts]; cbn [out_types] in Ht.
    - inversion Ht; subst. split; reflexivity.
    - inversion Ht as [|v t' r r' Hv Hr]; subst. inversion Hr; subst. cbn [sg_of_ret].
      destruct (struct_fields t) as [fs|] eqn:St.
      + destruct (has_ty_struct v t Hv) as (n & s & ->); [congruence|].
        cbn [wire_out repack]. split; [|reflexivity].
        destruct t; cbn in St; try discriminate; reflexivity.
      + pose proof (has_ty_nonstruct _ _ Hv St) as Hf.
        assert (wire_out (OSingle t) [v] = [v]) as -> by (destruct v; try reflexivity; discriminate).
        split.
        * unfold dyn_sig_ok. rewrite (sg_single v t (has_ty_sig _ _ Hv)). now rewrite sg_eqb_refl.
        * destruct v; try reflexivity.
    - cbn [sg_of_ret]. destruct outs as [|v [|v2 vs]].
      + inversion Ht; subst. split; reflexivity.
      + inversion Ht as [|v' t r r' Hv Hr]; subst. inversion Hr; subst.
        assert (wire_out (OTuple [t]) [v] = [v]) as -> by (destruct v; reflexivity).
        split; [|destruct v; reflexivity].
        (* a one-element tuple: the leniency for single-field structures *)
        unfold dyn_sig_ok, sg_of_tys. cbn [map]. apply orb_true_iff. right.
        apply has_ty_sig in Hv. rewrite <- Hv. unfold sg_of_vals.
        destruct (vfields v) as [fs|] eqn:Vf.
        * apply vfields_struct in Vf as (n & s & -> & ->). reflexivity.
        * cbn [sg_text]. apply lbeq_refl.
      + assert (wire_out (OTuple ts) (v :: v2 :: vs) = v :: v2 :: vs) as -> by (destruct v; reflexivity).
        split; [|destruct v; reflexivity].
        pose proof (typed_sigs _ _ Ht) as Hs. destruct ts as [|t [|t2 tr]]; try (inversion Ht; fail).
        { inversion Ht as [|? ? ? ? ? Hr]; subst. inversion Hr. }
        unfold dyn_sig_ok, sg_of_tys, sg_of_vals. rewrite Hs. now rewrite sg_eqb_refl.
  Qed.

  (* ================================================================ method calls *)
  Theorem proxy_call_agrees root path i md args :
    registered root path (id_name (in_desc i)) = Some i ->
    find_method (in_desc i) (md_name md) = Some md ->
    bh_respects bh (in_desc i) ->
    typed args (in_tys md) ->
    let x := spec_proxy_call bh i md args in
    let '(r, ef, root') := proxy_call bh root path (in_desc i) md args in
    r = px_res x /\ ef_log ef = px_log x /\ ef_signals ef = [] /\ root' = root.
  Proof.
    intros Hr Fm Hres Hta. cbn zeta. unfold proxy_call, mk_call, dispatch.
    cbn [c_path c_iface c_member]. unfold registered in Hr.
    destruct (get_child root (segs_of path)) as [n|] eqn:Hg; [|discriminate]. rewrite Hr.
    unfold user_call, gen_call. rewrite Fm.
    pose proof (find_method_name _ _ _ Fm) as [_ Hmin]. destruct (Hres md Hmin) as [Hfall Htyped].
    assert (Tm : types_match md args = true).
    { unfold types_match. apply lbeq_list_eq. pose proof (typed_sigs _ _ Hta) as Hs. unfold in_tys in Hs.
      now rewrite map_map in Hs. }
    destruct (md_mut md) eqn:Mm; [rewrite (gen_call_mut_same _ _ _ Fm Mm)|].
    all: unfold run_method; cbn [c_args c_noreply];
      rewrite (types_match_args_ok _ _ Tm), (types_match_unpack _ _ Tm); unfold iname, spec_proxy_call;
      destruct (bh_method bh (id_name (in_desc i)) (md_name md) args) as [outs|e m] eqn:Eb;
      cbn [finish c_noreply ef_replies ef_log ef_signals px_res px_log];
      [destruct (reply_roundtrip (md_out md) outs (Htyped _ _ Eb)) as [-> ->]; repeat split
      |destruct (md_fall md) eqn:Fl; [repeat split|exfalso; exact (Hfall eq_refl _ _ _ Eb)]].
  Qed.

  (* ================================================================ properties *)
  Lemma convert_content t v : has_ty v t = true -> convert t (content v) = Some v.
  Proof.
    intro H. unfold convert. destruct t; try (rewrite (content_id v _ H eq_refl), H; reflexivity).
    apply has_ty_sig in H. destruct v; cbn in H; try discriminate. reflexivity.
  Qed.

  Theorem proxy_get_agrees root path i p :
    root_ok root ->
    registered root path (id_name (in_desc i)) = Some i ->
    find_prop (in_desc i) (pd_name p) = Some p -> readable p = true ->
    let x := spec_proxy_get bh i p in
    let '(r, ef, root') := proxy_get bh root path (in_desc i) p in
    r = px_res x /\ ef_log ef = px_log x /\ ef_signals ef = [] /\ root' = root.
  Proof.
    intros Hok Hr Fp Rp. cbn zeta. unfold proxy_get, mk_call.
    change {| c_path := Some path; c_iface := Some props_name; c_member := Some (B "Get"); c_noreply := false;
              c_args := [VS (id_name (in_desc i)); VS (pd_name p)] |}
      with (props_call path false (B "Get") [VS (id_name (in_desc i)); VS (pd_name p)]).
    rewrite (route_get _ _ _ _ _ _ Hok). unfold routed.
    destruct (registered_valid _ _ _ _ Hok Hr) as (Hv & (_ & _ & Hnd) & Hi & _).
    pose proof Hr as Hr'. unfold registered in Hr'.
    destruct (get_child root (segs_of path)) as [n|] eqn:Hg; [|discriminate]. rewrite Hv.
    unfold of_presult, props_get. rewrite lookup_registered, Hr.
    unfold gen_get. rewrite (getter_of_unique _ _ Hnd), Fp, Rp.
    pose proof (find_prop_name _ _ _ Fp) as [_ Hpin]. destruct (Hi p Hpin) as (v & Hgv & Hty).
    unfold run_getter, spec_proxy_get, getter_error, iname. rewrite Hgv.
    cbn [pr_log pr_reply pr_signals pr_root finish c_noreply props_call ef_replies ef_log ef_signals px_res px_log].
    destruct (if pd_gfall p then bh_gfail bh (id_name (in_desc i)) (pd_name p) v else None) as [[e m]|].
    - repeat split.
    - rewrite (convert_content _ _ Hty). repeat split.
  Qed.

  (* the class of C28 that shows through the proxy: the getter called for the change signal fails *)
  Theorem proxy_set_agrees_partial root path i p v :
    root_ok root ->
    registered root path (id_name (in_desc i)) = Some i ->
    find_prop (in_desc i) (pd_name p) = Some p -> writable p = true -> has_ty v (pd_ty p) = true ->
    ~ (setter_error bh i p v = None /\ eff_emits p = ETrue /\ getter_error bh i p v <> None) ->
    let x := spec_proxy_set bh i p v in
    let '(r, ef, root') := proxy_set bh root path (in_desc i) p v in
    r = px_res x /\ ef_log ef = px_log x /\
    (forall vals, px_vals x = Some vals ->
                  root' = (if match px_res x with POk _ => true | _ => false end
                           then upd_at root (segs_of path) (id_name (in_desc i)) vals else root)).
  Proof.
    intros Hok Hr Fp Wp Hty Hcl. cbn zeta. unfold proxy_set, mk_call.
    change {| c_path := Some path; c_iface := Some props_name; c_member := Some (B "Set"); c_noreply := false;
              c_args := [VS (id_name (in_desc i)); VS (pd_name p); VV (content v)] |}
      with (props_call path false (B "Set") [VS (id_name (in_desc i)); VS (pd_name p); VV (content v)]).
    rewrite (route_set _ _ _ _ _ _ _ Hok). unfold routed.
    destruct (registered_valid _ _ _ _ Hok Hr) as (Hv & (_ & _ & Hnd) & Hi & _).
    pose proof Hr as Hr'. unfold registered in Hr'.
    destruct (get_child root (segs_of path)) as [n|] eqn:Hg; [|discriminate]. rewrite Hv.
    unfold of_presult, props_set. rewrite lookup_registered, Hr.
    unfold gen_set. rewrite (setter_of_unique _ _ Hnd), (gen_set_mut_unique _ _ Hnd), Fp, Wp. cbn [andb].
    assert (Hrun : forall R : pdesc -> presult,
               match (if pd_smut p then DRequiresMut else DAsync p) with
               | DNotFound => {| pr_log := []; pr_reply := RErr EUnknownProperty None; pr_signals := []; pr_root := root |}
               | DRequiresMut => match (if pd_smut p then Some p else None) with
                                 | Some q => R q
                                 | None => {| pr_log := []; pr_reply := RErr EUnknownProperty None; pr_signals := []; pr_root := root |}
                                 end
               | DAsync q => R q
               end = R p).
    { intro R. destruct (pd_smut p); reflexivity. }
    rewrite Hrun. clear Hrun.
    unfold do_set. rewrite (convert_content _ _ Hty). unfold spec_proxy_set, setter_error, getter_error, iname in *.
    destruct (if pd_sfall p then bh_sfail bh (id_name (in_desc i)) (pd_name p) v else None) as [[e m]|] eqn:Es.
    { cbn. repeat split; try (intros vals H; inversion H; reflexivity). }
    unfold eff_emits in *. destruct (readable p) eqn:Rp.
    2:{ cbn. repeat split; try (intros vals H; inversion H; reflexivity). }
    destruct (pd_emits p) eqn:Em; try (cbn; repeat split; try (intros vals H; inversion H; reflexivity); fail).
    unfold run_getter. cbn [in_vals in_desc in_tag]. rewrite get_set_same. unfold iname. cbn [in_desc].
    destruct (if pd_gfall p then bh_gfail bh (id_name (in_desc i)) (pd_name p) v else None) as [[e m]|] eqn:Eg.
    { exfalso. apply Hcl. repeat split; congruence. }
    cbn. repeat split; try (intros vals H; inversion H; reflexivity).
  Qed.

  (* ================================================================ signals *)
  Theorem signal_agrees path d s args :
    find_signal d (sd_name s) = Some s -> typed args (map snd (sd_args s)) ->
    exists m, emit_signal path d (sd_name s) args = Some m /\
              proxy_recv path d s m = Some (spec_proxy_recv args).
  Proof.
    intros Fs Hta. unfold emit_signal. rewrite Fs. eexists. split; [reflexivity|].
    unfold proxy_recv. cbn [sg_path sg_iface sg_member sg_body]. rewrite !lbeq_refl. cbn [andb].
    unfold spec_proxy_recv.
    pose proof (typed_sigs _ _ Hta) as Hs.
    destruct (map snd (sd_args s)) as [|t [|t2 ts]] eqn:E.
    - inversion Hta. reflexivity.
    - destruct args as [|v [|? ?]]; try (inversion Hta; fail). 2:{ inversion Hta as [|? ? ? ? ? Hr]; inversion Hr. }
      inversion Hta as [|? ? ? ? Hv Hr]; subst. cbn [sg_of_args].
      unfold dyn_sig_ok. rewrite (sg_single v t (has_ty_sig _ _ Hv)), sg_eqb_refl. cbn [orb].
      destruct v; reflexivity.
    - destruct args as [|v [|v2 vs]]; try (inversion Hta; fail). { inversion Hta as [|? ? ? ? ? Hr]; inversion Hr. }
      unfold dyn_sig_ok, sg_of_args, sg_of_tys, sg_of_vals. rewrite Hs, sg_eqb_refl. cbn [orb].
      destruct v; reflexivity.
  Qed.
End P.
