(* C33/Cache.v — property reads through ONE proxy instance with the default property cache: after a
   successful write (through any proxy: the server's signals are the same) a read through a proxy whose
   cache is already populated returns the written value, for the modes true / invalidates / false.
   (`const` may legitimately keep the first value.)  Over all descriptions, states and cache contents. *)
From ZV Require Import Base.Bytes Base.WinnowFacts C26.Desc C26.Tree C26.Msg C27.Model C28.Model C26.Model C33.Model.
From ZV Require Import C28.Spec C26.Spec C33.Spec C26.Facts C26.Proofs C28.Proofs C28.History C33.Proofs.
From ZV Require C10.Model.

(* ---------------------------------------------------------------- the tree after a setter ran *)
Lemma upd_ifs_find iname vals l i :
  find (fun j => lbeq (id_name (in_desc j)) iname) l = Some i ->
  find (fun j => lbeq (id_name (in_desc j)) iname) (upd_ifs iname vals l) =
  Some {| in_desc := in_desc i; in_tag := in_tag i; in_vals := vals |}.
Proof.
  induction l as [|j l IH]; cbn [find upd_ifs map]; [discriminate|].
  destruct (lbeq (id_name (in_desc j)) iname) eqn:E.
  - intro H. inversion H; subst. cbn [in_desc]. now rewrite E.
  - intro H. rewrite E. apply IH. exact H.
Qed.

Lemma registered_upd root path iname vals i :
  registered root path iname = Some i ->
  registered (upd_at root (segs_of path) iname vals) path iname =
  Some {| in_desc := in_desc i; in_tag := in_tag i; in_vals := vals |}.
Proof.
  unfold registered. generalize (segs_of path) as segs. intro segs. revert root.
  induction segs as [|s r IH]; intro root; cbn [get_child upd_at].
  - unfold find_inst. cbn [node_ifs]. apply upd_ifs_find.
  - destruct (find_kid s (node_kids root)) as [c|] eqn:Ek; [|discriminate].
    cbn [get_child node_kids]. rewrite find_kid_set_same. apply IH.
Qed.

(* ---------------------------------------------------------------- the cache as an association list *)
Lemma clook_cset_same n v c : clook n (cset n v c) = Some v.
Proof.
  induction c as [|[k v0] r IH]; cbn; [now rewrite lbeq_refl|].
  destruct (lbeq k n) eqn:E; cbn; rewrite E; [reflexivity|exact IH].
Qed.

(* no cached value for an uncached name: true of every cache the model builds *)
Definition cache_wf (d : idesc) (vals : list (bytes * option val)) : Prop :=
  forall n x, is_uncached d n = true -> clook n vals <> Some (Some x).

Lemma uncached_iff d p :
  nodupb (map pd_name (id_props d)) = true -> In p (id_props d) ->
  is_uncached d (pd_name p) = (readable p && match pd_emits p with EFalse => true | _ => false end).
Proof.
  intros Hnd Hin. unfold is_uncached, uncached.
  destruct (readable p && match pd_emits p with EFalse => true | _ => false end) eqn:E.
  - apply existsb_exists. exists (pd_name p). split; [|apply lbeq_refl].
    apply in_map. apply filter_In. auto.
  - destruct (existsb _ _) eqn:X; [|reflexivity]. exfalso.
    apply existsb_exists in X as (n & Hn & Hl). apply lbeq_true in Hl. subst n.
    apply in_map_iff in Hn as (q & Hq & Hqin). apply filter_In in Hqin as [Hqin Hqf].
    assert (q = p) as -> by (eapply (nodup_names_distinct pd_name); eauto). congruence.
Qed.

Lemma clook_cset_other n m v c : lbeq n m = false -> clook m (cset n v c) = clook m c.
Proof.
  intro Hn. induction c as [|[k v0] r IH]; cbn.
  - now rewrite Hn.
  - destruct (lbeq k n) eqn:E; cbn.
    + apply lbeq_true in E. subst k. now rewrite Hn.
    + destruct (lbeq k m); [reflexivity|exact IH].
Qed.

Lemma cache_wf_cset d n v c : cache_wf d c -> is_uncached d n = false -> cache_wf d (cset n v c).
Proof.
  intros Hw Hn m x Hm. destruct (lbeq n m) eqn:E.
  - apply lbeq_true in E. subst m. congruence.
  - rewrite (clook_cset_other _ _ _ _ E). now apply Hw.
Qed.

Lemma cache_wf_update d changed inval c : cache_wf d c -> cache_wf d (cache_update d changed inval c).
Proof.
  intro Hw. unfold cache_update.
  assert (H1 : forall l c0, cache_wf d c0 ->
            cache_wf d (fold_left (fun acc n => if is_uncached d n then acc
                                                 else match clook n acc with Some _ => cset n None acc | None => acc end) l c0)).
  { induction l as [|n l IH]; intros c0 H0; cbn [fold_left]; [exact H0|]. apply IH.
    destruct (is_uncached d n) eqn:E; [exact H0|]. destruct (clook n c0); [now apply cache_wf_cset|exact H0]. }
  assert (H2 : forall l c0, cache_wf d c0 ->
            cache_wf d (fold_left (fun acc e => if is_uncached d (fst e) then acc else cset (fst e) (Some (snd e)) acc) l c0)).
  { induction l as [|e l IH]; intros c0 H0; cbn [fold_left]; [exact H0|]. apply IH.
    destruct (is_uncached d (fst e)) eqn:E; [exact H0|now apply cache_wf_cset]. }
  apply H2, H1, Hw.
Qed.

Definition pcache_wf (d : idesc) (c : pcache) : Prop := match c with COk vals => cache_wf d vals | _ => True end.

(* the invariant: what the cache task does to a cache keeps it free of uncached names *)
Lemma pcache_wf_apply d path c m : pcache_wf d c -> pcache_wf d (cache_apply d path c m).
Proof.
  destruct c as [| |vals]; cbn [cache_apply pcache_wf]; auto. intro Hw.
  destruct (_ && _); [|exact Hw]. destruct (sg_body m) as [|[] [|[] [|[] [|? ?]]]]; try exact Hw.
  destruct (lbeq s (id_name d)); [|exact Hw]. cbn [pcache_wf]. now apply cache_wf_update.
Qed.

Lemma clook_in n (l : list (bytes * option val)) v : clook n l = Some v -> In (n, v) l.
Proof.
  induction l as [|[k w] r IH]; cbn; [discriminate|]. destruct (lbeq k n) eqn:E.
  - intro H. inversion H; subst. apply lbeq_true in E. subst. now left.
  - intro H. right. auto.
Qed.

Lemma cache_wf_filtered d (m : list (bytes * val)) :
  cache_wf d (map (fun e => (fst e, Some (snd e))) (filter (fun e => negb (is_uncached d (fst e))) m)).
Proof.
  intros n x Hn Hl. apply clook_in in Hl. apply in_map_iff in Hl as ([k w] & E & Hin). inversion E; subst.
  apply filter_In in Hin as [_ Hf]. cbn in Hf. rewrite Hn in Hf. discriminate.
Qed.

Section P.
  Variable bh : behaviour.

  (* what a successful typed write does: reply, signals and state as C28's specification says *)
  Lemma write_effects root path i p v :
    state_ok root ->
    registered root path (id_name (in_desc i)) = Some i ->
    find_prop (in_desc i) (pd_name p) = Some p -> writable p = true -> tv p = false ->
    has_ty v (pd_ty p) = true -> setter_error bh i p v = None ->
    (eff_emits p = ETrue -> getter_error bh i p v = None) ->
    let '(r, ef, root') := proxy_set bh root path (in_desc i) p v in
    r = POk [] /\ ef_signals ef = spec_changed path i p v /\
    root' = upd_at root (segs_of path) (id_name (in_desc i)) (set_val (pd_name p) v (in_vals i)).
  Proof.
    intros [Hok _] Hr Fp Wp Htv Hty Hs Hg. unfold proxy_set, mk_call.
    unfold tv in Htv. rewrite (content_id _ _ Hty Htv).
    change {| c_path := Some path; c_iface := Some props_name; c_member := Some (B "Set"); c_noreply := false;
              c_args := [VS (id_name (in_desc i)); VS (pd_name p); VV v] |}
      with (props_call path false (B "Set") [VS (id_name (in_desc i)); VS (pd_name p); VV v]).
    pose proof (set_partial bh root path false (id_name (in_desc i)) (pd_name p) v Hok) as M.
    destruct M as (M1 & _ & M3 & M4).
    { intros i0 p0 Hr0 Fp0 _ [K|(K1 & K2 & K3 & K4)]; rewrite Hr in Hr0; inversion Hr0; subst i0;
        rewrite Fp in Fp0; inversion Fp0; subst p0.
      - unfold tv in K. congruence.
      - apply K4. now apply Hg. }
    unfold spec_set in *. rewrite Hr, Fp, Wp, Hty in *. cbn [andb] in *. rewrite Hs in *.
    cbn [x_reply x_signals x_root flagged] in *.
    destruct (dispatch bh root _) as [ef root']. cbn [fst snd] in *. rewrite M1. auto.
  Qed.

  (* a read that goes to the server (no usable cache entry) on the state after the write *)
  Lemma fresh_read_after_write root path i p v :
    state_ok root ->
    registered root path (id_name (in_desc i)) = Some i ->
    find_prop (in_desc i) (pd_name p) = Some p -> readable p = true ->
    has_ty v (pd_ty p) = true -> getter_error bh i p v = None ->
    let root' := upd_at root (segs_of path) (id_name (in_desc i)) (set_val (pd_name p) v (in_vals i)) in
    fst (fst (proxy_get bh root' path (in_desc i) p)) = POk [v].
  Proof.
    intros Hs Hr Fp Rp Hty Hg. cbn zeta.
    set (i' := {| in_desc := in_desc i; in_tag := in_tag i; in_vals := set_val (pd_name p) v (in_vals i) |}).
    pose proof (find_prop_name _ _ _ Fp) as [_ Hpin].
    assert (Hs' : state_ok (upd_at root (segs_of path) (iname i) (set_val (pd_name p) v (in_vals i))))
      by (apply state_ok_upd; auto).
    unfold iname in Hs'.
    pose proof (registered_upd root path _ (set_val (pd_name p) v (in_vals i)) i Hr) as Hr'. fold i' in Hr'.
    pose proof (proxy_get_agrees bh _ path i' p (proj1 Hs') Hr' Fp Rp) as K. cbn zeta in K.
    destruct (proxy_get bh _ path (in_desc i') p) as [[r ef] root2] eqn:E. cbn [in_desc i'] in E. rewrite E.
    destruct K as (K & _). cbn [fst]. rewrite K. unfold spec_proxy_get. cbn [in_vals i'].
    rewrite get_set_same. unfold getter_error in *. cbn [in_desc i']. now rewrite Hg.
  Qed.

  Theorem cached_read_after_write root path i p v vals :
    state_ok root ->
    registered root path (id_name (in_desc i)) = Some i ->
    find_prop (in_desc i) (pd_name p) = Some p -> readable p = true -> writable p = true -> tv p = false ->
    has_ty v (pd_ty p) = true -> setter_error bh i p v = None -> getter_error bh i p v = None ->
    pd_emits p <> EConst ->
    cache_wf (in_desc i) vals ->
    let '(r1, ef, root') := proxy_set bh root path (in_desc i) p v in
    let c' := fold_left (cache_apply (in_desc i) path) (ef_signals ef) (COk vals) in
    r1 = POk [] /\ fst (fst (fst (cached_get bh root' path (in_desc i) p c'))) = POk [v].
  Proof.
    intros Hs Hr Fp Rp Wp Htv Hty Hse Hge Hmode Hwf.
    pose proof (write_effects root path i p v Hs Hr Fp Wp Htv Hty Hse (fun _ => Hge)) as W.
    destruct (proxy_set bh root path (in_desc i) p v) as [[r1 ef] root'] eqn:E.
    destruct W as (-> & Hsig & ->). split; [reflexivity|]. rewrite Hsig.
    pose proof (fresh_read_after_write root path i p v Hs Hr Fp Rp Hty Hge) as Fresh. cbn zeta in Fresh.
    destruct (registered_valid _ _ _ _ (proj1 Hs) Hr) as (_ & (_ & _ & Hnd) & _ & _).
    pose proof (find_prop_name _ _ _ Fp) as [_ Hpin].
    pose proof (uncached_iff (in_desc i) p Hnd Hpin) as Hun. rewrite Rp in Hun. cbn [andb] in Hun.
    unfold spec_changed. rewrite Rp.
    (* the fallback: no usable entry, so the read goes to the server *)
    assert (Fall : forall c, (forall x, clook (pd_name p) c <> Some (Some x)) ->
              fst (fst (fst (cached_get bh
                   (upd_at root (segs_of path) (id_name (in_desc i)) (set_val (pd_name p) v (in_vals i)))
                   path (in_desc i) p (COk c)))) = POk [v]).
    { intros c Hc. unfold cached_get.
      destruct (clook (pd_name p) c) as [[x|]|] eqn:El; [exfalso; eapply Hc; eauto| |];
        destruct (proxy_get bh _ path (in_desc i) p) as [[r ef2] root2]; cbn [fst] in *; exact Fresh. }
    destruct (pd_emits p) eqn:Em; try congruence.
    - (* true: the signal carries the value into the cache *)
      cbn [fold_left cache_apply sg_path sg_iface sg_member sg_body]. rewrite !lbeq_refl. cbn [andb].
      unfold cache_update. cbn [fold_left fst snd]. rewrite Hun.
      unfold cached_get. rewrite clook_cset_same.
      unfold tv in Htv. rewrite (convert_typed _ _ Htv), Hty. reflexivity.
    - (* invalidates: the entry, if any, is dropped *)
      cbn [fold_left cache_apply sg_path sg_iface sg_member sg_body]. rewrite !lbeq_refl. cbn [andb].
      unfold cache_update. cbn [fold_left]. rewrite Hun. apply Fall. intros x.
      destruct (clook (pd_name p) vals) eqn:El; [rewrite clook_cset_same; discriminate|congruence].
    - (* false: never cached *)
      cbn [fold_left]. apply Fall. intros x. apply Hwf. exact Hun.
  Qed.

  (* ... and so does its initialisation: the hypothesis cache_wf of the theorem above holds of every cache
     the model ever builds *)
  Lemma pcache_wf_init root path d : pcache_wf d (fst (fst (cache_init bh root path d))).
  Proof.
    unfold cache_init. destruct (dispatch bh root _) as [ef root']. cbn [fst].
    repeat match goal with |- context [match ?x with _ => _ end] => destruct x end;
      cbn [pcache_wf]; auto using cache_wf_filtered.
  Qed.
End P.
