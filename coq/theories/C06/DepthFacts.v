(* C06/DepthFacts.v — the recursion depth of the parser grows with the input: no constant bounds it. *)
From ZV Require Import Base.Bytes Base.Res C06.Model C06.Classes C06.SpecFacts C06.ParseFacts.
From Coq Require Import Lia.

Lemma depth_open : forall f gv r,
  (N.succ (snd (depth_many f gv r)) <= snd (depth_ps (S f) gv ("("%byte :: r)))%N.
Proof.
  intros f gv r.
  assert (E : depth_ps (S f) gv ("("%byte :: r) =
     let d_st := match depth_many f gv r with (None, d1) => (None, dS d1) | (Some r1, d1) => (lit1 ")" r1, dS d1) end in
     match d_st with
     | (Some r', d) => (Some r', dmax (dmax 1 1) d)
     | (None, ds) => (None, dmax (dmax (dmax 1 1) ds) 1)
     end).
  { destruct gv; reflexivity. }
  rewrite E. clear E. destruct (depth_many f gv r) as [[r1|] d1]; cbn [snd].
  - destruct (lit1 ")" r1); cbn [snd]; unfold dmax, dS; lia.
  - unfold dmax, dS; lia.
Qed.

Lemma depth_many_ge : forall f gv r, (snd (depth_ps f gv r) <= snd (depth_many (S f) gv r))%N.
Proof.
  intros f gv r. cbn [depth_many]. destruct (depth_ps f gv r) as [[r1|] d]; cbn [snd]; [|lia].
  destruct (depth_loop f gv r1) as [o d']. cbn [snd]. unfold dmax. lia.
Qed.

Lemma deep_parens : forall n f gv rest, 2 * n <= f ->
  (N.of_nat n <= snd (depth_ps f gv (repeat "("%byte n ++ rest)))%N.
Proof.
  induction n as [|n IH]; intros f gv rest Hf; [lia|].
  destruct f as [|[|f]]; try lia. cbn [repeat app].
  pose proof (depth_open (S f) gv (repeat "("%byte n ++ rest)) as H1.
  pose proof (depth_many_ge f gv (repeat "("%byte n ++ rest)) as H2.
  pose proof (IH f gv rest ltac:(lia)) as H3. lia.
Qed.

(* n opening parentheses make the parser nest at least n activations of parse_signature *)
Theorem stack_unbounded : forall gv n, (N.of_nat n <= stack_used gv (repeat "("%byte n))%N.
Proof.
  intros gv n. destruct n as [|n]; [cbn; lia|].
  remember (repeat "("%byte (S n)) as s eqn:Es.
  unfold stack_used. destruct s as [|c s']; [discriminate Es|]. rewrite Es.
  assert (Hf : parse_fuel (repeat "("%byte (S n)) = S (2 * S n + 1)).
  { unfold parse_fuel. rewrite repeat_length. lia. }
  rewrite Hf.
  pose proof (depth_many_ge (2 * S n + 1) gv (repeat "("%byte (S n))) as H1.
  pose proof (deep_parens (S n) (2 * S n + 1) gv [] ltac:(lia)) as H2. rewrite app_nil_r in H2. lia.
Qed.

Definition C06_bounded_stack_statement : Prop :=
  exists bound : N, forall gv s, (stack_used gv s <= bound)%N.

Theorem bounded_stack_refuted : ~ C06_bounded_stack_statement.
Proof.
  intros (bound & H). pose proof (H false (repeat "("%byte (S (N.to_nat bound)))) as H1.
  pose proof (stack_unbounded false (S (N.to_nat bound))) as H2. lia.
Qed.

(* a 5001-byte string already exceeds the threshold of the deep_recursion class *)
Theorem deep_recursion_witness : exists s, N.of_nat (length s) = 5001%N /\ Known_deep false s = true.
Proof.
  exists (repeat "("%byte (N.to_nat 5001)). split; [rewrite repeat_length; apply N2Nat.id|].
  unfold Known_deep. apply N.ltb_lt. pose proof (stack_unbounded false (N.to_nat 5001)) as H.
  rewrite N2Nat.id in H. unfold deep_threshold. lia.
Qed.

(* ---------------------------------------------------------------- … but it is at most linear in the input:
   a string within the 255-byte limit of the D-Bus grammar needs at most 256 activations *)
Definition dbound (inp : bytes) (res : option bytes * N) (strict : bool) : Prop :=
  (snd res <= N.of_nat (length inp) + 1)%N /\
  (forall r, fst res = Some r -> if strict then length r < length inp else length r <= length inp).

Lemma lit1_len : forall c inp r, lit1 c inp = Some r -> length inp = S (length r).
Proof. intros c inp r H. apply lit1_some in H. subst. reflexivity. Qed.

Ltac use_ih IHp IHm IHl :=
  repeat match goal with
  | H : depth_ps _ _ ?x = (?o, ?d) |- _ =>
      let B := fresh "B" in pose proof (IHp x) as B; rewrite H in B; destruct B as [? ?]; cbn [fst snd] in *; clear H
  | H : depth_many _ _ ?x = (?o, ?d) |- _ =>
      let B := fresh "B" in pose proof (IHm x) as B; rewrite H in B; destruct B as [? ?]; cbn [fst snd] in *; clear H
  | H : depth_loop _ _ ?x = (?o, ?d) |- _ =>
      let B := fresh "B" in pose proof (IHl x) as B; rewrite H in B; destruct B as [? ?]; cbn [fst snd] in *; clear H
  end.

Lemma depth_bound_all : forall f gv,
  (forall inp, dbound inp (depth_ps f gv inp) true) /\
  (forall inp, dbound inp (depth_many f gv inp) true) /\
  (forall inp, dbound inp (depth_loop f gv inp) false).
Proof.
  induction f as [|f IH]; intros gv.
  - repeat split; cbn; intros; try lia; discriminate.
  - destruct (IH gv) as (IHp & IHm & IHl). split; [|split].
    + intros inp. cbn [depth_ps].
      destruct (simple_type inp) as [t r| |x] eqn:Est.
      { unfold simple_type in Est. destruct inp as [|c r']; [discriminate|]. destruct (simple_code c); [|discriminate].
        inversion Est; subst. split; cbn; [lia|]. intros r0 E; inversion E; subst; lia. }
      all: clear Est.
      all: repeat match goal with
           | |- context [lit1 ?c ?x] => let E := fresh "L" in destruct (lit1 c x) eqn:E; [apply lit1_len in E|]
           | |- context [depth_ps ?ff ?gg ?x] => let o := fresh "o" in let d := fresh "d" in let E := fresh "E" in destruct (depth_ps ff gg x) as [o d] eqn:E; destruct o
           | |- context [depth_many ?ff ?gg ?x] => let o := fresh "o" in let d := fresh "d" in let E := fresh "E" in destruct (depth_many ff gg x) as [o d] eqn:E; destruct o
           | |- context [if ?gg then _ else _] => is_var gg; destruct gg
           end.
      all: use_ih IHp IHm IHl.
      all: unfold dbound, dmax, dS; cbn [fst snd]; split; [try lia|intros r9 E9; try discriminate E9; try (inversion E9; subst)].
      all: repeat match goal with H : forall r, Some ?x = Some r -> _ |- _ => specialize (H x eq_refl) end.
      all: try lia.
    + intros inp. cbn [depth_many].
      destruct (depth_ps f gv inp) as [[r|] d] eqn:E1.
      * destruct (depth_loop f gv r) as [o d'] eqn:E2. use_ih IHp IHm IHl.
        unfold dbound, dmax; cbn [fst snd]. specialize (H0 r eq_refl). split; [lia|].
        intros r9 E9. subst o. specialize (H2 r9 eq_refl). lia.
      * use_ih IHp IHm IHl. unfold dbound; cbn [fst snd]. split; [lia|]. intros r9 E9; discriminate E9.
    + intros inp. cbn [depth_loop].
      destruct (depth_ps f gv inp) as [[r|] d] eqn:E1.
      * destruct (depth_loop f gv r) as [o d'] eqn:E2. use_ih IHp IHm IHl.
        unfold dbound, dmax; cbn [fst snd]. specialize (H0 r eq_refl). split; [lia|].
        intros r9 E9. subst o. specialize (H2 r9 eq_refl). lia.
      * use_ih IHp IHm IHl. unfold dbound; cbn [fst snd]. split; [lia|]. intros r9 E9; inversion E9; subst; lia.
Qed.

Theorem stack_linear : forall gv s, (stack_used gv s <= N.of_nat (length s) + 1)%N.
Proof.
  intros gv s. unfold stack_used. destruct s as [|c s]; [cbn; lia|].
  destruct (depth_bound_all (parse_fuel (c :: s)) gv) as (_ & Hm & _). apply (Hm (c :: s)).
Qed.
