(* C06/ParseFacts.v — facts about the model of the winnow grammar: what a successful parse returns
   (soundness / parse-then-format), that every formatted tree parses back (completeness), that the
   fuel of the model and winnow's consume-assertion are never hit, and that check_only mode accepts
   the same strings. *)
From ZV Require Import Base.Bytes Base.Res C06.Model C06.Classes C06.SpecFacts.
From Coq Require Import Lia.

(* ---------------------------------------------------------------- unfolding equations *)
Lemma ps_S : forall f co gv inp,
  parse_signature (S f) co gv inp =
  palt simple_type
 (palt (p_dict (parse_signature f co gv) co)
 (palt (p_array (parse_signature f co gv) co)
 (palt (p_struct (many f co gv false))
 (palt (if gv then p_maybe (parse_signature f co gv) co else pfail)
       p_fd)))) inp.
Proof. reflexivity. Qed.

Lemma many_S : forall f co gv top inp,
  many (S f) co gv top inp =
  match parse_signature f co gv inp with
  | PFail => PFail
  | PAbn x => PAbn x
  | POk t r =>
      match rep_loop f co gv r with
      | PFail => PFail
      | PAbn x => PAbn x
      | POk ts r' => POk (if co then TLeaf CUnit else sl_finish (fold_left (sl_step top) (t :: ts) SLUnit)) r'
      end
  end.
Proof. reflexivity. Qed.

Lemma loop_S : forall f co gv inp,
  rep_loop (S f) co gv inp =
  match parse_signature f co gv inp with
  | PFail => POk [] inp
  | PAbn x => PAbn x
  | POk t r =>
      if same_len r inp then PAbn Assert
      else match rep_loop f co gv r with
           | POk ts r' => POk (t :: ts) r'
           | PFail => PFail
           | PAbn x => PAbn x
           end
  end.
Proof. reflexivity. Qed.

Global Opaque parse_signature many rep_loop.

(* ---------------------------------------------------------------- small facts *)
Lemma lit1_some : forall c inp r, lit1 c inp = Some r -> inp = c :: r.
Proof.
  intros c [|x inp] r H; cbn in H; [discriminate|].
  destruct (beq x c) eqn:E; [|discriminate]. apply beq_true in E. inversion H; subst. reflexivity.
Qed.

Lemma lit1_cons : forall c r, lit1 c (c :: r) = Some r.
Proof. intros. cbn. rewrite beq_refl. reflexivity. Qed.

Lemma simple_code_char : forall c k, simple_code c = Some k -> code_char k = [c] /\ code_eqb k CUnit = false.
Proof.
  intros c k H. unfold simple_code in H.
  repeat match type of H with
         | (if beq c ?x then _ else _) = _ =>
             let E := fresh "E" in
             destruct (beq c x) eqn:E;
             [apply beq_true in E; subst c; inversion H; subst k; split; reflexivity|]
         end.
  discriminate.
Qed.

Lemma simple_code_of_char : forall k, code_eqb k CUnit = false -> code_eqb k CFd = false ->
  forall r, simple_type (code_char k ++ r) = POk (TLeaf k) r.
Proof. intros k H1 H2 r. destruct k; try discriminate; reflexivity. Qed.

Lemma same_len_iff : forall a b : bytes, same_len a b = true <-> length a = length b.
Proof.
  induction a as [|x a IH]; destruct b as [|y b]; cbn; split; intros H; try congruence; try discriminate.
  - apply IH in H. congruence.
  - apply IH. congruence.
Qed.

Lemma fold_sl_struct : forall top ts l, fold_left (sl_step top) ts (SLStruct l) = SLStruct (l ++ ts).
Proof.
  intros top ts. induction ts as [|t ts IH]; intros l; cbn.
  - rewrite app_nil_r. reflexivity.
  - rewrite IH. rewrite <- app_assoc. reflexivity.
Qed.

(* what the fold of [many] returns: one signature at the top level is returned as it is *)
Definition pack (top : bool) (ts : list tsig) : tsig :=
  match ts with
  | [t] => if top then t else TStruct Dynamic [t]
  | _ => TStruct Dynamic ts
  end.

Lemma pack_false : forall ts, pack false ts = TStruct Dynamic ts.
Proof. intros [|a [|b ts]]; reflexivity. Qed.

Lemma fold_sl : forall top t ts, sl_finish (fold_left (sl_step top) (t :: ts) SLUnit) = pack top (t :: ts).
Proof.
  intros top t ts. destruct ts as [|t2 ts]; cbn.
  - destruct top; reflexivity.
  - destruct top; cbn; rewrite fold_sl_struct; reflexivity.
Qed.

Definition all_dyn (t : tsig) : Prop := erase t = t.
Definition good (gv : bool) (t : tsig) : Prop := parseable gv t = true /\ all_dyn t.

Lemma good_forall : forall gv ts, Forall (good gv) ts -> forallb (parseable gv) ts = true /\ map erase ts = ts.
Proof.
  intros gv ts H. induction H as [|t ts [Hp Hd] _ [IH1 IH2]]; cbn; [split; reflexivity|].
  rewrite Hp, IH1. unfold all_dyn in Hd. rewrite Hd, IH2. split; reflexivity.
Qed.

Definition shows (ts : list tsig) : bytes := concat (map show ts).

Lemma show_struct : forall r fs, show (TStruct r fs) = B "(" ++ shows fs ++ B ")".
Proof. reflexivity. Qed.
Lemma show_array : forall r c, show (TArray r c) = "a"%byte :: show c.
Proof. reflexivity. Qed.
Lemma show_maybe : forall r c, show (TMaybe r c) = "m"%byte :: show c.
Proof. reflexivity. Qed.

(* ---------------------------------------------------------------- soundness (parse, then format) *)
Lemma parse_sound_all : forall f gv,
  (forall inp t r, parse_signature f false gv inp = POk t r -> inp = show t ++ r /\ good gv t) /\
  (forall top inp t r, many f false gv top inp = POk t r ->
      exists ts, ts <> [] /\ inp = shows ts ++ r /\ Forall (good gv) ts /\ t = pack top ts) /\
  (forall inp ts r, rep_loop f false gv inp = POk ts r -> inp = shows ts ++ r /\ Forall (good gv) ts).
Proof.
  induction f as [|f IH]; intros gv.
  - split; [|split]; intros; discriminate.
  - destruct (IH gv) as (IHp & IHm & IHl). split; [|split].
    + intros inp t r H. rewrite ps_S in H. unfold palt in H.
      destruct (simple_type inp) as [t1 r1| |x] eqn:E1.
      { inversion H; subst t1 r1. unfold simple_type in E1. destruct inp as [|c inp']; [discriminate|].
        destruct (simple_code c) as [k|] eqn:Ek; [|discriminate]. inversion E1; subst t r.
        destruct (simple_code_char _ _ Ek) as [Hc Hu]. split.
        - cbn. rewrite Hc. reflexivity.
        - split; [cbn; rewrite Hu; reflexivity|reflexivity]. }
      2:{ discriminate. }
      clear E1.
      destruct (p_dict (parse_signature f false gv) false inp) as [t1 r1| |x] eqn:E2.
      { inversion H; subst t1 r1. unfold p_dict in E2.
        destruct (lit1 "a" inp) as [r0|] eqn:L0; [|discriminate]. apply lit1_some in L0.
        destruct (lit1 "{" r0) as [r1|] eqn:L1; [|discriminate]. apply lit1_some in L1.
        destruct (parse_signature f false gv r1) as [k r2| |x] eqn:Pk; try discriminate.
        destruct (parse_signature f false gv r2) as [v r3| |x] eqn:Pv; try discriminate.
        destruct (lit1 "}" r3) as [r4|] eqn:L2; [|discriminate]. apply lit1_some in L2.
        inversion E2; subst t r4.
        destruct (IHp _ _ _ Pk) as (Hk1 & Hk2 & Hk3). destruct (IHp _ _ _ Pv) as (Hv1 & Hv2 & Hv3).
        split.
        - subst inp r0 r1 r2 r3. cbn. rewrite <- !app_assoc. reflexivity.
        - split; [cbn; rewrite Hk2, Hv2; reflexivity|]. unfold all_dyn in *. cbn. rewrite Hk3, Hv3. reflexivity. }
      2:{ discriminate. }
      clear E2.
      destruct (p_array (parse_signature f false gv) false inp) as [t1 r1| |x] eqn:E3.
      { inversion H; subst t1 r1. unfold p_array in E3.
        destruct (lit1 "a" inp) as [r0|] eqn:L0; [|discriminate]. apply lit1_some in L0.
        destruct (parse_signature f false gv r0) as [c r1| |x] eqn:Pc; try discriminate.
        inversion E3; subst t r1.
        destruct (IHp _ _ _ Pc) as (Hc1 & Hc2 & Hc3). split.
        - subst inp r0. reflexivity.
        - split; [exact Hc2|]. unfold all_dyn in *. cbn. rewrite Hc3. reflexivity. }
      2:{ discriminate. }
      clear E3.
      destruct (p_struct (many f false gv false) inp) as [t1 r1| |x] eqn:E4.
      { inversion H; subst t1 r1. unfold p_struct in E4.
        destruct (lit1 "(" inp) as [r0|] eqn:L0; [|discriminate]. apply lit1_some in L0.
        destruct (many f false gv false r0) as [t1 r1| |x] eqn:Pm; try discriminate.
        destruct (lit1 ")" r1) as [r2|] eqn:L1; [|discriminate]. apply lit1_some in L1.
        inversion E4; subst t1 r2.
        destruct (IHm _ _ _ _ Pm) as (ts & Hne & Hin & Hg & Ht).
        assert (Hpk : pack false ts = TStruct Dynamic ts).
        { destruct ts as [|a [|b ts']]; reflexivity. }
        rewrite Hpk in Ht. subst t.
        destruct (good_forall _ _ Hg) as [Hfa Hmap]. split.
        - subst inp r0 r1. rewrite show_struct. cbn. rewrite <- app_assoc. reflexivity.
        - split.
          + cbn. destruct ts; [congruence|exact Hfa].
          + unfold all_dyn. cbn. rewrite Hmap. reflexivity. }
      2:{ discriminate. }
      clear E4.
      destruct ((if gv then p_maybe (parse_signature f false gv) false else pfail) inp) as [t1 r1| |x] eqn:E5.
      { inversion H; subst t1 r1. destruct gv; [|discriminate]. unfold p_maybe in E5.
        destruct (lit1 "m" inp) as [r0|] eqn:L0; [|discriminate]. apply lit1_some in L0.
        destruct (parse_signature f false true r0) as [c r1| |x] eqn:Pc; try discriminate.
        inversion E5; subst t r1.
        destruct (IHp _ _ _ Pc) as (Hc1 & Hc2 & Hc3). split.
        - subst inp r0. reflexivity.
        - split; [cbn; exact Hc2|]. unfold all_dyn in *. cbn. rewrite Hc3. reflexivity. }
      2:{ discriminate. }
      clear E5.
      unfold p_fd in H. destruct (lit1 "h" inp) as [r0|] eqn:L0; [|discriminate]. apply lit1_some in L0.
      inversion H; subst t r0. split; [subst inp; reflexivity|split; reflexivity].
    + intros top inp t r H. rewrite many_S in H.
      destruct (parse_signature f false gv inp) as [t1 r1| |x] eqn:P1; try discriminate.
      destruct (rep_loop f false gv r1) as [ts r2| |x] eqn:P2; try discriminate.
      inversion H; subst t r2.
      destruct (IHp _ _ _ P1) as (H1 & H2). destruct (IHl _ _ _ P2) as (H3 & H4).
      exists (t1 :: ts). split; [discriminate|]. split; [|split].
      * subst inp r1. unfold shows. cbn. rewrite <- app_assoc. reflexivity.
      * constructor; assumption.
      * apply fold_sl.
    + intros inp ts r H. rewrite loop_S in H.
      destruct (parse_signature f false gv inp) as [t1 r1| |x] eqn:P1; try discriminate.
      * destruct (same_len r1 inp); [discriminate|].
        destruct (rep_loop f false gv r1) as [ts' r2| |x] eqn:P2; try discriminate.
        inversion H; subst ts r2.
        destruct (IHp _ _ _ P1) as (H1 & H2). destruct (IHl _ _ _ P2) as (H3 & H4).
        split; [|constructor; assumption].
        subst inp r1. unfold shows. cbn. rewrite <- app_assoc. reflexivity.
      * inversion H; subst ts r. split; [reflexivity|constructor].
Qed.

(* ---------------------------------------------------------------- check_only mode has the same control flow *)
Definition shape {A} (r : pres A) : pres unit :=
  match r with POk _ r => POk tt r | PFail => PFail | PAbn x => PAbn x end.

Lemma shape_cases : forall {A B} (a : pres A) (b : pres B), shape a = shape b ->
  (exists x y r, a = POk x r /\ b = POk y r) \/ (a = PFail /\ b = PFail) \/ (exists x, a = PAbn x /\ b = PAbn x).
Proof.
  intros A B [x r| |x] [y r'| |y] H; cbn in H; try discriminate.
  - inversion H; subst. left. eauto.
  - right; left; split; reflexivity.
  - inversion H; subst. right; right. eauto.
Qed.

Lemma palt_shape : forall {A B} (p1 p2 : pparser A) (q1 q2 : pparser B) inp,
  shape (p1 inp) = shape (q1 inp) -> shape (p2 inp) = shape (q2 inp) ->
  shape (palt p1 p2 inp) = shape (palt q1 q2 inp).
Proof.
  intros A B p1 p2 q1 q2 inp H1 H2. unfold palt.
  destruct (shape_cases _ _ H1) as [(x & y & r & -> & ->)|[[-> ->]|(x & -> & ->)]]; auto.
Qed.

Section ShapeCombinators.
  Variables p q : pparser tsig.
  Hypothesis Hpq : forall x, shape (p x) = shape (q x).

  Lemma p_dict_shape : forall c1 c2 inp, shape (p_dict p c1 inp) = shape (p_dict q c2 inp).
  Proof.
    intros c1 c2 inp. unfold p_dict.
    destruct (lit1 "a" inp) as [r0|]; [|reflexivity].
    destruct (lit1 "{" r0) as [r1|]; [|reflexivity].
    destruct (shape_cases _ _ (Hpq r1)) as [(x & y & r & -> & ->)|[[-> ->]|(x & -> & ->)]]; try reflexivity.
    destruct (shape_cases _ _ (Hpq r)) as [(x' & y' & r' & -> & ->)|[[-> ->]|(x' & -> & ->)]]; try reflexivity.
    destruct (lit1 "}" r'); reflexivity.
  Qed.

  Lemma p_array_shape : forall c1 c2 inp, shape (p_array p c1 inp) = shape (p_array q c2 inp).
  Proof.
    intros c1 c2 inp. unfold p_array.
    destruct (lit1 "a" inp) as [r0|]; [|reflexivity].
    destruct (shape_cases _ _ (Hpq r0)) as [(x & y & r & -> & ->)|[[-> ->]|(x & -> & ->)]]; reflexivity.
  Qed.

  Lemma p_maybe_shape : forall c1 c2 inp, shape (p_maybe p c1 inp) = shape (p_maybe q c2 inp).
  Proof.
    intros c1 c2 inp. unfold p_maybe.
    destruct (lit1 "m" inp) as [r0|]; [|reflexivity].
    destruct (shape_cases _ _ (Hpq r0)) as [(x & y & r & -> & ->)|[[-> ->]|(x & -> & ->)]]; reflexivity.
  Qed.

  Lemma p_struct_shape : forall inp, shape (p_struct p inp) = shape (p_struct q inp).
  Proof.
    intros inp. unfold p_struct.
    destruct (lit1 "(" inp) as [r0|]; [|reflexivity].
    destruct (shape_cases _ _ (Hpq r0)) as [(x & y & r & -> & ->)|[[-> ->]|(x & -> & ->)]]; try reflexivity.
    destruct (lit1 ")" r); reflexivity.
  Qed.
End ShapeCombinators.

Lemma shape_all : forall f gv co,
  (forall inp, shape (parse_signature f co gv inp) = shape (parse_signature f false gv inp)) /\
  (forall top inp, shape (many f co gv top inp) = shape (many f false gv top inp)) /\
  (forall inp, shape (rep_loop f co gv inp) = shape (rep_loop f false gv inp)).
Proof.
  induction f as [|f IH]; intros gv co.
  - split; [|split]; reflexivity.
  - destruct (IH gv co) as (IHp & IHm & IHl). split; [|split].
    + intros inp. rewrite !ps_S.
      apply palt_shape; [reflexivity|].
      apply palt_shape; [apply p_dict_shape; exact IHp|].
      apply palt_shape; [apply p_array_shape; exact IHp|].
      apply palt_shape; [apply p_struct_shape; intros x; apply IHm|].
      apply palt_shape; [|reflexivity].
      destruct gv; [apply p_maybe_shape; exact IHp|reflexivity].
    + intros top inp. rewrite !many_S.
      destruct (shape_cases _ _ (IHp inp)) as [(x & y & r & -> & ->)|[[-> ->]|(x & -> & ->)]]; try reflexivity.
      destruct (shape_cases _ _ (IHl r)) as [(x' & y' & r' & -> & ->)|[[-> ->]|(x' & -> & ->)]]; reflexivity.
    + intros inp. rewrite !loop_S.
      destruct (shape_cases _ _ (IHp inp)) as [(x & y & r & -> & ->)|[[-> ->]|(x & -> & ->)]]; try reflexivity.
      destruct (same_len r inp); [reflexivity|].
      destruct (shape_cases _ _ (IHl r)) as [(x' & y' & r' & -> & ->)|[[-> ->]|(x' & -> & ->)]]; reflexivity.
Qed.

(* ---------------------------------------------------------------- every success consumes input *)
Lemma show_nonempty : forall gv t, parseable gv t = true -> 1 <= length (show t).
Proof.
  intros gv t H. destruct t as [c| | | |]; cbn; try lia.
  destruct c; cbn in *; try lia; discriminate.
Qed.

Lemma shows_length_cons : forall t ts, length (shows (t :: ts)) = length (show t) + length (shows ts).
Proof. intros. unfold shows. cbn. rewrite app_length. reflexivity. Qed.

Lemma consume_ps : forall f co gv inp t r, parse_signature f co gv inp = POk t r -> length r < length inp.
Proof.
  intros f co gv inp t r H.
  destruct (shape_all f gv co) as (Hs & _ & _). specialize (Hs inp). rewrite H in Hs.
  destruct (parse_signature f false gv inp) as [t' r'| |x] eqn:E; cbn in Hs; try discriminate.
  inversion Hs; subst r'.
  destruct (parse_sound_all f gv) as (Hp & _ & _). destruct (Hp _ _ _ E) as (Hin & Hg & _).
  pose proof (show_nonempty _ _ Hg). subst inp. rewrite app_length. lia.
Qed.

Lemma consume_loop : forall f co gv inp ts r, rep_loop f co gv inp = POk ts r -> length r <= length inp.
Proof.
  induction f as [|f IH]; intros co gv inp ts r H.
  - Transparent rep_loop. cbn in H. Opaque rep_loop. discriminate.
  - rewrite loop_S in H.
    destruct (parse_signature f co gv inp) as [t1 r1| |x] eqn:P1; try discriminate.
    + destruct (same_len r1 inp); [discriminate|].
      destruct (rep_loop f co gv r1) as [ts' r2| |x] eqn:P2; try discriminate.
      inversion H; subst. apply consume_ps in P1. apply IH in P2. lia.
    + inversion H; subst. lia.
Qed.

(* ---------------------------------------------------------------- neither the model's fuel nor winnow's assertion is ever hit *)
Lemma ps_0 : forall co gv inp, parse_signature 0 co gv inp = PAbn Fuel.
Proof. Transparent parse_signature. reflexivity. Opaque parse_signature. Qed.
Lemma many_0 : forall co gv top inp, many 0 co gv top inp = PAbn Fuel.
Proof. Transparent many. reflexivity. Opaque many. Qed.
Lemma loop_0 : forall co gv inp, rep_loop 0 co gv inp = PAbn Fuel.
Proof. Transparent rep_loop. reflexivity. Opaque rep_loop. Qed.

Lemma no_abn_all : forall f co gv,
  (forall inp x, 2 * length inp + 1 <= f -> parse_signature f co gv inp <> PAbn x) /\
  (forall top inp x, 2 * length inp + 2 <= f -> many f co gv top inp <> PAbn x) /\
  (forall inp x, 2 * length inp + 2 <= f -> rep_loop f co gv inp <> PAbn x).
Proof.
  induction f as [|f IH]; intros co gv.
  - split; [|split]; intros; lia.
  - destruct (IH co gv) as (IHp & IHm & IHl). split; [|split].
    + intros inp x Hf H. rewrite ps_S in H. unfold palt in H.
      destruct (simple_type inp) as [t1 r1| |y] eqn:E1; [discriminate| |].
      2:{ unfold simple_type in E1. destruct inp; [discriminate|]. destruct (simple_code b); discriminate. }
      clear E1.
      destruct (p_dict (parse_signature f co gv) co inp) as [t1 r1| |y] eqn:E2; [discriminate| |].
      2:{ unfold p_dict in E2.
          destruct (lit1 "a" inp) as [r0|] eqn:L0; [|discriminate]. apply lit1_some in L0.
          destruct (lit1 "{" r0) as [r1|] eqn:L1; [|discriminate]. apply lit1_some in L1.
          subst inp r0. cbn [length] in Hf.
          destruct (parse_signature f co gv r1) as [k r2| |z] eqn:Pk; [|discriminate|].
          - pose proof (consume_ps _ _ _ _ _ _ Pk) as Hc.
            destruct (parse_signature f co gv r2) as [v r3| |z] eqn:Pv; [|discriminate|].
            + destruct (lit1 "}" r3); discriminate.
            + apply (IHp r2 z); [lia|exact Pv].
          - apply (IHp r1 z); [lia|exact Pk]. }
      clear E2.
      destruct (p_array (parse_signature f co gv) co inp) as [t1 r1| |y] eqn:E3; [discriminate| |].
      2:{ unfold p_array in E3.
          destruct (lit1 "a" inp) as [r0|] eqn:L0; [|discriminate]. apply lit1_some in L0. subst inp. cbn [length] in Hf.
          destruct (parse_signature f co gv r0) as [k r2| |z] eqn:Pk; try discriminate.
          apply (IHp r0 z); [lia|exact Pk]. }
      clear E3.
      destruct (p_struct (many f co gv false) inp) as [t1 r1| |y] eqn:E4; [discriminate| |].
      2:{ unfold p_struct in E4.
          destruct (lit1 "(" inp) as [r0|] eqn:L0; [|discriminate]. apply lit1_some in L0. subst inp. cbn [length] in Hf.
          destruct (many f co gv false r0) as [k r2| |z] eqn:Pk; try discriminate.
          - destruct (lit1 ")" r2); discriminate.
          - apply (IHm false r0 z); [lia|exact Pk]. }
      clear E4.
      destruct ((if gv then p_maybe (parse_signature f co gv) co else pfail) inp) as [t1 r1| |y] eqn:E5; [discriminate| |].
      2:{ destruct gv; [|discriminate]. unfold p_maybe in E5.
          destruct (lit1 "m" inp) as [r0|] eqn:L0; [|discriminate]. apply lit1_some in L0. subst inp. cbn [length] in Hf.
          destruct (parse_signature f co true r0) as [k r2| |z] eqn:Pk; try discriminate.
          apply (IHp r0 z); [lia|exact Pk]. }
      unfold p_fd in H. destruct (lit1 "h" inp); discriminate.
    + intros top inp x Hf H. rewrite many_S in H.
      destruct (parse_signature f co gv inp) as [t1 r1| |y] eqn:P1; [|discriminate|].
      * pose proof (consume_ps _ _ _ _ _ _ P1) as Hc.
        destruct (rep_loop f co gv r1) as [ts r2| |y] eqn:P2; try discriminate.
        apply (IHl r1 y); [lia|exact P2].
      * apply (IHp inp y); [lia|exact P1].
    + intros inp x Hf H. rewrite loop_S in H.
      destruct (parse_signature f co gv inp) as [t1 r1| |y] eqn:P1; [|discriminate|].
      * pose proof (consume_ps _ _ _ _ _ _ P1) as Hc.
        destruct (same_len r1 inp) eqn:Es.
        { apply same_len_iff in Es. lia. }
        destruct (rep_loop f co gv r1) as [ts r2| |y] eqn:P2; try discriminate.
        apply (IHl r1 y); [lia|exact P2].
      * apply (IHp inp y); [lia|exact P1].
Qed.

(* ---------------------------------------------------------------- induction on trees, fields by Forall *)
Section TsigInd.
  Variable P : tsig -> Prop.
  Hypothesis Hleaf : forall c, P (TLeaf c).
  Hypothesis Harr : forall r c, P c -> P (TArray r c).
  Hypothesis Hdict : forall rk k rv v, P k -> P v -> P (TDict rk k rv v).
  Hypothesis Hstruct : forall r fs, Forall P fs -> P (TStruct r fs).
  Hypothesis Hmaybe : forall r c, P c -> P (TMaybe r c).
  Fixpoint tsig_ind' (t : tsig) : P t :=
    match t with
    | TLeaf c => Hleaf c
    | TArray r c => Harr r c (tsig_ind' c)
    | TDict rk k rv v => Hdict rk k rv v (tsig_ind' k) (tsig_ind' v)
    | TStruct r fs => Hstruct r fs ((fix go (l : list tsig) : Forall P l :=
                                       match l with [] => Forall_nil P | x :: l' => Forall_cons x (tsig_ind' x) (go l') end) fs)
    | TMaybe r c => Hmaybe r c (tsig_ind' c)
    end.
End TsigInd.

(* ---------------------------------------------------------------- completeness (format, then parse) *)

(* inputs on which parse_signature backtracks at once: the end of the input and a closing parenthesis *)
Definition stops (gv : bool) (rest : bytes) : Prop :=
  forall g, parse_signature (S g) false gv rest = PFail.

Lemma stops_nil : forall gv, stops gv [].
Proof. intros gv g. rewrite ps_S. destruct gv; reflexivity. Qed.

Lemma stops_close : forall gv r, stops gv (")"%byte :: r).
Proof. intros gv r g. rewrite ps_S. destruct gv; reflexivity. Qed.

(* first byte of a formatted parseable tree *)
Lemma show_head : forall gv t, parseable gv t = true ->
  exists c r, show t = c :: r /\ beq c "{" = false.
Proof.
  intros gv t H. destruct t as [c| | | |].
  - destruct c; try discriminate; eexists _, _; split; reflexivity.
  - eexists _, _; split; reflexivity.
  - eexists _, _; split; reflexivity.
  - eexists _, _; split; reflexivity.
  - eexists _, _; split; reflexivity.
Qed.

Definition complete_at (gv : bool) (t : tsig) : Prop :=
  forall f rest, 2 * length (show t) + 1 <= f ->
    parse_signature f false gv (show t ++ rest) = POk (erase t) rest.

Lemma same_len_shorter : forall (p r : bytes), p <> [] -> same_len r (p ++ r) = false.
Proof.
  intros p r Hp. destruct (same_len r (p ++ r)) eqn:E; [|reflexivity].
  apply same_len_iff in E. rewrite app_length in E. destruct p; [congruence|cbn in E; lia].
Qed.

Lemma loop_complete : forall gv ts, Forall (fun t => parseable gv t = true /\ complete_at gv t) ts ->
  forall f rest, stops gv rest -> 2 * length (shows ts) + 2 <= f ->
    rep_loop f false gv (shows ts ++ rest) = POk (map erase ts) rest.
Proof.
  intros gv ts H. induction H as [|t ts [Hp Hc] Hts IH]; intros f rest Hst Hf.
  - destruct f as [|[|g]]; [lia|lia|]. cbn [shows map concat app]. rewrite loop_S. rewrite Hst. reflexivity.
  - destruct f as [|f]; [lia|]. rewrite shows_length_cons in Hf. pose proof (show_nonempty _ _ Hp) as Hne.
    unfold shows. cbn [map concat]. fold (shows ts). rewrite <- app_assoc. rewrite loop_S.
    rewrite Hc by lia.
    rewrite same_len_shorter.
    2:{ intros E. rewrite E in Hne. cbn in Hne. lia. }
    rewrite IH; [reflexivity|exact Hst|lia].
Qed.

Lemma many_complete : forall gv top t ts,
  Forall (fun t => parseable gv t = true /\ complete_at gv t) (t :: ts) ->
  forall f rest, stops gv rest -> 2 * length (shows (t :: ts)) + 2 <= f ->
    many f false gv top (shows (t :: ts) ++ rest) = POk (pack top (map erase (t :: ts))) rest.
Proof.
  intros gv top t ts H f rest Hst Hf. inversion H as [|? ? [Hp Hc] Hts]; subst.
  destruct f as [|f]; [lia|]. rewrite shows_length_cons in Hf. pose proof (show_nonempty _ _ Hp) as Hne.
  unfold shows. cbn [map concat]. fold (shows ts). rewrite <- app_assoc. rewrite many_S.
  rewrite Hc by lia.
  rewrite (loop_complete gv ts Hts) by (assumption || lia).
  rewrite fold_sl. reflexivity.
Qed.

Lemma ps_complete : forall gv t, parseable gv t = true -> complete_at gv t.
Proof.
  intros gv t. induction t as [c|r c IH|rk k rv v IHk IHv|r fs IH|r c IH] using tsig_ind'; intros Hp f rest Hf.
  - (* leaf *)
    destruct f as [|f]; [lia|]. rewrite ps_S. unfold palt.
    destruct (code_eqb c CFd) eqn:Efd.
    + destruct c; try discriminate. destruct gv; reflexivity.
    + rewrite (simple_code_of_char c); [reflexivity| |exact Efd]. cbn in Hp. destruct (code_eqb c CUnit); [discriminate|reflexivity].
  - (* array *)
    cbn in Hp. destruct f as [|f]; [lia|]. rewrite show_array in *. cbn [app length] in *.
    destruct (show_head _ _ Hp) as (c0 & r0 & Hsh & Hnb).
    rewrite ps_S. unfold palt.
    change (simple_type ("a"%byte :: show c ++ rest)) with (@PFail tsig).
    assert (Hd : p_dict (parse_signature f false gv) false ("a"%byte :: show c ++ rest) = PFail).
    { unfold p_dict. rewrite lit1_cons. rewrite Hsh. cbn [app lit1]. rewrite Hnb. reflexivity. }
    rewrite Hd. unfold p_array. rewrite lit1_cons. rewrite (IH Hp) by lia. reflexivity.
  - (* dict *)
    cbn in Hp. apply andb_prop in Hp. destruct Hp as [Hpk Hpv].
    destruct f as [|f]; [lia|].
    assert (Hs : show (TDict rk k rv v) ++ rest = "a"%byte :: "{"%byte :: show k ++ (show v ++ "}"%byte :: rest)).
    { unfold show. cbn. rewrite <- !app_assoc. reflexivity. }
    assert (Hl : length (show (TDict rk k rv v)) = 3 + length (show k) + length (show v)).
    { unfold show. cbn. rewrite !app_length. cbn. lia. }
    rewrite Hs. rewrite Hl in Hf. rewrite ps_S. unfold palt.
    change (simple_type ("a"%byte :: "{"%byte :: show k ++ show v ++ "}"%byte :: rest)) with (@PFail tsig).
    unfold p_dict. rewrite !lit1_cons. rewrite (IHk Hpk) by lia. rewrite (IHv Hpv) by lia. rewrite lit1_cons. reflexivity.
  - (* struct *)
    destruct fs as [|t ts]; [discriminate|].
    assert (Hall : Forall (fun t => parseable gv t = true /\ complete_at gv t) (t :: ts)).
    { cbn [parseable] in Hp. rewrite forallb_forall in Hp. rewrite Forall_forall in *.
      intros x Hx. split; [apply Hp; exact Hx|apply IH; [exact Hx|apply Hp; exact Hx]]. }
    destruct f as [|f]; [lia|].
    assert (Hs : show (TStruct r (t :: ts)) ++ rest = "("%byte :: shows (t :: ts) ++ (")"%byte :: rest)).
    { rewrite show_struct. cbn. rewrite <- !app_assoc. reflexivity. }
    assert (Hl : length (show (TStruct r (t :: ts))) = 2 + length (shows (t :: ts))).
    { rewrite show_struct. rewrite !app_length. cbn. lia. }
    rewrite Hs. rewrite Hl in Hf. rewrite ps_S. unfold palt.
    change (simple_type ("("%byte :: shows (t :: ts) ++ ")"%byte :: rest)) with (@PFail tsig).
    change (p_dict (parse_signature f false gv) false ("("%byte :: shows (t :: ts) ++ ")"%byte :: rest)) with (@PFail tsig).
    change (p_array (parse_signature f false gv) false ("("%byte :: shows (t :: ts) ++ ")"%byte :: rest)) with (@PFail tsig).
    unfold p_struct. rewrite lit1_cons.
    rewrite (many_complete gv false t ts Hall) by (try apply stops_close; lia).
    rewrite lit1_cons. rewrite pack_false. reflexivity.
  - (* maybe *)
    cbn in Hp. apply andb_prop in Hp. destruct Hp as [Hgv Hp]. subst gv.
    destruct f as [|f]; [lia|]. rewrite show_maybe in *. cbn [app length] in *.
    rewrite ps_S. unfold palt.
    change (simple_type ("m"%byte :: show c ++ rest)) with (@PFail tsig).
    change (p_dict (parse_signature f false true) false ("m"%byte :: show c ++ rest)) with (@PFail tsig).
    change (p_array (parse_signature f false true) false ("m"%byte :: show c ++ rest)) with (@PFail tsig).
    change (p_struct (many f false true false) ("m"%byte :: show c ++ rest)) with (@PFail tsig).
    unfold p_maybe. rewrite lit1_cons. rewrite (IH Hp) by lia. reflexivity.
Qed.
