(* C06/Model.v — executable mirror of zvariant_utils/src/signature/{mod.rs,child.rs,fields.rs} as it is.
   No proofs in this file.

   Rust                                   here
   enum Signature (15 unit variants)      TLeaf (c : code)
   Array(Child) / Maybe(Child)            TArray r c / TMaybe r c      r : repr = Child::Static | Child::Dynamic
   Dict { key: Child, value: Child }      TDict rk k rv v
   Structure(Fields)                      TStruct r fs                 r = Fields::Static | Fields::Dynamic
   fn parse(bytes, check_only)            parse co gv s   (gv = cargo feature "gvariant")
   write_as_string(w, outer_parens)       write_as_string outer t ; to_string = show ; to_string_no_parens = show_noparens
   string_len                             string_len
   impl PartialEq / Ord / Hash            sig_eq / sig_cmp (+ kind_rank) / sig_hash (the i32 values written to the Hasher, in order)
   impl PartialEq<&str>                   eq_str (a str slice that is out of range or off a char boundary is a Panic) *)
From ZV Require Import Base.Bytes Base.Res.

Inductive code :=
| CUnit | CU8 | CBool | CI16 | CU16 | CI32 | CU32 | CI64 | CU64 | CF64 | CStr | CSig | CObjPath | CVariant | CFd.

Inductive repr := Static | Dynamic.

Inductive tsig :=
| TLeaf (c : code)
| TArray (r : repr) (c : tsig)
| TDict (rk : repr) (k : tsig) (rv : repr) (v : tsig)
| TStruct (r : repr) (fs : list tsig)
| TMaybe (r : repr) (c : tsig).

Definition code_eqb (a b : code) : bool :=
  match a, b with
  | CUnit, CUnit | CU8, CU8 | CBool, CBool | CI16, CI16 | CU16, CU16 | CI32, CI32 | CU32, CU32 | CI64, CI64
  | CU64, CU64 | CF64, CF64 | CStr, CStr | CSig, CSig | CObjPath, CObjPath | CVariant, CVariant | CFd, CFd => true
  | _, _ => false
  end.

(* the type code written by write_as_string *)
Definition code_char (c : code) : bytes :=
  match c with
  | CUnit => [] | CU8 => B "y" | CBool => B "b" | CI16 => B "n" | CU16 => B "q" | CI32 => B "i" | CU32 => B "u"
  | CI64 => B "x" | CU64 => B "t" | CF64 => B "d" | CStr => B "s" | CSig => B "g" | CObjPath => B "o"
  | CVariant => B "v" | CFd => B "h"
  end.

(* the constant hashed by impl Hash *)
Definition code_num (c : code) : N :=
  match c with
  | CUnit => 0 | CU8 => 1 | CBool => 2 | CI16 => 3 | CU16 => 4 | CI32 => 5 | CU32 => 6 | CI64 => 7 | CU64 => 8
  | CF64 => 9 | CStr => 10 | CSig => 11 | CObjPath => 12 | CVariant => 13 | CFd => 14
  end%N.

(* ------------------------------------------------------------------ formatting *)

(* Signature::write_as_string; children and fields are written with Display = outer_parens true *)
Fixpoint write_as_string (outer : bool) (t : tsig) : bytes :=
  match t with
  | TLeaf c => code_char c
  | TArray _ c => B "a" ++ write_as_string true c
  | TDict _ k _ v => B "a{" ++ (write_as_string true k ++ write_as_string true v) ++ B "}"
  | TStruct _ fs =>
      (if outer then B "(" else []) ++ concat (map (write_as_string true) fs) ++ (if outer then B ")" else [])
  | TMaybe _ c => B "m" ++ write_as_string true c
  end.

Definition show (t : tsig) : bytes := write_as_string true t.            (* to_string, Display *)
Definition show_noparens (t : tsig) : bytes := write_as_string false t.  (* to_string_no_parens *)

(* Signature::string_len (usize arithmetic; no overflow for anything that fits in memory) *)
Fixpoint string_len (t : tsig) : nat :=
  match t with
  | TLeaf CUnit => 0
  | TLeaf _ => 1
  | TArray _ c => 1 + string_len c
  | TDict _ k _ v => 3 + string_len k + string_len v
  | TStruct _ fs => fold_left (fun len f => len + string_len f) fs 2     (* let mut len = 2; while i < fields.len() … *)
  | TMaybe _ c => 1 + string_len c
  end.

(* ------------------------------------------------------------------ the winnow grammar of fn parse *)

Inductive abn := Fuel | Assert.   (* Fuel: artefact of the model, excluded by a lemma; Assert: winnow's
                                     "`repeat` parsers must always consume" debug assertion *)
Inductive pres (A : Type) := POk (a : A) (rest : bytes) | PFail | PAbn (x : abn).
Arguments POk {A} a rest.
Arguments PFail {A}.
Arguments PAbn {A} x.

Definition pparser (A : Type) := bytes -> pres A.

(* alt((p, q)): first alternative that does not backtrack; the input is reset before the next one *)
Definition palt {A} (p q : pparser A) : pparser A :=
  fun inp => match p inp with PFail => q inp | r => r end.

Definition pfail {A} : pparser A := fun _ => PFail.

(* dispatch! {any; b'y' => empty.value(U8), …, _ => fail} — note: no b'h' here *)
Definition simple_code (c : byte) : option code :=
  if beq c "y" then Some CU8 else if beq c "b" then Some CBool else if beq c "n" then Some CI16
  else if beq c "q" then Some CU16 else if beq c "i" then Some CI32 else if beq c "u" then Some CU32
  else if beq c "x" then Some CI64 else if beq c "t" then Some CU64 else if beq c "d" then Some CF64
  else if beq c "s" then Some CStr else if beq c "g" then Some CSig else if beq c "o" then Some CObjPath
  else if beq c "v" then Some CVariant else None.

Definition simple_type : pparser tsig :=
  fun inp => match inp with
             | [] => PFail
             | c :: r => match simple_code c with Some k => POk (TLeaf k) r | None => PFail end
             end.

(* a literal byte used as a parser *)
Definition lit1 (c : byte) (inp : bytes) : option bytes :=
  match inp with x :: r => if beq x c then Some r else None | [] => None end.

(* the dummy child returned in check_only mode: Signature::Unit.into() *)
Definition dummy : tsig := TLeaf CUnit.

(* (b'a', delimited(b'{', (p, p), b'}')).map(…) *)
Definition p_dict (p : pparser tsig) (co : bool) : pparser tsig :=
  fun inp =>
    match lit1 "a" inp with None => PFail | Some r0 =>
    match lit1 "{" r0 with None => PFail | Some r1 =>
    match p r1 with PFail => PFail | PAbn x => PAbn x | POk k r2 =>
    match p r2 with PFail => PFail | PAbn x => PAbn x | POk v r3 =>
    match lit1 "}" r3 with None => PFail | Some r4 =>
      POk (if co then TDict Dynamic dummy Dynamic dummy else TDict Dynamic k Dynamic v) r4
    end end end end end.

(* (b'a', p).map(…)  and  (b'm', p).map(…) *)
Definition p_array (p : pparser tsig) (co : bool) : pparser tsig :=
  fun inp =>
    match lit1 "a" inp with None => PFail | Some r0 =>
    match p r0 with PFail => PFail | PAbn x => PAbn x | POk c r1 =>
      POk (if co then TArray Dynamic dummy else TArray Dynamic c) r1
    end end.

Definition p_maybe (p : pparser tsig) (co : bool) : pparser tsig :=
  fun inp =>
    match lit1 "m" inp with None => PFail | Some r0 =>
    match p r0 with PFail => PFail | PAbn x => PAbn x | POk c r1 =>
      POk (if co then TMaybe Dynamic dummy else TMaybe Dynamic c) r1
    end end.

(* delimited(b'(', many, b')') *)
Definition p_struct (m : pparser tsig) : pparser tsig :=
  fun inp =>
    match lit1 "(" inp with None => PFail | Some r0 =>
    match m r0 with PFail => PFail | PAbn x => PAbn x | POk t r1 =>
    match lit1 ")" r1 with None => PFail | Some r2 => POk t r2 end end end.

(* b'h'.map(|_| Signature::Fd) *)
Definition p_fd : pparser tsig :=
  fun inp => match lit1 "h" inp with None => PFail | Some r => POk (TLeaf CFd) r end.

(* the fold of `many`: enum SignatureList { Unit, One, Structure } *)
Inductive siglist := SLUnit | SLOne (t : tsig) | SLStruct (l : list tsig).
Definition sl_step (top : bool) (acc : siglist) (s : tsig) : siglist :=
  match acc with
  | SLUnit => if top then SLOne s else SLStruct [s]
  | SLOne one => SLStruct [one; s]
  | SLStruct l => SLStruct (l ++ [s])
  end.
Definition sl_finish (acc : siglist) : tsig :=
  match acc with SLUnit => TLeaf CUnit | SLOne s => s | SLStruct l => TStruct Dynamic l end.

(* length r = length inp, without building the numbers *)
Fixpoint same_len (a b : bytes) : bool :=
  match a, b with
  | [], [] => true
  | _ :: a', _ :: b' => same_len a' b'
  | _, _ => false
  end.

(* fn parse_signature = alt((simple_type, dict, array, structure, #[gvariant] maybe, b'h')),
   fn many = repeat(1.., parse_signature) [.fold(…)],  rep_loop = the loop of (fold_)repeat1_ after the first element *)
Fixpoint parse_signature (fuel : nat) (co gv : bool) (inp : bytes) {struct fuel} : pres tsig :=
  match fuel with
  | O => PAbn Fuel
  | S f =>
      palt simple_type
     (palt (p_dict (parse_signature f co gv) co)
     (palt (p_array (parse_signature f co gv) co)
     (palt (p_struct (many f co gv false))
     (palt (if gv then p_maybe (parse_signature f co gv) co else pfail)
           p_fd)))) inp
  end
with many (fuel : nat) (co gv top : bool) (inp : bytes) {struct fuel} : pres tsig :=
  match fuel with
  | O => PAbn Fuel
  | S f =>
      match parse_signature f co gv inp with
      | PFail => PFail
      | PAbn x => PAbn x
      | POk t r =>
          match rep_loop f co gv r with
          | PFail => PFail
          | PAbn x => PAbn x
          | POk ts r' =>
              POk (if co then TLeaf CUnit                                   (* .map(|_: ()| Signature::Unit) *)
                   else sl_finish (fold_left (sl_step top) (t :: ts) SLUnit)) r'
          end
      end
  end
with rep_loop (fuel : nat) (co gv : bool) (inp : bytes) {struct fuel} : pres (list tsig) :=
  match fuel with
  | O => PAbn Fuel
  | S f =>
      match parse_signature f co gv inp with
      | PFail => POk [] inp                                  (* backtrack: input.reset(&start); break *)
      | PAbn x => PAbn x
      | POk t r =>
          if same_len r inp then PAbn Assert                    (* infinite loop check: input.eof_offset() == len *)
          else match rep_loop f co gv r with
               | POk ts r' => POk (t :: ts) r'
               | PFail => PFail
               | PAbn x => PAbn x
               end
      end
  end.

Inductive perr := InvalidSignature | OutOfFuel.

Definition parse_fuel (s : bytes) : nat := 2 * length s + 2.

(* alt((unit, many top_level)).parse(bytes): unit = eof; Parser::parse requires that everything is consumed *)
Definition parse (co gv : bool) (s : bytes) : res perr tsig :=
  let r := match s with
           | [] => POk (TLeaf CUnit) []
           | _ => many (parse_fuel s) co gv true s
           end in
  match r with
  | POk t [] => Ok t
  | POk _ (_ :: _) => Err InvalidSignature
  | PFail => Err InvalidSignature
  | PAbn Fuel => Err OutOfFuel
  | PAbn Assert => Panic PAssert
  end.

Definition from_str (gv : bool) (s : bytes) : res perr tsig := parse false gv s.
(* pub fn validate(bytes) = parse(bytes, true).map(|_| ()) *)
Definition validate (gv : bool) (s : bytes) : bool := is_ok (parse true gv s).

(* ------------------------------------------------------------------ PartialEq, Ord, Hash
   Child and Fields implement none of them: every comparison goes through Deref to the Signature. *)

Fixpoint sig_eq (a b : tsig) : bool :=
  match a, b with
  | TLeaf x, TLeaf y => code_eqb x y
  | TArray _ x, TArray _ y => sig_eq x y
  | TDict _ k1 _ v1, TDict _ k2 _ v2 => sig_eq k1 k2 && sig_eq v1 v2
  | TStruct _ f1, TStruct _ f2 =>          (* a.iter().eq(b.iter()) *)
      (fix go (l1 l2 : list tsig) : bool :=
         match l1, l2 with
         | [], [] => true
         | x :: l1', y :: l2' => sig_eq x y && go l1' l2'
         | _, _ => false
         end) f1 f2
  | TMaybe _ x, TMaybe _ y => sig_eq x y
  | _, _ => false
  end.

(* Signature::kind_rank (fix 668536e1): the position of the kind in the order used by Ord — the numbers Hash feeds *)
Definition kind_rank (t : tsig) : N :=
  match t with
  | TLeaf c => code_num c
  | TArray _ _ => 15
  | TDict _ _ _ _ => 16
  | TStruct _ _ => 17
  | TMaybe _ _ => 18
  end%N.

Fixpoint sig_cmp (a b : tsig) : comparison :=
  match a, b with
  | TLeaf x, TLeaf y =>                    (* (Unit, Unit) | (U8, U8) | … => Equal, otherwise the last arm *)
      if code_eqb x y then Eq else N.compare (kind_rank a) (kind_rank b)
  | TArray _ x, TArray _ y => sig_cmp x y
  | TDict _ k1 _ v1, TDict _ k2 _ v2 => match sig_cmp k1 k2 with Eq => sig_cmp v1 v2 | o => o end
  | TStruct _ f1, TStruct _ f2 =>          (* a.iter().cmp(b.iter()) *)
      (fix go (l1 l2 : list tsig) : comparison :=
         match l1, l2 with
         | [], [] => Eq
         | [], _ :: _ => Lt
         | _ :: _, [] => Gt
         | x :: l1', y :: l2' => match sig_cmp x y with Eq => go l1' l2' | o => o end
         end) f1 f2
  | TMaybe _ x, TMaybe _ y => sig_cmp x y
  | _, _ => N.compare (kind_rank a) (kind_rank b)     (* (_, _) => self.kind_rank().cmp(&other.kind_rank()) *)
  end.

(* the sequence of i32 values written to the Hasher *)
Fixpoint sig_hash (t : tsig) : list N :=
  match t with
  | TLeaf c => [code_num c]
  | TArray _ c => 15%N :: sig_hash c
  | TDict _ k _ v => 16%N :: sig_hash k ++ sig_hash v
  | TStruct _ fs => 17%N :: concat (map sig_hash fs)
  | TMaybe _ c => 18%N :: sig_hash c
  end.

(* ------------------------------------------------------------------ PartialEq<&str> *)

Definition is_cont (b : byte) : bool := (128 <=? bn b)%N && (bn b <? 192)%N.   (* UTF-8 continuation byte *)

(* str::is_char_boundary *)
Definition is_char_boundary (s : bytes) (i : nat) : bool :=
  if Nat.eqb i 0 then true
  else match nth_error s i with
       | None => Nat.eqb i (length s)
       | Some b => negb (is_cont b)
       end.

(* &s[a..b] *)
Definition slice (s : bytes) (a b : nat) : res unit bytes :=
  if Nat.leb a b && Nat.leb b (length s) && is_char_boundary s a && is_char_boundary s b
  then Ok (firstn (b - a) (skipn a s))
  else Panic PSlice.

(* str::split_at *)
Definition split_at (s : bytes) (mid : nat) : res unit (bytes * bytes) :=
  if Nat.leb mid (length s) && is_char_boundary s mid then Ok (firstn mid s, skipn mid s) else Panic PSlice.

Fixpoint ends_with1 (c : byte) (s : bytes) : bool :=
  match s with
  | [] => false
  | x :: r => match r with [] => beq x c | _ :: _ => ends_with1 c r end
  end.

Fixpoint eq_str (t : tsig) (other : bytes) : res unit bool :=
  match t with
  | TLeaf c => Ok (lbeq other (code_char c))             (* Unit => other.is_empty(), U8 => *other == "y", … *)
  | TArray _ child =>
      if Nat.ltb (length other) 2 || negb (starts_with (B "a") other) then Ok false
      else let* o := slice other 1 (length other) in eq_str child o
  | TMaybe _ child =>
      if Nat.ltb (length other) 2 || negb (starts_with (B "m") other) then Ok false
      else let* o := slice other 1 (length other) in eq_str child o
  | TDict _ k _ v =>
      if Nat.ltb (length other) 4 || negb (starts_with (B "a{") other) || negb (ends_with1 "}" other) then Ok false
      else
        let* inner := slice other 2 (length other - 1) in
        let* kv := split_at inner 1 in
        let* a := eq_str k (fst kv) in
        if a then eq_str v (snd kv) else Ok false
  | TStruct r fs =>
      let sl := string_len (TStruct r fs) in
      let ol := length other in
      if Nat.ltb sl ol || (negb (Nat.eqb sl ol) && negb (Nat.eqb sl (ol + 2))) then Ok false
      else
        let loop (fstr : bytes) :=
          (fix go (l : list tsig) (start : nat) : res unit bool :=
             match l with
             | [] => Ok true
             | f :: l' =>
                 let len := string_len f in
                 let e := start + len in
                 if Nat.ltb (length fstr) e then Ok false
                 else
                   let* piece := slice fstr start e in
                   let* b := eq_str f piece in
                   if b then go l' (start + len) else Ok false
             end) fs 0 in
        if Nat.eqb sl ol then (let* fstr := slice other 1 (ol - 1) in loop fstr)
        else if Nat.eqb ol 0 then Ok false
        else loop other
  end.

(* ------------------------------------------------------------------ stack use of the parser
   [depth_ps]/[depth_many]/[depth_loop] follow the control flow of the three functions above and return
   (rest on success, deepest chain of nested parse_signature activations). Each activation holds a bounded
   number of native frames (alt, tuple, delimited, repeat, fold closures), so the native stack needed is
   proportional to this number; when it exceeds the thread's stack the process is aborted (SIGSEGV). *)
Definition dmax (a b : N) : N := N.max a b.
Definition dS (a : N) : N := N.succ a.

Fixpoint depth_ps (fuel : nat) (gv : bool) (inp : bytes) {struct fuel} : option bytes * N :=
  match fuel with
  | O => (None, 0%N)
  | S f =>
      match simple_type inp with
      | POk _ r => (Some r, 1%N)
      | _ =>
        (* dict *)
        let d_dict :=
          match lit1 "a" inp with None => (None, 1%N) | Some r0 =>
          match lit1 "{" r0 with None => (None, 1%N) | Some r1 =>
          match depth_ps f gv r1 with
          | (None, d1) => (None, dS d1)
          | (Some r2, d1) =>
              match depth_ps f gv r2 with
              | (None, d2) => (None, dS (dmax d1 d2))
              | (Some r3, d2) => (lit1 "}" r3, dS (dmax d1 d2))
              end
          end end end in
        match d_dict with
        | (Some r, d) => (Some r, d)
        | (None, dd) =>
          (* array *)
          let d_arr :=
            match lit1 "a" inp with None => (None, 1%N) | Some r0 =>
            match depth_ps f gv r0 with (o, d1) => (o, dS d1) end end in
          match d_arr with
          | (Some r, d) => (Some r, dmax dd d)
          | (None, da) =>
            (* structure *)
            let d_st :=
              match lit1 "(" inp with None => (None, 1%N) | Some r0 =>
              match depth_many f gv r0 with
              | (None, d1) => (None, dS d1)
              | (Some r1, d1) => (lit1 ")" r1, dS d1)
              end end in
            match d_st with
            | (Some r, d) => (Some r, dmax (dmax dd da) d)
            | (None, ds) =>
              (* maybe *)
              let d_mb :=
                if gv then
                  match lit1 "m" inp with None => (None, 1%N) | Some r0 =>
                  match depth_ps f gv r0 with (o, d1) => (o, dS d1) end end
                else (None, 1%N) in
              match d_mb with
              | (Some r, d) => (Some r, dmax (dmax (dmax dd da) ds) d)
              | (None, dm) => (lit1 "h" inp, dmax (dmax (dmax dd da) ds) dm)
              end
            end
          end
        end
      end
  end
with depth_many (fuel : nat) (gv : bool) (inp : bytes) {struct fuel} : option bytes * N :=
  match fuel with
  | O => (None, 0%N)
  | S f =>
      match depth_ps f gv inp with
      | (None, d) => (None, d)
      | (Some r, d) => match depth_loop f gv r with (o, d') => (o, dmax d d') end
      end
  end
with depth_loop (fuel : nat) (gv : bool) (inp : bytes) {struct fuel} : option bytes * N :=
  match fuel with
  | O => (None, 0%N)
  | S f =>
      match depth_ps f gv inp with
      | (None, d) => (Some inp, d)
      | (Some r, d) => match depth_loop f gv r with (o, d') => (o, dmax d d') end
      end
  end.

(* deepest chain of parse_signature activations while parsing [s] *)
Definition stack_used (gv : bool) (s : bytes) : N :=
  match s with [] => 0%N | _ => snd (depth_many (parse_fuel s) gv s) end.
