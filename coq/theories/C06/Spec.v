(* C06/Spec.v — the D-Bus type-signature grammar, written from the D-Bus specification ("Type System":
   basic types, variant, arrays, structs with at least one field, dict entries only as array element
   type and with a basic key, at most 255 bytes, at most 32 nested arrays and 32 nested structs),
   plus GVariant's maybe type [m<type>] when [gv] is set.  Independent of the parser's model. *)
From ZV Require Import Base.Bytes.

(* basic (fixed or string-like) type codes: these are the legal dict keys *)
Definition basic_code (c : byte) : bool :=
  match c with
  | "y" | "b" | "n" | "q" | "i" | "u" | "x" | "t" | "d" | "s" | "o" | "g" | "h" => true
  | _ => false
  end%byte.

Definition max_len : nat := 255.
Definition max_array_nesting : nat := 32.
Definition max_struct_nesting : nat := 32.

(* [ctype gv na ns s]: s is a single complete type with at most na nested arrays and ns nested structs.
   [cseq gv na ns s]: s is a (possibly empty) sequence of such types. *)
Inductive ctype (gv : bool) : nat -> nat -> bytes -> Prop :=
| CT_basic : forall na ns c, basic_code c = true -> ctype gv na ns [c]
| CT_variant : forall na ns, ctype gv na ns (B "v")
| CT_array : forall na ns s, ctype gv na ns s -> ctype gv (S na) ns ("a"%byte :: s)
| CT_dict : forall na ns k v, basic_code k = true -> ctype gv na ns v ->
                              ctype gv (S na) ns (B "a{" ++ k :: v ++ B "}")
| CT_struct : forall na ns body, cseq gv na ns body -> body <> [] ->
                                 ctype gv na (S ns) ("("%byte :: body ++ B ")")
| CT_maybe : forall na ns s, gv = true -> ctype gv na ns s -> ctype gv na ns ("m"%byte :: s)
with cseq (gv : bool) : nat -> nat -> bytes -> Prop :=
| CS_nil : forall na ns, cseq gv na ns []
| CS_cons : forall na ns s r, ctype gv na ns s -> cseq gv na ns r -> cseq gv na ns (s ++ r).

Scheme ctype_mind := Minimality for ctype Sort Prop
  with cseq_mind := Minimality for cseq Sort Prop.
Combined Scheme ctype_cseq_mind from ctype_mind, cseq_mind.

(* a signature: zero or more complete types, at most 255 bytes *)
Definition valid_signature (gv : bool) (s : bytes) : Prop :=
  cseq gv max_array_nesting max_struct_nesting s /\ length s <= max_len.

(* ---- executable decision procedure (the oracle).  [scan] consumes one complete type, [scan_seq]
   consumes complete types up to the end of the input or a closing parenthesis. *)
Fixpoint scan (fuel : nat) (gv : bool) (na ns : nat) (s : bytes) {struct fuel} : option bytes :=
  match fuel with
  | O => None
  | S f =>
      match s with
      | [] => None
      | c :: r =>
          if basic_code c || beq c "v" then Some r
          else if beq c "a" then
            match na with
            | O => None
            | S na' =>
                match r with
                | b :: r1 =>
                    if beq b "{" then
                      match r1 with
                      | k :: r2 =>
                          if basic_code k then
                            match scan f gv na' ns r2 with
                            | Some (e :: r3) => if beq e "}" then Some r3 else None
                            | _ => None
                            end
                          else None
                      | [] => None
                      end
                    else scan f gv na' ns r
                | [] => None
                end
            end
          else if beq c "(" then
            match ns with
            | O => None
            | S ns' =>
                match r with
                | [] => None
                | b :: _ =>
                    if beq b ")" then None                      (* empty struct *)
                    else match scan_seq f gv na ns' r with
                         | Some (e :: r2) => if beq e ")" then Some r2 else None
                         | _ => None
                         end
                end
            end
          else if beq c "m" then (if gv then scan f gv na ns r else None)
          else None
      end
  end
with scan_seq (fuel : nat) (gv : bool) (na ns : nat) (s : bytes) {struct fuel} : option bytes :=
  match fuel with
  | O => None
  | S f =>
      match s with
      | [] => Some []
      | c :: _ =>
          if beq c ")" then Some s
          else match scan f gv na ns s with
               | Some r => scan_seq f gv na ns r
               | None => None
               end
      end
  end.

Definition scan_fuel (s : bytes) : nat := 2 * length s + 1.

Definition valid_sigb (gv : bool) (s : bytes) : bool :=
  match scan_seq (scan_fuel s) gv max_array_nesting max_struct_nesting s with
  | Some [] => Nat.leb (length s) max_len
  | _ => false
  end.

(* ---- what the formatter must print for a valid signature string (used by the oracle only):
   a single complete type is printed as it is; several are printed as one struct, in parentheses;
   to_string_no_parens drops the outermost parentheses of a struct. *)
Definition is_single (gv : bool) (s : bytes) : bool :=
  match scan (scan_fuel s) gv (length s) (length s) s with Some [] => true | _ => false end.

Definition canon (gv : bool) (s : bytes) : bytes :=
  match s with
  | [] => []
  | _ => if is_single gv s then s else B "(" ++ s ++ B ")"
  end.

Definition strip_parens (s : bytes) : bytes :=
  match s with
  | c :: r => if beq c "(" then removelast r else s
  | [] => []
  end.

Definition canon_noparens (gv : bool) (s : bytes) : bytes :=
  if is_single gv s then strip_parens s else s.
