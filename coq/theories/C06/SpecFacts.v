(* C06/SpecFacts.v — the decision procedure [valid_sigb] decides the inductive grammar [valid_signature]. *)
From ZV Require Import Base.Bytes C06.Spec.
From Coq Require Import Lia.

Lemma beq_true : forall a b, beq a b = true -> a = b.
Proof. intros a b H. apply Byte.byte_dec_bl. exact H. Qed.

Lemma beq_refl : forall a, beq a a = true.
Proof. intros a. apply Byte.byte_dec_lb. reflexivity. Qed.

(* first byte of a complete type *)
Definition type_start (c : byte) : bool :=
  basic_code c || beq c "v" || beq c "a" || beq c "(" || beq c "m".

Lemma type_start_not_close : forall c, type_start c = true -> beq c ")" = false /\ beq c "{" = false.
Proof. intros c; destruct c; cbv; intros H; try discriminate H; split; reflexivity. Qed.

Lemma ctype_head : forall gv na ns p, ctype gv na ns p -> exists c r, p = c :: r /\ type_start c = true.
Proof.
  intros gv na ns p H. destruct H.
  - exists c, []. split; [reflexivity|]. unfold type_start. rewrite H. reflexivity.
  - exists "v"%byte, []. split; reflexivity.
  - exists "a"%byte, s. split; reflexivity.
  - eexists "a"%byte, _. split; reflexivity.
  - eexists "("%byte, _. split; reflexivity.
  - exists "m"%byte, s. split; reflexivity.
Qed.

Lemma cseq_head : forall gv na ns body, cseq gv na ns body -> body <> [] ->
  exists c r, body = c :: r /\ type_start c = true.
Proof.
  intros gv na ns body H. induction H as [|na ns s r Hs Hr IH]; intros Hne.
  - congruence.
  - destruct (ctype_head _ _ _ _ Hs) as (c & r' & -> & Hc). exists c, (r' ++ r). split; [reflexivity|exact Hc].
Qed.

(* ---------------------------------------------------------------- soundness *)
Lemma scan_sound_both : forall fuel gv,
  (forall na ns s rest, scan fuel gv na ns s = Some rest -> exists p, s = p ++ rest /\ ctype gv na ns p) /\
  (forall na ns s rest, scan_seq fuel gv na ns s = Some rest ->
     exists body, s = body ++ rest /\ cseq gv na ns body /\ (rest = [] \/ exists r, rest = ")"%byte :: r)).
Proof.
  induction fuel as [|f IH]; intros gv.
  - split; intros; discriminate.
  - destruct (IH gv) as [IHs IHq]. split.
    + intros na ns s rest H. cbn [scan] in H.
      destruct s as [|c r]; [discriminate|].
      destruct (basic_code c || beq c "v") eqn:Hbv.
      { inversion H; subst rest. exists [c]. split; [reflexivity|].
        destruct (basic_code c) eqn:Hb.
        - apply CT_basic; exact Hb.
        - cbn in Hbv. apply beq_true in Hbv. subst c. apply CT_variant. }
      destruct (beq c "a") eqn:Ha.
      { apply beq_true in Ha. subst c. destruct na as [|na']; [discriminate|].
        destruct r as [|b r1]; [discriminate|].
        destruct (beq b "{") eqn:Hb.
        - apply beq_true in Hb. subst b. destruct r1 as [|k r2]; [discriminate|].
          destruct (basic_code k) eqn:Hk; [|discriminate].
          destruct (scan f gv na' ns r2) as [[|e r3]|] eqn:Hsc; try discriminate.
          destruct (beq e "}") eqn:He; [|discriminate]. apply beq_true in He. subst e.
          inversion H; subst rest.
          destruct (IHs _ _ _ _ Hsc) as (p & -> & Hp).
          exists (B "a{" ++ k :: p ++ B "}"). split.
          + cbn. rewrite <- app_assoc. reflexivity.
          + apply CT_dict; assumption.
        - destruct (IHs _ _ _ _ H) as (p & Hr & Hp). exists ("a"%byte :: p). split.
          + cbn. rewrite <- Hr. reflexivity.
          + apply CT_array; exact Hp. }
      destruct (beq c "(") eqn:Ho.
      { apply beq_true in Ho. subst c. destruct ns as [|ns']; [discriminate|].
        destruct r as [|b r1]; [discriminate|].
        destruct (beq b ")") eqn:Hb; [discriminate|].
        destruct (scan_seq f gv na ns' (b :: r1)) as [[|e r2]|] eqn:Hsc; try discriminate.
        destruct (beq e ")") eqn:He; [|discriminate]. apply beq_true in He. subst e.
        inversion H; subst rest.
        destruct (IHq _ _ _ _ Hsc) as (body & Hr & Hb' & _).
        exists ("("%byte :: body ++ B ")"). split.
        - cbn. rewrite <- app_assoc. cbn. rewrite <- Hr. reflexivity.
        - apply CT_struct; [exact Hb'|].
          intros ->. cbn in Hr. inversion Hr; subst b. rewrite beq_refl in Hb. discriminate. }
      destruct (beq c "m") eqn:Hm; [|discriminate].
      apply beq_true in Hm. subst c. destruct gv eqn:Hgv; [|discriminate].
      destruct (IHs _ _ _ _ H) as (p & Hr & Hp). exists ("m"%byte :: p). split.
      * cbn. rewrite <- Hr. reflexivity.
      * apply CT_maybe; [reflexivity|exact Hp].
    + intros na ns s rest H. cbn [scan_seq] in H.
      destruct s as [|c r].
      { inversion H; subst rest. exists []. split; [reflexivity|]. split; [apply CS_nil|left; reflexivity]. }
      destruct (beq c ")") eqn:Hc.
      { apply beq_true in Hc. subst c. inversion H; subst rest. exists []. split; [reflexivity|].
        split; [apply CS_nil|right; eexists; reflexivity]. }
      destruct (scan f gv na ns (c :: r)) as [r'|] eqn:Hsc; [|discriminate].
      destruct (IHs _ _ _ _ Hsc) as (p & Hp1 & Hp2).
      destruct (IHq _ _ _ _ H) as (body & Hb1 & Hb2 & Hb3).
      exists (p ++ body). split; [|split].
      * rewrite Hp1, Hb1. rewrite app_assoc. reflexivity.
      * apply CS_cons; assumption.
      * exact Hb3.
Qed.

(* ---------------------------------------------------------------- completeness *)
Lemma scan_complete_both : forall gv,
  (forall na ns p, ctype gv na ns p ->
     forall fuel rest, 2 * length p <= fuel -> scan fuel gv na ns (p ++ rest) = Some rest) /\
  (forall na ns body, cseq gv na ns body ->
     forall fuel rest, 2 * length body + 1 <= fuel -> (rest = [] \/ exists r, rest = ")"%byte :: r) ->
     scan_seq fuel gv na ns (body ++ rest) = Some rest).
Proof.
  intros gv. apply ctype_cseq_mind.
  - (* basic *) intros na ns c Hc fuel rest Hf. destruct fuel as [|f]; [cbn in Hf; lia|].
    cbn [app scan]. rewrite Hc. reflexivity.
  - (* variant *) intros na ns fuel rest Hf. destruct fuel as [|f]; [cbn in Hf; lia|]. reflexivity.
  - (* array *) intros na ns s Hs IH fuel rest Hf. destruct fuel as [|f]; [cbn in Hf; lia|].
    destruct (ctype_head _ _ _ _ Hs) as (c & r & Hsr & Hc).
    destruct (type_start_not_close _ Hc) as [_ Hnb].
    cbn [app scan]. cbn [basic_code orb beq Byte.eqb]. change (beq "a" "v") with false. change (beq "a" "a") with true.
    cbn [orb]. cbv iota.
    assert (Hgo : scan f gv na ns (s ++ rest) = Some rest) by (apply IH; cbn in Hf; lia).
    rewrite Hsr in *. cbn [app] in *. rewrite Hnb. exact Hgo.
  - (* dict *) intros na ns k v Hk Hv IH fuel rest Hf. destruct fuel as [|f]; [cbn in Hf; lia|].
    replace ((B "a{" ++ k :: v ++ B "}") ++ rest) with ("a"%byte :: "{"%byte :: k :: (v ++ "}"%byte :: rest)).
    2:{ cbn. rewrite <- app_assoc. reflexivity. }
    cbn [scan]. change (basic_code "a" || beq "a" "v") with false. change (beq "a" "a") with true.
    change (beq "{" "{") with true. cbv iota. rewrite Hk.
    rewrite IH.
    + change (beq "}" "}") with true. reflexivity.
    + cbn in Hf. rewrite app_length in Hf. cbn in Hf. lia.
  - (* struct *) intros na ns body Hb IH Hne fuel rest Hf. destruct fuel as [|f]; [cbn in Hf; lia|].
    destruct (cseq_head _ _ _ _ Hb Hne) as (c & r & Hbr & Hc).
    destruct (type_start_not_close _ Hc) as [Hnc _].
    replace (("("%byte :: body ++ B ")") ++ rest) with ("("%byte :: (body ++ ")"%byte :: rest)).
    2:{ cbn. rewrite <- app_assoc. reflexivity. }
    cbn [scan]. change (basic_code "(" || beq "(" "v") with false. change (beq "(" "a") with false.
    change (beq "(" "(") with true. cbv iota.
    assert (Hgo : scan_seq f gv na ns (body ++ ")"%byte :: rest) = Some (")"%byte :: rest)).
    { apply IH; [|right; eexists; reflexivity]. cbn in Hf. rewrite app_length in Hf. cbn in Hf. lia. }
    rewrite Hbr in *. cbn [app] in *. rewrite Hnc. rewrite Hgo. change (beq ")" ")") with true. reflexivity.
  - (* maybe *) intros na ns s Hgv Hs IH fuel rest Hf. destruct fuel as [|f]; [cbn in Hf; lia|].
    cbn [app scan]. change (basic_code "m" || beq "m" "v") with false. change (beq "m" "a") with false.
    change (beq "m" "(") with false. change (beq "m" "m") with true. cbv iota. subst gv.
    apply IH. cbn in Hf. lia.
  - (* nil *) intros na ns fuel rest Hf Hrest. destruct fuel as [|f]; [lia|]. cbn [app scan_seq].
    destruct Hrest as [->|(r & ->)]; reflexivity.
  - (* cons *) intros na ns s r Hs IHs Hr IHr fuel rest Hf Hrest. destruct fuel as [|f]; [lia|].
    destruct (ctype_head _ _ _ _ Hs) as (c & r' & Hsr & Hc).
    destruct (type_start_not_close _ Hc) as [Hnc _].
    rewrite app_length in Hf.
    assert (Hlen : 1 <= length s) by (rewrite Hsr; cbn; lia).
    rewrite <- app_assoc.
    assert (H1 : scan f gv na ns (s ++ r ++ rest) = Some (r ++ rest)) by (apply IHs; lia).
    assert (H2 : scan_seq f gv na ns (r ++ rest) = Some rest) by (apply IHr; [lia|exact Hrest]).
    cbn [scan_seq]. rewrite Hsr in *. cbn [app] in *. rewrite Hnc. rewrite H1. exact H2.
Qed.

Theorem valid_sigb_iff : forall gv s, valid_sigb gv s = true <-> valid_signature gv s.
Proof.
  intros gv s. unfold valid_sigb, valid_signature. split.
  - destruct (scan_seq (scan_fuel s) gv max_array_nesting max_struct_nesting s) as [[|? ?]|] eqn:H; try discriminate.
    intros Hl. apply Nat.leb_le in Hl. split; [|exact Hl].
    destruct (scan_sound_both (scan_fuel s) gv) as [_ Hq].
    destruct (Hq _ _ _ _ H) as (body & Hb & Hc & _). rewrite app_nil_r in Hb. subst body. exact Hc.
  - intros [Hc Hl].
    destruct (scan_complete_both gv) as [_ Hq].
    pose proof (Hq _ _ _ Hc (scan_fuel s) [] ltac:(unfold scan_fuel; lia) (or_introl eq_refl)) as H.
    rewrite app_nil_r in H. rewrite H. apply Nat.leb_le. exact Hl.
Qed.

Lemma valid_sigb_false_iff : forall gv s, valid_sigb gv s = false <-> ~ valid_signature gv s.
Proof.
  intros gv s. rewrite <- valid_sigb_iff. destruct (valid_sigb gv s); split; intros H; congruence.
Qed.
