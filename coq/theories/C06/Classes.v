(* C06/Classes.v — predicates on signature trees, the representation-erasing map, and the decidable
   known-deviation classes of C06 (definitions only; used by the driver and by the theorems). *)
From ZV Require Import Base.Bytes Base.Res Base.Sig C06.Model.

(* forget Child::Static/Dynamic and Fields::Static/Dynamic *)
Fixpoint erase (t : tsig) : tsig :=
  match t with
  | TLeaf c => TLeaf c
  | TArray _ c => TArray Dynamic (erase c)
  | TDict _ k _ v => TDict Dynamic (erase k) Dynamic (erase v)
  | TStruct _ fs => TStruct Dynamic (map erase fs)
  | TMaybe _ c => TMaybe Dynamic (erase c)
  end.

(* the plain trees of Base/Sig.v used by the other properties *)
Definition leaf_sig (c : code) : sig :=
  match c with
  | CUnit => SUnit | CU8 => SU8 | CBool => SBool | CI16 => SI16 | CU16 => SU16 | CI32 => SI32 | CU32 => SU32
  | CI64 => SI64 | CU64 => SU64 | CF64 => SF64 | CStr => SStr | CSig => SSig | CObjPath => SObjPath
  | CVariant => SVariant | CFd => SFd
  end.
Fixpoint to_sig (t : tsig) : sig :=
  match t with
  | TLeaf c => leaf_sig c
  | TArray _ c => SArray (to_sig c)
  | TDict _ k _ v => SDict (to_sig k) (to_sig v)
  | TStruct _ fs => SStruct (map to_sig fs)
  | TMaybe _ c => SMaybe (to_sig c)
  end.

(* trees that have a parseable string form: no Unit below the top, no empty struct, Maybe only with gvariant *)
Fixpoint parseable (gv : bool) (t : tsig) : bool :=
  match t with
  | TLeaf c => negb (code_eqb c CUnit)
  | TArray _ c => parseable gv c
  | TDict _ k _ v => parseable gv k && parseable gv v
  | TStruct _ fs => match fs with [] => false | _ => forallb (parseable gv) fs end
  | TMaybe _ c => gv && parseable gv c
  end.

Definition is_struct (t : tsig) : bool := match t with TStruct _ _ => true | _ => false end.

Definition basic_leaf (t : tsig) : bool :=
  match t with
  | TLeaf CUnit | TLeaf CVariant => false
  | TLeaf _ => true
  | _ => false
  end.

(* every dict key is a basic type *)
Fixpoint basic_keys (t : tsig) : bool :=
  match t with
  | TLeaf _ => true
  | TArray _ c => basic_keys c
  | TDict _ k _ v => basic_leaf k && basic_keys v
  | TStruct _ fs => forallb basic_keys fs
  | TMaybe _ c => basic_keys c
  end.

(* deepest chain of nested arrays (the array of a dict counts) / of nested structs *)
Fixpoint adepth (t : tsig) : nat :=
  match t with
  | TLeaf _ => 0
  | TArray _ c => S (adepth c)
  | TDict _ k _ v => S (Nat.max (adepth k) (adepth v))
  | TStruct _ fs => list_max (map adepth fs)
  | TMaybe _ c => adepth c
  end.
Fixpoint sdepth (t : tsig) : nat :=
  match t with
  | TLeaf _ => 0
  | TArray _ c => sdepth c
  | TDict _ k _ v => Nat.max (sdepth k) (sdepth v)
  | TStruct _ fs => S (list_max (map sdepth fs))
  | TMaybe _ c => sdepth c
  end.

Fixpoint has_struct (t : tsig) : bool :=
  match t with
  | TLeaf _ => false
  | TArray _ c => has_struct c
  | TDict _ k _ v => has_struct k || has_struct v
  | TStruct _ _ => true
  | TMaybe _ c => has_struct c
  end.

(* the complete types a parsed string consists of: a struct that was written without the outer
   parentheses stands for its fields *)
Definition top_types (s : bytes) (t : tsig) : list tsig :=
  match t with
  | TLeaf CUnit => []
  | TStruct _ fs => if lbeq (show t) s then [t] else fs
  | _ => [t]
  end.

Definition within_limits (t : tsig) : bool :=
  Nat.leb (adepth t) 32 && Nat.leb (sdepth t) 32.

(* ---- the known-deviation classes of the acceptance statement *)
Inductive kclass := KNone | KNonBasicKey | KNesting | KLength.

Definition classify (gv : bool) (s : bytes) : kclass :=
  match from_str gv s with
  | Ok t =>
      if negb (basic_keys t) then KNonBasicKey
      else if negb (forallb within_limits (top_types s t)) then KNesting
      else if Nat.ltb 255 (length s) then KLength
      else KNone
  | _ => KNone
  end.

(* accepted although the D-Bus grammar forbids it: a non-basic dict key, more than 32 nested arrays or
   structs, or more than 255 bytes *)
Definition Known_C06 (gv : bool) (s : bytes) : bool :=
  match classify gv s with KNone => false | _ => true end.

(* the parser's recursion is considered to overflow a thread's stack beyond this many nested activations
   (8 MiB main thread, a few hundred bytes per activation; measured: aborts between 10000 and 20000) *)
Definition deep_threshold : N := 5000.
Definition Known_deep (gv : bool) (s : bytes) : bool := N.ltb deep_threshold (stack_used gv s).
