(* C06/Run.v — line driver.  Case lines (an optional first word "gv" selects the gvariant feature):
     p <sig> | px <hex>                 eq <sig> <other> | eqx <hex> <hex>
     repr <treeA> <treeB>               deep <n> <open> <mid> <close>
   (raw forms: "_" = empty string; hex forms and deep parts: "-" = empty).
   Output: model <TAB> spec <TAB> class, see harness/hsig/src/main.rs for the observation formats. *)
From ZV Require Import Base.Bytes Base.Res Base.Sig C06.Model C06.Spec C06.Classes.

Definition colon : bytes := B ":".
Definition nat_dec (n : nat) : bytes := dec_of_N (N.of_nat n).
Definition star : bytes := B "*".

Definition eq_tok (r : res unit bool) : bytes :=
  match r with Ok true => B "T" | Ok false => B "F" | Err _ => B "P" | Panic _ => B "P" end.

Definition class_name (k : kclass) : bytes :=
  match k with
  | KNone => dash
  | KNonBasicKey => B "nonbasic_key"
  | KNesting => B "nesting"
  | KLength => B "length"
  end.

(* ---- p *)
Definition obs_parse (gv : bool) (s : bytes) : bytes :=
  match from_str gv s with
  | Ok t => B "OK:" ++ show t ++ colon ++ show_noparens t ++ colon ++ nat_dec (string_len t) ++ colon
            ++ eq_tok (eq_str t s) ++ colon ++ bool_tok (validate gv s)
  | Err InvalidSignature => B "ERR:" ++ bool_tok (validate gv s)
  | Err OutOfFuel => B "FUEL"
  | Panic _ => B "PANIC"
  end.

Definition spec_parse (gv : bool) (s : bytes) : bytes :=
  if valid_sigb gv s
  then B "OK:" ++ canon gv s ++ colon ++ canon_noparens gv s ++ colon ++ nat_dec (length (canon gv s)) ++ B ":T:T"
  else B "ERR:F".

Definition run_p (gv : bool) (s : bytes) : outp :=
  {| o_model := obs_parse gv s; o_spec := spec_parse gv s; o_class := class_name (classify gv s) |}.

(* ---- eq *)
Definition run_eq (gv : bool) (s other : bytes) : outp :=
  match from_str gv s with
  | Ok t =>
      {| o_model := eq_tok (eq_str t other);
         o_spec := if valid_sigb gv s && valid_sigb gv other
                   then bool_tok (lbeq (canon gv s) (canon gv other)) else dash;
         o_class := if negb (basic_keys t) then B "nonbasic_key"
                    else if has_struct t then B "eq_str_struct_delims" else dash |}
  | _ => {| o_model := B "NOSIG"; o_spec := dash; o_class := dash |}
  end.

(* ---- repr: tagged trees in prefix syntax *)
Definition tag_of (c : byte) : option repr :=
  if beq c "S" then Some Static else if beq c "D" then Some Dynamic else None.

Fixpoint ptree (fuel : nat) (inp : bytes) {struct fuel} : option (tsig * bytes) :=
  match fuel with
  | O => None
  | S f =>
      match inp with
      | [] => None
      | c :: r =>
          if beq c "_" then Some (TLeaf CUnit, r)
          else if beq c "h" then Some (TLeaf CFd, r)
          else match simple_code c with
          | Some k => Some (TLeaf k, r)
          | None =>
              if beq c "A" || beq c "M" then
                match r with
                | tg :: r1 =>
                    match tag_of tg, ptree f r1 with
                    | Some rp, Some (t, r2) => Some (if beq c "A" then TArray rp t else TMaybe rp t, r2)
                    | _, _ => None
                    end
                | [] => None
                end
              else if beq c "E" then
                match r with
                | tg :: r1 =>
                    match tag_of tg, ptree f r1 with
                    | Some rk, Some (k, tg2 :: r3) =>
                        match tag_of tg2, ptree f r3 with
                        | Some rv, Some (v, r4) => Some (TDict rk k rv v, r4)
                        | _, _ => None
                        end
                    | _, _ => None
                    end
                | [] => None
                end
              else if beq c "R" then
                match r with
                | tg :: r1 =>
                    match tag_of tg, pfields f r1 with
                    | Some rp, Some (fs, r2) => Some (TStruct rp fs, r2)
                    | _, _ => None
                    end
                | [] => None
                end
              else None
          end
      end
  end
with pfields (fuel : nat) (inp : bytes) {struct fuel} : option (list tsig * bytes) :=
  match fuel with
  | O => None
  | S f =>
      match inp with
      | [] => None
      | c :: r =>
          if beq c "." then Some ([], r)
          else match ptree f inp with
               | Some (t, r1) => match pfields f r1 with Some (ts, r2) => Some (t :: ts, r2) | None => None end
               | None => None
               end
      end
  end.

Definition whole_tree (s : bytes) : option tsig :=
  match ptree (2 * length s + 2) s with Some (t, []) => Some t | _ => None end.

Fixpoint uses_maybe (t : tsig) : bool :=
  match t with
  | TLeaf _ => false
  | TArray _ c => uses_maybe c
  | TDict _ k _ v => uses_maybe k || uses_maybe v
  | TStruct _ fs => existsb uses_maybe fs
  | TMaybe _ _ => true
  end.

Definition repr_eqb (a b : repr) : bool :=
  match a, b with Static, Static | Dynamic, Dynamic => true | _, _ => false end.

(* plain structural equality, tags included (used on erased trees by the oracle) *)
Fixpoint tsig_eqb (a b : tsig) : bool :=
  match a, b with
  | TLeaf x, TLeaf y => code_eqb x y
  | TArray r1 x, TArray r2 y => repr_eqb r1 r2 && tsig_eqb x y
  | TMaybe r1 x, TMaybe r2 y => repr_eqb r1 r2 && tsig_eqb x y
  | TDict a1 k1 b1 v1, TDict a2 k2 b2 v2 => repr_eqb a1 a2 && repr_eqb b1 b2 && tsig_eqb k1 k2 && tsig_eqb v1 v2
  | TStruct r1 f1, TStruct r2 f2 =>
      repr_eqb r1 r2 &&
      (fix go (l1 l2 : list tsig) : bool :=
         match l1, l2 with
         | [], [] => true
         | x :: l1', y :: l2' => tsig_eqb x y && go l1' l2'
         | _, _ => false
         end) f1 f2
  | _, _ => false
  end.

Definition token_hex (n : N) : bytes := hex_of_bytes [nb n; x00; x00; x00].   (* i32, little endian *)
Definition cmp_tok (c : comparison) : bytes := match c with Lt => B "L" | Eq => B "E" | Gt => B "G" end.
Fixpoint n_list_eqb (a b : list N) : bool :=
  match a, b with
  | [], [] => true
  | x :: a', y :: b' => N.eqb x y && n_list_eqb a' b'
  | _, _ => false
  end.

Definition run_repr (gv : bool) (sa sb : bytes) : outp :=
  match whole_tree sa, whole_tree sb with
  | Some a, Some b =>
      if negb gv && (uses_maybe a || uses_maybe b)
      then {| o_model := B "NOGV"; o_spec := dash; o_class := dash |}
      else
        let heq := bool_tok (n_list_eqb (sig_hash a) (sig_hash b)) in
        let tail_m := concat (map token_hex (sig_hash a)) ++ colon ++ show a ++ colon ++ nat_dec (string_len a) in
        let shown := Sig.show (to_sig a) in
        let tail_s := star ++ colon ++ shown ++ colon ++ nat_dec (length shown) in
        {| o_model := bool_tok (sig_eq a b) ++ colon ++ heq ++ colon ++ heq ++ colon ++ cmp_tok (sig_cmp a b)
                      ++ colon ++ tail_m;
           o_spec := (if tsig_eqb (erase a) (erase b) then B "T:T:T:E:" else B "F:*:*:*:") ++ tail_s;
           o_class := dash |}
  | _, _ => bad_case
  end.

(* ---- deep *)
Fixpoint rep (n : nat) (u : bytes) : bytes := match n with O => [] | S k => u ++ rep k u end.

Definition run_deep (gv : bool) (n : nat) (op mid cl : bytes) : outp :=
  let s := rep n op ++ mid ++ rep n cl in
  let body :=
    match from_str gv s with
    | Ok t => B "OK:" ++ nat_dec (string_len t)
    | Err InvalidSignature => B "ERR"
    | Err OutOfFuel => B "FUEL"
    | Panic _ => B "PANIC"
    end in
  {| o_model := B "D" ++ dec_of_N (stack_used gv s) ++ B "|" ++ body;
     o_spec := if valid_sigb gv s then B "OK:" ++ nat_dec (length (canon gv s)) else B "ERR";
     o_class := if Known_deep gv s then B "deep_recursion" else class_name (classify gv s) |}.

(* ---- dispatch *)
Definition raw_arg (w : option bytes) : bytes :=
  match w with None => [] | Some x => if lbeq x (B "_") then [] else x end.
Definition hex_arg (w : option bytes) : option bytes :=
  match w with None => Some [] | Some x => if lbeq x dash then Some [] else bytes_of_hex x end.
Definition part_arg (x : bytes) : bytes := if lbeq x dash then [] else x.

Definition run_cmd (gv : bool) (ws : list bytes) : outp :=
  match ws with
  | cmd :: args =>
      if lbeq cmd (B "p") then
        match args with [] | [_] => run_p gv (raw_arg (hd_error args)) | _ => bad_case end
      else if lbeq cmd (B "px") then
        match args with
        | [] | [_] => match hex_arg (hd_error args) with Some s => run_p gv s | None => bad_case end
        | _ => bad_case
        end
      else if lbeq cmd (B "eq") then
        match args with
        | [] | [_] | [_; _] => run_eq gv (raw_arg (nth_error args 0)) (raw_arg (nth_error args 1))
        | _ => bad_case
        end
      else if lbeq cmd (B "eqx") then
        match args with
        | [] | [_] | [_; _] =>
            match hex_arg (nth_error args 0), hex_arg (nth_error args 1) with
            | Some a, Some b => run_eq gv a b
            | _, _ => bad_case
            end
        | _ => bad_case
        end
      else if lbeq cmd (B "repr") then
        match args with [a; b] => run_repr gv a b | _ => bad_case end
      else if lbeq cmd (B "deep") then
        match args with
        | [n; op; mid; cl] =>
            match N_of_dec n with
            | Some k => run_deep gv (N.to_nat k) (part_arg op) (part_arg mid) (part_arg cl)
            | None => bad_case
            end
        | _ => bad_case
        end
      else bad_case
  | [] => bad_case
  end.

Definition run_case (line : bytes) : outp :=
  match split_on sp line with
  | w :: rest => if lbeq w (B "gv") then run_cmd true rest else run_cmd false (w :: rest)
  | [] => bad_case
  end.

Definition run (line : bytes) : bytes := render (run_case line).
