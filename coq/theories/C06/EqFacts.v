(* C06/EqFacts.v — string_len, representation independence of Eq/Hash/Ord/Display/PartialEq<&str>,
   and what PartialEq<&str> decides. *)
From ZV Require Import Base.Bytes Base.Res Base.Sig C06.Model C06.Classes C06.SpecFacts C06.ParseFacts.
From Coq Require Import Lia.

(* ---------------------------------------------------------------- string_len *)
Lemma fold_len : forall fs a,
  Forall (fun f => string_len f = length (show f)) fs ->
  fold_left (fun len f => len + string_len f) fs a = a + length (shows fs).
Proof.
  intros fs a H. revert a. induction H as [|f fs Hf _ IH]; intros a; cbn [fold_left].
  - cbn. lia.
  - rewrite IH. rewrite shows_length_cons. rewrite Hf. lia.
Qed.

Theorem string_len_show : forall t, string_len t = length (show t).
Proof.
  induction t as [c|r c IH|rk k rv v IHk IHv|r fs IH|r c IH] using tsig_ind'.
  - destruct c; reflexivity.
  - rewrite show_array. cbn [string_len length]. rewrite IH. reflexivity.
  - unfold show in *. cbn [string_len write_as_string]. rewrite !app_length. cbn [length B list_byte_of_string]. rewrite IHk, IHv.
    cbn. lia.
  - rewrite show_struct. cbn [string_len]. rewrite fold_len by exact IH. rewrite !app_length. cbn. lia.
  - rewrite show_maybe. cbn [string_len length]. rewrite IH. reflexivity.
Qed.

(* ---------------------------------------------------------------- erase *)
Lemma code_eqb_eq : forall a b, code_eqb a b = true <-> a = b.
Proof. intros a b. split; [destruct a, b; cbn; intros H; try discriminate; reflexivity|intros ->; destruct b; reflexivity]. Qed.

Lemma was_erase : forall o t, write_as_string o (erase t) = write_as_string o t.
Proof.
  intros o t. revert o. induction t as [c|r c IH|rk k rv v IHk IHv|r fs IH|r c IH] using tsig_ind'; intros o;
    cbn [erase write_as_string]; try rewrite ?IH, ?IHk, ?IHv; try reflexivity.
  f_equal. f_equal. f_equal. rewrite map_map. induction IH as [|f fs Hf _ IHfs]; cbn; [reflexivity|].
  rewrite Hf, IHfs. reflexivity.
Qed.

Lemma show_erase : forall t, show (erase t) = show t.
Proof. intros. apply was_erase. Qed.

Lemma string_len_erase : forall t, string_len (erase t) = string_len t.
Proof. intros. rewrite !string_len_show. rewrite show_erase. reflexivity. Qed.

Lemma hash_erase : forall t, sig_hash (erase t) = sig_hash t.
Proof.
  induction t as [c|r c IH|rk k rv v IHk IHv|r fs IH|r c IH] using tsig_ind';
    cbn [erase sig_hash]; try rewrite ?IH, ?IHk, ?IHv; try reflexivity.
  f_equal. f_equal. rewrite map_map. induction IH as [|f fs Hf _ IHfs]; cbn; [reflexivity|].
  rewrite Hf, IHfs. reflexivity.
Qed.

(* sig_eq decides equality up to representation *)
Theorem sig_eq_iff : forall a b, sig_eq a b = true <-> erase a = erase b.
Proof.
  induction a as [c|r c IH|rk k rv v IHk IHv|r fs IH|r c IH] using tsig_ind'; intros b; destruct b as [c'|r' c'|rk' k' rv' v'|r' fs'|r' c'];
    cbn [sig_eq erase]; try (split; intros H; discriminate H).
  - rewrite code_eqb_eq. split; intros H; congruence.
  - rewrite IH. split; intros H; congruence.
  - rewrite andb_true_iff, IHk, IHv. split; [intros [H1 H2]; congruence|intros H; inversion H; split; reflexivity].
  - assert (G : forall l1 l2, Forall (fun a => forall b, sig_eq a b = true <-> erase a = erase b) l1 ->
        ((fix go (l1 l2 : list tsig) : bool :=
            match l1, l2 with
            | [], [] => true
            | x :: l1', y :: l2' => sig_eq x y && go l1' l2'
            | _, _ => false
            end) l1 l2 = true <-> map erase l1 = map erase l2)).
    { intros l1 l2 Hl. revert l2. induction Hl as [|x l1 Hx _ IHl]; intros [|y l2]; cbn [map]; try (split; intros H; discriminate H).
      - split; reflexivity.
      - rewrite andb_true_iff, Hx, IHl. split; [intros [H1 H2]; congruence|intros H; inversion H; split; reflexivity]. }
    rewrite (G fs fs' IH). split; intros H; congruence.
  - rewrite IH. split; intros H; congruence.
Qed.

Lemma code_num_inj : forall x y, code_num x = code_num y -> x = y.
Proof. intros x y H. destruct x, y; try reflexivity; discriminate H. Qed.

Lemma code_num_lt : forall x, (code_num x < 15)%N.
Proof. intros x. destruct x; reflexivity. Qed.

(* Ord (after fix 668536e1) calls two signatures equal exactly when they are equal up to representation *)
Theorem sig_cmp_eq_iff : forall a b, sig_cmp a b = Eq <-> erase a = erase b.
Proof.
  induction a as [c|r c IH|rk k rv v IHk IHv|r fs IH|r c IH] using tsig_ind'; intros b;
    destruct b as [c'|r' c'|rk' k' rv' v'|r' fs'|r' c']; cbn [sig_cmp erase kind_rank];
    try (split; [intros H; apply N.compare_eq in H; try discriminate H;
                 try pose proof (code_num_lt c) as L; try pose proof (code_num_lt c') as L'; lia
                |intros H; discriminate H]).
  - destruct (code_eqb c c') eqn:E.
    + apply code_eqb_eq in E. subst. split; reflexivity.
    + split; intros H.
      * apply N.compare_eq in H. apply code_num_inj in H. subst. congruence.
      * inversion H; subst. assert (code_eqb c' c' = true) by (apply code_eqb_eq; reflexivity). congruence.
  - rewrite IH. split; intros H; congruence.
  - split.
    + intros H. destruct (sig_cmp k k') eqn:Ek; try discriminate H.
      apply IHk in Ek. apply IHv in H. congruence.
    + intros H. inversion H as [[Hk Hv]]. apply IHk in Hk. apply IHv in Hv. rewrite Hk. exact Hv.
  - assert (G : forall l1 l2, Forall (fun a => forall b, sig_cmp a b = Eq <-> erase a = erase b) l1 ->
        ((fix go (l1 l2 : list tsig) : comparison :=
            match l1, l2 with
            | [], [] => Eq
            | [], _ :: _ => Lt
            | _ :: _, [] => Gt
            | x :: l1', y :: l2' => match sig_cmp x y with Eq => go l1' l2' | o => o end
            end) l1 l2 = Eq <-> map erase l1 = map erase l2)).
    { intros l1 l2 Hl. revert l2. induction Hl as [|x l1 Hx _ IHl]; intros [|y l2]; cbn [map];
        try (split; intros H; discriminate H).
      - split; reflexivity.
      - split.
        + intros H. destruct (sig_cmp x y) eqn:Exy; try discriminate H.
          apply Hx in Exy. apply IHl in H. congruence.
        + intros H. inversion H as [[H1 H2]]. apply Hx in H1. apply IHl in H2. rewrite H1. exact H2. }
    rewrite (G fs fs' IH). split; intros H; congruence.
  - rewrite IH. split; intros H; congruence.
Qed.

Lemma sig_cmp_erase_eq : forall a b, erase a = erase b -> sig_cmp a b = Eq.
Proof. intros a b H. apply sig_cmp_eq_iff. exact H. Qed.

(* ---------------------------------------------------------------- PartialEq<&str>: slices of strings without continuation bytes *)
Definition noc (s : bytes) : Prop := Forall (fun b => is_cont b = false) s.

Lemma noc_app : forall a b, noc (a ++ b) <-> noc a /\ noc b.
Proof. intros. unfold noc. apply Forall_app. Qed.

Lemma noc_boundary : forall s i, noc s -> i <= length s -> is_char_boundary s i = true.
Proof.
  intros s i Hn Hi. unfold is_char_boundary. destruct (Nat.eqb i 0); [reflexivity|].
  destruct (nth_error s i) as [b|] eqn:E.
  - apply nth_error_In in E. unfold noc in Hn. rewrite Forall_forall in Hn. rewrite (Hn _ E). reflexivity.
  - apply nth_error_None in E. apply Nat.eqb_eq. lia.
Qed.

Lemma slice_mid : forall p m q, noc (p ++ m ++ q) ->
  slice (p ++ m ++ q) (length p) (length p + length m) = Ok m.
Proof.
  intros p m q Hn. unfold slice.
  assert (L : length (p ++ m ++ q) = length p + length m + length q) by (rewrite !app_length; lia).
  rewrite !noc_boundary by (assumption || lia).
  replace (Nat.leb (length p) (length p + length m)) with true by (symmetry; apply Nat.leb_le; lia).
  replace (Nat.leb (length p + length m) (length (p ++ m ++ q))) with true by (symmetry; apply Nat.leb_le; lia).
  cbn [andb]. f_equal.
  rewrite skipn_app. rewrite skipn_all. rewrite Nat.sub_diag. cbn [skipn app].
  replace (length p + length m - length p) with (length m) by lia.
  rewrite firstn_app. rewrite firstn_all. rewrite Nat.sub_diag. cbn. rewrite app_nil_r. reflexivity.
Qed.

Lemma show_noc : forall t, noc (show t).
Proof.
  induction t as [c|r c IH|rk k rv v IHk IHv|r fs IH|r c IH] using tsig_ind'.
  - destruct c; repeat constructor.
  - rewrite show_array. constructor; [reflexivity|exact IH].
  - unfold show in *. cbn [write_as_string]. apply noc_app. split; [repeat constructor|].
    apply noc_app. split; [|repeat constructor]. apply noc_app. split; assumption.
  - rewrite show_struct. apply noc_app. split; [repeat constructor|]. apply noc_app. split; [|repeat constructor].
    unfold shows. induction IH as [|f fs Hf _ IHfs]; cbn; [constructor|]. apply noc_app. split; assumption.
  - rewrite show_maybe. constructor; [reflexivity|exact IH].
Qed.

Lemma shows_noc : forall ts, noc (shows ts).
Proof.
  induction ts as [|t ts IH]; [constructor|]. unfold shows. cbn. apply noc_app. split; [apply show_noc|exact IH].
Qed.

Lemma lbeq_refl : forall a : bytes, lbeq a a = true.
Proof. induction a as [|x a IH]; cbn; [reflexivity|]. rewrite beq_refl, IH. reflexivity. Qed.

Lemma ends_with1_snoc : forall c s, ends_with1 c (s ++ [c]) = true.
Proof.
  intros c s. induction s as [|x s IH]; cbn [app ends_with1].
  - apply beq_refl.
  - destruct (s ++ [c]) eqn:E; [destruct s; discriminate|]. exact IH.
Qed.

Lemma lbeq_eq : forall a b : bytes, lbeq a b = true <-> a = b.
Proof.
  induction a as [|x a IH]; destruct b as [|y b]; cbn; split; intros H; try congruence; try discriminate.
  - apply andb_prop in H. destruct H as [H1 H2]. apply beq_true in H1. apply IH in H2. congruence.
  - inversion H; subst. rewrite beq_refl. cbn. apply IH. reflexivity.
Qed.

(* convenient shapes of slice_mid *)
Lemma slice_tail1 : forall x m, noc (x :: m) -> slice (x :: m) 1 (length (x :: m)) = Ok m.
Proof.
  intros x m Hn. pose proof (slice_mid [x] m [] ltac:(rewrite app_nil_r; exact Hn)) as H.
  rewrite app_nil_r in H. cbn [app length] in *. exact H.
Qed.

Lemma slice_inner1 : forall x m z, noc (x :: m ++ [z]) ->
  slice (x :: m ++ [z]) 1 (length (x :: m ++ [z]) - 1) = Ok m.
Proof.
  intros x m z Hn. pose proof (slice_mid [x] m [z] Hn) as H. cbn [app length] in *.
  rewrite app_length. cbn [length]. replace (S (length m + 1) - 1) with (1 + length m) by lia. exact H.
Qed.

Lemma slice_inner2 : forall x y m z, noc (x :: y :: m ++ [z]) ->
  slice (x :: y :: m ++ [z]) 2 (length (x :: y :: m ++ [z]) - 1) = Ok m.
Proof.
  intros x y m z Hn. pose proof (slice_mid [x; y] m [z] Hn) as H. cbn [app length] in *.
  rewrite app_length. cbn [length]. replace (S (S (length m + 1)) - 1) with (2 + length m) by lia. exact H.
Qed.

Lemma split_at_1 : forall x m, noc (x :: m) -> split_at (x :: m) 1 = Ok ([x], m).
Proof.
  intros x m Hn. unfold split_at. rewrite noc_boundary by (assumption || cbn; lia). reflexivity.
Qed.

(* the loop over the fields of a struct *)
Definition fields_loop (fstr : bytes) : list tsig -> nat -> res unit bool :=
  fix go (l : list tsig) (start : nat) : res unit bool :=
    match l with
    | [] => Ok true
    | f :: l' =>
        let len := string_len f in
        let e := start + len in
        if Nat.ltb (length fstr) e then Ok false
        else
          let* piece := slice fstr start e in
          let* b := eq_str f piece in
          if b then go l' (start + len) else Ok false
    end.

Lemma eq_str_struct : forall r fs other,
  eq_str (TStruct r fs) other =
  let sl := string_len (TStruct r fs) in
  let ol := length other in
  if Nat.ltb sl ol || (negb (Nat.eqb sl ol) && negb (Nat.eqb sl (ol + 2))) then Ok false
  else if Nat.eqb sl ol then (let* fstr := slice other 1 (ol - 1) in fields_loop fstr fs 0)
  else if Nat.eqb ol 0 then Ok false
  else fields_loop other fs 0.
Proof. reflexivity. Qed.

Lemma fields_loop_complete : forall fstr fs pre,
  fstr = pre ++ shows fs -> noc fstr ->
  Forall (fun f => eq_str f (show f) = Ok true) fs ->
  fields_loop fstr fs (length pre) = Ok true.
Proof.
  intros fstr fs. induction fs as [|f fs IH]; intros pre Hf Hn Hall; [reflexivity|].
  inversion Hall as [|? ? Hf1 Hfs]; subst.
  cbn [fields_loop]. fold (fields_loop (pre ++ shows (f :: fs))).
  rewrite string_len_show.
  assert (E : pre ++ shows (f :: fs) = pre ++ show f ++ shows fs) by reflexivity.
  assert (L : length (pre ++ shows (f :: fs)) = length pre + length (show f) + length (shows fs)).
  { rewrite E. rewrite !app_length. lia. }
  replace (Nat.ltb (length (pre ++ shows (f :: fs))) (length pre + length (show f))) with false
    by (symmetry; apply Nat.ltb_ge; lia).
  rewrite E. rewrite slice_mid by (rewrite <- E; exact Hn). cbn [bind]. rewrite Hf1. cbn [bind].
  replace (length pre + length (show f)) with (length (pre ++ show f)) by (rewrite app_length; reflexivity).
  apply IH.
  - rewrite <- app_assoc. reflexivity.
  - exact Hn.
  - exact Hfs.
Qed.

(* a parseable signature with basic keys equals its own formatted string *)
Theorem eq_str_show : forall gv t, parseable gv t = true -> basic_keys t = true -> eq_str t (show t) = Ok true.
Proof.
  intros gv t. induction t as [c|r c IH|rk k rv v IHk IHv|r fs IH|r c IH] using tsig_ind'; intros Hp Hb.
  - cbn [eq_str]. change (show (TLeaf c)) with (code_char c). rewrite lbeq_refl. reflexivity.
  - cbn [parseable basic_keys] in Hp, Hb. pose proof (show_nonempty _ _ Hp) as Hne. pose proof (show_noc (TArray r c)) as Hn.
    rewrite show_array in *. cbn [eq_str].
    replace (Nat.ltb (length ("a"%byte :: show c)) 2) with false by (symmetry; apply Nat.ltb_ge; cbn; lia).
    change (starts_with (B "a") ("a"%byte :: show c)) with true. cbn [orb negb].
    rewrite slice_tail1 by exact Hn. cbn [bind]. apply IH; assumption.
  - cbn [parseable basic_keys] in Hp, Hb. apply andb_prop in Hp. destruct Hp as [Hpk Hpv]. apply andb_prop in Hb. destruct Hb as [Hbk Hbv].
    pose proof (show_nonempty _ _ Hpv) as Hne. pose proof (show_noc (TDict rk k rv v)) as Hn.
    destruct k as [kc| | | |]; try discriminate Hbk.
    assert (Hkc : exists c0, code_char kc = [c0]) by (destruct kc; try discriminate Hbk; eexists; reflexivity).
    destruct Hkc as (c0 & Hkc).
    assert (E : show (TDict rk (TLeaf kc) rv v) = "a"%byte :: "{"%byte :: (c0 :: show v) ++ ["}"%byte]).
    { unfold show. cbn [write_as_string]. rewrite Hkc. reflexivity. }
    rewrite E in *. cbn [eq_str].
    replace (Nat.ltb (length ("a"%byte :: "{"%byte :: (c0 :: show v) ++ ["}"%byte])) 4) with false
      by (symmetry; apply Nat.ltb_ge; cbn; rewrite app_length; cbn; lia).
    change (starts_with (B "a{") ("a"%byte :: "{"%byte :: (c0 :: show v) ++ ["}"%byte])) with true.
    assert (Hew : ends_with1 "}" ("a"%byte :: "{"%byte :: (c0 :: show v) ++ ["}"%byte]) = true).
    { change ("a"%byte :: "{"%byte :: (c0 :: show v) ++ ["}"%byte]) with (("a"%byte :: "{"%byte :: c0 :: show v) ++ ["}"%byte]).
      apply ends_with1_snoc. }
    rewrite Hew. cbn [orb negb].
    rewrite slice_inner2 by exact Hn. cbn [bind].
    assert (Hn2 : noc (c0 :: show v)).
    { pose proof (show_noc (TLeaf kc)) as Hk0. change (show (TLeaf kc)) with (code_char kc) in Hk0. rewrite Hkc in Hk0.
      inversion Hk0 as [|? ? Hc0 _]. constructor; [exact Hc0|apply show_noc]. }
    rewrite split_at_1 by exact Hn2. cbn [bind fst snd eq_str]. rewrite Hkc. rewrite lbeq_refl. cbn [bind].
    apply IHv; assumption.
  - cbn [parseable] in Hp. destruct fs as [|t0 ts]; [discriminate|]. cbn [basic_keys] in Hb.
    assert (Hall : Forall (fun f => eq_str f (show f) = Ok true) (t0 :: ts)).
    { rewrite forallb_forall in Hp, Hb. rewrite Forall_forall in *. intros x Hx. apply IH; auto. }
    pose proof (show_noc (TStruct r (t0 :: ts))) as Hn.
    rewrite eq_str_struct. cbv zeta. rewrite string_len_show. rewrite Nat.ltb_irrefl, Nat.eqb_refl. cbn [orb negb andb].
    rewrite show_struct in *. change (B "(" ++ shows (t0 :: ts) ++ B ")") with ("("%byte :: shows (t0 :: ts) ++ [")"%byte]) in *.
    rewrite slice_inner1 by exact Hn. cbn [bind].
    apply (fields_loop_complete (shows (t0 :: ts)) (t0 :: ts) []); [reflexivity|apply shows_noc|exact Hall].
  - cbn [parseable basic_keys] in Hp, Hb. apply andb_prop in Hp. destruct Hp as [_ Hp].
    pose proof (show_nonempty _ _ Hp) as Hne. pose proof (show_noc (TMaybe r c)) as Hn.
    rewrite show_maybe in *. cbn [eq_str].
    replace (Nat.ltb (length ("m"%byte :: show c)) 2) with false by (symmetry; apply Nat.ltb_ge; cbn; lia).
    change (starts_with (B "m") ("m"%byte :: show c)) with true. cbn [orb negb].
    rewrite slice_tail1 by exact Hn. cbn [bind]. apply IH; assumption.
Qed.

(* … and the form without the outer parentheses *)
Theorem eq_str_show_noparens : forall gv r t0 ts,
  forallb (parseable gv) (t0 :: ts) = true -> forallb basic_keys (t0 :: ts) = true ->
  eq_str (TStruct r (t0 :: ts)) (shows (t0 :: ts)) = Ok true.
Proof.
  intros gv r t0 ts Hp Hb.
  assert (Hall : Forall (fun f => eq_str f (show f) = Ok true) (t0 :: ts)).
  { rewrite forallb_forall in Hp, Hb. rewrite Forall_forall. intros x Hx. apply (eq_str_show gv); auto. }
  assert (Hp0 : parseable gv t0 = true) by (cbn in Hp; apply andb_prop in Hp; tauto).
  pose proof (show_nonempty _ _ Hp0) as Hne.
  rewrite eq_str_struct. cbv zeta. rewrite string_len_show, show_struct. rewrite !app_length.
  change (length (B "(")) with 1. change (length (B ")")) with 1. set (n := length (shows (t0 :: ts))).
  assert (Hn1 : 1 <= n) by (unfold n; rewrite shows_length_cons; lia).
  replace (Nat.ltb (1 + (n + 1)) n) with false by (symmetry; apply Nat.ltb_ge; lia).
  replace (Nat.eqb (1 + (n + 1)) n) with false by (symmetry; apply Nat.eqb_neq; lia).
  replace (Nat.eqb (1 + (n + 1)) (n + 2)) with true by (symmetry; apply Nat.eqb_eq; lia).
  replace (Nat.eqb n 0) with false by (symmetry; apply Nat.eqb_neq; lia).
  cbn [orb negb andb].
  apply (fields_loop_complete (shows (t0 :: ts)) (t0 :: ts) []); [reflexivity|apply shows_noc|exact Hall].
Qed.

(* ---------------------------------------------------------------- PartialEq<&str> does not depend on the representation *)
Lemma bind_ext : forall {E A B0} (r : res E A) (f g : A -> res E B0), (forall a, f a = g a) -> bind r f = bind r g.
Proof. intros E A B0 [a|e|p] f g H; cbn; [apply H|reflexivity|reflexivity]. Qed.

Lemma fields_loop_erase : forall fstr fs start,
  Forall (fun f => forall s, eq_str (erase f) s = eq_str f s) fs ->
  fields_loop fstr (map erase fs) start = fields_loop fstr fs start.
Proof.
  intros fstr fs start H. revert start. induction H as [|f fs Hf _ IH]; intros start; [reflexivity|].
  cbn [map fields_loop]. fold (fields_loop fstr). rewrite string_len_erase.
  destruct (Nat.ltb (length fstr) (start + string_len f)); [reflexivity|].
  apply bind_ext. intros piece. rewrite Hf. apply bind_ext. intros b. destruct b; [apply IH|reflexivity].
Qed.

Theorem eq_str_erase : forall t s, eq_str (erase t) s = eq_str t s.
Proof.
  induction t as [c|r c IH|rk k rv v IHk IHv|r fs IH|r c IH] using tsig_ind'; intros s.
  - reflexivity.
  - cbn [erase eq_str]. destruct (Nat.ltb (length s) 2 || negb (starts_with (B "a") s)); [reflexivity|].
    apply bind_ext. intros o. apply IH.
  - cbn [erase eq_str].
    destruct (Nat.ltb (length s) 4 || negb (starts_with (B "a{") s) || negb (ends_with1 "}" s)); [reflexivity|].
    apply bind_ext. intros inner. apply bind_ext. intros kv. rewrite IHk. apply bind_ext. intros a.
    destruct a; [apply IHv|reflexivity].
  - change (erase (TStruct r fs)) with (TStruct Dynamic (map erase fs)). rewrite !eq_str_struct. cbv zeta.
    change (TStruct Dynamic (map erase fs)) with (erase (TStruct r fs)). rewrite string_len_erase.
    destruct (Nat.ltb (string_len (TStruct r fs)) (length s)
              || negb (Nat.eqb (string_len (TStruct r fs)) (length s)) && negb (Nat.eqb (string_len (TStruct r fs)) (length s + 2)));
      [reflexivity|].
    destruct (Nat.eqb (string_len (TStruct r fs)) (length s)).
    + apply bind_ext. intros fstr. apply fields_loop_erase. exact IH.
    + destruct (Nat.eqb (length s) 0); [reflexivity|]. apply fields_loop_erase. exact IH.
  - cbn [erase eq_str]. destruct (Nat.ltb (length s) 2 || negb (starts_with (B "m") s)); [reflexivity|].
    apply bind_ext. intros o. apply IH.
Qed.

(* ---------------------------------------------------------------- PartialEq<&str> is sound on struct-free signatures *)
Lemma slice_ok : forall s a b m, slice s a b = Ok m -> m = firstn (b - a) (skipn a s) /\ a <= b /\ b <= length s.
Proof.
  intros s a b m H. unfold slice in H.
  destruct (Nat.leb a b) eqn:E1; [|discriminate]. destruct (Nat.leb b (length s)) eqn:E2; [|discriminate].
  cbn [andb] in H. destruct (is_char_boundary s a && is_char_boundary s b); [|discriminate].
  inversion H. apply Nat.leb_le in E1. apply Nat.leb_le in E2. auto.
Qed.

Lemma split_at_ok : forall s n x y, split_at s n = Ok (x, y) -> s = x ++ y.
Proof.
  intros s n x y H. unfold split_at in H. destruct (Nat.leb n (length s) && is_char_boundary s n); [|discriminate].
  inversion H. symmetry. apply firstn_skipn.
Qed.

Lemma starts_with_inv : forall p s, starts_with p s = true -> exists r, s = p ++ r.
Proof.
  induction p as [|a p IH]; intros s H; [exists s; reflexivity|].
  destruct s as [|b s]; [discriminate|]. cbn in H. apply andb_prop in H. destruct H as [H1 H2].
  apply beq_true in H1. subst b. destruct (IH _ H2) as (r & ->). exists r. reflexivity.
Qed.

Lemma ends_with1_inv : forall c s, ends_with1 c s = true -> exists p, s = p ++ [c].
Proof.
  intros c s. induction s as [|x s IH]; intros H; [discriminate|]. cbn [ends_with1] in H.
  destruct s as [|y s'].
  - apply beq_true in H. subst x. exists []. reflexivity.
  - destruct (IH H) as (p & Hp). exists (x :: p). rewrite Hp. reflexivity.
Qed.

Lemma bind_ok_true : forall {A} (r : res unit A) (f : A -> res unit bool),
  bind r f = Ok true -> exists a, r = Ok a /\ f a = Ok true.
Proof. intros A [a|e|p] f H; cbn in H; try discriminate. eauto. Qed.

Theorem eq_str_sound : forall t s, has_struct t = false -> eq_str t s = Ok true -> s = show t.
Proof.
  induction t as [c|r c IH|rk k rv v IHk IHv|r fs IH|r c IH] using tsig_ind'; intros s Hs H.
  - cbn [eq_str] in H. inversion H as [H']. apply lbeq_eq in H'. exact H'.
  - cbn [eq_str has_struct] in *.
    destruct (Nat.ltb (length s) 2) eqn:E1; [discriminate|].
    destruct (starts_with (B "a") s) eqn:E2; [|discriminate]. cbn [orb negb] in H.
    destruct (starts_with_inv _ _ E2) as (rest & ->). change (B "a") with ["a"%byte] in *. cbn [app] in *.
    destruct (bind_ok_true _ _ H) as (o & Ho & Hc). apply slice_ok in Ho. destruct Ho as (Ho & _ & _).
    cbn [length skipn] in Ho. replace (S (length rest) - 1) with (length rest) in Ho by lia.
    rewrite firstn_all in Ho. subst o. rewrite show_array. f_equal. apply IH; assumption.
  - cbn [eq_str has_struct] in *. apply orb_false_iff in Hs. destruct Hs as [Hsk Hsv].
    destruct (Nat.ltb (length s) 4) eqn:E1; [discriminate|]. apply Nat.ltb_ge in E1.
    destruct (starts_with (B "a{") s) eqn:E2; [|discriminate].
    destruct (ends_with1 "}" s) eqn:E3; [|discriminate]. cbn [orb negb] in H.
    destruct (starts_with_inv _ _ E2) as (rest & ->). change (B "a{") with ["a"%byte; "{"%byte] in *. cbn [app] in *.
    destruct (ends_with1_inv _ _ E3) as (p & Hp).
    destruct p as [|x [|y p']].
    { cbn in Hp. inversion Hp. }
    { cbn in Hp. inversion Hp. }
    cbn [app] in Hp. inversion Hp as [[Hx Hy Hr]]. subst rest. clear Hp.
    destruct (bind_ok_true _ _ H) as (inner & Hi & H1). apply slice_ok in Hi. destruct Hi as (Hi & _ & _).
    cbn [length skipn] in Hi. rewrite app_length in Hi. cbn [length] in Hi.
    replace (S (S (length p' + 1)) - 1 - 2) with (length p' + 0) in Hi by lia.
    rewrite firstn_app_2 in Hi. cbn [firstn] in Hi. rewrite app_nil_r in Hi. subst inner.
    destruct (bind_ok_true _ _ H1) as ([ks vs] & Hkv & H2). apply split_at_ok in Hkv.
    destruct (bind_ok_true _ _ H2) as (a & Hk & H3). cbn [fst snd] in *.
    destruct a; [|discriminate].
    apply IHk in Hk; [|exact Hsk]. apply IHv in H3; [|exact Hsv].
    subst p' ks vs. reflexivity.
  - discriminate Hs.
  - cbn [eq_str has_struct] in *.
    destruct (Nat.ltb (length s) 2) eqn:E1; [discriminate|].
    destruct (starts_with (B "m") s) eqn:E2; [|discriminate]. cbn [orb negb] in H.
    destruct (starts_with_inv _ _ E2) as (rest & ->). change (B "m") with ["m"%byte] in *. cbn [app] in *.
    destruct (bind_ok_true _ _ H) as (o & Ho & Hc). apply slice_ok in Ho. destruct Ho as (Ho & _ & _).
    cbn [length skipn] in Ho. replace (S (length rest) - 1) with (length rest) in Ho by lia.
    rewrite firstn_all in Ho. subst o. rewrite show_maybe. f_equal. apply IH; assumption.
Qed.
