(* C06/Proofs.v — the main proofs about [parse]: round trips, totality, check_only, acceptance vs the
   D-Bus grammar (full statement refuted, partial statement proved), recursion depth. *)
From ZV Require Import Base.Bytes Base.Res Base.Sig C06.Model C06.Spec C06.Classes C06.SpecFacts C06.ParseFacts C06.EqFacts C06.DepthFacts.
From Coq Require Import Lia.

(* ---------------------------------------------------------------- [parse] in terms of [many] *)
Definition finish (r : pres tsig) : res perr tsig :=
  match r with
  | POk t [] => Ok t
  | POk _ (_ :: _) => Err InvalidSignature
  | PFail => Err InvalidSignature
  | PAbn Fuel => Err OutOfFuel
  | PAbn Assert => Panic PAssert
  end.

Lemma parse_nonempty : forall co gv s, s <> [] -> parse co gv s = finish (many (parse_fuel s) co gv true s).
Proof. intros co gv [|c s] H; [congruence|reflexivity]. Qed.

Lemma parse_nil : forall co gv, parse co gv [] = Ok (TLeaf CUnit).
Proof. reflexivity. Qed.

Lemma finish_ok : forall r t, finish r = Ok t -> r = POk t [].
Proof. intros [t' [|c r]| |[|]] t H; cbn in H; try discriminate. inversion H; reflexivity. Qed.

Lemma parse_ok_inv : forall gv s t, from_str gv s = Ok t ->
  (s = [] /\ t = TLeaf CUnit) \/
  (exists ts, ts <> [] /\ s = shows ts /\ Forall (good gv) ts /\ t = pack true ts).
Proof.
  intros gv s t H. unfold from_str in H. destruct s as [|c s].
  - left. rewrite parse_nil in H. inversion H. split; reflexivity.
  - right. rewrite parse_nonempty in H by discriminate. apply finish_ok in H.
    destruct (parse_sound_all (parse_fuel (c :: s)) gv) as (_ & Hm & _).
    destruct (Hm _ _ _ _ H) as (ts & Hne & Hs & Hg & Ht). rewrite app_nil_r in Hs. eauto.
Qed.

Lemma shows_nonempty : forall gv t ts, parseable gv t = true -> shows (t :: ts) <> [].
Proof.
  intros gv t ts Hp E. pose proof (show_nonempty _ _ Hp) as H.
  assert (L : length (shows (t :: ts)) = 0) by (rewrite E; reflexivity).
  rewrite shows_length_cons in L. lia.
Qed.

Lemma parse_shows : forall gv t ts, forallb (parseable gv) (t :: ts) = true ->
  from_str gv (shows (t :: ts)) = Ok (pack true (map erase (t :: ts))).
Proof.
  intros gv t ts H. unfold from_str.
  assert (Hall : Forall (fun t => parseable gv t = true /\ complete_at gv t) (t :: ts)).
  { rewrite forallb_forall in H. rewrite Forall_forall. intros x Hx. split; [apply H; exact Hx|].
    apply ps_complete. apply H; exact Hx. }
  assert (Hp : parseable gv t = true) by (cbn in H; apply andb_prop in H; tauto).
  rewrite parse_nonempty by (eapply shows_nonempty; exact Hp).
  pose proof (many_complete gv true t ts Hall (parse_fuel (shows (t :: ts))) [] (stops_nil gv)) as Hm.
  rewrite app_nil_r in Hm. rewrite Hm; [reflexivity|]. unfold parse_fuel. lia.
Qed.

(* ---------------------------------------------------------------- round trips *)
Theorem parse_roundtrip : forall gv s t, from_str gv s = Ok t ->
  show t = s \/ (is_struct t = true /\ show_noparens t = s).
Proof.
  intros gv s t H. destruct (parse_ok_inv _ _ _ H) as [[-> ->]|(ts & Hne & -> & Hg & ->)].
  - left. reflexivity.
  - destruct ts as [|a [|b l]]; [congruence| |].
    + left. unfold shows. cbn. rewrite app_nil_r. reflexivity.
    + right. split; [reflexivity|]. unfold show_noparens, shows. cbn [pack write_as_string].
      rewrite app_nil_r. reflexivity.
Qed.

Theorem show_parse : forall gv t, t = TLeaf CUnit \/ parseable gv t = true ->
  from_str gv (show t) = Ok (erase t).
Proof.
  intros gv t [->|Hp]; [reflexivity|].
  pose proof (parse_shows gv t [] ltac:(cbn; rewrite Hp; reflexivity)) as H.
  unfold shows in H. cbn in H. rewrite app_nil_r in H. exact H.
Qed.

Theorem show_noparens_parse : forall gv r fs, 2 <= length fs -> forallb (parseable gv) fs = true ->
  from_str gv (show_noparens (TStruct r fs)) = Ok (erase (TStruct r fs)).
Proof.
  intros gv r fs Hl Hp. destruct fs as [|a [|b l]]; cbn in Hl; try lia.
  pose proof (parse_shows gv a (b :: l) Hp) as H.
  unfold show_noparens. cbn [write_as_string]. cbn [app]. rewrite app_nil_r. exact H.
Qed.

(* ---------------------------------------------------------------- totality: no fuel exhaustion, no panic *)
Theorem parse_total : forall co gv s, parse co gv s = Err InvalidSignature \/ exists t, parse co gv s = Ok t.
Proof.
  intros co gv s. destruct s as [|c s]; [right; eexists; reflexivity|].
  rewrite parse_nonempty by discriminate.
  destruct (no_abn_all (parse_fuel (c :: s)) co gv) as (_ & Hm & _).
  specialize (Hm true (c :: s)).
  destruct (many (parse_fuel (c :: s)) co gv true (c :: s)) as [t [|x r]| |x] eqn:E; cbn.
  - right. eexists; reflexivity.
  - left; reflexivity.
  - left; reflexivity.
  - exfalso. apply (Hm x); [unfold parse_fuel; lia|reflexivity].
Qed.

Corollary parse_never_out_of_fuel : forall co gv s, parse co gv s <> Err OutOfFuel.
Proof. intros co gv s. destruct (parse_total co gv s) as [->|(t & ->)]; discriminate. Qed.

Corollary parse_never_panics : forall co gv s, is_panic (parse co gv s) = false.
Proof. intros co gv s. destruct (parse_total co gv s) as [->|(t & ->)]; reflexivity. Qed.

(* ---------------------------------------------------------------- check_only accepts the same strings *)
Theorem validate_same : forall gv s, validate gv s = is_ok (from_str gv s).
Proof.
  intros gv s. unfold validate, from_str. destruct s as [|c s]; [reflexivity|].
  rewrite !parse_nonempty by discriminate.
  destruct (shape_all (parse_fuel (c :: s)) gv true) as (_ & Hm & _). specialize (Hm true (c :: s)).
  destruct (shape_cases _ _ Hm) as [(x & y & r & -> & ->)|[[-> ->]|(x & -> & ->)]]; try reflexivity.
  destruct r; reflexivity.
Qed.

(* ---------------------------------------------------------------- trees and the string grammar *)
Lemma basic_leaf_show : forall t, basic_leaf t = true -> exists c, show t = [c] /\ basic_code c = true.
Proof.
  intros t H. destruct t as [c| | | |]; try discriminate.
  destruct c; try discriminate; eexists; split; reflexivity.
Qed.

Lemma leaf_ctype : forall gv c na ns, code_eqb c CUnit = false -> ctype gv na ns (show (TLeaf c)).
Proof.
  intros gv c na ns H. destruct c; try discriminate; try (apply CT_basic; reflexivity). apply CT_variant.
Qed.

Lemma list_max_le_all : forall l n, list_max l <= n -> Forall (fun x => x <= n) l.
Proof. intros l n H. apply list_max_le. exact H. Qed.

(* a tree with basic keys inside the nesting budget formats to a complete type of the grammar *)
Lemma tree_ctype : forall gv t, parseable gv t = true -> basic_keys t = true ->
  forall na ns, adepth t <= na -> sdepth t <= ns -> ctype gv na ns (show t).
Proof.
  intros gv t. induction t as [c|r c IH|rk k rv v IHk IHv|r fs IH|r c IH] using tsig_ind';
    intros Hp Hb na ns Ha Hs.
  - apply leaf_ctype. cbn in Hp. destruct (code_eqb c CUnit); [discriminate|reflexivity].
  - cbn [parseable basic_keys adepth sdepth] in Hp, Hb, Ha, Hs.
    destruct na as [|na]; [lia|]. rewrite show_array. apply CT_array. apply IH; try assumption; lia.
  - cbn [parseable basic_keys adepth sdepth] in Hp, Hb, Ha, Hs. apply andb_prop in Hp. destruct Hp as [Hpk Hpv]. apply andb_prop in Hb. destruct Hb as [Hbk Hbv].
    destruct na as [|na]; [lia|].
    destruct (basic_leaf_show _ Hbk) as (c0 & Hc0 & Hbc).
    assert (E : show (TDict rk k rv v) = B "a{" ++ c0 :: show v ++ B "}").
    { unfold show in *. cbn [write_as_string]. rewrite Hc0. reflexivity. }
    rewrite E. apply CT_dict; [exact Hbc|]. apply IHv; try assumption; lia.
  - cbn [parseable] in Hp. destruct fs as [|t0 ts]; [discriminate|].
    cbn [basic_keys] in Hb. cbn [adepth sdepth] in Ha, Hs. destruct ns as [|ns]; [lia|].
    apply le_S_n in Hs. apply list_max_le_all in Ha. apply list_max_le_all in Hs.
    rewrite Forall_map in Ha, Hs. rewrite forallb_forall in Hp, Hb. rewrite Forall_forall in IH, Ha, Hs.
    rewrite show_struct. apply CT_struct.
    + assert (G : forall l, (forall x, In x l -> In x (t0 :: ts)) -> cseq gv na ns (shows l)).
      { induction l as [|x l IHl]; intros Hin; [apply CS_nil|].
        unfold shows. cbn [map concat]. apply CS_cons.
        - apply IH; [apply Hin; left; reflexivity|apply Hp|apply Hb|apply Ha|apply Hs]; apply Hin; left; reflexivity.
        - apply IHl. intros y Hy. apply Hin. right. exact Hy. }
      apply G. auto.
    + eapply shows_nonempty. apply Hp. left. reflexivity.
  - cbn [parseable basic_keys adepth sdepth] in Hp, Hb, Ha, Hs. apply andb_prop in Hp. destruct Hp as [Hgv Hp]. rewrite show_maybe.
    apply CT_maybe; [exact Hgv|]. apply IH; assumption.
Qed.

Lemma basic_code_leaf : forall c, basic_code c = true ->
  exists k, show (TLeaf k) = [c] /\ code_eqb k CUnit = false.
Proof.
  intros c H. destruct c; try discriminate H;
    first [ exists CU8; split; reflexivity | exists CBool; split; reflexivity | exists CI16; split; reflexivity
          | exists CU16; split; reflexivity | exists CI32; split; reflexivity | exists CU32; split; reflexivity
          | exists CI64; split; reflexivity | exists CU64; split; reflexivity | exists CF64; split; reflexivity
          | exists CStr; split; reflexivity | exists CSig; split; reflexivity | exists CObjPath; split; reflexivity
          | exists CFd; split; reflexivity ].
Qed.

(* every string of the grammar is the format of some parseable tree *)
Lemma ctype_tree : forall gv,
  (forall na ns p, ctype gv na ns p -> exists t, parseable gv t = true /\ show t = p) /\
  (forall na ns body, cseq gv na ns body -> exists ts, forallb (parseable gv) ts = true /\ shows ts = body).
Proof.
  intros gv. apply ctype_cseq_mind.
  - intros na ns c Hc. destruct (basic_code_leaf _ Hc) as (k & Hk & Hu). exists (TLeaf k). split; [cbn; rewrite Hu; reflexivity|exact Hk].
  - intros na ns. exists (TLeaf CVariant). split; reflexivity.
  - intros na ns s _ (t & Hp & Hs). exists (TArray Dynamic t). split; [exact Hp|]. rewrite show_array, Hs. reflexivity.
  - intros na ns k v Hk _ (t & Hp & Hs). destruct (basic_code_leaf _ Hk) as (kc & Hkc & Hu).
    exists (TDict Dynamic (TLeaf kc) Dynamic t). split.
    + cbn. rewrite Hu, Hp. reflexivity.
    + change (show (TDict Dynamic (TLeaf kc) Dynamic t)) with (B "a{" ++ (show (TLeaf kc) ++ show t) ++ B "}").
      rewrite Hkc, Hs. reflexivity.
  - intros na ns body _ (ts & Hp & Hs) Hne. exists (TStruct Dynamic ts). split.
    + cbn. destruct ts; [cbn in Hs; congruence|exact Hp].
    + rewrite show_struct, Hs. reflexivity.
  - intros na ns s Hgv _ (t & Hp & Hs). exists (TMaybe Dynamic t). split; [cbn [parseable]; rewrite Hp, Hgv; reflexivity|].
    rewrite show_maybe, Hs. reflexivity.
  - intros na ns. exists []. split; reflexivity.
  - intros na ns s r _ (t & Hp & Hs) _ (ts & Hps & Hss). exists (t :: ts). split.
    + cbn. rewrite Hp, Hps. reflexivity.
    + unfold shows in *. cbn. rewrite Hs, Hss. reflexivity.
Qed.

(* ---------------------------------------------------------------- acceptance *)

(* no valid signature is rejected *)
Theorem accept_complete : forall gv s, valid_signature gv s -> exists t, from_str gv s = Ok t.
Proof.
  intros gv s [Hc _]. destruct (ctype_tree gv) as [_ Hq].
  destruct (Hq _ _ _ Hc) as (ts & Hp & <-). destruct ts as [|t ts].
  - eexists. reflexivity.
  - eexists. apply parse_shows. exact Hp.
Qed.

Lemma show_struct_neq_fields : forall r ts, lbeq (show (TStruct r ts)) (shows ts) = false.
Proof.
  intros r ts. destruct (lbeq (show (TStruct r ts)) (shows ts)) eqn:E; [|reflexivity].
  apply lbeq_eq in E. apply (f_equal (@length byte)) in E. rewrite show_struct in E. rewrite !app_length in E. cbn in E. lia.
Qed.

Lemma cseq_of_trees : forall gv ts,
  Forall (good gv) ts -> forallb basic_keys ts = true -> forallb within_limits ts = true ->
  cseq gv max_array_nesting max_struct_nesting (shows ts).
Proof.
  intros gv ts Hg. induction Hg as [|t ts [Hp _] _ IH]; intros Hb Hw; [apply CS_nil|].
  cbn in Hb, Hw. apply andb_prop in Hb. destruct Hb as [Hb1 Hb2]. apply andb_prop in Hw. destruct Hw as [Hw1 Hw2].
  unfold shows. cbn [map concat]. apply CS_cons; [|apply IH; assumption].
  unfold within_limits in Hw1. apply andb_prop in Hw1. destruct Hw1 as [Ha Hs].
  apply Nat.leb_le in Ha. apply Nat.leb_le in Hs. apply tree_ctype; assumption.
Qed.

(* outside the three known classes, acceptance is exactly the grammar *)
Theorem accept_partial : forall gv s, Known_C06 gv s = false ->
  (is_ok (from_str gv s) = true <-> valid_signature gv s).
Proof.
  intros gv s Hk. split.
  - intros Hok. unfold Known_C06, classify in Hk.
    destruct (from_str gv s) as [t| |] eqn:E; try discriminate.
    destruct (negb (basic_keys t)) eqn:Hb; [discriminate|]. apply negb_false_iff in Hb.
    destruct (negb (forallb within_limits (top_types s t))) eqn:Hw; [discriminate|]. apply negb_false_iff in Hw.
    destruct (Nat.ltb 255 (length s)) eqn:Hl; [discriminate|]. apply Nat.ltb_ge in Hl.
    split; [|exact Hl].
    destruct (parse_ok_inv _ _ _ E) as [[-> ->]|(ts & Hne & -> & Hg & ->)]; [apply CS_nil|].
    destruct ts as [|a [|b l]]; [congruence| |].
    + (* a single complete type *)
      cbn [pack] in *. inversion Hg as [|? ? [Hpa Hda] _]; subst.
      assert (Htt : top_types (shows [a]) a = [a]).
      { unfold top_types. destruct a as [c| | |r fs|]; try reflexivity.
        - destruct c; try reflexivity. discriminate.
        - unfold shows. cbn [map concat]. rewrite app_nil_r.
          assert (L : lbeq (show (TStruct r fs)) (show (TStruct r fs)) = true) by (apply lbeq_eq; reflexivity).
          rewrite L. reflexivity. }
      rewrite Htt in Hw. apply cseq_of_trees; [exact Hg| |exact Hw]. cbn. rewrite Hb. reflexivity.
    + (* several: the fields of the returned struct *)
      cbn [pack] in *.
      assert (Htt : top_types (shows (a :: b :: l)) (TStruct Dynamic (a :: b :: l)) = a :: b :: l).
      { unfold top_types. rewrite show_struct_neq_fields. reflexivity. }
      rewrite Htt in Hw. apply cseq_of_trees; [exact Hg| |exact Hw]. exact Hb.
  - intros Hv. destruct (accept_complete _ _ Hv) as (t & ->). reflexivity.
Qed.

(* the full statement, kept visible *)
Definition C06_accept_full_statement : Prop :=
  forall gv s, is_ok (from_str gv s) = true <-> valid_signature gv s.

Definition sig_33_arrays : bytes := repeat "a"%byte 33 ++ B "y".
Definition sig_33_structs : bytes := repeat "("%byte 33 ++ B "y" ++ repeat ")"%byte 33.
Definition sig_256_bytes : bytes := repeat "y"%byte 256.

Theorem nonbasic_key_refuted :
  exists s, is_ok (from_str false s) = true /\ ~ valid_signature false s /\ classify false s = KNonBasicKey.
Proof.
  exists (B "a{vs}"). split; [vm_compute; reflexivity|]. split; [|vm_compute; reflexivity].
  apply valid_sigb_false_iff. vm_compute. reflexivity.
Qed.

Theorem nesting_refuted :
  exists s1 s2, is_ok (from_str false s1) = true /\ ~ valid_signature false s1 /\ classify false s1 = KNesting /\
                is_ok (from_str false s2) = true /\ ~ valid_signature false s2 /\ classify false s2 = KNesting.
Proof.
  exists sig_33_arrays, sig_33_structs.
  repeat split; try (vm_compute; reflexivity); apply valid_sigb_false_iff; vm_compute; reflexivity.
Qed.

Theorem length_refuted :
  exists s, is_ok (from_str false s) = true /\ ~ valid_signature false s /\ classify false s = KLength.
Proof.
  exists sig_256_bytes. split; [vm_compute; reflexivity|]. split; [|vm_compute; reflexivity].
  apply valid_sigb_false_iff. vm_compute. reflexivity.
Qed.

Theorem accept_full_refuted : ~ C06_accept_full_statement.
Proof.
  intros H. destruct nonbasic_key_refuted as (s & Hok & Hnv & _). apply Hnv. apply H. exact Hok.
Qed.

(* ---------------------------------------------------------------- representation independence *)
Theorem repr_independent : forall t1 t2, erase t1 = erase t2 ->
  sig_eq t1 t2 = true /\ sig_hash t1 = sig_hash t2 /\ sig_cmp t1 t2 = Eq /\
  show t1 = show t2 /\ show_noparens t1 = show_noparens t2 /\ string_len t1 = string_len t2 /\
  (forall s, eq_str t1 s = eq_str t2 s).
Proof.
  intros t1 t2 H. repeat split.
  - apply sig_eq_iff. exact H.
  - rewrite <- (hash_erase t1), <- (hash_erase t2), H. reflexivity.
  - apply sig_cmp_erase_eq. exact H.
  - rewrite <- (show_erase t1), <- (show_erase t2), H. reflexivity.
  - unfold show_noparens. rewrite <- (was_erase false t1), <- (was_erase false t2), H. reflexivity.
  - rewrite <- (string_len_erase t1), <- (string_len_erase t2), H. reflexivity.
  - intros s. rewrite <- (eq_str_erase t1), <- (eq_str_erase t2), H. reflexivity.
Qed.

(* the formatter agrees with the plain-tree formatter of Base/Sig.v used by the codec properties *)
Theorem show_to_sig : forall t, show t = Sig.show (to_sig t).
Proof.
  induction t as [c|r c IH|rk k rv v IHk IHv|r fs IH|r c IH] using tsig_ind'.
  - destruct c; reflexivity.
  - rewrite show_array. cbn [to_sig Sig.show]. rewrite IH. reflexivity.
  - unfold show in *. cbn [to_sig Sig.show write_as_string]. rewrite IHk, IHv. rewrite <- app_assoc. reflexivity.
  - rewrite show_struct. cbn [to_sig Sig.show]. rewrite map_map. f_equal. f_equal. unfold shows.
    induction IH as [|f fs Hf _ IHfs]; cbn; [reflexivity|]. rewrite Hf, IHfs. reflexivity.
  - rewrite show_maybe. cbn [to_sig Sig.show]. rewrite IH. reflexivity.
Qed.

(* ---------------------------------------------------------------- parsed == its own string *)
Lemma good_parseable : forall gv ts, Forall (good gv) ts -> forallb (parseable gv) ts = true.
Proof. intros gv ts H. apply good_forall in H. tauto. Qed.

Theorem eq_str_parsed_partial : forall gv s t, from_str gv s = Ok t -> basic_keys t = true -> eq_str t s = Ok true.
Proof.
  intros gv s t H Hb. destruct (parse_ok_inv _ _ _ H) as [[-> ->]|(ts & Hne & -> & Hg & ->)]; [reflexivity|].
  pose proof (good_parseable _ _ Hg) as Hp.
  destruct ts as [|a [|b l]]; [congruence| |].
  - cbn [pack] in *. unfold shows. cbn [map concat]. rewrite app_nil_r.
    apply (eq_str_show gv); [|exact Hb]. cbn in Hp. apply andb_prop in Hp. tauto.
  - cbn [pack] in *. apply (eq_str_show_noparens gv); [exact Hp|exact Hb].
Qed.

Definition C06_eq_str_full_statement : Prop :=
  forall gv s t, from_str gv s = Ok t -> eq_str t s = Ok true.

Theorem eq_str_parsed_refuted :
  exists s t, from_str false s = Ok t /\ eq_str t s = Ok false /\ classify false s = KNonBasicKey.
Proof. exists (B "a{(y)s}"). eexists. split; [vm_compute; reflexivity|]. split; vm_compute; reflexivity. Qed.

(* ---------------------------------------------------------------- what `parsed == other` means for another valid signature *)
Definition C06_eq_str_sound_statement : Prop :=
  forall gv s1 s2 t1 t2, from_str gv s1 = Ok t1 -> from_str gv s2 = Ok t2 ->
    eq_str t1 s2 = Ok true -> sig_eq t1 t2 = true.

Theorem eq_str_sound_refuted :
  exists s1 s2 t1 t2, valid_signature false s1 /\ valid_signature false s2 /\
    from_str false s1 = Ok t1 /\ from_str false s2 = Ok t2 /\ eq_str t1 s2 = Ok true /\ sig_eq t1 t2 = false /\
    has_struct t1 = true.
Proof.
  exists (B "(y)"), (B "ayb"). eexists. eexists.
  split; [apply valid_sigb_iff; vm_compute; reflexivity|].
  split; [apply valid_sigb_iff; vm_compute; reflexivity|].
  split; [vm_compute; reflexivity|]. split; [vm_compute; reflexivity|].
  split; [vm_compute; reflexivity|]. split; vm_compute; reflexivity.
Qed.

Theorem eq_str_sound_partial : forall gv s1 s2 t1 t2, has_struct t1 = false ->
  from_str gv s1 = Ok t1 -> from_str gv s2 = Ok t2 -> eq_str t1 s2 = Ok true ->
  sig_eq t1 t2 = true /\ s2 = s1.
Proof.
  intros gv s1 s2 t1 t2 Hs H1 H2 He. apply eq_str_sound in He; [|exact Hs]. subst s2.
  assert (Hg : (s1 = [] /\ t1 = TLeaf CUnit) \/ (s1 = show t1 /\ good gv t1)).
  { destruct (parse_ok_inv _ _ _ H1) as [[-> ->]|(ts & Hne & -> & Hg & ->)]; [left; split; reflexivity|right].
    destruct ts as [|a [|b l]]; [congruence| |discriminate Hs].
    cbn [pack]. inversion Hg; subst. split; [unfold shows; cbn; apply app_nil_r|assumption]. }
  destruct Hg as [[-> ->]|[Hs1 [Hp Hd]]].
  - cbn in H2. inversion H2. split; reflexivity.
  - rewrite show_parse in H2 by (right; exact Hp). inversion H2. split; [|congruence].
    apply sig_eq_iff. unfold all_dyn in Hd. congruence.
Qed.

(* ---------------------------------------------------------------- non-vacuity: concrete instances of the hypotheses *)
Example ex_roundtrip_multi :
  exists t, from_str false (B "a{sv}(ii)") = Ok t /\ is_struct t = true /\
            show_noparens t = B "a{sv}(ii)" /\ show t = B "(a{sv}(ii))".
Proof. eexists. split; [vm_compute; reflexivity|]. repeat split. Qed.

Example ex_roundtrip_single :
  exists t, from_str true (B "ma(ya{us})") = Ok t /\ show t = B "ma(ya{us})" /\ string_len t = 10.
Proof. eexists. split; [vm_compute; reflexivity|]. split; reflexivity. Qed.

Example ex_show_parse :
  let t := TArray Static (TStruct Static [TLeaf CU8; TDict Dynamic (TLeaf CStr) Static (TLeaf CVariant)]) in
  parseable false t = true /\ show t = B "a(ya{sv})" /\ from_str false (show t) = Ok (erase t) /\ erase t <> t.
Proof. cbv zeta. repeat split; try (vm_compute; reflexivity). discriminate. Qed.

Example ex_repr :
  let a := TStruct Static [TArray Static (TLeaf CU8); TDict Static (TLeaf CStr) Static (TLeaf CVariant)] in
  let b := TStruct Dynamic [TArray Dynamic (TLeaf CU8); TDict Dynamic (TLeaf CStr) Static (TLeaf CVariant)] in
  a <> b /\ erase a = erase b /\ sig_hash a = [17; 15; 1; 16; 10; 13]%N.
Proof. cbv zeta. split; [discriminate|]. split; reflexivity. Qed.

Example ex_accept_partial :
  Known_C06 false (B "a{sa(ii)}x") = false /\ valid_signature false (B "a{sa(ii)}x") /\
  Known_C06 true (B "mamy") = false /\ valid_signature true (B "mamy") /\ ~ valid_signature false (B "mamy") /\
  Known_C06 false (B "a{s}") = false /\ is_ok (from_str false (B "a{s}")) = false.
Proof.
  split; [vm_compute; reflexivity|]. split; [apply valid_sigb_iff; vm_compute; reflexivity|].
  split; [vm_compute; reflexivity|]. split; [apply valid_sigb_iff; vm_compute; reflexivity|].
  split; [apply valid_sigb_false_iff; vm_compute; reflexivity|].
  split; vm_compute; reflexivity.
Qed.

Example ex_eq_str :
  exists t, from_str false (B "a{s(ix)}ay") = Ok t /\ basic_keys t = true /\ eq_str t (B "a{s(ix)}ay") = Ok true /\
            eq_str t (B "(a{s(ix)}ay)") = Ok true /\ eq_str t (B "a{s(ix)}ab") = Ok false.
Proof. eexists. split; [vm_compute; reflexivity|]. repeat split; vm_compute; reflexivity. Qed.

Example ex_eq_str_sound :
  exists t1 t2, from_str false (B "a{say}") = Ok t1 /\ has_struct t1 = false /\ from_str false (B "a{say}") = Ok t2 /\
                eq_str t1 (B "a{say}") = Ok true.
Proof. eexists. eexists. split; [vm_compute; reflexivity|]. repeat split; vm_compute; reflexivity. Qed.

Example ex_eq_str_panic :   (* a slice off a char boundary: Signature::dict(Str, Str) == "a{é}" panics *)
  eq_str (TDict Dynamic (TLeaf CStr) Dynamic (TLeaf CStr)) (B "a{" ++ [xc3; xa9] ++ B "}") = Panic PSlice.
Proof. vm_compute. reflexivity. Qed.
