(* C34/Examples.v — concrete instances (non-vacuity) with the C06 / C10 instantiation. *)
From ZV Require Import Base.Bytes Base.Res C34.Model C34.Spec C34.Escape C34.Proofs C34.Inst.
From ZV Require C06.Model C10.Model.

Definition s_i : sigT := C06.Model.TLeaf C06.Model.CI32.
Definition s_asv : sigT :=
  C06.Model.TArray C06.Model.Dynamic
    (C06.Model.TDict C06.Model.Dynamic (C06.Model.TLeaf C06.Model.CStr) C06.Model.Dynamic (C06.Model.TLeaf C06.Model.CVariant)).

(* a document with every kind of member, every optional present, XML specials in an annotation *)
Definition ex_doc : node sigT :=
  Node sigT (Some (B "/org/example"))
    [mkIface sigT (B "org.example.Iface")
       [mkMethod sigT (B "Frob") [mkArg sigT (Some (B "x")) s_i (Some DIn) [];
                                  mkArg sigT (Some []) s_asv (Some DOut) [mkAnn (B "k") (B "v")]]
                 [mkAnn (B "org.freedesktop.DBus.Deprecated") (B "1 < 2 & ""q"" >")]]
       [mkProp sigT (B "Level") s_i AReadWrite []]
       [mkSignal sigT (B "Changed") [mkArg sigT (Some (B "what")) s_asv (Some DOut) []] []]
       [mkAnn (B "a.b") []]]
    [Node sigT (Some (B "child")) [] []; Node sigT (Some []) [] []].

Definition wf_inst := wf_node sigT sig_show sig_parse C10.Model.validate_member C10.Model.validate_interface C10.Model.validate_property.

Example ex_doc_wf : wf_inst ex_doc.
Proof. unfold wf_inst, ex_doc. cbn [wf_node]. repeat (split || constructor); vm_compute; reflexivity. Qed.

Example ex_doc_roundtrip : rd (wr ex_doc) = Ok ex_doc.
Proof. vm_compute. reflexivity. Qed.

Example ex_doc_text :
  to_writer sigT sig_show (Node sigT (Some (B "/")) [mkIface sigT (B "a.b") [] [] [] [mkAnn (B "k") (B "<&>""'")]] [Node sigT None [] []]) =
  B "<Node name=""/""><interface name=""a.b""><annotation name=""k"" value=""&lt;&amp;&gt;&quot;'""/></interface><node/></Node>".
Proof. vm_compute. reflexivity. Qed.

(* reading through unescape: the escaped infoset of the written document reads back *)
Example ex_doc_text_level : rd_text_dec unescape (enc_tree escape (wr ex_doc)) = Ok ex_doc.
Proof. vm_compute. reflexivity. Qed.

(* absent optionals (the former known finding none_option, fixed in 34e4ce52): nothing is written for them
   and the document reads back *)
Definition ex_absent : node sigT :=
  Node sigT None
    [mkIface sigT (B "a.b") [mkMethod sigT (B "M") [mkArg sigT None s_i (Some DIn) []] []] []
       [mkSignal sigT (B "S") [mkArg sigT (Some (B "x")) s_i None []; mkArg sigT None s_asv None []] []] []]
    [Node sigT None [] []].
Example ex_absent_wf : wf_inst ex_absent.
Proof. unfold wf_inst, ex_absent. cbn [wf_node]. repeat (split || constructor); vm_compute; reflexivity. Qed.
Example ex_absent_roundtrip :
  rd (wr ex_absent) = Ok ex_absent /\
  to_writer sigT sig_show ex_absent =
  B "<Node><interface name=""a.b""><method name=""M""><arg type=""i"" direction=""in""/></method><signal name=""S""><arg name=""x"" type=""i""/><arg type=""aa{sv}""/></signal></interface><node/></Node>".
Proof. split; vm_compute; reflexivity. Qed.
