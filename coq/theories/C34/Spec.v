(* C34/Spec.v — the D-Bus introspection format as a relation between XML infosets and documents, written
   from the format's description (introspect.dtd) and not from the serde derives:

     node       attributes: name (optional)            children: interface*, node*
     interface  attributes: name                        children: method*, property*, signal*, annotation*
     method     attributes: name                        children: arg*, annotation*
     signal     attributes: name                        children: arg*, annotation*
     property   attributes: name, type, access          children: annotation*
     arg        attributes: name?, type, direction?     children: annotation*
     annotation attributes: name, value

   [RNode tag t d]: the infoset t (an element called tag) represents the document d, in the canonical
   layout (attributes in the order above, children grouped in the order above).  AN ABSENT OPTIONAL HAS NO
   ATTRIBUTE.  The property: what the writer produces for d represents d, and the reader returns d on
   whatever represents d — hence reading back what was written gives d.  (Before fix commit 34e4ce52 the
   writer emitted an empty attribute for an absent optional and the property failed; no deviation class is
   left.) *)
From ZV Require Import Base.Bytes Base.Res C34.Model.

Section Spec.
  Variable sigT : Type.
  Variable sig_show : sigT -> bytes.

  Definition opt_attr (k : bytes) (o : option bytes) : list (bytes * bytes) :=
    match o with Some v => [(k, v)] | None => [] end.

  Definition dir_word (d : direction) : bytes := match d with DIn => B "in" | DOut => B "out" end.
  Definition access_word (a : access) : bytes :=
    match a with ARead => B "read" | AWrite => B "write" | AReadWrite => B "readwrite" end.

  Inductive RAnn : xml -> annotation -> Prop :=
  | RAnn_i a : RAnn (Elem (B "annotation") [(B "name", an_name a); (B "value", an_value a)] []) a.

  Inductive RArg : xml -> arg sigT -> Prop :=
  | RArg_i a kn : Forall2 RAnn kn (ar_anns _ a) ->
      RArg (Elem (B "arg") (opt_attr (B "name") (ar_name _ a) ++ [(B "type", sig_show (ar_ty _ a))] ++
                            opt_attr (B "direction") (option_map dir_word (ar_dir _ a))) kn) a.

  Inductive RMethod : xml -> method sigT -> Prop :=
  | RMethod_i m ka kn : Forall2 RArg ka (m_args _ m) -> Forall2 RAnn kn (m_anns _ m) ->
      RMethod (Elem (B "method") [(B "name", m_name _ m)] (ka ++ kn)) m.

  Inductive RSignal : xml -> signal sigT -> Prop :=
  | RSignal_i m ka kn : Forall2 RArg ka (s_args _ m) -> Forall2 RAnn kn (s_anns _ m) ->
      RSignal (Elem (B "signal") [(B "name", s_name _ m)] (ka ++ kn)) m.

  Inductive RProp : xml -> property sigT -> Prop :=
  | RProp_i p kn : Forall2 RAnn kn (p_anns _ p) ->
      RProp (Elem (B "property") [(B "name", p_name _ p); (B "type", sig_show (p_ty _ p));
                                  (B "access", access_word (p_access _ p))] kn) p.

  Inductive RIface : xml -> iface sigT -> Prop :=
  | RIface_i i km kp ks kn :
      Forall2 RMethod km (i_methods _ i) -> Forall2 RProp kp (i_props _ i) ->
      Forall2 RSignal ks (i_signals _ i) -> Forall2 RAnn kn (i_anns _ i) ->
      RIface (Elem (B "interface") [(B "name", i_name _ i)] (km ++ kp ++ ks ++ kn)) i.

  (* the root element may be called anything; nested nodes are `node` elements *)
  Inductive RNode : bytes -> xml -> node sigT -> Prop :=
  | RNode_i tag name ifs ns ki kn :
      Forall2 RIface ki ifs -> Forall2 (RNode (B "node")) kn ns ->
      RNode tag (Elem tag (opt_attr (B "name") name) (ki ++ kn)) (Node _ name ifs ns).

  (* ---- what the types guarantee of a document (it can only be built by parsing) ---- *)
  Variable sig_parse : bytes -> option sigT.
  Variable valid_member valid_interface valid_property : bytes -> bool.

  (* a signature that re-reads from its own text; every parsed signature is one (hypothesis of the theorems,
     property C06) *)
  Definition sig_ok (s : sigT) : Prop := sig_parse (sig_show s) = Some s.

  Definition wf_arg (a : arg sigT) : Prop := sig_ok (ar_ty _ a).
  Definition wf_method (m : method sigT) : Prop := valid_member (m_name _ m) = true /\ Forall wf_arg (m_args _ m).
  Definition wf_signal (m : signal sigT) : Prop := valid_member (s_name _ m) = true /\ Forall wf_arg (s_args _ m).
  Definition wf_prop (p : property sigT) : Prop := valid_property (p_name _ p) = true /\ sig_ok (p_ty _ p).
  Definition wf_iface (i : iface sigT) : Prop :=
    valid_interface (i_name _ i) = true /\ Forall wf_method (i_methods _ i) /\
    Forall wf_prop (i_props _ i) /\ Forall wf_signal (i_signals _ i).
  Fixpoint wf_node (n : node sigT) : Prop :=
    match n with
    | Node _ _ ifs ns => Forall wf_iface ifs /\ (fix all (l : list (node sigT)) : Prop :=
                                                  match l with [] => True | x :: r => wf_node x /\ all r end) ns
    end.

End Spec.
