(* C34/Escape.v — quick-xml's attribute escaping and the reader's unescaping: unescape (escape s) = Ok s
   for every byte string, the scan never runs out of fuel, escaped text is free of quotes and '<'. *)
From ZV Require Import Base.Bytes Base.Res Base.WinnowFacts C34.Model.
From Coq Require Import Lia.

Definition amp : byte := "&"%byte.
Definition semi : byte := ";"%byte.
Definition quote : byte := """"%byte.

Lemma escape_byte_cases c :
  (escape_byte c = [c] /\ beq c amp = false /\ c <> quote /\ c <> "<"%byte) \/
  c = "<"%byte \/ c = ">"%byte \/ c = amp \/ c = quote.
Proof. destruct c; try (left; split; [reflexivity|split; [reflexivity|split; discriminate]]); auto 10. Qed.

(* an ordinary byte in front does not disturb the scan *)
Lemma unescape_cons f c E : beq c amp = false ->
  unescape_fuel (S f) (c :: E) =
  match unescape_fuel (S f) E with Ok t => Ok (c :: t) | Err e => Err e | Panic p => Panic p end.
Proof.
  intro Hc. cbn [unescape_fuel skip_to_amp]. fold amp. rewrite Hc.
  destruct (skip_to_amp E) as [p [r|]]; [|reflexivity].
  destruct (next_amp_semi r) as [[[ent d] rest]|]; [|reflexivity].
  destruct (beq d ";"%byte); [|reflexivity].
  match goal with |- context [match ?x with Some v => _ | None => Err EXml end] => destruct x end; [|reflexivity].
  destruct (unescape_fuel f rest); reflexivity.
Qed.

Lemma unescape_escape_fuel s : forall f, length (escape s) <= f -> unescape_fuel (S f) (escape s) = Ok s.
Proof.
  induction s as [|c s IH]; intros f Hf; [reflexivity|].
  cbn [escape] in *. rewrite app_length in Hf.
  destruct (escape_byte_cases c) as [[He [Hc _]]|[-> | [-> | [-> | ->]]]].
  - rewrite He in *. cbn [app] in *. rewrite (unescape_cons f c _ Hc), IH by (cbn in Hf; lia). reflexivity.
  - cbn in Hf. cbn. destruct f as [|f]; [lia|]. rewrite IH by lia. reflexivity.
  - cbn in Hf. cbn. destruct f as [|f]; [lia|]. rewrite IH by lia. reflexivity.
  - cbn in Hf. cbn. destruct f as [|f]; [lia|]. rewrite IH by lia. reflexivity.
  - cbn in Hf. cbn. destruct f as [|f]; [lia|]. rewrite IH by lia. reflexivity.
Qed.

Theorem unescape_escape s : unescape (escape s) = Ok s.
Proof. unfold unescape. apply unescape_escape_fuel. lia. Qed.

(* ---- the fuel is never exhausted ---- *)
Lemma skip_to_amp_len l : forall p r, skip_to_amp l = (p, Some r) -> length r < length l.
Proof.
  induction l as [|c l IH]; intros p r H; cbn in H; [discriminate|].
  destruct (beq c "&"%byte).
  - injection H as _ <-. cbn. lia.
  - destruct (skip_to_amp l) as [p' q'] eqn:E. injection H as _ ->. specialize (IH _ _ eq_refl). cbn. lia.
Qed.

Lemma next_amp_semi_len l : forall e d r, next_amp_semi l = Some (e, d, r) -> length r < length l.
Proof.
  induction l as [|c l IH]; intros e d r H; cbn in H; [discriminate|].
  destruct (beq c "&"%byte || beq c ";"%byte).
  - injection H as _ _ <-. cbn. lia.
  - destruct (next_amp_semi l) as [[[e' d'] r']|] eqn:E; [|discriminate]. injection H as _ _ <-.
    specialize (IH _ _ _ eq_refl). cbn. lia.
Qed.

Lemma unescape_fuel_total f : forall raw p, length raw < f -> unescape_fuel f raw <> Panic p.
Proof.
  induction f as [|f IH]; intros raw p Hf; [lia|]. cbn [unescape_fuel].
  destruct (skip_to_amp raw) as [pre [r|]] eqn:E1; [|discriminate].
  destruct (next_amp_semi r) as [[[ent d] rest]|] eqn:E2; [|discriminate].
  destruct (beq d ";"%byte); [|discriminate].
  match goal with |- context [match ?x with Some v => _ | None => Err EXml end] => destruct x end; [|discriminate].
  apply skip_to_amp_len in E1. apply next_amp_semi_len in E2.
  pose proof (IH rest p) as Hr. destruct (unescape_fuel f rest); cbn; try discriminate.
  intro H. injection H as ->. apply Hr; [lia|reflexivity].
Qed.

Theorem unescape_total raw p : unescape raw <> Panic p.
Proof. apply unescape_fuel_total. lia. Qed.

(* ---- escaped text contains neither a double quote nor '<' (so it can sit between double quotes) ---- *)
Lemma escape_clean s : forallb (fun c => negb (beq c quote) && negb (beq c "<"%byte)) (escape s) = true.
Proof.
  induction s as [|c s IH]; [reflexivity|]. cbn [escape]. rewrite forallb_app, IH, andb_true_r.
  destruct (escape_byte_cases c) as [[He [_ [Hq Hl]]]|[-> | [-> | [-> | ->]]]]; try reflexivity.
  rewrite He. cbn. rewrite andb_true_r. apply andb_true_iff. split; apply negb_true_iff.
  - destruct (beq c quote) eqn:E; [apply beq_eq in E; contradiction|reflexivity].
  - destruct (beq c "<"%byte) eqn:E; [apply beq_eq in E; contradiction|reflexivity].
Qed.

Example unescape_escape_ex :
  escape (B "1 < 2 & ""q"" 's' >") = B "1 &lt; 2 &amp; &quot;q&quot; 's' &gt;" /\
  unescape (B "&#65;&#x1F600;&apos;&lt;") = Ok (B "A" ++ [xf0; x9f; x98; x80] ++ B "'<") /\
  unescape (B "&bogus;") = Err EXml /\ unescape (B "a&amp") = Err EXml /\ unescape (B "&#0;") = Err EXml.
Proof. repeat split; vm_compute; reflexivity. Qed.
