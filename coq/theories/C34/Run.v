(* C34/Run.v — line driver.
     x <tokens>    an XML infoset in token form ([name  @key=<hex>  ]  and text nodes: a double quote followed
                   by hex); the harness renders it as XML text,
                   parses it, writes the value, reads the written text back
     u <hex raw>   raw attribute text to be unescaped by the reader
   Output: model <TAB> spec <TAB> class  (see harness/hxml/src/main.rs for the observation format). *)
From ZV Require Import Base.Bytes Base.Res C34.Model C34.Spec C34.Inst.

(* ---- token form ---- *)
Definition spc : bytes := [sp].
Fixpoint toks (t : xml) : bytes :=
  match t with
  | Text s => """"%byte :: hex_of_bytes s
  | Elem n attrs kids =>
      "["%byte :: n ++
      concat (map (fun kv => spc ++ "@"%byte :: fst kv ++ "="%byte :: hex_of_bytes (snd kv)) attrs) ++
      concat (map (fun k => spc ++ toks k) kids) ++ spc ++ B "]"
  end.

(* reading the token form: a stack of open elements (name, attributes and children in reverse) *)
Definition frame := (bytes * list (bytes * bytes) * list xml)%type.
Fixpoint split_eq (l : bytes) : option (bytes * bytes) :=
  match l with
  | [] => None
  | c :: r => if beq c "="%byte then Some ([], r)
              else match split_eq r with Some (p, q) => Some (c :: p, q) | None => None end
  end.
Fixpoint read_toks (ws : list bytes) (stack : list frame) (root : option xml) : option xml :=
  match ws with
  | [] => match stack with [] => root | _ => None end
  | w :: rest =>
      match w with
      | c :: body =>
          if beq c "["%byte then
            match root with Some _ => None | None => read_toks rest ((body, [], []) :: stack) None end
          else if beq c "@"%byte then
            match split_eq body, stack with
            | Some (k, h), (n, a, ks) :: st =>
                match bytes_of_hex h with
                | Some v => read_toks rest ((n, (k, v) :: a, ks) :: st) root
                | None => None
                end
            | _, _ => None
            end
          else if beq c """"%byte then
            match bytes_of_hex body, stack with
            | Some v, (n, a, ks) :: st => read_toks rest ((n, a, Text v :: ks) :: st) root
            | _, _ => None
            end
          else if lbeq w (B "]") then
            match stack with
            | (n, a, ks) :: st =>
                let e := Elem n (rev a) (rev ks) in
                match st with
                | (n', a', ks') :: st' => read_toks rest ((n', a', e :: ks') :: st') root
                | [] => read_toks rest [] (Some e)
                end
            | [] => None
            end
          else None
      | [] => None
      end
  end.

(* ---- the dump of a value (options left out when None), as the harness prints it from the getters ---- *)
Definition oattr (k : bytes) (o : option bytes) : list (bytes * bytes) :=
  match o with Some v => [(k, v)] | None => [] end.
Definition d_ann (a : annotation) : xml := Elem (B "annotation") [(B "name", an_name a); (B "value", an_value a)] [].
Definition d_arg (a : arg sigT) : xml :=
  Elem (B "arg") (oattr (B "name") (ar_name _ a) ++ [(B "type", sig_show (ar_ty _ a))] ++
                  oattr (B "direction") (option_map dir_text (ar_dir _ a)))
       (map d_ann (ar_anns _ a)).
Definition d_method (m : method sigT) : xml :=
  Elem (B "method") [(B "name", m_name _ m)] (map d_arg (m_args _ m) ++ map d_ann (m_anns _ m)).
Definition d_signal (m : signal sigT) : xml :=
  Elem (B "signal") [(B "name", s_name _ m)] (map d_arg (s_args _ m) ++ map d_ann (s_anns _ m)).
Definition d_prop (p : property sigT) : xml :=
  Elem (B "property") [(B "name", p_name _ p); (B "type", sig_show (p_ty _ p)); (B "access", access_text (p_access _ p))]
       (map d_ann (p_anns _ p)).
Definition d_iface (i : iface sigT) : xml :=
  Elem (B "interface") [(B "name", i_name _ i)]
       (map d_method (i_methods _ i) ++ map d_prop (i_props _ i) ++ map d_signal (i_signals _ i) ++ map d_ann (i_anns _ i)).
Fixpoint d_node (n : node sigT) : xml :=
  match n with
  | Node _ name ifs ns => Elem (B "node") (oattr (B "name") name) (map d_iface ifs ++ map d_node ns)
  end.

(* no known-deviation class is left for C34 (the none_option finding was fixed in 34e4ce52) *)

Definition run_x (ws : list bytes) : outp :=
  match read_toks ws [] None with
  | None => bad_case
  | Some t =>
      let spec := B "OK:TTT" in
      match rd t with
      | Ok d =>
          let w := wr d in
          let same := match rd w with Ok d' => lbeq (toks (d_node d')) (toks (d_node d)) | _ => false end in
          {| o_model := B "OK:" ++ bool_tok same ++ bool_tok same ++ B "T;" ++ toks (d_node d) ++ B ";" ++ toks w ++
                        B ";" ++ hex_of_bytes (print w);
             o_spec := spec;
             o_class := dash |}
      | Err _ => {| o_model := B "ERR"; o_spec := spec; o_class := dash |}
      | Panic _ => {| o_model := B "PANIC"; o_spec := spec; o_class := dash |}
      end
  end.

Definition run_u (h : bytes) : outp :=
  match bytes_of_hex h with
  | None => bad_case
  | Some raw =>
      {| o_model := match unescape raw with
                    | Ok v => B "OK:" ++ hex_of_bytes v
                    | Err _ => B "ERR"
                    | Panic _ => B "PANIC"
                    end;
         o_spec := dash; o_class := dash |}
  end.

Definition run_case (line : bytes) : outp :=
  match words line with
  | cmd :: rest =>
      if lbeq cmd (B "x") then run_x rest
      else if lbeq cmd (B "u") then run_u (match rest with a :: _ => a | [] => [] end)
      else bad_case
  | [] => bad_case
  end.

Definition run (line : bytes) : bytes := render (run_case line).
