(* C34/Proofs.v — the reader returns d on every infoset that represents d; the writer's infoset represents d;
   hence the round trip, on infosets and (tokenizer by contract) on text. *)
From ZV Require Import Base.Bytes Base.Res Base.WinnowFacts C34.Model C34.Spec C34.Escape.
From Coq Require Import Lia.

Local Arguments children : simpl never.
Local Arguments parse_sig : simpl never.
Local Arguments parse_name : simpl never.

Lemma lbeq_refl a : lbeq a a = true.
Proof. now apply lbeq_eq. Qed.

(* an infoset with every attribute value and text re-coded (escape on the way out) *)
Fixpoint enc_tree (enc : bytes -> bytes) (t : xml) : xml :=
  match t with
  | Text s => Text (enc s)
  | Elem n attrs kids => Elem n (map (fun kv => (fst kv, enc (snd kv))) attrs) (map (enc_tree enc) kids)
  end.

Definition is_el (k : bytes) (t : xml) : Prop := match t with Elem n _ _ => n = k | Text _ => False end.

Lemma is_el_enc enc k t : is_el k t -> is_el k (enc_tree enc t).
Proof. destruct t; cbn; auto. Qed.

Lemma filter_all k l : Forall (is_el k) l -> lbeq (local_name k) k = true -> filter (elem_named k) l = l.
Proof.
  intros H Hk. induction H as [|t l Ht _ IH]; [reflexivity|]. destruct t as [n a c|s]; [|destruct Ht].
  cbn in Ht. subst n. cbn [filter elem_named]. now rewrite Hk, IH.
Qed.

Lemma filter_none k k' l : Forall (is_el k') l -> lbeq (local_name k') k = false -> filter (elem_named k) l = [].
Proof.
  intros H Hk. induction H as [|t l Ht _ IH]; [reflexivity|]. destruct t as [n a c|s]; [|destruct Ht].
  cbn in Ht. subst n. cbn [filter elem_named]. now rewrite Hk, IH.
Qed.

Lemma same_names_all k l : Forall (is_el k) l -> same_names l = true.
Proof.
  intro H. destruct H as [|t l Ht Hl]; [reflexivity|]. destruct t as [n a c|s]; [|destruct Ht]. cbn in Ht. subst n.
  cbn [same_names]. apply forallb_forall. intros x Hx. rewrite Forall_forall in Hl. specialize (Hl x Hx).
  destruct x as [m ? ?|?]; [|reflexivity]. cbn in Hl. subst m. apply lbeq_refl.
Qed.

Section Reader.
  Variable sigT : Type.
  Variable sig_parse : bytes -> option sigT.
  Variable sig_show : sigT -> bytes.
  Variable valid_member valid_interface valid_property : bytes -> bool.
  Variables (enc : bytes -> bytes) (dec : bytes -> res xerr bytes).
  Hypothesis dec_enc : forall s, dec (enc s) = Ok s.

  Notation of_ann' := (of_ann dec).
  Notation of_arg' := (of_arg sigT sig_parse dec).
  Notation of_method' := (of_method sigT sig_parse valid_member dec).
  Notation of_signal' := (of_signal sigT sig_parse valid_member dec).
  Notation of_prop' := (of_prop sigT sig_parse valid_property dec).
  Notation of_iface' := (of_iface sigT sig_parse valid_member valid_interface valid_property dec).
  Notation of_node' := (of_node sigT sig_parse valid_member valid_interface valid_property dec).
  Notation E := (enc_tree enc).

  Lemma map_res_ok {A C} (f : A -> res xerr C) l ds :
    Forall2 (fun t d => f t = Ok d) l ds -> map_res f l = Ok ds.
  Proof. induction 1 as [|t d l ds Ht _ IH]; cbn; [reflexivity|]. now rewrite Ht, IH. Qed.

  (* the children of one kind inside a list of groups pre ++ l ++ post *)
  Lemma children_group {C} k (f : xml -> res xerr C) pre l post ds :
    lbeq (local_name k) k = true ->
    filter (elem_named k) pre = [] -> filter (elem_named k) post = [] ->
    Forall (is_el k) l -> Forall2 (fun t d => f t = Ok d) l ds ->
    children k f (pre ++ l ++ post) = Ok ds.
  Proof.
    intros Hk Hpre Hpost Hl Hf. unfold children. rewrite !filter_app, Hpre, Hpost, app_nil_r. cbn [app].
    rewrite (filter_all k l Hl Hk), (same_names_all k l Hl). now apply map_res_ok.
  Qed.

  Lemma forall2_enc {C} (R : xml -> C -> Prop) (f : xml -> res xerr C) l ds :
    Forall2 R l ds -> (forall t d, R t d -> f (E t) = Ok d) ->
    Forall2 (fun t d => f t = Ok d) (map E l) ds.
  Proof. intros H Hf. induction H; cbn; constructor; auto. Qed.

  Lemma forall2_enc_wf {C} (R : xml -> C -> Prop) (W : C -> Prop) (f : xml -> res xerr C) l ds :
    Forall2 R l ds -> Forall W ds -> (forall t d, W d -> R t d -> f (E t) = Ok d) ->
    Forall2 (fun t d => f t = Ok d) (map E l) ds.
  Proof. intros H Hw Hf. induction H; cbn; constructor; inversion Hw; subst; auto. Qed.

  Lemma forall2_el {C} (R : xml -> C -> Prop) k l ds :
    Forall2 R l ds -> (forall t d, R t d -> is_el k t) -> Forall (is_el k) (map E l).
  Proof. intros H Hk. induction H; cbn; constructor; eauto using is_el_enc. Qed.

  (* element names of the six relations *)
  Lemma RAnn_el t a : RAnn t a -> is_el (B "annotation") t.            Proof. destruct 1; reflexivity. Qed.
  Lemma RArg_el t a : RArg sigT sig_show t a -> is_el (B "arg") t.      Proof. destruct 1; reflexivity. Qed.
  Lemma RMethod_el t a : RMethod sigT sig_show t a -> is_el (B "method") t.   Proof. destruct 1; reflexivity. Qed.
  Lemma RSignal_el t a : RSignal sigT sig_show t a -> is_el (B "signal") t.   Proof. destruct 1; reflexivity. Qed.
  Lemma RProp_el t a : RProp sigT sig_show t a -> is_el (B "property") t.     Proof. destruct 1; reflexivity. Qed.
  Lemma RIface_el t a : RIface sigT sig_show t a -> is_el (B "interface") t.  Proof. destruct 1; reflexivity. Qed.
  Lemma RNode_el k t a : RNode sigT sig_show k t a -> is_el k t.              Proof. destruct 1; reflexivity. Qed.

  Lemma rd_ann t a : RAnn t a -> of_ann' (E t) = Ok a.
  Proof.
    destruct 1 as [[n v]]. cbn. unfold check_attrs, req_attr, get_attr. cbn. now rewrite !dec_enc.
  Qed.

  Lemma anns_ok pre kn post anns :
    filter (elem_named (B "annotation")) pre = [] -> filter (elem_named (B "annotation")) post = [] ->
    Forall2 RAnn kn anns ->
    children (B "annotation") of_ann' (pre ++ map E kn ++ post) = Ok anns.
  Proof.
    intros Hpre Hpost H. apply children_group; [reflexivity|exact Hpre|exact Hpost| |].
    - apply (forall2_el RAnn _ _ _ H). apply RAnn_el.
    - apply (forall2_enc RAnn _ _ _ H). apply rd_ann.
  Qed.

  Lemma rd_arg t a : wf_arg sigT sig_show sig_parse a -> RArg sigT sig_show t a -> of_arg' (E t) = Ok a.
  Proof.
    intros Hwf H. destruct H as [[n ty d anns] kn Hk]. cbn [ar_name ar_ty ar_dir ar_anns] in *.
    unfold wf_arg, sig_ok in Hwf. cbn [ar_ty] in Hwf.
    pose proof (anns_ok [] kn [] anns eq_refl eq_refl Hk) as Ha. cbn [app] in Ha. rewrite app_nil_r in Ha. cbn in Ha.
    destruct n as [n|], d as [[|]|]; cbn; unfold check_attrs, req_attr, get_attr; cbn; rewrite ?dec_enc; cbn;
      unfold parse_sig; rewrite Hwf; cbn; rewrite Ha; reflexivity.
  Qed.

  Lemma args_ok kn post args :
    filter (elem_named (B "arg")) post = [] -> Forall (wf_arg sigT sig_show sig_parse) args ->
    Forall2 (RArg sigT sig_show) kn args ->
    children (B "arg") of_arg' (map E kn ++ post) = Ok args.
  Proof.
    intros Hpost Hwf H. apply (children_group (B "arg") of_arg' [] (map E kn) post args); [reflexivity|reflexivity|exact Hpost| |].
    - apply (forall2_el _ _ _ _ H). apply RArg_el.
    - apply (forall2_enc_wf _ _ _ _ _ H Hwf). apply rd_arg.
  Qed.

  Lemma filter_none_map k k' {C} (R : xml -> C -> Prop) l ds :
    Forall2 R l ds -> (forall t d, R t d -> is_el k' t) -> lbeq (local_name k') k = false ->
    filter (elem_named k) (map E l) = [].
  Proof. intros H Hel Hk. apply (filter_none k k'); [apply (forall2_el R k' l ds H Hel)|exact Hk]. Qed.

  Lemma rd_method t m : wf_method sigT sig_show sig_parse valid_member m -> RMethod sigT sig_show t m -> of_method' (E t) = Ok m.
  Proof.
    intros [Hn Hargs] H. destruct H as [[n args anns] ka kn Ha Hk]. cbn [m_name m_args m_anns] in *.
    cbn. unfold check_attrs, req_attr, get_attr. cbn. rewrite dec_enc. cbn. unfold parse_name. rewrite Hn. cbn.
    rewrite map_app.
    pose proof (args_ok ka (map E kn) args (filter_none_map (B "arg") (B "annotation") RAnn kn anns Hk RAnn_el eq_refl) Hargs Ha) as Hy.
    cbn in Hy. rewrite Hy. cbn.
    pose proof (anns_ok (map E ka) kn [] anns (filter_none_map (B "annotation") (B "arg") _ ka args Ha RArg_el eq_refl) eq_refl Hk) as Hx.
    rewrite app_nil_r in Hx. cbn in Hx. rewrite Hx. reflexivity.
  Qed.

  Lemma rd_signal t m : wf_signal sigT sig_show sig_parse valid_member m -> RSignal sigT sig_show t m -> of_signal' (E t) = Ok m.
  Proof.
    intros [Hn Hargs] H. destruct H as [[n args anns] ka kn Ha Hk]. cbn [s_name s_args s_anns] in *.
    cbn. unfold check_attrs, req_attr, get_attr. cbn. rewrite dec_enc. cbn. unfold parse_name. rewrite Hn. cbn.
    rewrite map_app.
    pose proof (args_ok ka (map E kn) args (filter_none_map (B "arg") (B "annotation") RAnn kn anns Hk RAnn_el eq_refl) Hargs Ha) as Hy.
    cbn in Hy. rewrite Hy. cbn.
    pose proof (anns_ok (map E ka) kn [] anns (filter_none_map (B "annotation") (B "arg") _ ka args Ha RArg_el eq_refl) eq_refl Hk) as Hx.
    rewrite app_nil_r in Hx. cbn in Hx. rewrite Hx. reflexivity.
  Qed.

  Lemma rd_prop t p : wf_prop sigT sig_show sig_parse valid_property p -> RProp sigT sig_show t p -> of_prop' (E t) = Ok p.
  Proof.
    intros [Hn Hs] H. destruct H as [[n ty acc anns] kn Hk]. cbn [p_name p_ty p_access p_anns] in *.
    unfold sig_ok in Hs.
    pose proof (anns_ok [] kn [] anns eq_refl eq_refl Hk) as Ha. cbn [app] in Ha. rewrite app_nil_r in Ha. cbn in Ha.
    cbn. unfold check_attrs, req_attr, get_attr. cbn. rewrite !dec_enc. cbn. unfold parse_name. rewrite Hn. cbn.
    unfold parse_sig. rewrite Hs. cbn. destruct acc; cbn; rewrite Ha; reflexivity.
  Qed.

  Lemma rd_iface t i : wf_iface sigT sig_show sig_parse valid_member valid_interface valid_property i ->
    RIface sigT sig_show t i -> of_iface' (E t) = Ok i.
  Proof.
    intros (Hn & Hm & Hp & Hs) H. destruct H as [[n ms ps ss anns] km kp ks kn Rm Rp Rs Rn].
    cbn [i_name i_methods i_props i_signals i_anns] in *.
    pose (Em := map E km). pose (Ep := map E kp). pose (Es := map E ks). pose (En := map E kn).
    assert (Fm : forall k, lbeq (local_name (B "method")) k = false -> filter (elem_named k) Em = [])
      by (intros k Hk; apply (filter_none_map k _ _ km ms Rm RMethod_el Hk)).
    assert (Fp : forall k, lbeq (local_name (B "property")) k = false -> filter (elem_named k) Ep = [])
      by (intros k Hk; apply (filter_none_map k _ _ kp ps Rp RProp_el Hk)).
    assert (Fs : forall k, lbeq (local_name (B "signal")) k = false -> filter (elem_named k) Es = [])
      by (intros k Hk; apply (filter_none_map k _ _ ks ss Rs RSignal_el Hk)).
    assert (Fn : forall k, lbeq (local_name (B "annotation")) k = false -> filter (elem_named k) En = [])
      by (intros k Hk; apply (filter_none_map k _ _ kn anns Rn RAnn_el Hk)).
    assert (H1 : children (B "method") of_method' (Em ++ Ep ++ Es ++ En) = Ok ms).
    { apply (children_group (B "method") of_method' [] Em (Ep ++ Es ++ En) ms eq_refl eq_refl).
      - rewrite !filter_app, Fp, Fs, Fn by reflexivity. reflexivity.
      - apply (forall2_el _ _ _ _ Rm), RMethod_el.
      - apply (forall2_enc_wf _ _ _ _ _ Rm Hm), rd_method. }
    assert (H2 : children (B "property") of_prop' (Em ++ Ep ++ Es ++ En) = Ok ps).
    { apply (children_group (B "property") of_prop' Em Ep (Es ++ En) ps eq_refl).
      - apply Fm; reflexivity.
      - rewrite !filter_app, Fs, Fn by reflexivity. reflexivity.
      - apply (forall2_el _ _ _ _ Rp), RProp_el.
      - apply (forall2_enc_wf _ _ _ _ _ Rp Hp), rd_prop. }
    assert (H3 : children (B "signal") of_signal' (Em ++ Ep ++ Es ++ En) = Ok ss).
    { replace (Em ++ Ep ++ Es ++ En) with ((Em ++ Ep) ++ Es ++ En) by (now rewrite <- app_assoc).
      apply (children_group (B "signal") of_signal' (Em ++ Ep) Es En ss eq_refl).
      - rewrite filter_app, Fm, Fp by reflexivity. reflexivity.
      - apply Fn; reflexivity.
      - apply (forall2_el _ _ _ _ Rs), RSignal_el.
      - apply (forall2_enc_wf _ _ _ _ _ Rs Hs), rd_signal. }
    assert (H4 : children (B "annotation") of_ann' (Em ++ Ep ++ Es ++ En) = Ok anns).
    { replace (Em ++ Ep ++ Es ++ En) with ((Em ++ Ep ++ Es) ++ En ++ []) by (now rewrite app_nil_r, <- !app_assoc).
      apply (children_group (B "annotation") of_ann' (Em ++ Ep ++ Es) En [] anns eq_refl).
      - rewrite !filter_app, Fm, Fp, Fs by reflexivity. reflexivity.
      - reflexivity.
      - apply (forall2_el _ _ _ _ Rn), RAnn_el.
      - apply (forall2_enc _ _ _ _ Rn), rd_ann. }
    clear Fm Fp Fs Fn. subst Em Ep Es En. cbn in H1, H2, H3, H4.
    cbn. unfold check_attrs, req_attr, get_attr. cbn. rewrite dec_enc. cbn. unfold parse_name. rewrite Hn. cbn.
    rewrite !map_app, H1. cbn. rewrite H2. cbn. rewrite H3. cbn. rewrite H4. reflexivity.
  Qed.

  (* the nested-node loop of of_node is map_res over the `node` children *)
  Lemma node_loop kids :
    (fix go (l : list xml) : res xerr (list (node sigT)) :=
       match l with
       | [] => Ok []
       | k :: r => if elem_named (B "node") k
                   then let* x := of_node' k in let* xs := go r in Ok (x :: xs)
                   else go r
       end) kids = map_res of_node' (filter (elem_named (B "node")) kids).
  Proof.
    induction kids as [|k r IH]; [reflexivity|]. cbn [filter]. destruct (elem_named (B "node") k); [|exact IH].
    cbn [map_res]. now rewrite IH.
  Qed.

  Lemma of_node_unfold n attrs kids :
    of_node' (Elem n attrs kids) =
    (let* _ := check_attrs attrs in
     let* nm := get_attr dec (B "name") attrs in
     let* ifs := children (B "interface") of_iface' kids in
     let* ns := children (B "node") of_node' kids in
     Ok (Node sigT nm ifs ns)).
  Proof.
    cbn [of_node]. destruct (check_attrs attrs); cbn [bind]; try reflexivity.
    destruct (get_attr dec (B "name") attrs); cbn [bind]; try reflexivity.
    destruct (children (B "interface") of_iface' kids); cbn [bind]; try reflexivity.
    unfold children at 1. destruct (same_names (filter (elem_named (B "node")) kids)); cbn [bind]; [|reflexivity].
    now rewrite node_loop.
  Qed.
End Reader.

(* ---------------------------------------------------------------- induction over nested nodes / infosets *)
Section NodeInd.
  Variable sigT : Type.
  Variable P : node sigT -> Prop.
  Hypothesis Hnode : forall name ifs ns, Forall P ns -> P (Node sigT name ifs ns).
  Fixpoint node_ind' (n : node sigT) : P n :=
    match n with
    | Node _ name ifs ns =>
        Hnode name ifs ns ((fix go (l : list (node sigT)) : Forall P l :=
                              match l with [] => Forall_nil P | x :: r => Forall_cons x (node_ind' x) (go r) end) ns)
    end.
End NodeInd.

Section XmlInd.
  Variable P : xml -> Prop.
  Hypothesis Htext : forall s, P (Text s).
  Hypothesis Helem : forall n a kids, Forall P kids -> P (Elem n a kids).
  Fixpoint xml_ind' (t : xml) : P t :=
    match t with
    | Text s => Htext s
    | Elem n a kids =>
        Helem n a kids ((fix go (l : list xml) : Forall P l :=
                           match l with [] => Forall_nil P | x :: r => Forall_cons x (xml_ind' x) (go r) end) kids)
    end.
End XmlInd.

Lemma enc_tree_id t : enc_tree (fun x => x) t = t.
Proof.
  induction t as [s|n a kids IH] using xml_ind'; cbn; [reflexivity|]. f_equal.
  - induction a as [|[k v] a IHa]; cbn; [reflexivity|]. now rewrite IHa.
  - induction IH as [|x l Hx _ IHl]; cbn; [reflexivity|]. now rewrite Hx, IHl.
Qed.

Section RoundTrip.
  Variable sigT : Type.
  Variable sig_parse : bytes -> option sigT.
  Variable sig_show : sigT -> bytes.
  Variable valid_member valid_interface valid_property : bytes -> bool.

  Notation wf := (wf_node sigT sig_show sig_parse valid_member valid_interface valid_property).
  Notation R := (RNode sigT sig_show).
  Notation rd dec := (of_node sigT sig_parse valid_member valid_interface valid_property dec).
  Notation wr := (to_tree sigT sig_show).

  Lemma wf_all (ns : list (node sigT)) :
    (fix all (l : list (node sigT)) : Prop := match l with [] => True | x :: r => wf x /\ all r end) ns <-> Forall (fun x => wf x) ns.
  Proof.
    induction ns as [|x r IH]; [split; [constructor|exact (fun _ => I)]|]. split.
    - intros [H1 H2]. constructor; [exact H1|now apply IH].
    - intro H. inversion H; subst. split; [assumption|now apply IH].
  Qed.

  (* ---- the reader returns d on whatever represents d ---- *)
  Section Rd.
    Variables (enc : bytes -> bytes) (dec : bytes -> res xerr bytes).
    Hypothesis dec_enc : forall s, dec (enc s) = Ok s.

    Theorem reader_correct d : forall tag t, wf d -> R tag t d -> rd dec (enc_tree enc t) = Ok d.
    Proof.
      induction d as [name ifs ns IH] using node_ind'. intros tag t Hwf Hr.
      cbn [wf_node] in Hwf. destruct Hwf as [Hifs Hns]. apply wf_all in Hns.
      inversion Hr as [tag' name' ifs' ns' ki kn Ri Rn]; subst. cbn [enc_tree]. rewrite of_node_unfold.
      assert (Hn : Forall2 (fun t d => rd dec t = Ok d) (map (enc_tree enc) kn) ns).
      { clear Hr Ri. induction Rn as [|x d kn ns Hx _ IHn]; cbn; [constructor|].
        inversion IH; subst. inversion Hns; subst. constructor; [eauto|]. apply IHn; assumption. }
      assert (Eln : Forall (is_el (B "node")) (map (enc_tree enc) kn)).
      { apply (forall2_el enc (R (B "node")) (B "node") kn ns Rn). intros x d. apply RNode_el. }
      assert (Eli : Forall (is_el (B "interface")) (map (enc_tree enc) ki)).
      { apply (forall2_el enc _ (B "interface") ki ifs Ri). apply RIface_el. }
      assert (H1 : children (B "interface") (of_iface sigT sig_parse valid_member valid_interface valid_property dec)
                     (map (enc_tree enc) (ki ++ kn)) = Ok ifs).
      { rewrite map_app.
        apply (children_group (B "interface") _ [] (map (enc_tree enc) ki) (map (enc_tree enc) kn) ifs eq_refl eq_refl).
        - apply (filter_none (B "interface") (B "node")); [exact Eln|reflexivity].
        - exact Eli.
        - apply (forall2_enc_wf enc _ _ _ _ _ Ri Hifs). intros x i Hw Hx.
          now apply (rd_iface sigT sig_parse sig_show valid_member valid_interface valid_property enc dec dec_enc). }
      assert (H2 : children (B "node") (rd dec) (map (enc_tree enc) (ki ++ kn)) = Ok ns).
      { rewrite map_app. replace (map (enc_tree enc) kn) with (map (enc_tree enc) kn ++ []) by apply app_nil_r.
        apply (children_group (B "node") _ (map (enc_tree enc) ki) (map (enc_tree enc) kn) [] ns eq_refl).
        - apply (filter_none (B "node") (B "interface")); [exact Eli|reflexivity].
        - reflexivity.
        - exact Eln.
        - exact Hn. }
      rewrite H1, H2. destruct name as [v|]; cbn; unfold check_attrs, get_attr; cbn; rewrite ?dec_enc; reflexivity.
    Qed.
  End Rd.

  (* ---- the writer's infoset represents d, when no optional is absent ---- *)
  Lemma forall2_map {A} (Rl : xml -> A -> Prop) (f : A -> xml) l :
    (forall x, In x l -> Rl (f x) x) -> Forall2 Rl (map f l) l.
  Proof. induction l as [|x l IH]; intro H; cbn; constructor; [apply H; now left|apply IH; intros y Hy; apply H; now right]. Qed.

  Lemma wr_ann a : RAnn (t_ann a) a.
  Proof. constructor. Qed.

  Lemma wr_arg a : RArg sigT sig_show (t_arg sigT sig_show a) a.
  Proof.
    destruct a as [n ty d anns]. unfold t_arg. cbn [ar_name ar_ty ar_dir ar_anns].
    pose proof (RArg_i sigT sig_show (mkArg sigT n ty d anns) (map t_ann anns)
                  (forall2_map RAnn t_ann anns (fun x _ => wr_ann x))) as Hx.
    cbn [ar_name ar_ty ar_dir ar_anns] in Hx. destruct n, d as [[|]|]; exact Hx.
  Qed.

  Lemma wr_method m : RMethod sigT sig_show (t_method sigT sig_show m) m.
  Proof.
    destruct m as [n args anns]. unfold t_method. cbn [m_name m_args m_anns].
    apply (RMethod_i sigT sig_show (mkMethod sigT n args anns)).
    - apply forall2_map. intros; apply wr_arg.
    - apply forall2_map. intros; apply wr_ann.
  Qed.

  Lemma wr_signal m : RSignal sigT sig_show (t_signal sigT sig_show m) m.
  Proof.
    destruct m as [n args anns]. unfold t_signal. cbn [s_name s_args s_anns].
    apply (RSignal_i sigT sig_show (mkSignal sigT n args anns)).
    - apply forall2_map. intros; apply wr_arg.
    - apply forall2_map. intros; apply wr_ann.
  Qed.

  Lemma wr_prop p : RProp sigT sig_show (t_prop sigT sig_show p) p.
  Proof.
    destruct p as [n ty acc anns]. unfold t_prop. cbn [p_name p_ty p_access p_anns].
    pose proof (RProp_i sigT sig_show (mkProp sigT n ty acc anns) (map t_ann anns)
                  (forall2_map RAnn t_ann anns (fun x _ => wr_ann x))) as Hx.
    destruct acc; exact Hx.
  Qed.

  Lemma wr_iface i : RIface sigT sig_show (t_iface sigT sig_show i) i.
  Proof.
    destruct i as [n ms ps ss anns]. unfold t_iface. cbn [i_name i_methods i_props i_signals i_anns].
    apply (RIface_i sigT sig_show (mkIface sigT n ms ps ss anns)).
    - apply forall2_map. intros; apply wr_method.
    - apply forall2_map. intros; apply wr_prop.
    - apply forall2_map. intros; apply wr_signal.
    - apply forall2_map. intros; apply wr_ann.
  Qed.

  (* the writer's infoset represents d: for every document *)
  Theorem writer_conforms d : forall tag, R tag (t_node sigT sig_show tag d) d.
  Proof.
    induction d as [name ifs ns IH] using node_ind'. intro tag. cbn [t_node].
    pose proof (RNode_i sigT sig_show tag name ifs ns (map (t_iface sigT sig_show) ifs) (map (t_node sigT sig_show (B "node")) ns)) as Hx.
    destruct name; apply Hx.
    1,3: apply forall2_map; intros; apply wr_iface.
    all: apply forall2_map; intros x Hin; rewrite Forall_forall in IH; now apply IH.
  Qed.

  (* ---- the round trip on infosets ---- *)
  Theorem roundtrip d : wf d -> rd (fun v => Ok v) (wr d) = Ok d.
  Proof.
    intro Hwf. rewrite <- (enc_tree_id (wr d)).
    apply (reader_correct (fun x => x) (fun v => Ok v) (fun s => eq_refl) d (B "Node") (wr d) Hwf).
    apply writer_conforms.
  Qed.
End RoundTrip.

(* ---------------------------------------------------------------- text level: the tokenizer by contract *)
(* the raw printer: what quick-xml's writer emits for an infoset whose attribute values are already escaped *)
Definition print_attr_raw (kv : bytes * bytes) : bytes := B " " ++ fst kv ++ B "=""" ++ snd kv ++ B """".
Fixpoint print_raw (t : xml) : bytes :=
  match t with
  | Text s => s
  | Elem n attrs kids =>
      B "<" ++ n ++ concat (map print_attr_raw attrs) ++
      match kids with
      | [] => B "/>"
      | _ => B ">" ++ concat (map print_raw kids) ++ B "</" ++ n ++ B ">"
      end
  end.

Lemma print_is_raw t : print t = print_raw (enc_tree escape t).
Proof.
  induction t as [s|n a kids IH] using xml_ind'; cbn [print print_raw enc_tree]; [reflexivity|].
  assert (Ha : concat (map print_attr a) = concat (map print_attr_raw (map (fun kv => (fst kv, escape (snd kv))) a))).
  { induction a as [|[k v] a IHa]; cbn; [reflexivity|]. now rewrite IHa. }
  assert (Hk : concat (map print kids) = concat (map print_raw (map (enc_tree escape) kids))).
  { induction IH as [|x l Hx _ IHl]; cbn; [reflexivity|]. now rewrite Hx, IHl. }
  rewrite Ha. destruct kids as [|k0 kids]; [reflexivity|]. cbn [map] in *. now rewrite Hk.
Qed.

(* trees the tokenizer is assumed to read back: alphanumeric names, attribute values free of the double
   quote and of '<', no text nodes *)
Definition name_ok (n : bytes) : bool := match n with [] => false | _ => forallb is_alphanum n end.
Definition value_ok (v : bytes) : bool := forallb (fun c => negb (beq c quote) && negb (beq c "<"%byte)) v.
Fixpoint printable (t : xml) : bool :=
  match t with
  | Text _ => false
  | Elem n attrs kids =>
      name_ok n && forallb (fun kv => name_ok (fst kv) && value_ok (snd kv)) attrs &&
      (fix all (l : list xml) : bool := match l with [] => true | x :: r => printable x && all r end) kids
  end.

Lemma printable_all l :
  (fix all (l : list xml) : bool := match l with [] => true | x :: r => printable x && all r end) l = forallb printable l.
Proof. induction l as [|x r IH]; [reflexivity|]. cbn. now rewrite IH. Qed.

Lemma printable_elem n attrs kids :
  printable (Elem n attrs kids) =
  name_ok n && forallb (fun kv => name_ok (fst kv) && value_ok (snd kv)) attrs && forallb printable kids.
Proof. cbn [printable]. now rewrite printable_all. Qed.

Section Text.
  Variable sigT : Type.
  Variable sig_parse : bytes -> option sigT.
  Variable sig_show : sigT -> bytes.
  Variable valid_member valid_interface valid_property : bytes -> bool.

  Notation wf := (wf_node sigT sig_show sig_parse valid_member valid_interface valid_property).
  Notation rd dec := (of_node sigT sig_parse valid_member valid_interface valid_property dec).
  Notation wr := (to_tree sigT sig_show).
  Notation X := (enc_tree escape).

  Lemma value_ok_escape v : value_ok (escape v) = true.
  Proof. apply escape_clean. Qed.

  Lemma forallb_map_printable {A} (f : A -> xml) l : (forall x, printable (X (f x)) = true) -> forallb printable (map X (map f l)) = true.
  Proof. intro H. induction l as [|x l IH]; cbn; [reflexivity|]. now rewrite H, IH. Qed.

  Lemma pr_ann a : printable (X (t_ann a)) = true.
  Proof. unfold t_ann. cbn [enc_tree map fst snd]. rewrite printable_elem. cbn. now rewrite !value_ok_escape. Qed.
  Lemma pr_arg a : printable (X (t_arg sigT sig_show a)) = true.
  Proof.
    unfold t_arg. cbn [enc_tree]. rewrite printable_elem.
    rewrite (forallb_map_printable t_ann _ pr_ann), andb_true_r.
    destruct (ar_name sigT a), (ar_dir sigT a); cbn; now rewrite !value_ok_escape.
  Qed.
  Lemma pr_method m : printable (X (t_method sigT sig_show m)) = true.
  Proof.
    unfold t_method. cbn [enc_tree map fst snd]. rewrite printable_elem. cbn [forallb fst snd]. rewrite !value_ok_escape.
    rewrite !map_app, forallb_app, (forallb_map_printable _ _ pr_arg), (forallb_map_printable t_ann _ pr_ann). reflexivity.
  Qed.
  Lemma pr_signal m : printable (X (t_signal sigT sig_show m)) = true.
  Proof.
    unfold t_signal. cbn [enc_tree map fst snd]. rewrite printable_elem. cbn [forallb fst snd]. rewrite !value_ok_escape.
    rewrite !map_app, forallb_app, (forallb_map_printable _ _ pr_arg), (forallb_map_printable t_ann _ pr_ann). reflexivity.
  Qed.
  Lemma pr_prop p : printable (X (t_prop sigT sig_show p)) = true.
  Proof.
    unfold t_prop. cbn [enc_tree map fst snd]. rewrite printable_elem. cbn [forallb fst snd]. rewrite !value_ok_escape.
    rewrite (forallb_map_printable t_ann _ pr_ann). reflexivity.
  Qed.
  Lemma pr_iface i : printable (X (t_iface sigT sig_show i)) = true.
  Proof.
    unfold t_iface. cbn [enc_tree map fst snd]. rewrite printable_elem. cbn [forallb fst snd]. rewrite !value_ok_escape.
    rewrite !map_app, !forallb_app, (forallb_map_printable _ _ pr_method), (forallb_map_printable _ _ pr_prop),
      (forallb_map_printable _ _ pr_signal), (forallb_map_printable t_ann _ pr_ann). reflexivity.
  Qed.
  Lemma pr_node d : forall tag, name_ok tag = true -> printable (X (t_node sigT sig_show tag d)) = true.
  Proof.
    induction d as [name ifs ns IH] using node_ind'. intros tag Ht. cbn [t_node enc_tree].
    rewrite printable_elem, Ht.
    assert (Hn : forallb printable (map X (map (t_node sigT sig_show (B "node")) ns)) = true).
    { induction IH as [|x l Hx _ IHl]; cbn [map forallb]; [reflexivity|]. now rewrite (Hx (B "node") eq_refl), IHl. }
    rewrite !map_app, forallb_app, (forallb_map_printable _ _ pr_iface), Hn.
    destruct name; cbn; now rewrite ?value_ok_escape.
  Qed.

  (* quick-xml's tokenizer, by contract: it reads back what the raw printer wrote for a printable tree,
     attribute values still escaped (the deserializer unescapes them on access) *)
  Variable tokenize : bytes -> option xml.
  Hypothesis tokenize_print : forall r, printable r = true -> tokenize (print_raw r) = Some r.

  (* Node::try_from(&str) / from_reader: tokenize, then the derive's reader with unescape on access *)
  Definition from_str (text : bytes) : res xerr (node sigT) :=
    match tokenize text with Some r => rd unescape r | None => Err EXml end.

  Theorem text_roundtrip d : wf d -> from_str (to_writer sigT sig_show d) = Ok d.
  Proof.
    intro Hwf. unfold from_str, to_writer, to_tree. rewrite print_is_raw.
    rewrite (tokenize_print _ (pr_node d (B "Node") eq_refl)).
    apply (reader_correct sigT sig_parse sig_show valid_member valid_interface valid_property escape unescape
             unescape_escape d (B "Node") (wr d) Hwf).
    apply writer_conforms.
  Qed.
End Text.

(* ---------------------------------------------------------------- every document the reader returns is well formed *)
Section Parsed.
  Variable sigT : Type.
  Variable sig_parse : bytes -> option sigT.
  Variable sig_show : sigT -> bytes.
  Variable valid_member valid_interface valid_property : bytes -> bool.
  Variable dec : bytes -> res xerr bytes.
  (* C06: a parsed signature re-reads from its own text *)
  Hypothesis sig_reparse : forall b s, sig_parse b = Some s -> sig_parse (sig_show s) = Some s.

  Notation wf := (wf_node sigT sig_show sig_parse valid_member valid_interface valid_property).
  Notation rd := (of_node sigT sig_parse valid_member valid_interface valid_property dec).

  Ltac binv :=
    repeat match goal with
           | H : bind ?x _ = Ok _ |- _ =>
               let E := fresh "E" in destruct x eqn:E; cbn [bind] in H; [|discriminate H|discriminate H]
           end.

  Lemma map_res_inv {A C} (f : A -> res xerr C) l : forall ds, map_res f l = Ok ds -> Forall2 (fun t d => f t = Ok d) l ds.
  Proof.
    induction l as [|x l IH]; intros ds H; cbn in H.
    - injection H as <-. constructor.
    - binv. injection H as <-. constructor; [assumption|now apply IH].
  Qed.

  Lemma children_inv {C} k (f : xml -> res xerr C) kids ds :
    children k f kids = Ok ds -> Forall2 (fun t d => f t = Ok d) (filter (elem_named k) kids) ds.
  Proof. unfold children. destruct (same_names _); [apply map_res_inv|discriminate]. Qed.

  Lemma forall2_forall {A C} (f : A -> res xerr C) (W : C -> Prop) l ds :
    Forall2 (fun t d => f t = Ok d) l ds -> (forall t d, In t l -> f t = Ok d -> W d) -> Forall W ds.
  Proof.
    induction 1 as [|t d l ds Ht _ IH]; intro H; constructor.
    - apply (H t d); [now left|exact Ht].
    - apply IH. intros t' d' Hin. apply H. now right.
  Qed.

  Lemma parse_sig_ok v s : parse_sig sigT sig_parse v = Ok s -> sig_ok sigT sig_show sig_parse s.
  Proof. unfold parse_sig, sig_ok. destruct (sig_parse v) eqn:E; [|discriminate]. intro H. injection H as <-. eauto. Qed.

  Lemma parse_name_ok valid v n : parse_name valid v = Ok n -> valid n = true.
  Proof. unfold parse_name. destruct (valid v) eqn:E; [|discriminate]. intro H. now injection H as <-. Qed.

  Lemma arg_wf t a : of_arg sigT sig_parse dec t = Ok a -> wf_arg sigT sig_show sig_parse a.
  Proof.
    unfold of_arg. destruct t as [n attrs kids|]; [|discriminate]. intro H. binv. injection H as <-.
    unfold wf_arg. cbn. eapply parse_sig_ok; eassumption.
  Qed.

  Lemma args_wf kids args : children (B "arg") (of_arg sigT sig_parse dec) kids = Ok args ->
    Forall (wf_arg sigT sig_show sig_parse) args.
  Proof. intro H. apply children_inv in H. apply (forall2_forall _ _ _ _ H). intros t d _. apply arg_wf. Qed.

  Lemma method_wf t m : of_method sigT sig_parse valid_member dec t = Ok m -> wf_method sigT sig_show sig_parse valid_member m.
  Proof.
    unfold of_method. destruct t as [n attrs kids|]; [|discriminate]. intro H. binv. injection H as <-.
    split; cbn; [eapply parse_name_ok; eassumption|eapply args_wf; eassumption].
  Qed.

  Lemma signal_wf t m : of_signal sigT sig_parse valid_member dec t = Ok m -> wf_signal sigT sig_show sig_parse valid_member m.
  Proof.
    unfold of_signal. destruct t as [n attrs kids|]; [|discriminate]. intro H. binv. injection H as <-.
    split; cbn; [eapply parse_name_ok; eassumption|eapply args_wf; eassumption].
  Qed.

  Lemma prop_wf t p : of_prop sigT sig_parse valid_property dec t = Ok p -> wf_prop sigT sig_show sig_parse valid_property p.
  Proof.
    unfold of_prop. destruct t as [n attrs kids|]; [|discriminate]. intro H. binv. injection H as <-.
    split; cbn; [eapply parse_name_ok; eassumption|eapply parse_sig_ok; eassumption].
  Qed.

  Lemma iface_wf t i : of_iface sigT sig_parse valid_member valid_interface valid_property dec t = Ok i ->
    wf_iface sigT sig_show sig_parse valid_member valid_interface valid_property i.
  Proof.
    unfold of_iface. destruct t as [n attrs kids|]; [|discriminate]. intro H. binv. injection H as <-.
    repeat split; cbn.
    - eapply parse_name_ok; eassumption.
    - match goal with H : children (B "method") _ _ = Ok _ |- _ => apply children_inv in H; apply (forall2_forall _ _ _ _ H) end.
      intros t d _. apply method_wf.
    - match goal with H : children (B "property") _ _ = Ok _ |- _ => apply children_inv in H; apply (forall2_forall _ _ _ _ H) end.
      intros t d _. apply prop_wf.
    - match goal with H : children (B "signal") _ _ = Ok _ |- _ => apply children_inv in H; apply (forall2_forall _ _ _ _ H) end.
      intros t d _. apply signal_wf.
  Qed.

  Theorem parsed_wf t : forall d, rd t = Ok d -> wf d.
  Proof.
    induction t as [s|n attrs kids IH] using xml_ind'; intros d H; [discriminate|].
    rewrite of_node_unfold in H. binv. injection H as <-. cbn [wf_node]. split.
    - match goal with H : children (B "interface") _ _ = Ok _ |- _ => apply children_inv in H; apply (forall2_forall _ _ _ _ H) end.
      intros t d _. apply iface_wf.
    - apply wf_all.
      match goal with H : children (B "node") _ _ = Ok _ |- _ => apply children_inv in H; apply (forall2_forall _ _ _ _ H) end.
      intros t d Hin Hd. rewrite Forall_forall in IH. apply (IH t); [|exact Hd]. apply filter_In in Hin. tauto.
  Qed.
End Parsed.

(* whatever the reader accepts survives writing and re-reading *)
Corollary reread_of_parsed sigT sig_parse sig_show vm vi vp :
  (forall b s, sig_parse b = Some s -> sig_parse (sig_show s) = Some s) ->
  forall t (d : node sigT),
    of_node sigT sig_parse vm vi vp (fun v => Ok v) t = Ok d ->
    of_node sigT sig_parse vm vi vp (fun v => Ok v) (to_tree sigT sig_show d) = Ok d.
Proof. intros Hs t d H. apply roundtrip. exact (parsed_wf sigT sig_parse sig_show vm vi vp _ Hs t d H). Qed.
