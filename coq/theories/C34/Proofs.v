(* C34/Proofs.v — the reader returns d on every infoset that represents d; the writer's infoset represents d
   when no optional is absent; hence the round trip; the witnesses for absent optionals. *)
From ZV Require Import Base.Bytes Base.Res Base.WinnowFacts C34.Model C34.Spec C34.Escape.
From Coq Require Import Lia.

Local Arguments children : simpl never.
Local Arguments parse_sig : simpl never.
Local Arguments parse_name : simpl never.

Lemma lbeq_refl a : lbeq a a = true.
Proof. now apply lbeq_eq. Qed.

(* an infoset with every attribute value and text re-coded (escape on the way out) *)
Fixpoint enc_tree (enc : bytes -> bytes) (t : xml) : xml :=
  match t with
  | Text s => Text (enc s)
  | Elem n attrs kids => Elem n (map (fun kv => (fst kv, enc (snd kv))) attrs) (map (enc_tree enc) kids)
  end.

Definition is_el (k : bytes) (t : xml) : Prop := match t with Elem n _ _ => n = k | Text _ => False end.

Lemma is_el_enc enc k t : is_el k t -> is_el k (enc_tree enc t).
Proof. destruct t; cbn; auto. Qed.

Lemma filter_all k l : Forall (is_el k) l -> lbeq (local_name k) k = true -> filter (elem_named k) l = l.
Proof.
  intros H Hk. induction H as [|t l Ht _ IH]; [reflexivity|]. destruct t as [n a c|s]; [|destruct Ht].
  cbn in Ht. subst n. cbn [filter elem_named]. now rewrite Hk, IH.
Qed.

Lemma filter_none k k' l : Forall (is_el k') l -> lbeq (local_name k') k = false -> filter (elem_named k) l = [].
Proof.
  intros H Hk. induction H as [|t l Ht _ IH]; [reflexivity|]. destruct t as [n a c|s]; [|destruct Ht].
  cbn in Ht. subst n. cbn [filter elem_named]. now rewrite Hk, IH.
Qed.

Lemma same_names_all k l : Forall (is_el k) l -> same_names l = true.
Proof.
  intro H. destruct H as [|t l Ht Hl]; [reflexivity|]. destruct t as [n a c|s]; [|destruct Ht]. cbn in Ht. subst n.
  cbn [same_names]. apply forallb_forall. intros x Hx. rewrite Forall_forall in Hl. specialize (Hl x Hx).
  destruct x as [m ? ?|?]; [|reflexivity]. cbn in Hl. subst m. apply lbeq_refl.
Qed.

Section Reader.
  Variable sigT : Type.
  Variable sig_parse : bytes -> option sigT.
  Variable sig_show : sigT -> bytes.
  Variable valid_member valid_interface valid_property : bytes -> bool.
  Variables (enc : bytes -> bytes) (dec : bytes -> res xerr bytes).
  Hypothesis dec_enc : forall s, dec (enc s) = Ok s.

  Notation of_ann' := (of_ann dec).
  Notation of_arg' := (of_arg sigT sig_parse dec).
  Notation of_method' := (of_method sigT sig_parse valid_member dec).
  Notation of_signal' := (of_signal sigT sig_parse valid_member dec).
  Notation of_prop' := (of_prop sigT sig_parse valid_property dec).
  Notation of_iface' := (of_iface sigT sig_parse valid_member valid_interface valid_property dec).
  Notation of_node' := (of_node sigT sig_parse valid_member valid_interface valid_property dec).
  Notation E := (enc_tree enc).

  Lemma map_res_ok {A C} (f : A -> res xerr C) l ds :
    Forall2 (fun t d => f t = Ok d) l ds -> map_res f l = Ok ds.
  Proof. induction 1 as [|t d l ds Ht _ IH]; cbn; [reflexivity|]. now rewrite Ht, IH. Qed.

  (* the children of one kind inside a list of groups pre ++ l ++ post *)
  Lemma children_group {C} k (f : xml -> res xerr C) pre l post ds :
    lbeq (local_name k) k = true ->
    filter (elem_named k) pre = [] -> filter (elem_named k) post = [] ->
    Forall (is_el k) l -> Forall2 (fun t d => f t = Ok d) l ds ->
    children k f (pre ++ l ++ post) = Ok ds.
  Proof.
    intros Hk Hpre Hpost Hl Hf. unfold children. rewrite !filter_app, Hpre, Hpost, app_nil_r. cbn [app].
    rewrite (filter_all k l Hl Hk), (same_names_all k l Hl). now apply map_res_ok.
  Qed.

  Lemma forall2_enc {C} (R : xml -> C -> Prop) (f : xml -> res xerr C) l ds :
    Forall2 R l ds -> (forall t d, R t d -> f (E t) = Ok d) ->
    Forall2 (fun t d => f t = Ok d) (map E l) ds.
  Proof. intros H Hf. induction H; cbn; constructor; auto. Qed.

  Lemma forall2_enc_wf {C} (R : xml -> C -> Prop) (W : C -> Prop) (f : xml -> res xerr C) l ds :
    Forall2 R l ds -> Forall W ds -> (forall t d, W d -> R t d -> f (E t) = Ok d) ->
    Forall2 (fun t d => f t = Ok d) (map E l) ds.
  Proof. intros H Hw Hf. induction H; cbn; constructor; inversion Hw; subst; auto. Qed.

  Lemma forall2_el {C} (R : xml -> C -> Prop) k l ds :
    Forall2 R l ds -> (forall t d, R t d -> is_el k t) -> Forall (is_el k) (map E l).
  Proof. intros H Hk. induction H; cbn; constructor; eauto using is_el_enc. Qed.

  (* element names of the six relations *)
  Lemma RAnn_el t a : RAnn t a -> is_el (B "annotation") t.            Proof. destruct 1; reflexivity. Qed.
  Lemma RArg_el t a : RArg sigT sig_show t a -> is_el (B "arg") t.      Proof. destruct 1; reflexivity. Qed.
  Lemma RMethod_el t a : RMethod sigT sig_show t a -> is_el (B "method") t.   Proof. destruct 1; reflexivity. Qed.
  Lemma RSignal_el t a : RSignal sigT sig_show t a -> is_el (B "signal") t.   Proof. destruct 1; reflexivity. Qed.
  Lemma RProp_el t a : RProp sigT sig_show t a -> is_el (B "property") t.     Proof. destruct 1; reflexivity. Qed.
  Lemma RIface_el t a : RIface sigT sig_show t a -> is_el (B "interface") t.  Proof. destruct 1; reflexivity. Qed.
  Lemma RNode_el k t a : RNode sigT sig_show k t a -> is_el k t.              Proof. destruct 1; reflexivity. Qed.

  Lemma rd_ann t a : RAnn t a -> of_ann' (E t) = Ok a.
  Proof.
    destruct 1 as [[n v]]. cbn. unfold check_attrs, req_attr, get_attr. cbn. now rewrite !dec_enc.
  Qed.

  Lemma anns_ok pre kn post anns :
    filter (elem_named (B "annotation")) pre = [] -> filter (elem_named (B "annotation")) post = [] ->
    Forall2 RAnn kn anns ->
    children (B "annotation") of_ann' (pre ++ map E kn ++ post) = Ok anns.
  Proof.
    intros Hpre Hpost H. apply children_group; [reflexivity|exact Hpre|exact Hpost| |].
    - apply (forall2_el RAnn _ _ _ H). apply RAnn_el.
    - apply (forall2_enc RAnn _ _ _ H). apply rd_ann.
  Qed.

  Lemma rd_arg t a : wf_arg sigT sig_show sig_parse a -> RArg sigT sig_show t a -> of_arg' (E t) = Ok a.
  Proof.
    intros Hwf H. destruct H as [[n ty d anns] kn Hk]. cbn [ar_name ar_ty ar_dir ar_anns] in *.
    unfold wf_arg, sig_ok in Hwf. cbn [ar_ty] in Hwf.
    pose proof (anns_ok [] kn [] anns eq_refl eq_refl Hk) as Ha. cbn [app] in Ha. rewrite app_nil_r in Ha. cbn in Ha.
    destruct n as [n|], d as [[|]|]; cbn; unfold check_attrs, req_attr, get_attr; cbn; rewrite ?dec_enc; cbn;
      unfold parse_sig; rewrite Hwf; cbn; rewrite Ha; reflexivity.
  Qed.

  Lemma args_ok kn post args :
    filter (elem_named (B "arg")) post = [] -> Forall (wf_arg sigT sig_show sig_parse) args ->
    Forall2 (RArg sigT sig_show) kn args ->
    children (B "arg") of_arg' (map E kn ++ post) = Ok args.
  Proof.
    intros Hpost Hwf H. apply (children_group (B "arg") of_arg' [] (map E kn) post args); [reflexivity|reflexivity|exact Hpost| |].
    - apply (forall2_el _ _ _ _ H). apply RArg_el.
    - apply (forall2_enc_wf _ _ _ _ _ H Hwf). apply rd_arg.
  Qed.

  Lemma filter_none_map k k' {C} (R : xml -> C -> Prop) l ds :
    Forall2 R l ds -> (forall t d, R t d -> is_el k' t) -> lbeq (local_name k') k = false ->
    filter (elem_named k) (map E l) = [].
  Proof. intros H Hel Hk. apply (filter_none k k'); [apply (forall2_el R k' l ds H Hel)|exact Hk]. Qed.

  Lemma rd_method t m : wf_method sigT sig_show sig_parse valid_member m -> RMethod sigT sig_show t m -> of_method' (E t) = Ok m.
  Proof.
    intros [Hn Hargs] H. destruct H as [[n args anns] ka kn Ha Hk]. cbn [m_name m_args m_anns] in *.
    cbn. unfold check_attrs, req_attr, get_attr. cbn. rewrite dec_enc. cbn. unfold parse_name. rewrite Hn. cbn.
    rewrite map_app.
    pose proof (args_ok ka (map E kn) args (filter_none_map _ _ RAnn kn anns Hk RAnn_el eq_refl) Hargs Ha) as Hy.
    cbn in Hy. rewrite Hy. cbn.
    pose proof (anns_ok (map E ka) kn [] anns (filter_none_map _ _ _ ka args Ha RArg_el eq_refl) eq_refl Hk) as Hx.
    rewrite app_nil_r in Hx. cbn in Hx. rewrite Hx. reflexivity.
  Qed.

  Lemma rd_signal t m : wf_signal sigT sig_show sig_parse valid_member m -> RSignal sigT sig_show t m -> of_signal' (E t) = Ok m.
  Proof.
    intros [Hn Hargs] H. destruct H as [[n args anns] ka kn Ha Hk]. cbn [s_name s_args s_anns] in *.
    cbn. unfold check_attrs, req_attr, get_attr. cbn. rewrite dec_enc. cbn. unfold parse_name. rewrite Hn. cbn.
    rewrite map_app.
    pose proof (args_ok ka (map E kn) args (filter_none_map _ _ RAnn kn anns Hk RAnn_el eq_refl) Hargs Ha) as Hy.
    cbn in Hy. rewrite Hy. cbn.
    pose proof (anns_ok (map E ka) kn [] anns (filter_none_map _ _ _ ka args Ha RArg_el eq_refl) eq_refl Hk) as Hx.
    rewrite app_nil_r in Hx. cbn in Hx. rewrite Hx. reflexivity.
  Qed.

  Lemma rd_prop t p : wf_prop sigT sig_show sig_parse valid_property p -> RProp sigT sig_show t p -> of_prop' (E t) = Ok p.
  Proof.
    intros [Hn Hs] H. destruct H as [[n ty acc anns] kn Hk]. cbn [p_name p_ty p_access p_anns] in *.
    unfold sig_ok in Hs.
    pose proof (anns_ok [] kn [] anns eq_refl eq_refl Hk) as Ha. cbn [app] in Ha. rewrite app_nil_r in Ha. cbn in Ha.
    cbn. unfold check_attrs, req_attr, get_attr. cbn. rewrite !dec_enc. cbn. unfold parse_name. rewrite Hn. cbn.
    unfold parse_sig. rewrite Hs. cbn. destruct acc; cbn; rewrite Ha; reflexivity.
  Qed.

  Lemma rd_iface t i : wf_iface sigT sig_show sig_parse valid_member valid_interface valid_property i ->
    RIface sigT sig_show t i -> of_iface' (E t) = Ok i.
  Proof.
    intros (Hn & Hm & Hp & Hs) H. destruct H as [[n ms ps ss anns] km kp ks kn Rm Rp Rs Rn].
    cbn [i_name i_methods i_props i_signals i_anns] in *.
    cbn. unfold check_attrs, req_attr, get_attr. cbn. rewrite dec_enc. cbn. unfold parse_name. rewrite Hn. cbn.
    rewrite !map_app.
    set (Em := map E km). set (Ep := map E kp). set (Es := map E ks). set (En := map E kn).
    assert (Fm : forall k, lbeq (local_name (B "method")) k = false -> filter (elem_named k) Em = [])
      by (intros k Hk; apply (filter_none_map k _ _ km ms Rm RMethod_el Hk)).
    assert (Fp : forall k, lbeq (local_name (B "property")) k = false -> filter (elem_named k) Ep = [])
      by (intros k Hk; apply (filter_none_map k _ _ kp ps Rp RProp_el Hk)).
    assert (Fs : forall k, lbeq (local_name (B "signal")) k = false -> filter (elem_named k) Es = [])
      by (intros k Hk; apply (filter_none_map k _ _ ks ss Rs RSignal_el Hk)).
    assert (Fn : forall k, lbeq (local_name (B "annotation")) k = false -> filter (elem_named k) En = [])
      by (intros k Hk; apply (filter_none_map k _ _ kn anns Rn RAnn_el Hk)).
    (* methods *)
    rewrite (children_group (B "method") of_method' [] Em (Ep ++ Es ++ En) ms eq_refl eq_refl);
      [|rewrite !filter_app, Fp, Fs, Fn by reflexivity; reflexivity
       |apply (forall2_el _ _ _ _ Rm), RMethod_el
       |apply (forall2_enc_wf _ _ _ _ _ Rm Hm), rd_method].
    cbn [bind].
    (* properties *)
    rewrite (children_group (B "property") of_prop' Em Ep (Es ++ En) ps eq_refl);
      [|apply Fm; reflexivity
       |rewrite !filter_app, Fs, Fn by reflexivity; reflexivity
       |apply (forall2_el _ _ _ _ Rp), RProp_el
       |apply (forall2_enc_wf _ _ _ _ _ Rp Hp), rd_prop].
    cbn [bind].
    (* signals *)
    replace (Em ++ Ep ++ Es ++ En) with ((Em ++ Ep) ++ Es ++ En) by (now rewrite <- app_assoc).
    rewrite (children_group (B "signal") of_signal' (Em ++ Ep) Es En ss eq_refl);
      [|rewrite filter_app, Fm, Fp by reflexivity; reflexivity
       |apply Fn; reflexivity
       |apply (forall2_el _ _ _ _ Rs), RSignal_el
       |apply (forall2_enc_wf _ _ _ _ _ Rs Hs), rd_signal].
    cbn [bind].
    (* annotations *)
    replace ((Em ++ Ep) ++ Es ++ En) with ((Em ++ Ep ++ Es) ++ En ++ []) by (now rewrite app_nil_r, <- !app_assoc).
    rewrite (children_group (B "annotation") of_ann' (Em ++ Ep ++ Es) En [] anns eq_refl);
      [|rewrite !filter_app, Fm, Fp, Fs by reflexivity; reflexivity
       |reflexivity
       |apply (forall2_el _ _ _ _ Rn), RAnn_el
       |apply (forall2_enc _ _ _ _ Rn), rd_ann].
    reflexivity.
  Qed.

  (* the nested-node loop of of_node is map_res over the `node` children *)
  Lemma node_loop kids :
    (fix go (l : list xml) : res xerr (list (node sigT)) :=
       match l with
       | [] => Ok []
       | k :: r => if elem_named (B "node") k
                   then let* x := of_node' k in let* xs := go r in Ok (x :: xs)
                   else go r
       end) kids = map_res of_node' (filter (elem_named (B "node")) kids).
  Proof.
    induction kids as [|k r IH]; [reflexivity|]. cbn [filter]. destruct (elem_named (B "node") k); [|exact IH].
    cbn [map_res]. now rewrite IH.
  Qed.

  Lemma of_node_unfold n attrs kids :
    of_node' (Elem n attrs kids) =
    (let* _ := check_attrs attrs in
     let* nm := get_attr dec (B "name") attrs in
     let* ifs := children (B "interface") of_iface' kids in
     let* ns := children (B "node") of_node' kids in
     Ok (Node sigT nm ifs ns)).
  Proof.
    cbn [of_node]. destruct (check_attrs attrs); cbn [bind]; try reflexivity.
    destruct (get_attr dec (B "name") attrs); cbn [bind]; try reflexivity.
    destruct (children (B "interface") of_iface' kids); cbn [bind]; try reflexivity.
    unfold children at 1. destruct (same_names (filter (elem_named (B "node")) kids)); cbn [bind]; [|reflexivity].
    now rewrite node_loop.
  Qed.
End Reader.
