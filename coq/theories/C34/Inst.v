(* C34/Inst.v — the document model instantiated with the signature model of C06 (zvariant::Signature,
   gvariant feature off) and the name validators of C10 (zbus_names). *)
From ZV Require Import Base.Bytes Base.Res C34.Model.
From ZV Require C06.Model C10.Model.

Definition sigT := C06.Model.tsig.
Definition sig_parse (b : bytes) : option sigT :=
  match C06.Model.from_str false b with Ok t => Some t | _ => None end.
Definition sig_show (t : sigT) : bytes := C06.Model.show t.

Definition rd := of_node sigT sig_parse C10.Model.validate_member C10.Model.validate_interface
                         C10.Model.validate_property (fun v => Ok v).
Definition wr := to_tree sigT sig_show.
Definition rd_text_dec (dec : bytes -> res xerr bytes) :=
  of_node sigT sig_parse C10.Model.validate_member C10.Model.validate_interface C10.Model.validate_property dec.
