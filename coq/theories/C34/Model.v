(* C34/Model.v — executable mirror of zbus_xml/src/lib.rs: the document types and what their
   serde derives do through quick-xml 0.38 (features serialize + overlapped-lists).  No proofs here.

   Boundary.  quick-xml's *tokenizer* (bytes -> start/end/text events) is not modelled; the model works on
   the XML infoset [xml] (element name, attributes in document order, children).  What IS modelled, because
   it decides the property:
     - the serde mapping of the derives: `@name` fields <-> attributes, other fields <-> child elements by
       name, `default` for the Vec fields, Option fields, unit-variant enums as attribute text, unknown
       attributes / elements / text ignored, duplicate and missing fields;
     - quick-xml's key mapping (local names; xmlns bindings; the xml: prefix);
     - the serializer: struct name as root tag, field order, a `None` attribute left out (skip_serializing_if),
       `<x .../>` for an element without children, attribute escaping (escape_list, DoubleQAttr, Partial);
     - the deserializer's unescape (unescape_with + resolve_xml_entity + parse_number).
   The signature type is a parameter (zvariant::Signature: C06); Run.v instantiates it with C06's model. *)
From ZV Require Import Base.Bytes Base.Res.

Inductive xml :=
| Elem (name : bytes) (attrs : list (bytes * bytes)) (kids : list xml)
| Text (s : bytes).

Inductive xerr := EXml.      (* every zbus_xml::Error is the observation ERR *)

(* ---------------------------------------------------------------- escaping (quick-xml escape.rs) *)
(* se::simple_type::escape_list(value, DoubleQAttr, Partial): the four bytes & < > and the double quote *)
Definition escape_byte (c : byte) : bytes :=
  match c with
  | "<"%byte => B "&lt;"
  | ">"%byte => B "&gt;"
  | "&"%byte => B "&amp;"
  | """"%byte => B "&quot;"
  | _ => [c]
  end.
Fixpoint escape (s : bytes) : bytes :=
  match s with [] => [] | c :: r => escape_byte c ++ escape r end.

(* the first '&' or ';' of l: the bytes before it, which one it is, the bytes after it *)
Fixpoint next_amp_semi (l : bytes) : option (bytes * byte * bytes) :=
  match l with
  | [] => None
  | c :: r =>
      if beq c "&"%byte || beq c ";"%byte then Some ([], c, r)
      else match next_amp_semi r with
           | Some (p, d, q) => Some (c :: p, d, q)
           | None => None
           end
  end.

(* resolve_xml_entity *)
Definition named_entity (e : bytes) : option bytes :=
  if lbeq e (B "lt") then Some (B "<")
  else if lbeq e (B "gt") then Some (B ">")
  else if lbeq e (B "amp") then Some (B "&")
  else if lbeq e (B "apos") then Some (B "'")
  else if lbeq e (B "quot") then Some [""""%byte]
  else None.

(* u32::from_str_radix on a string that does not start with a sign (the caller rejects + and -) *)
Fixpoint digits_val (radix : N) (l : bytes) (acc : N) : option N :=
  match l with
  | [] => Some acc
  | c :: r =>
      match hexval c with
      | Some d => if (d <? radix)%N then digits_val radix r (acc * radix + d)%N else None
      | None => None
      end
  end.
Definition from_str_radix (radix : N) (l : bytes) : option N :=
  match l with
  | [] => None
  | c :: _ =>
      if beq c "+"%byte || beq c "-"%byte then None
      else match digits_val radix l 0%N with
           | Some n => if (n <? 4294967296)%N then Some n else None
           | None => None
           end
  end.

(* char::encode_utf8 *)
Definition utf8_encode (n : N) : bytes :=
  if (n <? 128)%N then [nb n]
  else if (n <? 2048)%N then [nb (192 + n / 64); nb (128 + n mod 64)]
  else if (n <? 65536)%N then [nb (224 + n / 4096); nb (128 + (n / 64) mod 64); nb (128 + n mod 64)]
  else [nb (240 + n / 262144); nb (128 + (n / 4096) mod 64); nb (128 + (n / 64) mod 64); nb (128 + n mod 64)].

(* parse_number: decimal or x-hex, not 0, a Unicode scalar value *)
Definition char_ref (e : bytes) : option bytes :=
  let code := match e with
              | c :: r => if beq c "x"%byte then from_str_radix 16 r else from_str_radix 10 e
              | [] => None
              end in
  match code with
  | Some n =>
      if (n =? 0)%N then None
      else if ((55296 <=? n) && (n <=? 57343))%N then None        (* surrogates *)
      else if (1114111 <? n)%N then None
      else Some (utf8_encode n)
  | None => None
  end.

(* unescape_with(raw, resolve_predefined_entity): every '&' must be followed, before any other '&', by a
   ';'; the name in between is a predefined entity or a character reference.  The scan restarts after the
   ';' — structural recursion is on the fuel [length raw], which a lemma shows is never exhausted. *)
Fixpoint skip_to_amp (l : bytes) : bytes * option bytes :=      (* text before the next '&', rest after it *)
  match l with
  | [] => ([], None)
  | c :: r => if beq c "&"%byte then ([], Some r)
              else let (p, q) := skip_to_amp r in (c :: p, q)
  end.

Fixpoint unescape_fuel (fuel : nat) (raw : bytes) : res xerr bytes :=
  match fuel with
  | O => Panic PUnreachable
  | S f =>
      match skip_to_amp raw with
      | (p, None) => Ok p
      | (p, Some r) =>
          match next_amp_semi r with
          | Some (ent, d, rest) =>
              if beq d ";"%byte then
                match (match ent with
                       | c :: e' => if beq c "#"%byte then char_ref e' else named_entity ent
                       | [] => named_entity ent
                       end) with
                | Some v => let* t := unescape_fuel f rest in Ok (p ++ v ++ t)
                | None => Err EXml                      (* unrecognized entity / invalid character reference *)
                end
              else Err EXml                              (* unterminated entity *)
          | None => Err EXml
          end
      end
  end.
Definition unescape (raw : bytes) : res xerr bytes := unescape_fuel (S (length raw)) raw.

(* ---------------------------------------------------------------- names and keys (quick-xml name.rs, de/key.rs) *)
Fixpoint after_colon (l : bytes) : option bytes :=
  match l with
  | [] => None
  | c :: r => if beq c ":"%byte then Some r else after_colon r
  end.
Fixpoint before_colon (l : bytes) : bytes :=
  match l with
  | [] => []
  | c :: r => if beq c ":"%byte then [] else c :: before_colon r
  end.
(* QName::local_name: the part after the first ':' *)
Definition local_name (n : bytes) : bytes := match after_colon n with Some l => l | None => n end.
(* QNameDeserializer::from_attr (without the leading '@'): namespace bindings and xml:… keep their full
   name, everything else maps to its local name *)
Definition attr_key (n : bytes) : bytes :=
  if lbeq n (B "xmlns") || starts_with (B "xmlns:") n then n
  else match after_colon n with
       | Some l => if lbeq (before_colon n) (B "xml") then n else l
       | None => n
       end.

(* ---------------------------------------------------------------- the document types *)
Section Doc.
  Variable sigT : Type.
  Variable sig_parse : bytes -> option sigT.      (* zvariant::Signature::try_from(bytes), gvariant off *)
  Variable sig_show : sigT -> bytes.              (* Display / Serialize of zvariant::Signature *)
  (* the validators of zbus_names (C10): MemberName, InterfaceName, PropertyName *)
  Variable valid_member valid_interface valid_property : bytes -> bool.
  (* how an accessed attribute value is decoded: [fun v => Ok v] on an infoset, [unescape] on raw text *)
  Variable dec : bytes -> res xerr bytes.

  Record annotation := mkAnn { an_name : bytes; an_value : bytes }.
  Inductive direction := DIn | DOut.
  Record arg := mkArg { ar_name : option bytes; ar_ty : sigT; ar_dir : option direction; ar_anns : list annotation }.
  Record method := mkMethod { m_name : bytes; m_args : list arg; m_anns : list annotation }.
  Record signal := mkSignal { s_name : bytes; s_args : list arg; s_anns : list annotation }.
  Inductive access := ARead | AWrite | AReadWrite.
  Record property := mkProp { p_name : bytes; p_ty : sigT; p_access : access; p_anns : list annotation }.
  Record iface := mkIface { i_name : bytes; i_methods : list method; i_props : list property;
                            i_signals : list signal; i_anns : list annotation }.
  Inductive node := Node (name : option bytes) (ifaces : list iface) (nodes : list node).

  (* ------------------------------------------------------------ Serialize (derive + quick-xml se) *)
  (* an Option<String>/Option<enum> attribute carries #[serde(skip_serializing_if = "Option::is_none")]
     (fix commit 34e4ce52): nothing is written for None *)
  Definition attr_if_some (k : bytes) (o : option bytes) : list (bytes * bytes) :=
    match o with Some v => [(k, v)] | None => [] end.
  Definition dir_text (d : direction) : bytes := match d with DIn => B "in" | DOut => B "out" end.
  Definition access_text (a : access) : bytes :=
    match a with ARead => B "read" | AWrite => B "write" | AReadWrite => B "readwrite" end.

  Definition t_ann (a : annotation) : xml :=
    Elem (B "annotation") [(B "name", an_name a); (B "value", an_value a)] [].
  Definition t_arg (a : arg) : xml :=
    Elem (B "arg") (attr_if_some (B "name") (ar_name a) ++ [(B "type", sig_show (ar_ty a))] ++
                    attr_if_some (B "direction") (option_map dir_text (ar_dir a)))
         (map t_ann (ar_anns a)).
  Definition t_method (m : method) : xml :=
    Elem (B "method") [(B "name", m_name m)] (map t_arg (m_args m) ++ map t_ann (m_anns m)).
  Definition t_signal (s : signal) : xml :=
    Elem (B "signal") [(B "name", s_name s)] (map t_arg (s_args s) ++ map t_ann (s_anns s)).
  Definition t_prop (p : property) : xml :=
    Elem (B "property") [(B "name", p_name p); (B "type", sig_show (p_ty p)); (B "access", access_text (p_access p))]
         (map t_ann (p_anns p)).
  Definition t_iface (i : iface) : xml :=
    Elem (B "interface") [(B "name", i_name i)]
         (map t_method (i_methods i) ++ map t_prop (i_props i) ++ map t_signal (i_signals i) ++ map t_ann (i_anns i)).
  (* the element name is the field name "node" for nested nodes and the struct name "Node" at the root *)
  Fixpoint t_node (tag : bytes) (n : node) : xml :=
    match n with
    | Node name ifaces nodes =>
        Elem tag (attr_if_some (B "name") name) (map t_iface ifaces ++ map (t_node (B "node")) nodes)
    end.
  Definition to_tree (n : node) : xml := t_node (B "Node") n.

  (* the text quick-xml writes for an infoset (no indentation) *)
  Definition print_attr (kv : bytes * bytes) : bytes := B " " ++ fst kv ++ B "=""" ++ escape (snd kv) ++ B """".
  Fixpoint print (t : xml) : bytes :=
    match t with
    | Text s => escape s
    | Elem n attrs kids =>
        B "<" ++ n ++ concat (map print_attr attrs) ++
        match kids with
        | [] => B "/>"
        | _ => B ">" ++ concat (map print kids) ++ B "</" ++ n ++ B ">"
        end
    end.
  Definition to_writer (n : node) : bytes := print (to_tree n).

  (* ------------------------------------------------------------ Deserialize (derive + quick-xml de) *)
  Definition elem_named (k : bytes) (t : xml) : bool :=
    match t with Elem n _ _ => lbeq (local_name n) k | Text _ => false end.

  (* the tokenizer refuses an element with two attributes of the same (full) name *)
  Fixpoint has_dup (l : list bytes) : bool :=
    match l with [] => false | k :: r => existsb (lbeq k) r || has_dup r end.

  (* a field read from the attributes: absent, present once (decoded), or `duplicate field` *)
  Definition get_attr (k : bytes) (attrs : list (bytes * bytes)) : res xerr (option bytes) :=
    match filter (fun kv => lbeq (attr_key (fst kv)) k) attrs with
    | [] => Ok None
    | [kv] => let* v := dec (snd kv) in Ok (Some v)
    | _ => Err EXml
    end.
  Definition req_attr (k : bytes) (attrs : list (bytes * bytes)) : res xerr bytes :=
    let* o := get_attr k attrs in match o with Some v => Ok v | None => Err EXml end.   (* missing field *)

  Definition check_attrs (attrs : list (bytes * bytes)) : res xerr unit :=
    if has_dup (map fst attrs) then Err EXml else Ok tt.

  Fixpoint map_res {A C} (f : A -> res xerr C) (l : list A) : res xerr (list C) :=
    match l with
    | [] => Ok []
    | x :: r => let* y := f x in let* ys := map_res f r in Ok (y :: ys)
    end.
  (* a Vec field collects the children whose LOCAL name is the field name, but the sequence reader then
     follows the QUALIFIED name of the first of them: a second qualified name with the same local name is a
     second occurrence of the field (`duplicate field`) *)
  Definition same_names (l : list xml) : bool :=
    match l with
    | Elem n _ _ :: r => forallb (fun t => match t with Elem m _ _ => lbeq m n | Text _ => true end) r
    | _ => true
    end.
  Definition children {C} (k : bytes) (f : xml -> res xerr C) (kids : list xml) : res xerr (list C) :=
    let l := filter (elem_named k) kids in
    if same_names l then map_res f l else Err EXml.

  Definition parse_sig (v : bytes) : res xerr sigT :=
    match sig_parse v with Some s => Ok s | None => Err EXml end.
  Definition parse_name (valid : bytes -> bool) (v : bytes) : res xerr bytes :=
    if valid v then Ok v else Err EXml.

  Definition of_ann (t : xml) : res xerr annotation :=
    match t with
    | Text _ => Err EXml
    | Elem _ attrs _ =>
        let* _ := check_attrs attrs in
        let* n := req_attr (B "name") attrs in
        let* v := req_attr (B "value") attrs in
        Ok (mkAnn n v)
    end.

  Definition of_arg (t : xml) : res xerr arg :=
    match t with
    | Text _ => Err EXml
    | Elem _ attrs kids =>
        let* _ := check_attrs attrs in
        let* n := get_attr (B "name") attrs in
        let* ty := req_attr (B "type") attrs in
        let* ty := parse_sig ty in
        let* d := get_attr (B "direction") attrs in
        let* d := match d with
                  | None => Ok None
                  | Some v => if lbeq v (B "in") then Ok (Some DIn)
                              else if lbeq v (B "out") then Ok (Some DOut) else Err EXml
                  end in
        let* anns := children (B "annotation") of_ann kids in
        Ok (mkArg n ty d anns)
    end.

  Definition of_method (t : xml) : res xerr method :=
    match t with
    | Text _ => Err EXml
    | Elem _ attrs kids =>
        let* _ := check_attrs attrs in
        let* n := req_attr (B "name") attrs in
        let* n := parse_name valid_member n in
        let* args := children (B "arg") of_arg kids in
        let* anns := children (B "annotation") of_ann kids in
        Ok (mkMethod n args anns)
    end.

  Definition of_signal (t : xml) : res xerr signal :=
    match t with
    | Text _ => Err EXml
    | Elem _ attrs kids =>
        let* _ := check_attrs attrs in
        let* n := req_attr (B "name") attrs in
        let* n := parse_name valid_member n in
        let* args := children (B "arg") of_arg kids in
        let* anns := children (B "annotation") of_ann kids in
        Ok (mkSignal n args anns)
    end.

  Definition of_prop (t : xml) : res xerr property :=
    match t with
    | Text _ => Err EXml
    | Elem _ attrs kids =>
        let* _ := check_attrs attrs in
        let* n := req_attr (B "name") attrs in
        let* n := parse_name valid_property n in
        let* ty := req_attr (B "type") attrs in
        let* ty := parse_sig ty in
        let* a := req_attr (B "access") attrs in
        let* a := if lbeq a (B "read") then Ok ARead
                  else if lbeq a (B "write") then Ok AWrite
                  else if lbeq a (B "readwrite") then Ok AReadWrite else Err EXml in
        let* anns := children (B "annotation") of_ann kids in
        Ok (mkProp n ty a anns)
    end.

  Definition of_iface (t : xml) : res xerr iface :=
    match t with
    | Text _ => Err EXml
    | Elem _ attrs kids =>
        let* _ := check_attrs attrs in
        let* n := req_attr (B "name") attrs in
        let* n := parse_name valid_interface n in
        let* ms := children (B "method") of_method kids in
        let* ps := children (B "property") of_prop kids in
        let* ss := children (B "signal") of_signal kids in
        let* anns := children (B "annotation") of_ann kids in
        Ok (mkIface n ms ps ss anns)
    end.

  (* the root element may have any name; nested nodes are the children named `node` *)
  Fixpoint of_node (t : xml) : res xerr node :=
    match t with
    | Text _ => Err EXml
    | Elem _ attrs kids =>
        let* _ := check_attrs attrs in
        let* n := get_attr (B "name") attrs in
        let* ifs := children (B "interface") of_iface kids in
        let* _ := if same_names (filter (elem_named (B "node")) kids) then Ok tt else Err EXml in
        let* ns := (fix go (l : list xml) : res xerr (list node) :=
                      match l with
                      | [] => Ok []
                      | k :: r =>
                          if elem_named (B "node") k
                          then let* x := of_node k in let* xs := go r in Ok (x :: xs)
                          else go r
                      end) kids in
        Ok (Node n ifs ns)
    end.
End Doc.

