(* C16/LineFacts.v — facts about the line reader: what [read_command] returns depends only on the
   [first_command] flag and on the bytes still to come (buffer ++ unread chunks), not on how they are chunked. *)
From ZV Require Import Base.Bytes Base.Res C16.Model.
From Coq Require Import Lia.

Lemma beq_eq : forall a b, beq a b = true <-> a = b.
Proof. intros a b. unfold beq. split; [apply Byte.byte_dec_bl | apply Byte.byte_dec_lb]. Qed.

Lemma beq_refl : forall a, beq a a = true.
Proof. intro a. apply beq_eq. reflexivity. Qed.

Lemma beq_neq : forall a b, beq a b = false <-> a <> b.
Proof.
  intros a b. split.
  - intros H E. apply beq_eq in E. congruence.
  - intro H. destruct (beq a b) eqn:E; [apply beq_eq in E; contradiction | reflexivity].
Qed.

Lemma lbeq_eq : forall a b, lbeq a b = true <-> a = b.
Proof.
  induction a as [|x a IH]; destruct b as [|y b]; simpl; split; intro H; try reflexivity; try discriminate.
  - apply andb_true_iff in H. destruct H as [H1 H2]. apply beq_eq in H1. apply IH in H2. congruence.
  - inversion H; subst. rewrite beq_refl. simpl. apply IH. reflexivity.
Qed.

Lemma lbeq_refl : forall a, lbeq a a = true.
Proof. intro a. apply lbeq_eq. reflexivity. Qed.

(* ---------------------------------------------------------------- position_lf *)
Lemma position_lf_app_some : forall a b k, position_lf a = Some k -> position_lf (a ++ b) = Some k.
Proof.
  induction a as [|c a IH]; simpl; intros b k H; [discriminate|].
  destruct (beq c LF); [exact H|].
  destruct (position_lf a) as [j|] eqn:E; simpl in H; [|discriminate].
  rewrite (IH b j eq_refl). exact H.
Qed.

Lemma position_lf_app_none : forall a b, position_lf a = None ->
  position_lf (a ++ b) = option_map (fun k => length a + k) (position_lf b).
Proof.
  induction a as [|c a IH]; simpl; intros b H.
  - destruct (position_lf b); reflexivity.
  - destruct (beq c LF); [discriminate|].
    destruct (position_lf a) eqn:E; simpl in H; [discriminate|].
    rewrite (IH b eq_refl). destruct (position_lf b); reflexivity.
Qed.

Lemma position_lf_lt : forall a k, position_lf a = Some k -> k < length a.
Proof.
  induction a as [|c a IH]; simpl; intros k H; [discriminate|].
  destruct (beq c LF).
  - inversion H. lia.
  - destruct (position_lf a) as [j|] eqn:E; simpl in H; [|discriminate].
    inversion H. specialize (IH j eq_refl). lia.
Qed.

Lemma position_lf_nth : forall a k, position_lf a = Some k -> nth k a NUL = LF.
Proof.
  induction a as [|c a IH]; simpl; intros k H; [discriminate|].
  destruct (beq c LF) eqn:E.
  - inversion H. apply beq_eq in E. exact E.
  - destruct (position_lf a) as [j|] eqn:E2; simpl in H; [|discriminate].
    inversion H. apply IH. reflexivity.
Qed.

(* ---------------------------------------------------------------- line_pure and appended bytes *)
Definition add_rest (more : bytes) (r : res herr (command * bytes)) : res herr (command * bytes) :=
  map_res (fun '(cmd, rest) => (cmd, rest ++ more)) r.

Lemma line_pure_app_some : forall first buf more k,
  position_lf buf = Some k ->
  line_pure first (buf ++ more) = option_map (add_rest more) (line_pure first buf).
Proof.
  intros first buf more k H.
  unfold line_pure. rewrite (position_lf_app_some _ more _ H), H. unfold option_map.
  pose proof (position_lf_lt _ _ H) as Hlt.
  destruct k as [|j]; [reflexivity|].
  f_equal.
  rewrite (app_nth1 buf more NUL) by lia.
  destruct (negb (beq (nth j buf NUL) CR)); [reflexivity|].
  assert (H0 : nth 0 (buf ++ more) NUL = nth 0 buf NUL) by (apply app_nth1; lia).
  rewrite H0.
  destruct (first && negb (beq (nth 0 buf NUL) NUL)); [reflexivity|].
  assert (Hf : firstn (S (S j)) (buf ++ more) = firstn (S (S j)) buf).
  { rewrite firstn_app. replace (S (S j) - length buf) with 0 by lia. rewrite firstn_O. apply app_nil_r. }
  rewrite Hf.
  destruct (negb (utf8_valid (skipn (if first then 1 else 0) (firstn (S (S j)) buf)))); [reflexivity|].
  assert (Hs : skipn (S (S j)) (buf ++ more) = skipn (S (S j)) buf ++ more).
  { rewrite skipn_app. replace (S (S j) - length buf) with 0 by lia. reflexivity. }
  rewrite Hs.
  destruct (command_of_str _); reflexivity.
Qed.

Lemma line_pure_none : forall first buf, position_lf buf = None -> line_pure first buf = None.
Proof. intros first buf H. unfold line_pure. rewrite H. reflexivity. Qed.

Lemma line_pure_some : forall first buf k, position_lf buf = Some k -> exists r, line_pure first buf = Some r.
Proof. intros first buf k H. unfold line_pure. rewrite H. eauto. Qed.

(* ---------------------------------------------------------------- read_command in closed form *)
Lemma read_loop_one : forall input c,
  read_loop input 1 0 c [] =
  match line_of_buffer c with
  | Some (Ok (cmd, c')) => Ok ([cmd], set_input c' input)
  | Some (Err e) => Err e
  | Some (Panic p) => Panic p
  | None =>
      match input with
      | [] => Err EHandshake
      | ch :: input' =>
          match c_bytes ch with
          | [] => Err EHandshake
          | _ => read_loop input' 1 0 (push_chunk c ch) []
          end
      end
  end.
Proof.
  intros input c. destruct input as [|ch input']; simpl;
    destruct (line_of_buffer c) as [[[cmd c']|e|p]|]; reflexivity.
Qed.

(* what is still to come on a connection *)
Record view := mkView { v_first : bool; v_bytes : bytes; v_fds : list N; v_cap : bool; v_mech : mech; v_out : bytes }.

Definition view_of (c : common) : view :=
  mkView (first_command c) (pending c) (pending_fds c) (cap_unix_fd c) (mechanism c) (sock_out c).

Definition in_contract (c : common) : Prop := chunks_nonempty (sock_in c) = true.

(* the result of read_command, up to the chunking of what remains *)
Definition read_spec (c : common) (r : res herr (command * common)) : Prop :=
  match line_pure (first_command c) (pending c) with
  | None => r = Err EHandshake
  | Some (Err e) => r = Err e
  | Some (Panic p) => r = Panic p
  | Some (Ok (cmd, rest)) =>
      exists c', r = Ok (cmd, c') /\ in_contract c' /\
                 view_of c' = mkView false rest (pending_fds c) (cap_unix_fd c) (mechanism c) (sock_out c)
  end.

Lemma read_loop_spec : forall input c,
  chunks_nonempty input = true ->
  match line_pure (first_command c) (recv_buffer c ++ stream_of input) with
  | None => read_loop input 1 0 c [] = Err EHandshake
  | Some (Err e) => read_loop input 1 0 c [] = Err e
  | Some (Panic p) => read_loop input 1 0 c [] = Panic p
  | Some (Ok (cmd, rest)) =>
      exists c', read_loop input 1 0 c [] = Ok ([cmd], c') /\ in_contract c' /\
                 view_of c' = mkView false rest (received_fds c ++ fds_of input) (cap_unix_fd c) (mechanism c) (sock_out c)
  end.
Proof.
  induction input as [|ch input IH]; intros c Hne.
  - rewrite read_loop_one. unfold stream_of, fds_of. cbn [map concat]. rewrite !app_nil_r.
    unfold line_of_buffer.
    destruct (line_pure (first_command c) (recv_buffer c)) as [[[cmd rest]|e|p]|]; cbn [option_map map_res]; try reflexivity.
    eexists. split; [reflexivity|]. split; [reflexivity|].
    unfold view_of, pending, pending_fds. cbn. rewrite !app_nil_r. reflexivity.
  - cbn [chunks_nonempty forallb] in Hne. apply andb_true_iff in Hne. destruct Hne as [Hch Hne].
    rewrite read_loop_one. unfold line_of_buffer.
    destruct (position_lf (recv_buffer c)) as [k|] eqn:Hpos.
    + (* a whole line is already in the buffer *)
      rewrite (line_pure_app_some _ _ (stream_of (ch :: input)) _ Hpos).
      destruct (line_pure (first_command c) (recv_buffer c)) as [[[cmd rest]|e|p]|] eqn:Hl;
        cbn [option_map map_res add_rest]; try reflexivity.
      * eexists. split; [reflexivity|]. split.
        { unfold in_contract, chunks_nonempty. cbn. rewrite Hch, Hne. reflexivity. }
        unfold view_of, pending, pending_fds. cbn. reflexivity.
      * destruct (line_pure_some (first_command c) _ _ Hpos) as [r Hr]. congruence.
    + rewrite (line_pure_none _ _ Hpos). cbn [option_map].
      destruct (c_bytes ch) as [|b0 bs] eqn:Hb; [discriminate|].
      fold (chunks_nonempty input) in Hne. specialize (IH (push_chunk c ch) Hne).
      unfold push_chunk in *. cbn [first_command recv_buffer received_fds cap_unix_fd mechanism sock_out] in IH.
      assert (E1 : recv_buffer c ++ stream_of (ch :: input) = (recv_buffer c ++ c_bytes ch) ++ stream_of input).
      { unfold stream_of. cbn [map concat]. rewrite app_assoc. reflexivity. }
      assert (E2 : received_fds c ++ fds_of (ch :: input) = (received_fds c ++ c_fds ch) ++ fds_of input).
      { unfold fds_of. cbn [map concat]. rewrite app_assoc. reflexivity. }
      rewrite E1, E2. exact IH.
Qed.

Lemma read_command_spec : forall c, in_contract c -> read_spec c (read_command c).
Proof.
  intros c Hc. unfold read_spec, read_command, read_commands.
  pose proof (read_loop_spec (sock_in c) c Hc) as H.
  unfold pending, pending_fds. unfold stream_of, fds_of in H.
  destruct (line_pure (first_command c) (recv_buffer c ++ concat (map c_bytes (sock_in c)))) as [[[cmd rest]|e|p]|].
  - destruct H as [c' [H1 [H2 H3]]]. rewrite H1. exists c'. repeat split; assumption.
  - rewrite H. reflexivity.
  - rewrite H. reflexivity.
  - rewrite H. reflexivity.
Qed.
