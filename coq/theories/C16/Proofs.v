(* C16/Proofs.v — the model of the server against the specification. *)
From ZV Require Import Base.Bytes Base.Res C16.Model C16.Spec C16.LineFacts C16.SplitProofs C16.ParseFacts.
From Coq Require Import Lia.

(* ---------------------------------------------------------------- normalised states *)
(* a server that has everything still to come in its buffer (one read), past the first line *)
Definition mkS (x : sctx) (st : hstep) (fd : bool) (out buf : bytes) (fds : list N) : server :=
  mkServer (mkCommon buf fds fd (x_mech x) false [] out) st (x_guid x) (x_uid x) (x_fdcap x).

Definition conc_step (x : sctx) (p : pstate) : hstep :=
  match p with PAuth => WaitingForAuth | PData => WaitingForData (x_mech x) | PBegin => WaitingForBegin end.

Lemma read_command_norm : forall buf fds fd m out,
  read_command (mkCommon buf fds fd m false [] out) =
  match line_pure false buf with
  | None => Err EHandshake
  | Some (Ok (cmd, rest)) => Ok (cmd, mkCommon rest fds fd m false [] out)
  | Some (Err e) => Err e
  | Some (Panic p) => Panic p
  end.
Proof.
  intros. unfold read_command, read_commands. cbn [sock_in]. rewrite read_loop_one.
  unfold line_of_buffer. cbn [first_command recv_buffer].
  destruct (line_pure false buf) as [[[cmd rest]|e|p]|]; reflexivity.
Qed.

Lemma write_command_norm : forall buf fds fd m out cmd,
  write_command (mkCommon buf fds fd m false [] out) cmd =
  mkCommon buf fds fd m false [] (out ++ command_to_bytes cmd ++ CRLF).
Proof.
  intros. unfold write_command, write_commands. cbn. rewrite app_nil_r. reflexivity.
Qed.

Lemma mech_str_name : forall m, mech_str m = mech_name m.
Proof. destruct m; reflexivity. Qed.

Lemma auth_ok_norm : forall x st fd out buf fds,
  auth_ok (mkS x st fd out buf fds) = mkS x WaitingForBegin fd (out ++ B "OK " ++ x_guid x ++ CRLF) buf fds.
Proof.
  intros. unfold auth_ok, mkS. cbn [s_common s_guid with_common with_step s_client_uid s_can_pass_fd s_step].
  rewrite write_command_norm. cbn [command_to_bytes]. rewrite <- app_assoc. reflexivity.
Qed.

Lemma rejected_norm : forall x st fd out buf fds,
  rejected_error (mkS x st fd out buf fds) =
  mkS x WaitingForAuth fd (out ++ B "REJECTED " ++ mech_name (x_mech x) ++ CRLF) buf fds.
Proof.
  intros. unfold rejected_error, mkS. cbn [s_common s_guid with_common with_step s_client_uid s_can_pass_fd s_step mechanism].
  rewrite write_command_norm. cbn [command_to_bytes]. rewrite <- app_assoc, mech_str_name. reflexivity.
Qed.

Lemma unsupported_norm : forall x st fd out buf fds,
  unsupported_command_error (mkS x st fd out buf fds) =
  mkS x st fd (out ++ B "ERROR " ++ error_text ++ CRLF) buf fds.
Proof.
  intros. unfold unsupported_command_error, mkS. cbn [s_common s_guid with_common with_step s_client_uid s_can_pass_fd s_step].
  rewrite write_command_norm. cbn [command_to_bytes]. rewrite <- app_assoc. reflexivity.
Qed.

Lemma data_request_norm : forall x st fd out buf fds st',
  with_step (with_common (mkS x st fd out buf fds)
               (write_command (s_common (mkS x st fd out buf fds)) (Data None))) st' =
  mkS x st' fd (out ++ B "DATA" ++ CRLF) buf fds.
Proof.
  intros. unfold mkS. cbn [s_common s_guid with_common with_step s_client_uid s_can_pass_fd s_step].
  rewrite write_command_norm. reflexivity.
Qed.

Lemma check_external_norm : forall x st fd out buf fds id,
  check_external_auth (mkS x st fd out buf fds) id =
  if negb (utf8_valid id) then Err EHandshake
  else match uid_denoted id with
       | None => Err EHandshake
       | Some n => if uid_known_eq (x_uid x) n
                   then Ok (mkS x WaitingForBegin fd (out ++ B "OK " ++ x_guid x ++ CRLF) buf fds)
                   else Ok (mkS x WaitingForAuth fd (out ++ B "REJECTED " ++ mech_name (x_mech x) ++ CRLF) buf fds)
       end.
Proof.
  intros. unfold check_external_auth. rewrite parse_u32_denoted.
  destruct (negb (utf8_valid id)); [reflexivity|].
  destruct (uid_denoted id) as [n|]; [|reflexivity].
  change (s_client_uid (mkS x st fd out buf fds)) with (x_uid x).
  change (opt_N_eqb (x_uid x) n) with (uid_known_eq (x_uid x) n).
  destruct (uid_known_eq (x_uid x) n); [rewrite auth_ok_norm | rewrite rejected_norm]; reflexivity.
Qed.

(* ---------------------------------------------------------------- replies as bytes *)
Inductive renders (x : sctx) : reply -> bytes -> Prop :=
| rn_data : renders x RData (B "DATA" ++ CRLF)
| rn_ok : renders x ROk (B "OK " ++ x_guid x ++ CRLF)
| rn_rej : renders x RRejected (B "REJECTED " ++ mech_name (x_mech x) ++ CRLF)
| rn_agree : renders x RAgree (B "AGREE_UNIX_FD" ++ CRLF)
| rn_err1 : renders x RError (B "ERROR " ++ error_text ++ CRLF)
| rn_err2 : renders x RError (B "ERROR " ++ fd_error_text ++ CRLF).

Lemma strip_prefix_app : forall p w, strip_prefix p (p ++ w) = Some w.
Proof. induction p as [|a p IH]; intro w; cbn; [reflexivity|]. rewrite beq_refl. apply IH. Qed.

Lemma match_one : forall x r line rs w,
  renders x r line -> match_replies x (r :: rs) (line ++ w) = match_replies x rs w.
Proof.
  intros x r line rs w H. destruct H; cbn [match_replies].
  - change ((B "DATA" ++ CRLF) ++ w) with ((B "DATA" ++ crlf) ++ w). rewrite strip_prefix_app. reflexivity.
  - replace ((B "OK " ++ x_guid x ++ CRLF) ++ w) with (((B "OK " ++ x_guid x) ++ crlf) ++ w)
      by (unfold crlf, CRLF, CR, LF; rewrite <- !app_assoc; reflexivity).
    rewrite strip_prefix_app. reflexivity.
  - replace ((B "REJECTED " ++ mech_name (x_mech x) ++ CRLF) ++ w)
      with (((B "REJECTED " ++ mech_name (x_mech x)) ++ crlf) ++ w)
      by (unfold crlf, CRLF, CR, LF; rewrite <- !app_assoc; reflexivity).
    rewrite strip_prefix_app. reflexivity.
  - change ((B "AGREE_UNIX_FD" ++ CRLF) ++ w) with ((B "AGREE_UNIX_FD" ++ crlf) ++ w).
    rewrite strip_prefix_app. reflexivity.
  - reflexivity.
  - reflexivity.
Qed.

(* [out] is exactly the replies [rs], as far as the oracle can tell *)
Definition written_as (x : sctx) (rs : list reply) (out : bytes) : Prop :=
  forall rs' w, match_replies x (rs ++ rs') (out ++ w) = match_replies x rs' w.

Lemma written_nil : forall x, written_as x [] [].
Proof. intros x rs' w. reflexivity. Qed.

Lemma written_snoc : forall x rs out r line,
  written_as x rs out -> renders x r line -> written_as x (rs ++ [r]) (out ++ line).
Proof.
  intros x rs out r line H R rs' w. rewrite <- !app_assoc. rewrite H. cbn [app]. apply match_one. exact R.
Qed.

Lemma written_exact : forall x rs out, written_as x rs out -> match_replies x rs out = true.
Proof. intros x rs out H. specialize (H [] []). rewrite !app_nil_r in H. exact H. Qed.

(* ---------------------------------------------------------------- one step of the server against one step of the spec *)
Definition step_k (x : sctx) (p : pstate) (s : server) (cmd : command) : res herr server :=
  match p with
  | PAuth => handle_auth_k s cmd
  | PData => handle_auth_data_k s (x_mech x) cmd
  | PBegin => finalize_k s cmd
  end.

Ltac norm_state x st fd out buf fds :=
  change (mechanism (s_common (mkS x st fd out buf fds))) with (x_mech x);
  change (s_can_pass_fd (mkS x st fd out buf fds)) with (x_fdcap x);
  change (s_client_uid (mkS x st fd out buf fds)) with (x_uid x);
  rewrite ?auth_ok_norm, ?rejected_norm, ?unsupported_norm, ?data_request_norm, ?check_external_norm.

Lemma opt_mech_eqb_name : forall (mm m : mech), mech_eqb mm m = lbeq (mech_str mm) (mech_name m).
Proof. destruct mm, m; reflexivity. Qed.

Lemma step_sim : forall x p fd out buf fds cmd,
  match sstep x p (cmd_abs cmd) with
  | Next p' r a =>
      exists line, renders x r line /\
        step_k x p (mkS x (conc_step x p) fd out buf fds) cmd =
        Ok (mkS x (conc_step x p') (fd || a) (out ++ line) buf fds)
  | Finish => step_k x p (mkS x (conc_step x p) fd out buf fds) cmd = Ok (mkS x SDone fd out buf fds)
  | Unclear => step_k x p (mkS x (conc_step x p) fd out buf fds) cmd = Err EHandshake
  end.
Proof.
  intros x p fd out buf fds cmd.
  destruct p; unfold step_k, conc_step.
  - (* waiting for AUTH *)
    destruct cmd as [[mm|] [id|]| | |[d|]|e| |ms|gg|]; unfold handle_auth_k; cbv beta iota zeta;
      norm_state x WaitingForAuth fd out buf fds; cbn [cmd_abs sstep];
      try (eexists; split; [|rewrite orb_false_r; reflexivity]; constructor).
    + (* AUTH mech id *)
      unfold opt_mech_eqb. rewrite opt_mech_eqb_name.
      destruct (lbeq (mech_str mm) (mech_name (x_mech x))) eqn:E; cbn [negb].
      * unfold claim. destruct (x_mech x) eqn:Em.
        -- destruct (uid_denoted id) as [n|] eqn:Eu.
           ++ rewrite (uid_denoted_ascii _ _ Eu). cbn [negb].
              destruct (uid_known_eq (x_uid x) n);
                (eexists; split; [|rewrite orb_false_r, ?Em; reflexivity]; rewrite <- ?Em; constructor).
           ++ destruct (negb (utf8_valid id)); reflexivity.
        -- eexists; split; [|rewrite orb_false_r; reflexivity]; constructor.
      * eexists; split; [|rewrite orb_false_r; reflexivity]; constructor.
    + (* AUTH mech *)
      unfold opt_mech_eqb. rewrite opt_mech_eqb_name.
      destruct (lbeq (mech_str mm) (mech_name (x_mech x))) eqn:E; cbn [negb];
        (eexists; split; [|rewrite orb_false_r; reflexivity]; constructor).
  - (* waiting for DATA *)
    destruct cmd as [[mm|] [id|]| | |[d|]|e| |ms|gg|]; unfold handle_auth_data_k; cbn [cmd_abs sstep];
      destruct (x_mech x) eqn:Em; cbv beta iota zeta;
      norm_state x (WaitingForData External) fd out buf fds;
      norm_state x (WaitingForData Anonymous) fd out buf fds;
      try (eexists; split; [|rewrite orb_false_r, ?Em; reflexivity]; rewrite <- ?Em; constructor).
    + (* EXTERNAL, DATA id *)
      unfold claim. rewrite Em.
      destruct (uid_denoted d) as [n|] eqn:Eu.
      * rewrite (uid_denoted_ascii _ _ Eu). cbn [negb].
        destruct (uid_known_eq (x_uid x) n);
          (eexists; split; [|rewrite orb_false_r, ?Em; reflexivity]; rewrite <- ?Em; constructor).
      * destruct (negb (utf8_valid d)); reflexivity.
    + (* ANONYMOUS, DATA id *)
      unfold claim. rewrite Em. eexists; split; [|rewrite orb_false_r; reflexivity]; constructor.
    + (* EXTERNAL, bare DATA *)
      unfold claim_empty. rewrite Em.
      destruct (x_uid x) eqn:Eu;
        (eexists; split; [|rewrite orb_false_r, ?Em; reflexivity]; rewrite <- ?Em; constructor).
    + (* ANONYMOUS, bare DATA *)
      unfold claim_empty. rewrite Em. eexists; split; [|rewrite orb_false_r; reflexivity]; constructor.
  - (* waiting for BEGIN *)
    destruct cmd as [[mm|] [id|]| | |[d|]|e| |ms|gg|]; unfold finalize_k; cbv beta iota zeta;
      norm_state x WaitingForBegin fd out buf fds; cbn [cmd_abs sstep];
      try (eexists; split; [|rewrite orb_false_r; reflexivity]; constructor).
    + reflexivity.
    + (* NEGOTIATE_UNIX_FD *)
      destruct (x_fdcap x).
      * exists (B "AGREE_UNIX_FD" ++ CRLF). split; [constructor|].
        unfold mkS, set_cap_unix_fd.
        cbn [s_common with_common recv_buffer received_fds mechanism first_command sock_in sock_out].
        rewrite write_command_norm. rewrite orb_true_r. reflexivity.
      * exists (B "ERROR " ++ fd_error_text ++ CRLF). split; [constructor|].
        unfold mkS. cbn [s_common with_common].
        rewrite write_command_norm. rewrite orb_false_r. reflexivity.
Qed.

Lemma step_shape : forall x p fd out buf fds cmd,
  (exists st' fd' out',
      step_k x p (mkS x (conc_step x p) fd out buf fds) cmd = Ok (mkS x st' fd' out' buf fds) /\
      (st' = SDone \/ exists p', st' = conc_step x p'))
  \/ step_k x p (mkS x (conc_step x p) fd out buf fds) cmd = Err EHandshake.
Proof.
  intros x p fd out buf fds cmd.
  pose proof (step_sim x p fd out buf fds cmd) as H.
  destruct (sstep x p (cmd_abs cmd)) as [p' r a| |].
  - destruct H as [line [_ H]]. left. do 3 eexists. split; [exact H|]. right. exists p'. reflexivity.
  - left. do 3 eexists. split; [exact H|]. left. reflexivity.
  - right. exact H.
Qed.

(* ---------------------------------------------------------------- the spec's line cutter against the code's *)
Lemma cut_line_none : forall s, cut_line s = None -> position_lf s = None.
Proof.
  induction s as [|c r IH]; intro H; [reflexivity|]. cbn in *.
  change x0a with LF in H. destruct (beq c LF); [discriminate|].
  destruct (cut_line r) as [[l rest]|]; [discriminate|]. rewrite IH; reflexivity.
Qed.

Lemma cut_line_some : forall s seg rest,
  cut_line s = Some (seg, rest) -> position_lf s = Some (length seg) /\ s = seg ++ LF :: rest.
Proof.
  induction s as [|c r IH]; intros seg rest H; [discriminate|]. cbn in *.
  change x0a with LF in H. destruct (beq c LF) eqn:E.
  - injection H as <- <-. apply beq_eq in E. subst. split; reflexivity.
  - destruct (cut_line r) as [[l rest']|] eqn:Ec; [|discriminate].
    injection H as <- <-. destruct (IH _ _ eq_refl) as [H1 H2]. rewrite H1. cbn. split; [reflexivity | congruence].
Qed.

Lemma firstn_app_exact : forall (a b : bytes), firstn (length a) (a ++ b) = a.
Proof. intros. rewrite firstn_app, Nat.sub_diag, firstn_all, firstn_O, app_nil_r. reflexivity. Qed.

Lemma skipn_app_exact : forall (a b : bytes), skipn (length a) (a ++ b) = b.
Proof. intros. rewrite skipn_app, Nat.sub_diag, skipn_all. reflexivity. Qed.

Lemma line_pure_cut : forall s seg rest last rbody,
  cut_line s = Some (seg, rest) -> rev seg = last :: rbody ->
  line_pure false s =
  Some (if negb (beq last CR) then Err EHandshake
        else if negb (utf8_valid (rev rbody ++ [last; LF])) then Err EHandshake
        else map_res (fun cmd => (cmd, rest)) (command_of_str (rev rbody ++ [last; LF]))).
Proof.
  intros s seg rest last rbody Hc Hr.
  destruct (cut_line_some _ _ _ Hc) as [Hp Hs].
  assert (Hseg : seg = rev rbody ++ [last]).
  { rewrite <- (rev_involutive seg), Hr. reflexivity. }
  unfold line_pure. rewrite Hp.
  assert (Hl : length seg = S (length (rev rbody))).
  { rewrite Hseg, app_length. cbn. lia. }
  rewrite Hl. cbn [andb].
  assert (Hn : nth (length (rev rbody)) s NUL = last).
  { rewrite Hs, Hseg, <- app_assoc. rewrite app_nth2 by lia. rewrite Nat.sub_diag. reflexivity. }
  rewrite Hn. f_equal.
  destruct (negb (beq last CR)); [reflexivity|].
  assert (Hf : firstn (S (S (length (rev rbody)))) s = rev rbody ++ [last; LF]).
  { rewrite Hs, Hseg. replace (S (S (length (rev rbody)))) with (length (rev rbody ++ [last; LF])) by (rewrite app_length; cbn; lia).
    replace ((rev rbody ++ [last]) ++ LF :: rest) with ((rev rbody ++ [last; LF]) ++ rest) by (rewrite <- !app_assoc; reflexivity).
    apply firstn_app_exact. }
  assert (Hk : skipn (S (S (length (rev rbody)))) s = rest).
  { rewrite Hs, Hseg. replace (S (S (length (rev rbody)))) with (length (rev rbody ++ [last; LF])) by (rewrite app_length; cbn; lia).
    replace ((rev rbody ++ [last]) ++ LF :: rest) with ((rev rbody ++ [last; LF]) ++ rest) by (rewrite <- !app_assoc; reflexivity).
    apply skipn_app_exact. }
  rewrite Hk, Hf. reflexivity.
Qed.

Lemma line_pure_cut_empty : forall s rest, cut_line s = Some ([], rest) -> line_pure false s = Some (Err EHandshake).
Proof.
  intros s rest Hc. destruct (cut_line_some _ _ _ Hc) as [Hp _]. unfold line_pure. rewrite Hp. reflexivity.
Qed.

Lemma cut_line_shorter : forall s seg rest, cut_line s = Some (seg, rest) -> length rest < length s.
Proof.
  intros s seg rest Hc. destruct (cut_line_some _ _ _ Hc) as [_ Hs]. rewrite Hs, app_length. cbn. lia.
Qed.

(* ---------------------------------------------------------------- one iteration of perform on a normalised state *)
Lemma read_then_norm : forall x st fd out buf fds k,
  read_then (mkS x st fd out buf fds) k =
  match line_pure false buf with
  | None => Err EHandshake
  | Some (Ok (cmd, rest)) => k (mkS x st fd out rest fds) cmd
  | Some (Err e) => Err e
  | Some (Panic p) => Panic p
  end.
Proof.
  intros. unfold read_then, mkS. cbn [s_common]. rewrite read_command_norm.
  destruct (line_pure false buf) as [[[cmd rest]|e|p]|]; reflexivity.
Qed.

Lemma perform_norm : forall f x p fd out buf fds,
  perform (S f) (mkS x (conc_step x p) fd out buf fds) =
  match line_pure false buf with
  | None => OErr EHandshake out
  | Some (Ok (cmd, rest)) =>
      match step_k x p (mkS x (conc_step x p) fd out rest fds) cmd with
      | Ok s' => perform f s'
      | Err e => OErr e out
      | Panic _ => OPanic out
      end
  | Some (Err e) => OErr e out
  | Some (Panic _) => OPanic out
  end.
Proof.
  intros. cbn [perform].
  destruct p; cbn [conc_step mkS s_step]; unfold handle_auth, handle_auth_data, finalize;
    rewrite (read_then_norm x _ fd out buf fds);
    destruct (line_pure false buf) as [[[cmd rest]|e|pp]|]; reflexivity.
Qed.

Lemma perform_done : forall f x fd out buf fds,
  perform (S f) (mkS x SDone fd out buf fds) = ODone out fd buf fds.
Proof.
  intros. cbn [perform mkS s_step s_common]. unfold pending, pending_fds. cbn. rewrite !app_nil_r. reflexivity.
Qed.

(* ---------------------------------------------------------------- no fuel exhaustion, no panic *)
Lemma safe_norm : forall fuel x st fd out buf fds,
  2 + length buf <= fuel -> (st = SDone \/ exists p, st = conc_step x p) ->
  (forall w, perform fuel (mkS x st fd out buf fds) <> OErr EFuel w) /\
  (forall w, perform fuel (mkS x st fd out buf fds) <> OPanic w).
Proof.
  induction fuel as [|f IH]; intros x st fd out buf fds Hf Hst; [lia|].
  destruct Hst as [-> | [p ->]].
  - rewrite perform_done. split; intros; discriminate.
  - rewrite perform_norm.
    destruct (cut_line buf) as [[seg rest]|] eqn:Hc.
    + destruct (rev seg) as [|last rbody] eqn:Hr.
      * assert (seg = []) by (apply rev_nil_iff; exact Hr). subst seg.
        rewrite (line_pure_cut_empty _ _ Hc). split; intros; discriminate.
      * rewrite (line_pure_cut _ _ _ _ _ Hc Hr).
        pose proof (cut_line_shorter _ _ _ Hc) as Hlen.
        destruct (negb (beq last CR)) eqn:Ecr; [split; intros; discriminate|].
        destruct (negb (utf8_valid (rev rbody ++ [last; LF]))); [split; intros; discriminate|].
        destruct (command_of_str (rev rbody ++ [last; LF])) as [cmd|e|pp] eqn:Ecmd; cbn [map_res].
        -- destruct (step_shape x p fd out rest fds cmd) as [[st' [fd' [out' [Hs Hst']]]] | Hs]; rewrite Hs.
           ++ assert (Hf' : 2 + length rest <= f) by lia.
              exact (IH x st' fd' out' rest fds Hf' Hst').
           ++ split; intros; discriminate.
        -- destruct (command_of_str_err _ _ Ecmd); subst; split; intros; discriminate.
        -- exfalso. exact (command_of_str_no_panic _ _ Ecmd).
    + rewrite (line_pure_none _ _ (cut_line_none _ Hc)). split; intros; discriminate.
Qed.

(* ---------------------------------------------------------------- the simulation *)
Lemma conforms_unclear : forall x fds o, (forall w, o <> OPanic w) -> conforms x VUnclear fds (obs_of o) = true.
Proof. intros x fds o H. destruct o; cbn; try reflexivity. exfalso. apply (H w). reflexivity. Qed.

Lemma list_N_eqb_refl : forall l, list_N_eqb l l = true.
Proof. induction l as [|a l IH]; cbn; [reflexivity|]. rewrite N.eqb_refl. exact IH. Qed.

Lemma first_some_none : forall k, first_some None k = k.
Proof. reflexivity. Qed.

Lemma simulate : forall fuel_m x fds fuel_s p fd out rs buf v k,
  2 + length buf <= fuel_m -> length buf < fuel_s -> written_as x rs out ->
  spec_loop fuel_s x p fd rs buf = (v, k) ->
  (k = None -> conforms x v fds (obs_of (perform fuel_m (mkS x (conc_step x p) fd out buf fds))) = true) /\
  (k = Some KMalformed -> is_done (perform fuel_m (mkS x (conc_step x p) fd out buf fds)) = false).
Proof.
  induction fuel_m as [|f IH]; intros x fds fuel_s p fd out rs buf v k Hfm Hfs Hw Hspec; [lia|].
  destruct fuel_s as [|fs]; [lia|].
  cbn [spec_loop] in Hspec.
  (* whatever happens, the code does not panic *)
  assert (Hsafe : forall w, perform (S f) (mkS x (conc_step x p) fd out buf fds) <> OPanic w).
  { apply (safe_norm (S f) x (conc_step x p) fd out buf fds Hfm). right. exists p. reflexivity. }
  rewrite perform_norm in *.
  destruct (cut_line buf) as [[seg rest]|] eqn:Hc.
  2:{ (* the stream ends inside a line *)
      injection Hspec as <- <-. rewrite (line_pure_none _ _ (cut_line_none _ Hc)).
      split; [|discriminate]. intros _. cbn. apply written_exact. exact Hw. }
  pose proof (cut_line_shorter _ _ _ Hc) as Hlen.
  destruct (rev seg) as [|last rbody] eqn:Hr.
  { (* bare LF: an error *)
    assert (seg = []) by (apply rev_nil_iff; exact Hr). subst seg.
    injection Hspec as <- <-. rewrite (line_pure_cut_empty _ _ Hc). split; [reflexivity | discriminate]. }
  rewrite (line_pure_cut _ _ _ _ _ Hc Hr) in *.
  change x0d with CR in Hspec.
  destruct (negb (beq last CR)) eqn:Ecr.
  { (* LF without CR *)
    injection Hspec as <- <-. split; [intros _; reflexivity | discriminate]. }
  apply negb_false_iff in Ecr. apply beq_eq in Ecr. subst last.
  destruct (negb (is_ascii (rev rbody))) eqn:Easc.
  { (* a line with non-ASCII bytes: only "no panic" is demanded *)
    injection Hspec as <- <-. split; [|discriminate]. intros _. apply conforms_unclear. exact Hsafe. }
  apply negb_false_iff in Easc.
  assert (Hutf : utf8_valid (rev rbody ++ [CR; LF]) = true).
  { apply ascii_utf8. rewrite is_ascii_app, Easc. reflexivity. }
  rewrite Hutf in *. cbn [negb] in *.
  pose proof (command_of_line (rev rbody)) as Hcmd. unfold CRLF in Hcmd.
  destruct (command_of_str (rev rbody ++ [CR; LF])) as [cmd|e|pp]; [|cbn [map_res]|contradiction].
  2:{ (* not a well-formed command: the code gives up *)
      rewrite Hcmd in Hspec. cbn [negb] in Hspec.
      destruct (sstep x p (classify (rev rbody))) as [p' r a| |].
      - destruct (spec_loop fs x p' (fd || a) (rs ++ [r]) rest) as [v' k']. injection Hspec as <- <-.
        split; [discriminate | reflexivity].
      - injection Hspec as <- <-. split; [discriminate | reflexivity].
      - injection Hspec as <- <-. split; [discriminate | reflexivity]. }
  destruct Hcmd as [Hwf Habs]. rewrite Hwf in Hspec. cbn [negb map_res] in Hspec, Hsafe |- *.
  rewrite Habs in Hspec.
  pose proof (step_sim x p fd out rest fds cmd) as Hstep.
  destruct (sstep x p (cmd_abs cmd)) as [p' r a| |].
  - (* a reply and a next state on both sides *)
    destruct Hstep as [line [Hren Hstep]]. rewrite Hstep.
    destruct (spec_loop fs x p' (fd || a) (rs ++ [r]) rest) as [v' k'] eqn:Hrec.
    injection Hspec as <- <-. cbn [first_some].
    apply (IH x fds fs p' (fd || a) (out ++ line) (rs ++ [r]) rest v' k'); try lia.
    + apply written_snoc; assumption.
    + exact Hrec.
  - (* BEGIN accepted *)
    rewrite Hstep. injection Hspec as <- <-.
    destruct f as [|f']; [lia|]. rewrite perform_done. split; [|discriminate].
    intros _. cbn. rewrite (written_exact _ _ _ Hw), Bool.eqb_reflx, lbeq_refl, list_N_eqb_refl. reflexivity.
  - (* a claimed identity that is no uid: the code gives up *)
    rewrite Hstep. injection Hspec as <- <-. split; [intros _; reflexivity | discriminate].
Qed.

(* ---------------------------------------------------------------- the first line: the NUL byte *)
Lemma line_pure_first_nul : forall s',
  line_pure true (NUL :: s') =
  match position_lf s' with
  | Some O => Some (Err EHandshake)
  | _ => line_pure false s'
  end.
Proof.
  intro s'. unfold line_pure. cbn [position_lf]. change (beq NUL LF) with false. cbv iota.
  destruct (position_lf s') as [[|k]|]; cbn [option_map]; reflexivity.
Qed.

Lemma line_pure_first_other : forall c s',
  c <> NUL -> c <> LF -> line_pure true (c :: s') = None \/ line_pure true (c :: s') = Some (Err EHandshake).
Proof.
  intros c s' Hn Hl. unfold line_pure. cbn [position_lf].
  apply beq_neq in Hl. rewrite Hl.
  destruct (position_lf s') as [k|]; cbn [option_map]; [right | left; reflexivity].
  f_equal. destruct (negb (beq (nth k (c :: s') NUL) CR)); [reflexivity|].
  change (nth 0 (c :: s') NUL) with c. apply beq_neq in Hn. rewrite Hn. reflexivity.
Qed.

Lemma line_pure_first_lf : forall s', line_pure true (LF :: s') = Some (Err EHandshake).
Proof. reflexivity. Qed.

(* the server as Builder::build starts it, with the whole stream already in the buffer *)
Definition init_norm (x : sctx) (s : bytes) (fds : list N) : server :=
  mkServer (mkCommon s fds false (x_mech x) true [] []) WaitingForAuth (x_guid x) (x_uid x) (x_fdcap x).

Lemma perform_first : forall f x s fds,
  perform (S f) (init_norm x s fds) =
  match line_pure true s with
  | None => OErr EHandshake []
  | Some (Ok (cmd, rest)) =>
      match handle_auth_k (mkS x WaitingForAuth false [] rest fds) cmd with
      | Ok s' => perform f s'
      | Err e => OErr e []
      | Panic _ => OPanic []
      end
  | Some (Err e) => OErr e []
  | Some (Panic _) => OPanic []
  end.
Proof.
  intros. unfold init_norm. cbn [perform s_step]. unfold handle_auth, read_then. cbn [s_common].
  unfold read_command, read_commands. cbn [sock_in]. rewrite read_loop_one.
  unfold line_of_buffer. cbn [first_command recv_buffer].
  destruct (line_pure true s) as [[[cmd rest]|e|p]|]; reflexivity.
Qed.

Lemma run_server_norm : forall cfg cs,
  chunks_nonempty cs = true ->
  run_server cfg cs = perform (2 + length (stream_of cs)) (init_norm (ctx_of cfg) (stream_of cs) (fds_of cs)).
Proof.
  intros cfg cs Hn. unfold run_server, server_fuel. apply perform_sim.
  - unfold sview, server_init, init_norm, view_of, pending, pending_fds, common_new, ctx_of. cbn.
    rewrite !app_nil_r. reflexivity.
  - exact Hn.
  - reflexivity.
Qed.

(* ---------------------------------------------------------------- the theorems about run_server *)
Definition sfuel (s : bytes) : nat := match s with [] => 1 | _ :: s' => S (length s') end.

Lemma server_sim : forall cfg cs v k,
  chunks_nonempty cs = true ->
  spec_server (ctx_of cfg) (stream_of cs) = (v, k) ->
  (k = None -> conforms (ctx_of cfg) v (fds_of cs) (obs_of (run_server cfg cs)) = true) /\
  (k = Some KMalformed -> is_done (run_server cfg cs) = false).
Proof.
  intros cfg cs v k Hn Hspec. rewrite (run_server_norm _ _ Hn).
  set (x := ctx_of cfg) in *. set (s := stream_of cs) in *. set (fds := fds_of cs) in *.
  unfold spec_server in Hspec.
  destruct s as [|c s'].
  - injection Hspec as <- <-. cbn [length Nat.add]. rewrite perform_first. cbn. split; [reflexivity | discriminate].
  - cbn [length]. change (2 + S (length s')) with (S (2 + length s')). rewrite perform_first.
    change x00 with NUL in Hspec.
    destruct (beq c NUL) eqn:Enul.
    + apply beq_eq in Enul. subst c. rewrite line_pure_first_nul.
      destruct (position_lf s') as [[|j]|] eqn:Hpos.
      * (* NUL LF: an error in the code, an LF without CR for the specification *)
        destruct s' as [|c2 r2]; [discriminate|]. cbn [position_lf] in Hpos.
        destruct (beq c2 LF) eqn:E2; [|destruct (position_lf r2); discriminate].
        cbn [spec_loop cut_line] in Hspec. change x0a with LF in Hspec. rewrite E2 in Hspec.
        cbn in Hspec. injection Hspec as <- <-. split; [reflexivity | discriminate].
      * pose proof (simulate (S (2 + length s')) x fds (S (length s')) PAuth false [] [] s' v k) as H.
        rewrite perform_norm in H. apply H; try lia. apply written_nil. exact Hspec.
      * pose proof (simulate (S (2 + length s')) x fds (S (length s')) PAuth false [] [] s' v k) as H.
        rewrite perform_norm in H. apply H; try lia. apply written_nil. exact Hspec.
    + injection Hspec as <- <-. apply beq_neq in Enul.
      destruct (beq c LF) eqn:Elf.
      * apply beq_eq in Elf. subst c. rewrite line_pure_first_lf. cbn. split; [reflexivity | discriminate].
      * apply beq_neq in Elf.
        destruct (line_pure_first_other c s' Enul Elf) as [H | H]; rewrite H; cbn; split; try reflexivity; discriminate.
Qed.

Theorem server_conforms : forall cfg cs,
  chunks_nonempty cs = true ->
  known_class (ctx_of cfg) (stream_of cs) = None ->
  conforms (ctx_of cfg) (spec_verdict (ctx_of cfg) (stream_of cs)) (fds_of cs) (obs_of (run_server cfg cs)) = true.
Proof.
  intros cfg cs Hn Hk. unfold known_class, spec_verdict in *.
  destruct (spec_server (ctx_of cfg) (stream_of cs)) as [v k] eqn:E. cbn in *.
  apply (server_sim cfg cs v k Hn E). exact Hk.
Qed.

(* no fuel exhaustion and no panic, on any stream *)
Lemma server_safe : forall cfg cs,
  chunks_nonempty cs = true ->
  (forall w, run_server cfg cs <> OErr EFuel w) /\ (forall w, run_server cfg cs <> OPanic w).
Proof.
  intros cfg cs Hn. rewrite (run_server_norm _ _ Hn).
  set (x := ctx_of cfg). set (s := stream_of cs). set (fds := fds_of cs).
  destruct s as [|c s'].
  - cbn [length Nat.add]. rewrite perform_first. cbn. split; intros; discriminate.
  - cbn [length]. change (2 + S (length s')) with (S (2 + length s')). rewrite perform_first.
    destruct (beq c NUL) eqn:Enul.
    + apply beq_eq in Enul. subst c. rewrite line_pure_first_nul.
      pose proof (safe_norm (S (2 + length s')) x WaitingForAuth false [] s' fds) as H.
      rewrite (perform_norm _ x PAuth) in H.
      destruct (position_lf s') as [[|j]|] eqn:Hpos; try (apply H; [lia | right; exists PAuth; reflexivity]).
      split; intros; discriminate.
    + apply beq_neq in Enul. destruct (beq c LF) eqn:Elf.
      * apply beq_eq in Elf. subst c. rewrite line_pure_first_lf. split; intros; discriminate.
      * apply beq_neq in Elf.
        destruct (line_pure_first_other c s' Enul Elf) as [H | H]; rewrite H; split; intros; discriminate.
Qed.

(* ---------------------------------------------------------------- the executable verdict and the relation [accepts] *)
Lemma cut_line_no_lf : forall s seg rest, cut_line s = Some (seg, rest) -> no_lf seg = true.
Proof.
  induction s as [|c r IH]; intros seg rest H; [discriminate|]. cbn in H.
  destruct (beq c x0a) eqn:E.
  - injection H as <- <-. reflexivity.
  - destruct (cut_line r) as [[l rest']|] eqn:Ec; [|discriminate]. injection H as <- <-.
    cbn. rewrite E. cbn. apply (IH _ _ eq_refl).
Qed.

Lemma cut_line_app : forall body rest,
  no_lf body = true -> cut_line (body ++ [x0d; x0a] ++ rest) = Some (body ++ [x0d], rest).
Proof.
  induction body as [|c r IH]; intros rest H.
  - reflexivity.
  - cbn in H. apply andb_true_iff in H. destruct H as [H1 H2]. apply negb_true_iff in H1.
    change ((c :: r) ++ [x0d; x0a] ++ rest) with (c :: (r ++ [x0d; x0a] ++ rest)).
    cbn [cut_line]. rewrite H1. rewrite (IH rest H2). reflexivity.
Qed.

Lemma no_lf_app : forall a b, no_lf (a ++ b) = no_lf a && no_lf b.
Proof. intros. unfold no_lf. apply forallb_app. Qed.

Lemma sstep_finish : forall x st c, sstep x st c = Finish -> st = PBegin /\ c = CBegin.
Proof.
  intros x st c H. destruct st; destruct c as [[m|] [| |b]|[| |b]| | | | | |]; cbn in H;
    unfold claim, claim_empty in H;
    repeat match type of H with
           | context [if ?c then _ else _] => destruct c
           | context [match ?e with _ => _ end] => destruct e
           end; try discriminate; auto.
Qed.

Lemma verdict_done_accepts : forall fuel x st fd rs s rs' fd' tail k,
  spec_loop fuel x st fd rs s = (VDone rs' fd' tail, k) -> accepts_from x st s.
Proof.
  induction fuel as [|f IH]; intros x st fd rs s rs' fd' tail k H; [discriminate|].
  cbn [spec_loop] in H.
  destruct (cut_line s) as [[seg rest]|] eqn:Hc; [|discriminate].
  destruct (rev seg) as [|last rbody] eqn:Hr; [discriminate|].
  destruct (negb (beq last x0d)) eqn:Ecr; [discriminate|].
  apply negb_false_iff in Ecr. apply beq_eq in Ecr. subst last.
  destruct (negb (is_ascii (rev rbody))) eqn:Ea; [discriminate|]. apply negb_false_iff in Ea.
  assert (Hseg : seg = rev rbody ++ [x0d]) by (rewrite <- (rev_involutive seg), Hr; reflexivity).
  destruct (cut_line_some _ _ _ Hc) as [_ Hs].
  assert (Hs' : s = rev rbody ++ [x0d; x0a] ++ rest).
  { rewrite Hs, Hseg, <- app_assoc. reflexivity. }
  assert (Hclean : clean (rev rbody)).
  { split; [|exact Ea]. pose proof (cut_line_no_lf _ _ _ Hc) as Hn. rewrite Hseg, no_lf_app in Hn.
    apply andb_true_iff in Hn. tauto. }
  destruct (sstep x st (classify (rev rbody))) as [st' r a| |] eqn:Est.
  - destruct (spec_loop f x st' (fd || a) (rs ++ [r]) rest) as [v' k'] eqn:Hrec.
    injection H as -> _. rewrite Hs'. eapply acc_step; [exact Hclean | exact Est |].
    eapply IH. exact Hrec.
  - destruct (sstep_finish _ _ _ Est) as [-> Hcl]. rewrite Hs'. apply acc_begin; assumption.
  - discriminate.
Qed.

Lemma accepts_verdict_done : forall x st s,
  accepts_from x st s ->
  forall fuel fd rs, length s < fuel ->
  exists rs' fd' tail k, spec_loop fuel x st fd rs s = (VDone rs' fd' tail, k).
Proof.
  induction 1 as [body rest [Hn Ha] Hcl | st body rest st' r a [Hn Ha] Hst Hacc IH]; intros fuel fd rs Hf;
    (destruct fuel as [|f]; [lia|]); cbn [spec_loop];
    rewrite (cut_line_app _ _ Hn), rev_unit, rev_involutive, beq_refl, Ha; cbn [negb].
  - rewrite Hcl. cbn [sstep]. eauto.
  - rewrite Hst.
    assert (Hl : length rest < f) by (rewrite !app_length in Hf; cbn in Hf; lia).
    destruct (IH f (fd || a) (rs ++ [r]) Hl) as [rs' [fd' [tail [k Hk]]]]. rewrite Hk. eauto.
Qed.

Lemma accepts_iff_done : forall x s,
  accepts x s <-> exists rs fd tail, spec_verdict x s = VDone rs fd tail.
Proof.
  intros x s. unfold accepts, spec_verdict, spec_server. split.
  - intros [s' [-> H]]. rewrite beq_refl.
    destruct (accepts_verdict_done _ _ _ H (S (length s')) false [] (Nat.lt_succ_diag_r _)) as [rs [fd [tail [k Hk]]]].
    rewrite Hk. cbn [fst]. eauto.
  - intros [rs [fd [tail H]]]. destruct s as [|c s']; [discriminate|].
    destruct (beq c x00) eqn:E.
    + apply beq_eq in E. subst c. exists s'. split; [reflexivity|].
      destruct (spec_loop (S (length s')) x PAuth false [] s') as [v k] eqn:Hl. cbn in H. subst v.
      eapply verdict_done_accepts. exact Hl.
    + destruct (beq c x0a); discriminate.
Qed.

(* ---------------------------------------------------------------- authentication, replies, panics *)
Theorem auth_partial : forall cfg cs,
  chunks_nonempty cs = true ->
  known_class (ctx_of cfg) (stream_of cs) = None ->
  spec_verdict (ctx_of cfg) (stream_of cs) <> VUnclear ->
  (is_done (run_server cfg cs) = true <-> accepts (ctx_of cfg) (stream_of cs)).
Proof.
  intros cfg cs Hn Hk Hu. pose proof (server_conforms cfg cs Hn Hk) as Hc.
  rewrite accepts_iff_done.
  destruct (spec_verdict (ctx_of cfg) (stream_of cs)) as [rs fd tail|rs|]; [| |contradiction].
  - split; [eauto|]. intros _. destruct (run_server cfg cs); cbn in *; try discriminate. reflexivity.
  - split.
    + intro Hd. destruct (run_server cfg cs); cbn in *; discriminate.
    + intros [? [? [? ?]]]. discriminate.
Qed.

(* completion is never granted wrongly: no exclusion of streams, also when a malformed line cuts the conversation short *)
Theorem auth_sound : forall cfg cs,
  chunks_nonempty cs = true ->
  spec_verdict (ctx_of cfg) (stream_of cs) <> VUnclear ->
  is_done (run_server cfg cs) = true -> accepts (ctx_of cfg) (stream_of cs).
Proof.
  intros cfg cs Hn Hu Hd.
  destruct (known_class (ctx_of cfg) (stream_of cs)) as [[]|] eqn:Hk.
  - unfold known_class in Hk. destruct (spec_server (ctx_of cfg) (stream_of cs)) as [v k] eqn:E. cbn in Hk. subst k.
    destruct (server_sim cfg cs v _ Hn E) as [_ H]. rewrite (H eq_refl) in Hd. discriminate.
  - apply (auth_partial cfg cs Hn Hk Hu). exact Hd.
Qed.

Theorem replies_partial : forall cfg cs rs,
  chunks_nonempty cs = true ->
  known_class (ctx_of cfg) (stream_of cs) = None ->
  (spec_verdict (ctx_of cfg) (stream_of cs) = VFail rs \/
   exists fd tail, spec_verdict (ctx_of cfg) (stream_of cs) = VDone rs fd tail) ->
  match_replies (ctx_of cfg) rs (written (run_server cfg cs)) = true.
Proof.
  intros cfg cs rs Hn Hk Hv. pose proof (server_conforms cfg cs Hn Hk) as Hc.
  destruct Hv as [Hv | [fd [tail Hv]]]; rewrite Hv in Hc; destruct (run_server cfg cs); cbn in *; try discriminate.
  - exact Hc.
  - repeat (apply andb_true_iff in Hc; destruct Hc as [Hc ?]). exact Hc.
Qed.

Theorem nopanic : forall cfg cs, chunks_nonempty cs = true -> is_panic (run_server cfg cs) = false.
Proof.
  intros cfg cs Hn. destruct (server_safe cfg cs Hn) as [_ H].
  destruct (run_server cfg cs); try reflexivity. exfalso. apply (H w). reflexivity.
Qed.

Theorem fuel_sufficient : forall cfg cs w, chunks_nonempty cs = true -> run_server cfg cs <> OErr EFuel w.
Proof. intros cfg cs w Hn. destruct (server_safe cfg cs Hn) as [H _]. apply H. Qed.

(* ---------------------------------------------------------------- the full statement and what still refutes it *)
Definition full_statement : Prop :=
  forall cfg cs, chunks_nonempty cs = true ->
    conforms (ctx_of cfg) (spec_verdict (ctx_of cfg) (stream_of cs)) (fds_of cs) (obs_of (run_server cfg cs)) = true.

Definition guid0 : bytes := B "0123456789abcdef0123456789abcdef".
Definition cfg_ext (uid : option N) : scfg := mkScfg (Some External) Anonymous uid false guid0.

(* \0FOO\r\n *)
Definition w_foo : list chunk := [mkChunk (x00 :: B "FOO" ++ [x0d; x0a]) []].

Theorem malformed_abort_refuted :
  exists cfg cs, chunks_nonempty cs = true /\
                 spec_verdict (ctx_of cfg) (stream_of cs) = VFail [RError] /\
                 run_server cfg cs = OErr EHandshake [].
Proof. exists (cfg_ext (Some 1000%N)), w_foo. repeat split; vm_compute; reflexivity. Qed.

Theorem full_statement_refuted : ~ full_statement.
Proof.
  intro H. specialize (H (cfg_ext (Some 1000%N)) w_foo eq_refl). vm_compute in H. discriminate.
Qed.

(* ---------------------------------------------------------------- instances (non-vacuity) *)
Definition ex_stream : bytes :=
  x00 :: B "AUTH EXTERNAL 31303030" ++ [x0d; x0a] ++ B "NEGOTIATE_UNIX_FD" ++ [x0d; x0a] ++ B "BEGIN" ++ [x0d; x0a] ++ B "xyz".
Definition ex_cfg : scfg := mkScfg None External (Some 1000%N) true guid0.
Definition ex_chunks1 : list chunk := [mkChunk (firstn 9 ex_stream) [7%N]; mkChunk (skipn 9 ex_stream) []].
Definition ex_chunks2 : list chunk :=
  [mkChunk (firstn 24 ex_stream) []; mkChunk (firstn 1 (skipn 24 ex_stream)) [7%N]; mkChunk (skipn 25 ex_stream) []].

Example ex_split : chunks_nonempty ex_chunks1 = true /\ chunks_nonempty ex_chunks2 = true /\
  stream_of ex_chunks1 = stream_of ex_chunks2 /\ fds_of ex_chunks1 = fds_of ex_chunks2 /\ ex_chunks1 <> ex_chunks2 /\
  run_server ex_cfg ex_chunks1 =
    ODone (B "OK " ++ guid0 ++ [x0d; x0a] ++ B "AGREE_UNIX_FD" ++ [x0d; x0a]) true (B "xyz") [7%N].
Proof. repeat split; try (vm_compute; reflexivity). intro H. discriminate. Qed.

Example ex_conforms :
  known_class (ctx_of ex_cfg) (stream_of ex_chunks2) = None /\
  spec_verdict (ctx_of ex_cfg) (stream_of ex_chunks2) = VDone [ROk; RAgree] true (B "xyz").
Proof. repeat split; vm_compute; reflexivity. Qed.

(* a rejected identity, a cancelled attempt and a misplaced BEGIN: REJECTED, REJECTED, ERROR, then EOF *)
Example ex_replies :
  let s := x00 :: B "AUTH EXTERNAL 31303031" ++ [x0d; x0a] ++ B "CANCEL" ++ [x0d; x0a] ++ B "BEGIN" ++ [x0d; x0a] in
  known_class (ctx_of ex_cfg) s = None /\ spec_verdict (ctx_of ex_cfg) s = VFail [RRejected; RRejected; RError].
Proof. split; vm_compute; reflexivity. Qed.

(* the repaired defects are inside the theorems now:
   an unknown mechanism name is answered REJECTED and the conversation goes on to a proper authentication *)
Example ex_unknown_mechanism :
  let s := x00 :: B "AUTH DBUS_COOKIE_SHA1 31303030" ++ [x0d; x0a] ++ B "AUTH EXTERNAL 31303030" ++ [x0d; x0a]
               ++ B "BEGIN" ++ [x0d; x0a] in
  known_class (ctx_of ex_cfg) s = None /\ spec_verdict (ctx_of ex_cfg) s = VDone [RRejected; ROk] false [] /\
  run_server ex_cfg [mkChunk s []] =
    ODone (B "REJECTED EXTERNAL" ++ [x0d; x0a] ++ B "OK " ++ guid0 ++ [x0d; x0a]) false [] [].
Proof. repeat split; vm_compute; reflexivity. Qed.

(* EXTERNAL with unknown credentials: the empty identity is REJECTED, BEGIN is then misplaced *)
Example ex_bare_data_unknown_creds :
  let s := x00 :: B "AUTH EXTERNAL" ++ [x0d; x0a] ++ B "DATA" ++ [x0d; x0a] ++ B "BEGIN" ++ [x0d; x0a] in
  known_class (ctx_of (cfg_ext None)) s = None /\
  spec_verdict (ctx_of (cfg_ext None)) s = VFail [RData; RRejected; RError] /\
  is_done (run_server (cfg_ext None) [mkChunk s []]) = false.
Proof. repeat split; vm_compute; reflexivity. Qed.

(* a bare LF after a line: an error, no panic *)
Example ex_bare_lf :
  run_server (cfg_ext (Some 1000%N)) [mkChunk (x00 :: B "AUTH" ++ [x0d; x0a; x0a]) []] =
  OErr EHandshake (B "REJECTED EXTERNAL" ++ [x0d; x0a]).
Proof. vm_compute. reflexivity. Qed.

(* the specification's own fuel is never the reason for a verdict *)
Lemma spec_loop_fuel : forall f1 f2 x st fd rs s,
  length s < f1 -> length s < f2 -> spec_loop f1 x st fd rs s = spec_loop f2 x st fd rs s.
Proof.
  induction f1 as [|f1 IH]; intros f2 x st fd rs s H1 H2; [lia|]. destruct f2 as [|f2]; [lia|].
  cbn [spec_loop]. destruct (cut_line s) as [[seg rest]|] eqn:Hc; [|reflexivity].
  pose proof (cut_line_shorter _ _ _ Hc) as Hl.
  destruct (rev seg) as [|last rbody]; [reflexivity|].
  destruct (negb (beq last x0d)); [reflexivity|].
  destruct (negb (is_ascii (rev rbody))); [reflexivity|].
  destruct (sstep x st (classify (rev rbody))) as [st' r a| |]; try reflexivity.
  rewrite (IH f2) by lia. reflexivity.
Qed.
