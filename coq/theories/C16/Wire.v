(* C16/Wire.v — case-line syntax shared by the C16 and C17 drivers (see harness/hsasl/src/main.rs). *)
From ZV Require Import Base.Bytes Base.Res C16.Model.

Definition comma : byte := ","%byte.
Definition at_sign : byte := "@"%byte.

(* "<hex>[@n]" -> chunk; fd ids are numbered in script order starting at [next] *)
Fixpoint seqN (start : N) (n : nat) : list N :=
  match n with O => [] | S k => start :: seqN (start + 1) k end.

Definition parse_chunk (next : N) (t : bytes) : option (chunk * N) :=
  match split_on at_sign t with
  | [h] => option_map (fun b => (mkChunk b [], next)) (bytes_of_hex h)
  | [h; n] =>
      match bytes_of_hex h, N_of_dec n with
      | Some b, Some k => Some (mkChunk b (seqN next (N.to_nat k)), (next + k)%N)
      | _, _ => None
      end
  | _ => None
  end.

Fixpoint parse_chunk_list (next : N) (ts : list bytes) : option (list chunk) :=
  match ts with
  | [] => Some []
  | t :: r =>
      match parse_chunk next t with
      | Some (ch, next') => option_map (cons ch) (parse_chunk_list next' r)
      | None => None
      end
  end.

Definition parse_chunks (t : bytes) : option (list chunk) :=
  if lbeq t (B "-") then Some [] else parse_chunk_list 0 (split_on comma t).

(* E/A: set on the Builder (the socket then says the other one); e/a: Builder unset, the socket says it *)
Definition parse_mech (t : bytes) : option (option mech * mech) :=
  if lbeq t (B "E") then Some (Some External, Anonymous)
  else if lbeq t (B "A") then Some (Some Anonymous, External)
  else if lbeq t (B "e") then Some (None, External)
  else if lbeq t (B "a") then Some (None, Anonymous)
  else None.

Definition parse_bit (t : bytes) : option bool :=
  if lbeq t (B "0") then Some false else if lbeq t (B "1") then Some true else None.

Definition err_tok (e : herr) : bytes :=
  match e with EHandshake => B "H" | EInvalidGuid => B "G" | EFuel => B "FUEL" end.

Definition ids_tok (l : list N) : bytes :=
  match l with [] => B "-" | _ => join (B ".") (map dec_of_N l) end.

Definition bit_tok (b : bool) : bytes := if b then B "1" else B "0".

(* the observation token string printed by the harness; [short] = the real-socket mode (no tail) *)
Definition render_outcome (short : bool) (o : outcome) : bytes :=
  match o with
  | ODone w fd tail fds =>
      B "DONE w=" ++ hex_of_bytes w ++ B " fd=" ++ bit_tok fd ++
      (if short then [] else B " tail=" ++ hex_of_bytes tail ++ B " fds=" ++ ids_tok fds)
  | OErr e w => B "ERR:" ++ err_tok e ++ B " w=" ++ hex_of_bytes w
  | OPanic w => B "PANIC w=" ++ hex_of_bytes w
  end.

(* ---- reading an observation back (for the specification oracle) ---- *)
Inductive ostatus := StDone | StErr | StPanic.
Record observation := mkObs { ob_status : ostatus; ob_w : bytes; ob_fd : bool; ob_tail : option bytes; ob_fds : option bytes }.

Fixpoint field (key : bytes) (ws : list bytes) : option bytes :=
  match ws with
  | [] => None
  | w :: r => if starts_with key w then Some (skipn (length key) w) else field key r
  end.

Definition parse_observation (o : bytes) : option observation :=
  match words o with
  | [] => None
  | h :: rest =>
      let st := if lbeq h (B "DONE") then Some StDone
                else if starts_with (B "ERR") h then Some StErr
                else if lbeq h (B "PANIC") then Some StPanic else None in
      match st, field (B "w=") rest with
      | Some s, Some wh =>
          match bytes_of_hex wh with
          | Some w =>
              let fd := match field (B "fd=") rest with Some v => lbeq v (B "1") | None => false end in
              let tail := match field (B "tail=") rest with Some v => bytes_of_hex v | None => None end in
              Some (mkObs s w fd tail (field (B "fds=") rest))
          | None => None
          end
      | _, _ => None
      end
  end.

Definition first_tab_split (l : bytes) : bytes * bytes :=
  match split_on tab l with
  | [a] => (a, [])
  | a :: b :: _ => (a, b)
  | [] => ([], [])
  end.
