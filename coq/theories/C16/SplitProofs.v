(* C16/SplitProofs.v — the server's outcome depends only on the concatenated stream (bytes and fds),
   never on how reads cut it. *)
From ZV Require Import Base.Bytes Base.Res C16.Model C16.LineFacts.
From Coq Require Import Lia.

(* everything about a server state except the chunking of what it has not consumed yet *)
Definition sview (s : server) : hstep * bytes * option N * bool * view :=
  (s_step s, s_guid s, s_client_uid s, s_can_pass_fd s, view_of (s_common s)).

Definition swf (s : server) : Prop := in_contract (s_common s).

(* two results are the same up to chunking *)
Definition res_sim (r1 r2 : res herr server) : Prop :=
  match r1, r2 with
  | Ok a, Ok b => sview a = sview b /\ swf a /\ swf b
  | Err e1, Err e2 => e1 = e2
  | Panic _, Panic _ => True
  | _, _ => False
  end.

Ltac break_view H :=
  unfold sview, view_of, pending, pending_fds in H; cbn in H;
  injection H as ? ? ? ? ? ? ? ? ? ?; subst.

Lemma write_command_view : forall c1 c2 cmd,
  view_of c1 = view_of c2 -> view_of (write_command c1 cmd) = view_of (write_command c2 cmd).
Proof.
  intros [b1 f1 cap1 m1 fc1 in1 o1] [b2 f2 cap2 m2 fc2 in2 o2] cmd H.
  unfold view_of, pending, pending_fds in *. cbn in *.
  injection H as ? ? ? ? ? ?; subst.
  unfold write_command, write_commands. cbn.
  destruct fc2; cbn; congruence.
Qed.

Lemma write_command_in : forall c cmd, sock_in (write_command c cmd) = sock_in c.
Proof.
  intros c cmd. unfold write_command, write_commands.
  destruct (fold_commands (first_command c) [cmd] []). reflexivity.
Qed.

Lemma set_cap_view : forall c1 c2 b,
  view_of c1 = view_of c2 -> view_of (set_cap_unix_fd c1 b) = view_of (set_cap_unix_fd c2 b).
Proof.
  intros [b1 f1 cap1 m1 fc1 in1 o1] [b2 f2 cap2 m2 fc2 in2 o2] b H.
  unfold view_of, pending, pending_fds in *. cbn in *.
  injection H as ? ? ? ? ? ?; subst. congruence.
Qed.

(* the little state transformers *)
Lemma sim_ok : forall a b, sview a = sview b -> swf a -> swf b -> res_sim (Ok a) (Ok b).
Proof. intros. cbn. auto. Qed.

Section Transformers.
  Variables s1 s2 : server.
  Hypothesis Hv : sview s1 = sview s2.
  Hypothesis Hw1 : swf s1.
  Hypothesis Hw2 : swf s2.

  Lemma view_common : view_of (s_common s1) = view_of (s_common s2).
  Proof. unfold sview in Hv. congruence. Qed.

  Lemma mech_common : mechanism (s_common s1) = mechanism (s_common s2).
  Proof. pose proof view_common as H. unfold view_of in H. congruence. Qed.

  Lemma written_sim : forall cmd st,
    let t1 := with_step (with_common s1 (write_command (s_common s1) cmd)) st in
    let t2 := with_step (with_common s2 (write_command (s_common s2) cmd)) st in
    sview t1 = sview t2 /\ swf t1 /\ swf t2.
  Proof.
    intros cmd st t1 t2. subst t1 t2. unfold sview, swf, in_contract in *. cbn [with_step with_common s_common s_step s_guid s_client_uid s_can_pass_fd].
    rewrite !write_command_in. repeat split; try assumption.
    rewrite (write_command_view _ _ cmd view_common). congruence.
  Qed.

  Lemma written_sim' : forall cmd,
    let t1 := with_common s1 (write_command (s_common s1) cmd) in
    let t2 := with_common s2 (write_command (s_common s2) cmd) in
    sview t1 = sview t2 /\ swf t1 /\ swf t2.
  Proof.
    intros cmd t1 t2. subst t1 t2. unfold sview, swf, in_contract in *. cbn [with_step with_common s_common s_step s_guid s_client_uid s_can_pass_fd].
    rewrite !write_command_in. repeat split; try assumption.
    rewrite (write_command_view _ _ cmd view_common). congruence.
  Qed.

  Lemma auth_ok_sim : res_sim (Ok (auth_ok s1)) (Ok (auth_ok s2)).
  Proof.
    unfold auth_ok. assert (Hg : s_guid s1 = s_guid s2) by (unfold sview in Hv; congruence).
    rewrite Hg. apply written_sim.
  Qed.

  Lemma rejected_sim : res_sim (Ok (rejected_error s1)) (Ok (rejected_error s2)).
  Proof. unfold rejected_error. rewrite mech_common. apply written_sim. Qed.

  Lemma unsupported_sim : res_sim (Ok (unsupported_command_error s1)) (Ok (unsupported_command_error s2)).
  Proof. unfold unsupported_command_error. apply written_sim'. Qed.

  Lemma check_external_sim : forall id, res_sim (check_external_auth s1 id) (check_external_auth s2 id).
  Proof.
    intro id. unfold check_external_auth.
    destruct (negb (utf8_valid id)); [reflexivity|].
    destruct (parse_u32 id) as [uid|]; [|reflexivity].
    assert (Hu : s_client_uid s1 = s_client_uid s2) by (unfold sview in Hv; congruence).
    rewrite Hu. destruct (opt_N_eqb (s_client_uid s2) uid); [apply auth_ok_sim | apply rejected_sim].
  Qed.

  Lemma handle_auth_k_sim : forall cmd, res_sim (handle_auth_k s1 cmd) (handle_auth_k s2 cmd).
  Proof.
    intro cmd. unfold handle_auth_k. rewrite mech_common.
    destruct cmd as [req resp| | |d|e| |m|g|]; try apply unsupported_sim; try apply rejected_sim.
    destruct (negb (opt_mech_eqb req (mechanism (s_common s2)))); [apply rejected_sim|].
    destruct resp as [id|].
    - destruct (mechanism (s_common s2)); [apply check_external_sim | apply auth_ok_sim].
    - apply written_sim.
  Qed.

  Lemma handle_auth_data_k_sim : forall m cmd, res_sim (handle_auth_data_k s1 m cmd) (handle_auth_data_k s2 m cmd).
  Proof.
    intros m cmd. unfold handle_auth_data_k.
    destruct m; destruct cmd as [req resp| | |d|e| |mm|g|]; try apply unsupported_sim.
    - destruct d; [apply check_external_sim|].
      assert (Hu : s_client_uid s1 = s_client_uid s2) by (unfold sview in Hv; congruence).
      rewrite Hu. destruct (s_client_uid s2); [apply auth_ok_sim | apply rejected_sim].
    - apply auth_ok_sim.
  Qed.

  Lemma finalize_k_sim : forall cmd, res_sim (finalize_k s1 cmd) (finalize_k s2 cmd).
  Proof.
    intro cmd. unfold finalize_k.
    destruct cmd as [req resp| | |d|e| |mm|g|]; try apply unsupported_sim; try apply rejected_sim.
    - (* BEGIN *)
      unfold res_sim, sview, swf in *. cbn [with_step with_common s_common s_step s_guid s_client_uid s_can_pass_fd]. repeat split; try assumption. congruence.
    - (* NEGOTIATE_UNIX_FD *)
      assert (Hf : s_can_pass_fd s1 = s_can_pass_fd s2) by (unfold sview in Hv; congruence).
      rewrite Hf. destruct (s_can_pass_fd s2).
      + unfold res_sim, sview, swf, in_contract in *. cbn [with_step with_common s_common s_step s_guid s_client_uid s_can_pass_fd]. rewrite !write_command_in.
        change (sock_in (set_cap_unix_fd (s_common s1) true)) with (sock_in (s_common s1)).
        change (sock_in (set_cap_unix_fd (s_common s2) true)) with (sock_in (s_common s2)).
        repeat split; try assumption.
        rewrite (write_command_view _ _ AgreeUnixFD (set_cap_view _ _ true view_common)). congruence.
      + apply written_sim'.
  Qed.
End Transformers.

(* reading: by LineFacts the command and the remaining view are the same on both sides *)
Lemma read_then_sim : forall s1 s2 k,
  sview s1 = sview s2 -> swf s1 -> swf s2 ->
  (forall t1 t2 cmd, sview t1 = sview t2 -> swf t1 -> swf t2 -> res_sim (k t1 cmd) (k t2 cmd)) ->
  res_sim (read_then s1 k) (read_then s2 k).
Proof.
  intros s1 s2 k Hv Hw1 Hw2 Hk. unfold read_then.
  pose proof (read_command_spec _ Hw1) as R1. pose proof (read_command_spec _ Hw2) as R2.
  unfold read_spec in R1, R2.
  pose proof (view_common _ _ Hv) as Hc. unfold view_of in Hc. injection Hc as Hf Hb Hfd Hcap Hm Ho.
  rewrite Hf, Hb in R1.
  destruct (line_pure (first_command (s_common s2)) (pending (s_common s2))) as [[[cmd rest]|e|p]|].
  - destruct R1 as [c1 [E1 [W1 V1]]]. destruct R2 as [c2 [E2 [W2 V2]]]. rewrite E1, E2. cbn.
    apply Hk.
    + unfold sview in *. cbn. rewrite V1, V2. rewrite Hfd, Hcap, Hm, Ho.
      injection Hv as ? ? ? ? ?. congruence.
    + exact W1.
    + exact W2.
  - rewrite R1, R2. reflexivity.
  - rewrite R1, R2. exact I.
  - rewrite R1, R2. reflexivity.
Qed.

Lemma perform_sim : forall fuel s1 s2,
  sview s1 = sview s2 -> swf s1 -> swf s2 -> perform fuel s1 = perform fuel s2.
Proof.
  induction fuel as [|f IH]; intros s1 s2 Hv Hw1 Hw2.
  - cbn. pose proof (view_common _ _ Hv) as Hc. unfold view_of in Hc. congruence.
  - cbn [perform].
    assert (Hst : s_step s1 = s_step s2) by (unfold sview in Hv; congruence).
    pose proof (view_common _ _ Hv) as Hc. unfold view_of in Hc. injection Hc as Hf Hb Hfd Hcap Hm Ho.
    rewrite Hst.
    assert (Step : forall r1 r2, res_sim r1 r2 ->
              match r1 with Ok s' => perform f s' | Err e => OErr e (sock_out (s_common s1)) | Panic _ => OPanic (sock_out (s_common s1)) end =
              match r2 with Ok s' => perform f s' | Err e => OErr e (sock_out (s_common s2)) | Panic _ => OPanic (sock_out (s_common s2)) end).
    { intros r1 r2 Hr. destruct r1, r2; cbn in Hr; try contradiction.
      - destruct Hr as [A [B C]]. apply IH; assumption.
      - congruence.
      - congruence. }
    destruct (s_step s2) as [|m| |].
    + apply Step. unfold handle_auth. apply read_then_sim; try assumption.
      intros. apply handle_auth_k_sim; assumption.
    + apply Step. unfold handle_auth_data. apply read_then_sim; try assumption.
      intros. apply handle_auth_data_k_sim; assumption.
    + apply Step. unfold finalize. apply read_then_sim; try assumption.
      intros. apply finalize_k_sim; assumption.
    + congruence.
Qed.

Lemma split_independence : forall cfg cs1 cs2,
  chunks_nonempty cs1 = true -> chunks_nonempty cs2 = true ->
  stream_of cs1 = stream_of cs2 -> fds_of cs1 = fds_of cs2 ->
  run_server cfg cs1 = run_server cfg cs2.
Proof.
  intros cfg cs1 cs2 N1 N2 Hs Hf. unfold run_server, server_fuel. rewrite Hs.
  apply perform_sim.
  - unfold sview, server_init, view_of, pending, pending_fds, common_new. cbn.
    unfold stream_of, fds_of in *. rewrite Hs, Hf. reflexivity.
  - exact N1.
  - exact N2.
Qed.

(* the canonical chunking: everything in one read (or none at all for the empty stream) *)
Definition one_chunk (s : bytes) (fds : list N) : list chunk :=
  match s with [] => [] | _ => [mkChunk s fds] end.

Lemma run_server_one_chunk : forall cfg cs,
  chunks_nonempty cs = true -> fds_of cs = [] \/ stream_of cs <> [] ->
  run_server cfg cs = run_server cfg (one_chunk (stream_of cs) (fds_of cs)).
Proof.
  intros cfg cs Hn Hfd. apply split_independence; try assumption.
  - unfold one_chunk. destruct (stream_of cs); reflexivity.
  - unfold one_chunk, stream_of. destruct (concat (map c_bytes cs)); cbn; [reflexivity | now rewrite app_nil_r].
  - unfold one_chunk, fds_of. destruct (stream_of cs) eqn:E; cbn.
    + destruct Hfd as [H|H]; [exact H | congruence].
    + now rewrite app_nil_r.
Qed.
