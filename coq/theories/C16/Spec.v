(* C16/Spec.v — what the property demands of the server side of the SASL handshake, written from the D-Bus
   specification ("Authentication protocol") and the property text, not from the code:

   * the client's stream is a NUL byte followed by lines terminated by CR LF; a line is a sequence of words
     separated by ASCII whitespace;
   * an ideal server is a three-state machine (waiting for AUTH / for DATA / for BEGIN) answering every line with
     exactly one reply (DATA, OK, REJECTED, ERROR, AGREE_UNIX_FD) or finishing on BEGIN;
   * EXTERNAL succeeds only when the peer's uid is known and the claimed identity is empty or denotes that uid;
     ANONYMOUS succeeds with any trace;  other mechanisms get REJECTED;  unknown or misplaced commands get ERROR.

   From Model only the enumeration [mech] and the observable [outcome] are used. *)
From ZV Require Import Base.Bytes C16.Model.

(* ---------------------------------------------------------------- words of a line *)
Definition ws (c : byte) : bool :=
  match bn c with 32 | 9 | 10 | 12 | 13 => true | _ => false end%N.

(* maximal runs of non-whitespace bytes, in order *)
Fixpoint toks (l cur : bytes) : list bytes :=
  match l with
  | [] => match cur with [] => [] | _ => [rev cur] end
  | c :: r =>
      if ws c then match cur with [] => toks r [] | _ => rev cur :: toks r [] end
      else toks r (c :: cur)
  end.
Definition tokens (l : bytes) : list bytes := toks l [].

Definition is_ascii (l : bytes) : bool := forallb (fun c => (bn c <? 128)%N) l.
Definition no_lf (l : bytes) : bool := forallb (fun c => negb (beq c x0a)) l.

(* ---------------------------------------------------------------- commands a client may send *)
Inductive ident := IdNone | IdBad | IdBytes (b : bytes).      (* absent | not hex | decoded *)

Definition ident_of (t : option bytes) : ident :=
  match t with
  | None => IdNone
  | Some h => match bytes_of_hex h with Some b => IdBytes b | None => IdBad end
  end.

Inductive scmd :=
| CAuth (m : option bytes) (i : ident)
| CData (i : ident)
| CBegin | CCancel | CError | CNegotiate
| COther          (* OK, REJECTED, AGREE_UNIX_FD: known words that only a server sends *)
| CUnknown.

Definition classify (body : bytes) : scmd :=
  match tokens body with
  | [] => CUnknown
  | w :: args =>
      if lbeq w (B "AUTH") then CAuth (nth_error args 0) (ident_of (nth_error args 1))
      else if lbeq w (B "DATA") then CData (ident_of (nth_error args 0))
      else if lbeq w (B "BEGIN") then CBegin
      else if lbeq w (B "CANCEL") then CCancel
      else if lbeq w (B "ERROR") then CError
      else if lbeq w (B "NEGOTIATE_UNIX_FD") then CNegotiate
      else if lbeq w (B "OK") || lbeq w (B "REJECTED") || lbeq w (B "AGREE_UNIX_FD") then COther
      else CUnknown
  end.

(* ---------------------------------------------------------------- identities *)
Definition digits_value (ds : bytes) : N := fold_left (fun a c => (a * 10 + (bn c - 48))%N) ds 0%N.

(* the uid a claimed identity denotes: decimal digits (an explicit '+' sign is tolerated), below 2^32 *)
Definition uid_denoted (b : bytes) : option N :=
  let ds := match b with c :: r => if beq c "+"%byte then r else b | [] => [] end in
  match ds with
  | [] => None
  | _ => if forallb is_digit ds && (digits_value ds <? 4294967296)%N then Some (digits_value ds) else None
  end.

(* ---------------------------------------------------------------- the ideal server *)
Inductive pstate := PAuth | PData | PBegin.
Inductive reply := RData | ROk | RRejected | RError | RAgree.

Record sctx := mkSctx { x_mech : mech; x_uid : option N; x_fdcap : bool; x_guid : bytes }.

Definition mech_name (m : mech) : bytes :=
  match m with External => B "EXTERNAL" | Anonymous => B "ANONYMOUS" end.

Inductive sres :=
| Next (st : pstate) (r : reply) (agreed : bool)     (* reply, next state; agreed: fd passing was just agreed *)
| Finish
| Unclear.                                           (* the property does not say what must happen *)

Definition uid_known_eq (u : option N) (n : N) : bool :=
  match u with Some x => N.eqb x n | None => false end.

(* a claimed identity in the configured mechanism *)
Definition claim (x : sctx) (b : bytes) : sres :=
  match x_mech x with
  | Anonymous => Next PBegin ROk false                          (* any trace *)
  | External =>
      match uid_denoted b with
      | None => Unclear                                         (* not a uid at all *)
      | Some n => if uid_known_eq (x_uid x) n then Next PBegin ROk false else Next PAuth RRejected false
      end
  end.

(* the empty identity: "authenticate me as whoever the credentials say I am" *)
Definition claim_empty (x : sctx) : sres :=
  match x_mech x with
  | Anonymous => Next PBegin ROk false
  | External => match x_uid x with Some _ => Next PBegin ROk false | None => Next PAuth RRejected false end
  end.

Definition sstep (x : sctx) (st : pstate) (c : scmd) : sres :=
  match st, c with
  | PAuth, CAuth None _ => Next PAuth RRejected false
  | PAuth, CAuth (Some m) i =>
      if lbeq m (mech_name (x_mech x)) then
        match i with
        | IdNone => Next PData RData false
        | IdBad => Next PAuth RError false
        | IdBytes b => claim x b
        end
      else Next PAuth RRejected false                           (* unsupported mechanism *)
  | PAuth, (CCancel | CError) => Next PAuth RRejected false
  | PAuth, _ => Next PAuth RError false                         (* unknown or misplaced *)
  | PData, CData IdNone => claim_empty x
  | PData, CData IdBad => Next PData RError false
  | PData, CData (IdBytes b) => claim x b
  | PData, _ => Next PData RError false
  | PBegin, CBegin => Finish
  | PBegin, (CCancel | CError) => Next PAuth RRejected false
  | PBegin, CNegotiate => if x_fdcap x then Next PBegin RAgree true else Next PBegin RError false
  | PBegin, _ => Next PBegin RError false
  end.

(* ---------------------------------------------------------------- acceptance, as a relation on the stream *)
Definition clean (body : bytes) : Prop := no_lf body = true /\ is_ascii body = true.

Inductive accepts_from (x : sctx) : pstate -> bytes -> Prop :=
| acc_begin : forall body rest,
    clean body -> classify body = CBegin -> accepts_from x PBegin (body ++ [x0d; x0a] ++ rest)
| acc_step : forall st body rest st' r a,
    clean body -> sstep x st (classify body) = Next st' r a -> accepts_from x st' rest ->
    accepts_from x st (body ++ [x0d; x0a] ++ rest).

Definition accepts (x : sctx) (s : bytes) : Prop :=
  exists s', s = x00 :: s' /\ accepts_from x PAuth s'.

(* ---------------------------------------------------------------- known deviation of the code *)
Inductive klass := KMalformed.

(* a line the D-Bus grammar knows in full: known word, hex arguments, OK with a GUID (any word may name a mechanism:
   one the server does not know is one it does not support) *)
Definition hex_ok (t : bytes) : bool := match bytes_of_hex t with Some _ => true | None => false end.
Definition guid_ok (t : bytes) : bool := Nat.eqb (length t) 32 && forallb is_hexdigit t.
Definition well_formed (body : bytes) : bool :=
  match tokens body with
  | [] => false
  | w :: args =>
      if lbeq w (B "AUTH") then
        match args with
        | _ :: h :: _ => hex_ok h
        | _ => true
        end
      else if lbeq w (B "DATA") then match args with [] => true | h :: _ => hex_ok h end
      else if lbeq w (B "OK") then match args with [] => false | g :: _ => guid_ok g end
      else lbeq w (B "BEGIN") || lbeq w (B "CANCEL") || lbeq w (B "ERROR") || lbeq w (B "NEGOTIATE_UNIX_FD")
           || lbeq w (B "REJECTED") || lbeq w (B "AGREE_UNIX_FD")
  end.

(* ---------------------------------------------------------------- the executable specification *)
Inductive verdict :=
| VDone (rs : list reply) (fd : bool) (tail : bytes)   (* completes: these replies, fd passing agreed?, the rest is messages *)
| VFail (rs : list reply)                              (* ends with an error after exactly these replies *)
| VUnclear.                                            (* only: no panic *)

(* the first line of [s]: the bytes before the first LF, and what follows it *)
Fixpoint cut_line (s : bytes) : option (bytes * bytes) :=
  match s with
  | [] => None
  | c :: r =>
      if beq c x0a then Some ([], r)
      else match cut_line r with Some (l, rest) => Some (c :: l, rest) | None => None end
  end.

Definition first_some (a b : option klass) : option klass := match a with Some _ => a | None => b end.

Fixpoint spec_loop (fuel : nat) (x : sctx) (st : pstate) (fd : bool) (rs : list reply) (s : bytes)
  : verdict * option klass :=
  match fuel with
  | O => (VUnclear, None)
  | S f =>
      match cut_line s with
      | None => (VFail rs, None)                                  (* the stream ends inside a line *)
      | Some (seg, rest) =>
          match rev seg with
          | [] => (VUnclear, None)                                (* LF without CR (a bare LF) *)
          | last :: rbody =>
              let body := rev rbody in
              if negb (beq last x0d) then (VUnclear, None)         (* LF without CR *)
              else if negb (is_ascii body) then (VUnclear, None)
              else
                let c := classify body in
                let k := if negb (well_formed body) then Some KMalformed else None in
                match sstep x st c with
                | Finish => (VDone rs fd rest, k)
                | Unclear => (VUnclear, k)
                | Next st' r a =>
                    let '(v, k') := spec_loop f x st' (fd || a) (rs ++ [r]) rest in
                    (v, first_some k k')
                end
          end
      end
  end.

Definition spec_server (x : sctx) (s : bytes) : verdict * option klass :=
  match s with
  | [] => (VFail [], None)
  | c :: s' =>
      if beq c x00 then spec_loop (S (length s')) x PAuth false [] s'
      else (VFail [], None)                                       (* the first byte must be NUL *)
  end.

Definition spec_verdict (x : sctx) (s : bytes) : verdict := fst (spec_server x s).
Definition known_class (x : sctx) (s : bytes) : option klass := snd (spec_server x s).

(* ---------------------------------------------------------------- the oracle on an observation *)
Inductive ostat := StDone | StErr | StPanic.
Record obs := mkObs { ob_stat : ostat; ob_w : bytes; ob_fd : bool; ob_tail : bytes; ob_fds : list N }.

Fixpoint strip_prefix (p l : bytes) : option bytes :=
  match p, l with
  | [], _ => Some l
  | a :: p', b :: l' => if beq a b then strip_prefix p' l' else None
  | _ :: _, [] => None
  end.

(* drop up to and including the first CR LF (the free text of an ERROR reply); None if there is none *)
Fixpoint skip_crlf (l : bytes) : option bytes :=
  match l with
  | a :: ((b :: r) as t) => if beq a x0d && beq b x0a then Some r else if beq a x0a then None else skip_crlf t
  | _ => None
  end.

Definition crlf : bytes := [x0d; x0a].

(* the bytes written are exactly the expected reply lines; the explanation after ERROR is free *)
Fixpoint match_replies (x : sctx) (rs : list reply) (w : bytes) : bool :=
  match rs with
  | [] => match w with [] => true | _ => false end
  | r :: rs' =>
      let exact (line : bytes) :=
        match strip_prefix (line ++ crlf) w with Some w' => match_replies x rs' w' | None => false end in
      match r with
      | RData => exact (B "DATA")
      | ROk => exact (B "OK " ++ x_guid x)
      | RRejected => exact (B "REJECTED " ++ mech_name (x_mech x))
      | RAgree => exact (B "AGREE_UNIX_FD")
      | RError =>
          match strip_prefix (B "ERROR") w with
          | Some w1 => match skip_crlf w1 with Some w' => match_replies x rs' w' | None => false end
          | None => false
          end
      end
  end.

Fixpoint list_N_eqb (a b : list N) : bool :=
  match a, b with
  | [], [] => true
  | x :: a', y :: b' => N.eqb x y && list_N_eqb a' b'
  | _, _ => false
  end.

(* [all_fds]: every fd the client attached to the stream, in order; they all belong to the message stream *)
Definition conforms (x : sctx) (v : verdict) (all_fds : list N) (o : obs) : bool :=
  match v with
  | VDone rs fd tail =>
      match ob_stat o with
      | StDone => match_replies x rs (ob_w o) && Bool.eqb fd (ob_fd o) && lbeq tail (ob_tail o) && list_N_eqb all_fds (ob_fds o)
      | _ => false
      end
  | VFail rs => match ob_stat o with StErr => match_replies x rs (ob_w o) | _ => false end
  | VUnclear => match ob_stat o with StPanic => false | _ => true end
  end.

Definition obs_of (o : outcome) : obs :=
  match o with
  | ODone w fd tail fds => mkObs StDone w fd tail fds
  | OErr _ w => mkObs StErr w false [] []
  | OPanic w => mkObs StPanic w false [] []
  end.

Definition is_done (o : outcome) : bool := match o with ODone _ _ _ _ => true | _ => false end.
Definition is_panic (o : outcome) : bool := match o with OPanic _ => true | _ => false end.
Definition written (o : outcome) : bytes := match o with ODone w _ _ _ => w | OErr _ w => w | OPanic w => w end.

Definition ctx_of (cfg : scfg) : sctx := mkSctx (sc_mech cfg) (sc_uid cfg) (sc_fdcap cfg) (sc_guid cfg).
