(* C16/ParseFacts.v — the code's parser (Command::from_str, u32::from_str, from_utf8) against the
   specification's reading of a line. *)
From ZV Require Import Base.Bytes Base.Res C16.Model C16.Spec C16.LineFacts.
From Coq Require Import Lia.

(* ---------------------------------------------------------------- tokenising *)
Lemma ws_is_ascii_ws : forall c, is_ascii_ws c = ws c.
Proof. reflexivity. Qed.

Lemma rev_nil_iff : forall (l : bytes), rev l = [] <-> l = [].
Proof.
  intro l. split; intro H.
  - destruct l as [|a l]; [reflexivity|]. cbn in H. destruct (rev l); discriminate.
  - subst. reflexivity.
Qed.

Lemma split_filter_toks : forall l cur,
  filter (fun w => negb (lbeq w [])) (split_ws_aux l cur) = toks l cur.
Proof.
  induction l as [|c r IH]; intro cur; cbn [split_ws_aux toks].
  - cbn [filter]. destruct cur as [|a cur]; [reflexivity|].
    destruct (rev (a :: cur)) eqn:E; [apply (proj1 (rev_nil_iff _)) in E; discriminate E | reflexivity].
  - rewrite ws_is_ascii_ws. destruct (ws c).
    + cbn [filter]. rewrite IH. destruct cur as [|a cur]; [reflexivity|].
      destruct (rev (a :: cur)) eqn:E; [apply (proj1 (rev_nil_iff _)) in E; discriminate E | reflexivity].
    + apply IH.
Qed.

Lemma split_ascii_whitespace_tokens : forall l, split_ascii_whitespace l = tokens l.
Proof. intro l. apply split_filter_toks. Qed.

Lemma toks_app_crlf : forall l cur, toks (l ++ [CR; LF]) cur = toks l cur.
Proof.
  induction l as [|c r IH]; intro cur.
  - cbn. destruct cur; reflexivity.
  - cbn [app toks]. destruct (ws c); [destruct cur|]; rewrite ?IH; reflexivity.
Qed.

Lemma tokens_line : forall body, split_ascii_whitespace (body ++ CRLF) = tokens body.
Proof. intro body. rewrite split_ascii_whitespace_tokens. apply toks_app_crlf. Qed.

(* ---------------------------------------------------------------- UTF-8 of ASCII text *)
Lemma ascii_utf8 : forall l, is_ascii l = true -> utf8_valid l = true.
Proof.
  induction l as [|a r IH]; intro H; [reflexivity|].
  cbn in H. apply andb_true_iff in H. destruct H as [Ha Hr].
  cbn [utf8_valid]. rewrite Ha. apply IH. exact Hr.
Qed.

Lemma is_ascii_app : forall a b, is_ascii (a ++ b) = is_ascii a && is_ascii b.
Proof. intros a b. unfold is_ascii. apply forallb_app. Qed.

(* ---------------------------------------------------------------- u32::from_str = the uid an identity denotes *)
Lemma digits_value_snoc : forall ds acc,
  fold_left (fun a c => (a * 10 + (bn c - 48))%N) ds acc =
  (acc * 10 ^ N.of_nat (length ds) + digits_value ds)%N.
Proof.
  unfold digits_value.
  induction ds as [|d ds IH]; intro acc.
  - cbn. lia.
  - cbn [fold_left length]. rewrite IH. rewrite (IH (0 * 10 + (bn d - 48))%N).
    rewrite Nat2N.inj_succ, N.pow_succ_r'. lia.
Qed.

Lemma parse_digits_spec : forall ds acc,
  (acc <= u32_max)%N ->
  parse_u32_digits ds acc =
  if forallb is_digit ds && (fold_left (fun a c => (a * 10 + (bn c - 48))%N) ds acc <=? u32_max)%N
  then Some (fold_left (fun a c => (a * 10 + (bn c - 48))%N) ds acc) else None.
Proof.
  induction ds as [|d ds IH]; intros acc Hacc.
  - cbn. apply N.leb_le in Hacc. rewrite Hacc. reflexivity.
  - cbn [parse_u32_digits forallb fold_left]. destruct (is_digit d); [|reflexivity]. cbn [andb].
    destruct ((acc * 10 + (bn d - 48) <=? u32_max)%N) eqn:E.
    + apply IH. apply N.leb_le. exact E.
    + (* once over the limit, always over *)
      apply N.leb_gt in E.
      rewrite digits_value_snoc.
      assert (H : (u32_max < (acc * 10 + (bn d - 48)) * 10 ^ N.of_nat (length ds) + digits_value ds)%N).
      { assert (1 <= 10 ^ N.of_nat (length ds))%N.
        { change 1%N with (10 ^ 0)%N. apply N.pow_le_mono_r; lia. }
        nia. }
      apply N.leb_gt in H. rewrite H. rewrite andb_false_r. reflexivity.
Qed.

Lemma parse_u32_denoted : forall b, parse_u32 b = uid_denoted b.
Proof.
  intro b. unfold parse_u32, uid_denoted.
  assert (G : forall ds, ds <> [] ->
            parse_u32_digits ds 0 =
            (if forallb is_digit ds && (digits_value ds <? 4294967296)%N then Some (digits_value ds) else None)).
  { intros ds _. rewrite parse_digits_spec by (unfold u32_max; lia).
    fold (digits_value ds).
    replace (digits_value ds <=? u32_max)%N with (digits_value ds <? 4294967296)%N; [reflexivity|].
    unfold u32_max. destruct (digits_value ds <? 4294967296)%N eqn:A; destruct (digits_value ds <=? 4294967295)%N eqn:C;
      try reflexivity; [apply N.ltb_lt in A; apply N.leb_gt in C; lia | apply N.ltb_ge in A; apply N.leb_le in C; lia]. }
  destruct b as [|c r]; [reflexivity|].
  destruct (beq c "+"%byte).
  - destruct r as [|d r]; [reflexivity|]. apply G. discriminate.
  - apply G. discriminate.
Qed.

Lemma digits_ascii : forall ds, forallb is_digit ds = true -> is_ascii ds = true.
Proof.
  unfold is_ascii.
  induction ds as [|d ds IH]; intro Hd; [reflexivity|]. cbn [forallb] in *.
  apply andb_true_iff in Hd. destruct Hd as [H1 H2]. rewrite (IH H2), andb_true_r.
  unfold is_digit, in_range in H1. apply andb_true_iff in H1. destruct H1 as [_ H1].
  apply N.leb_le in H1. apply N.ltb_lt. lia.
Qed.

Lemma uid_denoted_ascii : forall b n, uid_denoted b = Some n -> utf8_valid b = true.
Proof.
  intros b n H. apply ascii_utf8. unfold uid_denoted in H.
  destruct b as [|c r]; [discriminate|].
  destruct (beq c "+"%byte) eqn:E.
  - apply beq_eq in E. subst c. destruct r as [|d r]; [discriminate|].
    destruct (forallb is_digit (d :: r)) eqn:F; [|discriminate].
    change (is_ascii ("+"%byte :: d :: r)) with (true && is_ascii (d :: r)).
    rewrite (digits_ascii _ F). reflexivity.
  - destruct (forallb is_digit (c :: r)) eqn:F; [|discriminate]. apply digits_ascii. exact F.
Qed.

(* ---------------------------------------------------------------- Command::from_str against classify / well_formed *)
Definition cmd_abs (c : command) : scmd :=
  match c with
  | Auth None _ => CAuth None IdNone
  | Auth (Some m) None => CAuth (Some (mech_str m)) IdNone
  | Auth (Some m) (Some b) => CAuth (Some (mech_str m)) (IdBytes b)
  | Cancel => CCancel
  | Begin => CBegin
  | Data None => CData IdNone
  | Data (Some b) => CData (IdBytes b)
  | ErrorC _ => CError
  | NegotiateUnixFD => CNegotiate
  | Rejected _ | OkC _ | AgreeUnixFD => COther
  end.

Lemma mech_of_str_spec : forall m,
  match mech_of_str m with
  | Ok mm => m = mech_str mm /\ (lbeq m (B "EXTERNAL") || lbeq m (B "ANONYMOUS")) = true
  | Err _ => (lbeq m (B "EXTERNAL") || lbeq m (B "ANONYMOUS")) = false
  | Panic _ => False
  end.
Proof.
  intro m. unfold mech_of_str.
  destruct (lbeq m (B "EXTERNAL")) eqn:E1.
  - apply lbeq_eq in E1. subst. split; reflexivity.
  - destruct (lbeq m (B "ANONYMOUS")) eqn:E2.
    + apply lbeq_eq in E2. subst. split; reflexivity.
    + reflexivity.
Qed.

Lemma hex_decode_spec : forall h,
  match hex_decode h with
  | Ok b => bytes_of_hex h = Some b
  | Err _ => bytes_of_hex h = None
  | Panic _ => False
  end.
Proof. intro h. unfold hex_decode. destruct (bytes_of_hex h); reflexivity. Qed.

(* a mechanism name the code does not know is answered like a missing one, in every state *)
Lemma sstep_unknown_mech : forall x p m i,
  (lbeq m (B "EXTERNAL") || lbeq m (B "ANONYMOUS")) = false ->
  sstep x p (CAuth (Some m) i) = sstep x p (CAuth None IdNone).
Proof.
  intros x p m i H. apply orb_false_iff in H. destruct H as [H1 H2].
  destruct p; cbn [sstep]; try reflexivity.
  destruct (x_mech x); cbn [mech_name]; rewrite ?H1, ?H2; reflexivity.
Qed.

(* the parser's verdict on a line of the handshake (body ++ CR LF): on a well-formed line the command it returns
   drives the ideal server exactly like the specification's reading of the line *)
Lemma command_of_line : forall body,
  match command_of_str (body ++ CRLF) with
  | Ok cmd => well_formed body = true /\ forall x p, sstep x p (classify body) = sstep x p (cmd_abs cmd)
  | Err _ => well_formed body = false
  | Panic _ => False
  end.
Proof.
  intro body. unfold command_of_str, well_formed, classify. rewrite tokens_line.
  destruct (tokens body) as [|w args]; [reflexivity|].
  destruct (lbeq w (B "AUTH")) eqn:E1.
  { apply lbeq_eq in E1. subst w.
    destruct args as [|m rest]; [split; reflexivity|].
    pose proof (mech_of_str_spec m) as Hm. cbn [nth_error].
    destruct rest as [|h rest'].
    - split; [reflexivity|]. intros x p. unfold ident_of.
      destruct (mech_of_str m) as [mm|e|pp]; [destruct Hm as [-> _]; reflexivity | | contradiction].
      apply sstep_unknown_mech. exact Hm.
    - pose proof (hex_decode_spec h) as Hh. unfold hex_ok, ident_of.
      destruct (hex_decode h) as [bb|e|pp]; cbn [bind]; [|rewrite Hh; reflexivity|contradiction].
      rewrite Hh. split; [reflexivity|]. intros x p.
      destruct (mech_of_str m) as [mm|e|pp]; [destruct Hm as [-> _]; reflexivity | | contradiction].
      apply sstep_unknown_mech. exact Hm. }
  destruct (lbeq w (B "CANCEL")) eqn:E2.
  { apply lbeq_eq in E2. subst w. split; reflexivity. }
  destruct (lbeq w (B "BEGIN")) eqn:E3.
  { apply lbeq_eq in E3. subst w. split; reflexivity. }
  destruct (lbeq w (B "DATA")) eqn:E4.
  { apply lbeq_eq in E4. subst w.
    destruct args as [|h rest]; [split; reflexivity|].
    pose proof (hex_decode_spec h) as Hh. unfold hex_ok, ident_of. cbn [nth_error].
    destruct (hex_decode h) as [bb|e|p]; cbn [bind]; [|rewrite Hh; reflexivity|contradiction].
    rewrite Hh. split; reflexivity. }
  destruct (lbeq w (B "ERROR")) eqn:E5.
  { apply lbeq_eq in E5. subst w. split; reflexivity. }
  destruct (lbeq w (B "NEGOTIATE_UNIX_FD")) eqn:E6.
  { apply lbeq_eq in E6. subst w. split; reflexivity. }
  destruct (lbeq w (B "REJECTED")) eqn:E7.
  { apply lbeq_eq in E7. subst w. split; reflexivity. }
  destruct (lbeq w (B "OK")) eqn:E8.
  { apply lbeq_eq in E8. subst w.
    destruct args as [|g rest]; [reflexivity|].
    change (guid_ok g) with (guid_valid g).
    destruct (guid_valid g); [split; reflexivity | reflexivity]. }
  destruct (lbeq w (B "AGREE_UNIX_FD")) eqn:E9.
  { apply lbeq_eq in E9. subst w. split; reflexivity. }
  reflexivity.
Qed.

Lemma command_of_str_err : forall s e, command_of_str s = Err e -> e = EHandshake \/ e = EInvalidGuid.
Proof.
  intros s e. unfold command_of_str.
  destruct (split_ascii_whitespace s) as [|w args]; [intro H; injection H as <-; auto|].
  repeat match goal with
         | |- context [if ?c then _ else _] => destruct c
         end;
  repeat match goal with
         | |- context [match ?l with [] => _ | _ :: _ => _ end] => destruct l
         end;
  unfold mech_of_str, hex_decode;
  repeat match goal with
         | |- context [if ?c then _ else _] => destruct c
         | |- context [match bytes_of_hex ?h with _ => _ end] => destruct (bytes_of_hex h)
         end;
  cbn; intro H; try discriminate; injection H as <-; auto.
Qed.

Lemma command_of_str_no_panic : forall s p, command_of_str s <> Panic p.
Proof.
  intros s p. unfold command_of_str.
  destruct (split_ascii_whitespace s) as [|w args]; [discriminate|].
  repeat match goal with
         | |- context [if ?c then _ else _] => destruct c
         end;
  repeat match goal with
         | |- context [match ?l with [] => _ | _ :: _ => _ end] => destruct l
         end;
  unfold mech_of_str, hex_decode;
  repeat match goal with
         | |- context [if ?c then _ else _] => destruct c
         | |- context [match bytes_of_hex ?h with _ => _ end] => destruct (bytes_of_hex h)
         end;
  cbn; discriminate.
Qed.
