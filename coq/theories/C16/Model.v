(* C16/Model.v — executable mirror of zbus/src/connection/handshake/{common,command,auth_mechanism,server}.rs
   as they are.  No proofs in this file.

   The outside world: the socket's read side is a list of chunks (what successive [recvmsg] calls return: some
   bytes and the fds attached to them; an empty chunk or the end of the list is [Ok(0)] = EOF); the write side
   accepts every byte (partial writes only re-enter the [while !send_buffer.is_empty()] loop). *)
From ZV Require Import Base.Bytes Base.Res.

Definition LF : byte := x0a.
Definition CR : byte := x0d.
Definition NUL : byte := x00.
Definition CRLF : bytes := [CR; LF].

(* ---------------------------------------------------------------- std::str::from_utf8 *)
Definition cont (c : byte) : bool := in_range 128 191 c.

Fixpoint utf8_valid (l : bytes) : bool :=
  match l with
  | [] => true
  | a :: r =>
      if (bn a <? 128)%N then utf8_valid r
      else if in_range 194 223 a then
        match r with b :: r1 => cont b && utf8_valid r1 | _ => false end
      else if in_range 224 239 a then
        match r with
        | b :: c :: r2 =>
            (if (bn a =? 224)%N then in_range 160 191 b
             else if (bn a =? 237)%N then in_range 128 159 b
             else cont b) && cont c && utf8_valid r2
        | _ => false
        end
      else if in_range 240 244 a then
        match r with
        | b :: c :: d :: r3 =>
            (if (bn a =? 240)%N then in_range 144 191 b
             else if (bn a =? 244)%N then in_range 128 143 b
             else cont b) && cont c && cont d && utf8_valid r3
        | _ => false
        end
      else false
  end.

(* ---------------------------------------------------------------- str::split_ascii_whitespace *)
(* split on every ASCII whitespace byte, then drop the empty pieces *)
Fixpoint split_ws_aux (l cur : bytes) : list bytes :=
  match l with
  | [] => [rev cur]
  | c :: r => if is_ascii_ws c then rev cur :: split_ws_aux r [] else split_ws_aux r (c :: cur)
  end.
Definition split_ascii_whitespace (l : bytes) : list bytes :=
  filter (fun w => negb (lbeq w [])) (split_ws_aux l []).

(* ---------------------------------------------------------------- u32::from_str *)
Definition u32_max : N := 4294967295.
Fixpoint parse_u32_digits (l : bytes) (acc : N) : option N :=
  match l with
  | [] => Some acc
  | c :: r =>
      if is_digit c then
        let acc' := (acc * 10 + (bn c - 48))%N in          (* checked_mul / checked_add *)
        if (acc' <=? u32_max)%N then parse_u32_digits r acc' else None
      else None
  end.
Definition parse_u32 (l : bytes) : option N :=
  match l with
  | [] => None                                              (* IntErrorKind::Empty *)
  | c :: r =>
      if beq c "+"%byte then (match r with [] => None | _ => parse_u32_digits r 0 end)
      else parse_u32_digits l 0                             (* a leading '-' is an invalid digit for unsigned *)
  end.

(* ---------------------------------------------------------------- auth_mechanism.rs *)
Inductive mech := External | Anonymous.
Definition mech_eqb (a b : mech) : bool :=
  match a, b with External, External | Anonymous, Anonymous => true | _, _ => false end.
Definition mech_str (m : mech) : bytes :=
  match m with External => B "EXTERNAL" | Anonymous => B "ANONYMOUS" end.

Inductive herr := EHandshake | EInvalidGuid | EFuel.

Definition mech_of_str (s : bytes) : res herr mech :=
  if lbeq s (B "EXTERNAL") then Ok External
  else if lbeq s (B "ANONYMOUS") then Ok Anonymous
  else Err EHandshake.

(* ---------------------------------------------------------------- guid.rs validate_guid *)
Definition guid_valid (s : bytes) : bool := Nat.eqb (length s) 32 && forallb is_hexdigit s.

(* ---------------------------------------------------------------- command.rs *)
Inductive command :=
| Auth (m : option mech) (resp : option bytes)
| Cancel
| Begin
| Data (d : option bytes)
| ErrorC (s : bytes)
| NegotiateUnixFD
| Rejected (mechs : bytes)
| OkC (guid : bytes)
| AgreeUnixFD.

(* hex::decode : even length, both cases *)
Definition hex_decode (s : bytes) : res herr bytes :=
  match bytes_of_hex s with Some b => Ok b | None => Err EHandshake end.

(* Command::from_str *)
Definition command_of_str (s : bytes) : res herr command :=
  match split_ascii_whitespace s with
  | [] => Err EHandshake
  | w :: rest =>
      if lbeq w (B "AUTH") then
        match rest with
        | [] => Ok (Auth None None)
        | m :: rest2 =>
            (* words.next().and_then(|m| m.parse().ok()) *)
            let mm := match mech_of_str m with Ok x => Some x | _ => None end in
            match rest2 with
            | [] => Ok (Auth mm None)
            | r :: _ => let* rr := hex_decode r in Ok (Auth mm (Some rr))
            end
        end
      else if lbeq w (B "CANCEL") then Ok Cancel
      else if lbeq w (B "BEGIN") then Ok Begin
      else if lbeq w (B "DATA") then
        match rest with
        | [] => Ok (Data None)
        | d :: _ => let* dd := hex_decode d in Ok (Data (Some dd))
        end
      else if lbeq w (B "ERROR") then Ok (ErrorC s)
      else if lbeq w (B "NEGOTIATE_UNIX_FD") then Ok NegotiateUnixFD
      else if lbeq w (B "REJECTED") then Ok (Rejected (join (B " ") rest))
      else if lbeq w (B "OK") then
        match rest with
        | [] => Err EHandshake                                (* "Missing OK server GUID!" *)
        | g :: _ => if guid_valid g then Ok (OkC g) else Err EInvalidGuid
        end
      else if lbeq w (B "AGREE_UNIX_FD") then Ok AgreeUnixFD
      else Err EHandshake                                      (* "Unknown command" *)
  end.

(* Display for Command *)
Definition command_to_bytes (c : command) : bytes :=
  match c with
  | Auth (Some m) (Some r) => B "AUTH " ++ mech_str m ++ B " " ++ hex_of_bytes r
  | Auth (Some m) None => B "AUTH " ++ mech_str m
  | Auth None _ => B "AUTH"
  | Cancel => B "CANCEL"
  | Begin => B "BEGIN"
  | Data None => B "DATA"
  | Data (Some d) => B "DATA " ++ hex_of_bytes d
  | ErrorC e => B "ERROR " ++ e
  | NegotiateUnixFD => B "NEGOTIATE_UNIX_FD"
  | Rejected m => B "REJECTED " ++ m
  | OkC g => B "OK " ++ g
  | AgreeUnixFD => B "AGREE_UNIX_FD"
  end.

(* ---------------------------------------------------------------- common.rs *)
Record chunk := mkChunk { c_bytes : bytes; c_fds : list N }.

Record common := mkCommon {
  recv_buffer : bytes;
  received_fds : list N;
  cap_unix_fd : bool;
  mechanism : mech;
  first_command : bool;
  sock_in : list chunk;        (* what the socket will still deliver *)
  sock_out : bytes             (* everything written so far *)
}.

Definition common_new (m : mech) (input : list chunk) : common :=
  mkCommon [] [] false m true input [].

Definition set_buffer (c : common) (b : bytes) (first : bool) : common :=
  mkCommon b (received_fds c) (cap_unix_fd c) (mechanism c) first (sock_in c) (sock_out c).
Definition set_input (c : common) (i : list chunk) : common :=
  mkCommon (recv_buffer c) (received_fds c) (cap_unix_fd c) (mechanism c) (first_command c) i (sock_out c).
Definition push_chunk (c : common) (ch : chunk) : common :=
  mkCommon (recv_buffer c ++ c_bytes ch) (received_fds c ++ c_fds ch) (cap_unix_fd c) (mechanism c)
           (first_command c) (sock_in c) (sock_out c).
Definition set_cap_unix_fd (c : common) (b : bool) : common :=
  mkCommon (recv_buffer c) (received_fds c) b (mechanism c) (first_command c) (sock_in c) (sock_out c).

(* write_commands: the first command ever written on this side gets a leading NUL *)
Fixpoint fold_commands (first : bool) (cmds : list command) (acc : bytes) : bool * bytes :=
  match cmds with
  | [] => (first, acc)
  | c :: r =>
      let acc1 := if first then acc ++ [NUL] else acc in
      fold_commands false r (acc1 ++ command_to_bytes c ++ CRLF)
  end.
Definition write_commands (c : common) (cmds : list command) (extra : bytes) : common :=
  let '(first, buf) := fold_commands (first_command c) cmds [] in
  mkCommon (recv_buffer c) (received_fds c) (cap_unix_fd c) (mechanism c) first (sock_in c)
           (sock_out c ++ buf ++ extra).
Definition write_command (c : common) (cmd : command) : common := write_commands c [cmd] [].

Fixpoint position_lf (l : bytes) : option nat :=
  match l with
  | [] => None
  | c :: r => if beq c LF then Some O else option_map S (position_lf r)
  end.

(* one iteration of the body of `while let Some(lf_index) = recv_buffer.position(LF)`, as a function of the two
   things it looks at: the [first_command] flag and the buffer.  None = no LF in the buffer; otherwise the parsed
   command and what stays in the buffer. *)
Definition map_res {E A C} (f : A -> C) (r : res E A) : res E C :=
  match r with Ok a => Ok (f a) | Err e => Err e | Panic p => Panic p end.

Definition line_pure (first : bool) (buf : bytes) : option (res herr (command * bytes)) :=
  match position_lf buf with
  | None => None
  | Some lf =>
      Some (match lf with
            | O => Err EHandshake                             (* lf_index == 0 || .. : "Invalid line ending" *)
            | S k =>
                if negb (beq (nth k buf NUL) CR) then Err EHandshake        (* recv_buffer[lf_index - 1] != '\r' *)
                else if first && negb (beq (nth O buf NUL) NUL) then Err EHandshake  (* "First client byte is not NUL!" *)
                else
                  let start := if first then 1 else 0 in
                  let line := skipn start (firstn (S lf) buf) in             (* drain(..=lf_index)[start_index..] *)
                  if negb (utf8_valid line) then Err EHandshake
                  else map_res (fun cmd => (cmd, skipn (S lf) buf)) (command_of_str line)
            end)
  end.

Definition line_of_buffer (c : common) : option (res herr (command * common)) :=
  option_map (map_res (fun '(cmd, rest) => (cmd, set_buffer c rest false)))
             (line_pure (first_command c) (recv_buffer c)).

(* the inner while-let of read_commands *)
Fixpoint drain_buffer (fuel n got : nat) (c : common) (acc : list command)
  : res herr (bool * nat * common * list command) :=
  match fuel with
  | O => Err EFuel
  | S f =>
      match line_of_buffer c with
      | None => Ok (false, got, c, acc)
      | Some (Ok (cmd, c')) =>
          let got' := S got in
          let acc' := acc ++ [cmd] in
          if Nat.eqb got' n then Ok (true, got', c', acc') else drain_buffer f n got' c' acc'
      | Some (Err e) => Err e
      | Some (Panic p) => Panic p
      end
  end.

(* the outer loop of read_commands, structurally over what the socket still delivers *)
Fixpoint read_loop (input : list chunk) (n got : nat) (c : common) (acc : list command)
  : res herr (list command * common) :=
  match drain_buffer (S (length (recv_buffer c))) n got c acc with
  | Ok (true, _, c', acc') => Ok (acc', set_input c' input)
  | Ok (false, got', c', acc') =>
      match input with
      | [] => Err EHandshake                                  (* recvmsg -> Ok(0): "Unexpected EOF" *)
      | ch :: input' =>
          match c_bytes ch with
          | [] => Err EHandshake                              (* read == 0 *)
          | _ => read_loop input' n got' (push_chunk c' ch) acc'
          end
      end
  | Err e => Err e
  | Panic p => Panic p
  end.

Definition read_commands (c : common) (n : nat) : res herr (list command * common) :=
  read_loop (sock_in c) n 0 c [].

Definition read_command (c : common) : res herr (command * common) :=
  match read_commands c 1 with
  | Ok (cmd :: _, c') => Ok (cmd, c')
  | Ok ([], _) => Panic PUnwrap
  | Err e => Err e
  | Panic p => Panic p
  end.

(* ---------------------------------------------------------------- server.rs *)
Inductive hstep := WaitingForAuth | WaitingForData (m : mech) | WaitingForBegin | SDone.

Record server := mkServer {
  s_common : common;
  s_step : hstep;
  s_guid : bytes;
  s_client_uid : option N;
  s_can_pass_fd : bool          (* socket.read().can_pass_unix_fd() *)
}.

Definition with_common (s : server) (c : common) : server :=
  mkServer c (s_step s) (s_guid s) (s_client_uid s) (s_can_pass_fd s).
Definition with_step (s : server) (st : hstep) : server :=
  mkServer (s_common s) st (s_guid s) (s_client_uid s) (s_can_pass_fd s).

Definition error_text : bytes := B "Unsupported or misplaced command".
Definition fd_error_text : bytes := B "FD-passing not possible on this socket type".

Definition auth_ok (s : server) : server :=
  with_step (with_common s (write_command (s_common s) (OkC (s_guid s)))) WaitingForBegin.
Definition rejected_error (s : server) : server :=
  with_step (with_common s (write_command (s_common s) (Rejected (mech_str (mechanism (s_common s)))))) WaitingForAuth.
Definition unsupported_command_error (s : server) : server :=
  with_common s (write_command (s_common s) (ErrorC error_text)).

Definition opt_N_eqb (a : option N) (b : N) : bool :=
  match a with Some x => N.eqb x b | None => false end.

Definition check_external_auth (s : server) (sasl_id : bytes) : res herr server :=
  if negb (utf8_valid sasl_id) then Err EHandshake                      (* "Invalid ID" *)
  else match parse_u32 sasl_id with
       | None => Err EHandshake                                         (* "Invalid UID" *)
       | Some uid => if opt_N_eqb (s_client_uid s) uid then Ok (auth_ok s) else Ok (rejected_error s)
       end.

Definition opt_mech_eqb (a : option mech) (b : mech) : bool :=
  match a with Some x => mech_eqb x b | None => false end.

(* each handler: read one command, then act on it ([_k]: the part after the read) *)
Definition handle_auth_k (s : server) (reply : command) : res herr server :=
  let c := s_common s in
  match reply with
  | Auth requested resp =>
      let m := mechanism c in
      if negb (opt_mech_eqb requested m) then Ok (rejected_error s)
      else match resp with
           | None => Ok (with_step (with_common s (write_command c (Data None))) (WaitingForData m))
           | Some sasl_id =>
               match m with
               | Anonymous => Ok (auth_ok s)
               | External => check_external_auth s sasl_id
               end
           end
  | Cancel | ErrorC _ => Ok (rejected_error s)
  | _ => Ok (unsupported_command_error s)
  end.

Definition handle_auth_data_k (s : server) (m : mech) (reply : command) : res herr server :=
  match m, reply with
  | External, Data None =>
      match s_client_uid s with Some _ => Ok (auth_ok s) | None => Ok (rejected_error s) end
  | External, Data (Some d) => check_external_auth s d
  | Anonymous, Data _ => Ok (auth_ok s)
  | _, _ => Ok (unsupported_command_error s)
  end.

Definition finalize_k (s : server) (reply : command) : res herr server :=
  let c := s_common s in
  match reply with
  | Begin => Ok (with_step s SDone)
  | Cancel | ErrorC _ => Ok (rejected_error s)
  | NegotiateUnixFD =>
      if s_can_pass_fd s
      then Ok (with_common s (write_command (set_cap_unix_fd c true) AgreeUnixFD))
      else Ok (with_common s (write_command c (ErrorC fd_error_text)))
  | _ => Ok (unsupported_command_error s)
  end.

Definition read_then (s : server) (k : server -> command -> res herr server) : res herr server :=
  let* (reply, c) := read_command (s_common s) in
  k (with_common s c) reply.

Definition handle_auth (s : server) : res herr server := read_then s handle_auth_k.
Definition handle_auth_data (s : server) (m : mech) : res herr server :=
  read_then s (fun s' r => handle_auth_data_k s' m r).
Definition finalize (s : server) : res herr server := read_then s finalize_k.

(* What the harness can see of a finished handshake. *)
Inductive outcome :=
| ODone (w : bytes) (fd : bool) (tail : bytes) (fds : list N)
| OErr (e : herr) (w : bytes)
| OPanic (w : bytes).

Definition pending (c : common) : bytes := recv_buffer c ++ concat (map c_bytes (sock_in c)).
Definition pending_fds (c : common) : list N := received_fds c ++ concat (map c_fds (sock_in c)).

(* A failing step cannot have written anything after its read (every write is the last action of a step), so the
   bytes written are those of the state before the step. *)
Fixpoint perform (fuel : nat) (s : server) : outcome :=
  match fuel with
  | O => OErr EFuel (sock_out (s_common s))
  | S f =>
      let r := match s_step s with
               | WaitingForAuth => Some (handle_auth s)
               | WaitingForData m => Some (handle_auth_data s m)
               | WaitingForBegin => Some (finalize s)
               | SDone => None
               end in
      match r with
      | None =>
          let c := s_common s in
          ODone (sock_out c) (cap_unix_fd c) (pending c) (pending_fds c)
      | Some (Ok s') => perform f s'
      | Some (Err e) => OErr e (sock_out (s_common s))
      | Some (Panic _) => OPanic (sock_out (s_common s))
      end
  end.

(* Builder::build on the server side *)
Record scfg := mkScfg {
  sc_builder_mech : option mech;     (* Builder::auth_mechanism, if called *)
  sc_socket_mech : mech;             (* ReadHalf::auth_mechanism of the socket *)
  sc_uid : option N;                 (* peer_credentials().unix_user_id() *)
  sc_fdcap : bool;                   (* ReadHalf::can_pass_unix_fd *)
  sc_guid : bytes                    (* Builder::server(guid) *)
}.

Definition sc_mech (cfg : scfg) : mech :=
  match sc_builder_mech cfg with Some m => m | None => sc_socket_mech cfg end.

Definition stream_of (cs : list chunk) : bytes := concat (map c_bytes cs).
Definition fds_of (cs : list chunk) : list N := concat (map c_fds cs).

Definition server_init (cfg : scfg) (cs : list chunk) : server :=
  mkServer (common_new (sc_mech cfg) cs) WaitingForAuth (sc_guid cfg) (sc_uid cfg) (sc_fdcap cfg).

(* the transport read contract: a read returns at least one byte unless the stream is at its end *)
Definition chunks_nonempty (cs : list chunk) : bool :=
  forallb (fun ch => match c_bytes ch with [] => false | _ => true end) cs.

(* every step consumes at least one byte of the stream, plus one final step that sees SDone *)
Definition server_fuel (cs : list chunk) : nat := 2 + length (stream_of cs).

Definition run_server (cfg : scfg) (cs : list chunk) : outcome :=
  perform (server_fuel cs) (server_init cfg cs).
