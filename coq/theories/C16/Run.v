(* C16/Run.v — line driver (two-phase): "S <mech> <uid> <fdcap> <wmax> <obs> <chunks> TAB <observation>".
   model field: OK when the observation is what the model of the code predicts;
   spec field:  OK when the observation conforms to the specification's verdict on the client's stream;
   class field: the known-deviation class the stream falls in (first trigger on the ideal run), or "-". *)
From ZV Require Import Base.Bytes Base.Res C16.Model C16.Wire C16.Spec.

Definition server_guid : bytes := B "0123456789abcdef0123456789abcdef".

Definition parse_uid_tok (t : bytes) : option (option N) :=
  if lbeq t (B "-") then Some None else option_map Some (N_of_dec t).

Definition parse_server_case (c : bytes) : option (scfg * list chunk) :=
  match words c with
  | [s; m; u; f; _; _; ch] =>
      if lbeq s (B "S") then
        match parse_mech m, parse_uid_tok u, parse_bit f, parse_chunks ch with
        | Some (bm, sm), Some uid, Some fd, Some cs => Some (mkScfg bm sm uid fd server_guid, cs)
        | _, _, _, _ => None
        end
      else None
  | _ => None
  end.

Fixpoint parse_ids (ts : list bytes) : option (list N) :=
  match ts with
  | [] => Some []
  | t :: r => match N_of_dec t, parse_ids r with Some n, Some l => Some (n :: l) | _, _ => None end
  end.

Definition obs_of_observation (o : observation) : option obs :=
  let st := match Wire.ob_status o with Wire.StDone => StDone | Wire.StErr => StErr | Wire.StPanic => StPanic end in
  let tail := match Wire.ob_tail o with Some t => t | None => [] end in
  let fds := match Wire.ob_fds o with
             | None => Some []
             | Some t => if lbeq t (B "-") then Some [] else parse_ids (split_on "."%byte t)
             end in
  option_map (fun f => mkObs st (Wire.ob_w o) (Wire.ob_fd o) tail f) fds.

Definition klass_tok (k : option klass) : bytes :=
  match k with
  | None => dash
  | Some KMalformed => B "malformed_line_aborts"
  end.

Definition verdict_tok (v : verdict) : bytes :=
  match v with VDone _ _ _ => B "DONE" | VFail _ => B "FAIL" | VUnclear => B "UNCLEAR" end.

Definition run_case (line : bytes) : outp :=
  let '(c, obstr) := first_tab_split line in
  match parse_server_case c with
  | None => bad_case
  | Some (cfg, cs) =>
      let pred := render_outcome false (run_server cfg cs) in
      let '(v, k) := spec_server (ctx_of cfg) (stream_of cs) in
      (* a zero-length read in the middle of the script is an EOF the stream-level specification cannot see *)
      let in_contract := chunks_nonempty cs in
      let sp := if negb in_contract then dash else
                match parse_observation obstr with
                | None => B "SPEC:unreadable-observation"
                | Some o =>
                    match obs_of_observation o with
                    | None => B "SPEC:unreadable-observation"
                    | Some ob => if conforms (ctx_of cfg) v (fds_of cs) ob then B "OK"
                                 else B "SPEC-EXPECTS:" ++ verdict_tok v
                    end
                end in
      {| o_model := if lbeq pred obstr then B "OK" else B "MODEL-PREDICTS:" ++ pred;
         o_spec := sp; o_class := if in_contract then klass_tok k else dash |}
  end.

Definition run (line : bytes) : bytes := render (run_case line).
