(* C18/Model.v — executable mirror of
     zbus/src/connection/mod.rs          Connection::send:   let mut write = self.inner.socket_write.lock().await;
                                                             write.send_message(msg).await          (guard dropped at return)
     zbus/src/connection/socket/mod.rs   WriteHalf::send_message:
                                             let mut pos = 0;
                                             while pos < data.len() {
                                                 let fds = if pos == 0 { data.fds() } else { vec![] };
                                                 pos += self.sendmsg(&data[pos..], &fds).await?;
                                             }
   as a small-step system.  Any number of tasks; task i sends the messages of its program one after the other.
   One step = one atomic action of one task: acquiring the writer mutex, one sendmsg that accepts n bytes
   (1 <= n <= what was offered: the transport decides), or releasing the mutex when the loop is over.
   While a sendmsg is pending, other tasks may run; all they can do is wait for the mutex
   (assumed contract of async_lock::Mutex: mutual exclusion).  No proofs in this file. *)
From ZV Require Import Base.Bytes Base.Res.

Definition fd := N.
Record msg := { mbytes : bytes; mfds : list fd }.

(* the task that holds socket_write, the message it is sending, and `pos` *)
Record hold := { h_task : nat; h_msg : msg; h_pos : nat }.

Record sys := {
  tasks : nat -> list msg;             (* what each task still has to send (not counting the message in flight) *)
  holder : option hold;                (* socket_write *)
  wire : bytes;                        (* bytes accepted by the transport so far *)
  fdat : list (nat * list fd);         (* ancillary data: (wire offset of the sendmsg that carried it, descriptors) *)
  order : list (nat * msg)             (* ghost: completed sends, in the order the mutex was released *)
}.

Definition init (progs : nat -> list msg) : sys :=
  {| tasks := progs; holder := None; wire := []; fdat := []; order := [] |}.

Inductive label :=
  | LLock (i : nat)        (* task i: socket_write.lock() succeeds *)
  | LSend (n : nat)        (* the holder's sendmsg accepts n bytes *)
  | LUnlock.               (* the holder's loop is over: send_message returns, the guard is dropped *)

Definition upd (f : nat -> list msg) (i : nat) (v : list msg) : nat -> list msg :=
  fun j => if Nat.eqb j i then v else f j.

(* None = the label is not enabled in this state *)
Definition step (l : label) (s : sys) : option sys :=
  match l, holder s with
  | LLock i, None =>
      match tasks s i with
      | m :: r => Some {| tasks := upd (tasks s) i r; holder := Some {| h_task := i; h_msg := m; h_pos := 0 |};
                          wire := wire s; fdat := fdat s; order := order s |}
      | [] => None
      end
  | LSend n, Some h =>
      let len := length (mbytes (h_msg h)) in
      if (h_pos h <? len) && (1 <=? n) && (n <=? len - h_pos h) then          (* while pos < len; 1 <= n <= |&data[pos..]| *)
        Some {| tasks := tasks s;
                holder := Some {| h_task := h_task h; h_msg := h_msg h; h_pos := h_pos h + n |};
                wire := wire s ++ firstn n (skipn (h_pos h) (mbytes (h_msg h)));
                fdat := if h_pos h =? 0 then fdat s ++ [(length (wire s), mfds (h_msg h))] else fdat s;   (* fds iff pos == 0 *)
                order := order s |}
      else None
  | LUnlock, Some h =>
      if length (mbytes (h_msg h)) <=? h_pos h then
        Some {| tasks := tasks s; holder := None; wire := wire s; fdat := fdat s;
                order := order s ++ [(h_task h, h_msg h)] |}
      else None
  | _, _ => None
  end.

Fixpoint run (tr : list label) (s : sys) : option sys :=
  match tr with
  | [] => Some s
  | l :: r => match step l s with Some s' => run r s' | None => None end
  end.
