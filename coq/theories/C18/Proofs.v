(* C18/Proofs.v — in every reachable state of the sender system the wire is a sequence of whole messages, in an
   order that respects each task's program, followed by a prefix of the message in flight; descriptors are attached
   exactly at first bytes.  For every scheduler and every way the transport splits the writes. *)
From ZV Require Import Base.Bytes Base.Res C18.Model C18.Spec.
From Coq Require Import Lia.

Lemma firstn_add {A} (a b : nat) (l : list A) : firstn (a + b) l = firstn a l ++ firstn b (skipn a l).
Proof.
  revert l; induction a as [|a IH]; intros l; [reflexivity|].
  destruct l as [|x l]; [now rewrite !firstn_nil|]. cbn. now rewrite IH.
Qed.

Lemma wire_of_app a b : wire_of (a ++ b) = wire_of a ++ wire_of b.
Proof. apply flat_map_app. Qed.

Lemma fds_of_app a b off : fds_of off (a ++ b) = fds_of off a ++ fds_of (off + length (wire_of a)) b.
Proof.
  revert off; induction a as [|[t m] a IH]; intros off; cbn [app fds_of wire_of flat_map length].
  - now rewrite Nat.add_0_r.
  - rewrite IH. fold (wire_of a). rewrite app_length. cbn [snd]. now rewrite Nat.add_assoc.
Qed.

Lemma proj_app i a b : proj i (a ++ b) = proj i a ++ proj i b.
Proof. unfold proj. now rewrite filter_app, map_app. Qed.

Lemma proj_one i t m : proj i [(t, m)] = if Nat.eqb i t then [m] else [].
Proof. unfold proj. cbn. rewrite (Nat.eqb_sym t i). now destruct (Nat.eqb i t). Qed.

Definition nonempty (progs : nat -> list msg) : Prop := forall i m, In m (progs i) -> mbytes m <> [].

(* ------------------------------------------------------------------ the invariant *)
Theorem wire_invariant progs tr s : nonempty progs -> reach progs tr s -> wire_ok progs s.
Proof.
  intros Hne Hr. induction Hr as [|tr s l s' Hr IH Hs].
  - unfold wire_ok, init. cbn. repeat split.
  - unfold wire_ok in IH. unfold step in Hs. destruct l as [i|n|]; destruct (holder s) as [h|] eqn:Hh; try discriminate.
    + (* lock *)
      destruct IH as (Hw & Hf & Hp). destruct (tasks s i) as [|m r] eqn:Ht; [discriminate|].
      inversion Hs; subst s'; clear Hs. unfold wire_ok. cbn [holder wire fdat order tasks h_pos h_msg h_task].
      rewrite app_nil_r. repeat split; try assumption; [lia|].
      intros j. unfold upd. rewrite <- (Hp j). destruct (Nat.eqb j i) eqn:E.
      * apply Nat.eqb_eq in E. subst j. now rewrite Ht.
      * reflexivity.
    + (* one sendmsg *)
      destruct IH as (Hw & Hle & Hf & Hp).
      destruct ((h_pos h <? length (mbytes (h_msg h))) && (1 <=? n) && (n <=? length (mbytes (h_msg h)) - h_pos h)) eqn:Hc;
        [|discriminate].
      apply Bool.andb_true_iff in Hc. destruct Hc as [Hc Hc3]. apply Bool.andb_true_iff in Hc. destruct Hc as [Hc1 Hc2].
      apply Nat.ltb_lt in Hc1. apply Nat.leb_le in Hc2, Hc3.
      inversion Hs; subst s'; clear Hs. unfold wire_ok. cbn [holder wire fdat order tasks h_pos h_msg h_task].
      repeat split.
      * rewrite Hw, <- app_assoc. f_equal. symmetry. apply firstn_add.
      * lia.
      * replace (h_pos h + n =? 0) with false by (symmetry; apply Nat.eqb_neq; lia).
        destruct (h_pos h =? 0) eqn:E0.
        -- apply Nat.eqb_eq in E0. rewrite Hf, fds_of_app. cbn [fds_of]. rewrite Hw, E0. cbn [firstn]. now rewrite app_nil_r.
        -- exact Hf.
      * exact Hp.
    + (* unlock *)
      destruct IH as (Hw & Hle & Hf & Hp).
      destruct (length (mbytes (h_msg h)) <=? h_pos h) eqn:Hc; [|discriminate]. apply Nat.leb_le in Hc.
      inversion Hs; subst s'; clear Hs. unfold wire_ok. cbn [holder wire fdat order tasks].
      assert (Hin : In (h_msg h) (progs (h_task h))).
      { rewrite <- (Hp (h_task h)), Nat.eqb_refl. apply in_app_iff. right. now left. }
      assert (Hpos : h_pos h <> 0).
      { intros E. apply (Hne _ _ Hin). destruct (mbytes (h_msg h)); [reflexivity | cbn in Hc; lia]. }
      repeat split.
      * rewrite Hw, wire_of_app. f_equal. cbn. rewrite app_nil_r. apply firstn_all2. lia.
      * rewrite Hf. now replace (h_pos h =? 0) with false by (symmetry; apply Nat.eqb_neq; exact Hpos).
      * intros i. rewrite proj_app, proj_one, <- app_assoc. apply Hp.
Qed.

(* when everybody is done: whole messages only, an interleaving of the programs, descriptors at first bytes *)
Theorem wire_final progs tr s : nonempty progs -> reach progs tr s -> quiescent s ->
  wire s = wire_of (order s) /\ fdat s = fds_of 0 (order s) /\ interleaving progs (order s).
Proof.
  intros Hne Hr [Hh Ht]. pose proof (wire_invariant progs tr s Hne Hr) as H. unfold wire_ok in H. rewrite Hh in H.
  destruct H as (Hw & Hf & Hp). repeat split; try assumption. intros i. rewrite <- (Hp i), Ht. now rewrite app_nil_r.
Qed.

Theorem wire_final' progs tr s : nonempty progs -> reach progs tr s ->
  holder s = None -> (forall i, tasks s i = []) ->
  wire s = wire_of (order s) /\ fdat s = fds_of 0 (order s) /\ forall i, proj i (order s) = progs i.
Proof. intros Hne Hr Hh Ht. exact (wire_final progs tr s Hne Hr (conj Hh Ht)). Qed.

(* no byte of another message ever sits between the bytes of the message in flight: at any moment the wire ends
   with exactly the first pos bytes of the holder's message, and before them only whole messages *)
Theorem wire_in_flight progs tr s h : nonempty progs -> reach progs tr s -> holder s = Some h ->
  wire s = wire_of (order s) ++ firstn (h_pos h) (mbytes (h_msg h)) /\ h_pos h <= length (mbytes (h_msg h)).
Proof.
  intros Hne Hr Hh. pose proof (wire_invariant progs tr s Hne Hr) as H. unfold wire_ok in H. rewrite Hh in H. tauto.
Qed.

(* replaying a recorded schedule through the executable [run] stays inside the step relation *)
Lemma run_reach_gen progs : forall tr tr0 s0 s, reach progs tr0 s0 -> run tr s0 = Some s -> reach progs (tr0 ++ tr) s.
Proof.
  induction tr as [|l tr IH]; intros tr0 s0 s Hr Hrun; cbn [run] in Hrun.
  - inversion Hrun; subst. now rewrite app_nil_r.
  - destruct (step l s0) as [s1|] eqn:E; [|discriminate].
    replace (tr0 ++ l :: tr) with ((tr0 ++ [l]) ++ tr) by (now rewrite <- app_assoc).
    apply (IH _ s1); [econstructor; eassumption | assumption].
Qed.
Theorem run_sound progs tr s : run tr (init progs) = Some s -> reach progs tr s.
Proof. intros H. apply (run_reach_gen progs tr [] (init progs) s); [constructor | assumption]. Qed.

(* ------------------------------------------------------------------ the oracle is sound *)
Lemma beq_eq a b : beq a b = true -> a = b.
Proof. unfold beq. apply Byte.byte_dec_bl. Qed.

Lemma starts_with_app p l : starts_with p l = true -> l = p ++ skipn (length p) l.
Proof.
  revert l; induction p as [|a p IH]; intros l H; [reflexivity|].
  destruct l as [|b l]; [discriminate|]. cbn in H. apply Bool.andb_true_iff in H. destruct H as [H1 H2].
  apply beq_eq in H1. subst b. cbn. f_equal. now apply IH.
Qed.

Lemma pick_spec w : forall ps i m ps', pick w ps = Some (i, m, ps') ->
  nth i ps [] = m :: nth i ps' [] /\ (forall j, j <> i -> nth j ps' [] = nth j ps []) /\
  w = mbytes m ++ skipn (length (mbytes m)) w /\ mbytes m <> [].
Proof.
  induction ps as [|p rest IH]; intros i m ps' H; [discriminate|]. cbn [pick] in H.
  assert (Hother : match pick w rest with Some (i0, m', rest') => Some (S i0, m', p :: rest') | None => None end = Some (i, m, ps') ->
                   nth i (p :: rest) [] = m :: nth i ps' [] /\ (forall j, j <> i -> nth j ps' [] = nth j (p :: rest) []) /\
                   w = mbytes m ++ skipn (length (mbytes m)) w /\ mbytes m <> []).
  { destruct (pick w rest) as [[[i0 m0] r0]|] eqn:E; [|discriminate]. intros H0. inversion H0; subst i m ps'.
    destruct (IH i0 m0 r0 eq_refl) as (A & B & C & D). repeat split; try assumption.
    intros j Hj. destruct j as [|j]; [reflexivity|]. cbn. apply B. lia. }
  destruct p as [|m0 r]; [now apply Hother|].
  destruct (negb (is_nil (mbytes m0)) && starts_with (mbytes m0) w) eqn:E; [|now apply Hother].
  inversion H; subst i m ps'. apply Bool.andb_true_iff in E. destruct E as [E1 E2]. repeat split.
  - intros j Hj. destruct j as [|j]; [lia | reflexivity].
  - now apply starts_with_app.
  - intros En. rewrite En in E1. discriminate.
Qed.

Lemma all_nil_nth ps : forallb is_nil ps = true -> forall j, nth j ps [] = @nil msg.
Proof.
  induction ps as [|p ps IH]; intros H j; [now destruct j|]. cbn in H. apply Bool.andb_true_iff in H. destruct H as [H1 H2].
  destruct j as [|j]; cbn; [now destruct p | now apply IH].
Qed.

Lemma parse_wire_sound : forall fuel w ps o, parse_wire fuel w ps = Some o ->
  w = wire_of o /\ interleaving (progs_of ps) o.
Proof.
  induction fuel as [|fuel IH]; intros w ps o H; destruct w as [|b w]; cbn [parse_wire] in H.
  - destruct (forallb is_nil ps) eqn:E; [|discriminate]. inversion H; subst o. split; [reflexivity|].
    intros j. unfold progs_of. now rewrite all_nil_nth.
  - discriminate.
  - destruct (forallb is_nil ps) eqn:E; [|discriminate]. inversion H; subst o. split; [reflexivity|].
    intros j. unfold progs_of. now rewrite all_nil_nth.
  - destruct (pick (b :: w) ps) as [[[i m] ps']|] eqn:Ep; [|discriminate].
    destruct (parse_wire fuel (skipn (length (mbytes m)) (b :: w)) ps') as [o'|] eqn:Eo; [|discriminate].
    inversion H; subst o. apply IH in Eo. destruct Eo as [Hw Hi].
    apply pick_spec in Ep. destruct Ep as (A & Bq & C & D). split.
    + cbn [wire_of flat_map snd]. fold (wire_of o'). rewrite <- Hw. exact C.
    + intros j. unfold proj, progs_of in *. cbn [filter fst]. destruct (Nat.eqb i j) eqn:E.
      * apply Nat.eqb_eq in E. subst j. cbn [map snd]. rewrite A. f_equal. apply Hi.
      * apply Nat.eqb_neq in E. rewrite <- (Bq j) by lia. apply Hi.
Qed.

Lemma nlist_eqb_eq a : forall b, nlist_eqb a b = true -> a = b.
Proof.
  induction a as [|x a IH]; intros [|y b] H; try discriminate; [reflexivity|].
  cbn in H. apply Bool.andb_true_iff in H. destruct H as [H1 H2]. apply N.eqb_eq in H1. subst. f_equal. now apply IH.
Qed.
Lemma fdl_eqb_eq a : forall b, fdl_eqb a b = true -> a = b.
Proof.
  induction a as [|[o1 f1] a IH]; intros [|[o2 f2] b] H; try discriminate; [reflexivity|].
  cbn in H. apply Bool.andb_true_iff in H. destruct H as [H H3]. apply Bool.andb_true_iff in H. destruct H as [H1 H2].
  apply Nat.eqb_eq in H1. apply nlist_eqb_eq in H2. subst. f_equal. now apply IH.
Qed.

Theorem spec_check_sound ps w fobs : spec_check ps w fobs = true ->
  exists o, w = wire_of o /\ interleaving (progs_of ps) o /\ fd_clean (fds_of 0 o) = fobs.
Proof.
  unfold spec_check. destruct (parse_wire (S (length w)) w ps) as [o|] eqn:E; [|discriminate].
  intros H. apply parse_wire_sound in E. destruct E as [Hw Hi]. apply fdl_eqb_eq in H. now exists o.
Qed.

(* ------------------------------------------------------------------ non-vacuity: three tasks, partial writes *)
Definition mk (s : string) (f : list fd) : msg := {| mbytes := B s; mfds := f |}.
Definition demo_progs : nat -> list msg := progs_of [[mk "AAAA" [7%N]; mk "aa" []]; [mk "BBB" []]; [mk "CCCCC" [8%N; 9%N]]].

Example demo_run :
  let tr := [LLock 1; LSend 2; LSend 1; LUnlock; LLock 0; LSend 1; LSend 3; LUnlock; LLock 2; LSend 4; LSend 1; LUnlock;
             LLock 0; LSend 2; LUnlock] in
  exists s, run tr (init demo_progs) = Some s /\ quiescent s /\ nonempty demo_progs /\
            wire s = B "BBBAAAACCCCCaa" /\ fd_clean (fdat s) = [(3, [7%N]); (7, [8%N; 9%N])] /\
            spec_check [[mk "AAAA" [7%N]; mk "aa" []]; [mk "BBB" []]; [mk "CCCCC" [8%N; 9%N]]] (wire s) (fd_clean (fdat s)) = true.
Proof.
  cbv zeta. eexists. split; [vm_compute; reflexivity|]. split; [|split; [|split; [|split]]].
  - split; [reflexivity|]. intros i. do 3 (destruct i as [|i]; [reflexivity|]). now destruct i.
  - intros i m. do 3 (destruct i as [|i]; [cbn; intros H; repeat (destruct H as [H|H]; [subst m; discriminate|]); destruct H|]).
    destruct i; cbn; tauto.
  - reflexivity.
  - reflexivity.
  - vm_compute. reflexivity.
Qed.

(* a mid-flight state: task 0 holds the mutex with 2 of its 4 bytes out; nothing of another task can follow *)
Example demo_in_flight :
  exists s h, run [LLock 1; LSend 3; LUnlock; LLock 0; LSend 2] (init demo_progs) = Some s /\ holder s = Some h /\
              h_task h = 0 /\ h_pos h = 2 /\ wire s = B "BBBAA" /\ step (LLock 2) s = None /\ step (LLock 1) s = None.
Proof. eexists. eexists. split; [vm_compute; reflexivity|]. repeat split. Qed.
