(* C18/Spec.v — "concurrent sends never interleave on the wire". *)
From ZV Require Import Base.Bytes Base.Res C18.Model.

(* what the peer must see for a sequence of (task, message) pairs sent whole, one after the other *)
Definition wire_of (o : list (nat * msg)) : bytes := flat_map (fun p => mbytes (snd p)) o.

(* descriptors travel with the first byte of their message: (offset of the message start, descriptors) *)
Fixpoint fds_of (off : nat) (o : list (nat * msg)) : list (nat * list fd) :=
  match o with
  | [] => []
  | (_, m) :: r => (off, mfds m) :: fds_of (off + length (mbytes m)) r
  end.

(* the messages of task i, in wire order *)
Definition proj (i : nat) (o : list (nat * msg)) : list msg :=
  map snd (filter (fun p => Nat.eqb (fst p) i) o).

(* o is an interleaving of the programs that keeps every task's own order and loses / invents nothing *)
Definition interleaving (progs : nat -> list msg) (o : list (nat * msg)) : Prop :=
  forall i, proj i o = progs i.

(* what the peer may have seen at any moment: whole messages, then a prefix of the message in flight *)
Definition wire_ok (progs : nat -> list msg) (s : sys) : Prop :=
  match holder s with
  | None =>
      wire s = wire_of (order s) /\ fdat s = fds_of 0 (order s) /\
      forall i, proj i (order s) ++ tasks s i = progs i
  | Some h =>
      wire s = wire_of (order s) ++ firstn (h_pos h) (mbytes (h_msg h)) /\
      h_pos h <= length (mbytes (h_msg h)) /\
      fdat s = (if h_pos h =? 0 then fds_of 0 (order s) else fds_of 0 (order s ++ [(h_task h, h_msg h)])) /\
      forall i, proj i (order s) ++ (if Nat.eqb i (h_task h) then [h_msg h] else []) ++ tasks s i = progs i
  end.

Inductive reach (progs : nat -> list msg) : list label -> sys -> Prop :=
  | reach_init : reach progs [] (init progs)
  | reach_step tr s l s' : reach progs tr s -> step l s = Some s' -> reach progs (tr ++ [l]) s'.

Definition quiescent (s : sys) : Prop := holder s = None /\ forall i, tasks s i = [].

(* ------------------------------------------------------------------ the property as an executable oracle on what the
   peer received: cut the wire into messages by matching, at each position, the next unsent message of some task
   (messages of different tasks differ: they carry different serial numbers), and compare the descriptor attachments *)
Definition is_nil {A} (l : list A) : bool := match l with [] => true | _ => false end.

Fixpoint pick (w : bytes) (ps : list (list msg)) : option (nat * msg * list (list msg)) :=
  match ps with
  | [] => None
  | p :: rest =>
      let other := match pick w rest with Some (i, m', rest') => Some (S i, m', p :: rest') | None => None end in
      match p with
      | m :: r => if negb (is_nil (mbytes m)) && starts_with (mbytes m) w then Some (O, m, r :: rest) else other
      | [] => other
      end
  end.

Fixpoint parse_wire (fuel : nat) (w : bytes) (ps : list (list msg)) : option (list (nat * msg)) :=
  match w with
  | [] => if forallb is_nil ps then Some [] else None
  | _ :: _ =>
      match fuel with
      | O => None
      | S f =>
          match pick w ps with
          | None => None
          | Some (i, m, ps') =>
              match parse_wire f (skipn (length (mbytes m)) w) ps' with
              | Some o => Some ((i, m) :: o)
              | None => None
              end
          end
      end
  end.

(* only sendmsg calls that carry descriptors are visible to the peer as ancillary data *)
Definition fd_clean (l : list (nat * list fd)) : list (nat * list fd) := filter (fun p => negb (is_nil (snd p))) l.

Fixpoint nlist_eqb (a b : list N) : bool :=
  match a, b with
  | [], [] => true
  | x :: a', y :: b' => N.eqb x y && nlist_eqb a' b'
  | _, _ => false
  end.
Fixpoint fdl_eqb (a b : list (nat * list fd)) : bool :=
  match a, b with
  | [], [] => true
  | (o1, f1) :: a', (o2, f2) :: b' => Nat.eqb o1 o2 && nlist_eqb f1 f2 && fdl_eqb a' b'
  | _, _ => false
  end.

Definition progs_of (ps : list (list msg)) : nat -> list msg := fun i => nth i ps [].

Definition spec_check (ps : list (list msg)) (w : bytes) (fobs : list (nat * list fd)) : bool :=
  match parse_wire (S (length w)) w ps with
  | Some o => fdl_eqb (fd_clean (fds_of 0 o)) fobs
  | None => false
  end.
