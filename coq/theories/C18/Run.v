(* C18/Run.v — two-phase line driver.  The harness ran N sender tasks over one real Connection whose write half is
   scripted (partial writes, Pending), under a seeded scheduler, and printed
       <programs> # <sendmsg calls> # <errors>
     programs = tasks joined by "|", a task = messages joined by ",", a message = <hex>/<fd ids joined by "." or ->
     calls    = <task polled>:<bytes offered>:<bytes accepted>:<fd ids or ->:<hex of the accepted bytes>, joined by ","
   model field: is the call sequence a run of the model (Model.step), ending with everything sent?
   spec field : does what the peer received satisfy the property (Spec.spec_check)? *)
From ZV Require Import Base.Bytes Base.Res C18.Model C18.Spec.

Fixpoint split_fast_aux (sep : byte) (l cur : bytes) : list bytes :=
  match l with
  | [] => [rev_append cur []]
  | c :: r => if beq c sep then rev_append cur [] :: split_fast_aux sep r [] else split_fast_aux sep r (c :: cur)
  end.
Definition split_fast (sep : byte) (l : bytes) : list bytes := split_fast_aux sep l [].

Fixpoint parse_all {A B} (f : A -> option B) (l : list A) : option (list B) :=
  match l with
  | [] => Some []
  | x :: r => match f x, parse_all f r with Some y, Some ys => Some (y :: ys) | _, _ => None end
  end.

Definition parse_fds (s : bytes) : option (list fd) :=
  if lbeq s (B "-") then Some [] else parse_all N_of_dec (split_fast "."%byte s).

Definition parse_msg (s : bytes) : option msg :=
  match split_fast "/"%byte s with
  | [h; f] => match bytes_of_hex h, parse_fds f with
              | Some b, Some fl => Some {| mbytes := b; mfds := fl |}
              | _, _ => None
              end
  | _ => None
  end.

Definition parse_task (s : bytes) : option (list msg) :=
  if lbeq s (B "-") then Some [] else parse_all parse_msg (split_fast ","%byte s).

Record call := { c_task : nat; c_offered : nat; c_accepted : nat; c_fds : list fd; c_bytes : bytes }.

Definition nat_of_dec (s : bytes) : option nat := option_map N.to_nat (N_of_dec s).

Definition parse_call (s : bytes) : option call :=
  match split_fast ":"%byte s with
  | [t; o; a; f; h] =>
      match nat_of_dec t, nat_of_dec o, nat_of_dec a, parse_fds f, bytes_of_hex h with
      | Some t', Some o', Some a', Some f', Some h' =>
          Some {| c_task := t'; c_offered := o'; c_accepted := a'; c_fds := f'; c_bytes := h' |}
      | _, _, _, _, _ => None
      end
  | _ => None
  end.

Definition parse_calls (s : bytes) : option (list call) :=
  if lbeq s (B "-") then Some [] else parse_all parse_call (split_fast ","%byte s).

(* ---- is the observed call sequence a run of the model? every call is made by the task that holds (or now takes) the
   mutex, offers exactly the unsent rest of its message, carries the descriptors iff pos = 0, and the accepted bytes
   are the next bytes of that message ---- *)
Inductive verdict := Good (s : sys) | Bad (why : bytes).

Fixpoint replay (cs : list call) (s : sys) : verdict :=
  match cs with
  | [] => Good s
  | c :: r =>
      match (match holder s with None => step (LLock (c_task c)) s | Some _ => Some s end) with
      | None => Bad (B "task-has-nothing-to-send")
      | Some s1 =>
          match holder s1 with
          | None => Bad (B "no-holder")
          | Some h =>
              let b := mbytes (h_msg h) in
              if negb (Nat.eqb (h_task h) (c_task c)) then Bad (B "mutex-not-exclusive")
              else if negb (Nat.eqb (c_offered c) (length b - h_pos h)) then Bad (B "offered-is-not-the-rest-of-the-message")
              else if negb (nlist_eqb (c_fds c) (if Nat.eqb (h_pos h) 0 then mfds (h_msg h) else [])) then Bad (B "fds-not-exactly-with-first-chunk")
              else if negb (lbeq (c_bytes c) (firstn (c_accepted c) (skipn (h_pos h) b))) then Bad (B "wrong-bytes")
              else
                match step (LSend (c_accepted c)) s1 with
                | None => Bad (B "accepted-out-of-range")
                | Some s2 =>
                    match holder s2 with
                    | Some h2 => if length b <=? h_pos h2
                                 then match step LUnlock s2 with Some s3 => replay r s3 | None => Bad (B "unlock") end
                                 else replay r s2
                    | None => Bad (B "no-holder")
                    end
                end
          end
      end
  end.

Fixpoint all_done (s : sys) (n : nat) : bool :=
  match n with O => true | S n' => is_nil (tasks s n') && all_done s n' end.

Fixpoint obs_fds (off : nat) (cs : list call) : list (nat * list fd) :=
  match cs with
  | [] => []
  | c :: r => (off, c_fds c) :: obs_fds (off + length (c_bytes c)) r
  end.

Definition tokOK : bytes := B "OK".

Definition run_case (line : bytes) : outp :=
  match split_fast tab line with
  | [case; obs] =>
      match split_fast "#"%byte obs with
      | [ps; cs; errs] =>
          match parse_all parse_task (split_fast "|"%byte ps), parse_calls cs with
          | Some progs, Some calls =>
              let model :=
                if negb (lbeq errs (B "-")) then B "send-returned-an-error"
                else match replay calls (init (progs_of progs)) with
                     | Bad why => why
                     | Good s => match holder s with
                                 | Some _ => B "ends-with-a-message-in-flight"
                                 | None => if all_done s (length progs) then tokOK else B "not-everything-was-sent"
                                 end
                     end in
              let w := flat_map c_bytes calls in
              {| o_model := model;
                 o_spec := if spec_check progs w (fd_clean (obs_fds 0 calls)) then tokOK else B "wire-is-not-whole-messages-in-task-order-with-fds-at-first-bytes";
                 o_class := dash |}
          | _, _ => bad_case
          end
      | _ => bad_case
      end
  | _ => bad_case
  end.

Definition run (line : bytes) : bytes := render (run_case line).
