(* C35/Spec.v — what is claimed about a resolved feature assignment.
   (1) Specification of unification itself: the facts of a resolution are exactly those *reachable* from the requests
       through the feature graph (an inductive relation, independent of the iteration in Unify.v).
   (2) Coherence: a NECESSARY condition for the workspace crates to compile under that assignment — every rule of
       Generated.rules holds in every unit, and every compile_error! guard of Generated.requires_any is satisfied.
       It is not sufficient: rustc accepting a crate is not expressible here. *)
From Coq Require Import List Bool.
Import ListNotations.
From ZV Require Import Base.Bytes C35.Types C35.Unify C35.Generated.

(* ---- (1) least-fixed-point specification of the resolver (for manifests without weak "d?/f" features) *)
Inductive Reach (w : list crate) (roots : list fact) : fact -> Prop :=
| reach_root : forall x, In x roots -> Reach w roots x
| reach_step : forall x y, Reach w roots x -> In y (psuccs w x) -> Reach w roots y.

(* ---- (2) coherence of one unit = (crate, build kind) under the resolved facts S *)
Definition rule_holds (S : list fact) (k : kind) (r : rule) : bool :=
  negb (on S (fst (r_if r)) (see crates k (fst (r_if r))) (snd (r_if r)))
  || on S (fst (r_then r)) (see crates k (fst (r_then r))) (snd (r_then r)).

Definition rule_applies (u : bytes * kind) (r : rule) : bool := lbeq (r_unit r) (fst u).

Definition unit_coherent (S : list fact) (u : bytes * kind) : bool :=
  forallb (fun r => negb (rule_applies u r) || rule_holds S (snd u) r) rules.

(* the crate's own compile_error! guard: one of the listed features must be on *)
Definition unit_supported (S : list fact) (u : bytes * kind) : bool :=
  forallb (fun g => negb (lbeq (fst g) (fst u)) || existsb (fun f => on S (fst u) (snd u) f) (snd g)) requires_any.

Definition coherent (S : list fact) : bool := forallb (unit_coherent S) (units crates S).
Definition supported (S : list fact) : bool := forallb (unit_supported S) (units crates S).

(* ---- known deviation class (finding on the pinned tree), named by rule *)
Definition rule_id_eqb (r : rule) (u a f b g : bytes) : bool :=
  lbeq (r_unit r) u && lbeq (fst (r_if r)) a && lbeq (snd (r_if r)) f && lbeq (fst (r_then r)) b && lbeq (snd (r_then r)) g.

(* (the former class gvariant_split — zvariant compiled without `gvariant` against a zvariant_utils that has it — was
   repaired in /repo by commit b1eb512d: zvariant's matches now have `#[cfg(not(feature = "gvariant"))]` catch-all arms, the
   translator no longer emits the rule zvariant_utils/gvariant => zvariant/gvariant) *)
(* blocking_split: zbus compiled without `blocking-api` while zbus_macros (host) has `blocking-api`
   (zbus's own #[proxy] items then name zbus::blocking, which does not exist) *)
Definition is_blocking_split (r : rule) : bool :=
  rule_id_eqb r (B "zbus") (B "zbus_macros") (B "blocking-api") (B "zbus") (B "blocking-api").

Definition Known_C35 (r : rule) : bool := is_blocking_split r.

(* a unit is coherent up to the known classes *)
Definition unit_coherent_mod (S : list fact) (u : bytes * kind) : bool :=
  forallb (fun r => Known_C35 r || negb (rule_applies u r) || rule_holds S (snd u) r) rules.

(* the resolution falls in a known class: some unit violates a known rule *)
Definition violated (S : list fact) (p : rule -> bool) : bool :=
  existsb (fun u => existsb (fun r => p r && rule_applies u r && negb (rule_holds S (snd u) r)) rules) (units crates S).
Definition known_class (S : list fact) : bool := violated S Known_C35.
