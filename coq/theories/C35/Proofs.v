(* C35/Proofs.v — (A) the resolver model computes the least set of facts closed under the feature graph, and never runs
   out of fuel; (B) reachability from a selection is the union of the reachabilities from its single requests;
   (C) hence coherence of *every* selection is decided by a finite table over pairs of single requests. *)
From Coq Require Import List Bool Arith Lia.
Import ListNotations.
From ZV Require Import Base.Bytes C35.Types C35.Unify C35.Generated C35.Spec.

Local Opaque fuel.

(* ------------------------------------------------------------------ equality tests *)
Lemma beq_refl' c : beq c c = true.
Proof. unfold beq. apply Byte.byte_dec_lb. reflexivity. Qed.
Lemma lbeq_iff a : forall b, lbeq a b = true <-> a = b.
Proof.
  induction a as [|x a IH]; intros [|y b]; cbn; split; intro H; try reflexivity; try discriminate.
  - apply andb_true_iff in H as [H1 H2]. apply Byte.byte_dec_bl in H1. apply IH in H2. congruence.
  - inversion H; subst. rewrite beq_refl'. cbn. apply IH. reflexivity.
Qed.
Lemma lbeq_refl a : lbeq a a = true.
Proof. now apply lbeq_iff. Qed.

Lemma kind_eqb_iff a b : kind_eqb a b = true <-> a = b.
Proof. destruct a, b; cbn; split; intro H; try reflexivity; discriminate. Qed.

Lemma fval_eqb_iff a b : fval_eqb a b = true <-> a = b.
Proof.
  destruct a, b; cbn; split; intro H; try discriminate.
  - apply lbeq_iff in H. now subst.
  - inversion H; subst. apply lbeq_refl.
  - apply lbeq_iff in H. now subst.
  - inversion H; subst. apply lbeq_refl.
  - apply andb_true_iff in H as [H H3]. apply andb_true_iff in H as [H1 H2].
    apply lbeq_iff in H1. apply lbeq_iff in H2. apply Bool.eqb_prop in H3. now subst.
  - inversion H; subst. rewrite !lbeq_refl. cbn. apply Bool.eqb_reflx.
Qed.

Lemma fact_eqb_iff a b : fact_eqb a b = true <-> a = b.
Proof.
  destruct a, b; cbn; split; intro H; try discriminate.
  - apply andb_true_iff in H as [H1 H2]. apply lbeq_iff in H1. apply kind_eqb_iff in H2. now subst.
  - inversion H; subst. rewrite lbeq_refl. cbn. now apply kind_eqb_iff.
  - apply andb_true_iff in H as [H H3]. apply andb_true_iff in H as [H1 H2].
    apply lbeq_iff in H1. apply kind_eqb_iff in H2. apply fval_eqb_iff in H3. now subst.
  - inversion H; subst. rewrite lbeq_refl. cbn.
    replace (kind_eqb k0 k0) with true by (symmetry; now apply kind_eqb_iff). cbn. now apply fval_eqb_iff.
Qed.

(* ------------------------------------------------------------------ finite sets as duplicate-free lists *)
Lemma mem_In x St : mem x St = true <-> In x St.
Proof.
  unfold mem. rewrite existsb_exists. split.
  - intros [y [Hy E]]. apply fact_eqb_iff in E. now subst.
  - intros H. exists x. split; [assumption|now apply fact_eqb_iff].
Qed.
Lemma mem_false x St : mem x St = false <-> ~ In x St.
Proof. rewrite <- mem_In. destruct (mem x St); split; intro H; congruence. Qed.

Lemma insert_In x St y : In y (insert x St) <-> y = x \/ In y St.
Proof.
  unfold insert. destruct (mem x St) eqn:E.
  - apply mem_In in E. split; [now right|]. intros [->|H]; assumption.
  - rewrite in_app_iff. cbn. split; [intros [H|[H|[]]]; auto|intros [H|H]; auto].
Qed.
Lemma NoDup_snoc (x : fact) l : NoDup l -> ~ In x l -> NoDup (l ++ [x]).
Proof.
  induction l as [|a l IH]; intros Hn Hx; cbn; [constructor; [intros []|constructor]|].
  inversion Hn; subst. constructor.
  - rewrite in_app_iff. cbn. intros [H|[H|[]]]; [auto|]. subst. apply Hx. now left.
  - apply IH; [assumption|]. intros H. apply Hx. now right.
Qed.
Lemma insert_NoDup x St : NoDup St -> NoDup (insert x St).
Proof.
  intros H. unfold insert. destruct (mem x St) eqn:E; [assumption|].
  apply mem_false in E. now apply NoDup_snoc.
Qed.
Lemma insert_length x St : length St <= length (insert x St).
Proof. unfold insert. destruct (mem x St); [lia|]. rewrite app_length. cbn. lia. Qed.
Lemma insert_same_length x St : length (insert x St) = length St -> In x St.
Proof.
  unfold insert. destruct (mem x St) eqn:E; [intros _; now apply mem_In|].
  rewrite app_length. cbn. lia.
Qed.

Lemma add_all_In xs : forall St y, In y (add_all xs St) <-> In y xs \/ In y St.
Proof.
  unfold add_all. induction xs as [|x xs IH]; intros St y; cbn.
  - split; [now right|intros [[]|H]; assumption].
  - rewrite IH, insert_In. split; [intros [H|[H|H]]; auto|intros [[H|H]|H]; auto].
Qed.
Lemma add_all_NoDup xs : forall St, NoDup St -> NoDup (add_all xs St).
Proof.
  unfold add_all. induction xs as [|x xs IH]; intros St H; cbn; [assumption|]. apply IH. now apply insert_NoDup.
Qed.
Lemma add_all_length xs : forall St, length St <= length (add_all xs St).
Proof.
  unfold add_all. induction xs as [|x xs IH]; intros St; cbn; [lia|].
  specialize (IH (insert x St)). pose proof (insert_length x St). lia.
Qed.
Lemma add_all_same_length xs : forall St, length (add_all xs St) = length St -> incl xs St.
Proof.
  induction xs as [|x xs IH]; intros St H; [intros y []|].
  change (add_all (x :: xs) St) with (add_all xs (insert x St)) in H.
  pose proof (add_all_length xs (insert x St)) as H1. pose proof (insert_length x St) as H2.
  assert (Hx : In x St) by (apply insert_same_length; lia).
  assert (Hi : insert x St = St) by (unfold insert; apply mem_In in Hx; now rewrite Hx).
  rewrite Hi in H. intros y [->|Hy]; [assumption|]. now apply (IH St H).
Qed.

(* ------------------------------------------------------------------ (A) the iteration computes the least closed set *)
Section Resolver.
  Variable w : list crate.
  Hypothesis Hw : any_weak w = false.

  Lemma succs_p St x : succs w St x = psuccs w x.
  Proof. unfold succs. rewrite Hw. apply app_nil_r. Qed.

  Lemma step_In St y : In y (step w St) <-> (exists x, In x St /\ In y (psuccs w x)) \/ In y St.
  Proof.
    unfold step. rewrite add_all_In, in_flat_map. split.
    - intros [[x [Hx Hy]]|H]; [left; exists x; now rewrite <- succs_p with (St := St)|now right].
    - intros [[x [Hx Hy]]|H]; [left; exists x; now rewrite succs_p|now right].
  Qed.

  Definition closed (St : list fact) : Prop := forall x, In x St -> forall y, In y (psuccs w x) -> In y St.

  Lemma closedb_closed St : closedb w St = true <-> closed St.
  Proof.
    unfold closedb, closed. rewrite forallb_forall. split.
    - intros H x Hx y Hy. specialize (H x Hx). rewrite forallb_forall in H. apply mem_In. apply H. now rewrite succs_p.
    - intros H x Hx. apply forallb_forall. intros y Hy. apply mem_In. rewrite succs_p in Hy. eauto.
  Qed.

  Lemma iter_sound roots n : forall St, (forall x, In x St -> Reach w roots x) -> forall x, In x (iter w n St) -> Reach w roots x.
  Proof.
    induction n as [|n IH]; intros St H x Hx; cbn in Hx; [auto|].
    destruct (Nat.eqb (length (step w St)) (length St)); [auto|].
    apply IH in Hx; [assumption|]. intros y Hy. apply step_In in Hy as [[z [Hz Hy]]|Hy]; [|auto].
    eapply reach_step; eauto.
  Qed.

  Lemma closed_complete roots St : closed St -> incl roots St -> forall x, Reach w roots x -> In x St.
  Proof. intros Hc Hi x Hr. induction Hr as [x Hx|x y _ IH Hy]; [now apply Hi|eauto]. Qed.

  Lemma iter_incl n : forall St, incl St (iter w n St).
  Proof.
    induction n as [|n IH]; intros St x Hx; cbn; [assumption|].
    destruct (Nat.eqb (length (step w St)) (length St)); [assumption|]. apply IH. apply step_In. now right.
  Qed.

  (* the resolver's answer is exactly the reachable set *)
  Lemma resolve_spec roots St : resolve w roots = Some St -> forall x, In x St <-> Reach w roots x.
  Proof.
    unfold resolve. destruct (closedb w (iter w fuel (add_all roots []))) eqn:Ec; [|discriminate].
    intros E. injection E as E. subst St. apply closedb_closed in Ec. intros x. split.
    - apply iter_sound. intros y Hy. apply add_all_In in Hy as [Hy|[]]. now apply reach_root.
    - apply closed_complete; [assumption|]. intros y Hy. apply iter_incl. apply add_all_In. now left.
  Qed.

  (* ---- it never runs out of fuel: the facts live in a finite closed universe U *)
  Lemma iter_closed U (HU : closed U) n : forall St, NoDup St -> incl St U -> length U - length St < n -> closed (iter w n St).
  Proof.
    induction n as [|n IH]; intros St Hnd Hi Hlt; [lia|]. cbn.
    destruct (Nat.eqb (length (step w St)) (length St)) eqn:El.
    - apply Nat.eqb_eq in El. unfold step in El. apply add_all_same_length in El.
      intros x Hx y Hy. apply El. apply in_flat_map. exists x. split; [assumption|now rewrite succs_p].
    - apply Nat.eqb_neq in El.
      assert (Hnd' : NoDup (step w St)) by (now apply add_all_NoDup).
      assert (Hi' : incl (step w St) U).
      { intros y Hy. apply step_In in Hy as [[x [Hx Hy]]|Hy]; [|now apply Hi]. eapply HU; eauto. }
      apply IH; [assumption|assumption|].
      pose proof (add_all_length (flat_map (succs w St) St) St) as Hge. fold (step w St) in Hge.
      pose proof (NoDup_incl_length Hnd' Hi'). lia.
  Qed.

  Lemma resolve_total U roots : closed U -> incl roots U -> length U < fuel -> exists St, resolve w roots = Some St.
  Proof.
    intros HU Hi Hl. unfold resolve.
    assert (Hc : closed (iter w fuel (add_all roots []))).
    { apply (iter_closed U HU); [apply add_all_NoDup; constructor| |lia].
      intros x Hx. apply add_all_In in Hx as [Hx|[]]. now apply Hi. }
    apply closedb_closed in Hc. rewrite Hc. eauto.
  Qed.

  (* ---- (B) reachability distributes over the union of the roots *)
  Lemma reach_mono roots roots' x : incl roots roots' -> Reach w roots x -> Reach w roots' x.
  Proof. intros Hi Hr. induction Hr; [apply reach_root; auto|eapply reach_step; eauto]. Qed.

  Lemma reach_split roots x : Reach w roots x -> exists r, In r roots /\ Reach w [r] x.
  Proof.
    intros Hr. induction Hr as [x Hx|x y _ [r [Hr1 Hr2]] Hy].
    - exists x. split; [assumption|apply reach_root; now left].
    - exists r. split; [assumption|eapply reach_step; eauto].
  Qed.
End Resolver.

(* ------------------------------------------------------------------ the generated workspace *)
Lemma no_weak : any_weak crates = false.
Proof. vm_compute. reflexivity. Qed.

(* every lib crate with every feature: its roots contain the roots of every well-formed selection *)
Definition full_sel : list req :=
  map (fun c => {| q_crate := c_name c; q_default := true; q_feats := map fst (c_feats c) |}) (filter c_lib crates).
Definition all_roots : list fact := init crates full_sel.

Lemma find_crate_some w c x : find_crate w c = Some x -> In x w /\ c_name x = c.
Proof. unfold find_crate. intros H. apply find_some in H as [H1 H2]. apply lbeq_iff in H2. auto. Qed.

Lemma defines_in w c x f : find_crate w c = Some x -> defines w c f = true -> In f (map fst (c_feats x)).
Proof.
  unfold defines, feat_def. intros E. rewrite E. destruct (find _ (c_feats x)) as [p|] eqn:Ef; [|discriminate].
  intros _. apply find_some in Ef as [H1 H2]. apply lbeq_iff in H2. subst f. now apply in_map.
Qed.

Lemma wf_roots sel : wf_sel crates sel = true -> incl (init crates sel) all_roots.
Proof.
  unfold wf_sel. rewrite forallb_forall. intros Hwf y Hy. unfold init in Hy. apply in_flat_map in Hy as [q [Hq Hy]].
  specialize (Hwf q Hq). unfold wf_req in Hwf. destruct (find_crate crates (q_crate q)) as [x|] eqn:Ex; [|discriminate].
  apply andb_true_iff in Hwf as [Hlib Hf]. rewrite forallb_forall in Hf.
  destruct (find_crate_some _ _ _ Ex) as [Hx Hn].
  unfold all_roots, init. apply in_flat_map.
  exists {| q_crate := c_name x; q_default := true; q_feats := map fst (c_feats x) |}. split.
  - unfold full_sel. apply in_map_iff. exists x. split; [reflexivity|]. apply filter_In. auto.
  - unfold dep_facts in *. cbn [req_dep d_pkg d_feats d_default q_crate q_default q_feats] in *. rewrite Hn.
    set (k' := dep_kind crates KT (req_dep q)) in *.
    assert (Hk : dep_kind crates KT (req_dep {| q_crate := q_crate q; q_default := true; q_feats := map fst (c_feats x) |}) = k').
    { unfold k', dep_kind, req_dep, is_build. cbn. reflexivity. }
    replace (dep_kind crates KT (req_dep {| q_crate := c_name x; q_default := true; q_feats := map fst (c_feats x) |})) with k'
      by (rewrite Hn; symmetry; exact Hk).
    destruct Hy as [Hy|Hy]; [now left|]. right. apply in_app_iff. left.
    apply in_app_iff in Hy as [Hy|Hy].
    + rewrite map_map in Hy. apply in_map_iff in Hy as [f [E Hfin]]. subst y.
      rewrite map_map. apply in_map_iff. exists f. split; [reflexivity|].
      eapply defines_in; [exact Ex|]. now apply Hf.
    + destruct (q_default q && defines crates (q_crate q) (B "default")) eqn:Ed; [|destruct Hy].
      destruct Hy as [Hy|[]]. subst y. apply andb_true_iff in Ed as [_ Ed].
      rewrite map_map. apply in_map_iff. exists (B "default"). split; [reflexivity|].
      eapply defines_in; [exact Ex|exact Ed].
Qed.

(* the closure of each single root, tabulated *)
Definition closure1 (u : fact) : list fact := match resolve crates [u] with Some St => St | None => [] end.
Definition table : list (fact * list fact) := map (fun u => (u, closure1 u)) all_roots.
Definition lookup_in (tbl : list (fact * list fact)) (u : fact) : list fact :=
  match find (fun p => fact_eqb (fst p) u) tbl with Some p => snd p | None => [] end.
Definition lookup (u : fact) : list fact := lookup_in table u.

Definition table_ok : bool :=
  forallb (fun u => match resolve crates [u] with Some _ => true | None => false end) all_roots.
Lemma table_ok_true : table_ok = true.
Proof. vm_compute. reflexivity. Qed.

Lemma lookup_spec u : In u all_roots -> forall x, In x (lookup u) <-> Reach crates [u] x.
Proof.
  intros Hu x. unfold lookup, lookup_in.
  destruct (find (fun p => fact_eqb (fst p) u) table) as [p|] eqn:Ef.
  - apply find_some in Ef as [Hp E]. apply fact_eqb_iff in E. unfold table in Hp. apply in_map_iff in Hp as [u' [E' Hu']].
    subst p. cbn [fst] in E. subst u'. cbn [snd]. unfold closure1.
    pose proof table_ok_true as Hok. unfold table_ok in Hok. rewrite forallb_forall in Hok. specialize (Hok u Hu).
    destruct (resolve crates [u]) as [St|] eqn:Er; [|discriminate]. now apply (resolve_spec crates no_weak).
  - exfalso. assert (Hin : In (u, closure1 u) table) by (unfold table; apply in_map_iff; exists u; auto).
    pose proof (find_none _ _ Ef _ Hin) as Hf. cbn [fst] in Hf.
    assert (Ht : fact_eqb u u = true) by (now apply fact_eqb_iff). congruence.
Qed.

(* the universe: everything any selection can reach *)
Lemma universe_ok : (match resolve crates all_roots with Some St => closedb crates St && (length St <? fuel) | None => false end) = true.
Proof. vm_compute. reflexivity. Qed.

Lemma resolve_sel_total sel : wf_sel crates sel = true -> exists St, resolve_sel crates sel = Some St.
Proof.
  intros Hwf. unfold resolve_sel. pose proof universe_ok as Hu.
  destruct (resolve crates all_roots) as [U|] eqn:Er; [|discriminate].
  apply andb_true_iff in Hu as [Hc Hl]. apply Nat.ltb_lt in Hl. apply (closedb_closed crates no_weak) in Hc.
  apply (resolve_total crates no_weak U); [assumption| |assumption].
  intros x Hx. apply (resolve_spec crates no_weak _ _ Er). apply reach_root. exact (wf_roots sel Hwf x Hx).
Qed.

(* ------------------------------------------------------------------ (C) coherence of every selection from a finite table *)
Definition on_fact (c : bytes) (k : kind) (f : bytes) : fact :=
  match f with [] => FP c k | _ => FV c k (FvFeat f) end.
Lemma on_mem St c k f : on St c k f = mem (on_fact c k f) St.
Proof. destruct f; reflexivity. Qed.

Definition prem (r : rule) (k : kind) : fact := on_fact (fst (r_if r)) (see crates k (fst (r_if r))) (snd (r_if r)).
Definition concl (r : rule) (k : kind) : fact := on_fact (fst (r_then r)) (see crates k (fst (r_then r))) (snd (r_then r)).

Lemma rule_holds_facts St k r : rule_holds St k r = negb (mem (prem r k) St) || mem (concl r k) St.
Proof. unfold rule_holds, prem, concl. now rewrite !on_mem. Qed.

(* for every pair of single requests u1 (bringing the premise) and u2 (bringing the unit), a rule outside p is satisfied
   already inside the closure of u1 or of u2.  (`if` rather than `||`: vm_compute is strict, the inner loop runs only for
   the few u1 that reach a premise; the table and the roots are let-bound so that they are evaluated once) *)
Definition row_ok (tbl : list (fact * list fact)) (roots : list fact) (p : rule -> bool) (u1 : fact) (r : rule) (k : kind) : bool :=
  if p r then true else
  let T1 := lookup_in tbl u1 in
  if negb (mem (prem r k) T1) then true else
  if mem (concl r k) T1 then true else
  forallb (fun u2 => let T2 := lookup_in tbl u2 in
                     if negb (mem (FP (r_unit r) k) T2) then true else mem (concl r k) T2) roots.
Definition table_coherent_in (tbl : list (fact * list fact)) (roots : list fact) (p : rule -> bool) : bool :=
  forallb (fun u1 => forallb (fun r => row_ok tbl roots p u1 r KT && row_ok tbl roots p u1 r KH) rules) roots.
Definition table_coherent (p : rule -> bool) : bool :=
  let tbl := table in let roots := all_roots in table_coherent_in tbl roots p.

Lemma table_coherent_known : table_coherent Known_C35 = true.
Proof. vm_compute. reflexivity. Qed.

Lemma coherent_from_table (p : rule -> bool) : table_coherent p = true ->
  forall sel, wf_sel crates sel = true -> forall St, resolve_sel crates sel = Some St ->
  forall u r, In u (units crates St) -> In r rules -> p r = false -> rule_applies u r = true -> rule_holds St (snd u) r = true.
Proof.
  intros Ht sel Hwf St Er [c k] r Hu Hr Hp Ha. cbn [snd].
  pose proof (wf_roots sel Hwf) as Hroots.
  pose proof (resolve_spec crates no_weak _ _ Er) as Hspec.
  assert (Hsub : forall u x, In u (init crates sel) -> In x (lookup u) -> In x St).
  { intros u x Hu' Hx. apply Hspec. apply (reach_mono crates [u]); [intros z [->|[]]; assumption|].
    destruct (lookup_spec u (Hroots u Hu') x) as [H1 _]. exact (H1 Hx). }
  assert (Hunit : In (FP (r_unit r) k) St).
  { unfold units in Hu. apply in_flat_map in Hu as [x [Hx Hin]]. destruct x as [c' k'|]; [|destruct Hin].
    destruct (find_crate crates c'); [|destruct Hin]. destruct Hin as [E|[]]. inversion E; subst c' k'.
    unfold rule_applies in Ha. cbn in Ha. apply lbeq_iff in Ha. now rewrite Ha. }
  rewrite rule_holds_facts. destruct (mem (prem r k) St) eqn:Ep; [|reflexivity]. cbn.
  destruct (mem (concl r k) St) eqn:Ec; [reflexivity|exfalso].
  apply mem_In in Ep. apply mem_false in Ec.
  apply Hspec in Ep. apply (reach_split crates) in Ep as [u1 [Hu1 Hp1]].
  apply Hspec in Hunit. apply (reach_split crates) in Hunit as [u2 [Hu2 Hp2]].
  destruct (lookup_spec u1 (Hroots _ Hu1) (prem r k)) as [_ H1]. apply H1 in Hp1. clear H1.
  destruct (lookup_spec u2 (Hroots _ Hu2) (FP (r_unit r) k)) as [_ H2]. apply H2 in Hp2. clear H2.
  unfold table_coherent, table_coherent_in in Ht. cbv zeta in Ht. rewrite forallb_forall in Ht. specialize (Ht u1 (Hroots _ Hu1)).
  rewrite forallb_forall in Ht. specialize (Ht r Hr). apply andb_true_iff in Ht as [HtT HtH].
  assert (Hk : row_ok table all_roots p u1 r k = true) by (destruct k; assumption).
  unfold row_ok in Hk. cbv zeta in Hk. fold (lookup u1) in Hk. rewrite Hp in Hk.
  apply mem_In in Hp1. rewrite Hp1 in Hk. cbn [negb] in Hk.
  destruct (mem (concl r k) (lookup u1)) eqn:Ec1.
  - apply mem_In in Ec1. apply Ec. exact (Hsub u1 _ Hu1 Ec1).
  - rewrite forallb_forall in Hk. specialize (Hk u2 (Hroots _ Hu2)). fold (lookup u2) in Hk.
    apply mem_In in Hp2. rewrite Hp2 in Hk. cbn [negb] in Hk. apply mem_In in Hk.
    apply Ec. exact (Hsub u2 _ Hu2 Hk).
Qed.

(* ---- the theorems of Properties/C35.v *)
Lemma coherent_partial_units : forall sel, wf_sel crates sel = true -> forall St, resolve_sel crates sel = Some St ->
  forallb (unit_coherent_mod St) (units crates St) = true.
Proof.
  intros sel Hwf St Er. apply forallb_forall. intros u Hu. unfold unit_coherent_mod. apply forallb_forall. intros r Hr.
  destruct (Known_C35 r) eqn:Ek; [reflexivity|]. cbn.
  destruct (rule_applies u r) eqn:Ea; [|reflexivity]. cbn.
  eapply (coherent_from_table Known_C35 table_coherent_known); eauto.
Qed.

Lemma coherent_partial : forall sel, wf_sel crates sel = true -> forall St, resolve_sel crates sel = Some St ->
  known_class St = false -> forallb (unit_coherent St) (units crates St) = true.
Proof.
  intros sel Hwf St Er Hk. pose proof (coherent_partial_units sel Hwf St Er) as Hm.
  rewrite forallb_forall in Hm. apply forallb_forall. intros u Hu. specialize (Hm u Hu).
  unfold unit_coherent_mod in Hm. rewrite forallb_forall in Hm. unfold unit_coherent. apply forallb_forall. intros r Hr.
  specialize (Hm r Hr).
  destruct (rule_applies u r) eqn:Ea; [|reflexivity]. cbn.
  destruct (rule_holds St (snd u) r) eqn:Eh; [reflexivity|exfalso].
  change (negb true) with false in Hm. rewrite !orb_false_r in Hm.
  unfold known_class, violated in Hk.
  assert (Hx : existsb (fun u0 => existsb (fun r0 => Known_C35 r0 && rule_applies u0 r0 && negb (rule_holds St (snd u0) r0)) rules)
                       (units crates St) = true).
  { apply existsb_exists. exists u. split; [assumption|]. apply existsb_exists. exists r. split; [assumption|].
    now rewrite Hm, Ea, Eh. }
  congruence.
Qed.

(* the refutations: witnesses evaluated in the kernel *)
Definition sel_gvariant : list req :=
  [ {| q_crate := B "zbus"; q_default := true; q_feats := [] |};
    {| q_crate := B "zvariant"; q_default := true; q_feats := [B "gvariant"] |} ].
Definition sel_blocking : list req :=
  [ {| q_crate := B "zbus"; q_default := false; q_feats := [B "tokio"] |};
    {| q_crate := B "zbus_macros"; q_default := true; q_feats := [B "blocking-api"] |} ].

Definition refutes (sel : list req) (p : rule -> bool) : bool :=
  wf_sel crates sel &&
  match resolve_sel crates sel with
  | Some St => supported St && negb (forallb (unit_coherent St) (units crates St)) && violated St p
  | None => false
  end.

Lemma refutes_exists sel p : refutes sel p = true ->
  wf_sel crates sel = true /\ exists St, resolve_sel crates sel = Some St /\ supported St = true
    /\ forallb (unit_coherent St) (units crates St) = false /\ violated St p = true.
Proof.
  unfold refutes. intros H. apply andb_true_iff in H as [H1 H2]. split; [assumption|].
  destruct (resolve_sel crates sel) as [St|]; [|discriminate]. exists St.
  apply andb_true_iff in H2 as [H2 H4]. apply andb_true_iff in H2 as [H2 H3]. apply negb_true_iff in H3. auto.
Qed.

(* the former witness of gvariant_split (fixed by b1eb512d): still resolved with the host/target split, now coherent *)
Lemma gvariant_now_coherent :
  wf_sel crates sel_gvariant = true /\
  match resolve_sel crates sel_gvariant with Some St => coherent St && supported St && negb (known_class St) | None => false end = true.
Proof. split; vm_compute; reflexivity. Qed.

Lemma blocking_refuted : exists sel, sel = sel_blocking /\
  wf_sel crates sel = true /\ exists St, resolve_sel crates sel = Some St /\ supported St = true
    /\ forallb (unit_coherent St) (units crates St) = false /\ violated St is_blocking_split = true.
Proof. exists sel_blocking. split; [reflexivity|]. apply refutes_exists. vm_compute. reflexivity. Qed.

(* with the host build of zvariant given `gvariant` too (zbus_macros/gvariant) the selection stays coherent *)
Definition sel_gvariant_repaired : list req := sel_gvariant ++ [ {| q_crate := B "zbus_macros"; q_default := true; q_feats := [B "gvariant"] |} ].
Lemma gvariant_repaired_coherent :
  match resolve_sel crates sel_gvariant_repaired with Some St => coherent St && supported St | None => false end = true.
Proof. vm_compute. reflexivity. Qed.

(* non-vacuity of the partial theorem: a well-formed selection outside the known classes with all five rules in play *)
Example partial_instance :
  wf_sel crates sel_gvariant_repaired = true /\
  match resolve_sel crates sel_gvariant_repaired with Some St => negb (known_class St) && (7 <=? length (units crates St)) | None => false end = true.
Proof. split; vm_compute; reflexivity. Qed.

(* the feature-graph mechanism behind the former finding gvariant_split, edge by edge (still what cargo does; harmless
   since b1eb512d because zvariant's matches have catch-all arms): the target build of zvariant forwards `gvariant` to the proc-macro
   crate zvariant_derive, which exists only as a host unit; from there it reaches the HOST build of zvariant_utils; the
   host build of zvariant (a dependency of zbus_macros) is never asked for `gvariant` *)
Definition gv := B "gvariant".
Definition mechanism_edges : list (fact * fact) :=
  [ (FV (B "zvariant") KT (FvFeat gv), FV (B "zvariant") KT (FvDepFeat (B "zvariant_derive") gv false));
    (FV (B "zvariant") KT (FvDepFeat (B "zvariant_derive") gv false), FV (B "zvariant_derive") KH (FvFeat gv));
    (FV (B "zvariant_derive") KH (FvFeat gv), FV (B "zvariant_derive") KH (FvDepFeat (B "zvariant_utils") gv false));
    (FV (B "zvariant_derive") KH (FvDepFeat (B "zvariant_utils") gv false), FV (B "zvariant_utils") KH (FvFeat gv));
    (FP (B "zbus") KT, FP (B "zbus_macros") KH);
    (FP (B "zbus_macros") KH, FP (B "zvariant") KH) ].
Definition mechanism_check : bool :=
  forallb (fun e => mem (snd e) (psuccs crates (fst e))) mechanism_edges &&
  match resolve_sel crates sel_gvariant with
  | Some St => mem (FV (B "zvariant") KT (FvFeat gv)) St && mem (FP (B "zbus") KT) St
               && mem (FV (B "zvariant_utils") KH (FvFeat gv)) St && mem (FP (B "zvariant") KH) St
               && negb (mem (FV (B "zvariant") KH (FvFeat gv)) St)
  | None => false
  end.
Lemma gvariant_mechanism : mechanism_check = true.
Proof. vm_compute. reflexivity. Qed.
