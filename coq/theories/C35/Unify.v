(* C35/Unify.v — executable model of cargo's feature unification for resolver "2"
   (cargo/src/cargo/core/resolver/features.rs: FeatureResolver::{activate_pkg, activate_fv, activate_rec,
   activate_dependency, activate_dep_feature, deps, fvs_from_dependency}), per package and per *build kind*
   (target = FeaturesFor::NormalOrDev, host = FeaturesFor::HostDep: proc-macro crates, build dependencies and everything
   below them), without dev-dependencies (no test/bench/example units are requested: `cargo check` of library targets).
   The resolver's state (activated_features, activated_dependencies, processed_deps) is a set of *facts*; cargo's
   depth-first activation computes the least set closed under the successor function below. No proofs in this file. *)
From Coq Require Import List Bool Arith.
Import ListNotations.
From ZV Require Import Base.Bytes C35.Types.

Inductive kind := KT | KH.      (* target build / host build *)

Inductive fact :=
| FP (c : bytes) (k : kind)                 (* package c is compiled in kind k (activate_pkg ran for it) *)
| FV (c : bytes) (k : kind) (v : fval).     (* feature value v was activated on c in kind k (activate_fv):
                                               FvFeat f = feature f is on; FvDep d = optional dependency d is on *)

Definition kind_eqb (a b : kind) : bool := match a, b with KT, KT | KH, KH => true | _, _ => false end.

Definition fval_eqb (a b : fval) : bool :=
  match a, b with
  | FvFeat f, FvFeat g => lbeq f g
  | FvDep d, FvDep e => lbeq d e
  | FvDepFeat d f w, FvDepFeat e g v => lbeq d e && lbeq f g && Bool.eqb w v
  | _, _ => false
  end.

Definition fact_eqb (a b : fact) : bool :=
  match a, b with
  | FP c k, FP c' k' => lbeq c c' && kind_eqb k k'
  | FV c k v, FV c' k' v' => lbeq c c' && kind_eqb k k' && fval_eqb v v'
  | _, _ => false
  end.

Definition mem (x : fact) (S : list fact) : bool := existsb (fact_eqb x) S.
Definition insert (x : fact) (S : list fact) : list fact := if mem x S then S else S ++ [x].
Definition add_all (xs S : list fact) : list fact := fold_left (fun acc x => insert x acc) xs S.

Definition is_dev (d : dep) : bool := match d_kind d with DDev => true | _ => false end.
Definition is_build (d : dep) : bool := match d_kind d with DBuild => true | _ => false end.

Section World.
  Variable w : list crate.

  Definition find_crate (c : bytes) : option crate := find (fun x => lbeq (c_name x) c) w.
  Definition is_pm (c : bytes) : bool := match find_crate c with Some x => c_proc_macro x | None => false end.
  Definition feat_def (c f : bytes) : option (list fval) :=
    match find_crate c with
    | Some x => match find (fun p => lbeq (fst p) f) (c_feats x) with Some p => Some (snd p) | None => None end
    | None => None
    end.
  Definition defines (c f : bytes) : bool := match feat_def c f with Some _ => true | None => false end.

  (* FeatureResolver::deps: platform-inactive and dev dependencies are dropped *)
  Definition live_deps (c : bytes) : list dep :=
    match find_crate c with
    | Some x => filter (fun d => d_platform_ok d && negb (is_dev d)) (c_deps x)
    | None => []
    end.
  Definition deps_named (c dn : bytes) : list dep := filter (fun d => lbeq (d_name d) dn) (live_deps c).

  (* lib_fk: a build dependency or a proc-macro is built for the host, and so is everything below a host unit *)
  Definition dep_kind (k : kind) (d : dep) : kind :=
    match k with KH => KH | KT => if is_build d || is_pm (d_pkg d) then KH else KT end.

  (* fvs_from_dependency + activate_pkg for one dependency edge *)
  Definition dep_facts (k : kind) (d : dep) : list fact :=
    let k' := dep_kind k d in
    FP (d_pkg d) k' :: map (FV (d_pkg d) k') (d_feats d)
      ++ (if d_default d && defines (d_pkg d) (B "default") then [FV (d_pkg d) k' (FvFeat (B "default"))] else []).

  (* what one fact entails on its own *)
  Definition psuccs (x : fact) : list fact :=
    match x with
    | FP c k => flat_map (dep_facts k) (filter (fun d => negb (d_optional d)) (live_deps c))
    | FV c k (FvFeat f) => match feat_def c f with Some vs => map (FV c k) vs | None => [] end
    | FV c k (FvDep dn) => flat_map (dep_facts k) (deps_named c dn)
    | FV c k (FvDepFeat dn f weak) =>
        flat_map (fun d =>
          (if d_optional d then
             if weak then []
             else FV c k (FvDep dn) :: (if defines c dn then [FV c k (FvFeat dn)] else [])
           else [])
          ++ (if d_optional d && weak then [] else [FV (d_pkg d) (dep_kind k d) (FvFeat f)])) (deps_named c dn)
    end.

  (* weak dependency features "d?/f": only once the optional dependency d is on (deferred_weak_dependencies) *)
  Definition wsuccs (S : list fact) (x : fact) : list fact :=
    match x with
    | FV c k (FvDepFeat dn f true) =>
        flat_map (fun d => if d_optional d && mem (FV c k (FvDep dn)) S
                           then [FV (d_pkg d) (dep_kind k d) (FvFeat f)] else []) (deps_named c dn)
    | _ => []
    end.

  Definition fv_weak (v : fval) : bool := match v with FvDepFeat _ _ true => true | _ => false end.
  Definition any_weak : bool :=
    existsb (fun x => existsb (fun p => existsb fv_weak (snd p)) (c_feats x)
                      || existsb (fun d => existsb fv_weak (d_feats d)) (c_deps x)) w.

  Definition succs (S : list fact) (x : fact) : list fact :=
    psuccs x ++ (if any_weak then wsuccs S x else []).

  Definition step (S : list fact) : list fact := add_all (flat_map (succs S) S) S.

  Fixpoint iter (n : nat) (S : list fact) : list fact :=
    match n with
    | O => S
    | Datatypes.S n' => let S' := step S in if Nat.eqb (length S') (length S) then S else iter n' S'
    end.

  Definition closedb (S : list fact) : bool := forallb (fun x => forallb (fun y => mem y S) (succs S x)) S.

  Definition fuel : nat := 2000.

  (* least closed set containing the roots; None = fuel exhausted (never, see Proofs.resolve_total) *)
  Definition resolve (roots : list fact) : option (list fact) :=
    let S := iter fuel (add_all roots []) in if closedb S then Some S else None.

  (* ---- selections: what a downstream crate writes in its [dependencies] *)
  Record req := { q_crate : bytes; q_default : bool; q_feats : list bytes }.

  Definition req_dep (q : req) : dep :=
    {| d_name := q_crate q; d_pkg := q_crate q; d_kind := DNormal; d_optional := false; d_default := q_default q;
       d_feats := map FvFeat (q_feats q); d_platform_ok := true |}.
  (* activate_pkg(downstream, NormalOrDev) walks the downstream crate's own dependency edges *)
  Definition init (sel : list req) : list fact := flat_map (fun q => dep_facts KT (req_dep q)) sel.
  Definition resolve_sel (sel : list req) : option (list fact) := resolve (init sel).

  Definition wf_req (q : req) : bool :=
    match find_crate (q_crate q) with
    | Some x => c_lib x && forallb (fun f => defines (q_crate q) f) (q_feats q)
    | None => false
    end.
  Definition wf_sel (sel : list req) : bool := forallb wf_req sel.

  (* ---- units and what they were compiled with *)
  Definition units (S : list fact) : list (bytes * kind) :=
    flat_map (fun x => match x with
                       | FP c k => match find_crate c with Some _ => [(c, k)] | None => [] end
                       | _ => [] end) S.
  Definition on (S : list fact) (c : bytes) (k : kind) (f : bytes) : bool :=
    match f with [] => mem (FP c k) S | _ => mem (FV c k (FvFeat f)) S end.
  Definition see (k : kind) (c : bytes) : kind := if is_pm c then KH else k.
End World.
